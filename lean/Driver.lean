import ClvmModel.Proto.Varint
open Clvm Clvm.Proto

/-- one request line `<KIND> <id> <args…>` ↦ one reply line `<id> <reply>` -/
def handleLine (line : String) : String :=
  match line.trimAscii.toString.splitOn " " with
  | kind :: id :: args =>
    let r : Option String :=
      match kind with
      | "VARINT" => handleVarint args
      | _ => none
    match r with
    | some s => id ++ " " ++ s
    | none => id ++ " bad-request"
  | _ => "? bad-request"

partial def loop (h : IO.FS.Stream) (out : IO.FS.Stream) : IO Unit := do
  let line ← h.getLine
  if line.isEmpty then return ()
  out.putStrLn (handleLine line)
  loop h out

def main : IO Unit := do
  let out ← IO.getStdout
  loop (← IO.getStdin) out
