import ClvmModel.Proto.Varint
import ClvmModel.Proto.Alloc
import ClvmModel.Proto.Classic
import ClvmModel.Proto.TreeHash
import ClvmModel.Proto.Crypto
open Clvm Clvm.Proto

/-- one request line `<KIND> <id> <args…>` ↦ one reply line `<id> <reply>` -/
def handleLine (line : String) : String :=
  match line.trimAscii.toString.splitOn " " with
  | kind :: id :: args =>
    let r : Option String :=
      match kind with
      | "VARINT" => handleVarint args
      | "CRYPTO" => handleCrypto args
      | "HASH" => handleHash args
      | "THASH" => handleTHash args
      | "THASHDAG" => handleTHashDag args
      | "ALLOC" => handleAlloc args
      | "SER" => (match args with
          | "classic" :: _ => handleSerClassic args
          | _ => none)
      | "DE" => (match args with
          | "classic" :: _ | "lent" :: _ | "canon" :: _ => handleDeClassic args
          | _ => none)
      | "LEN" => handleLen args
      | "PFX" => handlePfx args
      | _ => none
    match r with
    | some s => id ++ " " ++ s
    | none => id ++ " bad-request"
  | _ => "? bad-request"

partial def loop (h : IO.FS.Stream) (out : IO.FS.Stream) : IO Unit := do
  let line ← h.getLine
  if line.isEmpty then return ()
  out.putStrLn (handleLine line)
  loop h out

def main : IO Unit := do
  let out ← IO.getStdout
  loop (← IO.getStdin) out
