import ClvmModel.Proto.Varint
import ClvmModel.Proto.Alloc
import ClvmModel.Proto.Classic
import ClvmModel.Proto.Run
import ClvmModel.Proto.Costs
import ClvmModel.Proto.Ref
import ClvmModel.Interp.CryptoOps
import ClvmModel.Proto.Backref
import ClvmModel.Proto.TreeHash
import ClvmModel.Proto.Crypto
import ClvmModel.Proto.Serde2026
import ClvmModel.Proto.Py
import ClvmModel.Proto.Incremental
open Clvm Clvm.Proto

/-- one request line `<KIND> <id> <args…>` ↦ one reply line `<id> <reply>` -/
def handleLine (line : String) : String :=
  match line.trimAscii.toString.splitOn " " with
  | kind :: id :: args =>
    let r : Option String :=
      match kind with
      | "VARINT" => handleVarint args
      | "CRYPTO" => handleCrypto args
      | "HASH" => handleHash args
      | "THASH" => handleTHash args
      | "THASHDAG" => handleTHashDag args
      | "ALLOC" => handleAlloc args
      | "SER" => (match args with
          | "classic" :: _ => handleSerClassic args
          | "br" :: _ => handleSerBackref args
          | f :: _ => if f.startsWith "2026:" then handleSer2026 args else none
          | _ => none)
      | "DE" => (match args with
          | "classic" :: _ | "lent" :: _ | "canon" :: _ => handleDeClassic args
          | "br" :: _ | "brold" :: _ | "len" :: _ => handleDeBackref args
          | "2026" :: _ | "len2026" :: _ => handleDe2026 args
          | _ => none)
      | "INTERN" => handleIntern args
      | "PATH" => handlePath args
      | "INC" => handleInc args
      | "INCWHY" => handleIncWhy args
      | "LEN" => handleLen args
      | "PFX" => handlePfx args
      | "RUN" => handleRunWith {} Clvm.Interp.cryptoExtra args
      | "OP" => handleOpWith {} Clvm.Interp.cryptoExtra args
      | "UNK" => handleUnknown args
      | "OPZ" => handleOpz {} Clvm.Interp.cryptoExtra args
      | "UNKZ" => handleUnkz args
      | "REF" => handleRef args
      | "REFPY" => handleRefPy args
      | "PYGLUE" | "PYSER" | "PYPFX" | "PYDE" | "PYINT" | "PYCURRY" | "PYUNCURRY" => handlePy kind args
      | _ => none
    match r with
    | some s => id ++ " " ++ s
    | none => id ++ " bad-request"
  | _ => "? bad-request"

partial def loop (h : IO.FS.Stream) (out : IO.FS.Stream) : IO Unit := do
  let line ← h.getLine
  if line.isEmpty then return ()
  out.putStrLn (handleLine line)
  loop h out

def main : IO Unit := do
  let out ← IO.getStdout
  loop (← IO.getStdin) out
