import ClvmModel.Basic
import ClvmModel.Varint
import ClvmModel.Proto.Varint
