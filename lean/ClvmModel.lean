import ClvmModel.Basic
import ClvmModel.Varint
import ClvmModel.Tree
import ClvmModel.Proto.Varint
