import ClvmModel.Basic
import ClvmModel.Varint
import ClvmModel.Tree
import ClvmModel.Proto.Varint
import ClvmModel.Proto.Alloc
import ClvmModel.Proto.Crypto
import ClvmModel.Proto.Serde2026
import ClvmModel.Alloc.Ref
