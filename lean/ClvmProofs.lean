import ClvmProofs.Props.C21
import ClvmProofs.Props.C12
import ClvmProofs.Props.C13
import ClvmProofs.Props.C14
import ClvmProofs.Props.C22
import ClvmProofs.Props.C32
import ClvmProofs.Props.C18
