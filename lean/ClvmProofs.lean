import ClvmProofs.Props.C21
