/-
C10 — Operator costs follow the documented cost models.

Specification: `ClvmModel/Spec/Cost.lean` (`Spec.Cost.*`: the documented formula of every operator over
argument sizes, accumulator magnitudes and result size, both cost models, **pinned literal
constants**).  Model: `ClvmModel/Interp/Ops.lean` (frozen; in differential correspondence with the crate).

* `constants_pinned`: every generated constant (`Gen.*`, re-extracted from the Rust sources on every
  run) equals the pinned literal the formulas use — a retuned constant breaks this theorem.
* `cost_formula_<op>`: for every flag set (both cost models, MALACHITE on/off, LIMITS …), budget,
  well-formed argument list (no size bound) and allocator state, a successful call charges exactly
  `Spec.Cost.<op> (newModel flags) args result`.
* `op_cost_documented`: the same, for every operator function of `coreOpByName` by its Rust name
  (`documentedCost`: all 28 operators that can succeed).
* `path_cost`, `path_fast_cost`: environment lookups; `sha256tree_cost`: restated from C22.
`x` (raise) never succeeds (`raise_never_succeeds`).
* cryptographic operators (`ClvmModel/Crypto/Ops.lean`, spec `ClvmModel/Spec/CostCrypto.lean`):
  `crypto_constants_pinned`, `cost_formula_g1_map` … `cost_formula_bls_verify` (every flag set, budget,
  argument tree); `g1_map`/`g2_map` distinguish "DST absent" (43 default bytes) from "DST present and empty" (0).
-/
import ClvmProofs.Lemmas.Interp.CostArith
import ClvmProofs.Lemmas.TreeHash
import ClvmProofs.Lemmas.Interp.CostDoc
import ClvmProofs.Lemmas.CryptoCost

namespace Clvm.Props.C10
open Clvm Clvm.Alloc Clvm.Interp

/-- every cost constant the documented formulas use: generated from the sources = pinned literal -/
theorem constants_pinned :
    Gen.IF_COST = Spec.Cost.IF_COST ∧
    Gen.NEW_IF_COST = Spec.Cost.NEW_IF_COST ∧
    Gen.CONS_COST = Spec.Cost.CONS_COST ∧
    Gen.FIRST_COST = Spec.Cost.FIRST_COST ∧
    Gen.REST_COST = Spec.Cost.REST_COST ∧
    Gen.LISTP_COST = Spec.Cost.LISTP_COST ∧
    Gen.NEW_LISTP_COST = Spec.Cost.NEW_LISTP_COST ∧
    Gen.EQ_BASE_COST = Spec.Cost.EQ_BASE ∧
    Gen.EQ_COST_PER_BYTE = Spec.Cost.EQ_PER_BYTE ∧
    Gen.ARITH_BASE_COST = Spec.Cost.ARITH_BASE ∧
    Gen.ARITH_COST_PER_ARG = Spec.Cost.ARITH_PER_ARG ∧
    Gen.ARITH_COST_PER_BYTE = Spec.Cost.ARITH_PER_BYTE ∧
    Gen.NEW_ARITH_COST_PER_ARG = Spec.Cost.NEW_ARITH_PER_ARG ∧
    Gen.NEW_ARITH_COST_PER_BYTE = Spec.Cost.NEW_ARITH_PER_BYTE ∧
    Gen.LOG_BASE_COST = Spec.Cost.LOG_BASE ∧
    Gen.LOG_COST_PER_ARG = Spec.Cost.LOG_PER_ARG ∧
    Gen.LOG_COST_PER_BYTE = Spec.Cost.LOG_PER_BYTE ∧
    Gen.LOGNOT_BASE_COST = Spec.Cost.LOGNOT_BASE ∧
    Gen.LOGNOT_COST_PER_BYTE = Spec.Cost.LOGNOT_PER_BYTE ∧
    Gen.MUL_BASE_COST = Spec.Cost.MUL_BASE ∧
    Gen.MUL_COST_PER_OP = Spec.Cost.MUL_PER_OP ∧
    Gen.MUL_LINEAR_COST_PER_BYTE = Spec.Cost.MUL_LINEAR_PER_BYTE ∧
    Gen.MUL_SQUARE_COST_PER_BYTE_DIVIDER = Spec.Cost.MUL_SQUARE_DIVIDER ∧
    Gen.NEW_MUL_BASE_COST = Spec.Cost.NEW_MUL_BASE ∧
    Gen.NEW_MUL_SQUARE_COST_PER_BYTE_DIVIDER = Spec.Cost.NEW_MUL_SQUARE_DIVIDER ∧
    Gen.GR_BASE_COST = Spec.Cost.GR_BASE ∧
    Gen.GR_COST_PER_BYTE = Spec.Cost.GR_PER_BYTE ∧
    Gen.NEW_GR_BASE_COST = Spec.Cost.NEW_GR_BASE ∧
    Gen.NEW_GR_COST_PER_BYTE = Spec.Cost.NEW_GR_PER_BYTE ∧
    Gen.GRS_BASE_COST = Spec.Cost.GRS_BASE ∧
    Gen.GRS_COST_PER_BYTE = Spec.Cost.GRS_PER_BYTE ∧
    Gen.STRLEN_BASE_COST = Spec.Cost.STRLEN_BASE ∧
    Gen.STRLEN_COST_PER_BYTE = Spec.Cost.STRLEN_PER_BYTE ∧
    Gen.CONCAT_BASE_COST = Spec.Cost.CONCAT_BASE ∧
    Gen.CONCAT_COST_PER_ARG = Spec.Cost.CONCAT_PER_ARG ∧
    Gen.CONCAT_COST_PER_BYTE = Spec.Cost.CONCAT_PER_BYTE ∧
    Gen.NEW_SUBSTR_COST = Spec.Cost.NEW_SUBSTR_COST ∧
    Gen.DIVMOD_BASE_COST = Spec.Cost.DIVMOD_BASE ∧
    Gen.DIVMOD_COST_PER_BYTE = Spec.Cost.DIVMOD_PER_BYTE ∧
    Gen.DIV_BASE_COST = Spec.Cost.DIV_BASE ∧
    Gen.DIV_COST_PER_BYTE = Spec.Cost.DIV_PER_BYTE ∧
    Gen.NEW_DIV_BASE_COST = Spec.Cost.NEW_DIV_BASE ∧
    Gen.NEW_DIV_LINEAR_COST_PER_BYTE = Spec.Cost.NEW_DIV_LINEAR_PER_BYTE ∧
    Gen.NEW_DIV_SQUARE_COST_PER_BYTE_DIVIDER = Spec.Cost.NEW_DIV_SQUARE_DIVIDER ∧
    Gen.SHA256_BASE_COST = Spec.Cost.SHA256_BASE ∧
    Gen.SHA256_COST_PER_ARG = Spec.Cost.SHA256_PER_ARG ∧
    Gen.SHA256_COST_PER_BYTE = Spec.Cost.SHA256_PER_BYTE ∧
    Gen.NEW_SHA256_BASE_COST = Spec.Cost.NEW_SHA256_BASE ∧
    Gen.NEW_SHA256_COST_PER_ARG = Spec.Cost.NEW_SHA256_PER_ARG ∧
    Gen.NEW_SHA256_COST_PER_BYTE = Spec.Cost.NEW_SHA256_PER_BYTE ∧
    Gen.ASHIFT_BASE_COST = Spec.Cost.ASHIFT_BASE ∧
    Gen.ASHIFT_COST_PER_BYTE = Spec.Cost.ASHIFT_PER_BYTE ∧
    Gen.LSHIFT_BASE_COST = Spec.Cost.LSHIFT_BASE ∧
    Gen.LSHIFT_COST_PER_BYTE = Spec.Cost.LSHIFT_PER_BYTE ∧
    Gen.BOOL_BASE_COST = Spec.Cost.BOOL_BASE ∧
    Gen.BOOL_COST_PER_ARG = Spec.Cost.BOOL_PER_ARG ∧
    Gen.MODPOW_BASE_COST = Spec.Cost.MODPOW_BASE ∧
    Gen.MODPOW_COST_PER_BYTE_BASE_VALUE = Spec.Cost.MODPOW_PER_BYTE_BASE_VALUE ∧
    Gen.MODPOW_COST_PER_BYTE_EXPONENT = Spec.Cost.MODPOW_PER_BYTE_EXPONENT ∧
    Gen.MODPOW_COST_PER_BYTE_MOD = Spec.Cost.MODPOW_PER_BYTE_MOD ∧
    Gen.NEW_MODPOW_PER_ITERATION_COST = Spec.Cost.NEW_MODPOW_PER_ITERATION ∧
    Gen.NEW_MODPOW_EXPONENT_MULTIPLIER = Spec.Cost.NEW_MODPOW_EXPONENT_MULTIPLIER ∧
    Gen.MALLOC_COST_PER_BYTE = Spec.Cost.MALLOC_PER_BYTE ∧
    Gen.QUOTE_COST = Spec.Cost.QUOTE_COST ∧
    Gen.APPLY_COST = Spec.Cost.APPLY_COST ∧
    Gen.OP_COST = Spec.Cost.OP_COST ∧
    Gen.GUARD_COST = Spec.Cost.GUARD_COST ∧
    Gen.NEW_GUARD_COST = Spec.Cost.NEW_GUARD_COST ∧
    Gen.TRAVERSE_BASE_COST = Spec.Cost.TRAVERSE_BASE ∧
    Gen.TRAVERSE_COST_PER_ZERO_BYTE = Spec.Cost.TRAVERSE_PER_ZERO_BYTE ∧
    Gen.TRAVERSE_COST_PER_BIT = Spec.Cost.TRAVERSE_PER_BIT :=
  ⟨rfl, rfl, rfl, rfl, rfl, rfl, rfl, rfl, rfl, rfl, rfl, rfl, rfl, rfl, rfl, rfl, rfl, rfl, rfl, rfl, rfl, rfl, rfl, rfl, rfl, rfl, rfl, rfl, rfl, rfl, rfl, rfl, rfl, rfl, rfl, rfl, rfl, rfl, rfl, rfl, rfl, rfl, rfl, rfl, rfl, rfl, rfl, rfl, rfl, rfl, rfl, rfl, rfl, rfl, rfl, rfl, rfl, rfl, rfl, rfl, rfl, rfl, rfl, rfl, rfl, rfl, rfl, rfl, rfl, rfl, rfl⟩

/-- `substr` is the one operator whose pre-hard-fork cost is a literal in the source (`1`) -/
theorem substr_old_cost_pinned : Spec.Cost.SUBSTR_COST = 1 := rfl

/-- `op_if`: a successful call charges `Spec.Cost.opIf` -/
theorem cost_formula_op_if : CostOK opIf Spec.Cost.opIf := cost_opIf

/-- `op_cons`: a successful call charges `Spec.Cost.opCons` -/
theorem cost_formula_op_cons : CostOK opCons Spec.Cost.opCons := cost_opCons

/-- `op_first`: a successful call charges `Spec.Cost.opFirst` -/
theorem cost_formula_op_first : CostOK opFirst Spec.Cost.opFirst := cost_opFirst

/-- `op_rest`: a successful call charges `Spec.Cost.opRest` -/
theorem cost_formula_op_rest : CostOK opRest Spec.Cost.opRest := cost_opRest

/-- `op_listp`: a successful call charges `Spec.Cost.opListp` -/
theorem cost_formula_op_listp : CostOK opListp Spec.Cost.opListp := cost_opListp

/-- `op_eq`: a successful call charges `Spec.Cost.opEq` -/
theorem cost_formula_op_eq : CostOK opEq Spec.Cost.opEq := cost_opEq

/-- `op_gr_bytes`: a successful call charges `Spec.Cost.opGrBytes` -/
theorem cost_formula_op_gr_bytes : CostOK opGrBytes Spec.Cost.opGrBytes := cost_opGrBytes

/-- `op_sha256`: a successful call charges `Spec.Cost.opSha256` -/
theorem cost_formula_op_sha256 (cfg : Cfg) : CostOK (opSha256 cfg) Spec.Cost.opSha256 := (cost_opSha256 cfg)

/-- `op_substr`: a successful call charges `Spec.Cost.opSubstr` -/
theorem cost_formula_op_substr : CostOK opSubstr Spec.Cost.opSubstr := cost_opSubstr

/-- `op_strlen`: a successful call charges `Spec.Cost.opStrlen` -/
theorem cost_formula_op_strlen : CostOK opStrlen Spec.Cost.opStrlen := cost_opStrlen

/-- `op_concat`: a successful call charges `Spec.Cost.opConcat` -/
theorem cost_formula_op_concat : CostOK opConcat Spec.Cost.opConcat := cost_opConcat

/-- `op_div`: a successful call charges `Spec.Cost.opDiv` -/
theorem cost_formula_op_div : CostOK opDiv Spec.Cost.opDiv := cost_opDiv

/-- `op_divmod`: a successful call charges `Spec.Cost.opDivmod` -/
theorem cost_formula_op_divmod : CostOK opDivmod Spec.Cost.opDivmod := cost_opDivmod

/-- `op_gr`: a successful call charges `Spec.Cost.opGr` -/
theorem cost_formula_op_gr (cfg : Cfg) : CostOK (opGr cfg) Spec.Cost.opGr := (cost_opGr cfg)

/-- `op_ash`: a successful call charges `Spec.Cost.opAsh` -/
theorem cost_formula_op_ash : CostOK opAsh Spec.Cost.opAsh := cost_opAsh

/-- `op_lsh`: a successful call charges `Spec.Cost.opLsh` -/
theorem cost_formula_op_lsh : CostOK opLsh Spec.Cost.opLsh := cost_opLsh

/-- `op_logand`: a successful call charges `Spec.Cost.opLog intAnd (-1` -/
theorem cost_formula_op_logand : CostOK opLogand (Spec.Cost.opLog intAnd (-1)) := cost_opLogand

/-- `op_logior`: a successful call charges `Spec.Cost.opLog intOr 0` -/
theorem cost_formula_op_logior : CostOK opLogior (Spec.Cost.opLog intOr 0) := cost_opLogior

/-- `op_logxor`: a successful call charges `Spec.Cost.opLog intXor 0` -/
theorem cost_formula_op_logxor : CostOK opLogxor (Spec.Cost.opLog intXor 0) := cost_opLogxor

/-- `op_lognot`: a successful call charges `Spec.Cost.opLognot` -/
theorem cost_formula_op_lognot : CostOK opLognot Spec.Cost.opLognot := cost_opLognot

/-- `op_not`: a successful call charges `Spec.Cost.opNot` -/
theorem cost_formula_op_not : CostOK opNot Spec.Cost.opNot := cost_opNot

/-- `op_any`: a successful call charges `Spec.Cost.opAny` -/
theorem cost_formula_op_any : CostOK opAny Spec.Cost.opAny := cost_opAny

/-- `op_all`: a successful call charges `Spec.Cost.opAll` -/
theorem cost_formula_op_all : CostOK opAll Spec.Cost.opAll := cost_opAll

/-- `op_modpow`: a successful call charges `Spec.Cost.opModpow` -/
theorem cost_formula_op_modpow : CostOK opModpow Spec.Cost.opModpow := cost_opModpow

/-- `op_mod`: a successful call charges `Spec.Cost.opMod` -/
theorem cost_formula_op_mod : CostOK opMod Spec.Cost.opMod := cost_opMod

/-- `op_add`: a successful call charges `Spec.Cost.opAdd` -/
theorem cost_formula_op_add (cfg : Cfg) : CostOK (opAdd cfg) Spec.Cost.opAdd := (cost_opAdd cfg)

/-- `op_subtract`: a successful call charges `Spec.Cost.opSubtract` -/
theorem cost_formula_op_subtract (cfg : Cfg) : CostOK (opSubtract cfg) Spec.Cost.opSubtract := (cost_opSubtract cfg)

/-- `op_multiply`: a successful call charges `Spec.Cost.opMultiply` -/
theorem cost_formula_op_multiply (cfg : Cfg) : CostOK (opMultiply cfg) Spec.Cost.opMultiply := (cost_opMultiply cfg)

/-- `x` (raise) never succeeds: no cost to document -/
theorem raise_never_succeeds (flags m : Nat) (args : Val) (c : Ctr) (r : Nat × Val × Ctr) :
    opRaise flags m args c ≠ .ok r := opRaise_never_ok flags m args c r

/-- the documented formula of an operator function, by its Rust name (`coreOpByName`): all 28 operators
that can succeed (`op_raise` never does: `raise_never_succeeds`) -/
def documentedCost : String → Option (Bool → List Val → Val → Nat)
  | "op_if" => some Spec.Cost.opIf
  | "op_cons" => some Spec.Cost.opCons
  | "op_first" => some Spec.Cost.opFirst
  | "op_rest" => some Spec.Cost.opRest
  | "op_listp" => some Spec.Cost.opListp
  | "op_eq" => some Spec.Cost.opEq
  | "op_gr_bytes" => some Spec.Cost.opGrBytes
  | "op_sha256" => some Spec.Cost.opSha256
  | "op_substr" => some Spec.Cost.opSubstr
  | "op_strlen" => some Spec.Cost.opStrlen
  | "op_concat" => some Spec.Cost.opConcat
  | "op_div" => some Spec.Cost.opDiv
  | "op_divmod" => some Spec.Cost.opDivmod
  | "op_gr" => some Spec.Cost.opGr
  | "op_ash" => some Spec.Cost.opAsh
  | "op_lsh" => some Spec.Cost.opLsh
  | "op_logand" => some (Spec.Cost.opLog intAnd (-1))
  | "op_logior" => some (Spec.Cost.opLog intOr 0)
  | "op_logxor" => some (Spec.Cost.opLog intXor 0)
  | "op_lognot" => some Spec.Cost.opLognot
  | "op_not" => some Spec.Cost.opNot
  | "op_any" => some Spec.Cost.opAny
  | "op_all" => some Spec.Cost.opAll
  | "op_modpow" => some Spec.Cost.opModpow
  | "op_mod" => some Spec.Cost.opMod
  | "op_add" => some Spec.Cost.opAdd
  | "op_subtract" => some Spec.Cost.opSubtract
  | "op_multiply" => some Spec.Cost.opMultiply
  | _ => none

/-- **C10 for the operator table**: whatever operator function `coreOpByName` returns for a name with
a documented formula, a successful call of it charges exactly that formula -/
theorem op_cost_documented (cfg : Cfg) (name : String) (f : OpFn) (spec : Bool → List Val → Val → Nat)
    (hf : coreOpByName cfg name = some f) (hs : documentedCost name = some spec)
    (flags m : Nat) (args : Val) (c : Ctr) (cost : Nat) (v : Val) (c' : Ctr)
    (hwf : args.wf = true) (hr : f flags m args c = .ok (cost, v, c')) :
    cost = spec (newModel flags) (argList args) v := by
  unfold documentedCost at hs
  unfold coreOpByName at hf
  split at hs
  · injection hf with hf; injection hs with hs; subst hf; subst hs
    exact cost_opIf flags m args c cost v c' hwf hr
  · injection hf with hf; injection hs with hs; subst hf; subst hs
    exact cost_opCons flags m args c cost v c' hwf hr
  · injection hf with hf; injection hs with hs; subst hf; subst hs
    exact cost_opFirst flags m args c cost v c' hwf hr
  · injection hf with hf; injection hs with hs; subst hf; subst hs
    exact cost_opRest flags m args c cost v c' hwf hr
  · injection hf with hf; injection hs with hs; subst hf; subst hs
    exact cost_opListp flags m args c cost v c' hwf hr
  · injection hf with hf; injection hs with hs; subst hf; subst hs
    exact cost_opEq flags m args c cost v c' hwf hr
  · injection hf with hf; injection hs with hs; subst hf; subst hs
    exact cost_opGrBytes flags m args c cost v c' hwf hr
  · injection hf with hf; injection hs with hs; subst hf; subst hs
    exact (cost_opSha256 cfg) flags m args c cost v c' hwf hr
  · injection hf with hf; injection hs with hs; subst hf; subst hs
    exact cost_opSubstr flags m args c cost v c' hwf hr
  · injection hf with hf; injection hs with hs; subst hf; subst hs
    exact cost_opStrlen flags m args c cost v c' hwf hr
  · injection hf with hf; injection hs with hs; subst hf; subst hs
    exact cost_opConcat flags m args c cost v c' hwf hr
  · injection hf with hf; injection hs with hs; subst hf; subst hs
    exact cost_opDiv flags m args c cost v c' hwf hr
  · injection hf with hf; injection hs with hs; subst hf; subst hs
    exact cost_opDivmod flags m args c cost v c' hwf hr
  · injection hf with hf; injection hs with hs; subst hf; subst hs
    exact (cost_opGr cfg) flags m args c cost v c' hwf hr
  · injection hf with hf; injection hs with hs; subst hf; subst hs
    exact cost_opAsh flags m args c cost v c' hwf hr
  · injection hf with hf; injection hs with hs; subst hf; subst hs
    exact cost_opLsh flags m args c cost v c' hwf hr
  · injection hf with hf; injection hs with hs; subst hf; subst hs
    exact cost_opLogand flags m args c cost v c' hwf hr
  · injection hf with hf; injection hs with hs; subst hf; subst hs
    exact cost_opLogior flags m args c cost v c' hwf hr
  · injection hf with hf; injection hs with hs; subst hf; subst hs
    exact cost_opLogxor flags m args c cost v c' hwf hr
  · injection hf with hf; injection hs with hs; subst hf; subst hs
    exact cost_opLognot flags m args c cost v c' hwf hr
  · injection hf with hf; injection hs with hs; subst hf; subst hs
    exact cost_opNot flags m args c cost v c' hwf hr
  · injection hf with hf; injection hs with hs; subst hf; subst hs
    exact cost_opAny flags m args c cost v c' hwf hr
  · injection hf with hf; injection hs with hs; subst hf; subst hs
    exact cost_opAll flags m args c cost v c' hwf hr
  · injection hf with hf; injection hs with hs; subst hf; subst hs
    exact cost_opModpow flags m args c cost v c' hwf hr
  · injection hf with hf; injection hs with hs; subst hf; subst hs
    exact cost_opMod flags m args c cost v c' hwf hr
  · injection hf with hf; injection hs with hs; subst hf; subst hs
    exact (cost_opAdd cfg) flags m args c cost v c' hwf hr
  · injection hf with hf; injection hs with hs; subst hf; subst hs
    exact (cost_opSubtract cfg) flags m args c cost v c' hwf hr
  · injection hf with hf; injection hs with hs; subst hf; subst hs
    exact (cost_opMultiply cfg) flags m args c cost v c' hwf hr
  · cases hs

/-! ### environment lookups and the interpreter's fixed charges -/

theorem walk_cost (bits : List Bool) (v : Val) (cost cost' : Nat) (v' : Val)
    (h : walk bits v cost = .ok (cost', v')) : cost' = cost + Spec.Cost.TRAVERSE_PER_BIT * bits.length := by
  induction bits generalizing v cost with
  | nil => simp only [walk] at h; injection h with h; injection h with h1 _; simp [← h1]
  | cons b t ih =>
    cases v with
    | atom x y => simp [walk] at h
    | pair l r =>
      simp only [walk] at h
      rw [ih _ _ h, List.length_cons]
      simp only [Spec.Cost.TRAVERSE_PER_BIT, Gen.TRAVERSE_COST_PER_BIT]; omega

/-- path lookup (`traverse_path`): `40 + 4·(leading zero bytes) + 4·(bits walked + 1)`; an all-zero
path walks no bit and yields nil -/
theorem path_cost (idx : Bytes) (env : Val) (cost : Nat) (v : Val)
    (h : traversePath idx env = .ok (cost, v)) :
    cost = Spec.Cost.path (firstNonZero idx)
      (if firstNonZero idx ≥ idx.length then 0 else (pathBits idx).length) := by
  unfold traversePath at h
  simp only at h
  split at h
  · rename_i hk
    injection h with h; injection h with h1 _
    simp only [hk, if_true, ← h1, Spec.Cost.path, Spec.Cost.TRAVERSE_BASE, Spec.Cost.TRAVERSE_PER_ZERO_BYTE,
      Spec.Cost.TRAVERSE_PER_BIT, Gen.TRAVERSE_BASE_COST, Gen.TRAVERSE_COST_PER_ZERO_BYTE, Gen.TRAVERSE_COST_PER_BIT]
    omega
  · rename_i hk
    rw [walk_cost _ _ _ _ _ h]
    simp only [hk, if_false, Spec.Cost.path, Spec.Cost.TRAVERSE_BASE, Spec.Cost.TRAVERSE_PER_ZERO_BYTE,
      Spec.Cost.TRAVERSE_PER_BIT, Gen.TRAVERSE_BASE_COST, Gen.TRAVERSE_COST_PER_ZERO_BYTE, Gen.TRAVERSE_COST_PER_BIT]
    omega

/-- `sha256tree` (proved in C22 / Lemmas/TreeHash.lean, restated with pinned literals): base 270, 460 per
pair, 2 (new model: 6) per byte of `1 ‖ atom` over the **fully expanded tree** — a function of the
denoted value, hence the same whether or not sub-trees are shared — plus 10·32 for the result -/
theorem sha256tree_cost (nm : Bool) (t : Tree) :
    TreeHash.costSpec nm t =
      270 + 460 * t.pairs + (if nm then 6 else 2) * (TreeHash.sumLen t + t.atoms) + 320 := by
  simp only [TreeHash.costSpec, TreeHash.nodeCost_eq]
  cases nm <;> simp [Gen.thBaseCost, Gen.thPairCost, Gen.thCostPerByte, Gen.thNewCostPerByte,
    Gen.thMallocCostPerByte, Gen.thMallocBytes] <;> omega

/-- the cost theorems are not vacuous: `(logand 0x7fff 1)` under the new cost model costs 650 (the markdown formula gives 647: DESIGN §6-G) -/
example : ((opLogand 0x2000 100000 (.pair (.atom [0x7f, 0xff] false) (.pair (.atom [1] true) Val.nil))
    (Ctr.new 1000)).toOption.map (·.1)) = some 650 := by decide +kernel

/-! ### finding G: docs/cost-model.md vs the code (NEW_COST_MODEL)

`Spec.CostDoc` holds the formulas exactly as the markdown states them.  The witnesses below are
concrete successful calls of the model (= the crate: oracle `costs_doc` replays them) whose charged cost
differs from the markdown formula; `doc_agrees_*` delimit the finding: on "tight" arguments (atom
length = magnitude of the value: no redundant leading byte, no sign byte) the two readings of add /
subtract / multiply / div / divmod / mod / modpow coincide, and for logand / logior / logxor they coincide
whenever no accumulator is longer than the argument it meets.  KNOWN_FINDINGS `G-doc-cost-model`. -/

/-- a proper argument list -/
def argsOf : List Val → Val
  | [] => Val.nil
  | a :: r => .pair a (argsOf r)

/-- `(charged cost, cost by the markdown formula)` of a successful call -/
def chargedVsDoc (r : Except Err (Nat × Val × Ctr)) (doc : Val → Nat) : Option (Nat × Nat) :=
  r.toOption.map (fun x => (x.1, doc x.2.1))

def h (b : Bytes) : Val := .atom b false
def NM : Flags := 0x2000
def C0 : Ctr := Ctr.new 1000000

theorem doc_formula_witness_logand :
    chargedVsDoc (opLogand NM 1000000 (argsOf [h [0x40, 0, 0], h [1]]) C0)
      (Spec.CostDoc.opLog intAnd (-1) [h [0x40, 0, 0], h [1]]) = some (646, 640) := by decide +kernel
theorem doc_formula_witness_logand_first :
    chargedVsDoc (opLogand NM 1000000 (argsOf [h []]) C0)
      (Spec.CostDoc.opLog intAnd (-1) [h []]) = some (367, 364) := by decide +kernel
theorem doc_formula_witness_logior :
    chargedVsDoc (opLogior NM 1000000 (argsOf [h [0x40, 0, 0], h [1]]) C0)
      (Spec.CostDoc.opLog intOr 0 [h [0x40, 0, 0], h [1]]) = some (676, 670) := by decide +kernel
theorem doc_formula_witness_logxor :
    chargedVsDoc (opLogxor NM 1000000 (argsOf [h [0x40, 0, 0], h [1]]) C0)
      (Spec.CostDoc.opLog intXor 0 [h [0x40, 0, 0], h [1]]) = some (676, 670) := by decide +kernel
theorem doc_formula_witness_add :
    chargedVsDoc (opAdd {} NM 1000000 (argsOf [h [0, 0, 1]]) C0)
      (Spec.CostDoc.opAdd [h [0, 0, 1]]) = some (621, 613) := by decide +kernel
theorem doc_formula_witness_subtract :
    chargedVsDoc (opSubtract {} NM 1000000 (argsOf [h [0, 0, 1]]) C0)
      (Spec.CostDoc.opSubtract [h [0, 0, 1]]) = some (621, 613) := by decide +kernel
theorem doc_formula_witness_multiply :
    chargedVsDoc (opMultiply {} NM 1000000 (argsOf [h [0, 0, 2], h [0, 0, 3]]) C0)
      (Spec.CostDoc.opMultiply [h [0, 0, 2], h [0, 0, 3]]) = some (2949, 2913) := by decide +kernel
theorem doc_formula_witness_div :
    chargedVsDoc (opDiv NM 1000000 (argsOf [h [0, 0, 7], h [0, 0, 2]]) C0)
      (Spec.CostDoc.opDiv [h [0, 0, 7], h [0, 0, 2]]) = some (1310, 1110) := by decide +kernel
theorem doc_formula_witness_divmod :
    chargedVsDoc (opDivmod NM 1000000 (argsOf [h [0, 0, 7], h [0, 0, 2]]) C0)
      (Spec.CostDoc.opDivmod [h [0, 0, 7], h [0, 0, 2]]) = some (1320, 1120) := by decide +kernel
theorem doc_formula_witness_mod :
    chargedVsDoc (opMod NM 1000000 (argsOf [h [0, 0, 7], h [0, 0, 2]]) C0)
      (Spec.CostDoc.opMod [h [0, 0, 7], h [0, 0, 2]]) = some (1310, 1110) := by decide +kernel
theorem doc_formula_witness_modpow :
    chargedVsDoc (opModpow NM 1000000 (argsOf [h [0, 2], h [0, 3], h [0, 5]]) C0)
      (Spec.CostDoc.opModpow [h [0, 2], h [0, 3], h [0, 5]]) = some (81078, 49019) := by decide +kernel

open Spec.CostDoc in
/-- add / subtract: the markdown's `max(accumulator.limbs, arg.limbs)` and the code's
`max(accumulator.limbs, atom_len)` agree on tight arguments -/
theorem doc_agrees_add_subtract (args : List Val) (res : Val) (ht : ∀ a ∈ args, Tight a) :
    Spec.Cost.opAdd true args res = Spec.CostDoc.opAdd args res ∧
    Spec.Cost.opSubtract true args res = Spec.CostDoc.opSubtract args res := by
  simp only [Spec.Cost.opAdd, Spec.Cost.opSubtract, Spec.CostDoc.opAdd, Spec.CostDoc.opSubtract, if_true,
    sumMax_eq_mag args ht, and_self]

open Spec.CostDoc in
/-- multiply: agreement on tight arguments -/
theorem doc_agrees_multiply (args : List Val) (res : Val) (ht : ∀ a ∈ args, Tight a) :
    Spec.Cost.opMultiply true args res = Spec.CostDoc.opMultiply args res := by
  cases args with
  | nil => rfl
  | cons a0 rest =>
    have h0 : Spec.Cost.len a0 = mag a0 := ht a0 (by simp)
    have hr := mulSteps_eq rest (fun x hx => ht x (by simp [hx])) (Spec.Cost.int a0)
    simp only [Spec.Cost.opMultiply, Spec.CostDoc.opMultiply, if_true, h0]
    rw [← hr]; rfl

open Spec.CostDoc in
/-- div / divmod / mod / modpow: agreement on tight arguments -/
theorem doc_agrees_div_modpow (a b e : Val) (res : Val) (ha : Tight a) (hb : Tight b) (he : Tight e) :
    Spec.Cost.opDiv true [a, b] res = Spec.CostDoc.opDiv [a, b] res ∧
    Spec.Cost.opMod true [a, b] res = Spec.CostDoc.opMod [a, b] res ∧
    Spec.Cost.opDivmod true [a, b] res = Spec.CostDoc.opDivmod [a, b] res ∧
    Spec.Cost.opModpow true [a, b, e] res = Spec.CostDoc.opModpow [a, b, e] res := by
  have ha' : Spec.Cost.len a = mag a := ha
  have hb' : Spec.Cost.len b = mag b := hb
  have he' : Spec.Cost.len e = mag e := he
  simp [Spec.Cost.opDiv, Spec.Cost.opMod, Spec.Cost.opDivmod, Spec.Cost.opModpow, Spec.CostDoc.opDiv,
    Spec.CostDoc.opMod, Spec.CostDoc.opDivmod, Spec.CostDoc.opModpow, Spec.CostDoc.divBase, Spec.Cost.sizes2,
    ha', hb', he']
  cases res <;> rfl

open Spec.CostDoc in
/-- logand / logior / logxor: agreement whenever every argument is at least as long as the accumulator
it is combined with (then `max(len, acc.limbs) = len` whatever the signs) -/
theorem doc_agrees_log (f : Int → Int → Int) (init : Int) (args : List Val) (res : Val)
    (hl : ∀ p ∈ args.zip (Spec.Cost.logAccs f init args), Spec.Cost.limbs p.2 ≤ Spec.Cost.len p.1) :
    Spec.Cost.opLog f init true args res = Spec.CostDoc.opLog f init args res := by
  simp only [Spec.Cost.opLog, Spec.CostDoc.opLog, if_true, Spec.Cost.sumMax, logEffective_eq _ hl true]

/-- the agreement region is inhabited: `(+ 1 2)` is tight -/
example : Spec.CostDoc.Tight (h [1]) ∧ Spec.CostDoc.Tight (h [2]) := by
  constructor <;> (unfold Spec.CostDoc.Tight; decide +kernel)

/-! ### cryptographic operators

Model: `ClvmModel/Crypto/Ops.lean` (in differential correspondence with the crate on the `crypto` stream);
formulas: `ClvmModel/Spec/CostCrypto.lean` (pinned literals); proofs: `ClvmProofs/Lemmas/CryptoCost.lean`.
`CryptoCost.CostOK f spec`: for every flag set, budget and argument tree, a successful call of `f` charges
`spec (newCostModel flags) (argList args)`. -/

/-- every generated cost constant of the crypto operators (`Gen.Crypto.*`, re-extracted from the Rust
sources on every run) equals the pinned literal `Spec.CostCrypto` uses — a retuned constant breaks this -/
theorem crypto_constants_pinned :

    Gen.Crypto.flagNewCostModel = 0x2000 ∧
    Gen.Crypto.mallocCostPerByte = 10 ∧
    Gen.Crypto.blsG1SubtractBaseCost = 101094 ∧
    Gen.Crypto.blsG1SubtractCostPerArg = 1343980 ∧
    Gen.Crypto.blsG1MultiplyBaseCost = 705500 ∧
    Gen.Crypto.blsG1MultiplyCostPerByte = 10 ∧
    Gen.Crypto.newBlsG1MultiplyBaseCost = 1900000 ∧
    Gen.Crypto.newBlsG1MultiplyCostPerByte = 24 ∧
    Gen.Crypto.blsG1NegateBaseCost = 916 ∧
    Gen.Crypto.blsG2AddBaseCost = 80000 ∧
    Gen.Crypto.blsG2AddCostPerArg = 1950000 ∧
    Gen.Crypto.blsG2SubtractBaseCost = 80000 ∧
    Gen.Crypto.blsG2SubtractCostPerArg = 1950000 ∧
    Gen.Crypto.blsG2MultiplyBaseCost = 2100000 ∧
    Gen.Crypto.blsG2MultiplyCostPerByte = 5 ∧
    Gen.Crypto.newBlsG2MultiplyBaseCost = 3000000 ∧
    Gen.Crypto.newBlsG2MultiplyCostPerByte = 23 ∧
    Gen.Crypto.blsG2NegateBaseCost = 1204 ∧
    Gen.Crypto.blsMapToG1BaseCost = 195000 ∧
    Gen.Crypto.blsMapToG1CostPerByte = 4 ∧
    Gen.Crypto.blsMapToG1CostPerDstByte = 4 ∧
    Gen.Crypto.newBlsMapToG1BaseCost = 700000 ∧
    Gen.Crypto.newBlsMapToG1CostPerByte = 3 ∧
    Gen.Crypto.newBlsMapToG1CostPerDstByte = 2 ∧
    Gen.Crypto.blsMapToG2BaseCost = 815000 ∧
    Gen.Crypto.blsMapToG2CostPerByte = 4 ∧
    Gen.Crypto.blsMapToG2CostPerDstByte = 4 ∧
    Gen.Crypto.newBlsMapToG2BaseCost = 2700000 ∧
    Gen.Crypto.newBlsMapToG2CostPerByte = 3 ∧
    Gen.Crypto.newBlsMapToG2CostPerDstByte = 2 ∧
    Gen.Crypto.blsPairingBaseCost = 3000000 ∧
    Gen.Crypto.blsPairingCostPerArg = 1200000 ∧
    Gen.Crypto.newBlsPairingBaseCost = 1000000 ∧
    Gen.Crypto.newBlsPairingCostPerArg = 5000000 ∧
    Gen.Crypto.dstG1.length = 43 ∧
    Gen.Crypto.dstG2.length = 43 ∧
    Gen.Crypto.pointAddBaseCost = 101094 ∧
    Gen.Crypto.pointAddCostPerArg = 1343980 ∧
    Gen.Crypto.pubkeyBaseCost = 1325730 ∧
    Gen.Crypto.pubkeyCostPerByte = 38 ∧
    Gen.Crypto.coinidCost = 480 ∧
    Gen.Crypto.newCoinidCost = 1759 ∧
    Gen.Crypto.keccak256BaseCost = 50 ∧
    Gen.Crypto.keccak256CostPerArg = 160 ∧
    Gen.Crypto.keccak256CostPerByte = 2 ∧
    Gen.Crypto.newKeccak256BaseCost = 2350 ∧
    Gen.Crypto.newKeccak256CostPerArg = 100 ∧
    Gen.Crypto.newKeccak256CostPerByte = 10 ∧
    Gen.Crypto.secp256r1VerifyCost = 1850000 ∧
    Gen.Crypto.secp256k1VerifyCost = 1300000 :=
  CryptoCost.crypto_constants_pinned

/-- `g1_map` (`op_bls_map_to_g1`): base + msg_len·per_byte + dst_len·dst_per_byte + 480; an absent DST counts the 43-byte default, an explicit empty DST counts 0 -/
theorem cost_formula_g1_map (hash : Bytes → Bytes → Crypto.Bls.G1) : CryptoCost.CostOK (Crypto.Ops.opBlsMapToG1 hash) Spec.CostCrypto.opG1Map :=
  CryptoCost.g1_map hash

/-- `g2_map` (`op_bls_map_to_g2`): base + msg_len·per_byte + dst_len·dst_per_byte + 960; absent DST = 43 bytes, explicit empty DST = 0 -/
theorem cost_formula_g2_map (hash : Bytes → Bytes → Crypto.Bls.G2) : CryptoCost.CostOK (Crypto.Ops.opBlsMapToG2 hash) Spec.CostCrypto.opG2Map :=
  CryptoCost.g2_map hash

/-- `point_add` / `g1_add` (`op_point_add`): 101094 + n·1343980 + 480 -/
theorem cost_formula_g1_add : CryptoCost.CostOK Crypto.Ops.opPointAdd Spec.CostCrypto.opG1Add :=
  CryptoCost.g1_add

/-- `g1_subtract`: 101094 + n·1343980 + 480 -/
theorem cost_formula_g1_subtract : CryptoCost.CostOK Crypto.Ops.opBlsG1Subtract Spec.CostCrypto.opG1Subtract :=
  CryptoCost.g1_subtract

/-- `g2_add`: 80000 + n·1950000 + 960 -/
theorem cost_formula_g2_add : CryptoCost.CostOK Crypto.Ops.opBlsG2Add Spec.CostCrypto.opG2Add :=
  CryptoCost.g2_add

/-- `g2_subtract`: 80000 + n·1950000 + 960 -/
theorem cost_formula_g2_subtract : CryptoCost.CostOK Crypto.Ops.opBlsG2Subtract Spec.CostCrypto.opG2Subtract :=
  CryptoCost.g2_subtract

/-- `g1_multiply`: base + scalar_len·per_byte + 480 (both models) -/
theorem cost_formula_g1_multiply : CryptoCost.CostOK Crypto.Ops.opBlsG1Multiply Spec.CostCrypto.opG1Multiply :=
  CryptoCost.g1_multiply

/-- `g2_multiply`: base + scalar_len·per_byte + 960 (both models) -/
theorem cost_formula_g2_multiply : CryptoCost.CostOK Crypto.Ops.opBlsG2Multiply Spec.CostCrypto.opG2Multiply :=
  CryptoCost.g2_multiply

/-- `g1_negate`: 916 + 480, strict and relaxed, also when the argument itself is returned -/
theorem cost_formula_g1_negate : CryptoCost.CostOK Crypto.Ops.opBlsG1Negate Spec.CostCrypto.opG1Negate :=
  CryptoCost.g1_negate

/-- `g2_negate`: 1204 + 960 -/
theorem cost_formula_g2_negate : CryptoCost.CostOK Crypto.Ops.opBlsG2Negate Spec.CostCrypto.opG2Negate :=
  CryptoCost.g2_negate

/-- `pubkey_for_exp`: 1325730 + len·38 + 480 -/
theorem cost_formula_pubkey_for_exp : CryptoCost.CostOK Crypto.Ops.opPubkeyForExp Spec.CostCrypto.opPubkeyForExp :=
  CryptoCost.pubkey_for_exp

/-- `coinid`: flat 480 (new model 1759) + 320 -/
theorem cost_formula_coinid : CryptoCost.CostOK Crypto.Ops.opCoinid Spec.CostCrypto.opCoinid :=
  CryptoCost.coinid

/-- `keccak256`: base + n_args·per_arg + total_bytes·per_byte + 320 (the digest of the model is 32 bytes: `CryptoCost.keccak256_length`) -/
theorem cost_formula_keccak256 : CryptoCost.CostOK Crypto.Ops.opKeccak256 Spec.CostCrypto.opKeccak256 :=
  CryptoCost.keccak256

/-- `secp256k1_verify`: flat 1300000 -/
theorem cost_formula_secp256k1_verify : CryptoCost.CostOK Crypto.Ops.opSecp256k1Verify Spec.CostCrypto.opSecp256k1Verify :=
  CryptoCost.secp256k1_verify

/-- `secp256r1_verify`: flat 1850000 -/
theorem cost_formula_secp256r1_verify : CryptoCost.CostOK Crypto.Ops.opSecp256r1Verify Spec.CostCrypto.opSecp256r1Verify :=
  CryptoCost.secp256r1_verify

/-- `bls_pairing_identity`: base + n_pairs·per_arg -/
theorem cost_formula_bls_pairing_identity (ap : List (Crypto.Bls.G1 × Crypto.Bls.G2) → Bool) : CryptoCost.CostOK (Crypto.Ops.opBlsPairingIdentity ap) Spec.CostCrypto.opPairingIdentity :=
  CryptoCost.pairing_identity ap

/-- `bls_verify`: base + Σ over (pk, msg) pairs of (per_arg + msg_len·g2_map_per_byte + 43·g2_map_dst_per_byte) -/
theorem cost_formula_bls_verify (av : Crypto.Bls.G2 → List (Crypto.Bls.G1 × Bytes) → Bool) : CryptoCost.CostOK (Crypto.Ops.opBlsVerify av) Spec.CostCrypto.opBlsVerify :=
  CryptoCost.bls_verify av

/-- `g1_map` / `g2_map`: "no DST argument" and "DST argument present and empty" are charged differently
(43 default bytes vs 0 bytes) -/
theorem cost_formula_map_absent_vs_empty_dst (nm : Bool) (msgLen : Nat) :
    Spec.CostCrypto.g1Map nm msgLen none = Spec.CostCrypto.g1Map nm msgLen (some 0) + 43 * (if nm then 2 else 4) ∧
    Spec.CostCrypto.g2Map nm msgLen none = Spec.CostCrypto.g2Map nm msgLen (some 0) + 43 * (if nm then 2 else 4) :=
  CryptoCost.map_absent_vs_empty_dst nm msgLen

/-- not vacuous, and the two DST cases are told apart by the model itself: `(g1_map "ab")` vs
`(g1_map "ab" "")` under the old model (the cost does not depend on the hash-to-curve function) -/
example :
    ((Crypto.Ops.opBlsMapToG1 (fun _ _ => none) 0 10000000 (.pair (.atom [0x61, 0x62]) Tree.nil)).toOption.map (·.cost),
     (Crypto.Ops.opBlsMapToG1 (fun _ _ => none) 0 10000000 (.pair (.atom [0x61, 0x62]) (.pair (.atom []) Tree.nil))).toOption.map (·.cost))
      = (some (195000 + 2 * 4 + 43 * 4 + 480), some (195000 + 2 * 4 + 0 + 480)) := by
  decide +kernel

end Clvm.Props.C10
