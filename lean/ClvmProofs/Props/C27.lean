/-
C27 — `clvm_tree_to_lazy_node` preserves any CLVM object.

Model: `ClvmModel/Py/Memo.lean` (the walk of `wheel/src/api.rs` over an abstract CPython heap:
objects with addresses and lifetimes, an arbitrary object protocol, address reuse allowed).
Since /repo commit 6e19398 (repair of finding E) the code keeps every object it has looked at alive
until the walk ends (`keep_alive`): the model of the code as it is is `treeToLazyNode P true`.

* `Statement` / `memo_keepalive_ok`: for every honest Python side the result is the source tree.
* `memo_ok_partial`: what holds for *both* variants — if no address was shared by two different
  objects the walk looked at, the result is the source tree.
* `memo_reuse_witness` / `without_keepalive_false`: why the keep-alive list is necessary — the
  algorithm *without* it (`keepAlive = false`, the code before 6e19398) returns a wrong tree for a
  LazyNode-like source whose children die and whose addresses are reused.
-/
import ClvmProofs.Lemmas.PyMemo

namespace Clvm.Props.C27
open Clvm Clvm.Py.Memo Clvm.Py.MemoLemmas

/-- no two handles the walk looked at had the same address but different trees -/
def Consistent (log : List Handle) : Prop :=
  ∀ h1 ∈ log, ∀ h2 ∈ log, h1.addr = h2.addr → h1.tree = h2.tree

/-- **The property**: for every honest Python side (`Valid`: `.pair` hands back live objects denoting
the two children and never reuses the address of a live object), the code — the walk with the
keep-alive list — returns a LazyNode for the source tree. -/
def Statement : Prop :=
  ∀ (P : Proto), Valid P → ∀ (heap : Heap), Functional heap → ∀ (root : Handle), (root.addr, root.tree) ∈ heap →
    ∃ st, treeToLazyNode P true heap root = .ok (root.tree, st)

/-- the same claim for the algorithm without the keep-alive list (the code before 6e19398) -/
def StatementWithoutKeepAlive : Prop :=
  ∀ (P : Proto) (heap : Heap) (root : Handle), (root.addr, root.tree) ∈ heap →
    ∃ st, treeToLazyNode P false heap root = .ok (root.tree, st)

/-- the walk always terminates with a tree: never the `identity_map[..]` panic, never out of fuel
(whatever the Python side does, whichever variant of the algorithm) -/
theorem memo_total (P : Proto) (k : Bool) (heap : Heap) (root : Handle) :
    ∃ t st, treeToLazyNode P k heap root = .ok (t, st) := by
  unfold treeToLazyNode
  obtain ⟨st', hrun, ro⟩ := run_ok P k (2 * root.tree.size + 1)
    { heap := heap, memo := [], stack := [.visit root], keep := [], log := [] } (by simp [Ready])
    (by simp [weight, Item.weight])
  simp only [hrun]
  have hk : K st'.memo root.addr := ro.keys _ (.inr ⟨_, List.mem_cons_self, rfl⟩)
  obtain ⟨t, hi, _⟩ := index_of_contains _ _ hk
  exact ⟨t, st', by simp [hi]⟩

/-- **Partial (outside the defect region).**  If no address was shared by two different objects
during the walk — in particular if every visited object stayed alive — the result is the source tree. -/
theorem memo_ok_partial (P : Proto) (k : Bool) (heap : Heap) (root : Handle) (t : Tree) (st : St)
    (h : treeToLazyNode P k heap root = .ok (t, st)) (hc : Consistent st.log) : t = root.tree := by
  unfold treeToLazyNode at h
  obtain ⟨st', hrun, ro⟩ := run_ok P k (2 * root.tree.size + 1)
    { heap := heap, memo := [], stack := [.visit root], keep := [], log := [] } (by simp [Ready])
    (by simp [weight, Item.weight])
  simp only [hrun] at h
  cases hi : index st'.memo root.addr with
  | error e => simp [hi] at h
  | ok t' =>
    simp only [hi, Except.ok.injEq, Prod.mk.injEq] at h
    obtain ⟨rfl, rfl⟩ := h
    let Den : Nat → Tree → Prop := fun a t => ∃ x ∈ st'.log, x.addr = a ∧ x.tree = t
    have hf : FunctionalD Den := by
      rintro a t1 t2 ⟨x, hx, rfl, rfl⟩ ⟨y, hy, e, rfl⟩
      exact hc x hx y hy e.symm
    have hroot : root ∈ st'.log := ro.logsTop root [] rfl
    have hm := ro.den Den hf (fun x hx => ⟨x, hx, rfl, rfl⟩) (by intro a t hl; cases hl)
      (by intro i hi; simp only [List.mem_singleton] at hi; subst hi; exact ⟨root, hroot, rfl, rfl⟩)
    exact hf _ _ _ (hm _ _ (index_ok _ _ _ hi)) ⟨root, hroot, rfl, rfl⟩

/-! ### why the keep-alive list is necessary -/

def wAtom (n : Nat) : Tree := .atom [UInt8.ofNat n]
/-- `((1 . 2) . (3 . 4))` -/
def wSrc : Tree := .pair (.pair (wAtom 1) (wAtom 2)) (.pair (wAtom 3) (wAtom 4))

/-- **Witness.**  A LazyNode-like source (children created by `.pair`, dying when dropped, lowest free
address reused) for `((1 . 2) . (3 . 4))`: the walk *without* the keep-alive list returns a different
tree, and the log shows two different objects at one address (finding E, repaired by 6e19398). -/
theorem memo_reuse_witness :
    ∃ t st, treeToLazyNode ephemeral false [(0, wSrc)] ⟨0, wSrc⟩ = .ok (t, st) ∧ t ≠ wSrc ∧ ¬ Consistent st.log := by
  refine ⟨_, _, rfl, ?_, ?_⟩
  · decide
  · unfold Consistent; decide

theorem without_keepalive_false : ¬ StatementWithoutKeepAlive := by
  intro h
  obtain ⟨st, hs⟩ := h ephemeral [(0, wSrc)] ⟨0, wSrc⟩ (by simp)
  obtain ⟨t, st', ht, hne, _⟩ := memo_reuse_witness
  rw [hs] at ht
  simp only [Except.ok.injEq, Prod.mk.injEq] at ht
  exact hne ht.1.symm

/-! ### the code as it is (with the keep-alive list) -/

/-- **Full theorem.**  With the keep-alive list (`keepAlive = true`, the code as it is) the walk returns
the source tree for *every* honest Python side: stored children, children created on every call,
any allocator that does not hand out the address of a live object. -/
theorem memo_keepalive_ok (P : Proto) (hv : Valid P) (heap : Heap) (hfun : Functional heap) (root : Handle)
    (hroot : (root.addr, root.tree) ∈ heap) :
    ∃ st, treeToLazyNode P true heap root = .ok (root.tree, st) := by
  unfold treeToLazyNode
  obtain ⟨st', hrun, ro⟩ := run_ok P true (2 * root.tree.size + 1)
    { heap := heap, memo := [], stack := [.visit root], keep := [], log := [] } (by simp [Ready])
    (by simp [weight, Item.weight])
  simp only [hrun]
  obtain ⟨hinv, hmono⟩ := ro.heapKeep rfl hv
    ⟨hfun, (by intro x hx; cases hx), (by
      intro h hh; simp only [List.mem_singleton, Item.visit.injEq] at hh; subst hh; exact hroot)⟩
  let Den : Nat → Tree → Prop := fun a t => (a, t) ∈ st'.heap
  have hf : FunctionalD Den := fun a t1 t2 h1 h2 => hinv.1 a t1 t2 h1 h2
  have hm := ro.den Den hf hinv.2.1 (by intro a t hl; cases hl)
    (by intro i hi; simp only [List.mem_singleton] at hi; subst hi; exact hmono _ hroot)
  have hk : K st'.memo root.addr := ro.keys _ (.inr ⟨_, List.mem_cons_self, rfl⟩)
  obtain ⟨t, hi, hl⟩ := index_of_contains _ _ hk
  have : t = root.tree := hf _ _ _ (hm _ _ hl) (hmono _ hroot)
  subst this
  exact ⟨st', by simp [hi]⟩

/-- the hypotheses of `memo_keepalive_ok` are satisfiable by the very source that breaks the original
code: children created on every `.pair` call, at whatever address a (correct) allocator picks -/
theorem fresh_valid (alloc : Heap → Nat) (ha : ∀ heap, alloc heap ∉ addrs heap) : Valid (freshWith alloc) := by
  constructor
  intro heap h l r hf _
  simp only [freshWith]
  have h1 : Functional ((alloc heap, l) :: heap) := by
    intro a t1 t2 m1 m2
    rcases List.mem_cons.1 m1 with e1 | e1 <;> rcases List.mem_cons.1 m2 with e2 | e2
    · cases e1; cases e2; rfl
    · cases e1; exact absurd (List.mem_map.2 ⟨_, e2, rfl⟩) (ha heap)
    · cases e2; exact absurd (List.mem_map.2 ⟨_, e1, rfl⟩) (ha heap)
    · exact hf a t1 t2 e1 e2
  refine ⟨fun x hx => List.mem_cons_of_mem _ (List.mem_cons_of_mem _ hx),
    List.mem_cons_of_mem _ List.mem_cons_self, List.mem_cons_self, ?_⟩
  intro a t1 t2 m1 m2
  have hn := ha ((alloc heap, l) :: heap)
  rcases List.mem_cons.1 m1 with e1 | e1 <;> rcases List.mem_cons.1 m2 with e2 | e2
  · cases e1; cases e2; rfl
  · cases e1; exact absurd (List.mem_map.2 ⟨_, e2, rfl⟩) hn
  · cases e2; exact absurd (List.mem_map.2 ⟨_, e1, rfl⟩) hn
  · exact h1 a t1 t2 e1 e2

theorem statement_holds : Statement :=
  fun P hv heap hfun root hroot => memo_keepalive_ok P hv heap hfun root hroot

/-- the walk with the keep-alive list on the witness source returns the source tree -/
example : (treeToLazyNode ephemeral true [(0, wSrc)] ⟨0, wSrc⟩).map (·.1) = .ok wSrc := rfl

end Clvm.Props.C27
