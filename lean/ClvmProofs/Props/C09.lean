/-
C09 — Unknown operators follow the published opcode cost rule.

Model: `Interp.opUnknown` / `Interp.unknownOperator` (transcriptions of `op_unknown`,
src/more_ops.rs, and `unknown_operator`, src/chia_dialect.rs).  Specification:
`Spec.unknownRule` (ClvmModel/Spec/Unknown.lean, over ℕ, pinned constants).

* `UnknownRuleStatement` — the property at full strength (kept as a `def`).
* `unknown_eq_rule_partial` — it holds whenever the cost model is the new one, or the true product
  `base·(multiplier+1)` is below 2^64 (the decidable defect region of DESIGN §6-B excluded).
* `unknown_eq_rule_new_model` — in particular the full statement holds under `NEW_COST_MODEL`.
* `unknown_exact_partial` — outside every 64-bit overflow even the error kinds coincide.
* `unknown_wrap_witness`, `unknown_rule_statement_false` — in the pre-hard-fork model the
  wrapped product makes `op_unknown` succeed with cost 0 on an argument list whose true product is
  2^64: the full statement is false of the code as it is (KNOWN_FINDINGS `B-unknown-wrap`).
-/
import ClvmProofs.Lemmas.Interp.CostUnknownRule

namespace Clvm.Props.C09
open Clvm Clvm.Alloc Clvm.Interp Clvm.Spec Clvm.Spec.Unknown

/-- model outcome vs documented outcome: both fail, or both succeed with the same cost, result nil
and untouched allocator counters -/
def Agrees (c : Ctr) (impl : Except Err (Nat × Val × Ctr)) (spec : Except Err Nat) : Prop :=
  match impl, spec with
  | .ok (cost, v, c'), .ok k => cost = k ∧ v = Val.nil ∧ c' = c
  | .error _, .error _ => True
  | _, _ => False

/-- `(multiplier+1)·base` over ℕ, the base taken over the sizes of the atom arguments -/
def trueProduct (op : Bytes) (nm : Bool) (args : Val) : Nat :=
  (multiplier op + 1) * base (costFunction op) nm ((argList args).filterMap sizeOf)

def strictMode (flags : Flags) : Bool := hasFlag flags Gen.FLAG_NO_UNKNOWN_OPS

/-- the rule applied to a call -/
def ruleOf (op : Bytes) (flags : Flags) (budget : Nat) (args : Val) : Except Err Nat :=
  unknownRule op (newModel flags) (strictMode flags) budget (sizesOf (argList args))

/-- **C09 at full strength**: for every opcode, flag set, 64-bit budget and argument list the
dialect's unknown-operator path agrees with the published rule. -/
def UnknownRuleStatement : Prop :=
  ∀ (op : Bytes) (flags : Flags) (budget : Nat) (args : Val) (c : Ctr), budget < 2 ^ 64 →
    Agrees c (unknownOperator op args flags budget c) (ruleOf op flags budget args)

/-! ### the tail of `op_unknown`: budget check, multiplication, 32-bit cap -/

/-- the documented tail -/
def specTail (mult B b : Nat) : Except Err Nat :=
  if b > B then .error .CostExceeded
  else if (mult + 1) * b > 2 ^ 32 - 1 then .error .Invalid
  else .ok ((mult + 1) * b)

theorem implTail_agrees (nm : Bool) (mult B b : Nat) (c : Ctr) (hb : 0 < b)
    (hreg : nm = true ∨ (mult + 1) * b < 2 ^ 64) :
    Agrees c (implTail nm mult B b c) (specTail mult B b) := by
  unfold implTail specTail checkCost
  have hb0 : (b == 0) = false := by simp; omega
  simp only [hb0, Bool.false_eq_true, if_false]
  by_cases h1 : b > B
  · simp [h1, Agrees]
  · simp only [h1, if_false]
    rw [Nat.mul_comm (mult + 1) b] at hreg ⊢
    cases nm with
    | true =>
      simp only [if_true, ckMul, U64_MAX]
      by_cases h2 : b * (mult + 1) > 2 ^ 64 - 1
      · have : b * (mult + 1) > 2 ^ 32 - 1 := by omega
        simp [h2, this, Agrees]
      · simp only [h2, if_false]
        by_cases h3 : b * (mult + 1) > 2 ^ 32 - 1
        · simp [h3, Agrees]
        · simp [h3, Agrees]
    | false =>
      have hlt : b * (mult + 1) < 2 ^ 64 := by
        rcases hreg with h | h
        · cases h
        · exact h
      simp only [Bool.false_eq_true, if_false, Nat.mod_eq_of_lt hlt]
      by_cases h3 : b * (mult + 1) > 2 ^ 32 - 1
      · simp [h3, Agrees]
      · simp [h3, Agrees]

theorem implTail_exact (nm : Bool) (mult B b : Nat) (c : Ctr) (hb : 0 < b)
    (hprod : (mult + 1) * b < 2 ^ 64) :
    implTail nm mult B b c = (specTail mult B b).map (fun k => (k, Val.nil, c)) := by
  unfold implTail specTail checkCost
  have hb0 : (b == 0) = false := by simp; omega
  simp only [hb0, Bool.false_eq_true, if_false]
  by_cases h1 : b > B
  · simp [h1, Except.map]
  · simp only [h1, if_false]
    rw [Nat.mul_comm (mult + 1) b] at hprod ⊢
    have h2 : ¬ b * (mult + 1) > U64_MAX := by simp only [U64_MAX]; omega
    cases nm with
    | true =>
      simp only [if_true, ckMul, h2, if_false]
      by_cases h3 : b * (mult + 1) > 2 ^ 32 - 1 <;> simp [h3, Except.map]
    | false =>
      simp only [Bool.false_eq_true, if_false, Nat.mod_eq_of_lt hprod]
      by_cases h3 : b * (mult + 1) > 2 ^ 32 - 1 <;> simp [h3, Except.map]

theorem specSizes_base (cf : Nat) (nm : Bool) (B : Nat) (l : List Val) (ss : List Nat)
    (h : specSizes cf nm B l = .ok ss) : base cf nm ss = base cf nm (l.filterMap sizeOf) := by
  unfold specSizes at h
  split at h
  · rename_i h0
    have : cf = 0 := by simpa using h0
    subst this; rfl
  · have := walk_ok_eq _ _ _ _ _ _ h
    rw [this, sizesOf_filterMap]; simp

/-- the rule, unfolded to the pieces the lemmas speak about -/
theorem unknownRule_eq (op : Bytes) (nm : Bool) (B : Nat) (l : List Val) :
    unknownRule op nm false B (sizesOf l) =
      if reserved op then .error .Reserved
      else if op.length > 5 then .error .Invalid
      else
        match specSizes (costFunction op) nm B l with
        | .error e => .error e
        | .ok ss => specTail (multiplier op) B (base (costFunction op) nm ss) := by
  unfold unknownRule specSizes specTail
  simp only [Bool.false_eq_true, if_false]
  by_cases hr : reserved op = true
  · simp only [hr, if_true]
  · simp only [hr, if_false]
    by_cases h5 : op.length > 5
    · simp only [h5, if_true]
    · simp only [h5, if_false]
      generalize (if (costFunction op == 0) = true then Except.ok []
        else Unknown.walk (costFunction op) nm B [] (sizesOf l)) = y
      cases y <;> rfl

/-- `op_unknown` itself (non-strict part of the rule) -/
theorem opUnknown_agrees (op : Bytes) (flags : Flags) (budget : Nat) (args : Val) (c : Ctr)
    (hB : budget < 2 ^ 64)
    (hreg : newModel flags = true ∨ trueProduct op false args < 2 ^ 64) :
    Agrees c (opUnknown op flags budget args c)
      (unknownRule op (newModel flags) false budget (sizesOf (argList args))) := by
  rw [opUnknown_eq, unknownRule_eq]
  by_cases hr : reserved op
  · simp [hr, Agrees]
  · simp only [hr, Bool.false_eq_true, if_false]
    by_cases h5 : op.length > 5
    · simp [h5, Agrees]
    · simp only [h5, if_false]
      have hB' : budget ≤ U64_MAX := by simp only [U64_MAX]; omega
      have hrel := implBase_rel (costFunction op) (costFunction_lt op) (newModel flags) budget hB' (argList args)
      have hsb := specSizes_base (costFunction op) (newModel flags) budget (argList args)
      revert hrel hsb
      generalize implBase (costFunction op) (newModel flags) budget (argList args) = x
      generalize specSizes (costFunction op) (newModel flags) budget (argList args) = y
      intro hrel hsb
      cases x with
      | error e =>
        cases y with
        | error e' => simp [Agrees]
        | ok ss =>
          simp only [BaseRel] at hrel
          have hm : 2 ^ 32 ≤ (multiplier op + 1) * base (costFunction op) (newModel flags) ss := by
            calc 2 ^ 32 ≤ base (costFunction op) (newModel flags) ss := hrel.2
              _ ≤ (multiplier op + 1) * base (costFunction op) (newModel flags) ss :=
                Nat.le_mul_of_pos_left _ (by omega)
          simp only [specTail]
          by_cases h1 : base (costFunction op) (newModel flags) ss > budget
          · simp [h1, Agrees]
          · have h2 : (multiplier op + 1) * base (costFunction op) (newModel flags) ss > 2 ^ 32 - 1 := by omega
            simp [h1, h2, Agrees]
      | ok b =>
        cases y with
        | error e' => simp [BaseRel] at hrel
        | ok ss =>
          simp only [BaseRel] at hrel
          subst hrel
          apply implTail_agrees _ _ _ _ _ (base_pos _ _ _)
          rcases hreg with h | h
          · left; exact h
          · by_cases hnm : newModel flags = true
            · left; exact hnm
            · right
              have hnm' : newModel flags = false := by simpa using hnm
              rw [hsb ss rfl, hnm']
              exact h

/-- **C09 outside the defect region**: with the new cost model, or whenever the true product
`base·(multiplier+1)` stays below 2^64, the unknown-operator path of the dialect agrees with the
published rule: same success/failure, same cost, result nil, allocator counters unchanged; strict
mode (`NO_UNKNOWN_OPS`) always fails.  What is missing for the full statement is exactly the
pre-hard-fork region `trueProduct ≥ 2^64` (see `unknown_wrap_witness`). -/
theorem unknown_eq_rule_partial (op : Bytes) (flags : Flags) (budget : Nat) (args : Val) (c : Ctr)
    (hB : budget < 2 ^ 64)
    (hreg : newModel flags = true ∨ trueProduct op false args < 2 ^ 64) :
    Agrees c (unknownOperator op args flags budget c) (ruleOf op flags budget args) := by
  unfold unknownOperator ruleOf strictMode
  by_cases hs : hasFlag flags Gen.FLAG_NO_UNKNOWN_OPS = true
  · simp [hs, unknownRule, Agrees]
  · have hs' : hasFlag flags Gen.FLAG_NO_UNKNOWN_OPS = false := by simpa using hs
    simp only [hs', Bool.false_eq_true, if_false]
    exact opUnknown_agrees op flags budget args c hB hreg

/-- under `NEW_COST_MODEL` the full statement holds (no defect region) -/
theorem unknown_eq_rule_new_model (op : Bytes) (flags : Flags) (budget : Nat) (args : Val) (c : Ctr)
    (hB : budget < 2 ^ 64) (hnm : newModel flags = true) :
    Agrees c (unknownOperator op args flags budget c) (ruleOf op flags budget args) :=
  unknown_eq_rule_partial op flags budget args c hB (Or.inl hnm)

/-- strict mode: `NO_UNKNOWN_OPS ⇒ Unimplemented`, whatever the opcode and arguments -/
theorem unknown_strict (op : Bytes) (flags : Flags) (budget : Nat) (args : Val) (c : Ctr)
    (hs : hasFlag flags Gen.FLAG_NO_UNKNOWN_OPS = true) :
    unknownOperator op args flags budget c = .error .Unimplemented ∧
    ruleOf op flags budget args = .error .Unimplemented := by
  simp [unknownOperator, ruleOf, strictMode, hs, unknownRule]

/-- **exact form outside every 64-bit overflow**: if the true product is below 2^64 (either model)
and, for the new multiply-like rule, the squared total argument size is below 2^64 (so that
`checked_mul(l0, len)` cannot fail on its own), then even the error kinds coincide:
the model returns exactly what the rule says.  (Partial: the two overflow regions are excluded; in
them the new model answers `CostExceeded` where the rule says `Invalid` — both fail.) -/
theorem unknown_exact_partial (op : Bytes) (flags : Flags) (budget : Nat) (args : Val) (c : Ctr)
    (hB : budget < 2 ^ 64)
    (hprod : trueProduct op (newModel flags) args < 2 ^ 64)
    (hov : newModel flags = true → costFunction op = 2 →
      totalLen (argList args) * totalLen (argList args) < 2 ^ 64) :
    unknownOperator op args flags budget c =
      (ruleOf op flags budget args).map (fun k => (k, Val.nil, c)) := by
  unfold unknownOperator ruleOf strictMode
  by_cases hs : hasFlag flags Gen.FLAG_NO_UNKNOWN_OPS = true
  · simp [hs, unknownRule, Except.map]
  · have hs' : hasFlag flags Gen.FLAG_NO_UNKNOWN_OPS = false := by simpa using hs
    simp only [hs', Bool.false_eq_true, if_false]
    rw [opUnknown_eq, unknownRule_eq]
    by_cases hr : reserved op
    · simp [hr, Except.map]
    · simp only [hr, Bool.false_eq_true, if_false]
      by_cases h5 : op.length > 5
      · simp [h5, Except.map]
      · simp only [h5, if_false]
        have hB' : budget ≤ U64_MAX := by simp only [U64_MAX]; omega
        have hex := implBase_exact (costFunction op) (costFunction_lt op) (newModel flags) budget hB'
          (argList args) (by intro a b; have := hov a b; simp only [U64_MAX]; omega)
        have hsb := specSizes_base (costFunction op) (newModel flags) budget (argList args)
        rw [hex]
        revert hsb
        generalize specSizes (costFunction op) (newModel flags) budget (argList args) = y
        intro hsb
        cases y with
        | error e => simp [Except.map]
        | ok ss =>
          simp only [Except.map]
          apply implTail_exact _ _ _ _ _ (base_pos _ _ _)
          rw [hsb ss rfl]; exact hprod


/-! ### the defect region is inhabited: finding B -/

/-- a proper list as a `Val` -/
def mkList : List Val → Val
  | [] => Val.nil
  | a :: r => .pair a (mkList r)

theorem argList_mkList (l : List Val) : argList (mkList l) = l := by
  induction l with
  | nil => rfl
  | cons a t ih => simp [mkList, argList, ih]

/-- a heap atom of `n` zero bytes -/
def bigAtom (n : Nat) : Val := .atom (List.replicate n 0) false

/-- 85 arguments of 64 MiB and one of 22,365,704 bytes (5,726,619,144 bytes in all; in the real
allocator the 85 arguments can alias one 64 MiB atom) -/
@[irreducible] def witnessArgs : Val := mkList (List.replicate 85 (bigAtom (2 ^ 26)) ++ [bigAtom 22365704])

theorem witnessArgs_def :
    witnessArgs = mkList (List.replicate 85 (bigAtom (2 ^ 26)) ++ [bigAtom 22365704]) := by
  unfold witnessArgs; rfl

/-- opcode `3fffffffc0`: multiplier `0x3fffffff`, cost function 3 (concat-like) -/
def witnessOp : Bytes := [0x3f, 0xff, 0xff, 0xff, 0xc0]

theorem unknownConcat_atoms (B : Nat) (l : List Val) (cost : Nat)
    (hall : ∀ v ∈ l, ∃ b t, v = Val.atom b t)
    (hfit : cost + 135 * l.length + 3 * totalLen l ≤ B) :
    unknownConcat B l cost = .ok (cost + 135 * l.length + 3 * totalLen l) := by
  induction l generalizing cost with
  | nil => simp [unknownConcat, totalLen]
  | cons a t ih =>
    obtain ⟨b, tg, rfl⟩ := hall a (by simp)
    have hall' : ∀ v ∈ t, ∃ b t, v = Val.atom b t := fun v hv => hall v (by simp [hv])
    simp only [List.length_cons, totalLen_cons_atom] at hfit ⊢
    simp only [unknownConcat, atomLen_atom, checkCost, Gen.CONCAT_COST_PER_ARG, Gen.CONCAT_COST_PER_BYTE]
    have h1 : ¬ cost + 135 + 3 * b.length > B := by omega
    simp only [h1, if_false]
    rw [ih (cost + 135 + 3 * b.length) hall' (by omega)]
    congr 1; omega

theorem totalLen_append (a b : List Val) : totalLen (a ++ b) = totalLen a + totalLen b := by
  induction a with
  | nil => simp [totalLen]
  | cons x t ih => cases x <;> simp [totalLen, ih] <;> omega

theorem totalLen_replicate_bigAtom (k n : Nat) : totalLen (List.replicate k (bigAtom n)) = k * n := by
  induction k with
  | zero => simp [totalLen]
  | succ k ih =>
    simp only [List.replicate_succ, bigAtom, totalLen_cons_atom, List.length_replicate]
    simp only [bigAtom] at ih
    rw [ih, Nat.succ_mul]; omega

theorem totalLen_single_bigAtom (n : Nat) : totalLen [bigAtom n] = n := by
  simp [bigAtom, totalLen]

theorem sizeOf_bigAtom (n : Nat) : Interp.sizeOf (bigAtom n) = some n := by
  simp [bigAtom, Interp.sizeOf]

theorem filterMap_replicate_bigAtom (k n : Nat) :
    (List.replicate k (bigAtom n)).filterMap Interp.sizeOf = List.replicate k n := by
  induction k with
  | zero => rfl
  | succ k ih => rw [List.replicate_succ, List.filterMap_cons, sizeOf_bigAtom, ih, List.replicate_succ]

theorem filterMap_single_bigAtom (n : Nat) : [bigAtom n].filterMap Interp.sizeOf = [n] := by
  simp [sizeOf_bigAtom]

/-! Every lemma below that mentions the multi-megabyte atoms is stated with *variables* for their
sizes and instantiated by a term: no tactic (`simp`, `rw`'s closing `rfl`, `decide`) is ever run on
a goal in which `List.replicate (2^26) 0` could be evaluated. -/

theorem w_reserved : reserved witnessOp = false := by decide
theorem w_len : ¬ witnessOp.length > 5 := by decide
theorem w_cf : costFunction witnessOp = 3 := by decide
theorem w_mult : multiplier witnessOp = 0x3fffffff := by decide
theorem w_nm : newModel 0 = false := by decide
theorem w_strict : hasFlag 0 Gen.FLAG_NO_UNKNOWN_OPS = false := by decide

theorem w_tail (c : Ctr) : implTail false 0x3fffffff (2 ^ 40) (2 ^ 34) c = .ok (0, Val.nil, c) := by
  unfold implTail checkCost
  have e1 : ((2 ^ 34 : Nat) == 0) = false := by decide
  have e2 : ¬ (2 ^ 34 : Nat) > 2 ^ 40 := by decide
  have e3 : (2 ^ 34 * (0x3fffffff + 1)) % 2 ^ 64 = 0 := by decide
  have e4 : ¬ (0 : Nat) > 2 ^ 32 - 1 := by decide
  simp only [e1, e2, e3, e4, Bool.false_eq_true, if_false]

/-- the concat-like base of `k` atoms of `n` bytes and one of `m` bytes -/
theorem unknownConcat_witness_form (B k n m : Nat) (hfit : 142 + 135 * (k + 1) + 3 * (k * n + m) ≤ B) :
    unknownConcat B (List.replicate k (bigAtom n) ++ [bigAtom m]) Gen.CONCAT_BASE_COST
      = .ok (142 + 135 * (k + 1) + 3 * (k * n + m)) := by
  have ht : totalLen (List.replicate k (bigAtom n) ++ [bigAtom m]) = k * n + m := by
    rw [totalLen_append, totalLen_replicate_bigAtom, totalLen_single_bigAtom]
  have hl : (List.replicate k (bigAtom n) ++ [bigAtom m]).length = k + 1 := by simp
  rw [unknownConcat_atoms B _ Gen.CONCAT_BASE_COST]
  · rw [ht, hl]; rfl
  · intro v hv
    simp only [List.mem_append, List.mem_replicate, List.mem_singleton] at hv
    rcases hv with ⟨_, rfl⟩ | rfl
    · exact ⟨List.replicate n 0, false, rfl⟩
    · exact ⟨List.replicate m 0, false, rfl⟩
  · rw [ht, hl]; exact hfit

/-- `opUnknown` on the witness opcode, for any argument list whose concat-like base is known -/
theorem opUnknown_witnessOp (args : Val) (c : Ctr) (B b : Nat)
    (h : unknownConcat B (argList args) Gen.CONCAT_BASE_COST = .ok b) :
    opUnknown witnessOp 0 B args c = implTail false 0x3fffffff B b c := by
  rw [opUnknown_eq, w_reserved]
  simp only [Bool.false_eq_true, if_false, w_len, w_cf, w_mult, w_nm, implBase, h]

theorem unknownOperator_witness_form (k n m B b : Nat) (c : Ctr)
    (h : unknownConcat B (List.replicate k (bigAtom n) ++ [bigAtom m]) Gen.CONCAT_BASE_COST = .ok b) :
    unknownOperator witnessOp (mkList (List.replicate k (bigAtom n) ++ [bigAtom m])) 0 B c
      = implTail false 0x3fffffff B b c := by
  unfold unknownOperator
  rw [w_strict, if_neg (by decide)]
  exact opUnknown_witnessOp _ c B b (by rw [argList_mkList]; exact h)

theorem trueProduct_witness_form (op : Bytes) (k n m : Nat) :
    trueProduct op false (mkList (List.replicate k (bigAtom n) ++ [bigAtom m]))
      = (multiplier op + 1) * base (costFunction op) false (List.replicate k n ++ [m]) := by
  unfold trueProduct
  rw [argList_mkList, List.filterMap_append, filterMap_replicate_bigAtom, filterMap_single_bigAtom]

theorem witness_product_value :
    (multiplier witnessOp + 1) * base (costFunction witnessOp) false (List.replicate 85 (2 ^ 26) ++ [22365704])
      = 2 ^ 64 := by
  decide +kernel

/-- **finding B, as a theorem about the model**: without `NEW_COST_MODEL`, opcode `3fffffffc0` on
85 × 64 MiB + 22,365,704 bytes of arguments (base `2^34`, multiplier+1 `2^30`) *succeeds with cost 0*
under the budget `2^40` although the true product is `2^64 > 2^32 − 1`. -/
theorem unknown_wrap_witness (c : Ctr) :
    unknownOperator witnessOp witnessArgs 0 (2 ^ 40) c = .ok (0, Val.nil, c) ∧
    trueProduct witnessOp false witnessArgs = 2 ^ 64 :=
  ⟨(congrArg (fun a => unknownOperator witnessOp a 0 (2 ^ 40) c) witnessArgs_def).trans
    ((unknownOperator_witness_form 85 (2 ^ 26) 22365704 (2 ^ 40) (2 ^ 34) c
      (unknownConcat_witness_form (2 ^ 40) 85 (2 ^ 26) 22365704 (by decide))).trans (w_tail c)),
   (congrArg (trueProduct witnessOp false) witnessArgs_def).trans
    ((trueProduct_witness_form witnessOp 85 (2 ^ 26) 22365704).trans witness_product_value)⟩

theorem rule_ok_pos (op : Bytes) (nm strict : Bool) (B : Nat) (ss : List (Option Nat)) (k : Nat)
    (h : unknownRule op nm strict B ss = .ok k) : 0 < k := by
  unfold unknownRule at h
  split at h; · cases h
  split at h; · cases h
  split at h; · cases h
  simp only at h
  split at h; · cases h
  split at h; · cases h
  split at h; · cases h
  injection h with h
  subst h
  exact Nat.mul_pos (by omega) (base_pos _ _ _)

theorem not_agrees_ok_zero (c : Ctr) (spec : Except Err Nat) (hpos : ∀ k, spec = .ok k → 0 < k) :
    ¬ Agrees c (.ok (0, Val.nil, c)) spec := by
  cases spec with
  | error e => simp [Agrees]
  | ok k => have := hpos k rfl; simp only [Agrees]; omega

/-- the full statement is false of the code as it is (pre-hard-fork cost model) -/
theorem unknown_rule_statement_false : ¬ UnknownRuleStatement := by
  intro h
  unfold UnknownRuleStatement at h
  have hb : (2 : Nat) ^ 40 < 2 ^ 64 := by omega
  have h1 := h witnessOp 0 (2 ^ 40) witnessArgs (Ctr.new 0) hb
  generalize hr : ruleOf witnessOp 0 (2 ^ 40) witnessArgs = spec at h1
  rw [(unknown_wrap_witness (Ctr.new 0)).1] at h1
  exact not_agrees_ok_zero _ spec (fun k hk => rule_ok_pos _ _ _ _ _ k (hr.trans hk)) h1

/-- the hypotheses of the theorems are satisfiable and the rule is not vacuous: a small call inside
the proved region (`unknown_add_x2` on one 2-byte atom: (1+1)·(99 + 320 + 3·2) = 850) -/
example : (unknownOperator [0x01, 0x40] (mkList [Val.atom [1, 2] false]) 0 5000 (Ctr.new 0)).toOption
    = some (850, Val.nil, Ctr.new 0) := by decide +kernel
example : (ruleOf [0x01, 0x40] 0 5000 (mkList [Val.atom [1, 2] false])).toOption = some 850 := by
  decide +kernel
example : trueProduct [0x01, 0x40] false (mkList [Val.atom [1, 2] false]) < 2 ^ 64 := by decide +kernel

end Clvm.Props.C09
