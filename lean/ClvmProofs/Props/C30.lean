/-
C30 — RuntimeDialect with the standard table matches ChiaDialect.

The two dispatch tables are regenerated from `src/f_table.rs` and `src/chia_dialect.rs` on every
run (`Clvm.Gen.fTableNames`, `Clvm.Gen.chiaOpTable`).
-/
import ClvmModel.Interp.Machine
import ClvmModel.Proto.Run
import ClvmProofs.Lemmas.Interp.RuntimeLift
import ClvmProofs.Lemmas.Interp.RuntimeLiftCrypto
import ClvmProofs.Lemmas.Interp.RuntimeLiftSyntactic

namespace Clvm.Props.C30
open Clvm Clvm.Interp Clvm.Alloc

/-- the standard operator-name table: every name of `f_table.rs` at the opcode `ChiaDialect`
gives to the same operator function -/
def standardOpMap := Proto.standardOpMap

/-- **Common table.** Every entry of the standard table names an operator function that
`ChiaDialect` installs at the same one-byte opcode *unconditionally* (no enabling flag). -/
theorem table_agrees :
    ∀ e ∈ standardOpMap, ∃ fn, (Gen.fTableNames.find? (fun n => n.1 == e.1)).map (·.2) = some fn ∧
      e.2.length = 1 ∧ lookupOp Gen.chiaOpTable (Alloc.beNat e.2) = some (fn, 0) := by
  decide

/-- the opcodes `ChiaDialect` assigns (possibly behind a flag) but the standard table lacks:
programs using them are outside the property's quantifier -/
theorem chia_only_opcodes :
    (Gen.chiaOpTable.filter (fun e => !(standardOpMap.any (fun m => Alloc.beNat m.2 == e.1)))).map (·.1)
      = [48, 62, 63, 64, 65] := by
  decide

/-- same keywords: quote 1, apply 2, softfork 36 -/
theorem keywords : Gen.chia_quote_kw = 1 ∧ Gen.chia_apply_kw = 2 ∧ Gen.chia_softfork_kw = 36 := by decide

/-- the lookup `RuntimeDialect` performs for a one-byte opcode (`f_lookup[b]`) -/
def fLookup (b : Nat) : Option String :=
  (standardOpMap.find? (fun e => e.2.length == 1 && Alloc.beNat e.2 == b)).bind
    (fun e => (Gen.fTableNames.find? (fun n => n.1 == e.1)).map (fun n => n.2))

/-- for every byte in the standard table both dialects resolve the same operator function name,
`ChiaDialect` without an enabling flag, and the byte is a canonical small integer -/
theorem lookup_agrees : ∀ n, n < 256 →
    standardOpMap.any (fun e => Alloc.beNat e.2 == n) = true →
    ∃ name, fLookup n = some name ∧ lookupOp Gen.chiaOpTable n = some (name, 0) ∧
      Alloc.fitsInSmallAtom [UInt8.ofNat n] = some n := by
  decide +kernel

/-- **Dispatch agreement.** For every one-byte operator atom whose opcode is in the standard
table, both dialects call the same operator function with the same flags (for `ChiaDialect` outside
any softfork guard, and for modpow unless `DISABLE_OP` is set, which C30 excludes). -/
theorem op_agrees (cfg : Cfg) (extra : String → Option OpFn) (flags : Nat) (b : UInt8) (inl : Bool)
    (args : Val) (m : Nat) (c : Ctr)
    (hin : standardOpMap.any (fun e => Alloc.beNat e.2 == b.toNat) = true)
    (hdis : hasFlag flags Gen.FLAG_DISABLE_OP = false) :
    (runtimeDialect cfg extra standardOpMap 1 2 flags).op (.atom [b] inl) args m .Default c
      = chiaOp cfg extra flags (.atom [b] inl) args m .Default c := by
  obtain ⟨name, h1, h2, h3⟩ := lookup_agrees b.toNat (UInt8.toNat_lt b) hin
  have hb : UInt8.ofNat b.toNat = b := by simp
  rw [hb] at h3
  have hbe : Alloc.beNat [b] = b.toNat := by simp [Alloc.beNat]
  have hsn : smallNumber (.atom [b] inl) = some b.toNat := by
    cases inl <;> simp [smallNumber, h3, hbe]
  unfold fLookup at h1
  simp only [runtimeDialect, chiaOp, List.length_singleton, hbe, h1, hsn, h2, Nat.or_zero, hdis]
  simp
  cases coreOpByName cfg name <;> cases extra name <;> simp

/-! ### whole runs

The property quantifies over programs that "use only opcodes of the table (or opcodes both dialects
treat as unknown) and no softfork guard".  Operator atoms are read from program trees, but `a` runs
computed trees, so the condition is stated on the run: `InCommonDomain` replays the `ChiaDialect`
run (`Lemmas/Interp/RuntimeLift.lean`: `inCommonDomain`, `commonRun`, `stepInDomain`) and checks at
every `Apply` step that

* the operator atom popped from the value stack is not `chiaOnly F` — an atom `ChiaDialect::op`
  dispatches to a named function and `RuntimeDialect::op` to `op_unknown`: the two 4-byte secp
  opcodes, opcode 48, and 62 / 63 / 64 / 65 when their enabling flag is in `F`
  (`chiaOnly_one_byte`, `chiaOnly_four_bytes`, `chiaOnly_other`);
* `apply_op` does not reach the guard entry (`entersGuard`: softfork keyword, cost operand within
  budget and non-zero, arguments accepted by `parse_softfork_arguments`, i.e. a known extension).

Everything else is inside: table operators, `q`, `a`, atoms of any length or representation both
dialects treat as unknown, opcodes whose enabling flag is off, softfork forms with an unknown
extension or malformed arguments. -/

/-- the `ChiaDialect::new(F)` run of `program` stays in the common domain -/
def InCommonDomain (cfg : Cfg) (extra : String → Option OpFn) (F fuel : Nat) (c0 : Ctr) (p env : Val)
    (mc : Nat) : Bool :=
  inCommonDomain cfg (chiaDialect cfg extra F) (fun o => !chiaOnly F o) fuel c0 p env mc

/-- one-byte operator atoms outside the common domain: 48 (`coinid`), and 62 (`keccak256`),
63 (`sha256tree`), 64 / 65 (secp) when the flag that enables them outside a guard is set -/
theorem chiaOnly_one_byte (F : Nat) (b : UInt8) (inl : Bool) :
    chiaOnly F (.atom [b] inl) =
      (b.toNat == 48 || (b.toNat == 62 && hasFlag F Gen.FLAG_ENABLE_KECCAK_OPS_OUTSIDE_GUARD) ||
       (b.toNat == 63 && hasFlag F Gen.FLAG_ENABLE_SHA256_TREE) ||
       ((b.toNat == 64 || b.toNat == 65) && hasFlag F Gen.FLAG_ENABLE_SECP_OPS)) := by
  have key : ∀ n, n < 256 →
      ((lookupOp Gen.chiaOpTable n).bind (fun x => if (stdLookup n).isNone then some x.2 else none)) =
        (if n = 48 then some 0 else if n = 62 then some Gen.FLAG_ENABLE_KECCAK_OPS_OUTSIDE_GUARD
         else if n = 63 then some Gen.FLAG_ENABLE_SHA256_TREE
         else if n = 64 ∨ n = 65 then some Gen.FLAG_ENABLE_SECP_OPS else none) ∧
      (((lookupOp Gen.chiaOpTable n).bind (fun x => if (stdLookup n).isNone then some x.2 else none)).isSome →
        fitsInSmallAtom [UInt8.ofNat n] = some n) := by
    decide +kernel
  have hk := key b.toNat (UInt8.toNat_lt b)
  have hb : UInt8.ofNat b.toNat = b := by simp
  rw [hb] at hk
  obtain ⟨hk1, hk2⟩ := hk
  have h0 : hasFlag F 0 = false := by simp [hasFlag]
  simp only [chiaOnly, List.length_singleton, Nat.reduceBEq, Bool.false_eq_true, if_false,
    bne_self_eq_false]
  cases hsn : smallNumber (.atom [b] inl) with
  | none =>
    simp only
    -- the atom is a heap atom that is not a canonical small integer: none of the listed bytes
    cases inl with
    | true => simp [smallNumber] at hsn
    | false =>
      simp only [smallNumber] at hsn
      cases hl : lookupOp Gen.chiaOpTable b.toNat with
      | none =>
        rw [hl] at hk1
        simp only [Option.bind_none] at hk1
        split at hk1
        · cases hk1
        · split at hk1
          · cases hk1
          · split at hk1
            · cases hk1
            · split at hk1
              · cases hk1
              · rename_i a1 a2 a3 a4
                simp only [not_or] at a4
                simp [a1, a2, a3, a4.1, a4.2]
      | some x =>
        rw [hl] at hk1 hk2
        simp only [Option.bind_some] at hk1 hk2
        by_cases hn : (stdLookup b.toNat).isNone = true
        · simp only [hn, if_true, Option.isSome_some, forall_const] at hk2
          rw [hk2] at hsn; cases hsn
        · simp only [hn, Bool.false_eq_true, if_false] at hk1
          split at hk1
          · cases hk1
          · split at hk1
            · cases hk1
            · split at hk1
              · cases hk1
              · split at hk1
                · cases hk1
                · rename_i a1 a2 a3 a4
                  simp only [not_or] at a4
                  simp [a1, a2, a3, a4.1, a4.2]
  | some op =>
    have hop : op = b.toNat := by
      cases inl
      · exact fits_single hsn
      · simp only [smallNumber, Option.some.injEq, beNat_single] at hsn; exact hsn.symm
    subst hop
    simp only
    cases hl : lookupOp Gen.chiaOpTable b.toNat with
    | none =>
      rw [hl] at hk1
      simp only [Option.bind_none] at hk1
      split at hk1
      · cases hk1
      · split at hk1
        · cases hk1
        · split at hk1
          · cases hk1
          · split at hk1
            · cases hk1
            · rename_i a1 a2 a3 a4
              simp only [not_or] at a4
              simp [a1, a2, a3, a4.1, a4.2]
    | some x =>
      obtain ⟨name, req⟩ := x
      rw [hl] at hk1
      simp only [Option.bind_some] at hk1 ⊢
      by_cases hn : (stdLookup b.toNat).isNone = true
      · simp only [hn, if_true, Bool.and_true] at hk1 ⊢
        split at hk1
        · rename_i a1; cases hk1; simp [a1, h0]
        · split at hk1
          · rename_i a1 a2; cases hk1; simp [a2]; intro h; exact absurd h (by decide)
          · split at hk1
            · rename_i a1 a2 a3; cases hk1; simp [a3]; intro h; exact absurd h (by decide)
            · split at hk1
              · rename_i a1 a2 a3 a4
                cases hk1
                rcases a4 with a4 | a4 <;> simp [a4] <;> intro h <;> exact absurd h (by decide)
              · cases hk1
      · simp only [hn, Bool.false_eq_true, if_false, Bool.and_false] at hk1 ⊢
        split at hk1
        · cases hk1
        · split at hk1
          · cases hk1
          · split at hk1
            · cases hk1
            · split at hk1
              · cases hk1
              · rename_i a1 a2 a3 a4
                simp only [not_or] at a4
                simp [a1, a2, a3, a4.1, a4.2]

/-- four-byte operator atoms outside the common domain: the two secp opcodes -/
theorem chiaOnly_four_bytes (F : Nat) (ob : Bytes) (inl : Bool) (h : ob.length = 4) :
    chiaOnly F (.atom ob inl) = (Alloc.beNat ob == 0x13d61f00 || Alloc.beNat ob == 0x1c3a8f00) := by
  simp only [chiaOnly, h, beq_self_eq_true, if_true]
  have : Gen.chiaOp4Table = [(0x13d61f00, "op_secp256k1_verify"), (0x1c3a8f00, "op_secp256r1_verify")] := by
    decide
  rw [this]
  simp only [List.find?_cons, List.find?_nil]
  by_cases h1 : (0x13d61f00 == Alloc.beNat ob) = true
  · have : (Alloc.beNat ob == 0x13d61f00) = true := by simp only [beq_iff_eq] at h1 ⊢; exact h1.symm
    simp [h1, this]
  · have h1' : (Alloc.beNat ob == 0x13d61f00) = false := by
      simp only [beq_iff_eq] at h1 ⊢; simp only [beq_eq_false_iff_ne, ne_eq]; exact fun e => h1 e.symm
    by_cases h2 : (0x1c3a8f00 == Alloc.beNat ob) = true
    · have : (Alloc.beNat ob == 0x1c3a8f00) = true := by simp only [beq_iff_eq] at h2 ⊢; exact h2.symm
      simp [h1, h2, this]
    · have h2' : (Alloc.beNat ob == 0x1c3a8f00) = false := by
        simp only [beq_iff_eq] at h2 ⊢; simp only [beq_eq_false_iff_ne, ne_eq]; exact fun e => h2 e.symm
      simp [h1, h2, h1', h2']

/-- every other operator atom (empty, 2, 3, 5 or more bytes) is in the common domain -/
theorem chiaOnly_other (F : Nat) (ob : Bytes) (inl : Bool) (h4 : ob.length ≠ 4) (h1 : ob.length ≠ 1) :
    chiaOnly F (.atom ob inl) = false := by
  simp [chiaOnly, h4, h1]

/-- **Whole runs.**  For every flag set `F` without `ENABLE_GC` and `DISABLE_OP`, every program,
environment, budget and allocator state: if the `ChiaDialect::new(F)` run stays in the common domain,
`run_program` under `RuntimeDialect::new(standard table, quote 1, apply 2, F)` is the same outcome —
result, cost, error, allocator counters (the two machines go through identical states).
`hex`: the operators outside the core table do not see that `ChiaDialect::new` removes `LIMITS`
under `NEW_COST_MODEL` while `RuntimeDialect::new` keeps it (proved for the core operators:
`coreOps_normFlags`; for `cryptoExtra`: `run_agrees_chia`; trivial when `F` lacks one of the two
flags: `run_agrees_flags`). -/
theorem run_agrees (cfg : Cfg) (extra : String → Option OpFn) (F : Nat)
    (hgc : hasFlag F Gen.FLAG_ENABLE_GC = false) (hdis : hasFlag F Gen.FLAG_DISABLE_OP = false)
    (hex : ExtraNorm extra F) (fuel : Nat) (c0 : Ctr) (p env : Val) (mc : Nat)
    (hdom : InCommonDomain cfg extra F fuel c0 p env mc = true) :
    runProgram cfg (runtimeDialect cfg extra standardOpMap 1 2 F) fuel c0 p env mc =
      runProgram cfg (chiaDialect cfg extra F) fuel c0 p env mc :=
  runProgram_common (runtime_chia_agree cfg extra F hgc hdis hex) fuel c0 p env mc hdom

/-- no operator hypothesis at all when `F` does not combine `NEW_COST_MODEL` with `LIMITS` (both
constructors then keep the same flag word) -/
theorem run_agrees_flags (cfg : Cfg) (extra : String → Option OpFn) (F : Nat)
    (hgc : hasFlag F Gen.FLAG_ENABLE_GC = false) (hdis : hasFlag F Gen.FLAG_DISABLE_OP = false)
    (hnl : (hasFlag F Gen.FLAG_NEW_COST_MODEL && hasFlag F Gen.FLAG_LIMITS) = false)
    (fuel : Nat) (c0 : Ctr) (p env : Val) (mc : Nat)
    (hdom : InCommonDomain cfg extra F fuel c0 p env mc = true) :
    runProgram cfg (runtimeDialect cfg extra standardOpMap 1 2 F) fuel c0 p env mc =
      runProgram cfg (chiaDialect cfg extra F) fuel c0 p env mc :=
  run_agrees cfg extra F hgc hdis
    (extraNorm_of_normFlags_eq extra (by unfold normFlags; simp [hnl])) fuel c0 p env mc hdom

/-- **The dialects the crate ships** (all operators, `extra = cryptoExtra`): every flag set without
`ENABLE_GC` and `DISABLE_OP`, no hypothesis about the operators. -/
theorem run_agrees_chia (cfg : Cfg) (F : Nat)
    (hgc : hasFlag F Gen.FLAG_ENABLE_GC = false) (hdis : hasFlag F Gen.FLAG_DISABLE_OP = false)
    (fuel : Nat) (c0 : Ctr) (p env : Val) (mc : Nat)
    (hdom : InCommonDomain cfg cryptoExtra F fuel c0 p env mc = true) :
    runProgram cfg (runtimeDialect cfg cryptoExtra standardOpMap 1 2 F) fuel c0 p env mc =
      runProgram cfg (chiaDialect cfg cryptoExtra F) fuel c0 p env mc :=
  run_agrees cfg cryptoExtra F hgc hdis (cryptoExtra_norm F) fuel c0 p env mc hdom

/-- **Syntactic sufficient condition.**  `simple F false p`: `p` is built from paths, quoted constants
`(q . x)` and forms `(op arg …)` whose operator is an atom that is not `chiaOnly F`, not `a` (2) and not
the softfork keyword (36), with simple arguments.  Such a program is in the common domain for every
environment, budget, fuel and allocator state (without `a` every operator the machine applies is an
operator atom of the program text). -/
theorem simple_in_domain (cfg : Cfg) (extra : String → Option OpFn) (F fuel : Nat) (c0 : Ctr) (p env : Val)
    (mc : Nat) (hsim : simple F false p = true) : InCommonDomain cfg extra F fuel c0 p env mc = true :=
  inCommonDomain_of_simple rfl rfl rfl fuel c0 p env mc hsim

/-- … hence the two shipped dialects agree on every run of a simple program -/
theorem run_agrees_simple (cfg : Cfg) (F : Nat)
    (hgc : hasFlag F Gen.FLAG_ENABLE_GC = false) (hdis : hasFlag F Gen.FLAG_DISABLE_OP = false)
    (fuel : Nat) (c0 : Ctr) (p env : Val) (mc : Nat) (hsim : simple F false p = true) :
    runProgram cfg (runtimeDialect cfg cryptoExtra standardOpMap 1 2 F) fuel c0 p env mc =
      runProgram cfg (chiaDialect cfg cryptoExtra F) fuel c0 p env mc :=
  run_agrees_chia cfg F hgc hdis fuel c0 p env mc (simple_in_domain cfg cryptoExtra F fuel c0 p env mc hsim)

/-! ### the hypotheses are satisfiable, the domain is not empty and not everything -/

/-- `(c (0x4f (q . 1)) (+ (q . 2) (* (q . 3) (q . 5))))`: three table operators, `q`, and an opcode
both dialects treat as unknown -/
def sampleProgram : Val :=
  Val.ofTree (.pair (.atom [4]) (.pair (.pair (.atom [0x4f]) (.pair (.pair (.atom [1]) (.atom [1])) (.atom [])))
    (.pair (.pair (.atom [16]) (.pair (.pair (.atom [1]) (.atom [2]))
      (.pair (.pair (.atom [18]) (.pair (.pair (.atom [1]) (.atom [3])) (.pair (.pair (.atom [1]) (.atom [5])) (.atom []))))
        (.atom [])))) (.atom []))))

example : simple 0 false sampleProgram = true := by decide +kernel

/-- the sample run stays in the common domain … -/
example : InCommonDomain { fastpath := true } cryptoExtra 0 100 (Ctr.new (2 ^ 32 - 1)) sampleProgram Val.nil 0 = true := by
  decide +kernel

/-- … and is a complete run: cost 2310, result `(() . 17)` (so the check above went through every
step of it, not through an early failure) -/
example :
    (match runProgram { fastpath := true } (chiaDialect { fastpath := true } cryptoExtra 0) 100 (Ctr.new (2 ^ 32 - 1))
        sampleProgram Val.nil 0 with
      | some (.ok (cost, v, _)) => cost == 2310 && v == .pair Val.nil (.atom [17] true)
      | _ => false) = true := by
  decide +kernel

/-- the same under a flag set with both `NEW_COST_MODEL` and `LIMITS` (the two constructors keep
different flag words) and strict mode off -/
example : InCommonDomain { fastpath := true } cryptoExtra (Gen.FLAG_NEW_COST_MODEL ||| Gen.FLAG_LIMITS) 100
    (Ctr.new (2 ^ 32 - 1)) sampleProgram Val.nil 0 = true := by
  decide +kernel

/-- `(coinid)`: opcode 48 is outside the domain, and the two dialects do differ on it
(`ChiaDialect`: an error of `op_coinid`; `RuntimeDialect`: `op_unknown` succeeds) -/
def coinidProgram : Val := Val.ofTree (.pair (.atom [48]) (.atom []))

example : InCommonDomain { fastpath := true } cryptoExtra 0 100 (Ctr.new (2 ^ 32 - 1)) coinidProgram Val.nil 0 = false := by
  decide +kernel

example :
    (match runProgram { fastpath := true } (chiaDialect { fastpath := true } cryptoExtra 0) 100 (Ctr.new (2 ^ 32 - 1))
        coinidProgram Val.nil 0,
      runProgram { fastpath := true } (runtimeDialect { fastpath := true } cryptoExtra standardOpMap 1 2 0) 100
        (Ctr.new (2 ^ 32 - 1)) coinidProgram Val.nil 0 with
      | some (.error _), some (.ok _) => true
      | _, _ => false) = true := by
  decide +kernel

/-- `(softfork (q . 100) (q . 0) (q . 1) (q . ()))`: a guard with the known extension 0 is outside the
domain, and the two dialects differ (`ChiaDialect` runs the guard and fails its cost check;
`RuntimeDialect` knows no extension and, in lenient mode, returns nil) -/
def guardProgram : Val :=
  Val.ofTree (.pair (.atom [36]) (.pair (.pair (.atom [1]) (.atom [100])) (.pair (.pair (.atom [1]) (.atom []))
    (.pair (.pair (.atom [1]) (.atom [1])) (.pair (.pair (.atom [1]) (.atom [])) (.atom []))))))

example : InCommonDomain { fastpath := true } cryptoExtra 0 100 (Ctr.new (2 ^ 32 - 1)) guardProgram Val.nil 0 = false := by
  decide +kernel

example :
    (match runProgram { fastpath := true } (chiaDialect { fastpath := true } cryptoExtra 0) 100 (Ctr.new (2 ^ 32 - 1))
        guardProgram Val.nil 0,
      runProgram { fastpath := true } (runtimeDialect { fastpath := true } cryptoExtra standardOpMap 1 2 0) 100
        (Ctr.new (2 ^ 32 - 1)) guardProgram Val.nil 0 with
      | some (.error _), some (.ok _) => true
      | _, _ => false) = true := by
  decide +kernel

/-- a softfork form with an unknown extension (5) is inside the domain -/
def unknownGuardProgram : Val :=
  Val.ofTree (.pair (.atom [36]) (.pair (.pair (.atom [1]) (.atom [100])) (.pair (.pair (.atom [1]) (.atom [5]))
    (.pair (.pair (.atom [1]) (.atom [1])) (.pair (.pair (.atom [1]) (.atom [])) (.atom []))))))

example : InCommonDomain { fastpath := true } cryptoExtra 0 100 (Ctr.new (2 ^ 32 - 1)) unknownGuardProgram Val.nil 0 = true := by
  decide +kernel

end Clvm.Props.C30
