/-
C30 — RuntimeDialect with the standard table matches ChiaDialect.

The two dispatch tables are regenerated from `src/f_table.rs` and `src/chia_dialect.rs` on every
run (`Clvm.Gen.fTableNames`, `Clvm.Gen.chiaOpTable`).
-/
import ClvmModel.Interp.Machine
import ClvmModel.Proto.Run

namespace Clvm.Props.C30
open Clvm Clvm.Interp

/-- the standard operator-name table: every name of `f_table.rs` at the opcode `ChiaDialect`
gives to the same operator function -/
def standardOpMap := Proto.standardOpMap

/-- **Common table.** Every entry of the standard table names an operator function that
`ChiaDialect` installs at the same one-byte opcode *unconditionally* (no enabling flag). -/
theorem table_agrees :
    ∀ e ∈ standardOpMap, ∃ fn, (Gen.fTableNames.find? (fun n => n.1 == e.1)).map (·.2) = some fn ∧
      e.2.length = 1 ∧ lookupOp Gen.chiaOpTable (Alloc.beNat e.2) = some (fn, 0) := by
  decide

/-- the opcodes `ChiaDialect` assigns (possibly behind a flag) but the standard table lacks:
programs using them are outside the property's quantifier -/
theorem chia_only_opcodes :
    (Gen.chiaOpTable.filter (fun e => !(standardOpMap.any (fun m => Alloc.beNat m.2 == e.1)))).map (·.1)
      = [48, 62, 63, 64, 65] := by
  decide

/-- same keywords: quote 1, apply 2, softfork 36 -/
theorem keywords : Gen.chia_quote_kw = 1 ∧ Gen.chia_apply_kw = 2 ∧ Gen.chia_softfork_kw = 36 := by decide

/-- the lookup `RuntimeDialect` performs for a one-byte opcode (`f_lookup[b]`) -/
def fLookup (b : Nat) : Option String :=
  (standardOpMap.find? (fun e => e.2.length == 1 && Alloc.beNat e.2 == b)).bind
    (fun e => (Gen.fTableNames.find? (fun n => n.1 == e.1)).map (fun n => n.2))

/-- for every byte in the standard table both dialects resolve the same operator function name,
`ChiaDialect` without an enabling flag, and the byte is a canonical small integer -/
theorem lookup_agrees : ∀ n, n < 256 →
    standardOpMap.any (fun e => Alloc.beNat e.2 == n) = true →
    ∃ name, fLookup n = some name ∧ lookupOp Gen.chiaOpTable n = some (name, 0) ∧
      Alloc.fitsInSmallAtom [UInt8.ofNat n] = some n := by
  decide +kernel

/-- **Dispatch agreement.** For every one-byte operator atom whose opcode is in the standard
table, both dialects call the same operator function with the same flags (for `ChiaDialect` outside
any softfork guard, and for modpow unless `DISABLE_OP` is set, which C30 excludes). -/
theorem op_agrees (cfg : Cfg) (extra : String → Option OpFn) (flags : Nat) (b : UInt8) (inl : Bool)
    (args : Val) (m : Nat) (c : Ctr)
    (hin : standardOpMap.any (fun e => Alloc.beNat e.2 == b.toNat) = true)
    (hdis : hasFlag flags Gen.FLAG_DISABLE_OP = false) :
    (runtimeDialect cfg extra standardOpMap 1 2 flags).op (.atom [b] inl) args m .Default c
      = chiaOp cfg extra flags (.atom [b] inl) args m .Default c := by
  obtain ⟨name, h1, h2, h3⟩ := lookup_agrees b.toNat (UInt8.toNat_lt b) hin
  have hb : UInt8.ofNat b.toNat = b := by simp
  rw [hb] at h3
  have hbe : Alloc.beNat [b] = b.toNat := by simp [Alloc.beNat]
  have hsn : smallNumber (.atom [b] inl) = some b.toNat := by
    cases inl <;> simp [smallNumber, h3, hbe]
  unfold fLookup at h1
  simp only [runtimeDialect, chiaOp, List.length_singleton, hbe, h1, hsn, h2, Nat.or_zero, hdis]
  simp
  cases coreOpByName cfg name <;> cases extra name <;> simp

end Clvm.Props.C30
