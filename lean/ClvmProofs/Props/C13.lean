/-
C13 — allocator limits are enforced exactly.

Property theorems only; helper lemmas are in `Lemmas/Alloc*.lean`.  `Inv` (every `AtomBuf`
inside the heap, children older than their pair, `atom_count ≤ MAX_NUM_ATOMS`,
`pair_count ≤ MAX_NUM_PAIRS`, `heap_limit ≤ u32::MAX`) is preserved by every operation;
`HeapOk` (`heap_size ≤ heap_limit`) by every operation except `new_substr` inside the defect
region of DESIGN §6 finding C (`HeapCap` / `heap_cap_partial` / `heap_cap_witness`).
`fail_exact`: each operation returns its limit error exactly when completing it would exceed
the cap; `fail_unchanged`: a failed operation leaves the state unchanged.
-/
import ClvmProofs.Lemmas.AllocStep

namespace Clvm.Props.C13
open Clvm Clvm.Alloc

/-- the caps of the statement (62,500,000) are the ones the code declares -/
theorem caps_values : Gen.maxNumAtoms = 62500000 ∧ Gen.maxNumPairs = 62500000 := by decide

/-- a fresh allocator satisfies the invariant (heap part: `limit ≥ 1`, the initial ghost heap) -/
theorem inv_new (limit : Nat) (a0 : Alloc) (h : newLimited limit = .ok a0) (hl : Gen.initGhostHeap ≤ limit) :
    Inv a0 ∧ HeapOk a0 := inv_newLimited limit a0 h hl

/-- `new_limited` panics above 4 GiB -/
theorem new_limited_panics (limit : Nat) (h : limit > u32Max) : ∃ m, newLimited limit = .error (.Panic m) := by
  unfold newLimited; rw [if_pos h]; exact ⟨_, rfl⟩

/-- counts never exceed the caps, in every state satisfying the invariant -/
theorem counts_le_caps (a : Alloc) (hI : Inv a) :
    atomCount a ≤ Gen.maxNumAtoms ∧ pairCount a ≤ Gen.maxNumPairs := ⟨hI.atomCap, hI.pairCap⟩

/-- all lengths stay below 2^32: the `as u32` casts of the code are the identity -/
theorem lengths_fit_u32 (a : Alloc) (hI : Inv a) (hH : HeapOk a) : a.u8.length < 2 ^ 32 := by
  have := hI.limit
  unfold HeapOk at hH
  unfold u32Max at this
  omega

/-! ### `Inv` is preserved by every operation; failed operations change nothing -/

/-- node-creating operations (`new_atom`, `new_small_number`, `new_u64`, `new_i64`, `new_number`,
`new_pair`, `new_concat`, `new_substr` outside the defect region — see the `refines_…` theorems
of C12 for the instances): whatever the outcome, `Inv` holds afterwards -/
theorem inv_preserved (a : Alloc) (out : Out Ptr) (ref : Except Err (Tree × RefAlloc)) (hI : Inv a)
    (h : Refines a out ref) : Inv out.2 := by
  obtain ⟨res, a'⟩ := out
  cases res with
  | ok p =>
    cases ref with
    | ok x => exact h.2.2.2.1
    | error e => exact absurd h (by simp [Refines])
  | error e =>
    cases ref with
    | ok x => exact absurd h (by simp [Refines])
    | error e' => rw [show a' = a from h.2]; exact hI

theorem inv_preserved_unit (a : Alloc) (out : Out Unit) (ref : Except Err RefAlloc) (hI : Inv a)
    (h : RefinesU a out ref) : Inv out.2 := by
  obtain ⟨res, a'⟩ := out
  cases res with
  | ok p =>
    cases ref with
    | ok x => exact h.2.1
    | error e => exact absurd h (by simp [RefinesU])
  | error e =>
    cases ref with
    | ok x => exact absurd h (by simp [RefinesU])
    | error e' => rw [show a' = a from h.2]; exact hI

/-- `new_substr` inside the defect region still preserves `Inv` (it is `HeapOk` that it breaks) -/
theorem inv_preserved_substr_defect (a : Alloc) (v s e : Nat) (hI : Inv a) (hp : Valid a (.small v))
    (hd : substrDefect (.small v) s e = true) : Inv (newSubstr a (.small v) s e).2 := by
  by_cases hfull : atomCount a + 1 ≤ Gen.maxNumAtoms
  · obtain ⟨a', h, _, _, _, _, hI', _⟩ := newSubstr_defect a v s e hI hp hd hfull
    rw [h]; exact hI'
  · unfold newSubstr
    rw [checkAtomLimit_eq a hI, if_pos (by omega)]
    exact hI

theorem inv_preserved_restore (a : Alloc) (cp : Checkpoint) (hI : Inv a) (hv : CpValid a cp) :
    Inv (restoreCheckpoint a cp).2 := by
  rw [restoreCheckpoint_eq a cp hv]; exact restoredC_inv a cp hI hv

theorem inv_preserved_restore_transparent (a : Alloc) (cp : TCheckpoint) (hI : Inv a) (hv : TCpValid a cp) :
    Inv (restoreTransparentCheckpoint a cp).2 := by
  rw [restoreTransparent_eq a cp hv]; exact restoredT_inv a cp hI hv

theorem inv_preserved_maybe_restore (a : Alloc) (cp : TCheckpoint) (ret : Ptr) (hI : Inv a)
    (hv : TCpValid a cp) (hr : Valid a ret) : Inv (maybeRestoreWithNode a cp ret).2 := by
  obtain ⟨r, a', h, ho⟩ := maybeRestore_ok a cp ret hI hv hr
  rw [h]
  cases ho with
  | aborted => exact hI
  | noReplace _ hw => exact hw.inv
  | replace _ q _ hw => exact hw.inv

/-- **`fail_unchanged`**: a failed node-creating operation leaves contents and counts unchanged
(this includes the `truncate` exits of `new_concat`) -/
theorem fail_unchanged (a : Alloc) (out : Out Ptr) (ref : Except Err (Tree × RefAlloc))
    (h : Refines a out ref) (e : Err) (he : out.1 = .error e) : out.2 = a := by
  obtain ⟨res, a'⟩ := out
  cases res with
  | ok p => cases he
  | error e0 =>
    cases ref with
    | ok x => exact absurd h (by simp [Refines])
    | error e' => exact h.2

theorem fail_unchanged_unit (a : Alloc) (out : Out Unit) (ref : Except Err RefAlloc)
    (h : RefinesU a out ref) (e : Err) (he : out.1 = .error e) : out.2 = a := by
  obtain ⟨res, a'⟩ := out
  cases res with
  | ok p => cases he
  | error e0 =>
    cases ref with
    | ok x => exact absurd h (by simp [RefinesU])
    | error e' => exact h.2

/-- the instance with the `truncate` paths -/
theorem fail_unchanged_concat (a : Alloc) (newSize : Nat) (ps : List Ptr) (hI : Inv a)
    (hv : ∀ p ∈ ps, Valid a p) (h1 : ∀ i, ps ≠ [.pair i]) (e : Err)
    (he : (newConcat a newSize ps).1 = .error e) : (newConcat a newSize ps).2 = a :=
  fail_unchanged a _ _ (newConcat_refines a newSize ps hI hv h1) e he

/-! ### `fail_exact` -/

/-- `new_atom`: `OutOfMemory` iff the bytes do not fit below the heap limit; otherwise
`TooManyAtoms` iff the atom count is at its cap; otherwise it succeeds -/
theorem new_atom_fail_exact (a : Alloc) (b : Bytes) (hI : Inv a) :
    (heapSize a + b.length > a.heapLimit → newAtom a b = (.error .OutOfMemory, a)) ∧
    (heapSize a + b.length ≤ a.heapLimit → atomCount a + 1 > Gen.maxNumAtoms →
      newAtom a b = (.error .TooManyAtoms, a)) ∧
    (heapSize a + b.length ≤ a.heapLimit → atomCount a + 1 ≤ Gen.maxNumAtoms →
      ∃ p a', newAtom a b = (.ok p, a')) := by
  have h := newAtom_refines a b hI
  refine ⟨fun h1 => ?_, fun h1 h2 => ?_, fun h1 h2 => ?_⟩
  · obtain ⟨e, he, hk⟩ := refines_error h (e' := .OutOfMemory) (by
      unfold RefAlloc.newAtom; rw [if_pos (by exact h1)])
    rw [he, kind_oom hk]
  · obtain ⟨e, he, hk⟩ := refines_error h (e' := .TooManyAtoms) (by
      unfold RefAlloc.newAtom
      rw [if_neg (by show ¬ heapSize a + b.length > a.heapLimit; omega), if_pos (by exact h2)])
    rw [he, kind_atoms hk]
  · exact refines_ok h (by
      unfold RefAlloc.newAtom
      rw [if_neg (by show ¬ heapSize a + b.length > a.heapLimit; omega),
          if_neg (by show ¬ atomCount a + 1 > Gen.maxNumAtoms; omega)])

/-- `new_pair`: `TooManyPairs` iff the pair count is at its cap -/
theorem new_pair_fail_exact (a : Alloc) (l r : Ptr) (hI : Inv a) (hl : Valid a l) (hr : Valid a r) :
    (pairCount a + 1 > Gen.maxNumPairs → newPair a l r = (.error .TooManyPairs, a)) ∧
    (pairCount a + 1 ≤ Gen.maxNumPairs → ∃ p a', newPair a l r = (.ok p, a')) := by
  have h := newPair_refines a l r hI hl hr
  refine ⟨fun h1 => ?_, fun h1 => ?_⟩
  · obtain ⟨e, he, hk⟩ := refines_error h (e' := .TooManyPairs) (by
      unfold RefAlloc.newPair; rw [if_pos (by exact h1)])
    rw [he, kind_pairs hk]
  · exact refines_ok h (by
      unfold RefAlloc.newPair; rw [if_neg (by show ¬ pairCount a + 1 > Gen.maxNumPairs; omega)])

/-- `add_ghost_atom(n)` / `add_ghost_pair(n)`: fail iff the count would exceed the cap -/
theorem add_ghost_fail_exact (a : Alloc) (n : Nat) (hI : Inv a) :
    (atomCount a + n > Gen.maxNumAtoms → addGhostAtom a n = (.error .TooManyAtoms, a)) ∧
    (atomCount a + n ≤ Gen.maxNumAtoms → ∃ a', addGhostAtom a n = (.ok (), a') ∧ atomCount a' = atomCount a + n) ∧
    (pairCount a + n > Gen.maxNumPairs → addGhostPair a n = (.error .TooManyPairs, a)) ∧
    (pairCount a + n ≤ Gen.maxNumPairs → ∃ a', addGhostPair a n = (.ok (), a') ∧ pairCount a' = pairCount a + n) := by
  have ha := hI.atomCap
  have hp := hI.pairCap
  unfold atomCount pairCount
  refine ⟨fun h => ?_, fun h => ?_, fun h => ?_, fun h => ?_⟩
  · unfold addGhostAtom; rw [if_neg (by omega), if_neg (by omega), if_pos (by omega)]
  · unfold addGhostAtom; rw [if_neg (by omega), if_neg (by omega), if_neg (by omega)]
    exact ⟨_, rfl, by simp only []; omega⟩
  · unfold addGhostPair; rw [if_neg (by omega), if_neg (by omega), if_pos (by omega)]
  · unfold addGhostPair; rw [if_neg (by omega), if_neg (by omega), if_neg (by omega)]
    exact ⟨_, rfl, by simp only []; omega⟩

/-- `new_substr` and `new_concat` check the atom cap first; `new_concat` then the heap limit with
the declared size -/
theorem substr_concat_fail_exact (a : Alloc) (hI : Inv a) :
    (∀ p s e, atomCount a + 1 > Gen.maxNumAtoms → newSubstr a p s e = (.error .TooManyAtoms, a)) ∧
    (∀ n ps, atomCount a + 1 > Gen.maxNumAtoms → newConcat a n ps = (.error .TooManyAtoms, a)) ∧
    (∀ n ps, atomCount a + 1 ≤ Gen.maxNumAtoms → heapSize a + n > a.heapLimit →
      newConcat a n ps = (.error .OutOfMemory, a)) := by
  refine ⟨fun p s e h => ?_, fun n ps h => ?_, fun n ps h1 h2 => ?_⟩
  · unfold newSubstr; rw [checkAtomLimit_eq a hI, if_pos h]
  · unfold newConcat; rw [checkAtomLimit_eq a hI, if_pos h]
  · unfold newConcat
    rw [checkAtomLimit_eq a hI, if_neg (by omega)]
    simp only []
    rw [if_pos (by exact h2)]

/-- no other operation can fail with a limit error once these checks pass: a concatenation whose
declared size is right and fits succeeds -/
theorem concat_succeeds (a : Alloc) (n : Nat) (ps : List Ptr) (hI : Inv a) (hv : ∀ p ∈ ps, Valid a p)
    (hat : ∀ p ∈ ps, isAtomPtr p = true)
    (hn : ((ps.map (nodeBytes a)).flatten).length = n)
    (h1 : atomCount a + 1 ≤ Gen.maxNumAtoms) (h2 : heapSize a + n ≤ a.heapLimit) :
    ∃ p a', newConcat a n ps = (.ok p, a') := by
  have h := newConcat_refines a n ps hI hv (fun i hi => by
    have := hat (.pair i) (by rw [hi]; simp)
    simp [isAtomPtr] at this)
  have hats : ∀ (qs : List Ptr), (∀ p ∈ qs, isAtomPtr p = true) →
      RefAlloc.atomsOf (qs.map (treeOf a)) = some (qs.map (nodeBytes a)) := by
    intro qs
    induction qs with
    | nil => intro _; rfl
    | cons q qs ih =>
      intro hq
      simp only [List.map_cons, treeOf_atom a q (hq q (by simp)), RefAlloc.atomsOf,
        ih (fun p hp => hq p (by simp [hp]))]
      rfl
  exact refines_ok h (by
    unfold RefAlloc.newConcat
    rw [if_neg (by show ¬ atomCount a + 1 > Gen.maxNumAtoms; omega),
        if_neg (by show ¬ heapSize a + n > a.heapLimit; omega), hats ps hat]
    simp only []
    rw [if_neg (by simp [hn])])

/-! ### histories -/

/-- full statement: along any history from a fresh allocator the atom and pair counts never exceed
their caps and the heap size never exceeds the heap limit -/
def HeapCap : Prop :=
  ∀ (limit : Nat) (a0 : Alloc) (ops : List Op) (sf : Session) (ts : List (Tag × Nat × Nat × Nat)),
    newLimited limit = .ok a0 → Gen.initGhostHeap ≤ limit → (∀ op ∈ ops, op.wf) →
    (Session.init a0).run ops = .ok (sf, ts) →
    atomCount sf.a ≤ Gen.maxNumAtoms ∧ pairCount sf.a ≤ Gen.maxNumPairs ∧ heapSize sf.a ≤ limit

/-- … holds (together with the validity of every published node and checkpoint, `SInv`) for every
history none of whose steps is in the defect region of finding C -/
theorem heap_cap_partial (limit : Nat) (a0 : Alloc) (ops : List Op) (sf : Session)
    (ts : List (Tag × Nat × Nat × Nat)) (h0 : newLimited limit = .ok a0) (hl : Gen.initGhostHeap ≤ limit)
    (hw : ∀ op ∈ ops, op.wf) (hd : NoDefect (Session.init a0) ops)
    (h : (Session.init a0).run ops = .ok (sf, ts)) :
    SInv sf ∧ atomCount sf.a ≤ Gen.maxNumAtoms ∧ pairCount sf.a ≤ Gen.maxNumPairs ∧ heapSize sf.a ≤ limit := by
  have ⟨hI, hH⟩ := inv_new limit a0 h0 hl
  have hS := run_sinv ops _ (SInv.init a0 hI hH) hw hd sf ts h
  refine ⟨hS, hS.inv.atomCap, hS.inv.pairCap, ?_⟩
  have := hS.heap
  unfold HeapOk at this
  rw [run_heapLimit ops _ sf ts (SInv.init a0 hI hH) hw hd h] at this
  show sf.a.u8.length + sf.a.ghostHeap ≤ limit
  rw [← heapLimit_newLimited limit a0 h0]
  exact this

/-- `new_limited(3); new_small_number(128); new_substr(#0, 0, 1)` ends with heap size 4 -/
theorem heap_cap_witness : ¬ HeapCap := by
  intro h
  have hw : ∀ op ∈ [Op.small 128, Op.sub 0 0 1], op.wf := by
    intro op hop; simp at hop; rcases hop with rfl | rfl <;> trivial
  have := (h 3 _ [.small 128, .sub 0 0 1] _ _ rfl (by decide) hw rfl).2.2
  revert this
  decide

end Clvm.Props.C13
