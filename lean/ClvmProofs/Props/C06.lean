/-
C06 — the MALACHITE bignum backend is unobservable.

The `num-bigint` and `malachite` variants of div, divmod, mod and modpow are transcribed as
separate code paths (`opDivWith intAtom` / `opDivWith malachiteIntAtom`, …): argument decoding
(`int_atom` vs `malachite_int_atom`), check order, limits, cost and result encoding
(`new_number` vs `new_malachite_number`).  Both libraries' integers are Lean's `Int` (trusted base:
the libraries' arithmetic itself is compared by the `interp_malachite` oracle and the OP stream).
-/
import ClvmProofs.Lemmas.Interp.Malachite

namespace Clvm.Props.C06
open Clvm Clvm.Interp

/-- the two argument decoders agree on every value, in every representation -/
theorem int_atom_variants (v : Val) (name : String) : malachiteIntAtom v name = intAtom v name :=
  malachiteIntAtom_eq v name

/-- **div, divmod, mod, modpow**: for every argument list, flag set, budget and allocator state,
the operator with MALACHITE returns exactly what it returns without it — same result atoms, same
cost, same error, same counters. -/
theorem div_malachite (F m : Nat) (args : Val) (c : Ctr) :
    opDiv (F ||| Gen.FLAG_MALACHITE) m args c = opDiv F m args c := by
  rw [coreOps_malachite_eq (cfg := {}) (name := "op_div") rfl]

theorem divmod_malachite (F m : Nat) (args : Val) (c : Ctr) :
    opDivmod (F ||| Gen.FLAG_MALACHITE) m args c = opDivmod F m args c := by
  rw [coreOps_malachite_eq (cfg := {}) (name := "op_divmod") rfl]

theorem mod_malachite (F m : Nat) (args : Val) (c : Ctr) :
    opMod (F ||| Gen.FLAG_MALACHITE) m args c = opMod F m args c := by
  rw [coreOps_malachite_eq (cfg := {}) (name := "op_mod") rfl]

theorem modpow_malachite (F m : Nat) (args : Val) (c : Ctr) :
    opModpow (F ||| Gen.FLAG_MALACHITE) m args c = opModpow F m args c := by
  rw [coreOps_malachite_eq (cfg := {}) (name := "op_modpow") rfl]

/-- no other core operator looks at the flag either -/
theorem every_core_op_malachite {cfg : Cfg} {name : String} {f : OpFn}
    (hf : coreOpByName cfg name = some f) (F : Nat) : f (F ||| Gen.FLAG_MALACHITE) = f F :=
  coreOps_malachite_eq hf F

example : opDiv (0 ||| Gen.FLAG_MALACHITE) 100000 (Val.ofTree (.pair (.atom [0x80]) (.pair (.atom [3]) (.atom []))))
    (Ctr.new 1000) = opDiv 0 100000 (Val.ofTree (.pair (.atom [0x80]) (.pair (.atom [3]) (.atom [])))) (Ctr.new 1000) :=
  div_malachite _ _ _ _

end Clvm.Props.C06
