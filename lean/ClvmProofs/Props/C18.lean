/-
C18 — the back-reference decoders agree with each other and with the length probe.

Property theorems only; helper lemmas are in `Lemmas/BackrefPath.lean`, `Lemmas/BackrefDecode.lean`,
`Lemmas/BackrefProbe.lean`.  The models are `ClvmModel/Serde/Backref.lean` (transcription of
`src/serde/de_br.rs`, `serialized_length_from_bytes` of `src/serde/tools.rs`, the counting
behaviour of `src/allocator.rs`) and `ClvmModel/Serde/TraversePath.lean` (`src/traverse_path.rs`).

Outcomes are compared up to `normErr`: a failed back-reference is reported as `PathIntoAtom` by
`traverse_path` (legacy decoder, probe) and as `SerializationBackreferenceError` by
`traverse_path_with_vec` (current decoder).  The property speaks of *accepting the same inputs*, so
this difference of error kinds is outside it; everything else, including every other error kind, is
equal on the nose.
-/
import ClvmProofs.Lemmas.BackrefDecode

namespace Clvm.Props.C18
open Clvm Clvm.Backref Clvm.Serde.Backref Clvm.Serde.TraversePath

/-- observable outcome of a computation: its result under `f`, errors up to `normErr` -/
def outcome {α β : Type} (f : α → β) (x : Except Err α) : Except Err β :=
  match x with
  | .ok a => .ok (f a)
  | .error e => .error (normErr e)

theorem outcome_eq_of_sim {α β γ : Type} {R : α → β → Prop} {x : Except Err α} {y : Except Err β}
    (f : α → γ) (g : β → γ) (h : Sim R x y) (hfg : ∀ a b, R a b → f a = g b) :
    outcome f x = outcome g y := by
  cases h with
  | ok hr => simp [outcome, hfg _ _ hr]
  | err he => simp [outcome, he]

/-- **`vec_eq_list`.** `traverse_path_with_vec` on the decoder's vector (with any caches that satisfy
the cache invariant) returns what `traverse_path` returns on the stack folded into a CLVM list. -/
theorem vec_eq_list (path : Bytes) (args : List Entry) (c : Ctr)
    (hcache : CacheOk Tree.nil args) (hghost : unc args ≤ c.ghostPairs)
    (hinv : c.pairs + c.ghostPairs ≤ Gen.maxNumPairs) :
    outcome (fun r => r.1) (traversePathWithVec path args c) =
      outcome (fun q => q.2) (traversePath path (stackTree (args.map Prod.fst))) :=
  outcome_eq_of_sim _ _ (traversePathWithVec_sim path args c hcache hghost hinv) (fun _ _ h => h.1)

/-- `vec_eq_list` for a vector without cached lists (every path, every stack). -/
theorem vec_eq_list_fresh (path : Bytes) (stack : List Tree) (c : Ctr)
    (hghost : stack.length ≤ c.ghostPairs) (hinv : c.pairs + c.ghostPairs ≤ Gen.maxNumPairs) :
    outcome (fun r => r.1) (traversePathWithVec path (stack.map (fun v => (v, none))) c) =
      outcome (fun q => q.2) (traversePath path (stackTree stack)) := by
  have hc : ∀ (acc : Tree) (l : List Tree), CacheOk acc (l.map (fun v => (v, (none : Option Tree)))) := by
    intro acc l
    induction l generalizing acc with
    | nil => trivial
    | cons a l ih => exact ⟨fun _ h => (by cases h), ih _⟩
  have hu : ∀ l : List Tree, unc (l.map (fun v => (v, (none : Option Tree)))) = l.length := by
    intro l
    induction l with
    | nil => rfl
    | cons a l ih => simp [unc, ih]
  have := vec_eq_list path (stack.map (fun v => (v, none))) c (hc _ _) (by rw [hu]; exact hghost) hinv
  simpa [List.map_map, Function.comp_def] using this

/-- what a caller can observe of a successful decode: the tree, the cursor position, and the
allocator's `pair_count()`, `atom_count()`, `heap_size()` -/
def observe (r : Tree × Nat × Ctr) : Tree × Nat × Nat × Nat × Nat :=
  (r.1, r.2.1, r.2.2.pairCount, r.2.2.atoms, r.2.2.heap)

/-- **`de_br_new = de_br_old`.** For every byte string and every allocator state that satisfies the
allocator's own pair invariant, the current and the legacy decoder accept the same inputs, return
the same tree, consume the same bytes and leave identical pair counts (ghost parity), atom counts
and heap sizes; they fail with the same error kind (up to `normErr`). -/
theorem de_br_new_eq_old (b : Bytes) (c : Ctr) (hinv : c.pairs + c.ghostPairs ≤ Gen.maxNumPairs) :
    outcome observe (nodeFromBytesBackrefs b c) = outcome observe (nodeFromBytesBackrefsOld b c) := by
  have hrel : Rel [] c Tree.nil c := ⟨rfl, trivial, Nat.zero_le _, hinv, SameTotals.refl c⟩
  have hs := deBr_sim b.length b rfl [.sexp] [] c Tree.nil c hrel
  unfold nodeFromBytesBackrefs nodeFromBytesBackrefsOld
  revert hs
  generalize deBrNew b [.sexp] [] c = X
  generalize deBrOld b [.sexp] Tree.nil c = Y
  intro hs
  cases hs with
  | err he => simp [outcome, he]
  | ok hr =>
    rename_i r r'
    obtain ⟨t, rest, c1⟩ := r
    obtain ⟨t', rest', c1'⟩ := r'
    obtain ⟨h1, h2, h3, h4, h5, _⟩ := hr
    simp only at h1 h2 h3 h4 h5
    subst h1; subst h2
    simp only [outcome, observe, Ctr.pairCount]
    rw [h3, h4, h5]

end Clvm.Props.C18
