/-
C18 — the back-reference decoders agree with each other and with the length probe.

Property theorems only; helper lemmas are in `Lemmas/BackrefPath.lean`, `Lemmas/BackrefDecode.lean`,
`Lemmas/BackrefProbe.lean`.  The models are `ClvmModel/Serde/Backref.lean` (transcription of
`src/serde/de_br.rs`, `serialized_length_from_bytes` of `src/serde/tools.rs`, the counting
behaviour of `src/allocator.rs`) and `ClvmModel/Serde/TraversePath.lean` (`src/traverse_path.rs`).

Outcomes are compared up to `normErr`: a failed back-reference is reported as `PathIntoAtom` by
`traverse_path` (legacy decoder, probe) and as `SerializationBackreferenceError` by
`traverse_path_with_vec` (current decoder).  The property speaks of *accepting the same inputs*, so
this difference of error kinds is outside it; everything else, including every other error kind, is
equal on the nose.
-/
import ClvmProofs.Lemmas.BackrefProbe

namespace Clvm.Props.C18
open Clvm Clvm.Backref Clvm.Serde.Backref Clvm.Serde.TraversePath

/-- **`vec_eq_list`.** `traverse_path_with_vec` on the decoder's vector (with any caches that satisfy
the cache invariant) returns what `traverse_path` returns on the stack folded into a CLVM list. -/
theorem vec_eq_list (path : Bytes) (args : List Entry) (c : Ctr)
    (hcache : CacheOk Tree.nil args) (hghost : unc args ≤ c.ghostPairs)
    (hinv : c.pairs + c.ghostPairs ≤ Gen.maxNumPairs) :
    outcome (fun r => r.1) (traversePathWithVec path args c) =
      outcome (fun q => q.2) (traversePath path (stackTree (args.map Prod.fst))) :=
  outcome_eq_of_sim _ _ (traversePathWithVec_sim path args c hcache hghost hinv) (fun _ _ h => h.1)

/-- `vec_eq_list` for a vector without cached lists (every path, every stack). -/
theorem vec_eq_list_fresh (path : Bytes) (stack : List Tree) (c : Ctr)
    (hghost : stack.length ≤ c.ghostPairs) (hinv : c.pairs + c.ghostPairs ≤ Gen.maxNumPairs) :
    outcome (fun r => r.1) (traversePathWithVec path (stack.map (fun v => (v, none))) c) =
      outcome (fun q => q.2) (traversePath path (stackTree stack)) := by
  have hc : ∀ (acc : Tree) (l : List Tree), CacheOk acc (l.map (fun v => (v, (none : Option Tree)))) := by
    intro acc l
    induction l generalizing acc with
    | nil => trivial
    | cons a l ih => exact ⟨fun _ h => (by cases h), ih _⟩
  have hu : ∀ l : List Tree, unc (l.map (fun v => (v, (none : Option Tree)))) = l.length := by
    intro l
    induction l with
    | nil => rfl
    | cons a l ih => simp [unc, ih]
  have := vec_eq_list path (stack.map (fun v => (v, none))) c (hc _ _) (by rw [hu]; exact hghost) hinv
  simpa [List.map_map, Function.comp_def] using this

/-- what a caller can observe of a successful decode: the tree, the cursor position, and the
allocator's `pair_count()`, `atom_count()`, `heap_size()` -/
def observe (r : Tree × Nat × Ctr) : Tree × Nat × Nat × Nat × Nat :=
  (r.1, r.2.1, r.2.2.pairCount, r.2.2.atoms, r.2.2.heap)

/-- **`de_br_new = de_br_old`.** For every byte string and every allocator state that satisfies the
allocator's own pair invariant, the current and the legacy decoder accept the same inputs, return
the same tree, consume the same bytes and leave identical pair counts (ghost parity), atom counts
and heap sizes; they fail with the same error kind (up to `normErr`). -/
theorem de_br_new_eq_old (b : Bytes) (c : Ctr) (hinv : c.pairs + c.ghostPairs ≤ Gen.maxNumPairs) :
    outcome observe (nodeFromBytesBackrefs b c) = outcome observe (nodeFromBytesBackrefsOld b c) := by
  have hrel : Rel [] c Tree.nil c := ⟨rfl, trivial, Nat.zero_le _, hinv, SameTotals.refl c⟩
  have hs := deBr_sim b.length b rfl [.sexp] [] c Tree.nil c hrel
  unfold nodeFromBytesBackrefs nodeFromBytesBackrefsOld
  revert hs
  generalize deBrNew b [.sexp] [] c = X
  generalize deBrOld b [.sexp] Tree.nil c = Y
  intro hs
  cases hs with
  | err he => simp [outcome, he]
  | ok hr =>
    rename_i r r'
    obtain ⟨t, rest, c1⟩ := r
    obtain ⟨t', rest', c1'⟩ := r'
    obtain ⟨h1, h2, h3, h4, h5, _⟩ := hr
    simp only at h1 h2 h3 h4 h5
    subst h1; subst h2
    simp only [outcome, observe, Ctr.pairCount]
    rw [h3, h4, h5]

/-! ### totality -/

/-- **`traverse_path` is total**: no slice index out of range, no `usize` underflow, loop fuel
(`8·len + 1` iterations) sufficient — for every path and tree. -/
theorem traverse_path_total (path : Bytes) (t : Tree) : NoPanic (traversePath path t) :=
  traversePath_noPanic path t

/-- `traverse_path_fast` is total on every `u32`. -/
theorem traverse_path_fast_total (n : Nat) (hn : n < 2 ^ 32) (t : Tree) : NoPanic (traversePathFast n t) :=
  traversePathFast_noPanic n hn t

/-- **Both decoders are total**: for every byte string and every allocator state satisfying the
allocator's pair invariant, neither decoder reaches an `expect`/`panic!`/index/overflow/
`debug_assert` outcome, and the model's recursion fuel is never exhausted. -/
theorem de_br_total (b : Bytes) (c : Ctr) (hinv : c.pairs + c.ghostPairs ≤ Gen.maxNumPairs) :
    NoPanic (nodeFromBytesBackrefs b c) ∧ NoPanic (nodeFromBytesBackrefsOld b c) := by
  have hold : NoPanic (deBrOld b [.sexp] Tree.nil c) :=
    deBrOld_noPanic b.length b rfl [.sexp] [] c (by simp [okOps]) hinv
  have hrel : Rel [] c Tree.nil c := ⟨rfl, trivial, Nat.zero_le _, hinv, SameTotals.refl c⟩
  have hnew : NoPanic (deBrNew b [.sexp] [] c) :=
    (deBr_sim b.length b rfl [.sexp] [] c Tree.nil c hrel).noPanic hold
  unfold nodeFromBytesBackrefs nodeFromBytesBackrefsOld
  constructor
  · revert hnew
    generalize deBrNew b [.sexp] [] c = X
    intro h
    cases X with
    | error e => simp only []; exact h.cast
    | ok r => trivial
  · revert hold
    generalize deBrOld b [.sexp] Tree.nil c = X
    intro h
    cases X with
    | error e => simp only []; exact h.cast
    | ok r => trivial

/-- `serialized_length_from_bytes` is total. -/
theorem len_probe_total (b : Bytes) : NoPanic (serializedLengthFromBytes b) := by
  have h := lenLoop_noPanic b.length b rfl [.sexp] Tree.nil Ctr.default
    (by show (0:Nat) + Gen.initGhostPairs ≤ Gen.maxNumPairs; decide)
  unfold serializedLengthFromBytes
  revert h
  generalize lenLoop b [.sexp] Tree.nil Ctr.default = X
  intro h
  cases X with
  | error e => simp only []; exact h.cast
  | ok r => trivial

/-! ### the length probe -/

/-- **The probe agrees with the decoders.**  On a default allocator and for every input short enough
that no atom-count or heap limit can be reached (`|b| + 2 < MAX_NUM_ATOMS`, `|b| + 1 ≤ u32::MAX`:
limits the probe, which allocates no atoms, cannot see), `serialized_length_from_bytes` succeeds
exactly when the (legacy, hence by `de_br_new_eq_old` also the current) decoder does, fails with the
same error kind, and returns the number of bytes the decoder consumed. -/
theorem len_probe_agrees (b : Bytes)
    (hatoms : b.length + Gen.initGhostAtoms < Gen.maxNumAtoms)
    (hheap : b.length + Gen.initGhostHeap ≤ 2 ^ 32 - 1) :
    outcome (fun r => r.2.1) (nodeFromBytesBackrefsOld b Ctr.default) =
      outcome id (serializedLengthFromBytes b) ∧
    outcome (fun r => r.2.1) (nodeFromBytesBackrefs b Ctr.default) =
      outcome id (serializedLengthFromBytes b) := by
  have hinv : Ctr.default.pairs + Ctr.default.ghostPairs ≤ Gen.maxNumPairs := by decide
  have hprel : PRel b Ctr.default Ctr.default :=
    ⟨hinv, rfl, by show Gen.initGhostAtoms + _ < _; omega, by show Gen.initGhostHeap + _ ≤ 2 ^ 32 - 1; omega⟩
  have hs := probe_sim b.length b rfl [.sexp] [] Ctr.default Ctr.default (by simp [okOps]) hprel
  have hold : outcome (fun r => r.2.1) (nodeFromBytesBackrefsOld b Ctr.default) =
      outcome id (serializedLengthFromBytes b) := by
    unfold nodeFromBytesBackrefsOld serializedLengthFromBytes
    revert hs
    show Sim _ (deBrOld b [.sexp] Tree.nil Ctr.default) (lenLoop b [.sexp] Tree.nil Ctr.default) → _
    generalize deBrOld b [.sexp] Tree.nil Ctr.default = X
    generalize lenLoop b [.sexp] Tree.nil Ctr.default = Y
    intro hs
    cases hs with
    | err he => simp [outcome, he]
    | ok hr =>
      rename_i r q
      obtain ⟨t, rest, c1⟩ := r
      obtain ⟨rest', p1⟩ := q
      simp only at hr
      subst hr
      simp [outcome]
  refine ⟨hold, ?_⟩
  rw [← hold]
  have h := de_br_new_eq_old b Ctr.default hinv
  revert h
  generalize nodeFromBytesBackrefs b Ctr.default = X
  generalize nodeFromBytesBackrefsOld b Ctr.default = Y
  intro h
  cases X <;> cases Y <;> simp_all [outcome, observe]

/-- the side conditions of `len_probe_agrees` are satisfiable (and hold for every input below 62.4 MB) -/
example : (List.replicate 1000 (0xff : UInt8)).length + Gen.initGhostAtoms < Gen.maxNumAtoms := by
  simp only [List.length_replicate]; decide

end Clvm.Props.C18
