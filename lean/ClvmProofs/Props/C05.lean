/-
C05 — fast paths and diagnostic build features are unobservable.

`Cfg.fastpath` selects the default build (`true`) or the `no-fastpath` build (`false`); both
branches of every configurable function are transcribed separately in the model.  The
`counters` / `pre-eval` features only add bookkeeping that the model does not contain; they are
compared build-against-build by the cross-build stream of `./check C05`.
-/
import ClvmProofs.Lemmas.Interp.Fastpath
import ClvmProofs.Lemmas.Interp.MachineAgree
import ClvmProofs.Lemmas.Interp.LiftChia
import ClvmProofs.Lemmas.Interp.CryptoShapes

namespace Clvm.Props.C05
open Clvm Clvm.Interp Clvm.Alloc

/-- **Operators.** Every core operator of the default build equals the one of the `no-fastpath`
build on well-formed argument lists: same result, same cost, same error, same counters
(sha256 table path, u64/i64 add/subtract incl. limb costs and overflow fall-back, multiply, `>`). -/
theorem ops_fastpath_irrelevant {name : String} {f g : OpFn}
    (hf : coreOpByName { fastpath := true } name = some f)
    (hg : coreOpByName { fastpath := false } name = some g)
    (flags m : Nat) (args : Val) (c : Ctr) (hw : args.wf = true) :
    f flags m args c = g flags m args c :=
  coreOps_fastpath hf hg flags m args c hw

/-- **Path lookup.** `traverse_path_fast` on a value below 2^32 equals `traverse_path` on its
canonical encoding: same node, same cost (including the leading-zero charge at 7/15/23/31 bits),
same error. -/
theorem traverse_fast_eq (v : Nat) (hv : v < 2 ^ 32) (env : Val) :
    traversePathFast v env = traversePath (encodeInt (v : Int)) env :=
  Interp.traverse_fast_eq v hv env

/-- the two builds resolve the same operator names -/
theorem coreOp_domain (name : String) :
    (coreOpByName { fastpath := true } name).isSome = (coreOpByName { fastpath := false } name).isSome := by
  unfold coreOpByName
  split <;> rfl

theorem chiaOp_fastpath (extra : String → Option OpFn) (F : Nat) (o args : Val) (m : Nat)
    (ext : OperatorSet) (c : Ctr) (hw : args.wf = true) :
    chiaOp { fastpath := true } extra F o args m ext c = chiaOp { fastpath := false } extra F o args m ext c := by
  have call : ∀ (name : String) (fl : Nat),
      (match coreOpByName { fastpath := true } name with
        | some f => some (f fl m args c)
        | none => match extra name with
          | some f => some (f fl m args c)
          | none => none) =
      (match coreOpByName { fastpath := false } name with
        | some f => some (f fl m args c)
        | none => match extra name with
          | some f => some (f fl m args c)
          | none => none) := by
    intro name fl
    have hd := coreOp_domain name
    cases hf : coreOpByName { fastpath := true } name with
    | none =>
      rw [hf] at hd
      cases hg : coreOpByName { fastpath := false } name with
      | none => rfl
      | some g => rw [hg] at hd; cases hd
    | some f =>
      rw [hf] at hd
      cases hg : coreOpByName { fastpath := false } name with
      | none => rw [hg] at hd; cases hd
      | some g => simp only; rw [coreOps_fastpath hf hg fl m args c hw]
  unfold chiaOp
  cases o with
  | pair _ _ => rfl
  | atom ob oi =>
    simp only
    repeat' (first | rfl | exact call _ _ | split)

theorem dialect_agree (extra : String → Option OpFn) (F : Nat) :
    DialectAgree (chiaDialect { fastpath := true } extra F) (chiaDialect { fastpath := false } extra F) where
  quoteKw := rfl
  applyKw := rfl
  softforkKw := rfl
  softforkExtension := rfl
  gcCandidate := rfl
  allowUnknownOps := rfl
  canonicalInts := rfl
  limitSoftfork := rfl
  newCostModel := rfl
  op := fun o args m ext c _ hw => chiaOp_fastpath extra _ o args m ext c hw

/-- **Whole runs.** For every program and environment (well-formed, as every tree built through
the allocator is), every flag set and every budget, `run_program` of the default build and of the
`no-fastpath` build give the same result, cost, error and allocator counters. (`hd`: the operators
return well-formed values — proved per operator in `Lemmas/Interp/Clean.lean`.) -/
theorem run_fastpath_irrelevant (extra : String → Option OpFn) (F fuel : Nat) (c0 : Ctr) (p env : Val)
    (mc : Nat) (hd : (chiaDialect { fastpath := true } extra F).OpWf)
    (hp : p.wf = true) (he : env.wf = true) :
    runProgram { fastpath := true } (chiaDialect { fastpath := true } extra F) fuel c0 p env mc =
    runProgram { fastpath := false } (chiaDialect { fastpath := false } extra F) fuel c0 p env mc :=
  runProgram_agree (dialect_agree extra F) (fun d s p env hp => evalPair_fastpath d s p env hp) hd
    fuel c0 p env mc hp he

/-- the same with the operator hypothesis discharged for the core table and unknown operators:
only the cryptographic operators' shapes (`OpClean`, `OpWf`) remain assumptions -/
theorem run_fastpath_irrelevant' (extra : String → Option OpFn)
    (hec : ∀ name f, extra name = some f → OpClean f) (hew : ∀ name f, extra name = some f → OpWf f)
    (F fuel : Nat) (c0 : Ctr) (p env : Val) (mc : Nat) (hp : p.wf = true) (he : env.wf = true) :
    runProgram { fastpath := true } (chiaDialect { fastpath := true } extra F) fuel c0 p env mc =
    runProgram { fastpath := false } (chiaDialect { fastpath := false } extra F) fuel c0 p env mc :=
  run_fastpath_irrelevant extra F fuel c0 p env mc
    (chiaDialect_opClean _ extra (coreOps_clean _) (coreOps_wf _) hec hew opUnknown_clean opUnknown_wf F).wf hp he

example : (Val.ofTree (.pair (.atom [16]) (.pair (.atom [2]) (.atom [])))).wf = true := by decide


/-- **The dialect the crate ships** (all operators): the default build and the `no-fastpath` build give
the same result for every run. -/
theorem chia_fastpath_irrelevant (F fuel : Nat) (c0 : Ctr) (p env : Val) (mc : Nat)
    (hp : p.wf = true) (he : env.wf = true) :
    runProgram { fastpath := true } (chiaDialect { fastpath := true } cryptoExtra F) fuel c0 p env mc =
    runProgram { fastpath := false } (chiaDialect { fastpath := false } cryptoExtra F) fuel c0 p env mc :=
  run_fastpath_irrelevant' cryptoExtra cryptoExtra_clean cryptoExtra_wf F fuel c0 p env mc hp he

end Clvm.Props.C05
