/-
C08 — soft-fork safety: nodes unaware of an extension accept what aware nodes accept.

This file: the opcode-level facts (the assigned 4-byte secp operators cost exactly what the
unknown-operator rule gives for their opcodes, and return nil on success like every unknown
operator), and the whole-run simulation `hide_sim` / `hide_sim_crypto` (below; proved in
Lemmas/Interp/{HideSim,HideCrypto}.lean on top of the frame theorem of BigStep.lean and the
program-level guard theorem of GuardBig.lean): whatever the extension-aware dialect computes, the
extension-hiding dialect computes too — same cost, value and allocator counters.
-/
import ClvmModel.Interp.Machine
import ClvmProofs.Lemmas.Interp.HideSim
import ClvmProofs.Lemmas.Interp.HideCrypto

namespace Clvm.Props.C08
open Clvm Clvm.Interp

def secp256k1Opcode : Bytes := [0x13, 0xd6, 0x1f, 0x00]
def secp256r1Opcode : Bytes := [0x1c, 0x3a, 0x8f, 0x00]

/-- the generated 4-byte opcode table is exactly these two opcodes -/
theorem opcodes_extracted :
    Gen.chiaOp4Table = [(Alloc.beNat secp256k1Opcode, "op_secp256k1_verify"),
                        (Alloc.beNat secp256r1Opcode, "op_secp256r1_verify")] := by
  decide

/-- **An unaware node charges the same.** Under the pre-hard-fork cost model, for *any* argument
list, `op_unknown` on the secp256k1 opcode succeeds (given a budget of at least 1) with nil and
exactly the cost the aware node charges for a successful `secp256k1_verify`. -/
theorem secp256k1_cost_eq_unknown (flags maxCost : Nat) (args : Val) (c : Ctr)
    (hold : newModel flags = false) (hb : 1 ≤ maxCost) :
    opUnknown secp256k1Opcode flags maxCost args c = .ok (Gen.SECP256K1_VERIFY_COST, Val.nil, c) := by
  have hm : u32FromU8 [0x13, 0xd6, 0x1f] = some 1299999 := by decide
  unfold opUnknown secp256k1Opcode
  simp [hm, hold, checkCost, Gen.SECP256K1_VERIFY_COST]
  have : maxCost ≠ 0 := by omega
  simp [this]

theorem secp256r1_cost_eq_unknown (flags maxCost : Nat) (args : Val) (c : Ctr)
    (hold : newModel flags = false) (hb : 1 ≤ maxCost) :
    opUnknown secp256r1Opcode flags maxCost args c = .ok (Gen.SECP256R1_VERIFY_COST, Val.nil, c) := by
  have hm : u32FromU8 [0x1c, 0x3a, 0x8f] = some 1849999 := by decide
  unfold opUnknown secp256r1Opcode
  simp [hm, hold, checkCost, Gen.SECP256R1_VERIFY_COST]
  have : maxCost ≠ 0 := by omega
  simp [this]

/-! ### the guard-level simulation (appended; lemmas in `Lemmas/Interp/HideSim.lean`) -/

/-- what the simulation needs to know about the two operators assigned to the 4-byte opcodes (they are
supplied through `extra`, outside the core table): a successful verification charges the generated
constant, returns nil and allocates nothing -/
def SecpSpec (extra : String → Option OpFn) : Prop :=
  (∀ f, extra "op_secp256k1_verify" = some f → ∀ fl m args c r, f fl m args c = .ok r →
    r = (Gen.SECP256K1_VERIFY_COST, Val.nil, c)) ∧
  (∀ f, extra "op_secp256r1_verify" = some f → ∀ fl m args c r, f fl m args c = .ok r →
    r = (Gen.SECP256R1_VERIFY_COST, Val.nil, c))

/-- four bytes are determined by their big-endian value -/
theorem beNat_four_inj (ob : Bytes) (a b c d : UInt8) (hl : ob.length = 4)
    (h : Alloc.beNat ob = Alloc.beNat [a, b, c, d]) : ob = [a, b, c, d] := by
  match ob, hl with
  | [w, x, y, z], _ =>
    simp only [Alloc.beNat, List.foldl_cons, List.foldl_nil] at h
    have hw := w.toNat_lt; have hx := x.toNat_lt; have hy := y.toNat_lt; have hz := z.toNat_lt
    have ha := a.toNat_lt; have hb := b.toNat_lt; have hc := c.toNat_lt; have hd := d.toNat_lt
    have e1 : w.toNat = a.toNat := by omega
    have e2 : x.toNat = b.toNat := by omega
    have e3 : y.toNat = c.toNat := by omega
    have e4 : z.toNat = d.toNat := by omega
    rw [UInt8.toNat_inj.1 e1, UInt8.toNat_inj.1 e2, UInt8.toNat_inj.1 e3, UInt8.toNat_inj.1 e4]

/-- **(ii) the 4-byte opcodes.**  Under the pre-hard-fork cost model and without `NO_UNKNOWN_OPS`, whenever
the aware dialect's operator on a 4-byte opcode succeeds within the budget, the unknown-operator rule
gives the same cost, value and counters: for the two secp opcodes by `secp256k1_cost_eq_unknown` /
`secp256r1_cost_eq_unknown`, for every other 4-byte opcode because the aware dialect itself calls
`unknown_operator`. -/
theorem fourByteAgree_of_secp (cfg : Cfg) (extra : String → Option OpFn) (F : Nat)
    (hN : newModel F = false) (hU : hasFlag F Gen.FLAG_NO_UNKNOWN_OPS = false) (hsecp : SecpSpec extra) :
    FourByteAgree (chiaDialect cfg extra F) := by
  have hfl : (chiaDialect cfg extra F).flags = F := by
    show (if hasFlag F Gen.FLAG_NEW_COST_MODEL && hasFlag F Gen.FLAG_LIMITS then F - Gen.FLAG_LIMITS else F) = F
    have : hasFlag F Gen.FLAG_NEW_COST_MODEL = false := hN
    simp only [this, Bool.false_and, Bool.false_eq_true, if_false]
  intro ob oi args m c oc v c' h4b hop hle
  rw [hfl]
  have hop' : chiaOp cfg extra F (.atom ob oi) args m .Default c = some (.ok (oc, v, c')) := by
    rw [← hfl]; exact hop
  have hlen : (ob.length == 4) = true := by simp [h4b]
  have hun : ∀ K, K ≤ m → 1 ≤ K → opUnknown ob F m args c = .ok (K, Val.nil, c) →
      unknownOperator ob args F m c = .ok (K, Val.nil, c) := by
    intro K _ _ h
    simp only [unknownOperator, hU, Bool.false_eq_true, if_false, h]
  simp only [chiaOp, Nat.or_zero, hlen, if_true, opcodes_extracted, List.find?] at hop'
  by_cases h1 : Alloc.beNat secp256k1Opcode = Alloc.beNat ob
  · have hob : ob = secp256k1Opcode := beNat_four_inj ob _ _ _ _ h4b h1.symm
    have hb : (Alloc.beNat secp256k1Opcode == Alloc.beNat ob) = true := by simp [h1]
    simp only [hb] at hop'
    have hcore : coreOpByName cfg "op_secp256k1_verify" = none := rfl
    simp only [hcore] at hop'
    cases hex : extra "op_secp256k1_verify" with
    | none => rw [hex] at hop'; cases hop'
    | some f =>
      rw [hex] at hop'
      simp only [Option.some.injEq] at hop'
      have := hsecp.1 f hex _ _ _ _ _ hop'
      simp only [Prod.mk.injEq] at this
      obtain ⟨rfl, rfl, rfl⟩ := this
      subst hob
      exact hun _ hle (by decide) (secp256k1_cost_eq_unknown F m args _ hN (by
        have : 1 ≤ Gen.SECP256K1_VERIFY_COST := by decide
        omega))
  · have hb : (Alloc.beNat secp256k1Opcode == Alloc.beNat ob) = false := by simp [h1]
    simp only [hb] at hop'
    by_cases h2 : Alloc.beNat secp256r1Opcode = Alloc.beNat ob
    · have hob : ob = secp256r1Opcode := beNat_four_inj ob _ _ _ _ h4b h2.symm
      have hb2 : (Alloc.beNat secp256r1Opcode == Alloc.beNat ob) = true := by simp [h2]
      simp only [hb2] at hop'
      have hcore : coreOpByName cfg "op_secp256r1_verify" = none := rfl
      simp only [hcore] at hop'
      cases hex : extra "op_secp256r1_verify" with
      | none => rw [hex] at hop'; cases hop'
      | some f =>
        rw [hex] at hop'
        simp only [Option.some.injEq] at hop'
        have := hsecp.2 f hex _ _ _ _ _ hop'
        simp only [Prod.mk.injEq] at this
        obtain ⟨rfl, rfl, rfl⟩ := this
        subst hob
        exact hun _ hle (by decide) (secp256r1_cost_eq_unknown F m args _ hN (by
          have : 1 ≤ Gen.SECP256R1_VERIFY_COST := by decide
          omega))
    · have hb2 : (Alloc.beNat secp256r1Opcode == Alloc.beNat ob) = false := by simp [h2]
      simp only [hb2, Option.some.injEq] at hop'
      exact hop'

/-- **`hide_sim` — soft-fork safety.**  For every build configuration, every flag set `F` without
`NEW_COST_MODEL` and without `NO_UNKNOWN_OPS`, every well-formed program and environment, every budget and
initial allocator state: if the aware node (`ChiaDialect::new(F)`) accepts — `run_program` succeeds with
cost `C`, value `v` and allocator counters `ctr` — then the node that knows no softfork extension and none
of the 4-byte opcodes (`hideDialect`, the harness' `HideDialect`) accepts too, with the same cost, value
and counters (given enough fuel for the model's loop).
Hypotheses on the operators outside the core table (`extra`, e.g. `cryptoExtra`): they return well-formed
values and keep the heap limit (`OpWf`), and the two secp verifiers satisfy `SecpSpec`. -/
theorem hide_sim (cfg : Cfg) (extra : String → Option OpFn) (F : Nat)
    (hN : newModel F = false) (hU : hasFlag F Gen.FLAG_NO_UNKNOWN_OPS = false)
    (hew : ∀ name f, extra name = some f → OpWf f) (hsecp : SecpSpec extra)
    (fuel : Nat) (c0 : Ctr) (p env : Val) (mc0 : Nat) (hp : p.wf = true) (he : env.wf = true)
    (C : Nat) (v : Val) (ctr : Ctr)
    (h : runProgram cfg (chiaDialect cfg extra F) fuel c0 p env mc0 = some (.ok (C, v, ctr))) :
    ∃ fuel', runProgram cfg (hideDialect cfg extra F) fuel' c0 p env mc0 = some (.ok (C, v, ctr)) :=
  hide_run cfg extra F hN hU (fourByteAgree_of_secp cfg extra F hN hU hsecp) hew fuel c0 p env mc0 hp he C v ctr h

/-- (i) in isolation: the unaware node's single step on a softfork whose extension the aware node knows
is what the aware node's completed guard amounts to — see `C31.guard_program_complete`; here: the unaware
dialect never recognises an extension. -/
theorem hide_knows_no_extension (cfg : Cfg) (extra : String → Option OpFn) (F : Nat) (ol : Val) :
    ∃ err, parseSoftforkArguments (hideDialect cfg extra F) ol = .error err :=
  hide_parse cfg extra F ol

/-- the model's operator table satisfies the hypotheses of `hide_sim` -/
theorem cryptoExtra_secpSpec : SecpSpec cryptoExtra :=
  ⟨fun f h fl m args c r hr => cryptoExtra_secp_k1 f h fl m args c r hr,
   fun f h fl m args c r hr => cryptoExtra_secp_r1 f h fl m args c r hr⟩

/-- **`hide_sim` for the model's full operator table** (`cryptoExtra`: BLS, keccak, secp, coinid,
sha256tree, …), no hypothesis left on the operators -/
theorem hide_sim_crypto (cfg : Cfg) (F : Nat)
    (hN : newModel F = false) (hU : hasFlag F Gen.FLAG_NO_UNKNOWN_OPS = false)
    (fuel : Nat) (c0 : Ctr) (p env : Val) (mc0 : Nat) (hp : p.wf = true) (he : env.wf = true)
    (C : Nat) (v : Val) (ctr : Ctr)
    (h : runProgram cfg (chiaDialect cfg cryptoExtra F) fuel c0 p env mc0 = some (.ok (C, v, ctr))) :
    ∃ fuel', runProgram cfg (hideDialect cfg cryptoExtra F) fuel' c0 p env mc0 = some (.ok (C, v, ctr)) :=
  hide_sim cfg cryptoExtra F hN hU cryptoExtra_wf cryptoExtra_secpSpec fuel c0 p env mc0 hp he C v ctr h

end Clvm.Props.C08
