/-
C08 — soft-fork safety: nodes unaware of an extension accept what aware nodes accept.

This file: the opcode-level facts (the assigned 4-byte secp operators cost exactly what the
unknown-operator rule gives for their opcodes, and return nil on success like every unknown
operator).  The guard-level simulation is in preparation (see DESIGN §5 C08).
-/
import ClvmModel.Interp.Machine

namespace Clvm.Props.C08
open Clvm Clvm.Interp

def secp256k1Opcode : Bytes := [0x13, 0xd6, 0x1f, 0x00]
def secp256r1Opcode : Bytes := [0x1c, 0x3a, 0x8f, 0x00]

/-- the generated 4-byte opcode table is exactly these two opcodes -/
theorem opcodes_extracted :
    Gen.chiaOp4Table = [(Alloc.beNat secp256k1Opcode, "op_secp256k1_verify"),
                        (Alloc.beNat secp256r1Opcode, "op_secp256r1_verify")] := by
  decide

/-- **An unaware node charges the same.** Under the pre-hard-fork cost model, for *any* argument
list, `op_unknown` on the secp256k1 opcode succeeds (given a budget of at least 1) with nil and
exactly the cost the aware node charges for a successful `secp256k1_verify`. -/
theorem secp256k1_cost_eq_unknown (flags maxCost : Nat) (args : Val) (c : Ctr)
    (hold : newModel flags = false) (hb : 1 ≤ maxCost) :
    opUnknown secp256k1Opcode flags maxCost args c = .ok (Gen.SECP256K1_VERIFY_COST, Val.nil, c) := by
  have hm : u32FromU8 [0x13, 0xd6, 0x1f] = some 1299999 := by decide
  unfold opUnknown secp256k1Opcode
  simp [hm, hold, checkCost, Gen.SECP256K1_VERIFY_COST]
  have : maxCost ≠ 0 := by omega
  simp [this]

theorem secp256r1_cost_eq_unknown (flags maxCost : Nat) (args : Val) (c : Ctr)
    (hold : newModel flags = false) (hb : 1 ≤ maxCost) :
    opUnknown secp256r1Opcode flags maxCost args c = .ok (Gen.SECP256R1_VERIFY_COST, Val.nil, c) := by
  have hm : u32FromU8 [0x1c, 0x3a, 0x8f] = some 1849999 := by decide
  unfold opUnknown secp256r1Opcode
  simp [hm, hold, checkCost, Gen.SECP256R1_VERIFY_COST]
  have : maxCost ≠ 0 := by omega
  simp [this]

end Clvm.Props.C08
