/-
C07 — restriction flags only remove successes.

Operator level (this file): for every core operator, every build, every argument list and budget:
adding any set of restriction flags (NO_UNKNOWN_OPS, CANONICAL_INTS, DISABLE_OP, LIMIT_SOFTFORK,
LIMITS, LIMIT_HEAP — hence all of MEMPOOL_MODE) to a flag set can only turn a success into a
failure, never change a successful result, its cost or the counters; adding RELAXED_BLS changes no
outcome.  The same through `ChiaDialect::op` (dispatch, enabling flags, DISABLE_OP, unknown
operators, given the same shape for the cryptographic operators).

Whole programs: the statement is **false** of the current code for `CANONICAL_INTS` in lenient mode
(known finding K, `whole_program_statement_false` below): a softfork guard whose extension argument
is a non-canonical integer is an *unknown* guard under `CANONICAL_INTS` (nil, declared cost) but is
entered without it.  The `interp_restrict` oracle reproduces this on the implementation and checks
everything outside that region.
-/
import ClvmProofs.Lemmas.Interp.Flags
import ClvmProofs.Lemmas.Interp.FlagsDispatch
import ClvmProofs.Lemmas.Interp.FlagsWitness
import ClvmProofs.Lemmas.Interp.LiftRestrict
import ClvmProofs.Lemmas.Interp.LiftCrypto

namespace Clvm.Props.C07
open Clvm Clvm.Interp

/-- the mempool-mode flag set consists of restriction flags only -/
theorem mempool_mode_is_restriction : Gen.MEMPOOL_MODE &&& restrictionBits = Gen.MEMPOOL_MODE := by decide

theorem op_restrict {cfg : Cfg} {name : String} {f : OpFn} (hf : coreOpByName cfg name = some f)
    (F R m : Nat) (args : Val) (c : Ctr) (r : Nat × Val × Ctr)
    (hR : R &&& restrictionBits = R) (h : f (F ||| R) m args c = .ok r) : f F m args c = .ok r :=
  coreOps_restrict hf F R m args c r hR h

/-- anything an operator accepts in mempool mode it accepts, with the same result and cost, under
the consensus flags -/
theorem op_mempool_implies_consensus {cfg : Cfg} {name : String} {f : OpFn}
    (hf : coreOpByName cfg name = some f) (F m : Nat) (args : Val) (c : Ctr) (r : Nat × Val × Ctr)
    (h : f (F ||| Gen.MEMPOOL_MODE) m args c = .ok r) : f F m args c = .ok r :=
  coreOps_restrict hf F Gen.MEMPOOL_MODE m args c r mempool_mode_is_restriction h

theorem op_relaxed_bls {cfg : Cfg} {name : String} {f : OpFn} (hf : coreOpByName cfg name = some f)
    (F : Nat) : f (F ||| Gen.FLAG_RELAXED_BLS) = f F :=
  coreOps_relaxed_eq hf F

/-- unknown operators: the dialect's `unknown_operator` wrapper (which reads NO_UNKNOWN_OPS) -/
theorem unknown_restrict (op : Bytes) (args : Val) (F R m : Nat) (c : Ctr) (r : Nat × Val × Ctr)
    (hR : R &&& restrictionBits = R) (h : unknownOperator op args (F ||| R) m c = .ok r) :
    unknownOperator op args F m c = .ok r :=
  unknownOperator_restrict op args F R m c r hR h

/-- restriction through `ChiaDialect::op` -/
theorem dialect_op_restrict (cfg : Cfg) (extra : String → Option OpFn)
    (hextra : ∀ name f, extra name = some f → OpRestrict f)
    (F R : Nat) (hR : R &&& restrictionBits = R) (o args : Val) (m : Nat) (ext : OperatorSet) (c : Ctr)
    (r : Nat × Val × Ctr) (h : chiaOp cfg extra (F ||| R) o args m ext c = some (.ok r)) :
    chiaOp cfg extra F o args m ext c = some (.ok r) :=
  chiaOp_restrict cfg extra hextra F R hR o args m ext c r h

/-- the whole-program form of the property, for every program, flag set and restriction set -/
def WholeProgramStatement : Prop := EvalRestrictStatement

/-- **Known finding K.** `(softfork (q . 10000) (q . 0x0000) (q . (x)) (q . ()))` fails with
`Raise` under flags 0 and succeeds with nil and cost 10081 under `CANONICAL_INTS` alone (kernel
evaluation of the machine model; replayed on the crate by the `interp_restrict` oracle). -/
theorem whole_program_witness :
    isRaise (runProgram {} (chiaDialect {} (fun _ => none) 0) 100 (Ctr.new (2 ^ 32)) c07Prog Val.nil 100000) = true ∧
    isOkNil 10081 (runProgram {} (chiaDialect {} (fun _ => none) (0 ||| Gen.FLAG_CANONICAL_INTS)) 100
      (Ctr.new (2 ^ 32)) c07Prog Val.nil 100000) = true :=
  c07_canonicalInts_witness

theorem whole_program_statement_false : ¬ WholeProgramStatement := evalRestrict_witness

/-- **Whole programs (partial).** For every program, environment, budget, fuel and allocator
state: if the run succeeds under `F ∪ R` (`R` any set of restriction flags) then it succeeds
identically (result, cost, counters) under `F` — provided `R` does not add CANONICAL_INTS, or
NO_UNKNOWN_OPS is in force.  The excluded region is exactly known finding K
(`whole_program_statement_false`). -/
theorem whole_program_restrict_partial (cfg : Cfg) (extra : String → Option OpFn)
    (hextra : ∀ name f, extra name = some f → OpRestrict f) (F R : Nat) (hR : R &&& restrictionBits = R)
    (hK : hasFlag R Gen.FLAG_CANONICAL_INTS = false ∨ hasFlag (F ||| R) Gen.FLAG_NO_UNKNOWN_OPS = true)
    (fuel : Nat) (c0 : Ctr) (prog env : Val) (m : Nat) (r : Nat × Val × Ctr)
    (h : runProgram cfg (chiaDialect cfg extra (F ||| R)) fuel c0 prog env m = some (.ok r)) :
    runProgram cfg (chiaDialect cfg extra F) fuel c0 prog env m = some (.ok r) :=
  eval_restrict_partial cfg extra hextra F R hR hK fuel c0 prog env m r h

/-- **Anything accepted in mempool mode is accepted, with the same cost, under consensus flags**
(full strength: MEMPOOL_MODE contains NO_UNKNOWN_OPS). -/
theorem whole_program_mempool_implies_consensus (cfg : Cfg) (extra : String → Option OpFn)
    (hextra : ∀ name f, extra name = some f → OpRestrict f) (F : Nat)
    (fuel : Nat) (c0 : Ctr) (prog env : Val) (m : Nat) (r : Nat × Val × Ctr)
    (h : runProgram cfg (chiaDialect cfg extra (F ||| Gen.MEMPOOL_MODE)) fuel c0 prog env m = some (.ok r)) :
    runProgram cfg (chiaDialect cfg extra F) fuel c0 prog env m = some (.ok r) :=
  mempool_implies_consensus cfg extra hextra F fuel c0 prog env m r h

/-- **RELAXED_BLS never turns a success into a failure or changes it** (whole programs). -/
theorem whole_program_relaxed_bls (cfg : Cfg) (extra : String → Option OpFn)
    (hextra : ∀ name f, extra name = some f → OpRelax f) (F : Nat)
    (fuel : Nat) (c0 : Ctr) (prog env : Val) (m : Nat) (r : Nat × Val × Ctr)
    (h : runProgram cfg (chiaDialect cfg extra F) fuel c0 prog env m = some (.ok r)) :
    runProgram cfg (chiaDialect cfg extra (F ||| Gen.FLAG_RELAXED_BLS)) fuel c0 prog env m = some (.ok r) :=
  eval_relaxed cfg extra hextra F fuel c0 prog env m r h


/-! ### The dialect the crate ships (all operators, no hypothesis on operators left) -/

theorem chia_restrict_partial (cfg : Cfg) (F R : Nat) (hR : R &&& restrictionBits = R)
    (hK : hasFlag R Gen.FLAG_CANONICAL_INTS = false ∨ hasFlag (F ||| R) Gen.FLAG_NO_UNKNOWN_OPS = true)
    (fuel : Nat) (c0 : Ctr) (prog env : Val) (m : Nat) (r : Nat × Val × Ctr)
    (h : runProgram cfg (chiaDialect cfg cryptoExtra (F ||| R)) fuel c0 prog env m = some (.ok r)) :
    runProgram cfg (chiaDialect cfg cryptoExtra F) fuel c0 prog env m = some (.ok r) :=
  crypto_eval_restrict_partial cfg F R hR hK fuel c0 prog env m r h

/-- whatever succeeds in mempool mode succeeds identically (result, cost, counters) in consensus mode -/
theorem chia_mempool_implies_consensus (cfg : Cfg) (F : Nat)
    (fuel : Nat) (c0 : Ctr) (prog env : Val) (m : Nat) (r : Nat × Val × Ctr)
    (h : runProgram cfg (chiaDialect cfg cryptoExtra (F ||| Gen.MEMPOOL_MODE)) fuel c0 prog env m = some (.ok r)) :
    runProgram cfg (chiaDialect cfg cryptoExtra F) fuel c0 prog env m = some (.ok r) :=
  crypto_mempool_implies_consensus cfg F fuel c0 prog env m r h

/-- RELAXED_BLS only adds successes -/
theorem chia_relaxed_bls (cfg : Cfg) (F : Nat)
    (fuel : Nat) (c0 : Ctr) (prog env : Val) (m : Nat) (r : Nat × Val × Ctr)
    (h : runProgram cfg (chiaDialect cfg cryptoExtra F) fuel c0 prog env m = some (.ok r)) :
    runProgram cfg (chiaDialect cfg cryptoExtra (F ||| Gen.FLAG_RELAXED_BLS)) fuel c0 prog env m = some (.ok r) :=
  crypto_eval_relaxed cfg F fuel c0 prog env m r h

end Clvm.Props.C07
