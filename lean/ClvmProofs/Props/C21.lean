/-
C21 — serde_2026 varints are a bijection with strict minimality.

Property theorems only; helper lemmas are in `Lemmas/Varint.lean`.  The model is
`ClvmModel/Varint.lean`, a transcription of `src/serde_2026/varint.rs`.
-/
import ClvmProofs.Lemmas.Varint

namespace Clvm.Props.C21
open Clvm Clvm.Varint

/-- the 56-bit signed range `[-2^55, 2^55)` -/
def InRange (v : Int) : Prop := -(2:Int) ^ 55 ≤ v ∧ v < (2:Int) ^ 55

theorem inRange_iff_fits7 (v : Int) : InRange v ↔ fits 7 v = true := by
  rw [fits_iff]; unfold InRange totalBits; constructor <;> intro h <;> omega

/-- `write_varint` panics exactly outside the 56-bit range. -/
theorem write_total_iff (v : Int) : (∃ b, writeVarint v = some b) ↔ InRange v := by
  rw [inRange_iff_fits7]
  unfold writeVarint
  constructor
  · rintro ⟨b, hb⟩
    cases hk : firstFit v with
    | none => rw [hk] at hb; cases hb
    | some k =>
      obtain ⟨k7, hf, _⟩ := firstFit_spec v k hk
      rw [fits_iff] at hf ⊢
      have : (2:Int) ^ (totalBits k - 1) ≤ (2:Int) ^ (totalBits 7 - 1) :=
        int_pow_mono _ _ (by unfold totalBits; omega)
      omega
  · intro h
    obtain ⟨k, hk⟩ := firstFitFrom_complete v 0 8 7 (by omega) (by omega) h
    unfold firstFit; rw [hk]; exact ⟨_, rfl⟩

/-- decoding (strict or lenient) what any admissible prefix length writes gives the value back,
and leaves exactly the trailing bytes. -/
theorem read_encodeWith (strict : Bool) (k : Nat) (v : Int) (rest : Bytes) (hk : k ≤ 7)
    (hf : fits k v = true) (hmin : strict = true → ∀ j, j < k → fits j v = false) :
    readVarint strict (encodeWith k v ++ rest) = .ok (v, rest) := by
  unfold readVarint encodeWith
  rw [readRaw_encodeRaw k _ rest hk (toUnsigned_lt k v hf)]
  simp only [from_toUnsigned k v hf]
  cases strict with
  | false => simp
  | true =>
    have := firstFit_of_min v k hk hf (hmin rfl)
    simp [varintSize, this]

/-- **Round trip.** Every integer in the 56-bit signed range encodes, and decodes back to
itself in strict and in lenient mode, consuming exactly the encoding. -/
theorem read_write (v : Int) (h : InRange v) (rest : Bytes) (strict : Bool) :
    ∃ b, writeVarint v = some b ∧ readVarint strict (b ++ rest) = .ok (v, rest) := by
  obtain ⟨b, hb⟩ := (write_total_iff v).2 h
  refine ⟨b, hb, ?_⟩
  unfold writeVarint at hb
  cases hk : firstFit v with
  | none => rw [hk] at hb; cases hb
  | some k =>
    rw [hk] at hb; cases hb
    obtain ⟨k7, hf, hmin⟩ := firstFit_spec v k hk
    exact read_encodeWith strict k v rest k7 hf (fun _ => hmin)

/-- **Consumes the declared length.** A successful read consumes `leading_ones + 1` bytes,
where `leading_ones` is read off the first byte alone. -/
theorem consumes_declared (strict : Bool) (inp : Bytes) (v : Int) (rest : Bytes)
    (h : readVarint strict inp = .ok (v, rest)) :
    ∃ first tl, inp = first :: tl ∧
      ∃ pre, inp = pre ++ rest ∧ pre.length = leadingOnes first.toNat + 1 := by
  unfold readVarint at h
  cases hr : readRaw inp with
  | error e => rw [hr] at h; cases h
  | ok r =>
    obtain ⟨k, u, rest'⟩ := r
    rw [hr] at h
    simp only at h
    split at h
    · cases h
    · simp only [Except.ok.injEq, Prod.mk.injEq] at h
      obtain ⟨_, rfl⟩ := h
      cases inp with
      | nil => simp [readRaw] at hr
      | cons first tl =>
        refine ⟨first, tl, rfl, ?_⟩
        simp only [readRaw] at hr
        split at hr
        · cases hr
        · split at hr
          · cases hr
          · simp only [Except.ok.injEq, Prod.mk.injEq] at hr
            obtain ⟨rfl, _, rfl⟩ := hr
            refine ⟨first :: tl.take (leadingOnes first.toNat), by simp [List.take_append_drop], ?_⟩
            simp [List.length_take]; omega

/-- **Shortest.** The encoder's output is no longer than any byte string that decodes
(even leniently) to the same value. -/
theorem write_shortest (v : Int) (b : Bytes) (hb : writeVarint v = some b)
    (strict : Bool) (inp rest : Bytes) (h : readVarint strict inp = .ok (v, rest)) :
    b.length + rest.length ≤ inp.length := by
  unfold writeVarint at hb
  cases hk : firstFit v with
  | none => rw [hk] at hb; cases hb
  | some k0 =>
    rw [hk] at hb; cases hb
    obtain ⟨_, _, hmin⟩ := firstFit_spec v k0 hk
    unfold readVarint at h
    cases hr : readRaw inp with
    | error e => rw [hr] at h; cases h
    | ok r =>
      obtain ⟨k, u, rest'⟩ := r
      rw [hr] at h
      simp only at h
      split at h
      · cases h
      · simp only [Except.ok.injEq, Prod.mk.injEq] at h
        obtain ⟨rfl, rfl⟩ := h
        obtain ⟨k7, hu, hinp⟩ := readRaw_inv inp k u rest' hr
        obtain ⟨hf, _⟩ := to_fromUnsigned k u hu
        have hle : k0 ≤ k := by
          by_cases hlt : k < k0
          · have := hmin k hlt; rw [this] at hf; cases hf
          · omega
        rw [hinp]
        simp [encodeWith, encodeRaw, tailBytes_length]; omega

/-- **Strict decoding accepts exactly the shortest encodings**: `inp` decodes strictly to
`v` with remainder `rest` iff `inp` is the encoder's output for `v` followed by `rest`. -/
theorem strict_iff_shortest (inp : Bytes) (v : Int) (rest : Bytes) :
    readVarint true inp = .ok (v, rest) ↔ ∃ b, writeVarint v = some b ∧ inp = b ++ rest := by
  constructor
  · intro h
    unfold readVarint at h
    cases hr : readRaw inp with
    | error e => rw [hr] at h; cases h
    | ok r =>
      obtain ⟨k, u, rest'⟩ := r
      rw [hr] at h
      simp only at h
      split at h
      · cases h
      · rename_i hs
        simp only [Except.ok.injEq, Prod.mk.injEq] at h
        obtain ⟨rfl, rfl⟩ := h
        obtain ⟨k7, hu, hinp⟩ := readRaw_inv inp k u rest' hr
        obtain ⟨hf, hto⟩ := to_fromUnsigned k u hu
        have hsz : firstFit (fromUnsigned k u) = some k := by
          simp only [Bool.true_and, bne_iff_ne, ne_eq, Decidable.not_not, varintSize] at hs
          cases hff : firstFit (fromUnsigned k u) with
          | none => rw [hff] at hs; cases hs
          | some k' => rw [hff] at hs; simp at hs; rw [hs]
        refine ⟨encodeWith k (fromUnsigned k u), by simp [writeVarint, hsz], ?_⟩
        rw [hinp, encodeWith, hto]
  · rintro ⟨b, hb, rfl⟩
    have hr := (write_total_iff v).1 ⟨b, hb⟩
    obtain ⟨b', hb', h⟩ := read_write v hr rest true
    rw [hb] at hb'; cases hb'; exact h

/-- **Lenient decoding returns the value the bytes denote**: `inp` decodes leniently to `v`
iff `inp` starts with the two's-complement encoding of `v` on *some* admissible prefix length
(the shortest one or a longer, sign-extended one). -/
theorem lenient_denotes (inp : Bytes) (v : Int) (rest : Bytes) :
    readVarint false inp = .ok (v, rest) ↔
      ∃ k, k ≤ 7 ∧ fits k v = true ∧ inp = encodeWith k v ++ rest := by
  constructor
  · intro h
    unfold readVarint at h
    cases hr : readRaw inp with
    | error e => rw [hr] at h; cases h
    | ok r =>
      obtain ⟨k, u, rest'⟩ := r
      rw [hr] at h
      simp only [Bool.false_and, Bool.false_eq_true, if_false, Except.ok.injEq, Prod.mk.injEq] at h
      obtain ⟨rfl, rfl⟩ := h
      obtain ⟨k7, hu, hinp⟩ := readRaw_inv inp k u rest' hr
      obtain ⟨hf, hto⟩ := to_fromUnsigned k u hu
      exact ⟨k, k7, hf, by rw [hinp, encodeWith, hto]⟩
  · rintro ⟨k, k7, hf, rfl⟩
    exact read_encodeWith false k v rest k7 hf (fun h => by cases h)

/-- **At most one value**: strict acceptance implies lenient acceptance with the same
value and remainder (decoding is a function; the two modes never disagree on a value). -/
theorem strict_implies_lenient (inp : Bytes) (v : Int) (rest : Bytes)
    (h : readVarint true inp = .ok (v, rest)) : readVarint false inp = .ok (v, rest) := by
  unfold readVarint at h ⊢
  cases hr : readRaw inp with
  | error e => rw [hr] at h; cases h
  | ok r =>
    obtain ⟨k, u, rest'⟩ := r
    rw [hr] at h
    simp only at h ⊢
    split at h
    · cases h
    · simpa using h

/-- Distinct in-range values have distinct encodings, and no encoding is a proper prefix of
another (the code is prefix-free), both read off `read_write`. -/
theorem write_injective_prefix_free (v w : Int) (bv bw t : Bytes)
    (hv : writeVarint v = some bv) (hw : writeVarint w = some bw) (h : bv ++ t = bw ++ []) :
    v = w ∧ t = [] := by
  have rv := (write_total_iff v).1 ⟨bv, hv⟩
  have rw' := (write_total_iff w).1 ⟨bw, hw⟩
  obtain ⟨b1, h1, e1⟩ := read_write v rv t true
  obtain ⟨b2, h2, e2⟩ := read_write w rw' [] true
  rw [hv] at h1; cases h1
  rw [hw] at h2; cases h2
  rw [h] at e1; rw [e1] at e2
  simp only [Except.ok.injEq, Prod.mk.injEq] at e2
  exact e2

/-! ### non-vacuity: concrete instances of the hypotheses -/

example : InRange (-65) ∧ writeVarint (-65) = some [0xbf, 0xbf] := by
  refine ⟨by unfold InRange; omega, by decide⟩
example : readVarint false [0xc0, 0x00, 0x01, 0x99] = .ok (1, [0x99]) := by rfl
example : readVarint true [0xc0, 0x00, 0x01, 0x99] = .error .SerializationError := by rfl
example : writeVarint ((2:Int)^55) = none := by decide

end Clvm.Props.C21
