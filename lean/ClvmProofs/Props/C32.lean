/-
C32 — the cryptographic operators agree with independent implementations.

What is *proved* here is the operator-level logic of `ClvmModel/Crypto/Ops.lean` (a transcription
of src/more_ops.rs, bls_ops.rs, secp_ops.rs, keccak256_ops.rs, op_utils.rs, allocator.rs g1/g2):
scalar reduction, the coinid acceptance rule, negation by bit flip, strict ⊆ relaxed, cost
formulas, and the relation between the implementation's pairing verdict and the mathematical
one (finding J).  The field / curve / pairing / hash-to-curve arithmetic
(`ClvmModel/Crypto/{Field,Curve,Secp,Bls,Pairing,HashToCurve}.lean`) and the hash functions are
the *independent implementation* the real crates are compared with by the `crypto` streams; no
group-law theorems are claimed.
-/
import ClvmProofs.Lemmas.Crypto

namespace Clvm.Props.C32
open Clvm Clvm.Crypto Clvm.Crypto.Ops Clvm.Crypto.Bls

/-! ### scalars -/
/-- `mod_group_order n` lies in `[0, r)` and is congruent to `n` modulo `r`. -/
theorem modGroupOrder_spec (n : Int) :
    0 ≤ modGroupOrder n ∧ modGroupOrder n < Gen.Crypto.groupOrder ∧
    (Gen.Crypto.groupOrder : Int) ∣ (n - modGroupOrder n) := by
  have hpos := groupOrder_pos
  unfold modGroupOrder
  simp only
  rw [Int.fmod_eq_emod_of_nonneg _ (Int.le_of_lt hpos)]
  have h1 := Int.emod_nonneg n (Int.ne_of_gt hpos)
  have h2 := Int.emod_lt_of_pos n hpos
  have h3 : ¬ (n % (Gen.Crypto.groupOrder : Int) < 0) := by omega
  rw [if_neg h3]
  refine ⟨h1, h2, ?_⟩
  exact ⟨n / Gen.Crypto.groupOrder, by have := Int.emod_add_mul_ediv n Gen.Crypto.groupOrder; omega⟩

/-- the generated group order is the BLS12-381 subgroup order of the independent implementation -/
theorem groupOrder_eq : Gen.Crypto.groupOrder = Bls.r := by decide

theorem flipSignBit_involutive (b : Bytes) : flipSignBit (flipSignBit b) = b := by
  cases b with
  | nil => rfl
  | cons x tl =>
    simp only [flipSignBit]
    congr 1
    rw [UInt8.xor_assoc]; simp


/-! ### strict vs RELAXED_BLS -/

/-- strict ⊆ relaxed: whatever `g1_negate` returns in strict mode it returns, identically, when
RELAXED_BLS is set (relaxed mode only skips the point validation). -/
theorem g1_negate_relaxed_superset (fs fr maxCost : Nat) (args : Tree) (r : OpRes)
    (hr : hasFlag fr Gen.Crypto.flagRelaxedBls = true)
    (h : opBlsG1Negate fs maxCost args = .ok r) : opBlsG1Negate fr maxCost args = .ok r := by
  unfold opBlsG1Negate at h ⊢
  simp only [hr, Bool.not_true] at ⊢
  cases hfs : hasFlag fs Gen.Crypto.flagRelaxedBls
  · simp only [hfs, Bool.not_false] at h
    cases hg : getArgs 1 args "g1_negate" with
    | error e => simp [hg, bind, Except.bind] at h
    | ok l =>
      simp only [hg, bind, Except.bind] at h ⊢
      match l, h with
      | [point], h =>
        simp only at h ⊢
        cases ha : atomOf point "G1 atom" with
        | error e => simp [ha] at h
        | ok blob =>
          simp only [ha] at h ⊢
          by_cases hl : blob.length = 48
          · simp only [hl, ne_eq, not_true_eq_false, if_false, if_true, pure, Except.pure] at h ⊢
            cases hv : validateG1 blob with
            | error e => simp [hv] at h
            | ok u => simpa [hv] using h
          · simp [hl, throw, throwThe, MonadExceptOf.throw] at h
      | [], h => simp [throw, throwThe, MonadExceptOf.throw] at h
      | _ :: _ :: _, h => simp [throw, throwThe, MonadExceptOf.throw] at h
  · simp only [hfs, Bool.not_true] at h
    exact h

/-- strict ⊆ relaxed: whatever `g2_negate` returns in strict mode it returns, identically, when
RELAXED_BLS is set (relaxed mode only skips the point validation). -/
theorem g2_negate_relaxed_superset (fs fr maxCost : Nat) (args : Tree) (r : OpRes)
    (hr : hasFlag fr Gen.Crypto.flagRelaxedBls = true)
    (h : opBlsG2Negate fs maxCost args = .ok r) : opBlsG2Negate fr maxCost args = .ok r := by
  unfold opBlsG2Negate at h ⊢
  simp only [hr, Bool.not_true] at ⊢
  cases hfs : hasFlag fs Gen.Crypto.flagRelaxedBls
  · simp only [hfs, Bool.not_false] at h
    cases hg : getArgs 1 args "g2_negate" with
    | error e => simp [hg, bind, Except.bind] at h
    | ok l =>
      simp only [hg, bind, Except.bind] at h ⊢
      match l, h with
      | [point], h =>
        simp only at h ⊢
        cases ha : atomOf point "G2 atom" with
        | error e => simp [ha] at h
        | ok blob =>
          simp only [ha] at h ⊢
          by_cases hl : blob.length = 96
          · simp only [hl, ne_eq, not_true_eq_false, if_false, if_true, pure, Except.pure] at h ⊢
            cases hv : validateG2 blob with
            | error e => simp [hv] at h
            | ok u => simpa [hv] using h
          · simp [hl, throw, throwThe, MonadExceptOf.throw] at h
      | [], h => simp [throw, throwThe, MonadExceptOf.throw] at h
      | _ :: _ :: _, h => simp [throw, throwThe, MonadExceptOf.throw] at h
  · simp only [hfs, Bool.not_true] at h
    exact h

/-! ### pairing: implementation verdict vs mathematical statement (finding J) -/

/-- the defect region of finding J: some pair is (P finite, Q = ∞), or the list is non-empty and
consists of (∞,∞) pairs only -/
def PairingDefectRegion (items : List (G1 × G2)) : Bool :=
  items.any (fun it => it.2.isNone && it.1.isSome) ||
  (!items.isEmpty && items.all (fun it => it.1.isNone && it.2.isNone))

/-- full statement (false of the current code, see `pairing_spec_witness`): the verdict of
`chia_bls::aggregate_pairing` as the operator uses it is the mathematical one, ∏ e(Pᵢ,Qᵢ) = 1 -/
def PairingStatement : Prop := ∀ items : List (G1 × G2), aggregatePairing items = pairingProductIsOne items

/-- outside the defect region the implementation's verdict is the mathematical one -/
theorem pairing_spec_partial (items : List (G1 × G2)) (h : PairingDefectRegion items = false) :
    aggregatePairing items = pairingProductIsOne items := by
  unfold PairingDefectRegion at h
  rw [Bool.or_eq_false_iff] at h
  obtain ⟨hQ, hAll⟩ := h
  cases items with
  | nil =>
    have : pairingProductIsOne [] = true := by
      unfold pairingProductIsOne; simp only [List.foldl]; exact finalExpIsOne_one
    rw [this]; rfl
  | cons x xs =>
    have hAll' : (x :: xs).all (fun it => it.1.isNone && it.2.isNone) = false := by
      simpa using hAll
    unfold aggregatePairing
    have hne : (x :: xs).isEmpty = false := rfl
    simp only [hne, Bool.false_eq_true, if_false]
    -- something is kept
    have hkept : ((x :: xs).filter (fun it => !(it.1.isNone && it.2.isNone))).isEmpty = false := by
      rw [List.all_eq_false] at hAll'
      obtain ⟨y, hy, hyb⟩ := hAll'
      cases hf : (x :: xs).filter (fun it => !(it.1.isNone && it.2.isNone)) with
      | nil =>
        have : y ∈ (x :: xs).filter (fun it => !(it.1.isNone && it.2.isNone)) := by
          rw [List.mem_filter]; exact ⟨hy, by cases h1 : y.1 <;> cases h2 : y.2 <;> simp_all⟩
        rw [hf] at this; cases this
      | cons _ _ => rfl
    rw [hkept]
    simp only [Bool.false_eq_true, if_false]
    -- no batch evaluates to zero
    have hbatch : (chunksAux (blstBatch - 1) ((x :: xs).filter (fun it => !(it.1.isNone && it.2.isNone))).length
        ((x :: xs).filter (fun it => !(it.1.isNone && it.2.isNone)))).any batchIsZero = false := by
      rw [List.any_eq_false]
      intro b hb hz
      unfold batchIsZero at hz
      rw [Bool.and_eq_true] at hz
      obtain ⟨_, hany⟩ := hz
      rw [List.any_eq_true] at hany
      obtain ⟨y, hyb, hyQ⟩ := hany
      have hyk := mem_of_mem_chunksAux _ _ _ _ hb y hyb
      rw [List.mem_filter] at hyk
      obtain ⟨hyi, hyn⟩ := hyk
      rw [List.any_eq_false] at hQ
      have := hQ y hyi
      cases h1 : y.1 <;> simp_all
    rw [hbatch]
    simp only [Bool.false_eq_true, if_false]
    unfold pairingProductIsOne
    rw [foldl_filter_bothInf _ _ Fp12.one_reduced]


/-- `bls_pairing_identity (∞ ∞)` is rejected although e(∞,∞) = 1 -/
theorem pairing_spec_witness : ¬ PairingStatement := by
  intro h
  have h := h [(none, none)]
  have hs : pairingProductIsOne [(none, none)] = true := by
    unfold pairingProductIsOne
    simp only [List.foldl, millerPair, fp12_mul_one_one, finalExpIsOne_one]
  rw [hs] at h
  revert h
  decide


end Clvm.Props.C32
