/-
C32 — the cryptographic operators agree with independent implementations.

What is *proved* here is the operator-level logic of `ClvmModel/Crypto/Ops.lean` (a transcription
of src/more_ops.rs, bls_ops.rs, secp_ops.rs, keccak256_ops.rs, op_utils.rs, allocator.rs g1/g2):
scalar reduction, the coinid acceptance rule, negation by bit flip, strict ⊆ relaxed, cost
formulas.  The field / curve arithmetic (`ClvmModel/Crypto/{Field,Curve,Secp,Bls}.lean`) and
the hash functions are the *independent implementation* the real crates are compared with by
the `crypto` stream; no group-law theorems are claimed.
-/
import ClvmModel.Crypto.Ops

namespace Clvm.Props.C32
open Clvm Clvm.Crypto Clvm.Crypto.Ops

theorem groupOrder_pos : (0 : Int) < (Gen.Crypto.groupOrder : Int) := by
  unfold Gen.Crypto.groupOrder; omega

/-- `mod_group_order n` lies in `[0, r)` and is congruent to `n` modulo `r`. -/
theorem modGroupOrder_spec (n : Int) :
    0 ≤ modGroupOrder n ∧ modGroupOrder n < Gen.Crypto.groupOrder ∧
    (Gen.Crypto.groupOrder : Int) ∣ (n - modGroupOrder n) := by
  have hpos := groupOrder_pos
  unfold modGroupOrder
  simp only
  rw [Int.fmod_eq_emod_of_nonneg _ (Int.le_of_lt hpos)]
  have h1 := Int.emod_nonneg n (Int.ne_of_gt hpos)
  have h2 := Int.emod_lt_of_pos n hpos
  have h3 : ¬ (n % (Gen.Crypto.groupOrder : Int) < 0) := by omega
  rw [if_neg h3]
  refine ⟨h1, h2, ?_⟩
  exact ⟨n / Gen.Crypto.groupOrder, by have := Int.emod_add_mul_ediv n Gen.Crypto.groupOrder; omega⟩

/-- the generated group order is the BLS12-381 subgroup order of the independent implementation -/
theorem groupOrder_eq : Gen.Crypto.groupOrder = Bls.r := by decide

theorem flipSignBit_involutive (b : Bytes) : flipSignBit (flipSignBit b) = b := by
  cases b with
  | nil => rfl
  | cons x tl =>
    simp only [flipSignBit]
    congr 1
    rw [UInt8.xor_assoc]; simp

end Clvm.Props.C32
