/-
C32 — the cryptographic operators agree with independent implementations.

What is *proved* here is the operator-level logic of `ClvmModel/Crypto/Ops.lean` (a transcription
of src/more_ops.rs, bls_ops.rs, secp_ops.rs, keccak256_ops.rs, op_utils.rs, allocator.rs g1/g2):
scalar reduction, the coinid acceptance rule, negation by bit flip, strict ⊆ relaxed, cost
formulas, and the relation between the implementation's pairing verdict and the mathematical
one (finding J).  The field / curve / pairing / hash-to-curve arithmetic
(`ClvmModel/Crypto/{Field,Curve,Secp,Bls,Pairing,HashToCurve}.lean`) and the hash functions are
the *independent implementation* the real crates are compared with by the `crypto` streams; no
group-law theorems are claimed.
-/
import ClvmProofs.Lemmas.Crypto

namespace Clvm.Props.C32
set_option linter.unusedSimpArgs false
open Clvm Clvm.Crypto Clvm.Crypto.Ops Clvm.Crypto.Bls

/-! ### scalars -/
/-- `mod_group_order n` lies in `[0, r)` and is congruent to `n` modulo `r`. -/
theorem modGroupOrder_spec (n : Int) :
    0 ≤ modGroupOrder n ∧ modGroupOrder n < Gen.Crypto.groupOrder ∧
    (Gen.Crypto.groupOrder : Int) ∣ (n - modGroupOrder n) := by
  have hpos := groupOrder_pos
  unfold modGroupOrder
  simp only
  rw [Int.fmod_eq_emod_of_nonneg _ (Int.le_of_lt hpos)]
  have h1 := Int.emod_nonneg n (Int.ne_of_gt hpos)
  have h2 := Int.emod_lt_of_pos n hpos
  have h3 : ¬ (n % (Gen.Crypto.groupOrder : Int) < 0) := by omega
  rw [if_neg h3]
  refine ⟨h1, h2, ?_⟩
  exact ⟨n / Gen.Crypto.groupOrder, by have := Int.emod_add_mul_ediv n Gen.Crypto.groupOrder; omega⟩

/-- the generated group order is the BLS12-381 subgroup order of the independent implementation -/
theorem groupOrder_eq : Gen.Crypto.groupOrder = Bls.r := by decide

theorem flipSignBit_involutive (b : Bytes) : flipSignBit (flipSignBit b) = b := by
  cases b with
  | nil => rfl
  | cons x tl =>
    simp only [flipSignBit]
    congr 1
    rw [UInt8.xor_assoc]; simp


/-! ### negation by bit flip -/

/-- `g1_negate` flips bit 5 of the first byte; on every finite point encoding that the ZCash decoder
accepts (before the subgroup check) this is the group negation: the flipped encoding decodes to
(x, −y).  (For the point at infinity the operator returns its argument unchanged.) -/
theorem g1_flip_is_negation (b : Bytes) (P : Nat × Nat) (h : g1DecodeUnchecked b = some (some P)) :
    g1DecodeUnchecked (flipSignBit b) = some (g1Neg (some P)) := by
  cases b with
  | nil => simp [g1DecodeUnchecked] at h
  | cons b0 rest =>
    have hx := xor32_facts b0.toNat (UInt8.toNat_lt b0)
    obtain ⟨h128, h64, h32, hs, _⟩ := hx
    have hf : (b0 ^^^ 0x20).toNat = b0.toNat ^^^ 32 := by simp [UInt8.toNat_xor]
    simp only [flipSignBit, g1DecodeUnchecked, List.length_cons, hf, h128, h64, h32, hs] at h ⊢
    split at h
    · cases h
    · rename_i hlen
      simp only [hlen, if_false]
      split at h
      · cases h
      · rename_i hc
        simp only [hc, if_false]
        split at h
        · split at h <;> cases h
        · rename_i hi
          simp only [hi, if_false]
          split at h
          · cases h
          · rename_i hxp
            simp only [hxp, if_false]
            split at h
            · cases h
            · rename_i y hy
              have hyl := sqrtMod_lt p_pos hy
              simp only [Option.some.injEq] at h
              subst h
              simp only [g1Neg, Curve.neg, g1Curve, fpOps, Option.some.injEq, Prod.mk.injEq, true_and]
              have hbit : b0.toNat / 32 % 2 = 0 ∨ b0.toNat / 32 % 2 = 1 := by omega
              rcases hbit with hb | hb <;> cases hL : fpIsLarger y <;>
                simp [hb, negMod_negMod hyl]

/-! ### strict vs RELAXED_BLS -/

/-- strict ⊆ relaxed: whatever `g1_negate` returns in strict mode it returns, identically, when
RELAXED_BLS is set (relaxed mode only skips the point validation). -/
theorem g1_negate_relaxed_superset (fs fr maxCost : Nat) (args : Tree) (r : OpRes)
    (hr : hasFlag fr Gen.Crypto.flagRelaxedBls = true)
    (h : opBlsG1Negate fs maxCost args = .ok r) : opBlsG1Negate fr maxCost args = .ok r := by
  unfold opBlsG1Negate at h ⊢
  simp only [hr, Bool.not_true] at ⊢
  cases hfs : hasFlag fs Gen.Crypto.flagRelaxedBls
  · simp only [hfs, Bool.not_false] at h
    cases hg : getArgs 1 args "g1_negate" with
    | error e => simp [hg, bind, Except.bind] at h
    | ok l =>
      simp only [hg, bind, Except.bind] at h ⊢
      match l, h with
      | [point], h =>
        simp only at h ⊢
        cases ha : atomOf point "G1 atom" with
        | error e => simp [ha] at h
        | ok blob =>
          simp only [ha] at h ⊢
          by_cases hl : blob.length = 48
          · simp only [hl, ne_eq, not_true_eq_false, if_false, if_true, pure, Except.pure] at h ⊢
            cases hv : validateG1 blob with
            | error e => simp [hv] at h
            | ok u => simpa [hv] using h
          · simp [hl, throw, throwThe, MonadExceptOf.throw] at h
      | [], h => simp [throw, throwThe, MonadExceptOf.throw] at h
      | _ :: _ :: _, h => simp [throw, throwThe, MonadExceptOf.throw] at h
  · simp only [hfs, Bool.not_true] at h
    exact h

/-- strict ⊆ relaxed: whatever `g2_negate` returns in strict mode it returns, identically, when
RELAXED_BLS is set (relaxed mode only skips the point validation). -/
theorem g2_negate_relaxed_superset (fs fr maxCost : Nat) (args : Tree) (r : OpRes)
    (hr : hasFlag fr Gen.Crypto.flagRelaxedBls = true)
    (h : opBlsG2Negate fs maxCost args = .ok r) : opBlsG2Negate fr maxCost args = .ok r := by
  unfold opBlsG2Negate at h ⊢
  simp only [hr, Bool.not_true] at ⊢
  cases hfs : hasFlag fs Gen.Crypto.flagRelaxedBls
  · simp only [hfs, Bool.not_false] at h
    cases hg : getArgs 1 args "g2_negate" with
    | error e => simp [hg, bind, Except.bind] at h
    | ok l =>
      simp only [hg, bind, Except.bind] at h ⊢
      match l, h with
      | [point], h =>
        simp only at h ⊢
        cases ha : atomOf point "G2 atom" with
        | error e => simp [ha] at h
        | ok blob =>
          simp only [ha] at h ⊢
          by_cases hl : blob.length = 96
          · simp only [hl, ne_eq, not_true_eq_false, if_false, if_true, pure, Except.pure] at h ⊢
            cases hv : validateG2 blob with
            | error e => simp [hv] at h
            | ok u => simpa [hv] using h
          · simp [hl, throw, throwThe, MonadExceptOf.throw] at h
      | [], h => simp [throw, throwThe, MonadExceptOf.throw] at h
      | _ :: _ :: _, h => simp [throw, throwThe, MonadExceptOf.throw] at h
  · simp only [hfs, Bool.not_true] at h
    exact h

/-! ### cost formulas and validation order (closed forms on well-formed argument lists) -/

/-- `pubkey_for_exp` on one atom `n`: cost = PUBKEY_BASE_COST + len(n)·PUBKEY_COST_PER_BYTE + 48·MALLOC,
value = (n mod r)·G1 compressed, freshly allocated — whenever the budget allows it. -/
theorem pubkey_for_exp_spec (flags maxCost : Nat) (n : Bytes) (term : Bytes)
    (hb : Gen.Crypto.pubkeyBaseCost + n.length * Gen.Crypto.pubkeyCostPerByte ≤ maxCost) :
    opPubkeyForExp flags maxCost (.pair (.atom n) (.atom term)) =
      .ok ⟨Gen.Crypto.pubkeyBaseCost + n.length * Gen.Crypto.pubkeyCostPerByte + 48 * Gen.Crypto.mallocCostPerByte,
           .atom (g1Encode (g1Mul (modGroupOrder (intOfBytes n)).toNat g1Gen)), true⟩ := by
  unfold opPubkeyForExp getArgs
  simp only [matchArgs, Option.map, bind, Except.bind, intAtom, checkCost]
  have : ¬ (Gen.Crypto.pubkeyBaseCost + n.length * Gen.Crypto.pubkeyCostPerByte > maxCost) := by omega
  simp only [this, if_false, pure, Except.pure, pubkeyForExp, newG1]

/-- over budget ⇒ CostExceeded, before any group operation -/
theorem pubkey_for_exp_cost_exceeded (flags maxCost : Nat) (n : Bytes) (term : Bytes)
    (hb : maxCost < Gen.Crypto.pubkeyBaseCost + n.length * Gen.Crypto.pubkeyCostPerByte) :
    opPubkeyForExp flags maxCost (.pair (.atom n) (.atom term)) = .error .CostExceeded := by
  unfold opPubkeyForExp getArgs
  simp only [matchArgs, Option.map, bind, Except.bind, intAtom, checkCost]
  have : (Gen.Crypto.pubkeyBaseCost + n.length * Gen.Crypto.pubkeyCostPerByte > maxCost) := by omega
  simp only [this, if_true]

/-- `g1_negate` in relaxed mode on any 48-byte atom: fixed cost, bit 5 flipped (or the argument
itself for the encoding of infinity) — no validation at all. -/
theorem g1_negate_relaxed_spec (flags maxCost : Nat) (blob term : Bytes) (hl : blob.length = 48)
    (hr : hasFlag flags Gen.Crypto.flagRelaxedBls = true) :
    opBlsG1Negate flags maxCost (.pair (.atom blob) (.atom term)) =
      .ok (if isCompressedInfinity blob
        then ⟨Gen.Crypto.blsG1NegateBaseCost + 48 * Gen.Crypto.mallocCostPerByte, .atom blob, false⟩
        else ⟨Gen.Crypto.blsG1NegateBaseCost + 48 * Gen.Crypto.mallocCostPerByte, .atom (flipSignBit blob), true⟩) := by
  unfold opBlsG1Negate getArgs
  simp only [matchArgs, Option.map, bind, Except.bind, atomOf, hr, Bool.not_true, hl, ne_eq,
    not_true_eq_false, if_false, pure, Except.pure, Bool.false_eq_true]
  cases hi : isCompressedInfinity blob
  · have : (flipSignBit blob).length = 48 := by
      cases blob with
      | nil => simp at hl
      | cons x xs => simpa [flipSignBit] using hl
    simp [newAtomAndCost, this]
  · simp


/-! ### the one non-standard rule of `chia_bls::G1Element::from_bytes` -/

/-- The encodings refused by the extra `chia_bls` rule (`chiaG1Quirk`: a finite-point encoding whose
bytes 1‥47 are zero) are exactly `(0x80 + k) :: 0^47`, k < 64.  None of them is accepted by the
standard decoder + subgroup check, so the rule changes no accept/reject decision
(kernel evaluation of the independent implementation; first half k < 32). -/
theorem chia_g1_rule_unobservable_lo : ((List.range 32).all (fun k =>
    let b : Bytes := UInt8.ofNat (0x80 + k) :: List.replicate 47 0
    chiaG1Quirk b && (match g1DecodeUnchecked b with
      | some P => !inSubgroupG1 P
      | none => true))) = true := by decide +kernel

/-- second half, 32 ≤ k < 64 -/
theorem chia_g1_rule_unobservable_hi : ((List.range 32).all (fun k =>
    let b : Bytes := UInt8.ofNat (0xa0 + k) :: List.replicate 47 0
    chiaG1Quirk b && (match g1DecodeUnchecked b with
      | some P => !inSubgroupG1 P
      | none => true))) = true := by decide +kernel

/-! ### coinid -/

/-- every amount `coinid` accepts denotes an integer in `[0, 2^64)` -/
theorem coinid_amount_sound (a : Bytes) (h : coinidAmountError a = none) :
    0 ≤ intOfBytes a ∧ intOfBytes a < 2 ^ 64 := by
  cases a with
  | nil => simp [intOfBytes]
  | cons b0 tl =>
    unfold coinidAmountError at h
    simp only at h
    by_cases hneg : (b0 &&& 0x80 != 0) = true
    · simp only [hneg, ↓reduceIte] at h; cases h
    · simp only [hneg, Bool.false_eq_true, ↓reduceIte] at h
      by_cases hbig : (decide ((b0 :: tl).length > 9) || ((b0 :: tl).length == 9 && b0 != 0)) = true
      · simp only [hbig, ↓reduceIte] at h
        have hne : ∀ (c : Prop) [Decidable c] (x y : String), (if c then some x else some y) ≠ none := by
          intro c _ x y; by_cases hc : c <;> simp [hc]
        exact absurd h (hne _ _ _)
      · clear h
        have hb0 : b0.toNat < 0x80 := by
          have : ¬ (b0 &&& 0x80 != 0) = true := hneg
          have hh : ∀ n, n < 256 → (n &&& 0x80 = 0 → n < 0x80) := by decide +kernel
          apply hh _ (UInt8.toNat_lt b0)
          have : b0 &&& 0x80 = 0 := by simpa using this
          have := congrArg UInt8.toNat this
          simpa [UInt8.toNat_and] using this
        have hval : intOfBytes (b0 :: tl) = (natOfBytesBE (b0 :: tl) : Int) := by
          unfold intOfBytes
          simp only
          rw [if_neg (by omega)]
        rw [hval]
        refine ⟨Int.natCast_nonneg _, ?_⟩
        simp only [List.length_cons, Bool.or_eq_true, decide_eq_true_eq, Bool.and_eq_true, beq_iff_eq,
          bne_iff_ne, ne_eq, not_or, not_and, Decidable.not_not] at hbig
        obtain ⟨hlen, h9⟩ := hbig
        have hlt : natOfBytesBE (b0 :: tl) < 2 ^ 64 := by
          by_cases hl : tl.length + 1 = 9
          · have hz := h9 hl
            subst hz
            rw [natOfBytesBE_cons_zero]
            have := natOfBytesBE_lt tl
            have hl8 : tl.length = 8 := by omega
            rw [hl8] at this
            exact this
          · have := natOfBytesBE_lt (b0 :: tl)
            have hle : (b0 :: tl).length ≤ 8 := by simp only [List.length_cons]; omega
            calc natOfBytesBE (b0 :: tl) < 256 ^ (b0 :: tl).length := this
              _ ≤ 256 ^ 8 := Nat.pow_le_pow_right (by decide) hle
              _ = 2 ^ 64 := by decide
        exact_mod_cast hlt


/-- `coinid` succeeds only on exactly three atoms (parent, puzzle hash, amount) of 32, 32 bytes and
an accepted amount; it then returns sha256(parent ‖ puzzle ‖ amount) in a fresh atom, at the
fixed cost of the selected cost model plus the allocation charge. -/
theorem coinid_ok (flags maxCost : Nat) (args : Tree) (r : OpRes) (h : opCoinid flags maxCost args = .ok r) :
    ∃ parent puzzle amount, matchArgs 3 args = some [.atom parent, .atom puzzle, .atom amount] ∧
      parent.length = 32 ∧ puzzle.length = 32 ∧ coinidAmountError amount = none ∧
      r.value = .atom (Hash.sha256 (parent ++ puzzle ++ amount)) ∧ r.fresh = true ∧
      r.cost = (if newCostModel flags then Gen.Crypto.newCoinidCost else Gen.Crypto.coinidCost)
                + (Hash.sha256 (parent ++ puzzle ++ amount)).length * Gen.Crypto.mallocCostPerByte := by
  unfold opCoinid getArgs at h
  cases hm : matchArgs 3 args with
  | none => simp [hm, bind, Except.bind] at h
  | some l =>
    simp only [hm, bind, Except.bind] at h
    match l, h with
    | [x, y, z], h =>
      simp only at h
      cases x with
      | pair _ _ => simp [atomOf] at h
      | atom parent =>
        simp only [atomOf] at h
        by_cases hp : parent.length = 32
        · simp only [hp, ne_eq, not_true_eq_false, if_false, pure, Except.pure] at h
          cases y with
          | pair _ _ => simp at h
          | atom puzzle =>
            simp only at h
            by_cases hz : puzzle.length = 32
            · simp only [hz, ne_eq, not_true_eq_false, if_false] at h
              cases z with
              | pair _ _ => simp at h
              | atom amount =>
                simp only at h
                cases ha : coinidAmountError amount with
                | some msg => simp [ha, throw, throwThe, MonadExceptOf.throw] at h
                | none =>
                  simp only [ha] at h
                  by_cases hl : (Hash.sha256 (parent ++ puzzle ++ amount)).length = 32
                  · simp only [hl, ne_eq, not_true_eq_false, if_false, newAtomAndCost] at h
                    cases h
                    exact ⟨parent, puzzle, amount, rfl, hp, hz, ha, rfl, rfl, rfl⟩
                  · simp only [hl, ne_eq, not_false_eq_true, if_true, throw, throwThe, MonadExceptOf.throw] at h
                    cases h
            · simp [hz, throw, throwThe, MonadExceptOf.throw] at h
        · simp [hp, throw, throwThe, MonadExceptOf.throw] at h
    | [], h => simp [throw, throwThe, MonadExceptOf.throw] at h
    | [_], h => simp [throw, throwThe, MonadExceptOf.throw] at h
    | [_, _], h => simp [throw, throwThe, MonadExceptOf.throw] at h
    | _ :: _ :: _ :: _ :: _, h => simp [throw, throwThe, MonadExceptOf.throw] at h

/-- the amounts `coinid` refuses although they denote a u64: a redundant leading zero byte
(`[0]`, or `0 :: b1 :: _` with `b1 < 0x80`), i.e. every non-minimal encoding -/
theorem coinid_rejects_leading_zero (b1 : UInt8) (tl : Bytes) (h : b1.toNat < 0x80) :
    coinidAmountError [0] ≠ none ∧ coinidAmountError (0 :: b1 :: tl) ≠ none := by
  have hb : (b1 &&& 0x80 == 0) = true := by
    have hh : ∀ n, n < 256 → n < 0x80 → n &&& 0x80 = 0 := by decide +kernel
    have := hh _ (UInt8.toNat_lt b1) h
    simp only [beq_iff_eq]
    apply UInt8.toNat_inj.mp
    simpa [UInt8.toNat_and] using this
  constructor
  · decide
  · unfold coinidAmountError
    simp [hb]

/-- negative amounts are refused -/
theorem coinid_rejects_negative (b0 : UInt8) (tl : Bytes) (h : 0x80 ≤ b0.toNat) :
    coinidAmountError (b0 :: tl) ≠ none := by
  have hb : (b0 &&& 0x80 != 0) = true := by
    have hh : ∀ n, n < 256 → 0x80 ≤ n → n &&& 0x80 ≠ 0 := by decide +kernel
    have := hh _ (UInt8.toNat_lt b0) h
    simp only [bne_iff_ne, ne_eq]
    intro hc
    apply this
    have := congrArg UInt8.toNat hc
    simpa [UInt8.toNat_and] using this
  unfold coinidAmountError
  simp [hb]


/-! ### pairing: implementation verdict vs mathematical statement (finding J) -/

/-- the defect region of finding J: some pair is (P finite, Q = ∞), or the list is non-empty and
consists of (∞,∞) pairs only -/
def PairingDefectRegion (items : List (G1 × G2)) : Bool :=
  items.any (fun it => it.2.isNone && it.1.isSome) ||
  (!items.isEmpty && items.all (fun it => it.1.isNone && it.2.isNone))

/-- full statement (false of the current code, see `pairing_spec_witness`): the verdict of
`chia_bls::aggregate_pairing` as the operator uses it is the mathematical one, ∏ e(Pᵢ,Qᵢ) = 1 -/
def PairingStatement : Prop := ∀ items : List (G1 × G2), aggregatePairing items = pairingProductIsOne items

/-- outside the defect region the implementation's verdict is the mathematical one -/
theorem pairing_spec_partial (items : List (G1 × G2)) (h : PairingDefectRegion items = false) :
    aggregatePairing items = pairingProductIsOne items := by
  unfold PairingDefectRegion at h
  rw [Bool.or_eq_false_iff] at h
  obtain ⟨hQ, hAll⟩ := h
  cases items with
  | nil =>
    have : pairingProductIsOne [] = true := by
      unfold pairingProductIsOne; simp only [List.foldl]; exact finalExpIsOne_one
    rw [this]; rfl
  | cons x xs =>
    have hAll' : (x :: xs).all (fun it => it.1.isNone && it.2.isNone) = false := by
      simpa using hAll
    unfold aggregatePairing
    have hne : (x :: xs).isEmpty = false := rfl
    simp only [hne, Bool.false_eq_true, if_false]
    -- something is kept
    have hkept : ((x :: xs).filter (fun it => !(it.1.isNone && it.2.isNone))).isEmpty = false := by
      rw [List.all_eq_false] at hAll'
      obtain ⟨y, hy, hyb⟩ := hAll'
      cases hf : (x :: xs).filter (fun it => !(it.1.isNone && it.2.isNone)) with
      | nil =>
        have : y ∈ (x :: xs).filter (fun it => !(it.1.isNone && it.2.isNone)) := by
          rw [List.mem_filter]; exact ⟨hy, by cases h1 : y.1 <;> cases h2 : y.2 <;> simp_all⟩
        rw [hf] at this; cases this
      | cons _ _ => rfl
    rw [hkept]
    simp only [Bool.false_eq_true, if_false]
    -- no batch evaluates to zero
    have hbatch : (chunksAux (blstBatch - 1) ((x :: xs).filter (fun it => !(it.1.isNone && it.2.isNone))).length
        ((x :: xs).filter (fun it => !(it.1.isNone && it.2.isNone)))).any batchIsZero = false := by
      rw [List.any_eq_false]
      intro b hb hz
      unfold batchIsZero at hz
      rw [Bool.and_eq_true] at hz
      obtain ⟨_, hany⟩ := hz
      rw [List.any_eq_true] at hany
      obtain ⟨y, hyb, hyQ⟩ := hany
      have hyk := mem_of_mem_chunksAux _ _ _ _ hb y hyb
      rw [List.mem_filter] at hyk
      obtain ⟨hyi, hyn⟩ := hyk
      rw [List.any_eq_false] at hQ
      have := hQ y hyi
      cases h1 : y.1 <;> simp_all
    rw [hbatch]
    simp only [Bool.false_eq_true, if_false]
    unfold pairingProductIsOne
    rw [foldl_filter_bothInf _ _ Fp12.one_reduced]


/-- `bls_pairing_identity (∞ ∞)` is rejected although e(∞,∞) = 1 -/
theorem pairing_spec_witness : ¬ PairingStatement := by
  intro h
  have h := h [(none, none)]
  have hs : pairingProductIsOne [(none, none)] = true := by
    unfold pairingProductIsOne
    simp only [List.foldl, millerPair, fp12_mul_one_one, finalExpIsOne_one]
  rw [hs] at h
  revert h
  decide


end Clvm.Props.C32
