/-
C31 — softfork guards are isolated and always yield nil.

Model: `ClvmModel/Interp/Machine.lean` (`applyOp`, `exitGuard`, `runLoop`).
-/
import ClvmModel.Interp.Machine

namespace Clvm.Props.C31
open Clvm Clvm.Interp

/-- **A completed guard yields nil, restores the counters and has consumed its declared cost.**
If the `ExitGuard` step succeeds in state `s` at cost `cost` with guard `g` on top of the softfork
stack, then: the step charges nothing, the value the guarded program left is replaced by nil, the
atom / pair / heap counts are exactly those recorded when the guard was entered, and — unless the
guard is cost-exempt (grandfathered extension) — the cost equals the expected cost
(entry cost + declared cost). -/
theorem guard_complete (s s' : MState) (g : SoftforkGuard) (rest : List SoftforkGuard) (cost c : Nat)
    (hs : s.softforkStack = g :: rest) (h : exitGuard s cost = .ok (c, s')) :
    c = 0 ∧ s'.valStack.head? = some Val.nil ∧ s'.softforkStack = rest ∧
    s'.ctr.atoms = g.allocatorState.atoms ∧ s'.ctr.pairs = g.allocatorState.pairs ∧
    s'.ctr.heap = g.allocatorState.heap ∧ s'.ctr.heapLimit = s.ctr.heapLimit ∧
    (g.costExempt = false → cost = g.expectedCost) := by
  unfold exitGuard at h
  rw [hs] at h
  simp only at h
  split at h
  · cases h
  · rename_i hc
    split at h
    · cases h
    · rename_i v vs hv
      simp only [MState.push, bind, Except.bind] at h
      by_cases hl : (s.valLen - 1 == Gen.STACK_SIZE_LIMIT) = true
      · simp [hl] at h
      · simp only [hl, if_false, pure, Except.pure, Except.ok.injEq, Prod.mk.injEq] at h
        obtain ⟨rfl, rfl⟩ := h
        refine ⟨rfl, rfl, rfl, rfl, rfl, rfl, rfl, ?_⟩
        intro hex
        simp only [hex, Bool.not_false, Bool.true_and, bne_iff_ne, ne_eq, Decidable.not_not,
          Bool.not_eq_true, bne_eq_false_iff_eq] at hc
        exact hc

/-- a non-exempt guard whose cost does not match fails with the mismatch error -/
theorem guard_mismatch (s : MState) (g : SoftforkGuard) (rest : List SoftforkGuard) (cost : Nat)
    (hs : s.softforkStack = g :: rest) (hex : g.costExempt = false) (hne : cost ≠ g.expectedCost) :
    exitGuard s cost = .error (.err .SoftforkCostMismatch) := by
  unfold exitGuard
  rw [hs]
  simp [hex, hne]

/-- the nesting limit is the generated constant 20 -/
theorem nesting_limit : Gen.softforkNestingLimit = 20 := by decide

end Clvm.Props.C31
