/-
C31 — softfork guards are isolated and always yield nil.

Model: `ClvmModel/Interp/Machine.lean` (`applyOp`, `exitGuard`, `runLoop`).
-/
import ClvmModel.Interp.Machine
import ClvmProofs.Lemmas.Interp.GuardBig

namespace Clvm.Props.C31
open Clvm Clvm.Interp

/-- **A completed guard yields nil, restores the counters and has consumed its declared cost.**
If the `ExitGuard` step succeeds in state `s` at cost `cost` with guard `g` on top of the softfork
stack, then: the step charges nothing, the value the guarded program left is replaced by nil, the
atom / pair / heap counts are exactly those recorded when the guard was entered, and — unless the
guard is cost-exempt (grandfathered extension) — the cost equals the expected cost
(entry cost + declared cost). -/
theorem guard_complete (s s' : MState) (g : SoftforkGuard) (rest : List SoftforkGuard) (cost c : Nat)
    (hs : s.softforkStack = g :: rest) (h : exitGuard s cost = .ok (c, s')) :
    c = 0 ∧ s'.valStack.head? = some Val.nil ∧ s'.softforkStack = rest ∧
    s'.ctr.atoms = g.allocatorState.atoms ∧ s'.ctr.pairs = g.allocatorState.pairs ∧
    s'.ctr.heap = g.allocatorState.heap ∧ s'.ctr.heapLimit = s.ctr.heapLimit ∧
    (g.costExempt = false → cost = g.expectedCost) := by
  unfold exitGuard at h
  rw [hs] at h
  simp only at h
  split at h
  · cases h
  · rename_i hc
    split at h
    · cases h
    · rename_i v vs hv
      simp only [MState.push, bind, Except.bind] at h
      by_cases hl : (s.valLen - 1 == Gen.STACK_SIZE_LIMIT) = true
      · simp [hl] at h
      · simp only [hl, if_false, pure, Except.pure, Except.ok.injEq, Prod.mk.injEq] at h
        obtain ⟨rfl, rfl⟩ := h
        refine ⟨rfl, rfl, rfl, rfl, rfl, rfl, rfl, ?_⟩
        intro hex
        simp only [hex, Bool.not_false, Bool.true_and, bne_iff_ne, ne_eq, Decidable.not_not,
          Bool.not_eq_true, bne_eq_false_iff_eq] at hc
        exact hc

/-- a non-exempt guard whose cost does not match fails with the mismatch error -/
theorem guard_mismatch (s : MState) (g : SoftforkGuard) (rest : List SoftforkGuard) (cost : Nat)
    (hs : s.softforkStack = g :: rest) (hex : g.costExempt = false) (hne : cost ≠ g.expectedCost) :
    exitGuard s cost = .error (.err .SoftforkCostMismatch) := by
  unfold exitGuard
  rw [hs]
  simp [hex, hne]

/-- the nesting limit is the generated constant 20 -/
theorem nesting_limit : Gen.softforkNestingLimit = 20 := by decide

/-- **A completed guard at program level** (`(softfork cost ext prog env)` as a whole).
Take the `Apply` step on the softfork keyword in any state `s0` (operands `operandList`, operator and the
saved environment on top of the stacks, anything underneath) whose arguments parse to a known extension
`ext`, and let the main loop run until the operations this step pushed — `ExitGuard` and whatever the
guarded program pushes, nested guards included — have been consumed (`runTo` stops the first time the
operation stack is back to its length in `s0`).  Then, whatever happened inside:
the state is `s0` with the operand list, the operator and the environment popped and **nil** pushed
(every other stack entry, the softfork stack and the pending checkpoints untouched); the atom, pair and
heap counts are exactly those at guard entry; and unless the extension is cost-exempt
(`PreHardFork`) the cost consumed by the whole step sequence is exactly the declared cost.
Proof: the well-bracketing theorem `runTo_bracket` of `Lemmas/Interp/BigStep.lean` + `guard_complete`. -/
theorem guard_program_complete {cfg : Cfg} {d : Dialect} {mc : Nat} {s0 s1 s' : MState}
    {operandList operator : Val} {W : List Val} {e0 : Val} {E : List Val} {cost m c : Nat}
    {ext : OperatorSet} {prg env : Val} {fuel cost' fuel' : Nat}
    (hv : s0.valStack = operandList :: operator :: W) (he : s0.envStack = e0 :: E)
    (hna : smallNumber operator ≠ some d.applyKw) (hsk : smallNumber operator = some d.softforkKw)
    (hparse : parseSoftforkArguments d operandList = .ok (ext, prg, env))
    (hstep : applyOp cfg d s0 cost m = .ok (c, s1))
    (hrun : runTo cfg d mc s0.opStack.length fuel s1 (cost + c) = some (.ok (cost', s', fuel'))) :
    ∃ f declared, first operandList = .ok f ∧ uintAtom 8 f "softfork" d.flags = .ok declared ∧
      s' = { s0 with valStack := Val.nil :: W, valLen := s0.valLen - 1 - 1 + 1, envStack := E,
                     envLen := s0.envLen - 1, ctr := s'.ctr } ∧
      s'.ctr.atoms = s0.ctr.atoms ∧ s'.ctr.pairs = s0.ctr.pairs ∧ s'.ctr.heap = s0.ctr.heap ∧
      (ext ≠ .PreHardFork → cost' = cost + declared) :=
  let ⟨f, dcl, h1, h2, h3, h4, h5, h6, h7, _⟩ := Interp.guard_program_complete hv he hna hsk hparse hstep hrun
  ⟨f, dcl, h1, h2, h3, h4, h5, h6, h7⟩

/-- every successful run that enters a guard passes through the point where that guard has completed
(so the previous theorem applies to it), and continues from there with the rest of the fuel -/
theorem guard_completes_in_run {cfg : Cfg} {d : Dialect} {mc L fuel : Nat} {s : MState} {cost : Nat}
    {r : Nat × MState} (h : runLoop cfg d mc fuel s cost = some (.ok r)) :
    ∃ cost' s' fuel', runTo cfg d mc L fuel s cost = some (.ok (cost', s', fuel')) ∧
      runLoop cfg d mc fuel' s' cost' = some (.ok r) ∧ fuel' ≤ fuel :=
  let ⟨c', s', f', h1, h2, h3, _⟩ := runTo_of_runLoop_ok (L := L) h
  ⟨c', s', f', h1, h2, h3⟩

end Clvm.Props.C31
