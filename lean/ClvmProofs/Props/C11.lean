/-
C11 — operator results do not depend on the cost model.
-/
import ClvmProofs.Lemmas.Interp.ModelIndep

namespace Clvm.Props.C11
open Clvm Clvm.Interp

/-- **Operators.** For every core operator (both builds), every flag set `F` without
NEW_COST_MODEL, every argument list and every pair of budgets: if the call succeeds under `F` and
under `F ∪ NEW_COST_MODEL`, the two values (and the allocator counters) are identical — only the
costs may differ.  This covers the old model's split accumulators of `+ - logand logior logxor`
against the new model's single accumulator (associativity / commutativity of two's-complement
and/or/xor on `Int` is proved, not assumed). -/
theorem op_value_model_independent {cfg : Cfg} {name : String} {f : OpFn}
    (hf : coreOpByName cfg name = some f) (F m m' : Nat) (args : Val) (c : Ctr) (r r' : Nat × Val × Ctr)
    (hF : hasFlag F Gen.FLAG_NEW_COST_MODEL = false)
    (h : f F m args c = .ok r) (h' : f (F ||| Gen.FLAG_NEW_COST_MODEL) m' args c = .ok r') :
    r.2 = r'.2 :=
  coreOps_modelIndep hf F m m' args c r r' hF h h'

theorem unknown_value_model_independent (op : Bytes) (F m m' : Nat) (args : Val) (c : Ctr)
    (r r' : Nat × Val × Ctr) (hF : hasFlag F Gen.FLAG_NEW_COST_MODEL = false)
    (h : opUnknown op F m args c = .ok r) (h' : opUnknown op (F ||| Gen.FLAG_NEW_COST_MODEL) m' args c = .ok r') :
    r.2 = r'.2 :=
  opUnknown_modelIndep op F m m' args c r r' hF h h'

end Clvm.Props.C11
