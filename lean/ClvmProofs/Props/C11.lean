/-
C11 — operator results do not depend on the cost model.
-/
import ClvmProofs.Lemmas.Interp.ModelIndep
import ClvmProofs.Lemmas.Interp.LiftModel

namespace Clvm.Props.C11
open Clvm Clvm.Interp

/-- **Operators.** For every core operator (both builds), every flag set `F` without
NEW_COST_MODEL, every argument list and every pair of budgets: if the call succeeds under `F` and
under `F ∪ NEW_COST_MODEL`, the two values (and the allocator counters) are identical — only the
costs may differ.  This covers the old model's split accumulators of `+ - logand logior logxor`
against the new model's single accumulator (associativity / commutativity of two's-complement
and/or/xor on `Int` is proved, not assumed). -/
theorem op_value_model_independent {cfg : Cfg} {name : String} {f : OpFn}
    (hf : coreOpByName cfg name = some f) (F m m' : Nat) (args : Val) (c : Ctr) (r r' : Nat × Val × Ctr)
    (hF : hasFlag F Gen.FLAG_NEW_COST_MODEL = false)
    (h : f F m args c = .ok r) (h' : f (F ||| Gen.FLAG_NEW_COST_MODEL) m' args c = .ok r') :
    r.2 = r'.2 :=
  coreOps_modelIndep hf F m m' args c r r' hF h h'

theorem unknown_value_model_independent (op : Bytes) (F m m' : Nat) (args : Val) (c : Ctr)
    (r r' : Nat × Val × Ctr) (hF : hasFlag F Gen.FLAG_NEW_COST_MODEL = false)
    (h : opUnknown op F m args c = .ok r) (h' : opUnknown op (F ||| Gen.FLAG_NEW_COST_MODEL) m' args c = .ok r') :
    r.2 = r'.2 :=
  opUnknown_modelIndep op F m m' args c r r' hF h h'

/-- **Whole programs (partial).** For every program, environment and pair of budgets/fuels: a
program that succeeds under `F` (old cost model) and under `F ∪ NEW_COST_MODEL` returns the same
value and leaves the same counters.  Proved when ENABLE_KECCAK_OPS_OUTSIDE_GUARD is in `F`; missing
without it: inside an extension-0 guard opcode 62 is an unknown operator in the old model and
keccak256 in the new one, so the two runs are not in lock-step inside the guard although both guards
end in nil with the counters restored (needs the guard-as-black-box frame lemma). -/
theorem whole_program_value_model_partial (cfg : Cfg) (extra : String → Option OpFn)
    (hmi : ∀ name f, extra name = some f → OpModelIndep f)
    (hre : ∀ name f, extra name = some f → OpRestrict f)
    (F : Nat) (hF : hasFlag F Gen.FLAG_NEW_COST_MODEL = false)
    (hKec : hasFlag F Gen.FLAG_ENABLE_KECCAK_OPS_OUTSIDE_GUARD = true)
    {fuel1 fuel2 : Nat} {c0 : Ctr} {p e : Val} {M1 M2 : Nat} {r1 r2 : Nat × Val × Ctr}
    (h1 : runProgram cfg (chiaDialect cfg extra F) fuel1 c0 p e M1 = some (.ok r1))
    (h2 : runProgram cfg (chiaDialect cfg extra (F ||| Gen.FLAG_NEW_COST_MODEL)) fuel2 c0 p e M2 = some (.ok r2)) :
    r1.2 = r2.2 :=
  eval_value_model_partial cfg extra hmi hre F hF hKec h1 h2

end Clvm.Props.C11
