/-
C11 — operator results do not depend on the cost model.
-/
import ClvmProofs.Lemmas.Interp.ModelIndep
import ClvmProofs.Lemmas.Interp.LiftModel
import ClvmProofs.Lemmas.Interp.ModelGuard
import ClvmProofs.Lemmas.Interp.LiftCrypto

namespace Clvm.Props.C11
open Clvm Clvm.Interp

/-- **Operators.** For every core operator (both builds), every flag set `F` without
NEW_COST_MODEL, every argument list and every pair of budgets: if the call succeeds under `F` and
under `F ∪ NEW_COST_MODEL`, the two values (and the allocator counters) are identical — only the
costs may differ.  This covers the old model's split accumulators of `+ - logand logior logxor`
against the new model's single accumulator (associativity / commutativity of two's-complement
and/or/xor on `Int` is proved, not assumed). -/
theorem op_value_model_independent {cfg : Cfg} {name : String} {f : OpFn}
    (hf : coreOpByName cfg name = some f) (F m m' : Nat) (args : Val) (c : Ctr) (r r' : Nat × Val × Ctr)
    (hF : hasFlag F Gen.FLAG_NEW_COST_MODEL = false)
    (h : f F m args c = .ok r) (h' : f (F ||| Gen.FLAG_NEW_COST_MODEL) m' args c = .ok r') :
    r.2 = r'.2 :=
  coreOps_modelIndep hf F m m' args c r r' hF h h'

theorem unknown_value_model_independent (op : Bytes) (F m m' : Nat) (args : Val) (c : Ctr)
    (r r' : Nat × Val × Ctr) (hF : hasFlag F Gen.FLAG_NEW_COST_MODEL = false)
    (h : opUnknown op F m args c = .ok r) (h' : opUnknown op (F ||| Gen.FLAG_NEW_COST_MODEL) m' args c = .ok r') :
    r.2 = r'.2 :=
  opUnknown_modelIndep op F m m' args c r r' hF h h'

/-- **Whole programs (partial).** For every program, environment and pair of budgets/fuels: a
program that succeeds under `F` (old cost model) and under `F ∪ NEW_COST_MODEL` returns the same
value and leaves the same counters.  Proved when ENABLE_KECCAK_OPS_OUTSIDE_GUARD is in `F`; missing
without it: inside an extension-0 guard opcode 62 is an unknown operator in the old model and
keccak256 in the new one, so the two runs are not in lock-step inside the guard although both guards
end in nil with the counters restored (needs the guard-as-black-box frame lemma). -/
theorem whole_program_value_model_partial (cfg : Cfg) (extra : String → Option OpFn)
    (hmi : ∀ name f, extra name = some f → OpModelIndep f)
    (hre : ∀ name f, extra name = some f → OpRestrict f)
    (F : Nat) (hF : hasFlag F Gen.FLAG_NEW_COST_MODEL = false)
    (hKec : hasFlag F Gen.FLAG_ENABLE_KECCAK_OPS_OUTSIDE_GUARD = true)
    {fuel1 fuel2 : Nat} {c0 : Ctr} {p e : Val} {M1 M2 : Nat} {r1 r2 : Nat × Val × Ctr}
    (h1 : runProgram cfg (chiaDialect cfg extra F) fuel1 c0 p e M1 = some (.ok r1))
    (h2 : runProgram cfg (chiaDialect cfg extra (F ||| Gen.FLAG_NEW_COST_MODEL)) fuel2 c0 p e M2 = some (.ok r2)) :
    r1.2 = r2.2 :=
  eval_value_model_partial cfg extra hmi hre F hF hKec h1 h2

/-- **Whole programs (full statement).** For every build configuration, every flag set `F` without
NEW_COST_MODEL (with or without ENABLE_KECCAK_OPS_OUTSIDE_GUARD — no restriction on which operator sets
the guards install), every well-formed program and environment, every pair of budgets and fuels: a
program that succeeds under `F` (old cost model) and under `F ∪ NEW_COST_MODEL` returns the same value
and leaves the same allocator counters; only the costs may differ.

Softfork guards are treated as black boxes (`C31.guard_program_complete`, from the frame theorem of
`Lemmas/Interp/BigStep.lean`): inside a guard the two runs need not be in lock-step — extension 0 is
`Bls` in the old model and the cost-exempt `PreHardFork` in the new one, so opcode 62 is an unknown
operator in one run and keccak256 in the other, the guard costs differ and so do the declared-cost
checks — but both runs succeeded, so each outermost guard completed in each run, and a completed guard
leaves nil and the counters of its entry.  Nested guards are inside the black box.

Hypotheses on the operators outside the core table are those of the partial theorem plus `OpWf`
(well-formed results, heap limit kept; proved for `cryptoExtra` in `Lemmas/Interp/HideCrypto.lean`,
`cryptoExtra_wf`), which makes the heap limit constant along a run; `p.wf` / `e.wf` hold for every value
built by `node_from_bytes` (`Val.ofTree`). -/
theorem whole_program_value_model (cfg : Cfg) (extra : String → Option OpFn)
    (hmi : ∀ name f, extra name = some f → OpModelIndep f)
    (hre : ∀ name f, extra name = some f → OpRestrict f)
    (hwf : ∀ name f, extra name = some f → OpWf f)
    (F : Nat) (hF : hasFlag F Gen.FLAG_NEW_COST_MODEL = false)
    {fuel1 fuel2 : Nat} {c0 : Ctr} {p e : Val} {M1 M2 : Nat} (hp : p.wf = true) (he : e.wf = true)
    {r1 r2 : Nat × Val × Ctr}
    (h1 : runProgram cfg (chiaDialect cfg extra F) fuel1 c0 p e M1 = some (.ok r1))
    (h2 : runProgram cfg (chiaDialect cfg extra (F ||| Gen.FLAG_NEW_COST_MODEL)) fuel2 c0 p e M2 = some (.ok r2)) :
    r1.2 = r2.2 :=
  eval_value_model cfg extra hmi hre hwf F hF hp he h1 h2


/-- **The dialect the crate ships** (all operators): a program that succeeds under both cost models
returns the same value and leaves the same counters — no hypothesis on operators, no flag
restriction beyond "F is an old-model flag set". -/
theorem chia_value_model (cfg : Cfg) (F : Nat) (hF : hasFlag F Gen.FLAG_NEW_COST_MODEL = false)
    {fuel1 fuel2 : Nat} {c0 : Ctr} {p e : Val} {M1 M2 : Nat} (hp : p.wf = true) (he : e.wf = true)
    {r1 r2 : Nat × Val × Ctr}
    (h1 : runProgram cfg (chiaDialect cfg cryptoExtra F) fuel1 c0 p e M1 = some (.ok r1))
    (h2 : runProgram cfg (chiaDialect cfg cryptoExtra (F ||| Gen.FLAG_NEW_COST_MODEL)) fuel2 c0 p e M2 = some (.ok r2)) :
    r1.2 = r2.2 :=
  whole_program_value_model cfg cryptoExtra cryptoExtra_modelIndep cryptoExtra_restrict cryptoExtra_wf F hF hp he h1 h2

end Clvm.Props.C11
