/-
C01 — the interpreter agrees with the historical reference CLVM (the Python `clvm` package) on the
classic operator set, up to the named adapters of `ClvmModel/Spec/Ref.lean`.

* reference: `Clvm.Ref` (`Spec/RefOps.lean`: operators in the style of `core_ops.py`/`more_ops.py`;
  `Spec/Ref.lean`: `run_program`'s op-stack machine and the adapters);
* implementation model: `Clvm.Interp` (frozen; in differential correspondence with the crate);
* `Ref.OpAgree m mo ro` (`Lemmas/RefBase.lean`) is "same cost, same value, fail together" for one
  operator call under remaining budget `m`, with the two possibilities that are not semantic
  differences spelled out (`CostExceeded` from the early exit when the cost exceeds `m`,
  an allocator limit).
Lemmas live in `ClvmProofs/Lemmas/Ref*.lean`; this file only states the property's theorems.
-/
import ClvmProofs.Lemmas.RefOps
import ClvmProofs.Lemmas.RefLoops
import ClvmProofs.Lemmas.RefBits
import ClvmProofs.Lemmas.RefUnknown
import ClvmProofs.Lemmas.RefPath
import ClvmProofs.Lemmas.RefMachine
import ClvmProofs.Lemmas.RefSim
import ClvmProofs.Lemmas.RefNarrow

namespace Clvm.Props.C01
open Clvm Clvm.Interp Clvm.Ref

/-! ### constants: the values extracted from the Rust sources are the reference's (`costs.py`) -/

theorem const_core :
    Gen.IF_COST = Ref.IF_COST ∧ Gen.CONS_COST = Ref.CONS_COST ∧ Gen.FIRST_COST = Ref.FIRST_COST ∧
    Gen.REST_COST = Ref.REST_COST ∧ Gen.LISTP_COST = Ref.LISTP_COST ∧
    Gen.EQ_BASE_COST = Ref.EQ_BASE_COST ∧ Gen.EQ_COST_PER_BYTE = Ref.EQ_COST_PER_BYTE := by decide

theorem const_arith :
    Gen.ARITH_BASE_COST = Ref.ARITH_BASE_COST ∧ Gen.ARITH_COST_PER_ARG = Ref.ARITH_COST_PER_ARG ∧
    Gen.ARITH_COST_PER_BYTE = Ref.ARITH_COST_PER_BYTE ∧
    Gen.MUL_BASE_COST = Ref.MUL_BASE_COST ∧ Gen.MUL_COST_PER_OP = Ref.MUL_COST_PER_OP ∧
    Gen.MUL_LINEAR_COST_PER_BYTE = Ref.MUL_LINEAR_COST_PER_BYTE ∧
    Gen.MUL_SQUARE_COST_PER_BYTE_DIVIDER = Ref.MUL_SQUARE_COST_PER_BYTE_DIVIDER ∧
    Gen.DIV_BASE_COST = Ref.DIV_BASE_COST ∧ Gen.DIV_COST_PER_BYTE = Ref.DIV_COST_PER_BYTE ∧
    Gen.DIVMOD_BASE_COST = Ref.DIVMOD_BASE_COST ∧ Gen.DIVMOD_COST_PER_BYTE = Ref.DIVMOD_COST_PER_BYTE ∧
    Gen.GR_BASE_COST = Ref.GR_BASE_COST ∧ Gen.GR_COST_PER_BYTE = Ref.GR_COST_PER_BYTE ∧
    Gen.MALLOC_COST_PER_BYTE = Ref.MALLOC_COST_PER_BYTE := by decide

theorem const_bits :
    Gen.LOG_BASE_COST = Ref.LOG_BASE_COST ∧ Gen.LOG_COST_PER_ARG = Ref.LOG_COST_PER_ARG ∧
    Gen.LOG_COST_PER_BYTE = Ref.LOG_COST_PER_BYTE ∧
    Gen.LOGNOT_BASE_COST = Ref.LOGNOT_BASE_COST ∧ Gen.LOGNOT_COST_PER_BYTE = Ref.LOGNOT_COST_PER_BYTE ∧
    Gen.ASHIFT_BASE_COST = Ref.ASHIFT_BASE_COST ∧ Gen.ASHIFT_COST_PER_BYTE = Ref.ASHIFT_COST_PER_BYTE ∧
    Gen.LSHIFT_BASE_COST = Ref.LSHIFT_BASE_COST ∧ Gen.LSHIFT_COST_PER_BYTE = Ref.LSHIFT_COST_PER_BYTE ∧
    Gen.BOOL_BASE_COST = Ref.BOOL_BASE_COST ∧ Gen.BOOL_COST_PER_ARG = Ref.BOOL_COST_PER_ARG := by decide

theorem const_bytes :
    Gen.GRS_BASE_COST = Ref.GRS_BASE_COST ∧ Gen.GRS_COST_PER_BYTE = Ref.GRS_COST_PER_BYTE ∧
    Gen.SHA256_BASE_COST = Ref.SHA256_BASE_COST ∧ Gen.SHA256_COST_PER_ARG = Ref.SHA256_COST_PER_ARG ∧
    Gen.SHA256_COST_PER_BYTE = Ref.SHA256_COST_PER_BYTE ∧
    Gen.STRLEN_BASE_COST = Ref.STRLEN_BASE_COST ∧ Gen.STRLEN_COST_PER_BYTE = Ref.STRLEN_COST_PER_BYTE ∧
    Gen.CONCAT_BASE_COST = Ref.CONCAT_BASE_COST ∧ Gen.CONCAT_COST_PER_ARG = Ref.CONCAT_COST_PER_ARG ∧
    Gen.CONCAT_COST_PER_BYTE = Ref.CONCAT_COST_PER_BYTE := by decide

/-- the evaluator's own constants: quote, apply, the literal `1` per operator application, path
lookup (`PATH_LOOKUP_*` in `costs.py`, `TRAVERSE_*` in `traverse_path.rs`), and the keywords -/
theorem const_eval :
    Gen.QUOTE_COST = Ref.QUOTE_COST ∧ Gen.APPLY_COST = Ref.APPLY_COST ∧
    Gen.OP_COST = Ref.EVAL_OPERANDS_COST ∧
    Gen.TRAVERSE_BASE_COST = Ref.PATH_LOOKUP_BASE_COST ∧
    Gen.TRAVERSE_COST_PER_BIT = Ref.PATH_LOOKUP_COST_PER_LEG ∧
    Gen.TRAVERSE_COST_PER_ZERO_BYTE = Ref.PATH_LOOKUP_COST_PER_ZERO_BYTE ∧
    Gen.chia_quote_kw = 1 ∧ Gen.chia_apply_kw = 2 ∧ Gen.chia_softfork_kw = 36 := by decide

/-- the classic opcodes are dispatched to the same operators by both tables: for every classic
opcode with an operator function, `ChiaDialect::op`'s table (generated) names the function the
reference's `KEYWORD_TO_ATOM` assigns -/
theorem dispatch_table :
    Gen.chiaOpTable.filter (fun e => e.1 ≤ 36) =
      [(3, "op_if", 0), (4, "op_cons", 0), (5, "op_first", 0), (6, "op_rest", 0), (7, "op_listp", 0),
       (8, "op_raise", 0), (9, "op_eq", 0), (10, "op_gr_bytes", 0), (11, "op_sha256", 0),
       (12, "op_substr", 0), (13, "op_strlen", 0), (14, "op_concat", 0), (16, "op_add", 0),
       (17, "op_subtract", 0), (18, "op_multiply", 0), (19, "op_div", 0), (20, "op_divmod", 0),
       (21, "op_gr", 0), (22, "op_ash", 0), (23, "op_lsh", 0), (24, "op_logand", 0), (25, "op_logior", 0),
       (26, "op_logxor", 0), (27, "op_lognot", 0), (29, "op_point_add", 0), (30, "op_pubkey_for_exp", 0),
       (32, "op_not", 0), (33, "op_any", 0), (34, "op_all", 0)] := by decide

/-! ### per-operator agreement (`ref_op_eq_<op>`)

For every well-formed argument value `a` (any representation tags; `Val.ofTree args` is one),
every remaining budget `m` and every allocator state `c`, under default flags (`0`) and the default
build (`{}`), the model operator and the reference operator on the erased tree agree in the sense of
`OpAgree`.  `Proper a` (the list ends in nil — true of every evaluated operand list) is needed
exactly by the operators whose reference version iterates with `as_iter`. -/

theorem ref_op_eq_i (m : Nat) (a : Val) (c : Ctr) (hw : a.wf = true) :
    OpAgree m (Interp.opIf 0 m a c) (Ref.opIf a.erase) := opIf_agree m a c hw

theorem ref_op_eq_c (m : Nat) (a : Val) (c : Ctr) (hw : a.wf = true) :
    OpAgree m (Interp.opCons 0 m a c) (Ref.opCons a.erase) := opCons_agree m a c hw

theorem ref_op_eq_f (m : Nat) (a : Val) (c : Ctr) (hw : a.wf = true) :
    OpAgree m (Interp.opFirst 0 m a c) (Ref.opFirst a.erase) := opFirst_agree m a c hw

theorem ref_op_eq_r (m : Nat) (a : Val) (c : Ctr) (hw : a.wf = true) :
    OpAgree m (Interp.opRest 0 m a c) (Ref.opRest a.erase) := opRest_agree m a c hw

theorem ref_op_eq_l (m : Nat) (a : Val) (c : Ctr) (hw : a.wf = true) :
    OpAgree m (Interp.opListp 0 m a c) (Ref.opListp a.erase) := opListp_agree m a c hw

theorem ref_op_eq_x (m : Nat) (a : Val) (c : Ctr) :
    OpAgree m (Interp.opRaise 0 m a c) (Ref.opRaise a.erase) := opRaise_agree m a c

theorem ref_op_eq_eq (m : Nat) (a : Val) (c : Ctr) (hw : a.wf = true) :
    OpAgree m (Interp.opEq 0 m a c) (Ref.opEq a.erase) := opEq_agree m a c hw

theorem ref_op_eq_gr_bytes (m : Nat) (a : Val) (c : Ctr) (hw : a.wf = true) (hp : Proper a) :
    OpAgree m (Interp.opGrBytes 0 m a c) (Ref.opGrBytes a.erase) := opGrBytes_agree m a c hw hp

theorem ref_op_eq_strlen (m : Nat) (a : Val) (c : Ctr) (hw : a.wf = true) :
    OpAgree m (Interp.opStrlen 0 m a c) (Ref.opStrlen a.erase) := opStrlen_agree m a c hw

theorem ref_op_eq_gr (m : Nat) (a : Val) (c : Ctr) (hw : a.wf = true) (hp : Proper a) :
    OpAgree m (Interp.opGr {} 0 m a c) (Ref.opGr a.erase) := opGr_agree m a c hw hp

theorem ref_op_eq_logand (m : Nat) (a : Val) (c : Ctr) (hw : a.wf = true) (hp : Proper a) :
    OpAgree m (Interp.opLogand 0 m a c) (Ref.opLogand a.erase) := opLogand_agree m a c hw hp

theorem ref_op_eq_logior (m : Nat) (a : Val) (c : Ctr) (hw : a.wf = true) (hp : Proper a) :
    OpAgree m (Interp.opLogior 0 m a c) (Ref.opLogior a.erase) := opLogior_agree m a c hw hp

theorem ref_op_eq_logxor (m : Nat) (a : Val) (c : Ctr) (hw : a.wf = true) (hp : Proper a) :
    OpAgree m (Interp.opLogxor 0 m a c) (Ref.opLogxor a.erase) := opLogxor_agree m a c hw hp

theorem ref_op_eq_lognot (m : Nat) (a : Val) (c : Ctr) (hw : a.wf = true) (hp : Proper a) :
    OpAgree m (Interp.opLognot 0 m a c) (Ref.opLognot a.erase) := opLognot_agree m a c hw hp

theorem ref_op_eq_not (m : Nat) (a : Val) (c : Ctr) (hw : a.wf = true) (hp : Proper a) :
    OpAgree m (Interp.opNot 0 m a c) (Ref.opNot a.erase) := opNot_agree m a c hw hp

/-- `/` against the reference's `op_div` **through `Adapter.floorDiv`** -/
theorem ref_op_eq_div (m : Nat) (a : Val) (c : Ctr) (hw : a.wf = true) (hp : Proper a) :
    OpAgree m (Interp.opDiv 0 m a c) (Adapter.floorDiv a.erase) := opDiv_agree m a c hw hp

theorem ref_op_eq_divmod (m : Nat) (a : Val) (c : Ctr) (hw : a.wf = true) (hp : Proper a) :
    OpAgree m (Interp.opDivmod 0 m a c) (Ref.opDivmod a.erase) := opDivmod_agree m a c hw hp

theorem ref_op_eq_any (m : Nat) (a : Val) (c : Ctr) (hw : a.wf = true) (hp : Proper a) :
    OpAgree m (Interp.opAny 0 m a c) (Ref.opAny a.erase) := opAny_agree m a c hw hp

theorem ref_op_eq_all (m : Nat) (a : Val) (c : Ctr) (hw : a.wf = true) (hp : Proper a) :
    OpAgree m (Interp.opAll 0 m a c) (Ref.opAll a.erase) := opAll_agree m a c hw hp

theorem ref_op_eq_substr (m : Nat) (a : Val) (c : Ctr) (hw : a.wf = true) (hp : Proper a) :
    OpAgree m (Interp.opSubstr 0 m a c) (Ref.opSubstr a.erase) := opSubstr_agree m a c hw hp

theorem ref_op_eq_ash (m : Nat) (a : Val) (c : Ctr) (hw : a.wf = true) (hp : Proper a) :
    OpAgree m (Interp.opAsh 0 m a c) (Ref.opAsh a.erase) := opAsh_agree m a c hw hp

theorem ref_op_eq_lsh (m : Nat) (a : Val) (c : Ctr) (hw : a.wf = true) (hp : Proper a) :
    OpAgree m (Interp.opLsh 0 m a c) (Ref.opLsh a.erase) := opLsh_agree m a c hw hp

theorem ref_op_eq_sha256 (m : Nat) (a : Val) (c : Ctr) (hw : a.wf = true) (hp : Proper a) :
    OpAgree m (Interp.opSha256 {} 0 m a c) (Ref.opSha256 a.erase) := opSha256_agree m a c hw hp

theorem ref_op_eq_concat (m : Nat) (a : Val) (c : Ctr) (hw : a.wf = true) (hp : Proper a) :
    OpAgree m (Interp.opConcat 0 m a c) (Ref.opConcat a.erase) := opConcat_agree m a c hw hp

theorem ref_op_eq_add (m : Nat) (a : Val) (c : Ctr) (hw : a.wf = true) (hp : Proper a) :
    OpAgree m (Interp.opAdd {} 0 m a c) (Ref.opAdd a.erase) := opAdd_agree m a c hw hp

theorem ref_op_eq_subtract (m : Nat) (a : Val) (c : Ctr) (hw : a.wf = true) (hp : Proper a) :
    OpAgree m (Interp.opSubtract {} 0 m a c) (Ref.opSubtract a.erase) := opSubtract_agree m a c hw hp

theorem ref_op_eq_multiply (m : Nat) (a : Val) (c : Ctr) (hw : a.wf = true) (hp : Proper a) :
    OpAgree m (Interp.opMultiply {} 0 m a c) (Ref.opMultiply a.erase) := opMultiply_agree m a c hw hp

/-- **the unknown-operator rule** (`_partial`: outside the region of finding B).  For every operator
atom, argument list (nil-terminated), 64-bit budget: `unknown_operator` under default flags and the
reference's `default_unknown_op` agree — reserved / invalid opcodes, the four cost functions over the
argument sizes, the multiplier, the `2^32` cap — provided the product `base · (multiplier + 1)`,
computed the reference's way, is below `2^64`.  In the excluded region the pre-hard-fork `op_unknown`
multiplies with `wrapping_mul` and can return a small cost where the reference raises "invalid
operator" (DESIGN §6-B, C09 `unknown_wrap_witness`). -/
theorem ref_op_eq_unknown_partial (ob : Bytes) (m : Nat) (al : Val) (c : Ctr) (hp : Proper al) (hm : m < 2 ^ 64)
    (hnw : ∀ cost, unknownBaseCost (unknownCostFunction ob) al.erase = .ok cost →
      cost * unknownCostMultiplier ob < 2 ^ 64) :
    OpAgree m (unknownOperator ob al 0 m c) (defaultUnknownOp ob al.erase) :=
  unknown_agree ob m al c hp hm hnw

/-! ### environment paths -/

/-- **`path_eq`**: for every path atom (any bytes: leading zero bytes, empty, arbitrary length) and
every environment, `traverse_path` of the implementation model and of the reference return the same
cost and the same sub-tree, and fail with "path into atom" together. -/
theorem path_eq (b : Bytes) (env : Val) :
    PathAgree (Interp.traversePath b env) (Ref.traversePath b env.erase) := path_agree b env

/-- the fast path (`traverse_path_fast`, taken for inline small atoms) is the same function, so the
agreement holds for the path lookup the evaluator actually performs -/
theorem path_eq_fast (b : Bytes) (h : (Val.atom b true).wf = true) (env : Val) :
    PathAgree (Interp.traversePathFast (Alloc.beNat b) env) (Ref.traversePath b env.erase) := by
  rw [traverse_fast_wf b h env]; exact path_agree b env

/-! ### adapters -/

/-- `Adapter.floorDiv` changes the reference's `/` exactly where the floor quotient is `-1` with a
non-zero remainder -/
theorem floorDiv_region (args : Tree) :
    Adapter.floorDiv args = Ref.opDiv args ∨
    ∃ i0 l0 i1 l1, argsAsIntList args 2 = .ok [(i0, l0), (i1, l1)] ∧ i1 ≠ 0 ∧
      Int.fdiv i0 i1 = -1 ∧ Int.fmod i0 i1 ≠ 0 := Ref.floorDiv_region args

/-! ### whole runs

`Ref.Statement` (`Lemmas/RefMachine.lean`) is the property at machine level: for every program,
environment and budget, whenever both machines terminate, the adapted reference stays inside the
classic operator set and the model hits no allocator limit, both succeed with the same cost and
tree or both fail.  It is **false of the current crate** (finding `C01-lenient-lists`): -/

/-- `((16 . 5))` is rejected by the Python and by the adapted reference … -/
theorem C01_witness_reference :
    Ref.run 100 witness1 (.atom []) none = some (.error .arg) ∧
    adaptedRun false 100 witness1 (.atom []) 0 = some (.error .arg) ∧
    Ref.run 100 witness2 (.atom []) none = some (.error .arg) ∧
    adaptedRun false 100 witness2 (.atom []) 0 = some (.error .arg) :=
  ⟨witness1_python, witness1_adapted, witness2_python, witness2_adapted⟩

/-- … and evaluated by the implementation model: `((16 . 5))` ↦ `0` at cost 189,
`((16) 1 2 . 3)` ↦ `3` at cost 845 (the crate returns the same: oracle `ref_findings`) -/
theorem C01_witness_model :
    (modelRun 100 witness1 (.atom []) 0).map (fun r => r.map (fun x => (x.1, x.2.1.erase))) =
      some (.ok (189, .atom [])) ∧
    (modelRun 100 witness2 (.atom []) 0).map (fun r => r.map (fun x => (x.1, x.2.1.erase))) =
      some (.ok (845, .atom [3])) := ⟨witness1_model, witness2_model⟩

/-- hence the full statement fails -/
theorem C01_witness : ¬ Ref.Statement := not_statement

/-- **`C01_main_partial`**: the machine-level statement (with either reading of operand lists)
for every program that is evaluated by a single `eval` step — an environment path (any atom,
any environment) or a quotation `(q . x)` — under every budget: same cost and same tree, or both
fail (`CostExceeded` / "cost exceeded", `PathIntoAtom` / "path into atom").

What is missing for the full `StatementFor true` (and for `Statement` outside the defect region):
the simulation between `Interp.runLoop` (separate environment stack, `SwapEval`/`Cons`/`Apply`)
and `Ref.runLoop` (`(operand . env)` pairs on the value stack, `swap`/`eval`/`cons`/`apply`) for
programs with operator applications — an induction on fuel with the invariant "value stacks
correspond, the reference's pending `(x . env)` entries are the model's pending operands under
the top environment" — into which the per-operator theorems `ref_op_eq_*`, `path_eq` and the two
one-step cases below plug; plus `ref_op_eq_*` for the operators not yet proved (see the evidence). -/
theorem C01_main_partial (lenient : Bool) (prog env : Tree) (h1 : OneStep prog) (budget fuel fuel' : Nat)
    (mo : Except Err (Nat × Val × Ctr)) (ro : Res)
    (hm : modelRun (fuel + 1) prog env budget = some mo)
    (hr : adaptedRun lenient (fuel' + 2) prog env budget = some ro) : SameOutcome mo ro :=
  one_step_agree lenient prog env h1 budget fuel fuel' mo ro hm hr

/-- **`C01_main_guards_partial`**: whole programs, every 64-bit budget (`0` = unlimited), any fuel on
either side, against the adapted reference with the **lenient** reading of operand lists
(`Adapter.lenientOperandLists`, i.e. what the crate does — finding `C01-lenient-lists` — so that the
`((X) . operands)` form is inside), **softfork guards included**: opcode 36 is read by both machines
alike (declared cost: at most 8 bytes, not zero, within the budget in force; a malformed or unknown
extension charges the declared cost and returns nil), a guard with extension 0 is entered by both
(`Adapter.softforkGuard`: declared total on the guard stack, `exit_guard` pending, the guarded program
evaluated at once, `GUARD_COST` added; inside it the declared total is the budget, the operator set is
the classic one, nested guards are allowed; at `exit_guard` both require the exact cost, else
"softfork specified cost mismatch", and replace the value by nil).

The only restrictions of the reference's *domain* (`coreAd`, each a named definition in
`Spec/Ref.lean`):
* `Adapter.guardsOf (· == 0)` — entering a guard of another *known* extension (under default flags only
  extension 1, the keccak set) is outside: opcode 62 is not a classic operator;
* `Adapter.restrictCalls exclCall` — a call of an unknown operator inside the region of finding B (cost
  product `base · (multiplier + 1) ≥ 2^64`, where the pre-hard-fork `op_unknown` wraps) is outside;
* `Adapter.newOperators` (as in the REF stream) — the operators assigned by later consensus changes
  (29, 30, 48–61, the 4-byte secp opcodes) are outside C01.
Whenever both machines terminate they succeed with the same cost and the same tree, or both fail —
unless the reference left that domain or hit the adapted stack limit (`BadR`), or the model hit an
allocator or stack limit or an operator it does not implement (`BadM`).

Proof: a lockstep simulation between the two op-stack machines (`Lemmas/RefSim.lean`): both are
described by the same continuation — a list of call frames and guard frames — in one of two positions;
"value produced" (`Cons` / `cons`, `ExitGuard` / `exit_guard`, end of the run), "next operand"
(`SwapEval` / `swap; eval`, through `eval_agree`: paths by `path_eq`, quotations, operator-call entry
with the nil-terminator check, the `((X) …)` form) and "apply" (`(a P E)`: `apply; eval` against
`apply_op`'s immediate `eval_pair`; opcode 36: `softfork_agree`; ordinary operators: the two dispatch
tables against each other, `dispatch_agree`, where the `ref_op_eq_*` theorems and the unknown-operator
rule plug in; the operators of the model do not look at the terminator of their argument list,
`Lemmas/RefTerm.lean`).  The budget in force on both sides is the innermost guard's declared total
(`effMax` / `effective_max`), else the program's budget.

This subsumes the former `C01_main_lenient_partial` (domain `Adapter.noGuards`: every run applying
opcode 36 outside).  What is missing for the full `StatementFor true`: nothing inside the classic
operator set except the region of finding B — see `C01_statement_fragment` for the restatement. -/
theorem C01_main_guards_partial (prog env : Tree) (budget fuel fuel' : Nat) (hb : budget < 2 ^ 64)
    (ro : Res) (mo : Except Err (Nat × Val × Ctr))
    (hr : Ref.runWith coreAd fuel' prog env (Adapter.u64Budget budget) = some ro)
    (hm : modelRun fuel prog env budget = some mo) : RunOut ro mo :=
  core_run_agree prog env budget fuel fuel' hb ro mo hr hm

/-- the run stays inside the domain of `C01_main_guards_partial`: no guard of an extension other than 0
is entered, no unknown operator is called inside the region of finding B (and no later-assigned
operator is applied) -/
def InDomain (fuel : Nat) (prog env : Tree) (budget : Nat) : Prop :=
  Ref.runWith coreAd fuel prog env (Adapter.u64Budget budget) ≠ some (.error .outOfDomain)

/-- **the bridge**: the domain restrictions do nothing but end a run with `outOfDomain`
(`Lemmas/RefNarrow.lean`) — inside the domain the run of `coreAd` *is* the run of the REF stream's
reference `adaptedRun true` -/
theorem C01_domain_bridge (fuel : Nat) (prog env : Tree) (budget : Nat) (hdom : InDomain fuel prog env budget) :
    Ref.runWith coreAd fuel prog env (Adapter.u64Budget budget) = adaptedRun true fuel prog env budget :=
  coreAd_bridge fuel prog env budget hdom

/-- in general: under the restricted adapters a run is the unrestricted run or ends in `outOfDomain` -/
theorem C01_domain_only_narrows (fuel : Nat) (prog env : Tree) (budget : Nat) :
    Ref.runWith coreAd fuel prog env (Adapter.u64Budget budget) = adaptedRun true fuel prog env budget ∨
    Ref.runWith coreAd fuel prog env (Adapter.u64Budget budget) = some (.error .outOfDomain) :=
  coreAd_narrows.runWith fuel prog env (Adapter.u64Budget budget)

/-- **`C01_statement_fragment`**: `C01_main_guards_partial` restated in the shape of
`StatementFor true` — model run against `adaptedRun true` (the adapters of the REF stream), conclusion
`SameOutcome` — with the remaining exclusions as explicit hypotheses: 64-bit budget, the run is
`InDomain`, the reference did not hit the adapted stack limit (the two machines count stack entries
differently: `(operand . env)` pairs against a separate environment stack), the model did not stop at
an allocator limit or one of its two stack limits. -/
theorem C01_statement_fragment (prog env : Tree) (budget fuel fuel' : Nat) (hb : budget < 2 ^ 64)
    (mo : Except Err (Nat × Val × Ctr)) (ro : Res)
    (hm : modelRun fuel prog env budget = some mo)
    (hr : adaptedRun true fuel' prog env budget = some ro)
    (hdom : InDomain fuel' prog env budget)
    (hstack : ro ≠ .error .stack)
    (hlim : ∀ e, mo = .error e → ¬ BadM (.err e)) : SameOutcome mo ro := by
  have hbr := coreAd_bridge fuel' prog env budget hdom
  have hr' : Ref.runWith coreAd fuel' prog env (Adapter.u64Budget budget) = some ro := by rw [hbr]; exact hr
  have hout := core_run_agree prog env budget fuel fuel' hb ro mo hr' hm
  cases ro with
  | ok r =>
    obtain ⟨c, t⟩ := r
    cases mo with
    | ok r' =>
      obtain ⟨c', v, ctr⟩ := r'
      exact ⟨hout.1.symm, hout.2⟩
    | error e' => exact absurd hout (hlim e' rfl)
  | error e =>
    cases mo with
    | ok r' =>
      rcases hout with h | h
      · subst h; exact absurd hr' hdom
      · subst h; exact absurd rfl hstack
    | error e' => trivial

/-- the witnesses of finding `C01-lenient-lists` are inside this domain (and agree) -/
example : Ref.runWith coreAd 100 witness1 (.atom []) (Adapter.u64Budget 0) = some (.ok (189, .atom [])) := by rfl
example : Ref.runWith coreAd 100 witness2 (.atom []) (Adapter.u64Budget 0) = some (.ok (845, .atom [3])) := by rfl

/-- the domain is not empty: `(+ (q . 2) (* 1 (q . 3)))` in the environment `7` stays inside it and
evaluates to `23` at cost 1840 -/
example : Ref.runWith coreAd 100
    (.pair (.atom [16]) (.pair (.pair (.atom [1]) (.atom [2]))
      (.pair (.pair (.atom [18]) (.pair (.atom [1]) (.pair (.pair (.atom [1]) (.atom [3])) (.atom [])))) (.atom []))))
    (.atom [7]) (Adapter.u64Budget 0) = some (.ok (1840, .atom [23])) := by rfl

/-- `(softfork (q . cost) (q . ext) (q . prog) (q . ()))` -/
def guardProgram (cost ext : Bytes) (prog : Tree) : Tree :=
  Tree.ofList [.atom [36], .pair (.atom [1]) (.atom cost), .pair (.atom [1]) (.atom ext),
    .pair (.atom [1]) prog, .pair (.atom [1]) (.atom [])]

set_option maxRecDepth 8000 in
/-- guards are inside the domain: `(softfork (q . 160) (q . 0) (q . (q . 1)) (q . ()))` declares the
right cost (quote 20 + guard 140) and evaluates to nil at cost 241 on both sides … -/
example : Ref.runWith coreAd 100 (guardProgram [0, 160] [] (.pair (.atom [1]) (.atom [1]))) (.atom [])
    (Adapter.u64Budget 0) = some (.ok (241, .atom [])) := by rfl
example : (modelRun 100 (guardProgram [0, 160] [] (.pair (.atom [1]) (.atom [1]))) (.atom []) 0).map
    (fun r => r.map (fun x => (x.1, x.2.1.erase))) = some (.ok (241, .atom [])) := by rfl
set_option maxRecDepth 8000 in
/-- … a wrong declaration fails on both sides at `exit_guard` … -/
example : Ref.runWith coreAd 100 (guardProgram [0, 161] [] (.pair (.atom [1]) (.atom [1]))) (.atom [])
    (Adapter.u64Budget 0) = some (.error .softfork) := by rfl
set_option maxRecDepth 8000 in
/-- … guards nest (the outer one declares 241 + 140 = 381 = `0x017d`) … -/
example : Ref.runWith coreAd 100
    (guardProgram [1, 125] [] (guardProgram [0, 160] [] (.pair (.atom [1]) (.atom [1])))) (.atom [])
    (Adapter.u64Budget 0) = some (.ok (462, .atom [])) := by rfl
set_option maxRecDepth 8000 in
/-- … and a guard with extension 1 (the keccak set) is the named exclusion `Adapter.guardsOf` -/
example : Ref.runWith coreAd 100 (guardProgram [0, 160] [1] (.pair (.atom [1]) (.atom [1]))) (.atom [])
    (Adapter.u64Budget 0) = some (.error .outOfDomain) := by rfl
set_option maxRecDepth 8000 in
example : adaptedRun true 100 (guardProgram [0, 160] [1] (.pair (.atom [1]) (.atom [1]))) (.atom []) 0
    = some (.ok (241, .atom [])) := by rfl

example : OneStep (.atom [0, 0, 11]) := trivial
example : OneStep (.pair (.atom [1]) (.atom [7])) := rfl

/-- the hypotheses are satisfiable by every tree: `Val.ofTree args` is well-formed and erases to
`args`; a nil-terminated list is `Proper` -/
example (args : Tree) : (Val.ofTree args).wf = true ∧ (Val.ofTree args).erase = args :=
  ⟨ofTree_wf args, ofTree_erase args⟩

example : Proper (Val.ofTree (Tree.ofList [.atom [1], .atom [2]])) := rfl

end Clvm.Props.C01
