/-
C02 — the cost budget is sound, monotone and tight.

Model: `ClvmModel/Interp/Machine.lean` (`runLoop`, `runProgram`).  The per-operator budget lemmas
(`OpBudget`) and their lifting to whole runs are added as they are completed
(`ClvmProofs/Lemmas/Interp/Budget*.lean`).
-/
import ClvmProofs.Lemmas.Interp.MachineBase

namespace Clvm.Props.C02
open Clvm Clvm.Interp

/-- **A budget of 0 means unlimited**: `run_program(…, 0)` is `run_program(…, u64::MAX)`. -/
theorem budget_zero_unlimited (cfg : Cfg) (d : Dialect) (fuel : Nat) (c0 : Ctr) (p e : Val) :
    runProgram cfg d fuel c0 p e 0 = runProgram cfg d fuel c0 p e U64_MAX := by
  unfold runProgram
  have h1 : ((0 : Nat) == 0) = true := rfl
  have h2 : (U64_MAX == 0) = false := by decide
  simp only [h1, h2, if_true]
  rfl

/-- **Sound (loop level).** Whenever the main loop finishes, the accumulated cost is within the
limit in force at that point (the budget, or the enclosing guard's expected cost). -/
theorem loop_cost_le (cfg : Cfg) (d : Dialect) (mc : Nat) (fuel : Nat) :
    ∀ (s : MState) (cost : Nat) (cost' : Nat) (s' : MState),
      runLoop cfg d mc fuel s cost = some (.ok (cost', s')) → cost' ≤ effMax mc s' := by
  induction fuel with
  | zero => intro s cost cost' s' h; simp [runLoop_zero] at h
  | succ n ih =>
    intro s cost cost' s' h
    rw [runLoop_succ] at h
    unfold loopBody at h
    by_cases hc : cost > effMax mc s
    · simp [hc] at h
    · simp only [hc, if_false] at h
      cases hop : s.opStack with
      | nil =>
        rw [hop] at h
        simp only [Option.some.injEq, Except.ok.injEq, Prod.mk.injEq] at h
        obtain ⟨rfl, rfl⟩ := h
        omega
      | cons op ops =>
        rw [hop] at h
        simp only at h
        cases hst : stepOp cfg d { s with opStack := ops } op cost (effMax mc s) with
        | error e => rw [hst] at h; simp at h
        | ok r =>
          obtain ⟨c, s1⟩ := r
          rw [hst] at h
          exact ih s1 (cost + c) cost' s' h

/-- **Sound.** A run that succeeds under budget `M` (`M = 0` meaning `u64::MAX`) with no softfork
guard left open reports a cost of at most `M`. -/
theorem run_cost_le (cfg : Cfg) (d : Dialect) (mc fuel : Nat) (s : MState) (cost cost' : Nat) (s' : MState)
    (h : runLoop cfg d mc fuel s cost = some (.ok (cost', s'))) (hsf : s'.softforkStack = []) :
    cost' ≤ mc := by
  have := loop_cost_le cfg d mc fuel s cost cost' s' h
  simpa [effMax, hsf] using this

/-- the loop never continues past its limit: exceeding it is reported as `CostExceeded` -/
theorem over_limit_is_cost_exceeded (cfg : Cfg) (d : Dialect) (mc fuel : Nat) (s : MState) (cost : Nat)
    (h : cost > effMax mc s) :
    runLoop cfg d mc (fuel + 1) s cost = some (.error (.err .CostExceeded)) := by
  rw [runLoop_succ]; unfold loopBody; simp [h]

end Clvm.Props.C02
