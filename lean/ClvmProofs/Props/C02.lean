/-
C02 — the cost budget is sound, monotone and tight.

Model: `ClvmModel/Interp/Machine.lean` (`runLoop`, `runProgram`).  Per-operator budget lemmas:
`Lemmas/Interp/Budget*.lean` (`coreOps_budget`, `opUnknown_budget_*`); lifting to whole runs:
`Lemmas/Interp/LiftBudget.lean` (stack-shape invariant, guard-stack relation) and `LiftChia.lean`.
`effBudget M = if M = 0 then u64::MAX else M`.  `extra` are the operators outside the core table
(the cryptographic ones); the only thing assumed about them is the per-operator shape `OpBudget`.
-/
import ClvmProofs.Lemmas.Interp.MachineBase
import ClvmProofs.Lemmas.Interp.LiftChia
import ClvmProofs.Lemmas.Interp.LiftCrypto

namespace Clvm.Props.C02
open Clvm Clvm.Interp

/-- **A budget of 0 means unlimited**: `run_program(…, 0)` is `run_program(…, u64::MAX)`. -/
theorem budget_zero_unlimited (cfg : Cfg) (d : Dialect) (fuel : Nat) (c0 : Ctr) (p e : Val) :
    runProgram cfg d fuel c0 p e 0 = runProgram cfg d fuel c0 p e U64_MAX := by
  unfold runProgram
  have h1 : ((0 : Nat) == 0) = true := rfl
  have h2 : (U64_MAX == 0) = false := by decide
  simp only [h1, h2, if_true]
  rfl

/-- **Sound (loop level).** Whenever the main loop finishes, the accumulated cost is within the
limit in force at that point (the budget, or the enclosing guard's expected cost). -/
theorem loop_cost_le (cfg : Cfg) (d : Dialect) (mc : Nat) (fuel : Nat) :
    ∀ (s : MState) (cost : Nat) (cost' : Nat) (s' : MState),
      runLoop cfg d mc fuel s cost = some (.ok (cost', s')) → cost' ≤ effMax mc s' := by
  induction fuel with
  | zero => intro s cost cost' s' h; simp [runLoop_zero] at h
  | succ n ih =>
    intro s cost cost' s' h
    rw [runLoop_succ] at h
    unfold loopBody at h
    by_cases hc : cost > effMax mc s
    · simp [hc] at h
    · simp only [hc, if_false] at h
      cases hop : s.opStack with
      | nil =>
        rw [hop] at h
        simp only [Option.some.injEq, Except.ok.injEq, Prod.mk.injEq] at h
        obtain ⟨rfl, rfl⟩ := h
        omega
      | cons op ops =>
        rw [hop] at h
        simp only at h
        cases hst : stepOp cfg d { s with opStack := ops } op cost (effMax mc s) with
        | error e => rw [hst] at h; simp at h
        | ok r =>
          obtain ⟨c, s1⟩ := r
          rw [hst] at h
          exact ih s1 (cost + c) cost' s' h

/-- **Sound.** A run that succeeds under budget `M` (`M = 0` meaning `u64::MAX`) with no softfork
guard left open reports a cost of at most `M`. -/
theorem run_cost_le (cfg : Cfg) (d : Dialect) (mc fuel : Nat) (s : MState) (cost cost' : Nat) (s' : MState)
    (h : runLoop cfg d mc fuel s cost = some (.ok (cost', s'))) (hsf : s'.softforkStack = []) :
    cost' ≤ mc := by
  have := loop_cost_le cfg d mc fuel s cost cost' s' h
  simpa [effMax, hsf] using this

/-- the loop never continues past its limit: exceeding it is reported as `CostExceeded` -/
theorem over_limit_is_cost_exceeded (cfg : Cfg) (d : Dialect) (mc fuel : Nat) (s : MState) (cost : Nat)
    (h : cost > effMax mc s) :
    runLoop cfg d mc (fuel + 1) s cost = some (.error (.err .CostExceeded)) := by
  rw [runLoop_succ]; unfold loopBody; simp [h]

/-- **Sound.** If a run succeeds under budget `M` with cost `C` then `C ≤ M` (0 = unlimited).
Every dialect, no hypothesis on operators. -/
theorem cost_within_budget {cfg : Cfg} {d : Dialect} {fuel : Nat} {c0 : Ctr} {p e : Val} {M C : Nat} {v : Val} {c : Ctr}
    (h : runProgram cfg d fuel c0 p e M = some (.ok (C, v, c))) : C ≤ effBudget M :=
  run_sound h

/-- **Upward closed, same result.** For ChiaDialect with every flag set and both cost models
(cost-exempt guards included): a success under `M` is the identical success (result, cost,
counters) under every larger budget. -/
theorem upward_closed (cfg : Cfg) (extra : String → Option OpFn)
    (hextra : ∀ name f, extra name = some f → OpBudget f) (F : Nat) {fuel : Nat} {c0 : Ctr} {p e : Val}
    {M M' : Nat} {r : Nat × Val × Ctr}
    (h : runProgram cfg (chiaDialect cfg extra F) fuel c0 p e M = some (.ok r))
    (hM : effBudget M ≤ effBudget M') : runProgram cfg (chiaDialect cfg extra F) fuel c0 p e M' = some (.ok r) :=
  chia_run_upward cfg extra hextra F h hM

/-- **Never another error.** A program that succeeds under some budget gives, under any other
budget, the identical success or `CostExceeded` — for every flag set and both cost models. -/
theorem same_or_cost_exceeded (cfg : Cfg) (extra : String → Option OpFn)
    (hextra : ∀ name f, extra name = some f → OpBudget f) (F : Nat) {fuel : Nat} {c0 : Ctr} {p e : Val}
    {M : Nat} {r : Nat × Val × Ctr}
    (h : runProgram cfg (chiaDialect cfg extra F) fuel c0 p e M = some (.ok r)) (M' : Nat) :
    runProgram cfg (chiaDialect cfg extra F) fuel c0 p e M' = some (.ok r) ∨
    runProgram cfg (chiaDialect cfg extra F) fuel c0 p e M' = some (.error .CostExceeded) :=
  chia_run_dichotomy cfg extra hextra F h M'

/-- **Tight** (partial: see below). Without cost-exempt guards (no NEW_COST_MODEL) and with
unknown operators rejected (NO_UNKNOWN_OPS, e.g. mempool mode), the succeeding budgets are exactly
those ≥ `C`: `C ≤ M'` ⇒ the identical success; `M' < C` ⇒ `CostExceeded`.
Not covered: (i) NEW_COST_MODEL, where extensions 0/1 are grandfathered guards — the property itself
exempts them; `upward_closed` and `same_or_cost_exceeded` still hold there; (ii) unknown operators
allowed under the old cost model: tightness is *false* there because `op_unknown` multiplies with
`wrapping_mul` (known finding B; `opUnknown_budget_witness` in `Lemmas/Interp/Budget.lean`). -/
theorem tight_partial (cfg : Cfg) (extra : String → Option OpFn)
    (hextra : ∀ name f, extra name = some f → OpBudget f) (F : Nat)
    (hS : hasFlag F Gen.FLAG_NO_UNKNOWN_OPS = true) (hN : hasFlag F Gen.FLAG_NEW_COST_MODEL = false)
    {fuel : Nat} {c0 : Ctr} {p e : Val} {M C : Nat} {v : Val} {c : Ctr}
    (h : runProgram cfg (chiaDialect cfg extra F) fuel c0 p e M = some (.ok (C, v, c))) (M' : Nat) :
    (C ≤ effBudget M' → runProgram cfg (chiaDialect cfg extra F) fuel c0 p e M' = some (.ok (C, v, c))) ∧
    (effBudget M' < C → runProgram cfg (chiaDialect cfg extra F) fuel c0 p e M' = some (.error .CostExceeded)) :=
  chia_run_tight_partial cfg extra hextra F hS hN h M'

/-- tightness for any dialect whose operators satisfy `OpBudget` and that has no cost-exempt
extension (the general form behind `tight_partial`) -/
theorem tight_general {cfg : Cfg} {d : Dialect} (hd : d.OpBudget) (hne : d.NoExempt) {fuel : Nat} {c0 : Ctr}
    {p e : Val} {M C : Nat} {v : Val} {c : Ctr}
    (h : runProgram cfg d fuel c0 p e M = some (.ok (C, v, c))) (M' : Nat) :
    (C ≤ effBudget M' → runProgram cfg d fuel c0 p e M' = some (.ok (C, v, c))) ∧
    (effBudget M' < C → runProgram cfg d fuel c0 p e M' = some (.error .CostExceeded)) :=
  run_tight hd hne h M'

/-- per operator: the budget shape holds for every core operator and every build … -/
theorem core_op_budget (cfg : Cfg) (name : String) (f : OpFn) (h : coreOpByName cfg name = some f) :
    OpBudget f := coreOps_budget cfg name f h

/-- … and is false for `op_unknown` under the old cost model (finding B) -/
theorem unknown_op_budget_false : ¬ OpBudget (opUnknown [0x3f, 0xff, 0xff, 0xff, 0xc0]) :=
  opUnknown_budget_witness


/-! ### The dialect the crate ships: `ChiaDialect` with *all* operators

`cryptoExtra` is the table of the cryptographic operators and `op_sha256_tree` (Interp/CryptoOps.lean);
their budget shape is proved in Lemmas/Interp/CryptoShapes*.lean, so the theorems above hold without
any hypothesis on operators. -/

/-- upward closed: every flag set, both cost models, all operators -/
theorem chia_upward_closed (cfg : Cfg) (F : Nat) {fuel : Nat} {c0 : Ctr} {p e : Val}
    {M M' : Nat} {r : Nat × Val × Ctr}
    (h : runProgram cfg (chiaDialect cfg cryptoExtra F) fuel c0 p e M = some (.ok r))
    (hM : effBudget M ≤ effBudget M') :
    runProgram cfg (chiaDialect cfg cryptoExtra F) fuel c0 p e M' = some (.ok r) :=
  crypto_run_upward cfg F h hM

/-- under any other budget the run gives the same result or `CostExceeded`, never another error -/
theorem chia_same_or_cost_exceeded (cfg : Cfg) (F : Nat) {fuel : Nat} {c0 : Ctr} {p e : Val}
    {M : Nat} {r : Nat × Val × Ctr}
    (h : runProgram cfg (chiaDialect cfg cryptoExtra F) fuel c0 p e M = some (.ok r)) (M' : Nat) :
    runProgram cfg (chiaDialect cfg cryptoExtra F) fuel c0 p e M' = some (.ok r) ∨
    runProgram cfg (chiaDialect cfg cryptoExtra F) fuel c0 p e M' = some (.error .CostExceeded) :=
  crypto_run_dichotomy cfg F h M'

/-- tight (pre-hard-fork cost model, unknown operators rejected): success exactly when the cost fits -/
theorem chia_tight_partial (cfg : Cfg) (F : Nat)
    (hS : hasFlag F Gen.FLAG_NO_UNKNOWN_OPS = true) (hN : hasFlag F Gen.FLAG_NEW_COST_MODEL = false)
    {fuel : Nat} {c0 : Ctr} {p e : Val} {M C : Nat} {v : Val} {c : Ctr}
    (h : runProgram cfg (chiaDialect cfg cryptoExtra F) fuel c0 p e M = some (.ok (C, v, c))) (M' : Nat) :
    (C ≤ effBudget M' → runProgram cfg (chiaDialect cfg cryptoExtra F) fuel c0 p e M' = some (.ok (C, v, c))) ∧
    (effBudget M' < C →
      runProgram cfg (chiaDialect cfg cryptoExtra F) fuel c0 p e M' = some (.error .CostExceeded)) :=
  crypto_run_tight_partial cfg F hS hN h M'

end Clvm.Props.C02
