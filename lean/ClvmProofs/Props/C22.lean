/-
C22 — all tree-hash implementations agree with the recursive definition
`treeHash (atom b) = sha256 (1 ‖ b)`, `treeHash (pair l r) = sha256 (2 ‖ treeHash l ‖ treeHash r)`.

Every implementation is transcribed separately in `ClvmModel/TreeHash.lean`; the theorems below
say that each transcription computes `treeHash` of the value the node denotes (`NTree.erase`),
for every node (all sizes, all sharing patterns).  Lemmas live in `ClvmProofs/Lemmas/TreeHash*.lean`.
-/
import ClvmProofs.Lemmas.TreeHash
import ClvmProofs.Lemmas.TreeHashCache
import ClvmProofs.Lemmas.TreeHashTriples
import ClvmProofs.Lemmas.TreeHashIntern

namespace Clvm.Props.C22
open Clvm Clvm.Hash Clvm.TreeHash

/-- the definition itself, as stated in the property -/
theorem treeHash_def :
    (∀ b, treeHash (.atom b) = sha256 (1 :: b)) ∧
    (∀ l r, treeHash (.pair l r) = sha256 (2 :: (treeHash l ++ treeHash r))) :=
  ⟨fun _ => rfl, fun _ _ => rfl⟩

/-- `PRECOMPUTED_HASHES` (extracted from more_ops.rs): row `i` is the tree hash of the inline atom of
value `i` — `sha256 [1]` for `i = 0` (nil) and `sha256 [1, i]` otherwise.  Kernel-evaluated SHA-256. -/
theorem precomputed_ok :
    ∀ i, i < precomputed.length → precomputed[i]? = some (treeHash (.atom (Alloc.smallBytes i))) :=
  fun _ h => precomputed_get h

/-- …and in the form of the source comment: row 0 = sha256(01), row i = sha256(01 i) for 1 ≤ i < 37. -/
theorem precomputed_rows :
    precomputed.length = 37 ∧ precomputed[0]? = some (sha256 [1]) ∧
    ∀ i, 1 ≤ i → i < 37 → precomputed[i]? = some (sha256 [1, UInt8.ofNat i]) := by
  have hl : precomputed.length = 37 := by decide
  refine ⟨hl, precomputed_get (by omega), ?_⟩
  intro i h1 h2
  rw [precomputed_get (by omega)]
  have hall : (List.range 37).all (fun i => i == 0 || Alloc.smallBytes i == [UInt8.ofNat i]) = true := by
    decide
  have : Alloc.smallBytes i = [UInt8.ofNat i] := by
    simp only [List.all_eq_true, List.mem_range] at hall
    have := hall i h2
    simp at this
    rcases this with h | h
    · omega
    · exact h
  rw [this]

/-- `tree_hash_costed`: succeeds exactly when the budget covers the specified cost, and then returns
that cost and the tree hash.  The cost is `BASE + PAIR·pairs + per_byte·Σ(len+1) + MALLOC·32` over the
expanded tree — a function of the denoted value only, hence independent of sharing and of the
inline/heap representation of atoms. -/
theorem costed_eq_treeHash (newModel : Bool) (budget : Nat) (t : NTree) (hv : t.Valid) :
    treeHashCosted newModel budget t =
      if costSpec newModel t.erase ≤ budget then .ok (costSpec newModel t.erase, treeHash t.erase)
      else .error .CostExceeded :=
  treeHashCosted_eq newModel budget t hv

/-- the cost in closed form (C10's `sha256tree` formula), constants as extracted -/
theorem costed_cost_formula (newModel : Bool) (t : Tree) :
    costSpec newModel t =
      Gen.thBaseCost + Gen.thPairCost * t.pairs
        + (if newModel then Gen.thNewCostPerByte else Gen.thCostPerByte) * (sumLen t + t.atoms)
        + Gen.thMallocCostPerByte * Gen.thMallocBytes := by
  simp only [costSpec, nodeCost_eq]; omega

/-- the extracted constants are the documented ones (docs/sha256tree.md): 270, 460, 2 / 6, 10·32 -/
theorem cost_constants :
    Gen.thBaseCost = 270 ∧ Gen.thPairCost = 460 ∧ Gen.thCostPerByte = 2 ∧ Gen.thNewCostPerByte = 6 ∧
    Gen.thMallocCostPerByte * Gen.thMallocBytes = 320 := by decide

/-- the `sha256tree` operator on a one-element argument list `(n . atom)` is `tree_hash_costed n` -/
theorem op_eq_treeHash (newModel : Bool) (budget : Nat) (i : Nat) (n term : NTree) (hv : n.Valid)
    (hterm : ∀ k l r, term ≠ .pair k l r) :
    opSha256Tree newModel budget (.pair i n term) =
      if costSpec newModel n.erase ≤ budget then .ok (costSpec newModel n.erase, treeHash n.erase)
      else .error .CostExceeded := by
  rw [opSha256Tree_eq _ _ _ _ _ hterm, treeHashCosted_eq _ _ _ hv]

/-- `ObjectCache::new(treehash).get_or_calculate(a, node, None)`: for every node whose identities are
consistent (equal `NodePtr` ⇒ equal value — true in every allocator), whatever the sharing, the
result is `Some(tree hash)`; the fuel of the model is never exhausted and no `panic!` is reached. -/
theorem objectCache_eq_treeHash (t : NTree) (hv : t.Valid) (hc : Consistent t) :
    objectCacheTreeHash t = .ok (some (treeHash t.erase)) := by
  obtain ⟨H, hg⟩ := consistent_good hc
  obtain ⟨c', e, _⟩ := ocGetOrCalculate_eq t hv hg [] (cacheOK_nil H)
  simp [objectCacheTreeHash, e]

/-- …and a cache may be reused: starting from any cache whose bindings are right, the result is the
tree hash and the cache afterwards is right again (work-list order: right child, left child, node). -/
theorem objectCache_reuse (H : Nat → Bytes) (t : NTree) (hv : t.Valid) (hg : Good H t) (c : Cache)
    (hc : CacheOK H c) :
    ∃ c', ocGetOrCalculate c t none = .ok (some (treeHash t.erase), c') ∧ CacheOK H c' :=
  ocGetOrCalculate_eq t hv hg c hc

/-- `InternedTree::tree_hash` of a consistent interned tree is the tree hash of the value it denotes -/
theorem internedTreeHash_eq_treeHash (root : NTree) (hv : root.Valid) (hc : Consistent root) :
    internedTreeHash root = .ok (treeHash root.erase) := by
  obtain ⟨H, hg⟩ := consistent_good hc
  obtain ⟨c', e, _⟩ := ocGetOrCalculate_eq root hv hg [] (cacheOK_nil H)
  simp [internedTreeHash, e]

/-- Python `Treehasher.sha256_treehash` (prefixes 01 / 02): for every object graph with consistent
identities, every set of objects that accept the `_cached_sha256_treehash` attribute (`settable`), and
every pre-existing set of correct cached attributes, the result is the tree hash, no `IndexError` is
reached, and the attributes afterwards are correct. -/
theorem python_eq_treeHash (settable : Nat → Bool) (H : Nat → Bytes) (t : NTree) (hv : t.Valid)
    (hg : Good H t) (attrs : Cache) (hc : CacheOK H attrs) :
    ∃ attrs', pySha256Treehash settable attrs t = .ok (treeHash t.erase, attrs') ∧ CacheOK H attrs' :=
  pySha256Treehash_eq settable t hv hg attrs hc

/-- the hypothesis of the previous theorems is satisfiable by every consistent node, with no attributes -/
theorem python_eq_treeHash_fresh (settable : Nat → Bool) (t : NTree) (hv : t.Valid) (hc : Consistent t) :
    ∃ attrs', pySha256Treehash settable [] t = .ok (treeHash t.erase, attrs') := by
  obtain ⟨H, hg⟩ := consistent_good hc
  obtain ⟨a, e, _⟩ := pySha256Treehash_eq settable t hv hg [] (cacheOK_nil H)
  exact ⟨a, e⟩

/-- `InternedTree::tree_hash` after `intern_tree`, for the NTree-based transcription `internTree` of
`ClvmModel/TreeHash.lean` (the one the `THASH … intern` stream runs).  The unconditional statement is
`internThenHash` below, over C24's transcription.  PARTIAL: the hash of the interned tree is proved
(`internedTreeHash_eq_treeHash`); what is missing is C24's `intern_preserves` for the transcription
`internTree` (the interned root denotes the same value, has consistent identities and valid inline
atoms) — assumed here as hypotheses.  The composition is exercised by the `intern` stream/oracle. -/
theorem internThenHash_partial (t root : NTree) (na np : Nat) (h : internTree t = .ok (root, na, np))
    (hpres : root.erase = t.erase) (hcons : Consistent root) (hv : root.Valid) :
    internThenHash t = .ok (treeHash t.erase) := by
  simp [internThenHash, h, internedTreeHash_eq_treeHash root hv hcons, hpres]

/-- **`intern_tree(..)?.tree_hash()` is the tree hash of the source — unconditional.**
For every well-formed source DAG (`Clvm.Intern.Dag`, C24's transcription of `intern_tree_limited`) and
every root in it: if interning succeeds, then `InternedTree::tree_hash()` — `ObjectCache` + `treehash`
run on the root node of the new allocator (`nodeOf`: inline atoms identified by value, heap atoms and
pairs by index, exactly what `new_atom` / `new_pair` created) — returns `treeHash` of the source tree;
no `expect`/`panic!` is reached and the model's fuel is not exhausted.  Composition of C24
(`internTree_ok` ⇒ the interned root denotes `denote d root`) with `internedTreeHash_eq_treeHash`;
consistency of the new allocator's identities and validity of its inline atoms are proved
(`nodeOf_consistent`, `newAtomNode_valid`), not assumed.  (Interning fails only with the new
allocator's limit errors: C24 `intern_total`.) -/
theorem internThenHash {d : Intern.Dag} (wf : d.WF) {root : Nat} (hroot : root < d.size)
    {it : Intern.InternedTree} (h : Intern.internTree d root = .ok it) :
    treeHashOfInterned it = .ok (treeHash (Intern.denote d root)) := by
  obtain ⟨n, e, her, hv, hc⟩ := interned_root_node wf hroot h
  simp [treeHashOfInterned, e, internedTreeHash_eq_treeHash n hv hc, her]

/-- the root node the previous theorem hashes: it exists, denotes the source tree, has consistent
identities and valid inline atoms -/
theorem interned_root_is_node {d : Intern.Dag} (wf : d.WF) {root : Nat} (hroot : root < d.size)
    {it : Intern.InternedTree} (h : Intern.internTree d root = .ok it) :
    ∃ n, nodeOf it.atoms it.pairs it.root = some n ∧ n.erase = Intern.denote d root ∧ n.Valid ∧
      Consistent n :=
  interned_root_node wf hroot h

/-- work-list order of `tree_hash_costed`: a node on top of `ops` is processed completely — its cost
charged (pair first, then everything in the right sub-tree, then the left), its hash pushed — before
the rest of `ops` is looked at; the budget check fails exactly when the accumulated cost exceeds it. -/
theorem costed_worklist_node (cpb budget : Nat) (t : NTree) (hv : t.Valid) (ops : List TreeOp)
    (hashes : List Bytes) (cost : Nat) :
    costedLoop cpb budget (.sexp t :: ops) hashes cost =
      if cost + nodeCost cpb t.erase ≤ budget then
        costedLoop cpb budget ops (treeHash t.erase :: hashes) (cost + nodeCost cpb t.erase)
      else .error .CostExceeded :=
  costedLoop_node cpb budget t hv ops hashes cost

/-- `node_from_stream` (the classic decoder, `Clvm.Serde.Classic.nodeFromStream`) is recursive descent -/
theorem decoder_is_recursive_descent (inp : Bytes) :
    Serde.Classic.nodeFromStream inp [.sexp] [] = parseTree (inp.length + 1) inp :=
  nodeFromStream_eq_parseTree inp

/-- `tree_hash_from_stream`: on EVERY byte string it behaves as `node_from_stream` followed by the tree
hash — it succeeds on the same inputs, leaves the same unread remainder, fails with the same error. -/
theorem fromStream_eq_treeHash (inp : Bytes) :
    treeHashFromStream inp =
      match Serde.Classic.nodeFromStream inp [.sexp] [] with
      | .ok (t, rest) => .ok (treeHash t, rest)
      | .error e => .error e :=
  treeHashFromStream_eq inp

/-- in particular on every serialization the decoder accepts (canonical or not) -/
theorem fromStream_of_decodes (inp : Bytes) (t : Tree) (rest : Bytes)
    (h : Serde.Classic.nodeFromStream inp [.sexp] [] = .ok (t, rest)) :
    treeHashFromStream inp = .ok (treeHash t, rest) := by
  rw [treeHashFromStream_eq, h]

/-- `parse_triples(f, true)`: on every byte string from which the classic decoder reads a tree `t`, it
reads the same bytes, returns one triple per node of `t` and the tree hashes of all sub-trees of `t`
in pre-order; `tree_hashes[0]` is the tree hash of `t`.  No `panic!`/index failure is reached.
(The offsets stored in the triples are not specified here; the converse is `triples_only_if_decodes`.) -/
theorem triples_eq_treeHash (inp : Bytes) (t : Tree) (rest : Bytes)
    (h : Serde.Classic.nodeFromStream inp [.sexp] [] = .ok (t, rest)) :
    (∃ ts, ts.length = nodes t ∧ parseTriples inp true = .ok (ts, some (hashList t), rest)) ∧
    parseTriplesRootHash inp = .ok (treeHash t) := by
  obtain ⟨ts, hl, e⟩ := parseTriples_of_decodes inp t rest h
  refine ⟨⟨ts, hl, e⟩, ?_⟩
  obtain ⟨tl, htl⟩ := hashList_head t
  simp [parseTriplesRootHash, e, htl]

/-- conversely, for every byte string on which `parse_triples(f, true)` succeeds, the classic decoder
succeeds with the same remainder, and the returned hashes are the tree hashes of the decoded tree's
sub-trees (so `parse_triples` and `node_from_stream` accept exactly the same inputs; their error
kinds differ: a truncated atom body is `InternalError` here, `SerializationError` there). -/
theorem triples_only_if_decodes (inp : Bytes) (ts : List Triple) (hs : Option (List Bytes)) (rest : Bytes)
    (h : parseTriples inp true = .ok (ts, hs, rest)) :
    ∃ t, Serde.Classic.nodeFromStream inp [.sexp] [] = .ok (t, rest) ∧ hs = some (hashList t) ∧
      ts.length = nodes t :=
  decodes_of_parseTriples inp ts hs rest h

/-- every entry of the hash list is the tree hash of the corresponding sub-tree (pre-order) -/
theorem hashList_spec :
    (∀ b, hashList (.atom b) = [treeHash (.atom b)]) ∧
    (∀ l r, hashList (.pair l r) = treeHash (.pair l r) :: (hashList l ++ hashList r)) :=
  ⟨fun _ => rfl, fun _ _ => rfl⟩

/-! ### the hypotheses are satisfiable -/

/-- a DAG with a shared pair (id 2), a shared heap atom (id 1) and a shared inline atom (id 3) -/
def exampleDag : NTree :=
  .pair 5 (.pair 2 (.u32 3 1) (.buffer 1 [0])) (.pair 2 (.u32 3 1) (.buffer 1 [0]))

example : Consistent exampleDag := by unfold Consistent; decide
example : exampleDag.Valid := by simp [exampleDag, NTree.Valid]
example : objectCacheTreeHash exampleDag = .ok (some (treeHash exampleDag.erase)) :=
  objectCache_eq_treeHash _ (by simp [exampleDag, NTree.Valid]) (by unfold Consistent; decide)
/-- equal ids with different contents are rejected by `Consistent` -/
example : ¬ Consistent (.pair 2 (.buffer 1 [0]) (.buffer 1 [1])) := by unfold Consistent; decide

end Clvm.Props.C22
