/-
C24 — interning preserves the tree and deduplicates maximally.

Property theorems only; lemmas are in `Lemmas/Intern{Inv,Loop,Final}.lean`.  Model:
`ClvmModel/Intern.lean` (transcription of `src/serde/intern.rs`).  The source of a run is a DAG `d`
(post-order node list, `d.WF`: children precede parents) with root `root < d.size`; its denotation is
`denote d root : Tree`.  `treeOf it.atoms it.pairs n` is the tree an interned node denotes.
"Same serialization and tree hash" are functions of the tree, so they follow from `intern_preserves`.
-/
import ClvmProofs.Lemmas.InternFinal

namespace Clvm.Props.C24
open Clvm Clvm.Intern

/-- the trees denoted by the interned pairs, in table order -/
def pairTrees (it : InternedTree) : List Tree :=
  (List.range it.pairs.length).map fun k => (treeOf it.atoms it.pairs (.pair k)).getD Tree.nil

/-- **Totality.** On a well-formed DAG `intern_tree` returns a tree, or one of the new allocator's
limit errors (4 GiB heap, 62.5 M atoms / pairs); it never panics and the loop terminates (the
model's fuel is never exhausted). -/
theorem intern_total {d : Dag} (wf : d.WF) {root : Nat} (hroot : root < d.size) :
    (∃ it, internTree d root = .ok it) ∨
    (∃ e, (e = .OutOfMemory ∨ e = .TooManyAtoms ∨ e = .TooManyPairs) ∧ internTree d root = .error e) :=
  internTree_total wf hroot

/-- **The interned tree is the source tree.** -/
theorem intern_preserves {d : Dag} (wf : d.WF) {root : Nat} (hroot : root < d.size) {it : InternedTree}
    (h : internTree d root = .ok it) : it.tree = some (denote d root) := by
  obtain ⟨s, inv, _, ha, hp, hr⟩ := internTree_ok wf hroot h
  unfold InternedTree.tree
  rw [ha, hp]
  exact (inv.memo root it.root hr).2.2.1

/-- **Atoms are pairwise distinct byte strings.** -/
theorem atoms_distinct {d : Dag} (wf : d.WF) {root : Nat} (hroot : root < d.size) {it : InternedTree}
    (h : internTree d root = .ok it) : it.atoms.Nodup := by
  obtain ⟨s, inv, _, ha, _, _⟩ := internTree_ok wf hroot h
  rw [ha, List.nodup_iff_getElem?_ne_getElem?]
  intro i j hij hj heq
  have hi : i < s.atoms.length := by omega
  have e1 : s.atoms[i]? = some s.atoms[i] := List.getElem?_eq_getElem hi
  have e2 : s.atoms[j]? = some s.atoms[i] := by rw [← heq]; exact e1
  have h1 := inv.atomFwd i _ e1
  have h2 := inv.atomFwd j _ e2
  rw [h1] at h2
  cases h2
  omega

/-- every interned pair denotes a tree … -/
theorem pairs_denote {d : Dag} (wf : d.WF) {root : Nat} (hroot : root < d.size) {it : InternedTree}
    (h : internTree d root = .ok it) (k : Nat) (hk : k < it.pairs.length) :
    ∃ l r, treeOf it.atoms it.pairs (.pair k) = some (.pair l r) := by
  obtain ⟨s, inv, _, ha, hp, _⟩ := internTree_ok wf hroot h
  rw [hp] at hk
  rw [ha, hp]
  have hv : (INode.pair k).Valid s.atoms.length s.pairs.length := hk
  obtain ⟨t, ht⟩ := inv.valid_treeOf _ hv
  have hkk : s.pairs[k]? = some s.pairs[k] := List.getElem?_eq_getElem hk
  obtain ⟨w1, w2, _, _⟩ := inv.pairWF k _ _ hkk
  rw [treeOf_pair _ _ k _ _ hkk w1 w2] at ht
  split at ht
  · rename_i a b ha' hb'
    refine ⟨a, b, ?_⟩
    rw [treeOf_pair _ _ k _ _ hkk w1 w2, ha', hb']
  · cases ht

/-- … and **pairs are pairwise distinct sub-trees**. -/
theorem pairs_distinct {d : Dag} (wf : d.WF) {root : Nat} (hroot : root < d.size) {it : InternedTree}
    (h : internTree d root = .ok it) (j k : Nat) (t : Tree)
    (hj : treeOf it.atoms it.pairs (.pair j) = some t) (hk : treeOf it.atoms it.pairs (.pair k) = some t) :
    j = k := by
  obtain ⟨s, inv, _, ha, hp, _⟩ := internTree_ok wf hroot h
  rw [ha, hp] at hj hk
  have := inv.treeOf_inj t _ _ hj hk
  cases this; rfl

theorem pairTrees_nodup {d : Dag} (wf : d.WF) {root : Nat} (hroot : root < d.size) {it : InternedTree}
    (h : internTree d root = .ok it) : (pairTrees it).Nodup := by
  unfold pairTrees
  apply List.Nodup.map_on _ List.nodup_range
  intro x hx y hy hxy
  obtain ⟨l, r, h1⟩ := pairs_denote wf hroot h x (List.mem_range.1 hx)
  obtain ⟨l', r', h2⟩ := pairs_denote wf hroot h y (List.mem_range.1 hy)
  rw [h1, h2] at hxy
  simp only [Option.getD_some] at hxy
  rw [← hxy] at h2
  exact pairs_distinct wf hroot h x y _ h1 h2

/-- **The atom table is exactly the set of atom values of the tree.** -/
theorem atoms_complete {d : Dag} (wf : d.WF) {root : Nat} (hroot : root < d.size) {it : InternedTree}
    (h : internTree d root = .ok it) (b : Bytes) :
    b ∈ it.atoms ↔ Subtree (.atom b) (denote d root) := by
  obtain ⟨s, inv, _, ha, hp, hr⟩ := internTree_ok wf hroot h
  rw [ha]
  constructor
  · intro hb
    obtain ⟨k, hk⟩ := List.mem_iff_getElem?.1 hb
    have hv : (INode.atom k).Valid s.atoms.length s.pairs.length := getElem?_lt hk
    obtain ⟨i, hreach, _, ht⟩ := inv.origin _ hv
    rw [treeOf_atom, hk] at ht
    simp only [Option.map_some, Option.some.injEq] at ht
    rw [ht]
    exact hreach.subtree wf
  · intro hsub
    obtain ⟨_, hv, ht, _⟩ := inv.memo root it.root hr
    obtain ⟨m, _, hm⟩ := inv.closed hsub _ hv ht
    obtain ⟨k, _, hk⟩ := treeOf_eq_atom hm
    exact List.mem_iff_getElem?.2 ⟨k, hk⟩

/-- **The pair table is exactly the set of pair sub-trees of the tree.** -/
theorem pairs_complete {d : Dag} (wf : d.WF) {root : Nat} (hroot : root < d.size) {it : InternedTree}
    (h : internTree d root = .ok it) (t : Tree) :
    t ∈ pairTrees it ↔ (∃ l r, t = .pair l r) ∧ Subtree t (denote d root) := by
  obtain ⟨s, inv, _, ha, hp, hr⟩ := internTree_ok wf hroot h
  unfold pairTrees
  rw [List.mem_map]
  constructor
  · rintro ⟨k, hk, rfl⟩
    have hk' := List.mem_range.1 hk
    obtain ⟨l, r, hlr⟩ := pairs_denote wf hroot h k hk'
    rw [hlr]
    refine ⟨⟨l, r, rfl⟩, ?_⟩
    have hv : (INode.pair k).Valid s.atoms.length s.pairs.length := by rw [← hp]; exact hk'
    obtain ⟨i, hreach, _, ht⟩ := inv.origin _ hv
    rw [ha, hp] at hlr
    rw [hlr] at ht
    simp only [Option.getD_some]
    rw [Option.some.inj ht]
    exact hreach.subtree wf
  · rintro ⟨⟨l, r, rfl⟩, hsub⟩
    obtain ⟨_, hv, ht, _⟩ := inv.memo root it.root hr
    obtain ⟨m, hmv, hm⟩ := inv.closed hsub _ hv ht
    obtain ⟨k, _, _, rfl, _, _, _, _, _⟩ := treeOf_eq_pair hm
    refine ⟨k, List.mem_range.2 (by rw [hp]; exact hmv), ?_⟩
    rw [ha, hp, hm]; rfl

/-- **Counts.** The number of interned atoms is the number of distinct atom values of the tree … -/
theorem atom_count {d : Dag} (wf : d.WF) {root : Nat} (hroot : root < d.size) {it : InternedTree}
    (h : internTree d root = .ok it) :
    it.atoms.length = (atomValues (denote d root)).dedup.length := by
  apply List.Perm.length_eq
  rw [List.perm_ext_iff_of_nodup (atoms_distinct wf hroot h) (List.nodup_dedup _)]
  intro b
  rw [List.mem_dedup, mem_atomValues, atoms_complete wf hroot h]

/-- … and the number of interned pairs is the number of distinct pair sub-trees. -/
theorem pair_count {d : Dag} (wf : d.WF) {root : Nat} (hroot : root < d.size) {it : InternedTree}
    (h : internTree d root = .ok it) :
    it.pairs.length = (pairSubtrees (denote d root)).dedup.length := by
  have hl : (pairTrees it).length = it.pairs.length := by simp [pairTrees]
  rw [← hl]
  apply List.Perm.length_eq
  rw [List.perm_ext_iff_of_nodup (pairTrees_nodup wf hroot h) (List.nodup_dedup _)]
  intro t
  rw [List.mem_dedup, mem_pairSubtrees, pairs_complete wf hroot h]

/-- source nodes below the root that are atoms / pairs -/
noncomputable def srcAtomNodes (d : Dag) (root : Nat) : List Nat :=
  open Classical in
  (List.range d.size).filter fun i => decide (Reach d root i ∧ ∃ b, d[i]? = some (SNode.atom b))

noncomputable def srcPairNodes (d : Dag) (root : Nat) : List Nat :=
  open Classical in
  (List.range d.size).filter fun i => decide (Reach d root i ∧ ∃ l r, d[i]? = some (SNode.pair l r))

/-- **Never more than the source's**: the interned counts are bounded by the numbers of atom nodes and
pair nodes of the source DAG below the root. -/
theorem counts_le_source {d : Dag} (wf : d.WF) {root : Nat} (hroot : root < d.size) {it : InternedTree}
    (h : internTree d root = .ok it) :
    it.atoms.length ≤ (srcAtomNodes d root).length ∧ it.pairs.length ≤ (srcPairNodes d root).length := by
  obtain ⟨s, inv, _, ha, hp, hr⟩ := internTree_ok wf hroot h
  -- a reachable node is an atom node or a pair node according to its denotation
  have kind : ∀ i, i < d.size → (∃ b, d[i]? = some (SNode.atom b)) ∨ (∃ l r, d[i]? = some (SNode.pair l r)) := by
    intro i hi
    rw [Array.getElem?_eq_getElem hi]
    cases d[i] with
    | atom b => left; exact ⟨b, rfl⟩
    | pair l r => right; exact ⟨l, r, rfl⟩
  constructor
  · have hsub : it.atoms.map Tree.atom ⊆ (srcAtomNodes d root).map (denote d) := by
      intro t ht
      obtain ⟨b, hb, rfl⟩ := List.mem_map.1 ht
      rw [ha] at hb
      obtain ⟨k, hk⟩ := List.mem_iff_getElem?.1 hb
      have hv : (INode.atom k).Valid s.atoms.length s.pairs.length := getElem?_lt hk
      obtain ⟨i, hreach, hi, ht⟩ := inv.origin _ hv
      rw [treeOf_atom, hk] at ht
      simp only [Option.map_some, Option.some.injEq] at ht
      refine List.mem_map.2 ⟨i, ?_, ht.symm⟩
      unfold srcAtomNodes
      rw [List.mem_filter]
      refine ⟨List.mem_range.2 hi, ?_⟩
      simp only [decide_eq_true_eq]
      refine ⟨hreach, ?_⟩
      rcases kind i hi with h1 | ⟨l, r, h1⟩
      · exact h1
      · rw [denote_pair wf h1] at ht; cases ht
    have hnd : (it.atoms.map Tree.atom).Nodup :=
      List.Nodup.map (fun a b hab => by cases hab; rfl) (atoms_distinct wf hroot h)
    have := (hnd.subperm hsub).length_le
    simpa using this
  · have hsub : pairTrees it ⊆ (srcPairNodes d root).map (denote d) := by
      intro t ht
      obtain ⟨k, hk, rfl⟩ := List.mem_map.1 ht
      have hk' := List.mem_range.1 hk
      obtain ⟨l, r, hlr⟩ := pairs_denote wf hroot h k hk'
      have hv : (INode.pair k).Valid s.atoms.length s.pairs.length := by rw [← hp]; exact hk'
      obtain ⟨i, hreach, hi, ht⟩ := inv.origin _ hv
      rw [hlr]
      rw [ha, hp] at hlr
      rw [hlr] at ht
      simp only [Option.getD_some]
      have ht' := Option.some.inj ht
      refine List.mem_map.2 ⟨i, ?_, ht'.symm⟩
      unfold srcPairNodes
      rw [List.mem_filter]
      refine ⟨List.mem_range.2 hi, ?_⟩
      simp only [decide_eq_true_eq]
      refine ⟨hreach, ?_⟩
      rcases kind i hi with ⟨b, h1⟩ | h1
      · rw [denote_atom h1] at ht'; cases ht'
      · exact h1
    have := ((pairTrees_nodup wf hroot h).subperm hsub).length_le
    simpa [pairTrees] using this

/-! ### non-vacuity -/

/-- `((1 . 2) . (1' . 2))` with the second `1` a separate source node: 2 atoms, 2 pairs -/
def exDag : Dag := #[.atom [1], .atom [2], .pair 0 1, .atom [1], .pair 3 1, .pair 2 4]

example : exDag.wfB = true := by decide
example : (internTree exDag 5).toOption.map (fun it => (it.atoms, it.pairs, it.root)) =
    some ([[1], [2]], [(.atom 0, .atom 1), (.pair 0, .pair 0)], .pair 1) := by rfl

end Clvm.Props.C24
