/-
C20 — serde_2026 round-trips, is total, and is recognisable.

Property theorems only; lemmas are in `Lemmas/Serde2026*.lean`.  Models: `ClvmModel/Serde2026.lean`
(transcription of `src/serde_2026/{ser,de,strategy,mod}.rs`), `ClvmModel/Intern.lean`,
`ClvmModel/Varint.lean` (C21), `ClvmModel/Serde/Classic.lean`.
-/
import ClvmProofs.Lemmas.Serde2026Magic

namespace Clvm.Props.C20
open Clvm Clvm.Serde2026

/-- **Recognisable (classic decoder).** `node_from_bytes` rejects every byte string that starts with
the 2026 magic prefix (the prefix is read as a 6-byte atom-size prefix announcing ≥ 2^34 bytes). -/
theorem magic_rejected_classic (rest : Bytes) :
    Serde.Classic.nodeFromBytes (magic ++ rest) = .error .SerializationError := by
  unfold Serde.Classic.nodeFromBytes
  rw [nodeFromStream_magic]

end Clvm.Props.C20
