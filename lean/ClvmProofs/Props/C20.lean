/-
C20 — serde_2026 round-trips, is total, and is recognisable.

Property theorems only; lemmas are in `Lemmas/Serde2026*.lean`.  Models: `ClvmModel/Serde2026.lean`
(transcription of `src/serde_2026/{ser,de,strategy,mod}.rs`), `ClvmModel/Intern.lean`,
`ClvmModel/Varint.lean` (C21), `ClvmModel/Serde/Classic.lean`, `ClvmModel/Serde/Backref.lean`.

History: until /repo commit 090b8ec the decoder resized its read buffer to the *declared* atom length
before reading (finding I): the model had an outcome `Err.Abort` for a declared length above an
allocatable bound `allocCap`, totality was proved only for `max_atom_len ≤ allocCap`
(`de_total_partial`) and `de_abort_witness` showed the 17-byte blob
`fdff3230323601fc200000000000410102` (declared length 2^45, `max_atom_len = usize::MAX`) aborting.
With the repair (atoms are read through `take(length).read_to_end`) the outcome is gone from the model
and `de_total` below is the full statement; the blob is kept as an `example`.
-/
import ClvmProofs.Lemmas.Serde2026Magic
import ClvmProofs.Lemmas.Serde2026MagicBr
import ClvmProofs.Lemmas.Serde2026Len
import ClvmProofs.Lemmas.Serde2026Wire
import ClvmProofs.Lemmas.InternInv
import ClvmProofs.Lemmas.Serde2026LenSer
import ClvmProofs.Lemmas.Serde2026SerTotal

namespace Clvm.Props.C20
open Clvm Clvm.Serde2026

/-! ### recognisable -/

/-- **Recognisable (classic decoder).** `node_from_bytes` rejects every byte string that starts with
the 2026 magic prefix (the prefix is read as a 6-byte atom-size prefix announcing ≥ 2^34 bytes). -/
theorem magic_rejected_classic (rest : Bytes) :
    Serde.Classic.nodeFromBytes (magic ++ rest) = .error .SerializationError := by
  unfold Serde.Classic.nodeFromBytes
  rw [nodeFromStream_magic]

/-- **Recognisable (`node_from_bytes_backrefs`).** -/
theorem magic_rejected_backrefs (rest : Bytes) (c : Serde.Backref.Ctr) :
    Serde.Backref.nodeFromBytesBackrefs (magic ++ rest) c = .error .SerializationError := by
  unfold Serde.Backref.nodeFromBytesBackrefs
  rw [deBrNew_magic]

/-- **Recognisable (`node_from_bytes_backrefs_old`).** -/
theorem magic_rejected_backrefs_old (rest : Bytes) (c : Serde.Backref.Ctr) :
    Serde.Backref.nodeFromBytesBackrefsOld (magic ++ rest) c = .error .SerializationError := by
  unfold Serde.Backref.nodeFromBytesBackrefsOld
  rw [deBrOld_magic]

/-! ### total -/

/-- what "returns without panicking" means for the decoder: a result, a malformed-input error, or a
limit of the caller's allocator -/
def Returns {α : Type} (r : Except Err α) : Prop :=
  match r with
  | .ok _ => True
  | .error e => e = .SerializationError ∨ e = .OutOfMemory ∨ e = .TooManyAtoms ∨ e = .TooManyPairs

/-- the C20 totality statement for the decoder (all byte strings, all `max_atom_len`, both modes) -/
def DecoderTotal : Prop :=
  ∀ (blob : Bytes) (maxAtomLen : Nat) (strict : Bool), Returns (deserialize2026 blob maxAtomLen strict)

/-- **The decoder is total**: for every byte string, every `max_atom_len` and both modes it returns a
tree, `SerializationError`, or a limit of the caller's allocator — never a panic, never an abort. -/
theorem de_total : DecoderTotal := by
  intro blob maxAtomLen strict
  unfold deserialize2026
  cases h : deserializeFromStream Intern.Counters.new blob maxAtomLen strict with
  | ok r => simp [Returns]
  | error e => exact deserializeFromStream_err h

/-- the same for the stream entry points with any allocator state -/
theorem de_stream_total (ctr : Intern.Counters) (inp : Bytes) (maxAtomLen : Nat) (strict : Bool) :
    Returns (deserializeFromStream ctr inp maxAtomLen strict) ∧ Returns (deserializeBody ctr inp maxAtomLen strict) := by
  constructor
  · cases h : deserializeFromStream ctr inp maxAtomLen strict with
    | ok r => simp [Returns]
    | error e => exact deserializeFromStream_err h
  · cases h : deserializeBody ctr inp maxAtomLen strict with
    | ok r => simp [Returns]
    | error e => exact deserializeBody_err h

/-- the former reproducer of finding I: one group, declared length 2^45 -/
def blobI : Bytes :=
  [0xfd, 0xff, 0x32, 0x30, 0x32, 0x36, 0x01, 0xfc, 0x20, 0x00, 0x00, 0x00, 0x00, 0x00, 0x41, 0x01, 0x02]

example : deserialize2026 blobI (2 ^ 64 - 1) true = .error .SerializationError := by rfl
example : serializedLength2026 blobI (2 ^ 64 - 1) true = .error .SerializationError := by rfl

/-- **The length probe is total**: a length or `SerializationError`, for every byte string. -/
theorem len_total (buf : Bytes) (maxAtomLen : Nat) (strict : Bool) :
    (∃ n, serializedLength2026 buf maxAtomLen strict = .ok n) ∨
    serializedLength2026 buf maxAtomLen strict = .error .SerializationError := by
  cases h : serializedLength2026 buf maxAtomLen strict with
  | ok n => left; exact ⟨n, rfl⟩
  | error e => right; rw [serializedLength2026_err h]

/-- **Probe = bytes consumed**, whenever decoding succeeds (slices are shorter than 2^64 bytes). -/
theorem len_eq_consumed (blob : Bytes) (maxAtomLen : Nat) (strict : Bool) (t : Tree) (n : Nat)
    (hlen : blob.length < 2 ^ 64)
    (h : deserialize2026Consumed blob maxAtomLen strict = .ok (t, n)) :
    serializedLength2026 blob maxAtomLen strict = .ok n := by
  unfold deserialize2026Consumed at h
  split at h
  · cases h
  · rename_i t' rest c hd
    cases h
    exact Serde2026.len_eq_consumed hlen hd

/-! ### round trip -/

/-- The C20 round-trip statement at full strength (every well-formed source DAG, every level, both
modes, every `max_atom_len` that admits the tree's atoms; the caller's allocator
is a fresh `Allocator::new()`).  Proved: `de_ser`. -/
def RoundTrip : Prop :=
  ∀ (d : Intern.Dag) (root level : Nat) (strict : Bool) (maxAtomLen : Nat) (blob : Bytes),
    d.WF → root < d.size → serialize2026 d root level = .ok blob →
    (∀ b : Bytes, Intern.Subtree (.atom b) (Intern.denote d root) → b.length ≤ maxAtomLen) →
    deserialize2026 blob maxAtomLen strict = .ok (Intern.denote d root)

/-- … and for the length probe (`serialized_length_serde_2026` of a blob followed by anything).
Proved: `len_ser`. -/
def LenOfSer : Prop :=
  ∀ (d : Intern.Dag) (root level : Nat) (strict : Bool) (blob rest : Bytes),
    d.WF → root < d.size → serialize2026 d root level = .ok blob →
    serializedLength2026 (blob ++ rest) (2 ^ 64 - 1) strict = .ok blob.length

/-- **Round trip, wire level** (strict and lenient, trailing bytes untouched): a body written by the
serializer's writers (`write_varint` counts, `write_atom_table`'s group loop, the instruction loop)
from *any* group list of the shape the serializer produces and *any* instruction list is decoded into
exactly what executing that instruction list over the table's atoms yields (`execList`, the decoder's
`match inst` folded over the list), and the reader stops exactly at the trailing bytes.

Proved from C21 `read_write`.  This is the wire half of `de_ser` (kept because it holds for *any*
instruction list and allocator state, not only for serializer output); the other half — the
instruction list produced by `emit_instructions` for the output of `intern_tree`, executed over the
atom table in `sort_atoms` order, ends with the stack `[denote d root]` — is
`Serde2026.serialize2026_parts` (`Lemmas/Serde2026{Emit,Table,RoundTrip}.lean`). -/
theorem de_ser_partial (maxAtomLen : Nat) (strict : Bool) (ctr : Intern.Counters) (rest : Bytes)
    (groups : List (Nat × List Bytes)) (is : List Int) (cg tbl ci ib : Bytes)
    (hok : ∀ g ∈ groups, GroupOK maxAtomLen g)
    (h1 : wv (groups.length : Int) = .ok cg) (h2 : writeGroups groups = .ok tbl)
    (h3 : wv (is.length : Int) = .ok ci) (h4 : writeInstructions is = .ok ib) (hne : is ≠ [])
    (hroom : Room ctr (groupBytes groups) (groupAtomCount groups)) :
    deserializeFromStream ctr (magic ++ (cg ++ tbl ++ ci ++ ib) ++ rest) maxAtomLen strict =
      match execList (groups.flatMap (·.2)) is
          { ctr := bumpAtoms ctr (groupBytes groups) (groupAtomCount groups), pairs := [], stack := [] } with
      | .error e => .error e
      | .ok s => finish rest s :=
  deserialize_written maxAtomLen strict ctr rest groups is cg tbl ci ib hok h1 h2 h3 h4 hne hroom

/-- **Length of a written blob, wire level**: under the same hypotheses, whenever that decode succeeds
the probe applied to the blob followed by arbitrary bytes returns the blob's length. -/
theorem len_ser_partial (maxAtomLen : Nat) (strict : Bool) (ctr c' : Intern.Counters) (rest : Bytes)
    (groups : List (Nat × List Bytes)) (is : List Int) (cg tbl ci ib : Bytes) (t : Tree)
    (hok : ∀ g ∈ groups, GroupOK maxAtomLen g)
    (h1 : wv (groups.length : Int) = .ok cg) (h2 : writeGroups groups = .ok tbl)
    (h3 : wv (is.length : Int) = .ok ci) (h4 : writeInstructions is = .ok ib) (hne : is ≠ [])
    (hroom : Room ctr (groupBytes groups) (groupAtomCount groups))
    (hlen : (magic ++ (cg ++ tbl ++ ci ++ ib) ++ rest).length < 2 ^ 64)
    (hdec : (match execList (groups.flatMap (·.2)) is
          { ctr := bumpAtoms ctr (groupBytes groups) (groupAtomCount groups), pairs := [], stack := [] } with
      | .error e => (.error e : Except Err (Tree × Bytes × Intern.Counters))
      | .ok s => finish rest s) = .ok (t, rest, c')) :
    serializedLength2026 (magic ++ (cg ++ tbl ++ ci ++ ib) ++ rest) maxAtomLen strict
      = .ok (magic ++ (cg ++ tbl ++ ci ++ ib)).length := by
  have hd := de_ser_partial maxAtomLen strict ctr rest groups is cg tbl ci ib hok h1 h2 h3 h4 hne hroom
  rw [hdec] at hd
  have := Serde2026.len_eq_consumed hlen hd
  rw [this]
  congr 1
  simp only [List.length_append]
  omega

/-- **Round trip** (`RoundTrip`): for every well-formed source DAG of any size and depth, every level,
both modes and every `max_atom_len` admitting the tree's atoms, `deserialize_2026` of the blob written by
`serialize_2026` is the source tree.  No bound on the tree: the serializer's work loop is shown never
to exhaust the model's fuel, the decoder's allocations are shown to fit a fresh `Allocator::new()`
(they are the atoms and pairs `intern_tree` itself allocated), and the tree comes from C24
`intern_preserves`. -/
theorem de_ser : RoundTrip := by
  intro d root level strict maxAtomLen blob wf hroot h hmal
  obtain ⟨c', hd⟩ := Serde2026.deserialize_serialized wf hroot h maxAtomLen hmal strict []
  rw [List.append_nil] at hd
  unfold deserialize2026
  rw [hd]

/-- **Round trip with trailing bytes**: the decoder stops exactly at the end of the blob — the cursor
position after decoding `blob ++ rest` is `blob.length`, whatever `rest` is. -/
theorem de_ser_consumed (d : Intern.Dag) (root level : Nat) (strict : Bool) (maxAtomLen : Nat)
    (blob rest : Bytes) (wf : d.WF) (hroot : root < d.size) (h : serialize2026 d root level = .ok blob)
    (hmal : ∀ b : Bytes, Intern.Subtree (.atom b) (Intern.denote d root) → b.length ≤ maxAtomLen) :
    deserialize2026Consumed (blob ++ rest) maxAtomLen strict = .ok (Intern.denote d root, blob.length) := by
  obtain ⟨c', hd⟩ := Serde2026.deserialize_serialized wf hroot h maxAtomLen hmal strict rest
  unfold deserialize2026Consumed
  rw [hd]
  simp

/-- **Length probe on serializer output** (`LenOfSer`): `serialized_length_serde_2026` applied to the
blob followed by *any* bytes returns the blob's length (no assumption on the trailing bytes: a written
blob is shorter than 2^64 bytes, so the probe's overflow guards cannot fire). -/
theorem len_ser : LenOfSer := by
  intro d root level strict blob rest wf hroot h
  apply Serde2026.serializedLength_serialized wf hroot h (2 ^ 64 - 1) _ strict rest
  intro b hb
  have := Serde2026.serialized_atoms_small wf hroot h b hb
  omega

/-- … and with any `max_atom_len` that admits the tree's atoms. -/
theorem len_ser_bounded (d : Intern.Dag) (root level : Nat) (strict : Bool) (maxAtomLen : Nat)
    (blob rest : Bytes) (wf : d.WF) (hroot : root < d.size) (h : serialize2026 d root level = .ok blob)
    (hmal : ∀ b : Bytes, Intern.Subtree (.atom b) (Intern.denote d root) → b.length ≤ maxAtomLen) :
    serializedLength2026 (blob ++ rest) maxAtomLen strict = .ok blob.length :=
  Serde2026.serializedLength_serialized wf hroot h maxAtomLen hmal strict rest

/-! ### the serializer is total -/

/-- **`serialize_2026` is total on well-formed sources** (every tree, every level): it returns a blob, or
one of the allocator limits `intern_tree` ran into (4 GiB heap, `MAX_NUM_ATOMS`, `MAX_NUM_PAIRS`).  It
never panics (slice / `HashMap` indexing, `write_varint` range, `unreachable!`) and the work loop of
`emit_instructions` ends within the model's fuel `3·|pairs| + 2`.  So the hypothesis
`serialize2026 … = .ok blob` of `de_ser` / `len_ser` holds for every tree `intern_tree` accepts. -/
theorem ser_total (d : Intern.Dag) (root level : Nat) (wf : d.WF) (hroot : root < d.size) :
    (∃ blob, serialize2026 d root level = .ok blob) ∨
    (∃ e, (e = .OutOfMemory ∨ e = .TooManyAtoms ∨ e = .TooManyPairs) ∧ serialize2026 d root level = .error e) :=
  Serde2026.serialize2026_total wf hroot level

/-- **C20 round trip, in one statement**: for every well-formed source, either `intern_tree` hits an
allocator limit, or `serialize_2026` returns a blob such that — in both modes, for every admissible
`max_atom_len`, followed by any bytes — the decoder returns the source tree having consumed exactly the
blob, and the length probe returns the blob's length. -/
theorem ser_de_len (d : Intern.Dag) (root level : Nat) (wf : d.WF) (hroot : root < d.size) :
    (∃ e, (e = .OutOfMemory ∨ e = .TooManyAtoms ∨ e = .TooManyPairs) ∧ serialize2026 d root level = .error e) ∨
    (∃ blob, serialize2026 d root level = .ok blob ∧
      ∀ (strict : Bool) (maxAtomLen : Nat) (rest : Bytes),
        (∀ b : Bytes, Intern.Subtree (.atom b) (Intern.denote d root) → b.length ≤ maxAtomLen) →
        deserialize2026Consumed (blob ++ rest) maxAtomLen strict = .ok (Intern.denote d root, blob.length) ∧
        serializedLength2026 (blob ++ rest) maxAtomLen strict = .ok blob.length) := by
  rcases ser_total d root level wf hroot with ⟨blob, h⟩ | he
  · right
    refine ⟨blob, h, ?_⟩
    intro strict maxAtomLen rest hmal
    exact ⟨de_ser_consumed d root level strict maxAtomLen blob rest wf hroot h hmal,
      len_ser_bounded d root level strict maxAtomLen blob rest wf hroot h hmal⟩
  · left; exact he

end Clvm.Props.C20
