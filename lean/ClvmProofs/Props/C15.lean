/-
C15 — classic serialization round-trips and is canonical.

Model: `ClvmModel/Serde/Classic.lean` (transcription of write_atom.rs, ser.rs, parse_atom.rs,
de.rs, tools.rs, serialized_length.rs, object_cache.rs::serialized_length); the size thresholds
are regenerated from the sources on every run (`Clvm.Gen`).
-/
import ClvmModel.Serde.Classic

namespace Clvm.Props.C15
open Clvm Clvm.Serde.Classic

/-- The canonical checker's lower bound for a `k+1`-byte length prefix is exactly the size at
which the serializer starts to emit `k+1`-byte prefixes (a smaller bound would accept over-long
prefixes; a larger one rejects the serializer's own output). -/
theorem canon_min_eq_writer_threshold :
    ∀ k, k < 4 → thr Gen.canonMinValue (k + 1) = thr Gen.writeAtomThresholds k := by
  decide

/-- a one-byte prefix is canonical from length 1 (length 0 and single bytes < 0x80 are handled
before the table is consulted) -/
theorem canon_min_one : thr Gen.canonMinValue 0 = 1 := by decide

/-- the serializer refuses exactly the sizes the decoder refuses (2^34) -/
theorem writer_max_eq_decoder_max : thr Gen.writeAtomThresholds 4 = Gen.decodeSizeMax := by decide

/-- `serialized_length_atom` uses the same ladder as `write_atom` -/
theorem serlen_thresholds_eq_writer :
    ∀ k, k < 4 → thr Gen.serLenAtomThresholds k = thr Gen.writeAtomThresholds k := by
  decide

/-- the ladder is strictly increasing and each prefix width can represent its range:
`k+1` prefix bytes carry `6 + 7k` bits (k = 0..4) -/
theorem thresholds_fit_prefix_bits :
    ∀ k, k < 5 → thr Gen.writeAtomThresholds k = 2 ^ (6 + 7 * k) := by
  decide

end Clvm.Props.C15
