/-
C15 — classic serialization round-trips and is canonical.

Model: `ClvmModel/Serde/Classic.lean` (transcription of write_atom.rs, ser.rs, parse_atom.rs,
de.rs, tools.rs, serialized_length.rs, object_cache.rs::serialized_length); the size thresholds
are regenerated from the sources on every run (`Clvm.Gen`).
-/
import ClvmModel.Serde.Classic
import ClvmProofs.Lemmas.ClassicSer
import ClvmProofs.Lemmas.ClassicCanon
import ClvmProofs.Lemmas.ClassicProbe

namespace Clvm.Props.C15
open Clvm Clvm.Serde.Classic

/-- The canonical checker's lower bound for a `k+1`-byte length prefix is exactly the size at
which the serializer starts to emit `k+1`-byte prefixes (a smaller bound would accept over-long
prefixes; a larger one rejects the serializer's own output). -/
theorem canon_min_eq_writer_threshold :
    ∀ k, k < 4 → thr Gen.canonMinValue (k + 1) = thr Gen.writeAtomThresholds k := by
  decide

/-- a one-byte prefix is canonical from length 1 (length 0 and single bytes < 0x80 are handled
before the table is consulted) -/
theorem canon_min_one : thr Gen.canonMinValue 0 = 1 := by decide

/-- the serializer refuses exactly the sizes the decoder refuses (2^34) -/
theorem writer_max_eq_decoder_max : thr Gen.writeAtomThresholds 4 = Gen.decodeSizeMax := by decide

/-- `serialized_length_atom` uses the same ladder as `write_atom` -/
theorem serlen_thresholds_eq_writer :
    ∀ k, k < 4 → thr Gen.serLenAtomThresholds k = thr Gen.writeAtomThresholds k := by
  decide

/-- the ladder is strictly increasing and each prefix width can represent its range:
`k+1` prefix bytes carry `6 + 7k` bits (k = 0..4) -/
theorem thresholds_fit_prefix_bits :
    ∀ k, k < 5 → thr Gen.writeAtomThresholds k = 2 ^ (6 + 7 * k) := by
  decide

/-! ### the serializer produces the specification

`serSpec` (`ClvmProofs/Lemmas/ClassicSpec.lean`) is the documented format written recursively
with literal powers of two: `atomEnc b = prefix ++ b`, `serSpec (l . r) = 0xff :: serSpec l ++
serSpec r`.  All theorems below are about trees whose atoms are shorter than 2^34 bytes (the
format's maximum; longer atoms are refused by the serializer, `C29.too_long_atom`). -/

/-- `node_to_stream` on an unlimited writer appends exactly `serSpec t` -/
theorem ser_eq_spec (t : Tree) (ht : t.atomsBelow (2 ^ 34)) (out : Bytes) :
    nodeToStream [t] { out := out, limit := none } = .ok { out := out ++ serSpec t, limit := none } := by
  rw [nodeToStream_spec [t] _ (by simpa using ht)]
  simp [Writer.fits, Writer.adv, serList]

/-- `node_to_bytes_limit` returns `serSpec t` whenever it fits -/
theorem ser_bytes_eq_spec (t : Tree) (ht : t.atomsBelow (2 ^ 34)) (L : Nat) (h : (serSpec t).length ≤ L) :
    nodeToBytesLimit t L = .ok (serSpec t) := by
  rw [nodeToBytesLimit_spec t ht, if_pos h]

/-! ### round trip -/

/-- `de_ser`: the decoder loop reads back one serialized tree and continues with the rest of
the input and the rest of its work stack (continuations generalised) -/
theorem de_ser (t : Tree) (ht : t.atomsBelow (2 ^ 34)) (rest : Bytes) (ops : List ParseOp)
    (vals : List Tree) :
    nodeFromStream (serSpec t ++ rest) (.sexp :: ops) vals = nodeFromStream rest ops (t :: vals) :=
  nodeFromStream_ser t ht rest ops vals

/-- `node_from_stream` on `serSpec t` followed by anything returns `t` and has consumed exactly
`|serSpec t|` bytes -/
theorem de_ser_consumed (t : Tree) (ht : t.atomsBelow (2 ^ 34)) (rest : Bytes) :
    nodeFromBytesConsumed (serSpec t ++ rest) = .ok (t, (serSpec t).length) := by
  unfold nodeFromBytesConsumed
  rw [de_ser t ht, nodeFromStream]
  simp

/-- `node_from_bytes (serSpec t ++ rest) = t` -/
theorem de_ser_bytes (t : Tree) (ht : t.atomsBelow (2 ^ 34)) (rest : Bytes) :
    nodeFromBytes (serSpec t ++ rest) = .ok t := by
  unfold nodeFromBytes
  rw [de_ser t ht, nodeFromStream]

/-- the full round trip through the real entry points: whatever the serializer returns decodes
to the same tree, consuming everything -/
theorem round_trip (t : Tree) (ht : t.atomsBelow (2 ^ 34)) (L : Nat) (b : Bytes)
    (h : nodeToBytesLimit t L = .ok b) : nodeFromBytesConsumed b = .ok (t, b.length) := by
  rw [nodeToBytesLimit_spec t ht] at h
  split at h
  · simp only [Except.ok.injEq] at h
    subst h
    simpa using de_ser_consumed t ht []
  · cases h

/-- the code is prefix-free: two serializations, each followed by anything, that agree as byte
strings are serializations of the same tree followed by the same rest (`prefix_inj`) -/
theorem prefix_inj (t t' : Tree) (ht : t.atomsBelow (2 ^ 34)) (ht' : t'.atomsBelow (2 ^ 34))
    (r r' : Bytes) (h : serSpec t ++ r = serSpec t' ++ r') : t = t' ∧ r = r' := by
  have h1 := de_ser_consumed t ht r
  have h2 := de_ser_consumed t' ht' r'
  rw [h, h2] at h1
  simp only [Except.ok.injEq, Prod.mk.injEq] at h1
  obtain ⟨rfl, hl⟩ := h1
  exact ⟨rfl, List.append_cancel_left h⟩

/-! ### canonical -/

/-- `ser_canonical`: the serializer's output passes `is_canonical_serialization`.  The proof goes
through `width_eq_iff`, which compares the extracted `min_value` table of `is_canonical_atom` with
the format's header widths: with the pre-fix table (2^28 in the five-byte row) it does not check. -/
theorem ser_canonical (t : Tree) (ht : t.atomsBelow (2 ^ 34)) :
    isCanonicalSerialization (serSpec t) = .ok true := by
  unfold isCanonicalSerialization
  have hs := serSpec_size_le t
  have hf : (serSpec t).length + 2 = ((serSpec t).length + 2 - t.size) + t.size := by omega
  rw [hf, isCanonicalGo_ser t ht (serSpec t) 0 0 _ [] (by simp)]
  have : (serSpec t).length + 2 - t.size = ((serSpec t).length + 1 - t.size) + 1 := by omega
  rw [this, isCanonicalGo]
  simp

/-! ### lengths -/

/-- `len_trusted`: `serialized_length_from_bytes_trusted` returns the length of the first tree -/
theorem len_trusted (t : Tree) (ht : t.atomsBelow (2 ^ 34)) (rest : Bytes) :
    serializedLengthTrusted (serSpec t ++ rest) = .ok (serSpec t).length := by
  unfold serializedLengthTrusted
  have hs := serSpec_size_le t
  have hf : (serSpec t ++ rest).length + 2 = ((serSpec t ++ rest).length + 2 - t.size) + t.size := by
    simp only [List.length_append]; omega
  rw [hf, lenTrusted_ser t ht (serSpec t ++ rest) 0 0 _ rest (by simp)]
  have : (serSpec t ++ rest).length + 2 - t.size = ((serSpec t ++ rest).length + 1 - t.size) + 1 := by
    simp only [List.length_append]; omega
  rw [this, lenTrusted]
  simp

/-- `len_untrusted`: the untrusted (back-reference aware) probe `serialized_length_from_bytes`
returns the length of the first tree, as long as its private allocator does not run out of pairs:
it allocates one pair per atom and two per pair (`probeCost`), against `MAX_NUM_PAIRS` -/
theorem len_untrusted (t : Tree) (ht : t.atomsBelow (2 ^ 34)) (rest : Bytes)
    (hc : Gen.initGhostPairs + probeCost t ≤ Gen.maxNumPairs) :
    Clvm.Serde.Backref.serializedLengthFromBytes (serSpec t ++ rest) = .ok (serSpec t).length :=
  serializedLengthFromBytes_ser t ht rest hc

/-- …which is always the case for a serialization that fits the default size limit of
`node_to_bytes` (the quantifier of the property): 2 · 2 000 000 ≤ 62 500 000 -/
theorem len_untrusted_of_fits (t : Tree) (ht : t.atomsBelow (2 ^ 34)) (rest : Bytes)
    (hl : (serSpec t).length ≤ Gen.nodeToBytesLimit) :
    Clvm.Serde.Backref.serializedLengthFromBytes (serSpec t ++ rest) = .ok (serSpec t).length := by
  have h2 := probeCost_le t
  have h3 : (serSpec t).length ≤ 2000000 := hl
  exact len_untrusted t ht rest (by simp only [Gen.initGhostPairs, Gen.maxNumPairs]; omega)

/-- `len_atom`: `serialized_length_atom` (a `u32` function: atoms below 2^32 bytes) is the length
of the atom's encoding -/
theorem len_atom (b : Bytes) (hb : b.length < 2 ^ 32) : serializedLengthAtom b = (atomEnc b).length :=
  serializedLengthAtom_eq b hb

/-- `len_cache`: the object-cache `serialized_length` is the serialized length, as long as it is
below the saturation point 2^64 - 1 of its `u64` arithmetic -/
theorem len_cache (t : Tree) (ht : t.atomsBelow (2 ^ 32)) (hl : (serSpec t).length < 2 ^ 64) :
    cacheSerializedLength t = (serSpec t).length :=
  cacheSerializedLength_eq t ht hl

/-! ### converse -/

/-- `canonical_reser`: if an input decodes (consuming `n` bytes) and those `n` bytes are judged
canonical, then re-serializing the decoded tree gives exactly the consumed bytes -/
theorem canonical_reser (b : Bytes) (t : Tree) (n : Nat)
    (hd : nodeFromBytesConsumed b = .ok (t, n))
    (hc : isCanonicalSerialization (b.take n) = .ok true) :
    t.atomsBelow (2 ^ 34) ∧ serSpec t = b.take n := by
  unfold nodeFromBytesConsumed at hd
  cases hn : nodeFromStream b [.sexp] [] with
  | error e => rw [hn] at hd; cases hd
  | ok r =>
    obtain ⟨T, R⟩ := r
    rw [hn] at hd
    simp only [Except.ok.injEq, Prod.mk.injEq] at hd
    obtain ⟨rfl, rfl⟩ := hd
    unfold isCanonicalSerialization at hc
    have hn' : nodeFromStream (List.drop 0 (b.take (b.length - R.length)) ++ b.drop (b.length - R.length))
        [.sexp] [] = .ok (T, R) := by
      rw [List.drop_zero, List.take_append_drop]; exact hn
    obtain ⟨t, f', _, hat, hle, hsplit, hn2, hc2⟩ := canon_inv _ _ 0 0 _ [] [] T R hc hn'
    rw [nodeFromStream] at hn2
    simp only [Except.ok.injEq, Prod.mk.injEq] at hn2
    obtain ⟨rfl, _⟩ := hn2
    cases f' with
    | zero => simp [isCanonicalGo] at hc2
    | succ f' =>
      rw [isCanonicalGo] at hc2
      simp only [beq_self_eq_true, if_true, Except.ok.injEq, beq_iff_eq, Nat.zero_add] at hc2
      refine ⟨hat, ?_⟩
      rw [List.drop_zero, Nat.zero_add, ← hc2, List.drop_length, List.append_nil] at hsplit
      exact hsplit.symm

/-! ### non-vacuity and samples -/

example : (Tree.pair (.atom [1]) (.pair (.atom []) (.atom (List.replicate 70 0xaa)))).atomsBelow (2 ^ 34) := by
  decide
example : serSpec (.pair (.atom [1]) (.pair (.atom []) (.atom [0x80, 0, 0]))) =
    [0xff, 1, 0xff, 0x80, 0x83, 0x80, 0, 0] := by decide
example : atomEnc (List.replicate 64 7) = 0xc0 :: 0x40 :: List.replicate 64 7 := by decide
example : ∃ b t n, nodeFromBytesConsumed b = .ok (t, n) ∧ isCanonicalSerialization (b.take n) = .ok true :=
  ⟨serSpec (.pair (.atom [1]) (.atom [])) ++ [0x55], .pair (.atom [1]) (.atom []), 3,
    de_ser_consumed _ (by decide) _, ser_canonical (.pair (.atom [1]) (.atom [])) (by decide)⟩

end Clvm.Props.C15
