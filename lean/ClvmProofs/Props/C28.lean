/-
C28 — pure-Python helpers agree with the Rust core.

Models (each a transcription following the Python control flow):
  `ClvmModel/Py/Ser.lean`    ser.py  `size_blob_for_blob`, `atom_to_byte_iterator`, `sexp_to_byte_iterator`
  `ClvmModel/Py/De.lean`     ser.py  `sexp_from_stream`, `_op_read_sexp`, `_op_cons`, `_atom_from_stream`
  `ClvmModel/Py/Casts.lean`  casts.py `int_to_bytes`, `int_from_bytes`
  `ClvmModel/Py/Curry.lean`  curry_and_treehash.py / program.py `curry`, `uncurry`, `curry_hash`, at.py `at`
Rust side: `ClvmModel/Serde/Classic.lean` (`node_to_stream`, `node_from_stream`), `ClvmModel/Alloc/IntEnc.lean`
(`encodeInt`, `decodeInt`), `ClvmModel/TreeHash.lean` (`treeHash`).

`py_de ≃ de` is the full theorem `py_de_eq_rust` since the repair of finding H (/repo 61f724c).

Not proved here: "running a curried program equals running the module with the curried arguments
prepended to the environment" (`curry_run_eq`: needs the interpreter model); it is checked by the
differential oracle `c28run` and the `PYCRUN` lines of the `pycurry` stream.
-/
import ClvmProofs.Lemmas.PySer
import ClvmProofs.Lemmas.PyDe
import ClvmProofs.Lemmas.PyCasts
import ClvmProofs.Lemmas.PyCurry

namespace Clvm.Props.C28
open Clvm Clvm.Py Clvm.Serde.Classic

/-! ### serializer -/

/-- **`sexp_to_bytes` writes the documented classic serialization** of every tree whose atoms are
shorter than 2^34 bytes (the format's maximum). -/
theorem py_ser_spec (t : Tree) (ht : t.atomsBelow (2 ^ 34)) : Ser.sexpToBytes t = .ok (serSpec t) := by
  unfold Ser.sexpToBytes
  rw [SerLemmas.iterator_spec _ [t] [] rfl (by simpa using ht)]
  simp [serList]

/-- **`py_ser = ser`**: Python's `sexp_to_bytes` and Rust's `node_to_stream` (unlimited writer)
produce the same bytes, for all trees in the size range both accept … -/
theorem py_ser_eq_rust (t : Tree) (ht : t.atomsBelow (2 ^ 34)) (b : Bytes) :
    Ser.sexpToBytes t = .ok b ↔ nodeToStream [t] { out := [], limit := none } = .ok { out := b, limit := none } := by
  rw [py_ser_spec t ht, nodeToStream_spec [t] _ (by simpa using ht)]
  simp [Writer.fits, Writer.adv, serList, eq_comm]

/-- … and Rust's `node_to_bytes` (the wheel's `ser_legacy`, limited to the declared 2 000 000 bytes)
returns those same bytes whenever the serialization fits the limit. -/
theorem py_ser_eq_node_to_bytes (t : Tree) (ht : t.atomsBelow (2 ^ 34))
    (hl : (serSpec t).length ≤ Gen.nodeToBytesLimit) : (Ser.sexpToBytes t).toOption = (nodeToBytes t).toOption := by
  rw [py_ser_spec t ht]
  unfold nodeToBytes
  rw [nodeToBytesLimit_spec t ht, if_pos hl]
  rfl

/-- outside that range both sides refuse: an atom of 2^34 bytes or more makes `sexp_to_bytes` raise
(`blob too long`) and `write_atom` fail (`SerializationError`) -/
theorem ser_too_long (a : Bytes) (h : 2 ^ 34 ≤ a.length) (w : Writer) :
    Ser.atomToBytes a = .error (.valueError "blob too long") ∧ writeAtom w a = .error .SerializationError :=
  ⟨SerLemmas.atomToBytes_too_long a h, by simp only [writeAtom, writePrefix_too_big w _ _ h]⟩

theorem py_ser_too_long (t : Tree) (ht : ¬ t.atomsBelow (2 ^ 34)) : ∃ e, Ser.sexpToBytes t = .error e :=
  SerLemmas.iterator_too_long _ [t] [] rfl ⟨t, List.mem_cons_self, ht⟩

/-- `bytes([x])` never raises inside the serializer and the thresholds of ser.py are those of
write_atom.rs (the generated tables are equal) -/
theorem py_thresholds_eq_rust : Gen.pySizeThresholds = Gen.writeAtomThresholds := by decide

/-! ### deserializer -/

/-- the two readers agree on an input: same tree and same unread remainder, or both fail -/
def AgreeOn (inp : Bytes) : Prop :=
  DeLemmas.Agree (De.sexpFromStream inp) (nodeFromStream inp [.sexp] [])

/-- **`py_de ≃ de`.**  For every byte string, the pure-Python stream deserializer accepts exactly
what the Rust classic decoder accepts, yields the same tree and leaves the same bytes unread.
(Before /repo commit 61f724c this was false: finding H, a 7-byte size prefix was accepted by Python;
the old transcription and its witness are in `Lemmas/PyDe.lean`, section "historical".) -/
theorem py_de_eq_rust (inp : Bytes) : AgreeOn inp := by
  have := DeLemmas.loop_agree inp [.sexp] []
  simpa [AgreeOn, De.sexpFromStream, DeLemmas.opMap] using this

/-- acceptance sets coincide -/
theorem py_de_accepts_iff (inp : Bytes) :
    (∃ r, De.sexpFromStream inp = .ok r) ↔ (∃ r, nodeFromStream inp [.sexp] [] = .ok r) := by
  have h := py_de_eq_rust inp
  unfold AgreeOn at h
  cases hp : De.sexpFromStream inp <;> cases hr : nodeFromStream inp [.sexp] [] <;>
    rw [hp, hr] at h <;> simp [DeLemmas.Agree] at h ⊢

/-- … and on acceptance the results are equal -/
theorem py_de_same_result (inp : Bytes) (r : Tree × Bytes) :
    De.sexpFromStream inp = .ok r ↔ nodeFromStream inp [.sexp] [] = .ok r := by
  have h := py_de_eq_rust inp
  unfold AgreeOn at h
  cases hp : De.sexpFromStream inp <;> cases hr : nodeFromStream inp [.sexp] [] <;>
    rw [hp, hr] at h <;> simp [DeLemmas.Agree] at h ⊢
  subst h; rfl

/-- the Python reader inverts the Python writer (and the Rust writer):
`sexp_from_stream (sexp_to_bytes t ++ rest) = (t, rest)` -/
theorem py_de_py_ser (t : Tree) (ht : t.atomsBelow (2 ^ 34)) (rest : Bytes) :
    De.sexpFromStream (serSpec t ++ rest) = .ok (t, rest) := by
  rw [py_de_same_result, nodeFromStream_ser t ht rest [] [], nodeFromStream]

/-- the 7-byte example of the former finding H is now rejected by both readers -/
theorem py_de_rejects_7byte_prefix :
    (∃ e, De.sexpFromStream DeLemmas.witnessH = .error e) ∧
    (∃ e, nodeFromStream DeLemmas.witnessH [.sexp] [] = .error e) :=
  ⟨DeLemmas.new_rejects_witness, DeLemmas.rust_rejects_witness⟩

/-- the `blob too large` bound of ser.py is the decoder bound of parse_atom.rs -/
theorem py_size_bound_eq_rust : Gen.pyBlobTooLarge = Gen.decodeSizeMax := by decide

/-! ### integers -/

/-- **`int_to_bytes` is the Rust canonical (minimal two's complement) encoding**, for every integer -/
theorem int_to_bytes_eq_encodeInt (v : Int) : Casts.intToBytes v = Alloc.encodeInt v :=
  CastsLemmas.intToBytes_eq_encodeInt v

/-- `int_from_bytes` is the Rust decoder of atoms as integers, for every byte string -/
theorem int_from_bytes_eq_decodeInt (b : Bytes) : Casts.intFromBytes b = Alloc.decodeInt b :=
  CastsLemmas.intFromBytes_eq_decodeInt b

/-- round trip for all integers -/
theorem int_from_to (v : Int) : Casts.intFromBytes (Casts.intToBytes v) = v :=
  CastsLemmas.intFromBytes_intToBytes v

/-- `int.to_bytes(byte_count, …)` never raises `OverflowError` -/
theorem int_to_bytes_no_overflow (v : Int) : Casts.fitsSigned (Casts.byteCount v) v = true :=
  CastsLemmas.intToBytes_no_overflow v

/-- the result is minimal: re-encoding a decoded atom never gets longer, and is the identity on
canonical atoms -/
theorem int_to_bytes_minimal (b : Bytes) : (Casts.intToBytes (Casts.intFromBytes b)).length ≤ b.length :=
  CastsLemmas.intToBytes_minimal b

/-! ### curry -/

/-- **`uncurry` inverts `curry`** for every module and argument list -/
theorem uncurry_curry (m : Tree) (args : List Tree) : Curry.uncurry (Curry.curry m args) = (m, some args) :=
  CurryLemmas.uncurry_curry m args

/-- … and only curried programs uncurry -/
theorem uncurry_some_iff (p m : Tree) (args : List Tree) :
    Curry.uncurry p = (m, some args) ↔ p = Curry.curry m args :=
  CurryLemmas.uncurry_eq_some_iff p m args

/-- none of the `assert`s of `uncurry` can fire -/
theorem uncurry_no_assert (p : Tree) : Curry.uncurryE p = .ok (Curry.uncurry p) :=
  CurryLemmas.uncurry_no_assert p

/-- **`curry_hash` is the tree hash of the curried program — for every hash function** in place of
`shatree_atom` / `shatree_pair` (so the equation does not depend on any property of SHA-256), given
the 32-byte check passes -/
theorem curry_hash_eq_tree_hash (shaAtom : Bytes → Bytes) (shaPair : Bytes → Bytes → Bytes) (m : Tree)
    (args : List Tree) (h32 : ∀ a ∈ args, (Curry.treeHashWith shaAtom shaPair a).length = 32) :
    Curry.curryHash shaAtom shaPair m (args.map (Curry.treeHashWith shaAtom shaPair)) =
      .ok (Curry.treeHashWith shaAtom shaPair (Curry.curry m args)) :=
  CurryLemmas.curryHash_eq_treeHash shaAtom shaPair m args h32

/-- the instance for the real hash, without hypothesis: `m.curry_hash(*[a.tree_hash() …]) =
m.curry(*args).tree_hash()`, with `treeHash` the Rust-side definition -/
theorem curry_hash_real (m : Tree) (args : List Tree) :
    Curry.curryHash TreeHash.treeHashAtom TreeHash.treeHashPair m (args.map TreeHash.treeHash) =
      .ok (TreeHash.treeHash (Curry.curry m args)) :=
  CurryLemmas.curryHash_real m args

end Clvm.Props.C28
