/-
C25 — the interpreter is total: no panics, no internal errors.

Every Rust `panic!` / `unwrap` / `expect` / `assert!` / slice index and every `InternalError` site
of the interpreter and of the operators is an explicit outcome of the model (`Err.Panic`,
`Err.InternalError`); totality means these outcomes are unreachable.  This file: the argument-list
helpers every operator goes through.  Per-operator (`OpClean`) and machine-level
(`machine_no_internal`: stack-shape invariant) theorems are added from
`Lemmas/Interp/Clean.lean` / `LiftClean.lean` as they are completed.  The `interp_total` oracle and
the RUN/OP streams (malformed programs, improper lists, wrong arities, every budget class) run the
real crate under `catch_unwind` in a debug-assertions build.
-/
import ClvmProofs.Lemmas.Interp.OpProps
import ClvmProofs.Lemmas.Interp.LiftChia
import ClvmProofs.Lemmas.Interp.LiftCrypto

namespace Clvm.Props.C25
open Clvm Clvm.Interp

theorem getArgs_length {n : Nat} {a : Val} {name : String} {l : List Val}
    (h : getArgs n a name = .ok l) : l.length = n := by
  unfold getArgs matchArgs at h
  simp only at h
  split at h
  · rename_i l' hl
    split at hl
    · rename_i hlen
      simp only [Option.some.injEq] at hl; subst hl
      simp only [Except.ok.injEq] at h; subst h
      simpa using hlen
    · cases hl
  · cases h

/-- the arity `unwrap`s of `get_args::<N>` are unreachable: a failure is always `InvalidOpArg` -/
theorem getArgs1_clean (a : Val) (name : String) (e : Err) (h : getArgs1 a name = .error e) :
    Err.isInternal e = false := by
  unfold getArgs1 at h
  cases hg : getArgs 1 a name with
  | error e' =>
    rw [hg] at h; simp only [Except.error.injEq] at h; subst h
    unfold getArgs at hg; split at hg <;> simp at hg; subst hg; rfl
  | ok l =>
    rw [hg] at h
    have hl := getArgs_length hg
    match l, hl, h with
    | [x], _, h => cases h

theorem getArgs2_clean (a : Val) (name : String) (e : Err) (h : getArgs2 a name = .error e) :
    Err.isInternal e = false := by
  unfold getArgs2 at h
  cases hg : getArgs 2 a name with
  | error e' =>
    rw [hg] at h; simp only [Except.error.injEq] at h; subst h
    unfold getArgs at hg; split at hg <;> simp at hg; subst hg; rfl
  | ok l =>
    rw [hg] at h
    have hl := getArgs_length hg
    match l, hl, h with
    | [x, y], _, h => cases h

theorem getArgs3_clean (a : Val) (name : String) (e : Err) (h : getArgs3 a name = .error e) :
    Err.isInternal e = false := by
  unfold getArgs3 at h
  cases hg : getArgs 3 a name with
  | error e' =>
    rw [hg] at h; simp only [Except.error.injEq] at h; subst h
    unfold getArgs at hg; split at hg <;> simp at hg; subst hg; rfl
  | ok l =>
    rw [hg] at h
    have hl := getArgs_length hg
    match l, hl, h with
    | [x, y, z], _, h => cases h

theorem getArgs4_clean (a : Val) (name : String) (e : Err) (h : getArgs4 a name = .error e) :
    Err.isInternal e = false := by
  unfold getArgs4 at h
  cases hg : getArgs 4 a name with
  | error e' =>
    rw [hg] at h; simp only [Except.error.injEq] at h; subst h
    unfold getArgs at hg; split at hg <;> simp at hg; subst hg; rfl
  | ok l =>
    rw [hg] at h
    have hl := getArgs_length hg
    match l, hl, h with
    | [x, y, z, w], _, h => cases h

/-- path lookup never panics: the fuel of the fast walk (33 ≥ bit length of a `u32`) suffices -/
theorem traversePath_clean (b : Bytes) (env : Val) (e : Err) (h : traversePath b env = .error e) :
    e = .PathIntoAtom := by
  unfold traversePath at h
  simp only at h
  split at h
  · cases h
  · generalize pathBits b = bits at h
    generalize Gen.TRAVERSE_BASE_COST + firstNonZero b * Gen.TRAVERSE_COST_PER_ZERO_BYTE + Gen.TRAVERSE_COST_PER_BIT = c0 at h
    induction bits generalizing env c0 with
    | nil => simp [walk] at h
    | cons bit bits ih =>
      cases env with
      | atom _ _ => simp only [walk, Except.error.injEq] at h; exact h.symm
      | pair l r => simp only [walk] at h; exact ih _ _ h

/-- **Operators are clean**: on well-formed argument lists no core operator (either build) and no
unknown operator returns a panic, an `InternalError` or an abort, and results are well-formed. -/
theorem core_op_clean (cfg : Cfg) (name : String) (f : OpFn) (h : coreOpByName cfg name = some f) :
    OpClean f ∧ OpWf f := ⟨coreOps_clean cfg name f h, coreOps_wf cfg name f h⟩

theorem unknown_op_clean (op : Bytes) : OpClean (opUnknown op) ∧ OpWf (opUnknown op) :=
  ⟨opUnknown_clean op, opUnknown_wf op⟩

/-- **`run_program` never reports an internal error and never panics**: for ChiaDialect with any
flag set, any budget and fuel, any allocator counters, every well-formed program and environment:
if the run fails, the error is not a panic, not an `InternalError`, not an abort.  None of the
machine's own sites ("value stack empty", "environment stack empty", "allocator checkpoint stack
empty", the two `expect`s of `exit_guard`, `atom_len` on a pair, the arity `unwrap`s, the final
`pop`) is reachable (stack-shape invariant, `Lemmas/Interp/LiftShape.lean`).  Assumed of the
cryptographic operators (`extra`): the same per-operator shapes. -/
theorem run_program_no_internal (cfg : Cfg) (extra : String → Option OpFn)
    (hec : ∀ name f, extra name = some f → OpClean f) (hew : ∀ name f, extra name = some f → OpWf f)
    (F fuel : Nat) (c0 : Ctr) (p env : Val) (M : Nat) (hp : p.wf = true) (he : env.wf = true) (e : Err)
    (h : runProgram cfg (chiaDialect cfg extra F) fuel c0 p env M = some (.error e)) :
    Err.isInternal e = false :=
  chia_machine_no_internal cfg extra hec hew F fuel c0 p env M hp he e h

/-- a run that succeeds ends with exactly one value and all other stacks empty -/
theorem final_state {cfg : Cfg} {d : Dialect} {fuel : Nat} {c1 : Ctr} {p env : Val} {mc cost0 C : Nat}
    {s0 sF : MState} (hev : evalPair cfg d { ctr := c1 } p env = .ok (cost0, s0))
    (hrun : runLoop cfg d mc fuel s0 cost0 = some (.ok (C, sF))) :
    (∃ v, sF.valStack = [v]) ∧ sF.envStack = [] ∧ sF.softforkStack = [] ∧ sF.allocatorStack = 0 ∧
      sF.opStack = [] :=
  machine_final_state hev hrun

/-- every tree built through the allocator is well-formed -/
theorem ofTree_wf (t : Tree) : (Val.ofTree t).wf = true := by
  induction t with
  | atom b =>
    simp only [Val.ofTree, Val.mkAtom, Val.newAtomTag]
    cases h : Alloc.fitsInSmallAtom b <;> simp [Val.wf, h]
  | pair l r ihl ihr => simp [Val.ofTree, Val.wf, ihl, ihr]


/-- **The dialect the crate ships** (all operators): on a well-formed program and environment
`run_program` never ends in `InternalError`, a panic or an abort, for every flag set, budget, fuel and
allocator state. -/
theorem chia_no_internal (cfg : Cfg) (F fuel : Nat) (c0 : Ctr) (p env : Val) (M : Nat)
    (hp : p.wf = true) (he : env.wf = true) (e : Err)
    (h : runProgram cfg (chiaDialect cfg cryptoExtra F) fuel c0 p env M = some (.error e)) :
    Err.isInternal e = false :=
  crypto_machine_no_internal cfg F fuel c0 p env M hp he e h

end Clvm.Props.C25
