/-
C14 — allocated nodes are immutable and integers are canonically encoded.

Property theorems only; helper lemmas are in `Lemmas/Alloc*.lean`.  `treeOf a p` is the tree a
node denotes; `nodeBytes a p` the bytes of an atom node (`smallBytes v` for an inline atom,
the heap slice for a buffer atom); `encodeInt`/`decodeInt` the minimal two's complement
big-endian encoding and its inverse.
-/
import ClvmProofs.Lemmas.AllocStep

namespace Clvm.Props.C14
open Clvm Clvm.Alloc

/-! ### immutability -/

/-- `node_stable` for every append-only operation (`Ext` is established for each of them by the
`refines_…` theorems of C12 and by `substr_defect_exact`) -/
theorem node_stable (a a' : Alloc) (p : Ptr) (hI : Inv a) (hE : Ext a a') (hp : Valid a p) :
    Valid a' p ∧ treeOf a' p = treeOf a p := ⟨hE.valid hp, hE.treeOf hI hp⟩

/-- a successful node-creating operation changes no existing node -/
theorem node_stable_op (a : Alloc) (out : Out Ptr) (ref : Except Err (Tree × RefAlloc)) (hI : Inv a)
    (h : Refines a out ref) (p : Ptr) (hp : Valid a p) :
    Valid out.2 p ∧ treeOf out.2 p = treeOf a p := by
  obtain ⟨res, a'⟩ := out
  cases res with
  | ok q =>
    cases ref with
    | ok x => exact node_stable a a' p hI h.2.2.2.2 hp
    | error e => exact absurd h (by simp [Refines])
  | error e =>
    cases ref with
    | ok x => exact absurd h (by simp [Refines])
    | error e' => rw [show a' = a from h.2]; exact ⟨hp, rfl⟩

/-- … including `new_substr` inside the defect region of finding C -/
theorem node_stable_substr_defect (a : Alloc) (v s e : Nat) (hI : Inv a) (hv : Valid a (.small v))
    (hd : substrDefect (.small v) s e = true) (p : Ptr) (hp : Valid a p) :
    treeOf (newSubstr a (.small v) s e).2 p = treeOf a p := by
  by_cases hfull : atomCount a + 1 ≤ Gen.maxNumAtoms
  · obtain ⟨a', h, _, _, _, _, _, hE⟩ := newSubstr_defect a v s e hI hv hd hfull
    rw [h]; exact hE.treeOf hI hp
  · unfold newSubstr
    rw [checkAtomLimit_eq a hI, if_pos (by omega)]

/-- restores to a checkpoint taken after the node was created do not change it -/
theorem node_stable_restore (a : Alloc) (cp : Checkpoint) (hv : CpValid a cp) (p : Ptr) (hp : ValidAt cp.inner p) :
    Valid (restoreCheckpoint a cp).2 p ∧ treeOf (restoreCheckpoint a cp).2 p = treeOf a p := by
  rw [restoreCheckpoint_eq a cp hv]
  exact ⟨restoredC_valid a cp hv hp, restoredC_treeOf a cp hv hp⟩

theorem node_stable_restore_transparent (a : Alloc) (cp : TCheckpoint) (hv : TCpValid a cp) (p : Ptr)
    (hp : ValidAt cp p) :
    Valid (restoreTransparentCheckpoint a cp).2 p ∧
      treeOf (restoreTransparentCheckpoint a cp).2 p = treeOf a p := by
  rw [restoreTransparent_eq a cp hv]
  exact ⟨restoredT_valid a cp hv hp, restoredT_treeOf a cp hv hp⟩

/-- a node is older than a checkpoint taken while it was valid -/
theorem valid_at_checkpoint (a : Alloc) (p : Ptr) (hp : Valid a p) : ValidAt (transparentCheckpoint a) p := hp

/-- (C04, allocator level) value-preserving restore: every node older than the checkpoint keeps
its tree, and the returned node (the old one for `NoReplace`, the replacement for `Replace`)
denotes the tree `ret` denoted; a replaced heap atom is again a heap atom -/
theorem maybe_restore_tree (a : Alloc) (cp : TCheckpoint) (ret : Ptr) (hI : Inv a)
    (hv : TCpValid a cp) (hr : Valid a ret) :
    ∃ r a', maybeRestoreWithNode a cp ret = (.ok r, a') ∧
      match r with
      | .aborted => a' = a
      | .noReplace => Valid a' ret ∧ treeOf a' ret = treeOf a ret ∧
          ∀ p, ValidAt cp p → Valid a' p ∧ treeOf a' p = treeOf a p
      | .replace q => Valid a' q ∧ treeOf a' q = treeOf a ret ∧ (∃ i j, ret = .bytes i ∧ q = .bytes j) ∧
          ∀ p, ValidAt cp p → Valid a' p ∧ treeOf a' p = treeOf a p := by
  obtain ⟨r, a', h, ho⟩ := maybeRestore_ok a cp ret hI hv hr
  refine ⟨r, a', h, ?_⟩
  cases ho with
  | aborted => rfl
  | noReplace _ hw => exact ⟨hw.valid, hw.tree, hw.older⟩
  | replace _ q hb hw => exact ⟨hw.valid, hw.tree, hb, hw.older⟩

/-- full statement over histories: a slot that is valid at the end of a history from a fresh
allocator held the same node after every earlier operation since its creation, and denotes the
same tree as it did then (through later operations and restores to later checkpoints) -/
theorem node_stable_history_partial (limit : Nat) (a0 : Alloc) (ops1 ops2 : List Op) (s1 sf : Session)
    (ts1 ts2 : List (Tag × Nat × Nat × Nat)) (h0 : newLimited limit = .ok a0) (hl : Gen.initGhostHeap ≤ limit)
    (hw1 : ∀ op ∈ ops1, op.wf) (hw2 : ∀ op ∈ ops2, op.wf)
    (hd1 : NoDefect (Session.init a0) ops1) (h1 : (Session.init a0).run ops1 = .ok (s1, ts1))
    (hd2 : NoDefect s1 ops2) (h2 : s1.run ops2 = .ok (sf, ts2))
    (i : Nat) (p : Ptr) (hi : i < s1.slots.length) (hg : sf.getNode i = some p) :
    s1.getNode i = some p ∧ treeOf sf.a p = treeOf s1.a p := by
  have hI := inv_newLimited limit a0 h0 hl
  have hS1 := run_sinv ops1 _ (SInv.init a0 hI.1 hI.2) hw1 hd1 s1 ts1 h1
  exact run_stable ops2 s1 hS1 hw2 hd2 sf ts2 h2 i p hi hg

/-! ### contents of new nodes -/

theorem new_atom_bytes (a : Alloc) (b : Bytes) (hI : Inv a) (p : Ptr) (a' : Alloc)
    (h : newAtom a b = (.ok p, a')) : treeOf a' p = .atom b ∧ Valid a' p ∧ Inv a' := by
  have hr := newAtom_refines a b hI
  rw [h] at hr
  unfold RefAlloc.newAtom at hr
  split at hr
  · exact absurd hr (by simp [Refines])
  · split at hr
    · exact absurd hr (by simp [Refines])
    · exact ⟨hr.2.1, hr.2.2.1, hr.2.2.2.1⟩

theorem new_pair_children (a : Alloc) (l r : Ptr) (hI : Inv a) (hl : Valid a l) (hr : Valid a r) (p : Ptr)
    (a' : Alloc) (h : newPair a l r = (.ok p, a')) :
    treeOf a' p = .pair (treeOf a l) (treeOf a r) ∧ treeOf a' l = treeOf a l ∧ treeOf a' r = treeOf a r := by
  have hf := newPair_refines a l r hI hl hr
  rw [h] at hf
  unfold RefAlloc.newPair at hf
  split at hf
  · exact absurd hf (by simp [Refines])
  · exact ⟨hf.2.1, hf.2.2.2.2.treeOf hI hl, hf.2.2.2.2.treeOf hI hr⟩

/-! ### readers -/

/-- every read API of an atom node returns the bytes it denotes -/
theorem readers_agree (a : Alloc) (p : Ptr) (hI : Inv a) (hv : Valid a p) (hp : isAtomPtr p = true) :
    atom a p = .ok (nodeBytes a p) ∧ atomLen a p = .ok (nodeBytes a p).length ∧
    number a p = .ok (decodeInt (nodeBytes a p)) ∧ treeOf a p = .atom (nodeBytes a p) :=
  ⟨atom_ok a p hI hv hp, atomLen_ok a p hI hv hp, number_ok a p hI hv hp, treeOf_atom a p hp⟩

/-- **`atom_eq` agrees with byte equality**, for every combination of representations -/
theorem atom_eq_iff (a : Alloc) (p q : Ptr) (hI : Inv a) (hvp : Valid a p) (hvq : Valid a q)
    (hp : isAtomPtr p = true) (hq : isAtomPtr q = true) :
    atomEq a p q = .ok (decide (nodeBytes a p = nodeBytes a q)) := atomEq_iff a p q hI hvp hvq hp hq

/-- **the small-integer view exists exactly when the bytes are the minimal encoding of a value
below 2^26** -/
theorem small_number_iff (a : Alloc) (p : Ptr) (hI : Inv a) (hv : Valid a p) (hp : isAtomPtr p = true) (v : Nat) :
    smallNumber a p = .ok (some v) ↔ (nodeBytes a p = encodeInt (v : Int) ∧ v < 2 ^ 26) := by
  rw [smallNumber_ok a p hI hv hp]
  constructor
  · intro h
    exact (fitsInSmallAtom_iff _ v).1 (by injection h)
  · intro h
    rw [(fitsInSmallAtom_iff _ v).2 h]

theorem small_number_total (a : Alloc) (p : Ptr) (hI : Inv a) (hv : Valid a p) (hp : isAtomPtr p = true) :
    ∃ r, smallNumber a p = .ok r := ⟨_, smallNumber_ok a p hI hv hp⟩

/-- `fits_in_small_atom` never hits its `v[1]` index panic and decides the same predicate -/
theorem fits_in_small_atom_iff (b : Bytes) (v : Nat) :
    fitsInSmallAtomE b = .ok (some v) ↔ (b = encodeInt (v : Int) ∧ v < 2 ^ 26) := by
  rw [fitsInSmallAtomE_eq]
  constructor
  · intro h; exact (fitsInSmallAtom_iff b v).1 (by injection h)
  · intro h; rw [(fitsInSmallAtom_iff b v).2 h]

/-- `new_atom` chooses the inline representation exactly for those byte strings -/
theorem new_atom_inline_iff (a : Alloc) (b : Bytes) (hI : Inv a) (p : Ptr) (a' : Alloc)
    (h : newAtom a b = (.ok p, a')) (v : Nat) : p = .small v ↔ (b = encodeInt (v : Int) ∧ v < 2 ^ 26) := by
  unfold newAtom at h
  rw [checkAtomLimit_eq a hI, fitsInSmallAtomE_eq] at h
  by_cases hoom : a.u8.length + a.ghostHeap + b.length > a.heapLimit
  · rw [if_pos hoom] at h; simp at h
  · rw [if_neg hoom] at h
    by_cases hfull : atomCount a + 1 > Gen.maxNumAtoms
    · rw [if_pos hfull] at h; simp at h
    · rw [if_neg hfull] at h
      simp only [] at h
      rw [← fitsInSmallAtom_iff]
      cases hf : fitsInSmallAtom b with
      | none =>
        rw [hf] at h
        simp only [Prod.mk.injEq, Except.ok.injEq] at h
        rw [← h.1]; simp
      | some w =>
        rw [hf] at h
        simp only [Prod.mk.injEq, Except.ok.injEq] at h
        rw [← h.1]; simp

/-! ### integers -/

theorem len_for_value_enc (v : Nat) (h : v < 2 ^ 31) : lenForValue v = (encodeInt (v : Int)).length :=
  lenForValue_enc v h

theorem encode_roundtrip (v : Int) : decodeInt (encodeInt v) = v := decodeInt_encodeInt v

theorem encode_canonical (v : Int) : canonical (encodeInt v) = true := canonical_encodeInt v

theorem encode_unique (b : Bytes) (h : canonical b = true) : encodeInt (decodeInt b) = b := encodeInt_decodeInt b h

/-- minimal: no byte string denoting the same integer is shorter -/
theorem encode_minimal (b : Bytes) : (encodeInt (decodeInt b)).length ≤ b.length := encodeInt_minimal b

/-- what every integer constructor guarantees, derived from its refinement of `RefAlloc.newInt` -/
theorem int_stored (a : Alloc) (v : Int) (out : Out Ptr) (h : Refines a out ((abs a).newInt v))
    (p : Ptr) (a' : Alloc) (ho : out = (.ok p, a')) :
    atom a' p = .ok (encodeInt v) ∧ number a' p = .ok v := by
  subst ho
  unfold RefAlloc.newInt RefAlloc.newAtom at h
  split at h
  · exact absurd h (by simp [Refines])
  · split at h
    · exact absurd h (by simp [Refines])
    · obtain ⟨_, ht, hv, hI', _⟩ := h
      have hat : isAtomPtr p = true := by
        cases p with
        | pair i =>
          obtain ⟨l, r, hlr⟩ := treeOf_valid_pair a' hI' i hv
          rw [hlr] at ht; cases ht
        | _ => rfl
      have hb : nodeBytes a' p = encodeInt v := by
        have := treeOf_atom a' p hat
        rw [ht] at this
        injection this with this
        exact this.symm
      rw [atom_ok a' p hI' hv hat, number_ok a' p hI' hv hat, hb, decodeInt_encodeInt]
      exact ⟨rfl, rfl⟩

/-- **`new_u64`** stores the minimal encoding and reads back as the same value -/
theorem new_u64_enc (a : Alloc) (v : Nat) (hI : Inv a) (hv : v < 2 ^ 64) (p : Ptr) (a' : Alloc)
    (h : newU64 a v = (.ok p, a')) : atom a' p = .ok (encodeInt (v : Int)) ∧ number a' p = .ok (v : Int) :=
  int_stored a v _ (newU64_refines a v hI hv) p a' h

/-- **`new_i64`** -/
theorem new_i64_enc (a : Alloc) (v : Int) (hI : Inv a) (h1 : -(2 : Int) ^ 63 ≤ v) (h2 : v < (2 : Int) ^ 63)
    (p : Ptr) (a' : Alloc) (h : newI64 a v = (.ok p, a')) :
    atom a' p = .ok (encodeInt v) ∧ number a' p = .ok v :=
  int_stored a v _ (newI64_refines a v hI h1 h2) p a' h

/-- **`new_number`** (num-bigint's `to_signed_bytes_be` + the leading-zero stripping loop; the
malachite variant has the same body) -/
theorem new_number_enc (a : Alloc) (v : Int) (hI : Inv a) (p : Ptr) (a' : Alloc)
    (h : newNumber a v = (.ok p, a')) : atom a' p = .ok (encodeInt v) ∧ number a' p = .ok v :=
  int_stored a v _ (newNumber_refines a v hI) p a' h

/-- **`new_small_number`** -/
theorem new_small_number_enc (a : Alloc) (v : Nat) (hI : Inv a) (hv : v < 2 ^ Gen.nodePtrIdxBits) (p : Ptr)
    (a' : Alloc) (h : newSmallNumber a v = (.ok p, a')) :
    atom a' p = .ok (encodeInt (v : Int)) ∧ number a' p = .ok (v : Int) :=
  int_stored a v _ (newSmallNumber_refines a v hI (by unfold idxMask; omega)) p a' h

/-- the byte-level transcription of the encoders agrees with the specification for every integer -/
theorem encoders_agree (v : Int) :
    stripLeadingZeros (toSignedBytesBE v) = encodeInt v ∧
    (0 ≤ v → v < (2 : Int) ^ 64 → u64Bytes v.toNat = encodeInt v) ∧
    (-(2 : Int) ^ 63 ≤ v → v < 0 → i64NegBytes v = encodeInt v) := by
  refine ⟨strip_toSigned v, fun h0 h1 => ?_, fun h0 h1 => i64NegBytes_enc v h0 h1⟩
  have := u64Bytes_enc v.toNat (by omega)
  rwa [Int.toNat_of_nonneg h0] at this

end Clvm.Props.C14
