/-
C03 — evaluation is independent of heap history and atom representation.

`Val` carries one tag per atom (inline small integer / heap bytes); `Val.erase` forgets it.  Two
values with the same erasure, both satisfying the representation invariant `Val.wf` (an inline atom
holds canonical bytes of a value < 2^26), are two *re-encodings* of the same tree.  Heap history:
the machine model takes the allocator only through its counters `Ctr`; nothing else of an
allocator's past is an input of `runProgram` (the validated-point cache is not in the model: the
cryptographic operators are functions of their argument bytes, which the `interp_repr` oracle checks
on the implementation by running after unrelated allocations, earlier runs and failed runs).
-/
import ClvmProofs.Lemmas.Interp.Repr
import ClvmProofs.Lemmas.Interp.ReprMachine
import ClvmProofs.Lemmas.Interp.ReprChia
import ClvmProofs.Lemmas.Interp.ReprHistory
import ClvmProofs.Lemmas.Interp.ReprMono

namespace Clvm.Props.C03
open Clvm Clvm.Interp

/-- **Operators.** Every core operator except `op_substr` — in both builds — gives, on re-tagged
argument lists, the same error kind, or the same cost, the same erased value and the same atom /
pair / heap counts. -/
theorem op_repr (cfg : Cfg) (name : String) (f : OpFn) (h : coreOpByName cfg name = some f)
    (hne : name ≠ "op_substr") : OpRepr true f :=
  coreOps_repr cfg name f h hne

theorem unknown_op_repr (op : Bytes) : OpRepr true (opUnknown op) := opUnknown_repr op

/-- `op_substr`: same outcome, value, cost, atom and pair counts under re-tagging … -/
theorem substr_repr : OpRepr false opSubstr := opSubstr_repr

/-- … and the same heap size outside the defect region (source atom inline in exactly one of the
two runs *and* the selected sub-string not a canonical small integer) -/
theorem substr_repr_heap_partial (flags m : Nat) (a a' : Val) (c : Ctr)
    (hw : a.wf = true) (hw' : a'.wf = true) (he : a.erase = a'.erase) (hd : substrDefect a a' = false) :
    ResEraseEq true (opSubstr flags m a c) (opSubstr flags m a' c) :=
  opSubstr_repr_heap_partial flags m a a' c hw hw' he hd

/-- inside the region the heap sizes differ (known finding C: `new_substr` on an inline atom with a
non-canonical sub-string appends to the heap) -/
theorem substr_repr_witness :
    (substrWitnessArgs true).wf = true ∧ (substrWitnessArgs false).wf = true ∧
    (substrWitnessArgs true).erase = (substrWitnessArgs false).erase ∧
    opSubstr 0 0 (substrWitnessArgs true) (Ctr.new 1000) =
      .ok (1, .atom [0x00] false, { Ctr.new 1000 with atoms := (Ctr.new 1000).atoms + 1, heap := (Ctr.new 1000).heap + 1 }) ∧
    opSubstr 0 0 (substrWitnessArgs false) (Ctr.new 1000) =
      .ok (1, .atom [0x00] false, { Ctr.new 1000 with atoms := (Ctr.new 1000).atoms + 1 }) :=
  opSubstr_repr_witness

/-- **Whole runs (partial), any operator table.** For `ChiaDialect` with any flags (ENABLE_GC
included): two runs on re-encoded programs and environments that never call `op_substr` inside the
defect region (the guarded dialect answers) are runs of the real dialect and end with the same error
kind, or the same cost, erased result and counts.  The runs may need different fuel: `gc_candidate`
accepts only an inline operator atom, so under ENABLE_GC one run can take more `RestoreAllocator`
steps (which change nothing but the operation stack).  Hypotheses on operators: `OpWf`, and the
operator-level shape for `extra`; discharged for all operators in `chia_eval_retag_partial`. -/
theorem eval_retag_partial (cfg : Cfg) (extra : String → Option OpFn) (flags0 : Flags)
    (hcore : ∀ name f, coreOpByName cfg name = some f → OpWf f)
    (hunk : ∀ op, OpWf (opUnknown op))
    (hextra : ∀ name f, extra name = some f → OpRepr true f ∧ OpWf f)
    (fuel fuel' : Nat) (c0 : Ctr) (program program' env env' : Val)
    (hpw : program.wf = true) (hpw' : program'.wf = true) (hpe : program.erase = program'.erase)
    (hew : env.wf = true) (hew' : env'.wf = true) (hee : env.erase = env'.erase)
    (maxCost : Nat) (r r' : OpRes)
    (hr : runProgram cfg ((chiaDialect cfg extra flags0).guard substrGuard) fuel c0 program env maxCost = some r)
    (hr' : runProgram cfg ((chiaDialect cfg extra flags0).guard substrGuard) fuel' c0 program' env' maxCost = some r') :
    runProgram cfg (chiaDialect cfg extra flags0) fuel c0 program env maxCost = some r ∧
    runProgram cfg (chiaDialect cfg extra flags0) fuel' c0 program' env' maxCost = some r' ∧
    ResEraseEq true r r' :=
  eval_retag_chia_partial cfg extra flags0 hcore hunk hextra fuel fuel' c0 program program' env env'
    hpw hpw' hpe hew hew' hee maxCost r r' hr hr'

/-- **Whole runs (partial), ChiaDialect with every operator and every flag set**: no operator
hypotheses; only the defect region of `op_substr` (known finding C) is excluded. -/
theorem chia_eval_retag_partial (cfg : Cfg) (F : Flags)
    (fuel fuel' : Nat) (c0 : Ctr) (program program' env env' : Val)
    (hpw : program.wf = true) (hpw' : program'.wf = true) (hpe : program.erase = program'.erase)
    (hew : env.wf = true) (hew' : env'.wf = true) (hee : env.erase = env'.erase)
    (maxCost : Nat) (r r' : OpRes)
    (hr : runProgram cfg ((chiaDialect cfg cryptoExtra F).guard substrGuard) fuel c0 program env maxCost = some r)
    (hr' : runProgram cfg ((chiaDialect cfg cryptoExtra F).guard substrGuard) fuel' c0 program' env' maxCost = some r') :
    runProgram cfg (chiaDialect cfg cryptoExtra F) fuel c0 program env maxCost = some r ∧
    runProgram cfg (chiaDialect cfg cryptoExtra F) fuel' c0 program' env' maxCost = some r' ∧
    ResEraseEq true r r' :=
  Interp.chia_eval_retag_partial cfg F fuel fuel' c0 program program' env env'
    hpw hpw' hpe hew hew' hee maxCost r r' hr hr'

/-- the cryptographic operators satisfy the operator-level shape -/
theorem crypto_op_repr (name : String) (f : OpFn) (h : cryptoExtra name = some f) : OpRepr true f :=
  cryptoExtra_repr name f h

/-- **Heap history, operators.** Called with two different sets of allocator counters, an operator
gives the same cost and the same value (tags included), or the same error — unless one of the two
calls stops at an allocator limit (`OutOfMemory`, `TooManyAtoms`, `TooManyPairs`). -/
theorem op_history (cfg : Cfg) (name : String) (f : OpFn)
    (h : coreOpByName cfg name = some f ∨ cryptoExtra name = some f) : OpCtrIndep f :=
  h.elim (coreOps_ctr cfg name f) (cryptoExtra_ctr name f)

theorem unknown_op_history (op : Bytes) : OpCtrIndep (opUnknown op) := opUnknown_ctr op

/-- **Heap history, whole runs.** ChiaDialect with every operator and every flag set: two runs of
the same program and environment from different allocator counters (an allocator with any past)
that both answer give the same cost and the same value, or the same error, unless one of them stops
at an allocator limit. -/
theorem run_history (cfg : Cfg) (F : Flags) (fuel : Nat) (c0 c0' : Ctr) (program env : Val) (maxCost : Nat)
    (r r' : OpRes)
    (hr : runProgram cfg (chiaDialect cfg cryptoExtra F) fuel c0 program env maxCost = some r)
    (hr' : runProgram cfg (chiaDialect cfg cryptoExtra F) fuel c0' program env maxCost = some r') :
    CtrIndepRes r r' :=
  chia_run_history cfg F fuel c0 c0' program env maxCost r r' hr hr'

/-- … read out when neither run stops at a limit: equal cost and value, or equal error -/
theorem run_history_no_limit (cfg : Cfg) (F : Flags) (fuel : Nat) (c0 c0' : Ctr) (program env : Val)
    (maxCost : Nat) (r r' : OpRes)
    (hr : runProgram cfg (chiaDialect cfg cryptoExtra F) fuel c0 program env maxCost = some r)
    (hr' : runProgram cfg (chiaDialect cfg cryptoExtra F) fuel c0' program env maxCost = some r')
    (hl : ∀ e, r = .error e → e.isLimit = false) (hl' : ∀ e, r' = .error e → e.isLimit = false) :
    (∃ k v c c', r = .ok (k, v, c) ∧ r' = .ok (k, v, c')) ∨ (∃ e, r = .error e ∧ r' = .error e) :=
  (chia_run_history cfg F fuel c0 c0' program env maxCost r r' hr hr').no_limit hl hl'

/-- **Heap history, monotone in the headroom.** ChiaDialect with every operator and every flag
set: a run that succeeds from the counters `c0` succeeds — same fuel, same cost, same value — from
every `c0'` with at least as much headroom in all three counters (not more atoms, not more pairs, at
least the same heap slack `heapLimit - heap`), and the final counters are again in that relation
(the allocation deltas of every operator do not depend on the starting counters:
`coreOps_mono`, `opUnknown_mono`, `cryptoExtra_mono`). -/
theorem run_history_monotone (cfg : Cfg) (F : Flags) (fuel : Nat) (c0 c0' : Ctr) (program env : Val)
    (maxCost : Nat) (k : Nat) (v : Val) (c1 : Ctr)
    (hatoms : c0'.atoms ≤ c0.atoms) (hpairs : c0'.pairs ≤ c0.pairs)
    (hheap : c0'.heap + c0.heapLimit ≤ c0'.heapLimit + c0.heap)
    (h : runProgram cfg (chiaDialect cfg cryptoExtra F) fuel c0 program env maxCost = some (.ok (k, v, c1))) :
    ∃ c1', runProgram cfg (chiaDialect cfg cryptoExtra F) fuel c0' program env maxCost = some (.ok (k, v, c1')) ∧
      c1'.atoms ≤ c1.atoms ∧ c1'.pairs ≤ c1.pairs ∧ c1'.heap + c0.heapLimit ≤ c0'.heapLimit + c1.heap :=
  chia_run_history_monotone cfg F fuel c0 c0' program env maxCost k v c1 hatoms hpairs hheap h

/-- the full statement (all programs, `heapToo = false`), kept visible -/
def Statement : Prop := EvalRetagStatement

/-- a whole program showing the heap difference: `(substr (q . 0x0080) (q . 0) (q . 1))` -/
theorem whole_run_heap_witness :
    (substrProg true).wf = true ∧ (substrProg false).wf = true ∧
    (substrProg true).erase = (substrProg false).erase ∧
    runProgram {} (chiaDialect {} (fun _ => none) 0) 20 (Ctr.new 1000) (substrProg true) Val.nil 0 =
      some (.ok (62, .atom [0] false, { atoms := 4, pairs := 3, heap := 2, heapLimit := 1000 })) ∧
    runProgram {} (chiaDialect {} (fun _ => none) 0) 20 (Ctr.new 1000) (substrProg false) Val.nil 0 =
      some (.ok (62, .atom [0] false, { atoms := 4, pairs := 3, heap := 1, heapLimit := 1000 })) :=
  eval_retag_heap_witness

end Clvm.Props.C03
