/-
C17 — back-reference serialization round-trips and never grows.

Property theorems only; helper lemmas are in `Lemmas/BackrefSer*.lean`.  The models are
`ClvmModel/Serde/SerBr.lean` (`src/serde/ser_br.rs`), `ClvmModel/Serde/ReadCache.lean`
(`src/serde/read_cache_lookup.rs`, node identity = tree content) and the decoders of
`ClvmModel/Serde/Backref.lean`.
-/
import ClvmProofs.Lemmas.BackrefSer

namespace Clvm.Props.C17
open Clvm Clvm.Backref Clvm.Serde Clvm.Serde.ReadCache Clvm.Serde.SerBr

/-- the serializer and the decoders use the same two markers -/
theorem markers_agree : Gen.serBrBackReference = Gen.deBrBackReference ∧
    Gen.serBrConsBoxMarker = Gen.deBrConsBoxMarker := by decide

end Clvm.Props.C17
