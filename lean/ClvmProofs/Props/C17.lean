/-
C17 — back-reference serialization round-trips and never grows.

Property theorems only; helper lemmas are in `Lemmas/BackrefSer.lean` (invariants of
`ReadCacheLookup`, soundness of `find_path`) and `Lemmas/BackrefRoundTrip.lean` (serializer/decoder
lock step).  The models are `ClvmModel/Serde/SerBr.lean` (`src/serde/ser_br.rs`),
`ClvmModel/Serde/ReadCache.lean` (`src/serde/read_cache_lookup.rs`; node identity = tree content,
i.e. SHA-256 tree hashes are assumed collision-free) and the decoders of `ClvmModel/Serde/Backref.lean`.

Determinism.  `nodeToBytesBackrefs` is a pure function of the tree's content, so "identical from run
to run" holds by construction of the model; what it rests on in the Rust is stated in
`tools/props/C17.json` (no iteration over `count`, `parent_lookup`, `seen_ids`, the `ObjectCache`
maps; read cache keyed by tree hash, not by `NodePtr`; candidate paths are sorted before one is
chosen).  The correspondence stream and the run-to-run / allocator-to-allocator oracle tie the model
to the crate on this point.
-/
import ClvmProofs.Lemmas.BackrefCodec
import ClvmProofs.Lemmas.BackrefTokenLen

namespace Clvm.Props.C17
open Clvm Clvm.Backref Clvm.Serde Clvm.Serde.Backref Clvm.Serde.ReadCache Clvm.Serde.SerBr

/-- the serializer and the decoders use the same two markers -/
theorem markers_agree : Gen.serBrBackReference = Gen.deBrBackReference ∧
    Gen.serBrConsBoxMarker = Gen.deBrConsBoxMarker := by decide

/-- **`parent_sound` and `stack_mirror` are invariants of `ReadCacheLookup`**: they hold initially and
are preserved by `push` and `pop2_and_cons`; `push id` conses `id` onto the tracked root, and
`pop2_and_cons` turns the tracked root `(r . (l . rest))` into `((l . r) . rest)` — exactly the
decoder's stack operations. -/
theorem rcl_invariant :
    RInv RCL.new ∧
    (∀ (s : RCL) (id : Tree), RInv s → RInv (s.push id) ∧ (s.push id).root = Tree.pair id s.root) ∧
    (∀ (s s' : RCL), RInv s → s.pop2AndCons = .ok s' →
      RInv s' ∧ ∃ l r rest, s.root = Tree.pair r (Tree.pair l rest) ∧ s'.root = Tree.pair (Tree.pair l r) rest) :=
  ⟨RInv.new, fun _ id h => h.push id, fun _ _ h hp => pop2AndCons_spec h hp⟩

/-- **`find_path_sound`**: whatever the counts say, a path returned by `find_path` encodes a list of
directions that leads from the tracked root to the requested node, and its serialized atom is at
most `serialized_length - 1` bytes long (so `0xfe` + path never exceeds the node's own
serialization). -/
theorem find_path_sound (s : RCL) (hs : RInv s) (id : Tree) (sl : Nat) (b : Bytes)
    (h : s.findPath id sl = .ok (some b)) :
    ∃ path, reversedPathToVecU8 path = .ok b ∧ follow path.reverse s.root = some id ∧
      ∃ pl, atomLengthBits (path.length + 1) = .ok (some pl) ∧ pl ≤ sl - 1 :=
  findPath_sound s hs id sl b h

/-- the round-trip statement: whatever `node_to_stream_backrefs` wrote for `t` (to an unlimited
or a size-limited writer) is decoded by the legacy and by the current decoder to `t` again,
consuming exactly those bytes — unless the decoder's allocator runs into one of its limits
(`TooManyPairs`, `TooManyAtoms`, `OutOfMemory`). -/
def RoundTrip : Prop :=
  ∀ (t : Tree) (w w' : Classic.Writer), nodeToStreamBackrefs t w = .ok w' →
    ∃ out, w'.out = w.out ++ out ∧ ∀ (rest : Bytes) (c : Ctr), c.pairs + c.ghostPairs ≤ Gen.maxNumPairs →
      ((∃ e, deBrOld (out ++ rest) [.sexp] Tree.nil c = .error e ∧ limitErr e) ∨
        ∃ c', deBrOld (out ++ rest) [.sexp] Tree.nil c = .ok (t, rest, c')) ∧
      ((∃ e, deBrNew (out ++ rest) [.sexp] [] c = .error e ∧ limitErr e) ∨
        ∃ c', deBrNew (out ++ rest) [.sexp] [] c = .ok (t, rest, c'))

/-- **The path codec is correct**: the bytes `reversed_path_to_vec_u8` writes for a list of directions
(terminator bit on top, first step from the root in the least significant bit) are walked by
`traverse_path` along exactly these directions. -/
theorem path_codec (path : List Bool) (b : Bytes) (t r : Tree) (h : reversedPathToVecU8 path = .ok b)
    (hf : follow path.reverse t = some r) : ∃ cost, TraversePath.traversePath b t = .ok (cost, r) :=
  pathCodec path b t r h hf

/-- **`de_br (ser_br t) = t`** for every tree, from the lock-step invariant "tracked root = decoder
stack" (`rcl_invariant`), `find_path_sound` and `path_codec`. -/
theorem de_br_ser_br : RoundTrip := by
  have codec : PathCodec := pathCodec
  intro t w w' h
  unfold nodeToStreamBackrefs at h
  obtain ⟨out, ho, hd⟩ := serLoop_decodes codec _ [t] rfl [.parse] RCL.new w w' (Tree.pair t Tree.nil) h
    RInv.new (by simp) (by simp [finalRoot, RCL.new])
  refine ⟨out, ho, fun rest c hc => ?_⟩
  have hold : (∃ e, deBrOld (out ++ rest) [.sexp] Tree.nil c = .error e ∧ limitErr e) ∨
      ∃ c', deBrOld (out ++ rest) [.sexp] Tree.nil c = .ok (t, rest, c') := by
    rcases hd rest c hc with ⟨e, he, hl⟩ | ⟨c', _, he⟩
    · exact .inl ⟨e, he, hl⟩
    · right
      refine ⟨c', ?_⟩
      have : deBrOld (out ++ rest) (opsOf [.parse]) RCL.new.root c = deBrOld rest [] (Tree.pair t Tree.nil) c' := he
      rw [show opsOf [.parse] = [.sexp] from rfl, show RCL.new.root = Tree.nil from rfl] at this
      rw [this, deBrOld]
  refine ⟨hold, ?_⟩
  have hrel : Rel [] c Tree.nil c := ⟨rfl, trivial, Nat.zero_le _, hc, SameTotals.refl c⟩
  have hs := deBr_sim _ (out ++ rest) rfl [.sexp] [] c Tree.nil c hrel
  revert hs
  generalize deBrNew (out ++ rest) [.sexp] [] c = X
  intro hs
  rcases hold with ⟨e, he, hl⟩ | ⟨c', he⟩
  · rw [he] at hs
    left
    cases hs with
    | err hn =>
      rename_i e1
      refine ⟨e1, rfl, ?_⟩
      cases e <;> cases e1 <;> simp_all [normErr, limitErr]
  · rw [he] at hs
    right
    cases hs with
    | ok hr =>
      rename_i r
      obtain ⟨t', rest', c1⟩ := r
      obtain ⟨h1, h2, _⟩ := hr
      simp only at h1 h2
      subst h1; subst h2
      exact ⟨c1, rfl⟩

/-- **`ser_br (de_br (ser_br t)) = ser_br t`** (function of content): anything a decoder returns for
the serializer's output re-serializes to the same bytes. -/
theorem ser_de_ser (t t' : Tree) (b rest' : Bytes) (c c' : Ctr)
    (hinv : c.pairs + c.ghostPairs ≤ Gen.maxNumPairs)
    (hser : nodeToBytesBackrefs t = .ok b) (hde : deBrNew b [.sexp] [] c = .ok (t', rest', c')) :
    nodeToBytesBackrefs t' = .ok b := by
  unfold nodeToBytesBackrefs at hser
  cases hw : nodeToStreamBackrefs t { out := [], limit := none } with
  | error e => simp [hw] at hser
  | ok w' =>
    simp only [hw, Except.ok.injEq] at hser
    obtain ⟨out, ho, hd⟩ := de_br_ser_br t _ w' hw
    have hb : b = out := by rw [← hser, ho]; rfl
    have := (hd [] c hinv).2
    rw [List.append_nil, ← hb, hde] at this
    rcases this with ⟨e, he, _⟩ | ⟨c'', he⟩
    · cases he
    · simp only [Except.ok.injEq, Prod.mk.injEq] at he
      obtain ⟨rfl, _, _⟩ := he
      unfold nodeToBytesBackrefs
      rw [hw]
      simp only [hser]

/-- **A back-reference token is never longer than what it replaces** (step (a) of *never grows*):
when `find_path` returns path bytes `b` for a node whose classic serialization is `sl` bytes long,
the token `0xfe ++ write_atom(b)` is at most `sl` bytes long — `atom_length_bits(|path| + 1)`,
the number `find_path` compares with `sl - 1`, *is* the length of `write_atom`'s output
(`path_token_length`).  Needs `1 ≤ sl` (every serialization has at least one byte). -/
theorem backref_token_le (s : RCL) (hs : RInv s) (id : Tree) (sl : Nat) (b : Bytes) (hsl : 1 ≤ sl)
    (h : s.findPath id sl = .ok (some b)) : 1 + (Classic.atomEnc b).length ≤ sl := by
  obtain ⟨path, hb, _, pl, hpl, hle⟩ := find_path_sound s hs id sl b h
  rw [path_token_length path b pl hb hpl]; omega

/-! ### parts of C17 that are stated but not proved here

They are checked on the implementation by the `backref_c17` oracle (`ser_br_never_grows`,
`ser_br_canonical`, `ser_br_total`) and byte for byte against this model by the `backref_ser`
stream. -/

/-- *Never grows* (not proved).  What is proved is its core inequality, the last conjunct of
`find_path_sound`: a back-reference is emitted only if `atom_length_bits(path bits) ≤
serialized_length(node) - 1`.  Step (a), `atom_length_bits(|path| + 1)` = length of `write_atom`'s
output for the path bytes, is proved (`backref_token_le`).  Missing: (b) the sum over
the write stack, (c) `Classic.cacheSerializedLength = |ser|` (C15 `len_cache`). -/
def NeverGrows : Prop :=
  ∀ (t : Tree) (b : Bytes), t.atomsBelow (2 ^ 32) → nodeToBytesBackrefs t = .ok b →
    b.length ≤ (Classic.serSpec t).length

/-- *Output is canonical* (not proved): needs the `is_canonical_serialization` step for a
back-reference token on top of C15's `isCanonicalGo_atom`. -/
def OutputCanonical : Prop :=
  ∀ (t : Tree) (b : Bytes), nodeToBytesBackrefs t = .ok b → Classic.isCanonicalSerialization b = .ok true

/-- *The serializer is total* (not proved): `node_to_bytes_backrefs` returns bytes for every tree
whose atoms are shorter than 2^34 bytes; i.e. the `u32` reference counts of `ReadCacheLookup::pop`
never underflow, `pop` never meets an empty stack, the `assert!` on the operation stack holds and
the search fuel `max_path_length + 2` suffices.  (`de_br_ser_br` is stated for whatever the
serializer returns, so it does not depend on this.) -/
def SerTotal : Prop :=
  ∀ (t : Tree), t.atomsBelow (2 ^ 34) → ∃ b, nodeToBytesBackrefs t = .ok b

end Clvm.Props.C17
