/-
C23 — the native `sha256tree` operator is cheaper than the standard ChiaLisp program.

Model: the small-step machine `ClvmModel/Interp/Machine.lean` (`runProgram`) under `chiaDialect`;
the program is the constant extracted from `/repo/tools/src/bin/sha256tree-benching.rs`
(`ClvmModel/Spec/Sha256TreeProg.lean`).  The evaluation is derived with the big-step rules of
`ClvmProofs/Lemmas/Interp/BigStep.lean` in `ClvmProofs/Lemmas/Interp/ShaTreeProg.lean`.

The two programs compared, on the same tree `T` and under the same flags:
* ChiaLisp: `run_program(PROG, T)` — the extracted program with `T` as its environment;
* native:   `run_program((sha256tree (q . T)), ())` — the operator applied to the quoted tree
  (flag `ENABLE_SHA256_TREE`), whose cost is `OP_COST + QUOTE_COST +` the operator's cost
  (`Props/C22.lean`, `costed_cost_formula`).
-/
import ClvmProofs.Lemmas.Interp.ShaTreeProg
import ClvmProofs.Lemmas.Interp.ShaTreeNative
import ClvmProofs.Lemmas.RefBase
import ClvmModel.Interp.CryptoOps

namespace Clvm.Props.C23
open Clvm Clvm.Interp Clvm.Interp.ShaTree

/-- **The program is the extracted one.**  `node_from_bytes` of the bytes in the benchmark tool gives
the explicit tree `Spec.ShaTree.prog`, and the value the allocator builds for it is `progV`
(all its atoms are inline small atoms). -/
theorem program_extracted :
    (bytesOfHex Gen.sha256treeProgHex).map Serde.Classic.nodeFromBytes = some (.ok Spec.ShaTree.prog) ∧
    Val.ofTree Spec.ShaTree.prog = progV :=
  ⟨prog_parses, progV_eq⟩

/-- cost of running the ChiaLisp program on `t`: `a·pairs + b·atoms + c·Σlen + 607` -/
def clvmCost (nm : Bool) (t : Tree) : Nat :=
  pairCoeff nm * t.pairs + atomCoeff nm * t.atoms + shaByte nm * TreeHash.sumLen t + 607

/-- the coefficients, computed from the generated constants (`apply` 90, `quote` 20, operator 1,
`c` 50, paths 44/48/52/56, `i` 33|330, `l` 19|200, `sha256` 87+134/arg+2/byte | 1000+160/arg+6/byte,
malloc 10/byte): old model `2019·pairs + 1031·atoms + 2·Σlen + 607`, new model
`3748·pairs + 2478·atoms + 6·Σlen + 607` -/
theorem clvm_cost_constants (t : Tree) :
    clvmCost false t = 2019 * t.pairs + 1031 * t.atoms + 2 * TreeHash.sumLen t + 607 ∧
    clvmCost true t = 3748 * t.pairs + 2478 * t.atoms + 6 * TreeHash.sumLen t + 607 := by
  obtain ⟨h1, h2, h3, h4, h5, h6⟩ := coeff_values
  simp only [clvmCost, h1, h2, h3, h4, h5, h6, and_self]

theorem progCost_eq (nm : Bool) (t : Tree) : progCost nm t = clvmCost nm t := by
  simp only [progCost, clvmCost, bodyCost_closed]; omega

/-- **`clvm_treehash_cost` (any well-formed environment value).**  For every build configuration, every
crypto-operator table, every flag set `F` (old or new cost model, with or without `ENABLE_GC`, …) and
every well-formed value `T` (any mixture of inline and heap atoms): if the value stack has room for the
recursion (`4·depth + 22 ≤ 20 000 000`), the allocator has room for `13 + 25·pairs + 8·atoms` pairs, one
32-byte atom per node, and the budget covers the cost, then `run_program(PROG, T)` (with enough fuel for
the model's loop) succeeds with the tree hash of `T`, cost exactly `clvmCost`, and exactly those
allocations. -/
theorem clvm_treehash_cost_val (cfg : Cfg) (extra : String → Option OpFn) (F : Nat) (T : Val)
    (hw : T.wf = true) (c0 : Ctr) (mc0 : Nat)
    (hd : 4 * depth T.erase + 22 ≤ Gen.STACK_SIZE_LIMIT)
    (hp : c0.pairs + 13 + (25 * T.erase.pairs + 8 * T.erase.atoms) ≤ Gen.maxNumPairs)
    (ha : c0.atoms + 1 + T.erase.size ≤ Gen.maxNumAtoms)
    (hh : c0.heap + 32 * T.erase.size ≤ c0.heapLimit)
    (hc : clvmCost (newModel F) T.erase ≤ (if mc0 == 0 then U64_MAX else mc0)) :
    ∃ fuel0, ∀ fuel, fuel0 ≤ fuel →
      runProgram cfg (chiaDialect cfg extra F) fuel c0 (Val.ofTree Spec.ShaTree.prog) T mc0 =
        some (.ok (clvmCost (newModel F) T.erase, Val.mkAtom (TreeHash.treeHash T.erase),
          c0.bump (1 + T.erase.size) (13 + (25 * T.erase.pairs + 8 * T.erase.atoms)) (32 * T.erase.size))) := by
  rw [progV_eq, ← progCost_eq]
  have hn : nodes T.erase = T.erase.size := nodes_closed _
  have := prog_runs (cfg := cfg) (extra := extra) (F := F) T hw c0 mc0 hd
    (by rw [pairsUsed_closed]; omega) (by rw [hn]; omega) (by rw [hn]; omega) (by rw [progCost_eq]; exact hc)
  rw [pairsUsed_closed, hn] at this
  exact this

/-- **`clvm_treehash_cost`**, for a tree as `node_from_bytes` builds it -/
theorem clvm_treehash_cost (cfg : Cfg) (extra : String → Option OpFn) (F : Nat) (T : Tree) (c0 : Ctr) (mc0 : Nat)
    (hd : 4 * depth T + 22 ≤ Gen.STACK_SIZE_LIMIT)
    (hp : c0.pairs + 13 + (25 * T.pairs + 8 * T.atoms) ≤ Gen.maxNumPairs)
    (ha : c0.atoms + 1 + T.size ≤ Gen.maxNumAtoms)
    (hh : c0.heap + 32 * T.size ≤ c0.heapLimit)
    (hc : clvmCost (newModel F) T ≤ (if mc0 == 0 then U64_MAX else mc0)) :
    ∃ fuel0, ∀ fuel, fuel0 ≤ fuel →
      runProgram cfg (chiaDialect cfg extra F) fuel c0 (Val.ofTree Spec.ShaTree.prog) (Val.ofTree T) mc0 =
        some (.ok (clvmCost (newModel F) T, Val.mkAtom (TreeHash.treeHash T),
          c0.bump (1 + T.size) (13 + (25 * T.pairs + 8 * T.atoms)) (32 * T.size))) := by
  have := clvm_treehash_cost_val cfg extra F (Val.ofTree T) (Ref.ofTree_wf T) c0 mc0
  rw [Ref.ofTree_erase] at this
  exact this hd hp ha hh hc

/-- the recursion depth is at most the number of pairs (a cruder sufficient condition for `hd`) -/
theorem depth_le (T : Tree) : depth T ≤ T.pairs := depth_le_pairs T

/-- cost of the native call `(sha256tree (q . T))`: `OP_COST + QUOTE_COST +` the operator's cost -/
def nativeCost (nm : Bool) (t : Tree) : Nat :=
  Gen.OP_COST + Gen.QUOTE_COST + TreeHash.costSpec nm t

/-- **`native_lt_clvm`**: on every tree and under both cost models, calling the operator costs strictly
less than running the standard program. -/
theorem native_lt_clvm (nm : Bool) (t : Tree) : nativeCost nm t < clvmCost nm t := by
  have ha : 1 ≤ t.atoms := by
    induction t with
    | atom b => simp [Tree.atoms]
    | pair l r ihl _ => simp only [Tree.atoms]; omega
  obtain ⟨h1, h2⟩ := clvm_cost_constants t
  have hf : TreeHash.costSpec nm t = Gen.thBaseCost + (Gen.thPairCost * t.pairs +
      (if nm then Gen.thNewCostPerByte else Gen.thCostPerByte) * (TreeHash.sumLen t + t.atoms)) +
      Gen.thMallocCostPerByte * Gen.thMallocBytes := by
    simp only [TreeHash.costSpec, TreeHash.nodeCost_eq]
  cases nm
  · rw [h1]
    simp only [nativeCost, hf, Gen.OP_COST, Gen.QUOTE_COST, Gen.thBaseCost, Gen.thPairCost, Gen.thCostPerByte,
      Gen.thMallocCostPerByte, Gen.thMallocBytes, Bool.false_eq_true, if_false]
    omega
  · rw [h2]
    simp only [nativeCost, hf, Gen.OP_COST, Gen.QUOTE_COST, Gen.thBaseCost, Gen.thPairCost, Gen.thNewCostPerByte,
      Gen.thMallocCostPerByte, Gen.thMallocBytes, if_true]
    omega

/-- **The native call on the machine.**  Under `ChiaDialect::new(F)` with the model's operator table
(`cryptoExtra`) and `ENABLE_SHA256_TREE ∈ F`, for every well-formed value `T` and every environment:
`run_program((sha256tree (q . T)), env)` succeeds — given room for one pair, one 32-byte atom and the
budget — with the tree hash of `T`, cost exactly `nativeCost` (`= 21 + costSpec`, the C22 formula) and
those allocations. -/
theorem native_treehash_cost (cfg : Cfg) (F : Nat) (hS : hasFlag F Gen.FLAG_ENABLE_SHA256_TREE = true)
    (T env : Val) (hw : T.wf = true) (c0 : Ctr) (mc0 : Nat)
    (hp : c0.pairs + 1 ≤ Gen.maxNumPairs) (ha : c0.atoms + 2 ≤ Gen.maxNumAtoms)
    (hh : c0.heap + 32 ≤ c0.heapLimit)
    (hc : nativeCost (newModel F) T.erase ≤ (if mc0 == 0 then U64_MAX else mc0)) :
    ∃ fuel0, ∀ fuel, fuel0 ≤ fuel →
      runProgram cfg (chiaDialect cfg cryptoExtra F) fuel c0 (nativeV T) env mc0 =
        some (.ok (nativeCost (newModel F) T.erase, Val.mkAtom (TreeHash.treeHash T.erase), c0.bump 2 1 32)) := by
  have e : nativeCost (newModel F) T.erase = 21 + TreeHash.costSpec (newModel F) T.erase := by
    simp only [nativeCost, Gen.OP_COST, Gen.QUOTE_COST]
  rw [e] at hc ⊢
  exact native_runs (cfg := cfg) (F := F) (env := env) hS T hw c0 mc0 hp ha hh hc

/-- **C23 on the two runs.**  Same tree, same flags (with `ENABLE_SHA256_TREE`), same initial allocator
and a budget sufficient for the ChiaLisp program: both `run_program` calls succeed, return the same
hash, and the native call is strictly cheaper. -/
theorem native_run_lt_clvm_run (cfg : Cfg) (F : Nat) (hS : hasFlag F Gen.FLAG_ENABLE_SHA256_TREE = true)
    (T : Tree) (c0 : Ctr) (mc0 : Nat)
    (hd : 4 * depth T + 22 ≤ Gen.STACK_SIZE_LIMIT)
    (hp : c0.pairs + 13 + (25 * T.pairs + 8 * T.atoms) ≤ Gen.maxNumPairs)
    (ha : c0.atoms + 1 + T.size ≤ Gen.maxNumAtoms)
    (hh : c0.heap + 32 * T.size ≤ c0.heapLimit)
    (hc : clvmCost (newModel F) T ≤ (if mc0 == 0 then U64_MAX else mc0)) :
    ∃ fuel0 Cn Cl v cn cl, ∀ fuel, fuel0 ≤ fuel →
      runProgram cfg (chiaDialect cfg cryptoExtra F) fuel c0 (nativeV (Val.ofTree T)) Val.nil mc0 =
        some (.ok (Cn, v, cn)) ∧
      runProgram cfg (chiaDialect cfg cryptoExtra F) fuel c0 (Val.ofTree Spec.ShaTree.prog) (Val.ofTree T) mc0 =
        some (.ok (Cl, v, cl)) ∧ Cn < Cl := by
  have hlt := native_lt_clvm (newModel F) T
  have hat : ∀ t : Tree, 1 ≤ t.atoms := by
    intro t
    induction t with
    | atom b => simp [Tree.atoms]
    | pair l r ihl _ => simp only [Tree.atoms]; omega
  have hsz : 1 ≤ T.size := by
    have := hat T
    simp only [Tree.size]; omega
  obtain ⟨f1, h1⟩ := native_treehash_cost cfg F hS (Val.ofTree T) Val.nil (Ref.ofTree_wf T) c0 mc0
    (by omega) (by omega) (by omega) (by rw [Ref.ofTree_erase]; omega)
  obtain ⟨f2, h2⟩ := clvm_treehash_cost cfg cryptoExtra F T c0 mc0 hd hp ha hh hc
  rw [Ref.ofTree_erase] at h1
  refine ⟨max f1 f2, _, _, _, _, _, fun fuel hf => ⟨h1 fuel (by omega), h2 fuel (by omega), hlt⟩⟩

/-- the hypotheses of `clvm_treehash_cost` are satisfiable: the tree `((1 . 2) . "hello")` from a fresh
allocator with an unlimited budget (cost 7752 under the old model) -/
example : ∃ fuel0 c, ∀ fuel, fuel0 ≤ fuel →
    runProgram {} (chiaDialect {} cryptoExtra 0) fuel (Ctr.new (2 ^ 32)) (Val.ofTree Spec.ShaTree.prog)
      (Val.ofTree (.pair (.pair (.atom [1]) (.atom [2])) (.atom [104, 101, 108, 108, 111]))) 0 =
      some (.ok (clvmCost false (.pair (.pair (.atom [1]) (.atom [2])) (.atom [104, 101, 108, 108, 111])),
        Val.mkAtom (TreeHash.treeHash (.pair (.pair (.atom [1]) (.atom [2])) (.atom [104, 101, 108, 108, 111]))), c)) := by
  obtain ⟨f, hf⟩ := clvm_treehash_cost {} cryptoExtra 0
    (.pair (.pair (.atom [1]) (.atom [2])) (.atom [104, 101, 108, 108, 111])) (Ctr.new (2 ^ 32)) 0
    (by decide) (by decide) (by decide) (by decide) (by decide)
  exact ⟨f, _, hf⟩

example : clvmCost false (.pair (.pair (.atom [1]) (.atom [2])) (.atom [104, 101, 108, 108, 111])) = 7752 := by
  decide

end Clvm.Props.C23
