/-
C26 — Python bindings reproduce the Rust core (the part that is pure logic).

The theorems are about `ClvmModel/Py/Glue.lean`, the model of the glue in `wheel/src/api.rs` and
`wheel/src/adapt_response.rs`: flag truncation, heap-limit choice, format dispatch by magic prefix,
error adaptation.  What the bindings do beyond this glue is calling `clvmr` itself; that part of C26
is carried by the differential streams `pyrun` / `pyserde` (real wheel vs Rust core), not by a theorem.
pyo3 marshalling and GIL release are runtime behaviour (C26 is claimed *partial*).
-/
import ClvmProofs.Lemmas.PyGlue

namespace Clvm.Props.C26
open Clvm Clvm.Py.Glue Clvm.Py.GlueLemmas

/-! ### `from_bits_truncate` -/

/-- `Flags::all()` has exactly the bits that occur in some declared flag. -/
theorem allBits_testBit (fs : List Nat) (i : Nat) :
    (allBits fs).testBit i = fs.any (fun f => f.testBit i) := by
  unfold allBits; rw [foldl_or_testBit]; simp

/-- **Truncation is masking with the declared flag set**: a bit of the word survives iff it is set
and belongs to some declared `ClvmFlags` constant (for any flag list, in particular the generated one). -/
theorem truncate_testBit (fs : List Nat) (w i : Nat) :
    (fromBitsTruncateWith fs w).testBit i = (w.testBit i && fs.any (fun f => f.testBit i)) := by
  unfold fromBitsTruncateWith; rw [Nat.testBit_and, allBits_testBit]

/-- the instance for the flag set extracted from `src/chia_dialect.rs` -/
theorem truncate_eq_mask (w : Nat) :
    fromBitsTruncate w = w &&& allBits Gen.wheelFlagBits := rfl

/-- **Idempotent.** -/
theorem truncate_idem (fs : List Nat) (w : Nat) :
    fromBitsTruncateWith fs (fromBitsTruncateWith fs w) = fromBitsTruncateWith fs w := by
  unfold fromBitsTruncateWith; rw [Nat.and_assoc, Nat.and_self]

/-- truncation never adds a bit and stays inside the declared set -/
theorem truncate_sub (fs : List Nat) (w : Nat) :
    fromBitsTruncateWith fs w &&& w = fromBitsTruncateWith fs w ∧
    fromBitsTruncateWith fs w &&& allBits fs = fromBitsTruncateWith fs w := by
  unfold fromBitsTruncateWith
  constructor
  · rw [Nat.and_comm w, Nat.and_assoc, Nat.and_self]
  · rw [Nat.and_assoc, Nat.and_self]

/-- a word made of declared flags only is unchanged (so the flags exported to Python, and any union
of them, reach `ChiaDialect::new` as they are) -/
theorem truncate_of_declared (fs : List Nat) (w : Nat) (h : w &&& allBits fs = w) :
    fromBitsTruncateWith fs w = w := h

/-- **`contains` of a declared flag is not affected by truncation**: the dialect and the allocator
choice see a declared flag iff the caller's word has it, whatever the undefined bits are. -/
theorem contains_truncate (fs : List Nat) (w f : Nat) (hf : f &&& allBits fs = f) :
    contains (fromBitsTruncateWith fs w) f = contains w f := by
  unfold contains fromBitsTruncateWith
  rw [Bool.eq_iff_iff]; simp only [beq_iff_eq]
  exact and_eq_of_sub hf w

/-- every generated flag constant is inside `all()` (so `contains_truncate` applies to each of them,
and to `MEMPOOL_MODE`, a union of them) -/
theorem declared_inside : ∀ f ∈ Gen.wheelFlagBits, f &&& allBits Gen.wheelFlagBits = f := by
  decide

/-- the flags the module exports to Python are unions of declared flags: passing them back is lossless -/
theorem exported_inside : ∀ p ∈ Gen.wheelExportedFlags, fromBitsTruncate p.2 = p.2 := by
  decide

/-! ### heap limit -/

/-- **Heap-limit choice**: the allocator is limited to the wheel's constant exactly when the caller's
word has the heap flag, whatever else is in the word; otherwise it is `Allocator::new()`'s limit. -/
theorem heapLimit_choice (w : Nat) :
    (runSetup w).2 =
      if w &&& Gen.wheelHeapFlag = Gen.wheelHeapFlag then Gen.wheelHeapLimit else Gen.wheelDefaultHeapLimit := by
  unfold runSetup heapLimit fromBitsTruncate
  simp only
  rw [contains_truncate _ _ _ (declared_inside _ (by decide))]
  unfold contains
  by_cases h : w &&& Gen.wheelHeapFlag = Gen.wheelHeapFlag <;> simp [h]

/-- the values the bindings are documented to use (LIMIT_HEAP ⇒ 500 000 000 bytes, else the
allocator's own 2^32 − 1); a change of either constant in the sources stops this theorem -/
theorem heapLimit_values :
    Gen.wheelHeapFlag = 4 ∧ Gen.wheelHeapLimit = 500000000 ∧ Gen.wheelDefaultHeapLimit = 2 ^ 32 - 1 := by
  decide

/-- both limits are accepted by `Allocator::new_limited` (`assert!(heap_limit <= u32::MAX)`) -/
theorem heapLimit_no_panic (w : Nat) : (runSetup w).2 ≤ 2 ^ 32 - 1 := by
  rw [heapLimit_choice]; split <;> decide

/-! ### format dispatch -/

theorem stripPrefix_iff (p b body : Bytes) : stripPrefix p b = some body ↔ b = p ++ body := by
  induction p generalizing b with
  | nil => simp [stripPrefix, eq_comm]
  | cons x xs ih =>
    cases b with
    | nil => simp [stripPrefix]
    | cons y ys =>
      simp only [stripPrefix, List.cons_append, List.cons.injEq]
      by_cases h : x = y
      · subst h; simp [ih]
      · have h' : ¬ (y = x) := fun e => h e.symm
        simp [h, h']

/-- **Dispatch is total and decided by the magic prefix alone**: a blob goes to the serde_2026 body
decoder, without its prefix, iff it starts with the magic; otherwise it goes unchanged to the
back-reference decoder.  The two cases are disjoint and exhaustive. -/
theorem dispatch_2026_iff (blob body : Bytes) :
    deserAuto blob = (.serde2026, body) ↔ blob = magic ++ body := by
  unfold deserAuto
  cases h : stripPrefix magic blob with
  | some b =>
    have := (stripPrefix_iff magic blob b).1 h
    constructor
    · intro e; simp only [Prod.mk.injEq, true_and] at e; subst e; exact this
    · intro e; rw [this] at e; have := List.append_cancel_left e; subst this; rfl
  | none =>
    constructor
    · intro e; simp at e
    · intro e; rw [(stripPrefix_iff magic blob body).2 e] at h; cases h

theorem dispatch_backrefs_iff (blob b : Bytes) :
    deserAuto blob = (.backrefs, b) ↔ (b = blob ∧ ∀ body, blob ≠ magic ++ body) := by
  unfold deserAuto
  cases h : stripPrefix magic blob with
  | some body =>
    constructor
    · intro e; simp at e
    · rintro ⟨_, hn⟩; exact absurd ((stripPrefix_iff _ _ _).1 h) (hn body)
  | none =>
    constructor
    · intro e
      simp only [Prod.mk.injEq, true_and] at e
      refine ⟨e.symm, fun body hb => ?_⟩
      rw [(stripPrefix_iff _ _ _).2 hb] at h; cases h
    · rintro ⟨rfl, _⟩; rfl

theorem dispatch_total (blob : Bytes) :
    (∃ body, deserAuto blob = (.serde2026, body) ∧ blob = magic ++ body) ∨
    (deserAuto blob = (.backrefs, blob) ∧ ∀ body, blob ≠ magic ++ body) := by
  unfold deserAuto
  cases h : stripPrefix magic blob with
  | some body => exact .inl ⟨body, rfl, (stripPrefix_iff _ _ _).1 h⟩
  | none =>
    refine .inr ⟨rfl, fun body hb => ?_⟩
    rw [(stripPrefix_iff _ _ _).2 hb] at h; cases h

/-- `starts_with` agrees with `strip_prefix` (the two tests `deser_2026` / `deser_auto` use) -/
theorem startsWith_iff (b p : Bytes) : startsWith b p = true ↔ ∃ body, b = p ++ body := by
  unfold startsWith
  cases h : stripPrefix p b with
  | some body => simp; exact ⟨body, (stripPrefix_iff _ _ _).1 h⟩
  | none =>
    simp
    intro body hb; rw [(stripPrefix_iff _ _ _).2 hb] at h; cases h

/-! ### error adaptation -/

/-- an `EvalErr` value: everything but the two pseudo-outcomes of the models -/
def IsEvalErr : Err → Prop
  | .Panic _ => False
  | .Abort _ => False
  | _ => True

/-- **Error adaptation is total**: every `EvalErr` variant has a display string in the generated
table, so `adapt_response` hands Python a `(message, blob)` pair for every failing run. -/
theorem lookup_total (e : Err) (h : IsEvalErr e) : (lookupErr e.kind Gen.wheelErrTable).isSome = true := by
  cases e with
  | Panic _ => exact h.elim
  | Abort _ => exact h.elim
  | InternalError _ => simp only [Err.kind]; decide
  | InvalidOpArg _ => simp only [Err.kind]; decide
  | InvalidAllocArg _ => simp only [Err.kind]; decide
  | _ => decide

theorem adaptErr_total (e : Err) (h : IsEvalErr e) : ∃ m n, adaptErr e = some (m, n) := by
  have := lookup_total e h
  unfold adaptErr errMessage errHasNode
  cases hl : lookupErr e.kind Gen.wheelErrTable with
  | none => rw [hl] at this; cases this
  | some p => exact ⟨_, _, rfl⟩

/-- the blob is the error's own node exactly for the variants that carry a `NodePtr`; the others
(serialization, cost, allocator-limit and softfork errors) hand over nil -/
theorem adaptErr_blob_nil :
    (adaptErr .CostExceeded).map (·.2) = some false ∧ (adaptErr .OutOfMemory).map (·.2) = some false ∧
    (adaptErr .TooManyPairs).map (·.2) = some false ∧ (adaptErr .TooManyAtoms).map (·.2) = some false ∧
    (adaptErr .SerializationError).map (·.2) = some false ∧ (adaptErr .PathIntoAtom).map (·.2) = some false ∧
    (adaptErr .Raise).map (·.2) = some true ∧ (adaptErr .Unimplemented).map (·.2) = some true := by
  decide

/-- the friendlier message of `deser_2026` replaces the decoder's message exactly when the blob does
not start with the magic prefix -/
theorem deser2026Message_spec (blob : Bytes) (e : Err) :
    ((∃ body, blob = magic ++ body) → deser2026Message blob e = errMessage e) ∧
    ((¬ ∃ body, blob = magic ++ body) → deser2026Message blob e = some Gen.wheelMissingPrefixMsg) := by
  unfold deser2026Message
  constructor
  · intro h; have := (startsWith_iff _ _).2 h; simp [this]
  · intro h
    have : startsWith blob magic = false := by
      cases hs : startsWith blob magic with
      | false => rfl
      | true => exact absurd ((startsWith_iff _ _).1 hs) h
    simp [this]

end Clvm.Props.C26
