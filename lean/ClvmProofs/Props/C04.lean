/-
C04 — heap reclamation (ENABLE_GC) is unobservable.

Two levels.  (1) Allocator level (this file, from the allocator model `ClvmModel/Alloc*.lean`):
`maybe_restore_with_node` under the allocator invariant never fails, leaves the three counts
unchanged, keeps the tree of every node older than the checkpoint and of the surviving /
replacement node, and replaces a heap atom by a heap atom (representation preserved — the
repaired defect of commit 5fec10a).  (2) Machine level: the machine model
(`ClvmModel/Interp/Machine.lean`) *specifies* GC as unobservable (the `RestoreAllocator` step keeps
value and counters), and `gc_unobservable_model` / `chia_gc_unobservable` prove that this is all the
flag does in the model: whole runs with and without ENABLE_GC have identical outcomes and counters.
That the real interpreter with ENABLE_GC behaves like this model is what the
RUN correspondence stream (random flag sets incl. ENABLE_GC, garbage-heavy programs) and the
`interp_gc` oracle (implementation with vs without the flag: outcome, cost, error message, three
counts) check.  Bridge not proved: that every `NodePtr` the Rust loop still holds after a restore is
older than the checkpoint or is the replaced stack top (needs a pointer-level machine).
-/
import ClvmProofs.Props.C12
import ClvmProofs.Props.C14
import ClvmProofs.Lemmas.Interp.MachineBase
import ClvmProofs.Lemmas.Interp.GcChia
import ClvmProofs.Lemmas.Interp.ReprChia

namespace Clvm.Props.C04
open Clvm Clvm.Alloc

/-- **counts unchanged, never fails**: under the invariant, with a valid checkpoint and a valid
node, `maybe_restore_with_node` returns `Ok`, and the abstract state (contents are compared in
`restore_keeps_trees`; here: the three counts and the limit) is unchanged. -/
theorem restore_keeps_counts (a : Alloc) (cp : TCheckpoint) (ret : Ptr) (hI : Inv a)
    (hv : TCpValid a cp) (hr : Valid a ret) :
    ∃ r a', maybeRestoreWithNode a cp ret = (.ok r, a') ∧ abs a' = abs a ∧ Inv a' :=
  C12.maybe_restore_keeps a cp ret hI hv hr

/-- **values preserved, representation preserved** -/
theorem restore_keeps_trees (a : Alloc) (cp : TCheckpoint) (ret : Ptr) (hI : Inv a)
    (hv : TCpValid a cp) (hr : Valid a ret) :
    ∃ r a', maybeRestoreWithNode a cp ret = (.ok r, a') ∧
      match r with
      | .aborted => a' = a
      | .noReplace => Valid a' ret ∧ treeOf a' ret = treeOf a ret ∧
          ∀ p, ValidAt cp p → Valid a' p ∧ treeOf a' p = treeOf a p
      | .replace q => Valid a' q ∧ treeOf a' q = treeOf a ret ∧ (∃ i j, ret = .bytes i ∧ q = .bytes j) ∧
          ∀ p, ValidAt cp p → Valid a' p ∧ treeOf a' p = treeOf a p :=
  C14.maybe_restore_tree a cp ret hI hv hr

/-- machine model: the `RestoreAllocator` step changes neither the value stack nor the counters
nor the cost -/
theorem restore_step_model (cfg : Interp.Cfg) (d : Interp.Dialect) (s s' : Interp.MState) (cost em c : Nat)
    (h : Interp.stepOp cfg d s .RestoreAllocator cost em = .ok (c, s')) :
    c = 0 ∧ s'.valStack = s.valStack ∧ s'.envStack = s.envStack ∧ s'.ctr = s.ctr ∧
    s'.softforkStack = s.softforkStack ∧ s'.opStack = s.opStack := by
  simp only [Interp.stepOp] at h
  split at h
  · cases h
  · split at h
    · cases h
    · simp only [Except.ok.injEq, Prod.mk.injEq] at h
      obtain ⟨rfl, rfl⟩ := h
      exact ⟨rfl, rfl, rfl, rfl, rfl, rfl⟩

/-- **Machine model, generic: a `gc_candidate` is unobservable.**  `GcPair d0 d1`: the two dialects
agree on everything the machine reads (keywords, softfork extensions, the three flag bits the machine
looks at, the operator function) and `d0` has no GC candidates, `d1` any.  Then every terminating
run of `d0` is a terminating run of `d1` with exactly the same outcome `r` — result value, cost or
error, and the atom / pair / heap counters — and conversely; only the amount of fuel (number of
machine steps) differs.

What this covers: in the model, ENABLE_GC only inserts `RestoreAllocator` operations (pushed by
`eval_op_atom` when `gc_candidate` accepts the operator atom); a stuttering simulation shows that
nothing else in the machine depends on them — not the depth of the operation stack, not the
checkpoint count, not the cost check at the head of the loop — and the stack-shape invariant
(`MState.Shaped`) shows that a pending `RestoreAllocator` never fails.  What it does not cover: the
`RestoreAllocator` step *of the model* keeps value and counters by definition; what
`maybe_restore_with_node` does to the real allocator (which nodes survive, ghost accounting,
representation of the replacement) is `restore_keeps_counts` / `restore_keeps_trees` above, on the
allocator model.  The tie between the two levels is empirical: the RUN stream with ENABLE_GC against
this machine model, and the `interp_gc` oracle on the implementation. -/
theorem gc_unobservable_model (cfg : Interp.Cfg) {d0 d1 : Interp.Dialect} (hd : Interp.GcPair d0 d1)
    (c0 : Interp.Ctr) (p env : Interp.Val) (mc : Nat) (r : Interp.OpRes) :
    (∀ fuel, Interp.runProgram cfg d0 fuel c0 p env mc = some r →
      ∃ fuel', Interp.runProgram cfg d1 fuel' c0 p env mc = some r) ∧
    (∀ fuel', Interp.runProgram cfg d1 fuel' c0 p env mc = some r →
      ∃ fuel, Interp.runProgram cfg d0 fuel c0 p env mc = some r) :=
  Interp.gc_unobservable_model cfg hd c0 p env mc r

/-- **Machine model, `ChiaDialect` with every operator** (no operator hypotheses, any program and
environment, any budget and counters): for a flag set `F` without ENABLE_GC, `ChiaDialect(F)` and
`ChiaDialect(F | ENABLE_GC)` terminate on the same inputs with the same outcome and the same
counters.  Besides the simulation this checks that neither the dispatch (`ChiaDialect::op`) nor any
core, unknown or cryptographic operator reads the ENABLE_GC bit (`chia_gcPair`). -/
theorem chia_gc_unobservable (cfg : Interp.Cfg) (F : Nat) (hF : Interp.hasFlag F Gen.FLAG_ENABLE_GC = false)
    (c0 : Interp.Ctr) (p env : Interp.Val) (mc : Nat) (r : Interp.OpRes) :
    (∀ fuel, Interp.runProgram cfg (Interp.chiaDialect cfg Interp.cryptoExtra F) fuel c0 p env mc = some r →
      ∃ fuel', Interp.runProgram cfg (Interp.chiaDialect cfg Interp.cryptoExtra (F ||| Gen.FLAG_ENABLE_GC))
        fuel' c0 p env mc = some r) ∧
    (∀ fuel', Interp.runProgram cfg (Interp.chiaDialect cfg Interp.cryptoExtra (F ||| Gen.FLAG_ENABLE_GC))
        fuel' c0 p env mc = some r →
      ∃ fuel, Interp.runProgram cfg (Interp.chiaDialect cfg Interp.cryptoExtra F) fuel c0 p env mc = some r) :=
  Interp.chia_gc_unobservable cfg F hF c0 p env mc r

/-- … and for any table of extra operators that do not read the bit -/
theorem chia_gc_unobservable_extra (cfg : Interp.Cfg) (extra : String → Option Interp.OpFn)
    (hextra : ∀ name f G, extra name = some f → f (G ||| Gen.FLAG_ENABLE_GC) = f G)
    (F : Nat) (hF : Interp.hasFlag F Gen.FLAG_ENABLE_GC = false)
    (c0 : Interp.Ctr) (p env : Interp.Val) (mc : Nat) (r : Interp.OpRes) :
    (∀ fuel, Interp.runProgram cfg (Interp.chiaDialect cfg extra F) fuel c0 p env mc = some r →
      ∃ fuel', Interp.runProgram cfg (Interp.chiaDialect cfg extra (F ||| Gen.FLAG_ENABLE_GC))
        fuel' c0 p env mc = some r) ∧
    (∀ fuel', Interp.runProgram cfg (Interp.chiaDialect cfg extra (F ||| Gen.FLAG_ENABLE_GC))
        fuel' c0 p env mc = some r →
      ∃ fuel, Interp.runProgram cfg (Interp.chiaDialect cfg extra F) fuel c0 p env mc = some r) :=
  Interp.chia_gc_unobservable_extra cfg extra hextra F hF c0 p env mc r

-- the statement is not vacuous: `(+ (q . 1) (q . 2))` terminates with 6 steps without the flag and
-- needs 7 with it (one `RestoreAllocator`)
example : (Interp.runProgram {} (Interp.chiaDialect {} Interp.cryptoExtra 0) 6 (Interp.Ctr.new 1000)
    (Interp.addProg true) Interp.Val.nil 0).isSome = true := by rfl
example : (Interp.runProgram {} (Interp.chiaDialect {} Interp.cryptoExtra (0 ||| Gen.FLAG_ENABLE_GC)) 6
    (Interp.Ctr.new 1000) (Interp.addProg true) Interp.Val.nil 0).isSome = false := by rfl
example : (Interp.runProgram {} (Interp.chiaDialect {} Interp.cryptoExtra (0 ||| Gen.FLAG_ENABLE_GC)) 7
    (Interp.Ctr.new 1000) (Interp.addProg true) Interp.Val.nil 0).isSome = true := by rfl

end Clvm.Props.C04
