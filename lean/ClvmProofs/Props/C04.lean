/-
C04 — heap reclamation (ENABLE_GC) is unobservable.

Two levels.  (1) Allocator level (this file, from the allocator model `ClvmModel/Alloc*.lean`):
`maybe_restore_with_node` under the allocator invariant never fails, leaves the three counts
unchanged, keeps the tree of every node older than the checkpoint and of the surviving /
replacement node, and replaces a heap atom by a heap atom (representation preserved — the
repaired defect of commit 5fec10a).  (2) Machine level: the machine model
(`ClvmModel/Interp/Machine.lean`) *specifies* GC as unobservable (the `RestoreAllocator` step keeps
value and counters); that the real interpreter with ENABLE_GC behaves like this model is what the
RUN correspondence stream (random flag sets incl. ENABLE_GC, garbage-heavy programs) and the
`interp_gc` oracle (implementation with vs without the flag: outcome, cost, error message, three
counts) check.  Bridge not proved: that every `NodePtr` the Rust loop still holds after a restore is
older than the checkpoint or is the replaced stack top (needs a pointer-level machine).
-/
import ClvmProofs.Props.C12
import ClvmProofs.Props.C14
import ClvmProofs.Lemmas.Interp.MachineBase

namespace Clvm.Props.C04
open Clvm Clvm.Alloc

/-- **counts unchanged, never fails**: under the invariant, with a valid checkpoint and a valid
node, `maybe_restore_with_node` returns `Ok`, and the abstract state (contents are compared in
`restore_keeps_trees`; here: the three counts and the limit) is unchanged. -/
theorem restore_keeps_counts (a : Alloc) (cp : TCheckpoint) (ret : Ptr) (hI : Inv a)
    (hv : TCpValid a cp) (hr : Valid a ret) :
    ∃ r a', maybeRestoreWithNode a cp ret = (.ok r, a') ∧ abs a' = abs a ∧ Inv a' :=
  C12.maybe_restore_keeps a cp ret hI hv hr

/-- **values preserved, representation preserved** -/
theorem restore_keeps_trees (a : Alloc) (cp : TCheckpoint) (ret : Ptr) (hI : Inv a)
    (hv : TCpValid a cp) (hr : Valid a ret) :
    ∃ r a', maybeRestoreWithNode a cp ret = (.ok r, a') ∧
      match r with
      | .aborted => a' = a
      | .noReplace => Valid a' ret ∧ treeOf a' ret = treeOf a ret ∧
          ∀ p, ValidAt cp p → Valid a' p ∧ treeOf a' p = treeOf a p
      | .replace q => Valid a' q ∧ treeOf a' q = treeOf a ret ∧ (∃ i j, ret = .bytes i ∧ q = .bytes j) ∧
          ∀ p, ValidAt cp p → Valid a' p ∧ treeOf a' p = treeOf a p :=
  C14.maybe_restore_tree a cp ret hI hv hr

/-- machine model: the `RestoreAllocator` step changes neither the value stack nor the counters
nor the cost -/
theorem restore_step_model (cfg : Interp.Cfg) (d : Interp.Dialect) (s s' : Interp.MState) (cost em c : Nat)
    (h : Interp.stepOp cfg d s .RestoreAllocator cost em = .ok (c, s')) :
    c = 0 ∧ s'.valStack = s.valStack ∧ s'.envStack = s.envStack ∧ s'.ctr = s.ctr ∧
    s'.softforkStack = s.softforkStack ∧ s'.opStack = s.opStack := by
  simp only [Interp.stepOp] at h
  split at h
  · cases h
  · split at h
    · cases h
    · simp only [Except.ok.injEq, Prod.mk.injEq] at h
      obtain ⟨rfl, rfl⟩ := h
      exact ⟨rfl, rfl, rfl, rfl, rfl, rfl⟩

end Clvm.Props.C04
