/-
C16 — the classic decoders are total and agree with each other.

Models: `ClvmModel/Serde/Classic.lean` (`node_from_stream`, `serialized_length_from_bytes_trusted`,
`is_canonical_serialization`) and `ClvmModel/TreeHash.lean` (`tree_hash_from_stream`,
`parse_triples`), each transcribed separately from its own Rust body; only `decode_size(_with_offset)`
is shared, as in the Rust.  Specification: `serSpec`, `treeHash`.
-/
import ClvmProofs.Lemmas.ClassicAgree
import ClvmProofs.Lemmas.TreeHashTriples
import ClvmProofs.Lemmas.ClassicTriples

namespace Clvm.Props.C16
open Clvm Clvm.Serde.Classic
open Clvm.TreeHash (treeHash treeHashFromStream parseTriples hashList nodes Describes Triple)

/-! ### totality: no panic site is reachable, the fuel of the model loops suffices -/

/-- `node_from_bytes` / `node_from_stream` never panics: the two `values.pop().unwrap()` and the
`debug_assert!` in `decode_size_with_offset` are unreachable from the initial stacks, whatever
the input -/
theorem de_total (b : Bytes) (m : String) : nodeFromStream b [.sexp] [] ≠ .error (.Panic m) :=
  nodeFromStream_nopanic b [.sexp] [] (by simp [okStack]) m

/-- the same for every reachable configuration of the decoder loop (stacks that cannot
underflow) -/
theorem de_total_loop (inp : Bytes) (ops : List ParseOp) (vals : List Tree)
    (h : okStack ops vals.length) (m : String) : nodeFromStream inp ops vals ≠ .error (.Panic m) :=
  nodeFromStream_nopanic inp ops vals h m

/-- `serialized_length_from_bytes_trusted` never panics and the model's fuel `|b| + 2` is never
exhausted -/
theorem len_trusted_total (b : Bytes) (m : String) : serializedLengthTrusted b ≠ .error (.Panic m) :=
  lenTrusted_nopanic _ b 0 1 (by omega) (by omega) m

/-- `is_canonical_serialization` never panics (in particular the `min_value` table is only
indexed with prefix lengths 1..6) and the model's fuel is never exhausted -/
theorem canon_total (b : Bytes) (m : String) : isCanonicalSerialization b ≠ .error (.Panic m) :=
  isCanonicalGo_nopanic _ b 0 1 (by omega) (by omega) m

/-- a decoded tree only has atoms shorter than 2^34 bytes: no over-allocation beyond what the
input itself contains (every atom is a slice of the input) -/
theorem de_atoms_below (b : Bytes) (t : Tree) (h : nodeFromBytes b = .ok t) : t.atomsBelow (2 ^ 34) := by
  unfold nodeFromBytes at h
  cases hn : nodeFromStream b [.sexp] [] with
  | error e => rw [hn] at h; cases h
  | ok r =>
    obtain ⟨T, R⟩ := r
    rw [hn] at h; cases h
    exact nodeFromStream_below b _ _ _ R (by simp) hn

/-! ### `tree_hash_from_stream` agrees with `node_from_stream` -/

/-- on every input `tree_hash_from_stream` fails with the same error as `node_from_stream`, or
both succeed, leave the same unread remainder (consume the same number of bytes) and the hash is
the tree hash of the decoded tree -/
theorem thash_stream_agrees (b : Bytes) :
    treeHashFromStream b =
      match nodeFromStream b [.sexp] [] with
      | .ok (t, rest) => .ok (treeHash t, rest)
      | .error e => .error e :=
  fromStreamLoop_eq b [.sexp] []

/-- success on exactly the same inputs -/
theorem thash_stream_accepts_iff (b : Bytes) :
    (∃ h r, treeHashFromStream b = .ok (h, r)) ↔ (∃ t, nodeFromBytes b = .ok t) := by
  rw [thash_stream_agrees]
  unfold nodeFromBytes
  cases nodeFromStream b [.sexp] [] with
  | error e => simp
  | ok r => obtain ⟨t, rest⟩ := r; simp

/-! ### `parse_triples` agrees with `node_from_stream`

`Describes buf base ts t s e` (`Lemmas/ClassicTriples.lean`) says that the triples `ts` describe
the tree `t` laid out in `buf[s, e)`: an atom's bytes are `buf[start + atom_offset, end)`; a pair
starts with `0xff`, its first child is the next triple, its second child is the triple
`right_index`, the children are contiguous and fill the pair's byte range.  The acceptance
equivalence rests on the lock-step lemmas proved for C22 by the tree-hash component
(`Lemmas/TreeHashTriples.lean`).  PARTIAL with respect to the property: only
`calculate_tree_hashes = true` is characterised by theorems; the `false` variant (same loop
without the hash bookkeeping) is covered by the `thash_stream` stream and the `classic_decoders`
oracle (triples of both variants are compared). -/

/-- `triples_describe`: whenever `node_from_stream` decodes `t`, `parse_triples(f, true)` succeeds,
leaves the same unread remainder (consumes the same bytes), its triples describe `t` laid out in
exactly the consumed bytes, and its hashes are the tree hashes of all sub-trees of `t` in
pre-order (the first one is `treeHash t`) -/
theorem triples_describe (b : Bytes) (t : Tree) (rest : Bytes)
    (h : nodeFromStream b [.sexp] [] = .ok (t, rest)) :
    ∃ ts, ts.length = nodes t ∧ Describes b 0 ts t 0 (b.length - rest.length) ∧
      parseTriples b true = .ok (ts, some (hashList t), rest) :=
  Clvm.TreeHash.parseTriples_describes b t rest h

/-- `parse_triples(f, true)` and `node_from_bytes` succeed on exactly the same inputs -/
theorem triples_accepts_iff (b : Bytes) :
    (∃ ts hs r, parseTriples b true = .ok (ts, hs, r)) ↔ (∃ t, nodeFromBytes b = .ok t) := by
  constructor
  · intro ⟨ts, hs, r, h⟩
    obtain ⟨t, ht, _⟩ := Clvm.TreeHash.decodes_of_parseTriples b ts hs r h
    exact ⟨t, by unfold nodeFromBytes; rw [ht]⟩
  · intro ⟨t, h⟩
    unfold nodeFromBytes at h
    cases hn : nodeFromStream b [.sexp] [] with
    | error e => rw [hn] at h; cases h
    | ok p =>
      obtain ⟨t', rest⟩ := p
      obtain ⟨ts, _, e⟩ := Clvm.TreeHash.parseTriples_of_decodes b t' rest hn
      exact ⟨ts, _, rest, e⟩

/-! ### canonical ⇔ one tree whose re-serialization is the input -/

/-- `canon_iff`: for an input that `node_from_bytes` accepts (decoding to `t`, consuming `n`
bytes), `is_canonical_serialization` answers `true` exactly when the whole input was consumed
and serializing `t` reproduces it byte for byte -/
theorem canon_iff (b : Bytes) (t : Tree) (n : Nat) (hd : nodeFromBytesConsumed b = .ok (t, n)) :
    isCanonicalSerialization b = .ok true ↔ (n = b.length ∧ serSpec t = b) := by
  unfold nodeFromBytesConsumed at hd
  cases hn : nodeFromStream b [.sexp] [] with
  | error e => rw [hn] at hd; cases hd
  | ok r =>
    obtain ⟨T, R⟩ := r
    rw [hn] at hd
    simp only [Except.ok.injEq, Prod.mk.injEq] at hd
    obtain ⟨rfl, rfl⟩ := hd
    have hbelow := nodeFromStream_below b _ _ T R (by simp) hn
    constructor
    · intro hc
      unfold isCanonicalSerialization at hc
      have hn' : nodeFromStream (List.drop 0 b ++ []) [.sexp] [] = .ok (T, R) := by simpa using hn
      obtain ⟨t, f', _, hat, hle, hsplit, hn2, hc2⟩ := canon_inv _ _ 0 0 _ [] [] T R hc hn'
      rw [nodeFromStream] at hn2
      simp only [Except.ok.injEq, Prod.mk.injEq] at hn2
      obtain ⟨rfl, rfl⟩ := hn2
      cases f' with
      | zero => simp [isCanonicalGo] at hc2
      | succ f' =>
        rw [isCanonicalGo] at hc2
        simp only [beq_self_eq_true, if_true, Except.ok.injEq, beq_iff_eq, Nat.zero_add] at hc2
        rw [List.drop_zero, Nat.zero_add, ← hc2, List.drop_length, List.append_nil] at hsplit
        exact ⟨by simp [← hc2], hsplit.symm⟩
    · intro ⟨_, hs⟩
      rw [← hs]
      unfold isCanonicalSerialization
      have hsz := serSpec_size_le T
      have hf : (serSpec T).length + 2 = ((serSpec T).length + 2 - T.size) + T.size := by omega
      rw [hf, isCanonicalGo_ser T hbelow (serSpec T) 0 0 _ [] (by simp)]
      have : (serSpec T).length + 2 - T.size = ((serSpec T).length + 1 - T.size) + 1 := by omega
      rw [this, isCanonicalGo]
      simp

/-- on inputs that do not decode, `is_canonical_serialization` is never `true`, except for
inputs containing a back-reference marker, which `node_from_bytes` (the classic decoder)
rejects but the canonical check tokenises — e.g. `fe 01` -/
example : isCanonicalSerialization [0xfe, 0x01] = .ok true := by rfl
example : ∃ e, nodeFromBytes [0xfe, 0x01] = .error e := by
  obtain ⟨e, he⟩ := nodeFromStream_fe 0xfe (by decide) [0x01] [] []
  exact ⟨e, by unfold nodeFromBytes; rw [he]⟩

/-! ### non-vacuity -/

/-- the triples of `ff 01 80` (the pair `(1 . nil)`) as `Describes` reads them -/
example : Describes [0xff, 0x01, 0x80] 0 [.pair 0 3 2, .atom 1 2 0, .atom 2 3 1]
    (.pair (.atom [1]) (.atom [])) 0 3 :=
  ⟨[.atom 1 2 0], [.atom 2 3 1], 2, rfl, rfl, ⟨0, rfl, by decide, by decide, rfl⟩,
    ⟨1, rfl, by decide, by decide, rfl⟩⟩

example : nodeFromBytesConsumed [0xff, 0x01, 0x80, 0x55] = .ok (.pair (.atom [1]) (.atom []), 3) := by
  have := Clvm.Serde.Classic.nodeFromStream_ser (.pair (.atom [1]) (.atom [])) (by decide) [0x55] [] []
  unfold nodeFromBytesConsumed
  rw [show ([0xff, 0x01, 0x80, 0x55] : Bytes) = serSpec (.pair (.atom [1]) (.atom [])) ++ [0x55] by decide,
    this, nodeFromStream]
  rfl
/-- a non-minimal header decodes but is not canonical (so `canon_iff` is not vacuous on its
right-to-left reading either) -/
example : isCanonicalSerialization [0xc0, 0x01, 0x99] = .ok false := by rfl

end Clvm.Props.C16
