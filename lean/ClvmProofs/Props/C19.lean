/-
C19 — incremental serializer histories produce valid serializations (PARTIAL: protocol model with
`find_path` as a validated policy; see `ClvmModel/Serde/Incremental.lean` for what is not modelled).
-/
import ClvmModel.Serde.Incremental

namespace Clvm.Props.C19
open Clvm Clvm.Serde Clvm.Serde.Incremental

/-- the incremental serializer and the back-reference decoders use the same two markers -/
theorem markers_agree : Gen.incBackReference = Gen.deBrBackReference ∧
    Gen.incConsBoxMarker = Gen.deBrConsBoxMarker := by decide

/-- `restore` installs exactly the recorded stacks and cache checkpoint, and truncates the output to
the recorded position -/
theorem restore_installs (s : Ser) (u : UndoState) :
    (s.restore u).readOpStack = u.readOpStack ∧ (s.restore u).writeStack = u.writeStack ∧
    (s.restore u).cache.root = u.treeCache ∧ (s.restore u).output.buf = s.output.buf.take u.outputPosition ∧
    (s.restore u).output.pos = u.outputPosition := ⟨rfl, rfl, rfl, rfl, rfl⟩

end Clvm.Props.C19
