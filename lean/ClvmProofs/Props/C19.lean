/-
C19 — incremental serializer histories produce valid serializations.  **PARTIAL.**

The theorems are about the *protocol model* `ClvmModel/Serde/Incremental.lean` of
`src/serde/incremental.rs`: `Serializer::add` / `restore` are transcribed, `TreeCache` is abstracted to
the mirror of its parse stack, and `TreeCache::find_path` beyond its early exits is a **policy**
parameter (salted SHA-1 identities, `node_map`, parent links with 8-entry eviction, `serialized_nodes`,
the lock-step breadth-first search are *not modelled*; see the model's header for the full list,
including the `expect`/`assert!` sites that therefore have no outcome).  Helper lemmas:
`Lemmas/Incremental.lean` (cursor, append-only, `Ext`, exact restore), `Lemmas/IncrementalDecode.lean`
(forward lock-step with the decoder, the assembled tree), `Lemmas/IncrementalRun.lean` (state and
history invariants), `Lemmas/IncrementalValidate.lean` (the checked replay policy),
`Lemmas/IncrementalWitness.lean` (recorded runs of the real crate).

What is proved.
* `undo_exact`, `output_append_only`, `add_returns_undo_state`: for **every** policy (valid or not — so
  also for whatever the real `find_path` does): between taking an undo state and restoring it the
  output only grows, and `restore` gives back the *whole* model state (bytes, position, both stacks,
  cache checkpoint).
* `complete_decodes_partial`: for every history of `add`/`undo` calls whose policies are `Valid`
  (every returned path leads from the parse-stack mirror to a node equal to the requested one): once
  `add` reports completion, both decoders return the tree assembled from the retained additions (each
  later addition at the leftmost remaining sentinel), consuming exactly the output — unless the
  decoder's allocator hits a limit.  *Partial* because validity of the real `find_path` is a
  hypothesis, not a theorem.
* `replay_checked_valid`, `validate_sound`: `validate` re-runs the protocol model on recorded bytes of
  the real serializer with the policy "what the recorded bytes show, if it is a valid path"; that policy
  is valid by construction, so whenever `validate` accepts a recorded run, `complete_decodes_partial`
  applies to those very bytes (the `INC` handler runs it on every undo-free history that decodes).
* Beside the protocol model there is a **faithful executable model** of `TreeCache` + `Serializer`
  (`ClvmModel/Serde/TreeCache.lean`: `update`, `node_map` keyed by node identity, entries, parent links
  with eviction, `on_stack`, `serialized_nodes`, checkpoints incl. `sentinel_entry`, `restore`, the
  lock-step search of `find_path` with its tie-breaking, `PathBuilder`); it *computes* the crate's bytes,
  the defective ones of L, M, N included, and the `INC` stream compares them exactly.
* Theorems about the faithful model (`Lemmas/TreeCache*.lean`):
  `faithful_path_codec` (`PathBuilder::done` and `traverse_path` are inverse);
  `faithful_find_path_sound` — in **any** cache state whose recorded parent links are true child relations
  of a content assignment (eviction, the `seen` set, the cursor and the length discipline play no role),
  a path returned by the lock-step search, walked by `traverse_path` on the current parse stack, reaches
  the content of the requested node: the hypothesis `Valid` of `complete_decodes_partial` is reduced to an
  invariant of `update`/`push`/`pop`;
  `faithful_update_sound` — `update()` keeps that invariant, with or without sentinel (every entry has a
  content, refined when the pending sentinel is filled; every registered `NodePtr` has its content; only
  true parent links are recorded — also the ones taken over from the old sentinel entry; `MAX_PARENTS`
  eviction and the final `drain` only remove or replace links by true ones);
  `faithful_single_add_decodes` / `faithful_statement_no_sentinel` — **unconditional** `Statement` for the
  faithful model on serializers without sentinel (the incremental serializer used as a one-shot
  serializer, `add:` and `adds:` node identities): whenever `add` returns, it reports completion and both
  decoders return the tree; this ties the byte-exact model to C17's statement.
  `faithful_statement_fresh_region` — **unconditional** `Statement` for the faithful model on the decidable
  region `DefectFreeFresh` ⊆ `DefectFree` (`defect_free_fresh_sub`): the sentinel is not the empty atom, no
  `restore`, every addition contains the sentinel at most once, and an addition that contains it is built
  with `NodePtr`s of its own (`add:`; sentinel-free additions may share nodes by content, `adds:`).  This is
  how the crate's callers use the serializer (list building `(item . S)`, resuming inside a tree), with any
  number of additions, sentinel as a whole tree included.  Proof: invariant of a waiting serializer (`RI`),
  refinement of all contents and key contents when the pending sentinel is filled, equivariance of the
  pending-stack semantics, `substFirst = substAll` with one sentinel pending (`add_step`, `run_region`).
  **Open** (`FaithfulStatementDefectFree`, a `def`, neither axiom nor hypothesis): the rest of `DefectFree`,
  i.e. additions that contain the sentinel *and* share nodes by content (each sentinel-containing node
  still occurring once), and the empty atom as sentinel.
* The salt (`TreeCache::salt`, `RandomState`) does not occur in the model; run-to-run equality of the
  real serializer's bytes is checked by the oracle (`inc_salt_independent`) and by the implementation
  side of the stream (a re-run with a new salt must reproduce the recorded bytes).

Known findings L, M, N (KNOWN_FINDINGS.jsonl).  On the unchanged tree the real `find_path` is **not**
a valid policy: after an addition with two sentinels (L), after a `restore` followed by another `add`
(M), and when a node with the sentinel below it is used twice (N) it returns paths to *other* nodes.
That is exactly the hypothesis of `complete_decodes_partial`, so the protocol model cannot exhibit the
defects by itself (it has no parent links that could go stale).  What the Lean side carries instead:
`Statement` (the property without the validity hypothesis, a `def`, not a theorem), `statement_partial`
(= `complete_decodes_partial`), and `finding_L_witness`, `finding_M_witness`, `finding_N_witness`:
for the recorded run of the unchanged crate (i) the model under the *unchecked* replay policy
reproduces the crate's bytes and verdicts exactly, (ii) `validate` rejects the run with
`invalid-backref`, (iii) the offending path, resolved against the parse stack of that moment, yields
another node than the requested one.  A formal `¬ Statement` is not derived: it would need the value of
the lexicographically-terminating decoders on concrete bytes, which the kernel does not reduce; the
decoded (wrong) trees are in KNOWN_FINDINGS.jsonl and are recomputed by the oracle on every run.
-/
import ClvmProofs.Lemmas.IncrementalWitness
import ClvmProofs.Lemmas.TreeCacheRegion
import ClvmProofs.Lemmas.TreeCacheMulti

namespace Clvm.Props.C19
open Clvm Clvm.Serde Clvm.Serde.Incremental Clvm.Serde.Backref Clvm.Incremental Clvm.Backref

/-- the incremental serializer and the back-reference decoders use the same two markers -/
theorem markers_agree : Gen.incBackReference = Gen.deBrBackReference ∧
    Gen.incConsBoxMarker = Gen.deBrConsBoxMarker := by decide

/-- `restore` installs exactly the recorded stacks and cache checkpoint, and truncates the output to
the recorded position -/
theorem restore_installs (s : Ser) (u : UndoState) :
    (s.restore u).readOpStack = u.readOpStack ∧ (s.restore u).writeStack = u.writeStack ∧
    (s.restore u).cache.root = u.treeCache ∧ (s.restore u).output.buf = s.output.buf.take u.outputPosition ∧
    (s.restore u).output.pos = u.outputPosition := ⟨rfl, rfl, rfl, rfl, rfl⟩

/-- the undo state `add` returns is the state it was called in; `add` only appends (any policy) -/
theorem add_returns_undo_state (sentinel : Option Bytes) (s s' : Ser) (fp : FindPath) (t : Tree) (d : Bool)
    (u : UndoState) (hs : Ext (Ser.new sentinel) s) (h : s.add fp t = .ok (s', d, u)) :
    u = s.undoState ∧ ∃ suffix, s'.getRef = s.getRef ++ suffix ∧ s'.size = s.size + suffix.length := by
  obtain ⟨hc, _, _⟩ := ext_spec hs rfl
  obtain ⟨hu, hc', _, sfx, hb⟩ := add_appends h hc
  refine ⟨hu, sfx, hb, ?_⟩
  unfold Ser.size
  unfold CurOk at hc hc'
  rw [hc, hc', hb, List.length_append]

/-- **Output is append-only between** (any policies): every state reached from `b` without restoring
an undo state older than `b` extends `b`'s bytes. -/
theorem output_append_only (sentinel : Option Bytes) (b s : Ser) (hb : Ext (Ser.new sentinel) b) (h : Ext b s) :
    ∃ suffix, s.getRef = b.getRef ++ suffix := by
  obtain ⟨hc, _, _⟩ := ext_spec hb rfl
  exact (ext_spec h hc).2.2

/-- **`undo_exact`** (any policies, valid or not): restoring the undo state taken at `b` — after any
calls of `add` and any `restore`s of still-valid later undo states — gives back the state `b` itself:
the output bytes and position, both stacks and the cache checkpoint. -/
theorem undo_exact (sentinel : Option Bytes) (b s : Ser) (hb : Ext (Ser.new sentinel) b) (h : Ext b s) :
    s.restore b.undoState = b := by
  obtain ⟨hc, _, _⟩ := ext_spec hb rfl
  exact restore_exact hc h

/-- the same for a caller's bookkeeping (`Run`: the undo states of the retained additions): in a history
with valid policies, `undo k` puts the serializer back into the state in which the k-th retained
addition was made, drops the additions k.. and the output shrinks to a prefix. -/
theorem run_undo_exact_partial (sentinel : Option Bytes) (steps : List Step) (r r' : Run) (k : Nat)
    (hvalid : ∀ st ∈ steps, StepValid st) (hrun : (Run.new sentinel).steps steps = .ok r)
    (hundo : r.step (.undo k) = .ok r') :
    ∃ b : Ser, r.undos[k - 1]? = some b.undoState ∧ r'.s = b ∧ Ext b r.s ∧ r'.trees = r.trees.take (k - 1) ∧
      ∃ suffix, r.s.getRef = r'.s.getRef ++ suffix := by
  obtain ⟨_, bs, hund, _, hb, _⟩ := steps_inv steps _ r (runInv_new sentinel) hvalid hrun
  simp only [Run.step] at hundo
  split at hundo
  · cases hundo
  · cases hu : r.undos[k - 1]? with
    | none => simp [hu] at hundo
    | some u =>
      simp only [hu, Except.ok.injEq] at hundo
      subst hundo
      rw [hund, List.getElem?_map] at hu
      cases hbk : bs[k - 1]? with
      | none => simp [hbk] at hu
      | some b =>
        simp only [hbk, Option.map_some, Option.some.injEq] at hu
        subst hu
        obtain ⟨gb, eb⟩ := hb (k - 1) b hbk
        have hrest : r.s.restore b.undoState = b := restore_exact gb.cur eb
        refine ⟨b, rfl, hrest, eb, rfl, ?_⟩
        show ∃ suffix, r.s.getRef = (r.s.restore b.undoState).getRef ++ suffix
        rw [hrest]
        exact (ext_spec eb gb.cur).2.2

/-- **`complete_decodes_partial`**: for every history whose policies are valid, once `add` has reported
completion the output decodes — with the current and with the legacy back-reference decoder, followed
by any bytes `rest`, from any allocator state — to the tree assembled from the retained additions,
which has no sentinel left, and exactly the output is consumed; the only other outcome is an allocator
limit of the decoder.  `into_inner` is then allowed.  PARTIAL: validity of the real `find_path` is
the hypothesis `hvalid` (checked per run by the stream, violated in the regions of findings L, M, N). -/
theorem complete_decodes_partial (sentinel : Option Bytes) (steps : List Step) (r : Run)
    (hvalid : ∀ st ∈ steps, StepValid st) (hrun : (Run.new sentinel).steps steps = .ok r)
    (hdone : r.done = true) :
    ∃ A, assemble sentinel r.trees = some A ∧ noSentinel sentinel A = true ∧
      r.s.intoInner = .ok r.s.getRef ∧
      ∀ (rest : Bytes) (c : Ctr), c.pairs + c.ghostPairs ≤ Gen.maxNumPairs →
        ((∃ e, deBrOld (r.s.getRef ++ rest) [.sexp] Tree.nil c = .error e ∧ limitErr e) ∨
          ∃ c', deBrOld (r.s.getRef ++ rest) [.sexp] Tree.nil c = .ok (A, rest, c')) ∧
        ((∃ e, deBrNew (r.s.getRef ++ rest) [.sexp] [] c = .error e ∧ limitErr e) ∨
          ∃ c', deBrNew (r.s.getRef ++ rest) [.sexp] [] c = .ok (A, rest, c')) := by
  have hi := steps_inv steps _ r (runInv_new sentinel) hvalid hrun
  have hg := hi.good
  rw [hdone] at hg
  obtain ⟨A, h1, h2, h3, _, h5⟩ := good_done_decodes hg
  refine ⟨A, h1, h2, ?_, h5⟩
  unfold Ser.intoInner
  rw [h3]; rfl

/-- the policy the validation stream uses — "answer what the recorded bytes show, if that is an
admissible path for the current parse-stack mirror" — is valid by construction -/
theorem replay_checked_valid (rec : Bytes) : Valid (replayChecked rec) := replayChecked_valid rec

/-- **`validate_sound`**: if `validate` accepts the recorded outputs of a completed history, then the
final recorded bytes decode (both decoders, any continuation, any allocator state short of its limits)
to the tree assembled from the retained additions — the run-time decode check of `validate` is a
theorem about every accepted run, not only a test with the default allocator. -/
theorem validate_sound (sentinel : Option Bytes) (steps : List (Req × Rec)) (r : Run)
    (h : validate sentinel steps = .ok r) (hdone : r.done = true) :
    ∃ A, assemble sentinel r.trees = some A ∧ noSentinel sentinel A = true ∧
      ∀ (rest : Bytes) (c : Ctr), c.pairs + c.ghostPairs ≤ Gen.maxNumPairs →
        ((∃ e, deBrOld (r.s.getRef ++ rest) [.sexp] Tree.nil c = .error e ∧ limitErr e) ∨
          ∃ c', deBrOld (r.s.getRef ++ rest) [.sexp] Tree.nil c = .ok (A, rest, c')) ∧
        ((∃ e, deBrNew (r.s.getRef ++ rest) [.sexp] [] c = .error e ∧ limitErr e) ∨
          ∃ c', deBrNew (r.s.getRef ++ rest) [.sexp] [] c = .ok (A, rest, c')) := by
  have hg := (validate_inv h).good
  rw [hdone] at hg
  obtain ⟨A, h1, h2, _, _, h5⟩ := good_done_decodes hg
  exact ⟨A, h1, h2, h5⟩

/-! ### the faithful model (`ClvmModel/Serde/TreeCache.lean`) -/

section Faithful
open Clvm.Serde.TreeCache Clvm.TreeCacheProofs Clvm.Serde.TraversePath

/-- `PathBuilder::done` and `traverse_path` are inverse: a builder holding the terminator followed
(newest first) by a walk yields bytes that `traverse_path` walks along exactly that walk -/
theorem faithful_path_codec (p : PathB) (walk : List Bool) (t r : Tree) (hlen : p.len = p.rev.length)
    (hrev : p.rev = walk ++ [true]) (hfol : follow walk t = some r) :
    ∃ cost, traversePath p.done t = .ok (cost, r) := done_traverse p walk t r hlen hrev hfol

/-- **`find_path` of the faithful model is sound** in every cache state whose parent links are true child
relations of a content assignment `C`: the returned path leads, on the mirror of the current parse stack,
to the content of the requested node's entry. -/
theorem faithful_find_path_sound (C : Nat → Tree) (tc : TC) (hps : ParentsSound C tc) (node : Node) (path : Bytes)
    (h : tc.findPath node = .ok (some path)) :
    ∃ idx, alGet tc.nodeMap node.key = some idx ∧
      ∃ cost, traversePath path (mirror C tc.stack.reverse) = .ok (cost, C idx) :=
  findPath_sound C tc hps node path h

/-- **`update()` keeps the invariant**, with or without sentinel: `C` gives every entry a content (the
pending sentinel as the marker atom), every recorded parent link is a true child relation, every
registered `NodePtr` but the sentinel's has its content `K`, an entry whose content contains the sentinel
has serialized length 0.  When `root` is added, all contents are *refined* (`sigma`: the pending sentinel
becomes `root`'s tree; identity without sentinel) — also in the parent links taken over from the old
sentinel entry — and `K'` is the refined key-content function extended to the nodes of `root`. -/
theorem faithful_update_sound (sent : Option Bytes) (K K' : Key → Tree) (C : Nat → Tree) (tc tc' : TC)
    (h : UInv sent K C tc) (root : Node) (hk : KOk K' root) (hx : ∀ m, sent = some m → cnt m root.tree ≤ 1)
    (hagree : ∀ k i, alGet tc.nodeMap k = some i → ¬ IsSK sent k → K' k = sigma sent root.tree (K k))
    (hpend : ∀ m s0, sent = some m → alGet tc.nodeMap (Key.atom m) = some s0 → C s0 = Tree.atom m)
    (hu : tc.update root = .ok tc') :
    ∃ C', UInv sent K' C' tc' ∧ (∀ j, j < tc.entries.size → C' j = sigma sent root.tree (C j)) ∧
      tc'.stack = tc.stack := by
  obtain ⟨C', h1, h2, h3, _⟩ := update_spec h root K' hk hx hagree hpend hu
  exact ⟨C', h1, h2, h3⟩

/-- **the faithful model as a one-shot serializer**: no sentinel, one addition built as the harness builds
it (`adds:` = `shared`, `add:` = fresh `NodePtr`s numbered from `next`).  If `add` returns, it reports
completion, leaves no pending operation, and the bytes decode (both decoders, any continuation, any
allocator state short of its limits) to the tree. -/
theorem faithful_single_add_decodes (shared : Bool) (t : Tree) (next : Nat) (s' : FSer) (d : Bool) (u : FUndo)
    (h : (FSer.new none).add (buildNode shared t next).1 = .ok (s', d, u)) :
    d = true ∧ s'.readOpStack = [] ∧
    ∀ (rest : Bytes) (c : Ctr), c.pairs + c.ghostPairs ≤ Gen.maxNumPairs →
      ((∃ e, deBrOld (s'.output.buf ++ rest) [.sexp] Tree.nil c = .error e ∧ limitErr e) ∨
        ∃ c', deBrOld (s'.output.buf ++ rest) [.sexp] Tree.nil c = .ok (t, rest, c')) ∧
      ((∃ e, deBrNew (s'.output.buf ++ rest) [.sexp] [] c = .error e ∧ limitErr e) ∨
        ∃ c', deBrNew (s'.output.buf ++ rest) [.sexp] [] c = .ok (t, rest, c')) := by
  obtain ⟨⟨K, hk⟩, htree⟩ := buildNode_ok shared t next
  have := single_add_decodes K _ hk s' d u h
  rw [htree] at this
  exact this

/-- **`Statement` for the faithful model, unconditional, on serializers without sentinel**: every history
of additions that ends completed decodes to the assembled tree.  (The general defect-free region is
`FaithfulStatementDefectFree`, open.) -/
theorem faithful_statement_no_sentinel (adds : List (Bool × Tree)) : FaithfulDecodes none adds :=
  Clvm.TreeCacheProofs.faithful_statement_no_sentinel adds

/-- **`Statement` for the faithful model, unconditional, on the region `DefectFreeFresh`** (sentinel not
the empty atom; additions only; at most one sentinel per addition; an addition with a sentinel has
`NodePtr`s of its own): every such history that ends completed decodes — both decoders, any continuation,
any allocator state short of its limits — to the tree assembled from the additions, which has no sentinel
left.  The policy hypothesis of `complete_decodes_partial` is *proved* here for the model that reproduces
the crate byte for byte. -/
theorem faithful_statement_fresh_region (m : Bytes) (adds : List (Bool × Tree))
    (hreg : DefectFreeFresh m adds = true) : FaithfulDecodes (some m) adds :=
  Clvm.TreeCacheProofs.faithful_statement_fresh_region m adds hreg

/-- the region of `faithful_statement_fresh_region` lies inside the defect-free region of L, M, N -/
theorem defect_free_fresh_sub (m : Bytes) (adds : List (Bool × Tree)) (h : DefectFreeFresh m adds = true) :
    DefectFree (some m) adds = true := defectFreeFresh_sub m adds h

/-- list building as the crate's tests do it (without re-using the `list` node): `(item . S)` three times,
then the terminator, is in the region -/
example : DefectFreeFresh Witness.M
    [(false, .pair Witness.X Witness.S), (false, .pair Witness.Y Witness.S), (false, .pair Witness.X Witness.S),
     (true, Tree.nil)] = true := by decide

/-- the open obligation implies nothing more than what is proved when there is no sentinel (sanity:
the proved part is an instance of the `def`) -/
theorem faithful_statement_defect_free_no_sentinel_instance (adds : List (Bool × Tree))
    (_ : DefectFree none adds = true) : FaithfulDecodes none adds :=
  Clvm.TreeCacheProofs.faithful_statement_no_sentinel adds

end Faithful

/-! ### the unconditional statement and the known findings -/

/-- The property at full strength in the protocol model: `complete_decodes_partial` *without* the
validity hypothesis, i.e. for whatever `find_path` answers.  It is what C19 claims of the real
serializer (whose `find_path` is one particular family of policies).  It is **not** a theorem: an
arbitrary policy may answer with a path to another node, and on the unchanged tree the real
`find_path` does so in the regions of findings L, M, N (witnesses below). -/
def Statement : Prop :=
  ∀ (sentinel : Option Bytes) (steps : List Step) (r : Run),
    (Run.new sentinel).steps steps = .ok r → r.done = true →
    ∃ A, assemble sentinel r.trees = some A ∧ noSentinel sentinel A = true ∧
      ∀ (rest : Bytes) (c : Ctr), c.pairs + c.ghostPairs ≤ Gen.maxNumPairs →
        (∃ e, deBrNew (r.s.getRef ++ rest) [.sexp] [] c = .error e ∧ limitErr e) ∨
          ∃ c', deBrNew (r.s.getRef ++ rest) [.sexp] [] c = .ok (A, rest, c')

/-- the statement holds for all histories with valid policies -/
theorem statement_partial (sentinel : Option Bytes) (steps : List Step) (r : Run)
    (hvalid : ∀ st ∈ steps, StepValid st) (hrun : (Run.new sentinel).steps steps = .ok r)
    (hdone : r.done = true) :
    ∃ A, assemble sentinel r.trees = some A ∧ noSentinel sentinel A = true ∧
      ∀ (rest : Bytes) (c : Ctr), c.pairs + c.ghostPairs ≤ Gen.maxNumPairs →
        (∃ e, deBrNew (r.s.getRef ++ rest) [.sexp] [] c = .error e ∧ limitErr e) ∨
          ∃ c', deBrNew (r.s.getRef ++ rest) [.sexp] [] c = .ok (A, rest, c') := by
  obtain ⟨A, h1, h2, _, h4⟩ := complete_decodes_partial sentinel steps r hvalid hrun hdone
  exact ⟨A, h1, h2, fun rest c hc => (h4 rest c hc).2⟩

/-- the bytes and the verdict of a model run -/
def outcome (x : Except Err Run) : Option (Bytes × Bool) :=
  match x with
  | .ok r => some (r.s.getRef, r.done)
  | .error _ => none

open Witness in
/-- **Finding L** (an addition with two sentinels), recorded run of the unchanged crate
(`INC c9 …`): (1) the protocol model driven by the policy read off the recorded bytes (`replay`,
unchecked) reproduces exactly the crate's bytes and verdicts — the recorded run *is* a behaviour of the
model under some policy; (2) that policy is not valid: the validator rejects the run at a
back-reference; (3) concretely, `fe 06` is written for `x` when the parse stack is
`[(a . x), (a . y)]`, and `traverse_path 06` on that stack yields `y`; (4) so the bytes encode
`((a . x) . ((a . y) . y))` although the assembled tree is `((a . x) . ((a . y) . x))`. -/
theorem finding_L_witness :
    outcome ((Run.new (some M)).steps (histL.map fun
      | (.add t, .added _ out) => Step.add (replay out) t
      | (.add t, _) => Step.add (replay []) t
      | (.undo k, _) => Step.undo k)) = some (outL, true) ∧
    verdict (validate (some M) histL) = "invalid-backref" ∧
    (match TraversePath.traversePath [6] (.pair (.pair A Y) (.pair (.pair A X) Tree.nil)) with
      | .ok (_, t) => some t
      | .error _ => none) = some Y ∧
    assemble (some M) treesL = some (.pair (.pair A X) (.pair (.pair A Y) X)) := by
  refine ⟨?_, ?_, ?_, ?_⟩ <;> decide +kernel

open Witness in
/-- **Finding M** (`restore` followed by `add`), recorded run (`INC c10 …`): as for L; `fe 06` is
written for `x` when the parse stack is `[x, b, (a . y)]` (the `y` was added after the undo of `x`),
and leads to `y`: the bytes encode `(x . (b . ((a . y) . y)))`, the assembled tree is
`(x . (b . ((a . y) . x)))`. -/
theorem finding_M_witness :
    outcome ((Run.new (some M)).steps (histM.map fun
      | (.add t, .added _ out) => Step.add (replay out) t
      | (.add t, _) => Step.add (replay []) t
      | (.undo k, _) => Step.undo k)) = some (outM, true) ∧
    verdict (validate (some M) histM) = "invalid-backref" ∧
    (match TraversePath.traversePath [6] (.pair (.pair A Y) (.pair B (.pair X Tree.nil))) with
      | .ok (_, t) => some t
      | .error _ => none) = some Y ∧
    assemble (some M) treesM = some (.pair X (.pair B (.pair (.pair A Y) X))) := by
  refine ⟨?_, ?_, ?_, ?_⟩ <;> decide +kernel

open Witness in
/-- **Finding N** (a node with the sentinel below it used in two additions), recorded run
(`INC c12 …`): reproduced by the model under the unchecked replay policy, rejected by the validator
at a back-reference; the assembled tree exists.  (The crate's decoder answers
`SerializationBackreferenceError` on these bytes: the path runs into an atom.) -/
theorem finding_N_witness :
    outcome ((Run.new (some M)).steps (histN.map fun
      | (.add t, .added _ out) => Step.add (replay out) t
      | (.add t, _) => Step.add (replay []) t
      | (.undo k, _) => Step.undo k)) = some (outN, true) ∧
    verdict (validate (some M) histN) = "invalid-backref" ∧
    (assemble (some M) treesN).isSome = true := by
  refine ⟨?_, ?_, ?_⟩ <;> decide +kernel

open Witness in
/-- the first two steps of the same recorded run are accepted: the rejection concerns the last
back-reference, not the protocol -/
theorem finding_L_prefix_accepted : verdict (validate (some M) (histL.take 2)) = "ok" := by
  decide +kernel

end Clvm.Props.C19
