/-
C12 — allocator resource accounting is representation-independent.

Property theorems only; helper lemmas are in `Lemmas/Alloc*.lean`.  The model is
`ClvmModel/Alloc.lean` (a transcription of `src/allocator.rs`), the reference is `RefAlloc`
(`ClvmModel/Alloc/Ref.lean`): nodes are values (`Clvm.Tree`, every atom a separately stored byte
string) and the only state is the three counters.  `Refines a out ref` says: the model operation
and the reference operation succeed or fail together (same error kind); on success the counters
of the new state are the reference's (`abs a' = r'`), the new node denotes the reference's tree,
`Inv` holds again and the state only grew; on failure the state is unchanged.

The property is **false** of the current code for `new_substr` (DESIGN §6 finding C); it is
represented as `SubstrRefines` / `HistoryCounts` (full statements), `…_partial` theorems outside
the decidable defect region `substrDefect`, and `…_witness` theorems.
-/
import ClvmProofs.Lemmas.AllocStep

namespace Clvm.Props.C12
open Clvm Clvm.Alloc

/-- a fresh allocator reports the counts of the historical heap-only allocator (`nil`, `one`) -/
theorem new_counts (limit : Nat) (a : Alloc) (h : newLimited limit = .ok a) : abs a = RefAlloc.new limit := by
  unfold newLimited at h
  split at h
  · cases h
  · cases h; rfl

/-! ### `step_refines`: every allocating operation commutes with `abs` -/

theorem refines_new_atom (a : Alloc) (b : Bytes) (hI : Inv a) :
    Refines a (newAtom a b) ((abs a).newAtom b) := newAtom_refines a b hI

theorem refines_new_small_number (a : Alloc) (v : Nat) (hI : Inv a) (hv : v < 2 ^ Gen.nodePtrIdxBits) :
    Refines a (newSmallNumber a v) ((abs a).newInt (v : Int)) :=
  newSmallNumber_refines a v hI (by unfold idxMask; omega)

theorem refines_new_u64 (a : Alloc) (v : Nat) (hI : Inv a) (hv : v < 2 ^ 64) :
    Refines a (newU64 a v) ((abs a).newInt (v : Int)) := newU64_refines a v hI hv

theorem refines_new_i64 (a : Alloc) (v : Int) (hI : Inv a) (h1 : -(2 : Int) ^ 63 ≤ v) (h2 : v < (2 : Int) ^ 63) :
    Refines a (newI64 a v) ((abs a).newInt v) := newI64_refines a v hI h1 h2

theorem refines_new_number (a : Alloc) (v : Int) (hI : Inv a) :
    Refines a (newNumber a v) ((abs a).newInt v) := newNumber_refines a v hI

theorem refines_new_pair (a : Alloc) (l r : Ptr) (hI : Inv a) (hl : Valid a l) (hr : Valid a r) :
    Refines a (newPair a l r) ((abs a).newPair (treeOf a l) (treeOf a r)) := newPair_refines a l r hI hl hr

/-- (a single pair operand violates the API's precondition: the crate panics in `atom_len`) -/
theorem refines_new_concat (a : Alloc) (newSize : Nat) (ps : List Ptr) (hI : Inv a)
    (hv : ∀ p ∈ ps, Valid a p) (h1 : ∀ i, ps ≠ [.pair i]) :
    Refines a (newConcat a newSize ps) ((abs a).newConcat newSize (ps.map (treeOf a))) :=
  newConcat_refines a newSize ps hI hv h1

theorem refines_add_ghost_atom (a : Alloc) (n : Nat) (hI : Inv a) :
    RefinesU a (addGhostAtom a n) ((abs a).addGhostAtom n) := addGhostAtom_refines a n hI

theorem refines_add_ghost_pair (a : Alloc) (n : Nat) (hI : Inv a) :
    RefinesU a (addGhostPair a n) ((abs a).addGhostPair n) := addGhostPair_refines a n hI

theorem refines_remove_ghost_pair (a : Alloc) (n : Nat) (hI : Inv a) (hn : n ≤ a.ghostPairs) :
    RefinesU a (removeGhostPair a n) (.ok ((abs a).removeGhostPair n)) := removeGhostPair_refines a n hI hn

/-! ### substrings: the one exception (finding C) -/

/-- full statement for `new_substr`: a substring shares its parent's bytes -/
def SubstrRefines : Prop :=
  ∀ (a : Alloc) (p : Ptr) (s e : Nat), Inv a → Valid a p →
    Refines a (newSubstr a p s e) ((abs a).newSubstr (treeOf a p) s e)

/-- … holds outside the defect region: the parent is a heap atom or a pair, or the bounds are
rejected, or the substring of the inline atom is itself a canonical small integer -/
theorem substr_refines_partial (a : Alloc) (p : Ptr) (s e : Nat) (hI : Inv a) (hp : Valid a p)
    (hd : substrDefect p s e = false) :
    Refines a (newSubstr a p s e) ((abs a).newSubstr (treeOf a p) s e) :=
  newSubstr_refines a p s e hI hp hd

/-- inside the region everything is as in the reference **except** that the heap size grows by the
length of the substring (and no heap limit is checked) -/
theorem substr_defect_exact (a : Alloc) (v s e : Nat) (hI : Inv a) (hp : Valid a (.small v))
    (hd : substrDefect (.small v) s e = true) (hfull : atomCount a + 1 ≤ Gen.maxNumAtoms) :
    ∃ a', newSubstr a (.small v) s e = (.ok (.bytes a.atoms.length), a') ∧
      atomCount a' = atomCount a + 1 ∧ pairCount a' = pairCount a ∧
      heapSize a' = heapSize a + (e - s) ∧
      treeOf a' (.bytes a.atoms.length) = .atom (((smallBytes v).drop s).take (e - s)) ∧
      Inv a' ∧ Ext a a' :=
  newSubstr_defect a v s e hI hp hd hfull

/-- the allocator of the witness: `new_limited(3)` after `new_small_number(128)` -/
def witnessAlloc : Alloc :=
  { u8 := [], pairs := [], atoms := [], heapLimit := 3, ghostAtoms := 3, ghostPairs := 0, ghostHeap := 3 }

theorem witnessAlloc_reachable :
    (newLimited 3).toOption.map (fun a => (newSmallNumber a 128).2) = some witnessAlloc := by decide

theorem witnessAlloc_inv : Inv witnessAlloc :=
  ⟨Closed.nil _, by decide, by decide, by decide⟩

/-- `new_substr(0x0080 as inline atom, 0, 1)` reports heap size 4 where the reference says 3 -/
theorem substr_refines_witness : ¬ SubstrRefines := by
  intro h
  have hv : Valid witnessAlloc (.small 128) := by show (128 : Nat) ≤ idxMask; decide
  have := h witnessAlloc (.small 128) 0 1 witnessAlloc_inv hv
  have e1 : newSubstr witnessAlloc (.small 128) 0 1 =
      (.ok (.bytes 0), { witnessAlloc with u8 := [0], atoms := [(0, 1)] }) := rfl
  have e2 : (abs witnessAlloc).newSubstr (treeOf witnessAlloc (.small 128)) 0 1 =
      .ok (.atom [0], ⟨4, 0, 3, 3⟩) := rfl
  rw [e1, e2] at this
  have := congrArg RefAlloc.heapSize this.1
  revert this
  decide

/-! ### restores -/

/-- `restore_resets`: a full restore resets the three counts to the checkpoint's -/
theorem restore_resets (a0 a : Alloc) (hv : CpValid a (checkpoint a0)) (hl : a.heapLimit = a0.heapLimit) :
    ∃ a', restoreCheckpoint a (checkpoint a0) = (.ok (), a') ∧ abs a' = abs a0 := by
  refine ⟨_, restoreCheckpoint_eq a _ hv, ?_⟩
  have ⟨c1, c2, c3⟩ := restoredC_counts a _ hv
  have ⟨d1, d2, d3⟩ := checkpoint_counts a0
  unfold abs
  rw [c1, c2, c3, d1, d2, d3]
  congr 1

/-- `transparent_keeps`: a transparent restore leaves the three counts unchanged -/
theorem transparent_keeps (a : Alloc) (cp : TCheckpoint) (hv : TCpValid a cp) :
    ∃ a', restoreTransparentCheckpoint a cp = (.ok (), a') ∧ abs a' = abs a := by
  refine ⟨_, restoreTransparent_eq a cp hv, ?_⟩
  have ⟨c1, c2, c3⟩ := restoredT_counts a cp hv
  exact abs_eq_of_counts c1 c2 c3 rfl

/-- (C04, allocator level) `maybe_restore_with_node` never fails under the invariant, and
whether it aborts, keeps or replaces the node, the three counts are unchanged -/
theorem maybe_restore_keeps (a : Alloc) (cp : TCheckpoint) (ret : Ptr) (hI : Inv a)
    (hv : TCpValid a cp) (hr : Valid a ret) :
    ∃ r a', maybeRestoreWithNode a cp ret = (.ok r, a') ∧ abs a' = abs a ∧ Inv a' := by
  obtain ⟨r, a', h, ho⟩ := maybeRestore_ok a cp ret hI hv hr
  refine ⟨r, a', h, ?_⟩
  cases ho with
  | aborted => exact ⟨rfl, hI⟩
  | noReplace _ hw => exact ⟨hw.counts, hw.inv⟩
  | replace _ q _ hw => exact ⟨hw.counts, hw.inv⟩

/-! ### histories -/

/-- full statement over histories: the count triples reported after every operation of a history
started from a fresh allocator follow the accounting rule `RefAlloc.after` -/
def HistoryCounts : Prop :=
  ∀ (limit : Nat) (a0 : Alloc) (ops : List Op) (sf : Session) (ts : List (Tag × Nat × Nat × Nat)),
    newLimited limit = .ok a0 → Gen.initGhostHeap ≤ limit → (∀ op ∈ ops, op.wf) →
    (Session.init a0).run ops = .ok (sf, ts) → CountsFollow (abs a0) (Session.init a0) ops ts

/-- … holds for every history none of whose steps is in the defect region -/
theorem history_counts_partial (limit : Nat) (a0 : Alloc) (ops : List Op) (sf : Session)
    (ts : List (Tag × Nat × Nat × Nat)) (h0 : newLimited limit = .ok a0) (hl : Gen.initGhostHeap ≤ limit)
    (hw : ∀ op ∈ ops, op.wf) (hd : NoDefect (Session.init a0) ops)
    (h : (Session.init a0).run ops = .ok (sf, ts)) : CountsFollow (abs a0) (Session.init a0) ops ts := by
  have ⟨hI, hH⟩ := inv_newLimited limit a0 h0 hl
  exact run_counts ops _ (SInv.init a0 hI hH) hw hd sf ts h

/-- the history `new_limited(3); new_small_number(128); new_substr(#0, 0, 1)` reports heap 4 -/
theorem history_counts_witness : ¬ HistoryCounts := by
  intro h
  have hw : ∀ op ∈ [Op.small 128, Op.sub 0 0 1], op.wf := by
    intro op hop; simp at hop; rcases hop with rfl | rfl <;> trivial
  have hrun := h 3 _ [.small 128, .sub 0 0 1] _ _ rfl (by decide) hw rfl
  obtain ⟨_, _, _, hnext⟩ := hrun
  obtain ⟨_, _, hheap, _⟩ := hnext _ rfl
  have e : (encodeInt ((128 : Nat) : Int)).length = 2 := by
    rw [← lenForValue_enc 128 (by decide)]; decide
  have h4 : (4 : Nat) = 1 + (encodeInt ((128 : Nat) : Int)).length + 0 := hheap
  rw [e] at h4
  exact absurd h4 (by decide)

end Clvm.Props.C12
