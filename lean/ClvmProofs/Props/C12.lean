/-
C12 — allocator resource accounting is representation-independent.

Property theorems only; helper lemmas are in `Lemmas/Alloc*.lean`.  The model is
`ClvmModel/Alloc.lean` (transcription of `src/allocator.rs`), the reference is `RefAlloc`.
-/
import ClvmModel.Alloc.Session

namespace Clvm.Props.C12
open Clvm Clvm.Alloc

/-- a fresh allocator reports the counts of the historical heap-only allocator (`nil`, `one`) -/
theorem new_counts (limit : Nat) (a : Alloc) (h : newLimited limit = .ok a) :
    atomCount a = Gen.initGhostAtoms ∧ pairCount a = Gen.initGhostPairs ∧ heapSize a = Gen.initGhostHeap := by
  unfold newLimited at h
  split at h
  · cases h
  · cases h; simp [atomCount, pairCount, heapSize]

end Clvm.Props.C12
