/-
C29 — size-limited serializers fail exactly at the limit with out-of-memory.
-/
import ClvmModel.Serde.Classic

namespace Clvm.Props.C29
open Clvm Clvm.Serde.Classic

/-- the limited writer accepts a (non-empty) write iff it fits in what is left, and then
accounts for exactly its length -/
theorem limited_write (out buf : Bytes) (l : Nat) (h : buf ≠ []) :
    Writer.write { out := out, limit := some l } buf =
      if buf.length ≤ l then .ok { out := out ++ buf, limit := some (l - buf.length) }
      else .error .outOfMemory := by
  unfold Writer.write
  have : buf.isEmpty = false := by cases buf <;> simp_all
  simp only [this]
  by_cases hl : l < buf.length
  · simp [hl]
  · simp [hl]

/-- a crossed limit is converted to `OutOfMemory` (not to `SerializationError`) -/
theorem crossed_limit_is_oom : errOfIo .outOfMemory = .OutOfMemory := rfl

end Clvm.Props.C29
