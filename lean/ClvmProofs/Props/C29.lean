/-
C29 — size-limited serializers fail exactly at the limit with out-of-memory.
-/
import ClvmModel.Serde.Classic
import ClvmProofs.Lemmas.ClassicSer

namespace Clvm.Props.C29
open Clvm Clvm.Serde.Classic

/-- the limited writer accepts a (non-empty) write iff it fits in what is left, and then
accounts for exactly its length -/
theorem limited_write (out buf : Bytes) (l : Nat) (h : buf ≠ []) :
    Writer.write { out := out, limit := some l } buf =
      if buf.length ≤ l then .ok { out := out ++ buf, limit := some (l - buf.length) }
      else .error .outOfMemory := by
  unfold Writer.write
  have : buf.isEmpty = false := by cases buf <;> simp_all
  simp only [this]
  by_cases hl : l < buf.length
  · simp [hl]
  · simp [hl]

/-- a crossed limit is converted to `OutOfMemory` (not to `SerializationError`) -/
theorem crossed_limit_is_oom : errOfIo .outOfMemory = .OutOfMemory := rfl

/-- the serialization loop over an unlimited writer (`Vec<u8>`) appends exactly the recursive
specification `serSpec` -/
theorem unlimited_ser (t : Tree) (ht : t.atomsBelow (2 ^ 34)) (out : Bytes) :
    nodeToStream [t] { out := out, limit := none } = .ok { out := out ++ serSpec t, limit := none } := by
  rw [nodeToStream_spec [t] _ (by simpa using ht)]
  simp [Writer.fits, Writer.adv, serList]

/-- C29 for `node_to_bytes_limit`: for every tree (atoms below 2^34 bytes, the format's maximum)
and every limit `L`, the result is the unlimited serialization when it fits, and otherwise the
error is `OutOfMemory` — wherever the limit is crossed (cons marker, length prefix or atom body). -/
theorem limited_ser (t : Tree) (ht : t.atomsBelow (2 ^ 34)) (L : Nat) :
    nodeToBytesLimit t L =
      if (serSpec t).length ≤ L then .ok (serSpec t) else .error .OutOfMemory :=
  nodeToBytesLimit_spec t ht L

/-- `node_to_bytes` is the limited serializer at the default limit declared in `ser.rs` -/
theorem node_to_bytes_eq (t : Tree) (ht : t.atomsBelow (2 ^ 34)) :
    nodeToBytes t =
      if (serSpec t).length ≤ Gen.nodeToBytesLimit then .ok (serSpec t) else .error .OutOfMemory :=
  limited_ser t ht _

/-- the failure is monotone: a limit that suffices keeps sufficing when raised, and the result
does not depend on the limit -/
theorem limited_ser_mono (t : Tree) (ht : t.atomsBelow (2 ^ 34)) (L L' : Nat) (h : L ≤ L') (b : Bytes)
    (hb : nodeToBytesLimit t L = .ok b) : nodeToBytesLimit t L' = .ok b := by
  rw [limited_ser t ht] at hb ⊢
  split at hb
  · rename_i h1
    have : (serSpec t).length ≤ L' := by omega
    simpa [this] using hb
  · cases hb

/-- an atom of 2^34 bytes or more is refused with `SerializationError` whatever the limit
(this is why the size hypothesis of `limited_ser` is needed) -/
theorem too_long_atom (b : Bytes) (hb : 2 ^ 34 ≤ b.length) (w : Writer) :
    writeAtom w b = .error .SerializationError := by
  simp only [writeAtom, writePrefix_too_big w _ _ hb]

/-- non-vacuity: a concrete tree at three limits (crossed at the cons marker, inside the atom
prefix, and not crossed) -/
example : nodeToBytesLimit (.pair (.atom [0x80, 1]) (.atom [])) 0 = .error .OutOfMemory := by
  rw [limited_ser _ (by decide)]; rfl
example : nodeToBytesLimit (.pair (.atom [0x80, 1]) (.atom [])) 1 = .error .OutOfMemory := by
  rw [limited_ser _ (by decide)]; rfl
example : nodeToBytesLimit (.pair (.atom [0x80, 1]) (.atom [])) 4 = .error .OutOfMemory := by
  rw [limited_ser _ (by decide)]; rfl
example : nodeToBytesLimit (.pair (.atom [0x80, 1]) (.atom [])) 5 = .ok [0xff, 0x82, 0x80, 1, 0x80] := by
  rw [limited_ser _ (by decide)]; rfl
example : (Tree.pair (.atom [0x80, 1]) (.atom [])).atomsBelow (2 ^ 34) := by decide

end Clvm.Props.C29
