/- helper lemmas for Props/C27.lean: invariants of the identity-keyed memo walk (`ClvmModel/Py/Memo.lean`) -/
import ClvmModel.Py.Memo

namespace Clvm.Py.MemoLemmas
open Clvm Clvm.Py.Memo

/-! ### bookkeeping: `drop` touches only `heap` / `keep` -/

@[simp] theorem drop_memo (P : Proto) (k : Bool) (st : St) (h : Handle) : (drop P k st h).memo = st.memo := by
  unfold drop; split <;> rfl
@[simp] theorem drop_stack (P : Proto) (k : Bool) (st : St) (h : Handle) : (drop P k st h).stack = st.stack := by
  unfold drop; split <;> rfl
@[simp] theorem drop_log (P : Proto) (k : Bool) (st : St) (h : Handle) : (drop P k st h).log = st.log := by
  unfold drop; split <;> rfl
@[simp] theorem drop_heap_keep (P : Proto) (st : St) (h : Handle) : (drop P true st h).heap = st.heap := by
  simp [drop]

theorem lookup_cons (m : List (Nat × Tree)) (a k : Nat) (t : Tree) :
    lookup ((a, t) :: m) k = if a = k then some t else lookup m k := rfl

theorem contains_cons (m : List (Nat × Tree)) (a k : Nat) (t : Tree) :
    contains ((a, t) :: m) k = true ↔ (a = k ∨ contains m k = true) := by
  unfold contains; rw [lookup_cons]; by_cases h : a = k <;> simp [h]

theorem index_of_contains (m : List (Nat × Tree)) (k : Nat) (h : contains m k = true) :
    ∃ t, index m k = .ok t ∧ lookup m k = some t := by
  unfold contains at h; unfold index
  cases hl : lookup m k with
  | none => rw [hl] at h; cases h
  | some t => exact ⟨t, rfl, rfl⟩

theorem index_ok (m : List (Nat × Tree)) (k : Nat) (t : Tree) (h : index m k = .ok t) : lookup m k = some t := by
  unfold index at h; cases hl : lookup m k with
  | none => rw [hl] at h; cases h
  | some t' => rw [hl] at h; cases h; rfl

/-! ### the three shapes a successful step can take -/

def Item.resolves : Item → Nat
  | .visit h => h.addr
  | .buildPair id _ _ => id

/-- "will be a key of the memo by the time the items above have been processed" -/
def Ready (K : Nat → Prop) : List Item → Prop
  | [] => True
  | .visit h :: rest => Ready (fun a => K a ∨ a = h.addr) rest
  | .buildPair id l r :: rest => K l ∧ K r ∧ Ready (fun a => K a ∨ a = id) rest

theorem Ready.mono {K K' : Nat → Prop} (hk : ∀ a, K a → K' a) : ∀ s, Ready K s → Ready K' s
  | [], _ => trivial
  | .visit _ :: rest, hr => Ready.mono (fun a ha => ha.elim (fun x => .inl (hk a x)) .inr) rest hr
  | .buildPair _ _ _ :: rest, hr =>
    ⟨hk _ hr.1, hk _ hr.2.1, Ready.mono (fun a ha => ha.elim (fun x => .inl (hk a x)) .inr) rest hr.2.2⟩

def K (m : List (Nat × Tree)) (a : Nat) : Prop := contains m a = true

/-! ### denotation of addresses -/

def FunctionalD (Den : Nat → Tree → Prop) : Prop := ∀ a t1 t2, Den a t1 → Den a t2 → t1 = t2

def MemoDen (Den : Nat → Tree → Prop) (m : List (Nat × Tree)) : Prop := ∀ a t, lookup m a = some t → Den a t

def ItemDen (Den : Nat → Tree → Prop) : Item → Prop
  | .visit h => Den h.addr h.tree
  | .buildPair id l r => ∃ tl tr, Den l tl ∧ Den r tr ∧ Den id (.pair tl tr)

def StackDen (Den : Nat → Tree → Prop) (s : List Item) : Prop := ∀ i ∈ s, ItemDen Den i

theorem MemoDen.cons {Den : Nat → Tree → Prop} {m : List (Nat × Tree)} (hm : MemoDen Den m) (a : Nat) (t : Tree)
    (h : Den a t) : MemoDen Den ((a, t) :: m) := by
  intro k t' hl
  rw [lookup_cons] at hl
  by_cases e : a = k
  · simp [e] at hl; subst e; subst hl; exact h
  · simp [e] at hl; exact hm _ _ hl

def DenStep (item : Item) (st st1 : St) : Prop :=
  ∀ Den : Nat → Tree → Prop, FunctionalD Den → (∀ x ∈ st1.log, Den x.addr x.tree) → MemoDen Den st.memo →
    ItemDen Den item → StackDen Den st.stack → MemoDen Den st1.memo ∧ StackDen Den st1.stack

/-! ### the heap under the repaired algorithm -/

def Functional (heap : Heap) : Prop := ∀ a t1 t2, (a, t1) ∈ heap → (a, t2) ∈ heap → t1 = t2

/-- an honest Python side: `.pair` never kills an object, hands back two live objects denoting the
two children, and keeps addresses of live objects unique (a new object never gets the address of a
live one).  Stored children and freshly allocated children both satisfy this. -/
structure Valid (P : Proto) : Prop where
  children : ∀ heap h l r, Functional heap → (h.addr, Tree.pair l r) ∈ heap →
    (∀ x ∈ heap, x ∈ (P.children heap h l r).2.2) ∧ ((P.children heap h l r).1, l) ∈ (P.children heap h l r).2.2 ∧
    ((P.children heap h l r).2.1, r) ∈ (P.children heap h l r).2.2 ∧ Functional (P.children heap h l r).2.2

def HeapInv (heap : Heap) (log : List Handle) (stack : List Item) : Prop :=
  Functional heap ∧ (∀ x ∈ log, (x.addr, x.tree) ∈ heap) ∧ (∀ h, Item.visit h ∈ stack → (h.addr, h.tree) ∈ heap)

def HeapStep (P : Proto) (item : Item) (st st1 : St) : Prop :=
  Valid P → HeapInv st.heap st.log (item :: st.stack) →
    HeapInv st1.heap st1.log st1.stack ∧ ∀ x ∈ st.heap, x ∈ st1.heap

/-- description of one successful step (`item` popped from `item :: rest`) -/
structure StepOk (P : Proto) (k : Bool) (item : Item) (st st1 : St) : Prop where
  ready : Ready (K st1.memo) st1.stack
  weight : weight st1.stack < Item.weight item + weight st.stack
  keys : ∀ a, (K st.memo a ∨ a = Item.resolves item ∨ ∃ i ∈ st.stack, Item.resolves i = a) →
            (K st1.memo a ∨ ∃ i ∈ st1.stack, Item.resolves i = a)
  logMono : ∀ h ∈ st.log, h ∈ st1.log
  logsItem : ∀ h, item = .visit h → h ∈ st1.log
  den : DenStep item st st1
  heapKeep : k = true → HeapStep P item st st1

theorem weight_cons (i : Item) (s : List Item) : weight (i :: s) = Item.weight i + weight s := by
  simp [weight]

theorem size_pos (t : Tree) : 0 < t.size := by
  cases t <;> simp [Tree.size, Tree.pairs, Tree.atoms] <;> omega

theorem size_pair (l r : Tree) : (Tree.pair l r).size = l.size + r.size + 1 := by
  simp [Tree.size, Tree.pairs, Tree.atoms]; omega

/-- **Progress**: with a ready stack a step cannot hit the `identity_map[..]` panic. -/
theorem step_ok (P : Proto) (k : Bool) (item : Item) (st : St)
    (hr : Ready (K st.memo) (item :: st.stack)) :
    ∃ st1, stepItem P k item st = .ok st1 ∧ StepOk P k item st st1 := by
  cases item with
  | buildPair id l r =>
    obtain ⟨hl, hrr, hrest⟩ := hr
    obtain ⟨tl, hil, _⟩ := index_of_contains _ _ hl
    obtain ⟨tr, hir, _⟩ := index_of_contains _ _ hrr
    refine ⟨{ st with memo := (id, .pair tl tr) :: st.memo }, by simp [stepItem, hil, hir], ?_, ?_, ?_, ?_, ?_, ?_, ?_⟩
    · exact Ready.mono (fun a ha => by
        unfold K; rw [contains_cons]; rcases ha with h | h
        · exact .inr h
        · exact .inl h.symm) _ hrest
    · simp [Item.weight]
    · intro a ha
      rcases ha with h | h | h
      · left; unfold K; rw [contains_cons]; exact .inr h
      · left; unfold K; rw [contains_cons]; exact .inl h.symm
      · right; exact h
    · intro h hh; exact hh
    · intro h e; cases e
    · intro Den hf _ hm hi hs
      obtain ⟨tl', tr', d1, d2, d3⟩ := hi
      have e1 := hf _ _ _ (hm _ _ (index_ok _ _ _ hil)) d1
      have e2 := hf _ _ _ (hm _ _ (index_ok _ _ _ hir)) d2
      subst e1; subst e2
      exact ⟨hm.cons _ _ d3, hs⟩
    · intro _ _ hi
      refine ⟨⟨hi.1, hi.2.1, fun h hh => hi.2.2 h (List.mem_cons_of_mem _ hh)⟩, fun x hx => hx⟩
  | visit h =>
    have hrest : Ready (fun a => K st.memo a ∨ a = h.addr) st.stack := hr
    by_cases hc : contains st.memo h.addr = true
    · -- `continue`
      refine ⟨drop P k { st with log := h :: st.log } h, by simp [stepItem, hc], ?_, ?_, ?_, ?_, ?_, ?_, ?_⟩
      · simp only [drop_memo, drop_stack]
        exact Ready.mono (fun a ha => ha.elim id (fun e => e ▸ hc)) _ hrest
      · simp only [drop_stack, Item.weight]; have := size_pos h.tree; omega
      · intro a ha
        simp only [drop_memo, drop_stack]
        rcases ha with x | x | x
        · exact .inl x
        · left; simp only [Item.resolves] at x; rw [x]; exact hc
        · exact .inr x
      · intro x hx; simp only [drop_log]; exact List.mem_cons_of_mem _ hx
      · intro x e; cases e; simp
      · intro Den _ _ hm _ hs
        simp only [drop_memo, drop_stack]; exact ⟨hm, hs⟩
      · intro hk _ hi; subst hk
        simp only [drop_heap_keep, drop_log, drop_stack]
        refine ⟨⟨hi.1, ?_, fun x hx => hi.2.2 x (List.mem_cons_of_mem _ hx)⟩, fun x hx => hx⟩
        intro x hx
        rcases List.mem_cons.1 hx with e | e
        · subst e; exact hi.2.2 _ List.mem_cons_self
        · exact hi.2.1 x e
    · have hc' : contains st.memo h.addr = false := by
        cases hh : contains st.memo h.addr with
        | true => exact absurd hh hc
        | false => rfl
      cases ht : h.tree with
      | atom b =>
        refine ⟨drop P k { st with log := h :: st.log, memo := (h.addr, .atom b) :: st.memo } h,
          by simp [stepItem, hc', ht], ?_, ?_, ?_, ?_, ?_, ?_, ?_⟩
        · simp only [drop_memo, drop_stack]
          exact Ready.mono (fun a ha => by
            unfold K; rw [contains_cons]; rcases ha with x | x
            · exact .inr x
            · exact .inl x.symm) _ hrest
        · simp only [drop_stack, Item.weight]; have := size_pos h.tree; omega
        · intro a ha
          simp only [drop_memo, drop_stack]
          rcases ha with x | x | x
          · left; unfold K; rw [contains_cons]; exact .inr x
          · left; unfold K; rw [contains_cons]; exact .inl x.symm
          · exact .inr x
        · intro x hx; simp only [drop_log]; exact List.mem_cons_of_mem _ hx
        · intro x e; cases e; simp
        · intro Den _ _ hm hi hs
          simp only [drop_memo, drop_stack]
          have hi' : Den h.addr (.atom b) := by simpa [ItemDen, ht] using hi
          exact ⟨hm.cons _ _ hi', hs⟩
        · intro hk _ hi; subst hk
          simp only [drop_heap_keep, drop_log, drop_stack]
          refine ⟨⟨hi.1, ?_, fun x hx => hi.2.2 x (List.mem_cons_of_mem _ hx)⟩, fun x hx => hx⟩
          intro x hx
          rcases List.mem_cons.1 hx with e | e
          · subst e; exact hi.2.2 _ List.mem_cons_self
          · exact hi.2.1 x e
      | pair l r =>
        rcases hch : P.children st.heap h l r with ⟨aL, aR, heap'⟩
        by_cases hd : (contains st.memo aL && contains st.memo aR) = true
        · -- both children already converted
          have hdl : contains st.memo aL = true := by
            cases x : contains st.memo aL <;> simp [x] at hd ⊢
          have hdr : contains st.memo aR = true := by
            cases x : contains st.memo aR <;> simp [x] at hd ⊢
          obtain ⟨tl, hil, _⟩ := index_of_contains _ _ hdl
          obtain ⟨tr, hir, _⟩ := index_of_contains _ _ hdr
          refine ⟨drop P k (drop P k (drop P k
              { st with log := ⟨aR, r⟩ :: ⟨aL, l⟩ :: h :: st.log, heap := heap',
                        memo := (h.addr, .pair tl tr) :: st.memo } ⟨aL, l⟩) ⟨aR, r⟩) h, ?_, ?_, ?_, ?_, ?_, ?_, ?_, ?_⟩
          · simp [stepItem, hc', ht, hch, hdl, hdr, hil, hir]
          · simp only [drop_memo, drop_stack]
            exact Ready.mono (fun a ha => by
              unfold K; rw [contains_cons]; rcases ha with x | x
              · exact .inr x
              · exact .inl x.symm) _ hrest
          · simp only [drop_stack, Item.weight]; have := size_pos h.tree; omega
          · intro a ha
            simp only [drop_memo, drop_stack]
            rcases ha with x | x | x
            · left; unfold K; rw [contains_cons]; exact .inr x
            · left; unfold K; rw [contains_cons]; exact .inl x.symm
            · exact .inr x
          · intro x hx; simp only [drop_log]
            exact List.mem_cons_of_mem _ (List.mem_cons_of_mem _ (List.mem_cons_of_mem _ hx))
          · intro x e; cases e; simp
          · intro Den hf hlog hm hi hs
            simp only [drop_memo, drop_stack, drop_log] at hlog ⊢
            have dL : Den aL l := hlog ⟨aL, l⟩ (by simp)
            have dR : Den aR r := hlog ⟨aR, r⟩ (by simp)
            have e1 := hf _ _ _ (hm _ _ (index_ok _ _ _ hil)) dL
            have e2 := hf _ _ _ (hm _ _ (index_ok _ _ _ hir)) dR
            subst e1; subst e2
            have hi' : Den h.addr (.pair tl tr) := by simpa [ItemDen, ht] using hi
            exact ⟨hm.cons _ _ hi', hs⟩
          · intro hk hv hi; subst hk
            simp only [drop_heap_keep, drop_log, drop_stack]
            have hin : (h.addr, Tree.pair l r) ∈ st.heap := by
              have := hi.2.2 h List.mem_cons_self; rwa [ht] at this
            have hv' := hv.children st.heap h l r hi.1 hin
            rw [hch] at hv'
            obtain ⟨hsub, hL, hR, hfun⟩ := hv'
            refine ⟨⟨hfun, ?_, fun x hx => hsub _ (hi.2.2 x (List.mem_cons_of_mem _ hx))⟩, hsub⟩
            intro x hx
            simp only [List.mem_cons] at hx
            rcases hx with e | e | e | e
            · subst e; exact hR
            · subst e; exact hL
            · subst e; exact hsub _ (hi.2.2 _ List.mem_cons_self)
            · exact hsub _ (hi.2.1 x e)
        · -- schedule: BuildPair below the children that still have to be visited
          have hd' : (contains st.memo aL && contains st.memo aR) = false := by
            cases x : (contains st.memo aL && contains st.memo aR) with
            | true => exact absurd x hd
            | false => rfl
          let st0 : St := { st with log := ⟨aR, r⟩ :: ⟨aL, l⟩ :: h :: st.log, heap := heap',
                                    stack := .buildPair h.addr aL aR :: st.stack }
          let st1 : St := if contains st.memo aR then drop P k st0 ⟨aR, r⟩
                          else { st0 with stack := .visit ⟨aR, r⟩ :: st0.stack }
          let st2 : St := if contains st.memo aL then drop P k st1 ⟨aL, l⟩
                          else { st1 with stack := .visit ⟨aL, l⟩ :: st1.stack }
          have hmemo1 : st1.memo = st.memo := by
            show (if contains st.memo aR then _ else _ : St).memo = _
            split <;> simp [st0]
          have hmemo2 : st2.memo = st.memo := by
            show (if contains st.memo aL then _ else _ : St).memo = _
            split <;> simp [hmemo1]
          have hlog1 : st1.log = st0.log := by
            show (if contains st.memo aR then _ else _ : St).log = _
            split <;> simp
          have hlog2 : st2.log = st0.log := by
            show (if contains st.memo aL then _ else _ : St).log = _
            split <;> simp [hlog1]
          have hstack1 : st1.stack = (if contains st.memo aR then [] else [.visit ⟨aR, r⟩]) ++ st0.stack := by
            show (if contains st.memo aR then _ else _ : St).stack = _
            split <;> simp
          have hstack2 : st2.stack = (if contains st.memo aL then [] else [.visit ⟨aL, l⟩]) ++ st1.stack := by
            show (if contains st.memo aL then _ else _ : St).stack = _
            split <;> simp
          refine ⟨drop P k st2 h, ?_, ?_, ?_, ?_, ?_, ?_, ?_, ?_⟩
          · simp [stepItem, hc', ht, hch, hd', st2, st1, st0]
          · simp only [drop_memo, drop_stack, hmemo2, hstack2, hstack1]
            have hbase : ∀ (Kx : Nat → Prop), (∀ a, K st.memo a → Kx a) → Kx aL → Kx aR →
                Ready Kx (Item.buildPair h.addr aL aR :: st.stack) := by
              intro Kx hk hl hr'
              exact ⟨hl, hr', Ready.mono (fun a ha => ha.elim (fun x => .inl (hk a x)) .inr) _ hrest⟩
            cases hL : contains st.memo aL <;> cases hR : contains st.memo aR <;>
              simp only [List.nil_append, List.cons_append, Bool.false_eq_true, if_false, if_true, st0]
            · exact hbase (fun a => (K st.memo a ∨ a = aL) ∨ a = aR) (fun a x => Or.inl (Or.inl x))
                (Or.inl (Or.inr rfl)) (Or.inr rfl)
            · exact hbase (fun a => K st.memo a ∨ a = aL) (fun a x => Or.inl x) (Or.inr rfl) (Or.inl hR)
            · exact hbase (fun a => K st.memo a ∨ a = aR) (fun a x => Or.inl x) (Or.inl hL) (Or.inr rfl)
            · simp [hL, hR] at hd'
          · simp only [drop_stack, hstack2, hstack1, Item.weight, ht, size_pair]
            cases hL : contains st.memo aL <;> cases hR : contains st.memo aR <;>
              simp [weight, Item.weight, st0] <;> omega
          · intro a ha
            simp only [drop_memo, drop_stack, hmemo2, hstack2, hstack1]
            rcases ha with x | x | ⟨i, hi, x⟩
            · exact .inl x
            · right; refine ⟨.buildPair h.addr aL aR, ?_, x.symm⟩
              simp [st0]
            · right; refine ⟨i, ?_, x⟩
              simp [st0, hi]
          · intro x hx; simp only [drop_log, hlog2]
            exact List.mem_cons_of_mem _ (List.mem_cons_of_mem _ (List.mem_cons_of_mem _ hx))
          · intro x e; cases e; simp [hlog2, st0]
          · intro Den _ hlog hm hi hs
            simp only [drop_memo, drop_stack, drop_log, hmemo2, hlog2, hstack2, hstack1] at hlog ⊢
            have dL : Den aL l := hlog ⟨aL, l⟩ (by simp [st0])
            have dR : Den aR r := hlog ⟨aR, r⟩ (by simp [st0])
            have hi' : Den h.addr (.pair l r) := by simpa [ItemDen, ht] using hi
            refine ⟨hm, ?_⟩
            intro i hi2
            simp only [List.mem_append, st0, List.mem_cons] at hi2
            rcases hi2 with e | e | e | e
            · split at e
              · cases e
              · simp only [List.mem_singleton] at e; subst e; exact dL
            · split at e
              · cases e
              · simp only [List.mem_singleton] at e; subst e; exact dR
            · subst e; exact ⟨l, r, dL, dR, hi'⟩
            · exact hs i e
          · intro hk hv hi; subst hk
            have hin : (h.addr, Tree.pair l r) ∈ st.heap := by
              have := hi.2.2 h List.mem_cons_self; rwa [ht] at this
            have hv' := hv.children st.heap h l r hi.1 hin
            rw [hch] at hv'
            obtain ⟨hsub, hL, hR, hfun⟩ := hv'
            have hheap1 : st1.heap = heap' := by
              show (if contains st.memo aR then _ else _ : St).heap = _
              split <;> simp [st0]
            have hheap2 : st2.heap = heap' := by
              show (if contains st.memo aL then _ else _ : St).heap = _
              split <;> simp [hheap1]
            simp only [drop_heap_keep, drop_log, drop_stack, hheap2, hlog2, hstack2, hstack1]
            refine ⟨⟨hfun, ?_, ?_⟩, hsub⟩
            · intro x hx
              simp only [st0, List.mem_cons] at hx
              rcases hx with e | e | e | e
              · subst e; exact hR
              · subst e; exact hL
              · subst e; exact hsub _ (hi.2.2 _ List.mem_cons_self)
              · exact hsub _ (hi.2.1 x e)
            · intro x hx
              simp only [List.mem_append, st0, List.mem_cons] at hx
              rcases hx with e | e | e | e
              · split at e
                · cases e
                · simp only [List.mem_singleton, Item.visit.injEq] at e; subst e; exact hL
              · split at e
                · cases e
                · simp only [List.mem_singleton, Item.visit.injEq] at e; subst e; exact hR
              · cases e
              · exact hsub _ (hi.2.2 x (List.mem_cons_of_mem _ e))

/-! ### the whole loop -/

structure RunOk (P : Proto) (k : Bool) (st st' : St) : Prop where
  done : st'.stack = []
  keys : ∀ a, (K st.memo a ∨ ∃ i ∈ st.stack, Item.resolves i = a) → K st'.memo a
  logMono : ∀ h ∈ st.log, h ∈ st'.log
  logsTop : ∀ h rest, st.stack = Item.visit h :: rest → h ∈ st'.log
  den : ∀ Den : Nat → Tree → Prop, FunctionalD Den → (∀ x ∈ st'.log, Den x.addr x.tree) → MemoDen Den st.memo →
    StackDen Den st.stack → MemoDen Den st'.memo
  heapKeep : k = true → Valid P → HeapInv st.heap st.log st.stack →
    HeapInv st'.heap st'.log st'.stack ∧ ∀ x ∈ st.heap, x ∈ st'.heap

/-- **The loop terminates within `weight` iterations, never panics, and maintains every invariant.** -/
theorem run_ok (P : Proto) (k : Bool) : ∀ fuel st, Ready (K st.memo) st.stack → weight st.stack < fuel →
    ∃ st', run P k fuel st = .ok st' ∧ RunOk P k st st' := by
  intro fuel
  induction fuel with
  | zero => intro st _ h; omega
  | succ fuel ih =>
    intro st hr hw
    cases hs : st.stack with
    | nil =>
      refine ⟨st, by simp [run, hs], hs, ?_, fun h hh => hh, ?_, ?_, ?_⟩
      · intro a ha; rcases ha with x | ⟨i, hi, _⟩
        · exact x
        · rw [hs] at hi; cases hi
      · intro h r hh; rw [hs] at hh; cases hh
      · intro Den _ _ hm _; exact hm
      · intro _ _ hi; exact ⟨hi, fun x hx => hx⟩
    | cons item rest =>
      rw [hs] at hr hw
      obtain ⟨st1, hstep, so⟩ := step_ok P k item { st with stack := rest } hr
      have hw1 : weight st1.stack < fuel := by
        have := so.weight; rw [weight_cons] at hw; simp only at this; omega
      obtain ⟨st', hrun, ro⟩ := ih st1 so.ready hw1
      refine ⟨st', by simp [run, hs, hstep, hrun], ro.done, ?_, ?_, ?_, ?_, ?_⟩
      · intro a ha
        apply ro.keys
        apply so.keys
        rcases ha with x | ⟨i, hi, e⟩
        · exact .inl x
        · rw [hs] at hi
          rcases List.mem_cons.1 hi with e2 | e2
          · subst e2; exact .inr (.inl e.symm)
          · exact .inr (.inr ⟨i, e2, e⟩)
      · intro h hh; exact ro.logMono _ (so.logMono _ hh)
      · intro h r hh
        rw [hs] at hh
        have e : item = Item.visit h := (List.cons.inj hh).1
        exact ro.logMono _ (so.logsItem h e)
      · intro Den hf hlog hm hsd
        rw [hs] at hsd
        have h1 := so.den Den hf (fun x hx => hlog x (ro.logMono _ hx)) hm
          (hsd item List.mem_cons_self) (fun i hi => hsd i (List.mem_cons_of_mem _ hi))
        exact ro.den Den hf hlog h1.1 h1.2
      · intro hk hv hi
        rw [hs] at hi
        obtain ⟨h1, m1⟩ := so.heapKeep hk hv hi
        obtain ⟨h2, m2⟩ := ro.heapKeep hk hv h1
        exact ⟨h2, fun x hx => m2 _ (m1 _ hx)⟩

end Clvm.Py.MemoLemmas
