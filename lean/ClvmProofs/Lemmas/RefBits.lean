/-
C01: the bitwise operators.  (i) Python's `&`, `|`, `^` on unbounded two's-complement integers — the
reference's bit-by-bit `pyBitop` — are the sign-case definitions of the implementation model
(`intAnd`, `intOr`, `intXor`), by bit extensionality (`Lemmas/Interp/IntBitwise.lean`).
(ii) `binop_reduction`: the old cost model folds non-negative and negative arguments into two
accumulators and combines them at the end; by commutativity and associativity that is the
reference's single left fold (`split_fold`).
-/
import ClvmProofs.Lemmas.RefLoops
import ClvmProofs.Lemmas.Interp.IntBitwise

namespace Clvm.Ref
open Clvm Clvm.Interp Clvm.Alloc


theorem bitI_zero' (a : Int) : bitI a 0 = decide (a % 2 = 1) := by
  cases a with
  | ofNat m =>
    simp only [bitI, Nat.testBit_zero]
    have : (Int.ofNat m % 2 = 1) ↔ (m % 2 = 1) := by
      show ((m : Int) % 2 = 1) ↔ _; omega
    simp only [this]
  | negSucc m =>
    simp only [bitI, Nat.testBit_zero]
    have : (Int.negSucc m % 2 = 1) ↔ ¬ (m % 2 = 1) := by
      rw [Int.negSucc_eq]; omega
    by_cases h : m % 2 = 1 <;> simp [this, h]

theorem bitI_succ (a : Int) (i : Nat) : bitI a (i + 1) = bitI (a / 2) i := by
  cases a with
  | ofNat m =>
    have : (Int.ofNat m / 2) = Int.ofNat (m / 2) := by
      show ((m : Int) / 2) = ((m / 2 : Nat) : Int); omega
    rw [this]
    simp only [bitI, Nat.testBit_succ]
  | negSucc m =>
    have : (Int.negSucc m / 2) = Int.negSucc (m / 2) := by
      rw [Int.negSucc_eq, Int.negSucc_eq]; omega
    rw [this]
    simp only [bitI, Nat.testBit_succ]

theorem bitI_sign {a : Int} (h : a = 0 ∨ a = -1) (i : Nat) : bitI a i = decide (a < 0) := by
  rcases h with rfl | rfl
  · rw [bitI_zero]; rfl
  · rw [bitI_neg_one]; rfl

theorem bitI_pyBitop (f : Bool → Bool → Bool) : ∀ (n : Nat) (a b : Int), a.natAbs + b.natAbs ≤ n → ∀ i,
    bitI (pyBitop f a b) i = f (bitI a i) (bitI b i) := by
  intro n
  induction n with
  | zero =>
    intro a b h i
    have ha : a = 0 := by omega
    have hb : b = 0 := by omega
    subst ha hb
    rw [pyBitop]
    simp only [true_or, and_self, if_true]
    rw [bitI_zero]
    cases hf : f (decide ((0 : Int) < 0)) (decide ((0 : Int) < 0)) <;> simp_all [bitI_zero, bitI_neg_one]
  | succ n ih =>
    intro a b h i
    rw [pyBitop]
    by_cases hbase : (a = 0 ∨ a = -1) ∧ (b = 0 ∨ b = -1)
    · rw [if_pos hbase, bitI_sign hbase.1 i, bitI_sign hbase.2 i]
      cases hf : f (decide (a < 0)) (decide (b < 0))
      · simp [bitI_zero]
      · simp [bitI_neg_one]
    · rw [if_neg hbase]
      have hlt : (a / 2).natAbs + (b / 2).natAbs ≤ n := by omega
      cases i with
      | zero =>
        rw [bitI_zero', bitI_zero', bitI_zero']
        cases hf : f (decide (a % 2 = 1)) (decide (b % 2 = 1))
        · have : (2 * pyBitop f (a / 2) (b / 2) + (if false = true then 1 else 0)) % 2 ≠ 1 := by
            simp only [Bool.false_eq_true, if_false]; omega
          simp [hf, this]
        · have : (2 * pyBitop f (a / 2) (b / 2) + (if true = true then 1 else 0)) % 2 = 1 := by
            simp only [if_true]; omega
          simp [hf, this]
      | succ i =>
        rw [bitI_succ, bitI_succ a, bitI_succ b, ← ih (a / 2) (b / 2) hlt i]
        congr 1
        split <;> omega

theorem pyAnd_eq (a b : Int) : pyAnd a b = intAnd a b :=
  bitI_ext fun i => by rw [pyAnd, bitI_pyBitop _ _ a b (Nat.le_refl _), bitI_intAnd]
theorem pyOr_eq (a b : Int) : pyOr a b = intOr a b :=
  bitI_ext fun i => by rw [pyOr, bitI_pyBitop _ _ a b (Nat.le_refl _), bitI_intOr]
theorem pyXor_eq (a b : Int) : pyXor a b = intXor a b :=
  bitI_ext fun i => by
    rw [pyXor, bitI_pyBitop _ _ a b (Nat.le_refl _), bitI_intXor]


def binStep (opName : String) (f : Int → Int → Int) (s : Int × Int) (arg : Val) : Except Err (Nat × (Int × Int)) :=
  match intAtom arg opName with
  | .error e => .error e
  | .ok (n0, len) =>
    .ok (len * Gen.LOG_COST_PER_BYTE + Gen.LOG_COST_PER_ARG, if n0 < 0 then (s.1, f s.2 n0) else (f s.1 n0, s.2))

theorem binopLoop_eq (opName : String) (f : Int → Int → Int) (m : Nat) : ∀ (l : List Val) (cost : Nat) (pos neg : Int),
    binopLoop opName false f m l cost pos neg =
      (gLoop m (binStep opName f) l cost (pos, neg)).map (fun r => (r.1, f r.2.1 r.2.2)) := by
  intro l
  induction l with
  | nil => intro cost pos neg; rfl
  | cons a t ih =>
    intro cost pos neg
    simp only [binopLoop, gLoop, binStep]
    cases intAtom a opName with
    | error e => rfl
    | ok r =>
      obtain ⟨n0, len⟩ := r
      simp only [Bool.false_eq_true, if_false, checkCost, Nat.add_assoc]
      by_cases hc : cost + (len * Gen.LOG_COST_PER_BYTE + Gen.LOG_COST_PER_ARG) > m
      · simp only [hc, if_true]; rfl
      · simp only [hc, if_false]
        by_cases hn : n0 < 0
        · simp only [hn, if_true]; exact ih _ _ _
        · simp only [hn, if_false]; exact ih _ _ _

def binU (f : Int → Int → Int) (s : Int × Int) (b : Bytes) : Int × Int :=
  if decodeInt b < 0 then (s.1, f s.2 (decodeInt b)) else (f s.1 (decodeInt b), s.2)

theorem split_fold (f : Int → Int → Int) (hc : ∀ x y, f x y = f y x) (ha : ∀ x y z, f (f x y) z = f x (f y z)) :
    ∀ (bs : List Bytes) (P N : Int),
      f (bs.foldl (binU f) (P, N)).1 (bs.foldl (binU f) (P, N)).2 = bs.foldl (fun t b => f t (decodeInt b)) (f P N) := by
  intro bs
  induction bs with
  | nil => intro P N; rfl
  | cons b t ih =>
    intro P N
    simp only [List.foldl_cons, binU]
    by_cases hn : decodeInt b < 0
    · simp only [hn, if_true]
      rw [ih, ha]
    · simp only [hn, if_false]
      rw [ih, ha, hc (decodeInt b) N, ← ha]

theorem binop_agree (opName : String) (init : Int) (f pyF : Int → Int → Int) (hpy : ∀ a b, pyF a b = f a b)
    (hc : ∀ x y, f x y = f y x) (ha : ∀ x y z, f (f x y) z = f x (f y z)) (hid : f init init = init)
    (m : Nat) (a : Val) (c : Ctr) (hw : a.wf = true) (hp : Proper a) :
    OpAgree m (Interp.binopReduction opName init f 0 m a c) (Ref.binopReduction init a.erase pyF) := by
  have hwl := argList_wf hw
  have href : Ref.binopReduction init a.erase pyF = match atomBytesOf (argList a) with
      | none => .error .arg
      | some bs => Ref.mallocCost (bs.foldl (fun c _ => c + LOG_COST_PER_ARG) LOG_BASE_COST
              + bs.foldl (fun n b => n + b.length) 0 * LOG_COST_PER_BYTE)
              (ofInt (bs.foldl (fun t b => f t (decodeInt b)) init)) := by
    unfold Ref.binopReduction argsAsInts
    rw [atomsOf_proper hp]
    dsimp only
    rw [atomsOf_map_erase]
    cases atomBytesOf (argList a) with
    | none => rfl
    | some bs => simp only [List.foldl_map, asInt, intFromBytes_eq, hpy]
  rw [href]
  have hmodel : Interp.binopReduction opName init f 0 m a c =
      thenK (gLoop m (binStep opName f) (argList a) Gen.LOG_BASE_COST (init, init))
        (fun r => match allocNumber c (f r.2.1 r.2.2) with
          | .error e => .error e
          | .ok (v, c') => .ok (Interp.mallocCost r.1 v, v, c')) := by
    unfold Interp.binopReduction
    simp only [newModel0, binopLoop_eq, thenK]
    cases gLoop m (binStep opName f) (argList a) Gen.LOG_BASE_COST (init, init) with
    | error e => rfl
    | ok r => rfl
  rw [hmodel]
  have hA : ∀ (s : Int × Int) (b : Bytes) (i : Bool), (Val.atom b i).wf = true →
      binStep opName f s (.atom b i) =
        .ok ((fun b => Gen.LOG_COST_PER_ARG + b.length * Gen.LOG_COST_PER_BYTE) b, binU f s b) := by
    intro s b i hwb
    simp only [binStep, intAtom_wf hwb, binU, Nat.add_comm]
  cases hab : atomBytesOf (argList a) with
  | none =>
    obtain ⟨msg, hf⟩ := gFold_pair _ _ _ hA (fun _ _ _ => ⟨_, rfl⟩) (argList a) hab hwl Gen.LOG_BASE_COST (init, init)
    dsimp only
    exact OpAgree.of_loop_err (gLoop_err m _ _ _ _ _ hf) rfl
  | some bs =>
    have hf := gFold_atoms _ _ _ hA (argList a) bs hab hwl Gen.LOG_BASE_COST (init, init)
    obtain ⟨h1, h2⟩ := gLoop_ok m _ _ _ _ _ _ hf
    dsimp only
    rw [foldl_const, foldl_len_acc]
    simp only [Nat.zero_add]
    have hcost : Gen.LOG_BASE_COST + sumW (fun b => Gen.LOG_COST_PER_ARG + b.length * Gen.LOG_COST_PER_BYTE) bs
        = LOG_BASE_COST + bs.length * LOG_COST_PER_ARG + sumLen bs * LOG_COST_PER_BYTE := by
      rw [sumW_linear]; simp only [Gen.LOG_BASE_COST, Gen.LOG_COST_PER_ARG, Gen.LOG_COST_PER_BYTE,
        LOG_BASE_COST, LOG_COST_PER_ARG, LOG_COST_PER_BYTE]; omega
    rw [hcost] at h1 h2
    have htot := split_fold f hc ha bs init init
    rw [hid] at htot
    refine OpAgree.of_loop h1 h2 ?_ ?_
    · simp only [htot]
      exact allocNumber_agree m _ c _
    · intro c0 t hc0
      simp only [Ref.mallocCost, ofInt, Except.ok.injEq, Prod.mk.injEq] at hc0
      omega

theorem opLogand_agree (m : Nat) (a : Val) (c : Ctr) (hw : a.wf = true) (hp : Proper a) :
    OpAgree m (Interp.opLogand 0 m a c) (Ref.opLogand a.erase) :=
  binop_agree "logand" (-1) intAnd pyAnd pyAnd_eq intAnd_comm intAnd_assoc (intAnd_neg_one (-1)) m a c hw hp

theorem opLogior_agree (m : Nat) (a : Val) (c : Ctr) (hw : a.wf = true) (hp : Proper a) :
    OpAgree m (Interp.opLogior 0 m a c) (Ref.opLogior a.erase) :=
  binop_agree "logior" 0 intOr pyOr pyOr_eq intOr_comm intOr_assoc (intOr_zero 0) m a c hw hp

theorem opLogxor_agree (m : Nat) (a : Val) (c : Ctr) (hw : a.wf = true) (hp : Proper a) :
    OpAgree m (Interp.opLogxor 0 m a c) (Ref.opLogxor a.erase) :=
  binop_agree "logxor" 0 intXor pyXor pyXor_eq intXor_comm intXor_assoc (intXor_zero 0) m a c hw hp

end Clvm.Ref
