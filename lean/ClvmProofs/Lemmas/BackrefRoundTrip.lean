/-
C17: the serializer and the (legacy, list-stack) decoder in lock step.  The decoder's value stack *is*
the serializer's tracked root (`stack_mirror`), every emitted path is valid (`find_path_sound`), hence
the decoder rebuilds exactly the tree that was serialized — unless it runs into an allocator limit.
-/
import ClvmProofs.Lemmas.BackrefSer
import ClvmProofs.Lemmas.ClassicDe
import ClvmProofs.Lemmas.ClassicSer

namespace Clvm.Backref
open Clvm Clvm.Serde Clvm.Serde.Backref Clvm.Serde.ReadCache Clvm.Serde.SerBr Clvm.Serde.TraversePath
open Clvm.Serde.Classic (atomEnc)

/-! ### writer facts -/

theorem writeAtom_out {w w' : Classic.Writer} {b : Bytes} (h : Classic.writeAtom w b = .ok w') :
    b.length < 2 ^ 34 ∧ w'.out = w.out ++ atomEnc b := by
  by_cases hb : b.length < 2 ^ 34
  · refine ⟨hb, ?_⟩
    rw [Classic.writeAtom_spec w b hb] at h
    split at h
    · simp only [Except.ok.injEq] at h; subst h; rfl
    · cases h
  · exfalso
    simp only [Classic.writeAtom] at h
    rw [Classic.writePrefix_too_big w _ b.length (by omega)] at h
    cases h

theorem writeByte_out {w w' : Classic.Writer} {n : Nat} (h : writeByte w n = .ok w') :
    w'.out = w.out ++ [Classic.u8 n] := by
  unfold writeByte at h
  rw [Classic.Writer.write_eq] at h
  by_cases hf : w.fits [Classic.u8 n].length = true
  · simp only [hf, if_true, Except.ok.injEq] at h; subst h; rfl
  · simp only [hf] at h; cases h

/-! ### one atom token, as the decoders see it -/

theorem decodeSize_80 (inp : Bytes) : Classic.decodeSize inp 0x80 = .ok (1, 0) := by
  simp [Classic.decodeSize, Classic.decodeSizeWithOffset, Classic.leadingOnes, Classic.beFold,
    Gen.decodeSizeMaxPrefix, Gen.decodeSizeMax]

theorem atomEnc_token (a : Bytes) (ha : a.length < 2 ^ 34) :
    ∃ f tl, atomEnc a = f :: tl ∧ f.toNat < 0xFC ∧
      (∀ rest, Classic.parseAtomPtr (tl ++ rest) f = .ok (tl.length, a)) ∧
      (f.toNat = 1 → a = [1] ∧ tl = []) ∧ (f.toNat = 0x80 → a = [] ∧ tl = []) := by
  rcases Classic.atomEnc_shape a ha with ⟨x, rfl, hx, he⟩ | ⟨rfl, he⟩ | ⟨f, tl, he, h1, h2, h3, h4, h5, h6⟩
  · refine ⟨x, [], he, by omega, ?_, ?_, ?_⟩
    · intro rest
      simp [Classic.parseAtomPtr, Classic.MAX_SINGLE_BYTE, hx]
    · intro h1
      have : x = 1 := UInt8.toNat_inj.mp h1
      subst this; exact ⟨rfl, rfl⟩
    · intro h; omega
  · refine ⟨0x80, [], he, by decide, ?_, ?_, ?_⟩
    · intro rest
      simp [Classic.parseAtomPtr, Classic.MAX_SINGLE_BYTE, decodeSize_80]
    · intro h; revert h; decide
    · intro _; exact ⟨rfl, rfl⟩
  · refine ⟨f, tl ++ a, he, h2, ?_, ?_, ?_⟩
    · intro rest
      have h7f : ¬ f.toNat ≤ Classic.MAX_SINGLE_BYTE := by unfold Classic.MAX_SINGLE_BYTE; omega
      have hd : List.drop (Classic.width a.length - 1) (tl ++ (a ++ rest)) = a ++ rest := by
        rw [← h3]; exact List.drop_left
      simp only [Classic.parseAtomPtr, h7f, if_false, Classic.decodeSize, List.append_assoc, h6, hd]
      have hl : ¬ (a ++ rest).length < a.length := by simp
      simp [hl, h3]
    · intro h; omega
    · intro h; omega

/-! ### "limit error, or continues as" -/

/-- the only errors a decoder may raise on serializer output: the allocator's limits -/
def limitErr : Err → Prop
  | .TooManyPairs => True
  | .TooManyAtoms => True
  | .OutOfMemory => True
  | _ => False

/-- `x` is an allocator-limit error, or it is `f c'` for some counter state `c'` -/
def Steps (x : Except Err (Tree × Bytes × Ctr)) (f : Ctr → Except Err (Tree × Bytes × Ctr)) : Prop :=
  (∃ e, x = .error e ∧ limitErr e) ∨ ∃ c', PairInv c' ∧ x = f c'

theorem Steps.refl {f : Ctr → Except Err (Tree × Bytes × Ctr)} {c : Ctr} (h : PairInv c) : Steps (f c) f :=
  .inr ⟨c, h, rfl⟩

theorem Steps.trans {x : Except Err (Tree × Bytes × Ctr)} {f g : Ctr → Except Err (Tree × Bytes × Ctr)}
    (h1 : Steps x f) (h2 : ∀ c, PairInv c → Steps (f c) g) : Steps x g := by
  rcases h1 with h | ⟨c, hc, rfl⟩
  · exact .inl h
  · exact h2 c hc

/-- `match c.newPair with | error e => error e | ok c1 => k c1` is a limit error or `k c1` -/
theorem steps_newPair (c : Ctr) (hc : PairInv c) (k : Ctr → Except Err (Tree × Bytes × Ctr)) :
    Steps (match c.newPair with
      | .error e => .error e
      | .ok c1 => k c1) k := by
  rw [newPair_eq c hc]
  by_cases hfull : c.pairs + c.ghostPairs = Gen.maxNumPairs
  · rw [if_pos hfull]; exact .inl ⟨_, rfl, trivial⟩
  · rw [if_neg hfull]
    exact .inr ⟨_, by unfold PairInv at *; show c.pairs + 1 + c.ghostPairs ≤ _; omega, rfl⟩

/-! ### the operation stacks -/

def opsOf : List ReadOp → List ParseOp
  | [] => []
  | .parse :: r => .sexp :: opsOf r
  | .cons :: r => .cons :: opsOf r

/-- the decoder's value stack after the pending operations have run, the `Parse` operations
consuming the trees of the write stack in order -/
def finalRoot : List ReadOp → List Tree → Tree → Option Tree
  | [], [], root => some root
  | [], _ :: _, _ => none
  | .parse :: ops, t :: ws, root => finalRoot ops ws (Tree.pair t root)
  | .parse :: _, [], _ => none
  | .cons :: ops, ws, .pair r (.pair l rest) => finalRoot ops ws (Tree.pair (Tree.pair l r) rest)
  | .cons :: _, _, _ => none

theorem popCons_sim : ∀ (ops : List ReadOp) (s : RCL) (ops' : List ReadOp) (s' : RCL),
    popCons ops s = .ok (ops', s') → RInv s →
    RInv s' ∧ (∀ ws, finalRoot ops ws s.root = finalRoot ops' ws s'.root) ∧
    ∀ inp c, PairInv c → Steps (deBrOld inp (opsOf ops) s.root c) (fun c' => deBrOld inp (opsOf ops') s'.root c') := by
  intro ops
  induction ops with
  | nil =>
    intro s ops' s' h hs
    simp only [popCons, Except.ok.injEq, Prod.mk.injEq] at h
    obtain ⟨rfl, rfl⟩ := h
    exact ⟨hs, fun _ => rfl, fun _ _ hc => Steps.refl hc⟩
  | cons op ops ih =>
    intro s ops' s' h hs
    cases op with
    | parse =>
      simp only [popCons, Except.ok.injEq, Prod.mk.injEq] at h
      obtain ⟨rfl, rfl⟩ := h
      exact ⟨hs, fun _ => rfl, fun _ _ hc => Steps.refl hc⟩
    | cons =>
      unfold popCons at h
      cases hp : s.pop2AndCons with
      | error e => simp [hp] at h
      | ok s1 =>
        simp only [hp] at h
        obtain ⟨hs1, l, r, rest, e1, e2⟩ := pop2AndCons_spec hs hp
        obtain ⟨i1, i2, i3⟩ := ih s1 ops' s' h hs1
        refine ⟨i1, ?_, ?_⟩
        · intro ws
          rw [e1, ← i2 ws, e2]
          simp [finalRoot]
        · intro inp c hc
          rw [e1]
          show Steps (deBrOld inp (.cons :: opsOf ops) _ c) _
          conv => arg 1; unfold deBrOld
          simp only []
          refine (steps_newPair c hc _).trans ?_
          intro c1 hc1
          refine (steps_newPair c1 hc1 _).trans ?_
          intro c2 hc2
          rw [← e2]
          exact i3 inp c2 hc2

/-! ### the path codec (hypothesis of the lock-step lemma, discharged in `BackrefCodec.lean`) -/

/-- `reversed_path_to_vec_u8` and `traverse_path` are inverse: the bytes written for a list of
directions are walked along exactly these directions -/
def PathCodec : Prop :=
  ∀ (path : List Bool) (b : Bytes) (t r : Tree), reversedPathToVecU8 path = .ok b →
    follow path.reverse t = some r → ∃ cost, traversePath b t = .ok (cost, r)

/-! ### lock step -/

theorem deBrOld_atom_token (a : Bytes) (ha : a.length < 2 ^ 34) (rest : Bytes) (ops : List ParseOp)
    (V : Tree) (c : Ctr) (hc : PairInv c) :
    Steps (deBrOld (atomEnc a ++ rest) (.sexp :: ops) V c)
      (fun c' => deBrOld rest ops (Tree.pair (.atom a) V) c') := by
  obtain ⟨f, tl, he, hf, hpa, h1, h80⟩ := atomEnc_token a ha
  rw [he, List.cons_append]
  conv => arg 1; unfold deBrOld
  simp only []
  have hff : (f.toNat == Gen.deBrConsBoxMarker) = false := by
    have : f.toNat ≠ Gen.deBrConsBoxMarker := by unfold Gen.deBrConsBoxMarker; omega
    simpa using this
  have hfe : (f.toNat == Gen.deBrBackReference) = false := by
    have : f.toNat ≠ Gen.deBrBackReference := by unfold Gen.deBrBackReference; omega
    simpa using this
  simp only [hff, hfe, Bool.false_eq_true, if_false]
  have hdrop : List.drop tl.length (tl ++ rest) = rest := List.drop_left
  unfold parseAtom
  by_cases g1 : f.toNat = 1
  · obtain ⟨rfl, rfl⟩ := h1 g1
    simp only [g1, beq_self_eq_true, if_true, List.nil_append, List.drop_zero]
    exact steps_newPair c hc _
  · have g1' : (f.toNat == 0x01) = false := by simpa using g1
    simp only [g1', Bool.false_eq_true, if_false]
    by_cases g2 : f.toNat = 0x80
    · obtain ⟨rfl, rfl⟩ := h80 g2
      simp only [g2, beq_self_eq_true, if_true, List.nil_append, List.drop_zero]
      exact steps_newPair c hc _
    · have g2' : (f.toNat == 0x80) = false := by simpa using g2
      simp only [g2', Bool.false_eq_true, if_false, hpa rest]
      unfold Ctr.newAtom
      by_cases q1 : c.heap + a.length > c.heapLimit
      · simp only [q1, if_true]; exact .inl ⟨_, rfl, trivial⟩
      · simp only [q1, if_false]
        by_cases q2 : (c.atoms == Gen.maxNumAtoms) = true
        · simp only [q2, if_true]; exact .inl ⟨_, rfl, trivial⟩
        · simp only [q2, Bool.false_eq_true, if_false, hdrop]
          exact steps_newPair _ (by unfold PairInv at *; exact hc) _

theorem parsePath_atomEnc (p : Bytes) (hp : p.length < 2 ^ 34) (rest : Bytes) :
    parsePath (atomEnc p ++ rest) = .ok ((atomEnc p).length, p) ∧
      List.drop (atomEnc p).length (atomEnc p ++ rest) = rest := by
  obtain ⟨f, tl, he, _, hpa, _, _⟩ := atomEnc_token p hp
  refine ⟨?_, List.drop_left⟩
  rw [he, List.cons_append]
  simp [parsePath, hpa rest]

theorem deBrOld_backref_token (codec : PathCodec) (s : RCL) (hs : RInv s) (node : Tree) (sl : Nat) (path : Bytes)
    (hfp : s.findPath node sl = .ok (some path)) (hp : path.length < 2 ^ 34)
    (rest : Bytes) (ops : List ParseOp) (c : Ctr) (hc : PairInv c) :
    Steps (deBrOld (UInt8.ofNat Gen.deBrBackReference :: (atomEnc path ++ rest)) (.sexp :: ops) s.root c)
      (fun c' => deBrOld rest ops (Tree.pair node s.root) c') := by
  obtain ⟨bits, hb1, hb2, _⟩ := findPath_sound s hs node sl path hfp
  obtain ⟨cost, htp⟩ := codec bits path s.root node hb1 hb2
  obtain ⟨hpp, hdrop⟩ := parsePath_atomEnc path hp rest
  conv => arg 1; unfold deBrOld
  simp only []
  have hff : ((UInt8.ofNat Gen.deBrBackReference).toNat == Gen.deBrConsBoxMarker) = false := by decide
  have hfe : ((UInt8.ofNat Gen.deBrBackReference).toNat == Gen.deBrBackReference) = true := by decide
  simp only [hff, hfe, Bool.false_eq_true, if_false, if_true, hpp, htp, hdrop]
  exact steps_newPair c hc _

theorem popCons_head : ∀ (ops : List ReadOp) (s : RCL) (ops' : List ReadOp) (s' : RCL),
    popCons ops s = .ok (ops', s') → ops'.head? ≠ some .cons := by
  intro ops
  induction ops with
  | nil =>
    intro s ops' s' h
    simp only [popCons, Except.ok.injEq, Prod.mk.injEq] at h
    obtain ⟨rfl, _⟩ := h
    simp
  | cons op ops ih =>
    intro s ops' s' h
    cases op with
    | parse =>
      simp only [popCons, Except.ok.injEq, Prod.mk.injEq] at h
      obtain ⟨rfl, _⟩ := h
      simp
    | cons =>
      unfold popCons at h
      cases hp : s.pop2AndCons with
      | error e => simp [hp] at h
      | ok s1 => simp only [hp] at h; exact ih s1 ops' s' h

theorem serLoop_decodes (codec : PathCodec) : ∀ (n : Nat) (ws : List Tree), Classic.stackSize ws = n →
    ∀ (readOps : List ReadOp) (s : RCL) (w w' : Classic.Writer) (R : Tree),
    serLoop ws readOps s w = .ok w' → RInv s → readOps.head? ≠ some .cons →
    finalRoot readOps ws s.root = some R →
    ∃ out, w'.out = w.out ++ out ∧
      ∀ rest c, PairInv c →
        Steps (deBrOld (out ++ rest) (opsOf readOps) s.root c) (fun c' => deBrOld rest [] R c') := by
  intro n
  induction n using Nat.strongRecOn with
  | _ n ihn =>
    intro ws hsz readOps s w w' R h hs hhead hfr
    unfold serLoop at h
    cases ws with
    | nil =>
      simp only [Except.ok.injEq] at h
      subst h
      cases readOps with
      | nil =>
        simp only [finalRoot, Option.some.injEq] at hfr
        subst hfr
        exact ⟨[], by simp, fun rest c hc => Steps.refl hc⟩
      | cons op ops =>
        cases op with
        | parse => simp [finalRoot] at hfr
        | cons => simp at hhead
    | cons node ws' =>
      simp only [] at h
      cases readOps with
      | nil => cases h
      | cons op ops =>
        cases op with
        | cons => cases h
        | parse =>
          simp only [] at h
          have hfr' : finalRoot ops ws' (Tree.pair node s.root) = some R := by simpa [finalRoot] using hfr
          -- after a token that pushes `node`: pop the pending conses, then the rest of the stream
          have hafter : ∀ (w2 : Classic.Writer), (match popCons ops (s.push node) with
                | .error e => (Except.error e : Except Err Classic.Writer)
                | .ok (ops', s') => serLoop ws' ops' s' w2) = .ok w' →
              ∃ out, w'.out = w2.out ++ out ∧ ∀ rest c, PairInv c →
                Steps (deBrOld (out ++ rest) (opsOf ops) (Tree.pair node s.root) c)
                  (fun c' => deBrOld rest [] R c') := by
            intro w2 h2
            cases hpc : popCons ops (s.push node) with
            | error e => simp [hpc] at h2
            | ok r =>
              obtain ⟨ops', s'⟩ := r
              simp only [hpc] at h2
              obtain ⟨hpi, hpr⟩ := hs.push node
              obtain ⟨i1, i2, i3⟩ := popCons_sim ops (s.push node) ops' s' hpc hpi
              have hsz' : Classic.stackSize ws' < n := by
                rw [← hsz]; simp only [Classic.stackSize, List.map_cons, List.sum_cons]
                have := Classic.Tree.size_pos node; omega
              obtain ⟨out, ho, hd⟩ := ihn _ hsz' ws' rfl ops' s' w2 w' R h2 i1
                (popCons_head ops _ ops' s' hpc) (by rw [← i2, hpr]; exact hfr')
              refine ⟨out, ho, fun rest c hc => ?_⟩
              have := i3 (out ++ rest) c hc
              rw [hpr] at this
              exact this.trans (fun c1 hc1 => hd rest c1 hc1)
          cases hfp : s.findPath node (Classic.cacheSerializedLength node) with
          | error e => simp [hfp] at h
          | ok o =>
            cases o with
            | some path =>
              simp only [hfp] at h
              cases hw1 : writeByte w Gen.serBrBackReference with
              | error e => simp [hw1] at h
              | ok w1 =>
                simp only [hw1] at h
                cases hw2 : Classic.writeAtom w1 path with
                | error e => simp [hw2] at h
                | ok w2 =>
                  simp only [hw2] at h
                  obtain ⟨out, ho, hd⟩ := hafter w2 h
                  obtain ⟨hpl, hwo⟩ := writeAtom_out hw2
                  have hw1o := writeByte_out hw1
                  refine ⟨UInt8.ofNat Gen.deBrBackReference :: (atomEnc path ++ out), ?_, fun rest c hc => ?_⟩
                  · rw [ho, hwo, hw1o]
                    have : Classic.u8 Gen.serBrBackReference = UInt8.ofNat Gen.deBrBackReference := by decide
                    rw [this]; simp
                  · have := deBrOld_backref_token codec s hs node _ path hfp hpl (out ++ rest) (opsOf ops) c hc
                    simp only [List.cons_append, List.append_assoc]
                    show Steps (deBrOld _ (.sexp :: opsOf ops) s.root c) _
                    exact this.trans (fun c1 hc1 => hd rest c1 hc1)
            | none =>
              simp only [hfp] at h
              cases node with
              | pair l r =>
                simp only [] at h
                cases hw1 : writeByte w Gen.serBrConsBoxMarker with
                | error e => simp [hw1] at h
                | ok w1 =>
                  simp only [hw1] at h
                  have hsz' : Classic.stackSize (l :: r :: ws') < n := by
                    rw [← hsz]; simp only [Classic.stackSize, List.map_cons, List.sum_cons, Tree.size, Tree.pairs, Tree.atoms]
                    omega
                  obtain ⟨out, ho, hd⟩ := ihn _ hsz' _ rfl (.parse :: .parse :: .cons :: ops) s w1 w' R h hs
                    (by simp) (by simpa [finalRoot] using hfr')
                  have hw1o := writeByte_out hw1
                  refine ⟨UInt8.ofNat Gen.deBrConsBoxMarker :: out, ?_, fun rest c hc => ?_⟩
                  · rw [ho, hw1o]
                    have : Classic.u8 Gen.serBrConsBoxMarker = UInt8.ofNat Gen.deBrConsBoxMarker := by decide
                    rw [this]; simp
                  · simp only [List.cons_append]
                    show Steps (deBrOld _ (.sexp :: opsOf ops) s.root c) _
                    conv => arg 1; unfold deBrOld
                    have hff : ((UInt8.ofNat Gen.deBrConsBoxMarker).toNat == Gen.deBrConsBoxMarker) = true := by decide
                    simp only [hff, if_true]
                    exact hd rest c hc
              | atom a =>
                simp only [] at h
                cases hw1 : Classic.writeAtom w a with
                | error e => simp [hw1] at h
                | ok w1 =>
                  simp only [hw1] at h
                  obtain ⟨out, ho, hd⟩ := hafter w1 h
                  obtain ⟨hal, hwo⟩ := writeAtom_out hw1
                  refine ⟨atomEnc a ++ out, by rw [ho, hwo]; simp, fun rest c hc => ?_⟩
                  have := deBrOld_atom_token a hal (out ++ rest) (opsOf ops) s.root c hc
                  simp only [List.append_assoc]
                  show Steps (deBrOld _ (.sexp :: opsOf ops) s.root c) _
                  exact this.trans (fun c1 hc1 => hd rest c1 hc1)

end Clvm.Backref
