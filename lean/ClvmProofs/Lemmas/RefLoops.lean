/-
C01, layer 1b: operators with a loop over their arguments.

The implementation model checks the budget inside the loop (`checkCost` after every argument); the
reference folds over the whole list and never looks at a budget.  `gLoop` / `gFold` are the two
shapes in the abstract; since the per-argument charges are non-negative, the checked loop returns
what the fold returns or `CostExceeded`, and what the fold returns whenever that cost fits the
budget (`gLoop_ok`, `gLoop_err`).  Every concrete loop of `Ops.lean` is shown equal to an instance
of `gLoop`; its `gFold` is then computed in closed form and compared with the reference's folds.
-/
import ClvmProofs.Lemmas.RefOps

namespace Clvm.Ref
open Clvm Clvm.Interp Clvm.Alloc

section generic
variable {σ : Type}

/-- a loop that charges `w` per argument and checks the budget after each -/
def gLoop (m : Nat) (step : σ → Val → Except Err (Nat × σ)) : List Val → Nat → σ → Except Err (Nat × σ)
  | [], cost, s => .ok (cost, s)
  | a :: t, cost, s =>
    match step s a with
    | .error e => .error e
    | .ok (w, s') => if cost + w > m then .error .CostExceeded else gLoop m step t (cost + w) s'

/-- the same without a budget -/
def gFold (step : σ → Val → Except Err (Nat × σ)) : List Val → Nat → σ → Except Err (Nat × σ)
  | [], cost, s => .ok (cost, s)
  | a :: t, cost, s =>
    match step s a with
    | .error e => .error e
    | .ok (w, s') => gFold step t (cost + w) s'

theorem gFold_mono (step : σ → Val → Except Err (Nat × σ)) : ∀ (l : List Val) (cost : Nat) (s : σ) (c' : Nat) (s' : σ),
    gFold step l cost s = .ok (c', s') → cost ≤ c' := by
  intro l
  induction l with
  | nil => intro cost s c' s' h; simp only [gFold, Except.ok.injEq, Prod.mk.injEq] at h; omega
  | cons a t ih =>
    intro cost s c' s' h
    simp only [gFold] at h
    cases hs : step s a with
    | error e => rw [hs] at h; cases h
    | ok r =>
      obtain ⟨w, s1⟩ := r
      rw [hs] at h
      have := ih _ _ _ _ h
      omega

theorem gLoop_ok (m : Nat) (step : σ → Val → Except Err (Nat × σ)) :
    ∀ (l : List Val) (cost : Nat) (s : σ) (c' : Nat) (s' : σ), gFold step l cost s = .ok (c', s') →
      (c' ≤ m → gLoop m step l cost s = .ok (c', s')) ∧
      (gLoop m step l cost s = .ok (c', s') ∨ gLoop m step l cost s = .error .CostExceeded) := by
  intro l
  induction l with
  | nil =>
    intro cost s c' s' h
    simp only [gFold, Except.ok.injEq, Prod.mk.injEq] at h
    obtain ⟨rfl, rfl⟩ := h
    exact ⟨fun _ => rfl, Or.inl rfl⟩
  | cons a t ih =>
    intro cost s c' s' h
    simp only [gFold] at h
    simp only [gLoop]
    cases hs : step s a with
    | error e => rw [hs] at h; cases h
    | ok r =>
      obtain ⟨w, s1⟩ := r
      rw [hs] at h
      simp only
      have hm := gFold_mono step _ _ _ _ _ h
      have := ih _ _ _ _ h
      by_cases hc : cost + w > m
      · rw [if_pos hc]; exact ⟨fun hle => by omega, Or.inr rfl⟩
      · rw [if_neg hc]; exact this

theorem gLoop_err (m : Nat) (step : σ → Val → Except Err (Nat × σ)) :
    ∀ (l : List Val) (cost : Nat) (s : σ) (e : Err), gFold step l cost s = .error e →
      gLoop m step l cost s = .error e ∨ gLoop m step l cost s = .error .CostExceeded := by
  intro l
  induction l with
  | nil => intro cost s e h; simp [gFold] at h
  | cons a t ih =>
    intro cost s e h
    simp only [gFold] at h
    simp only [gLoop]
    cases hs : step s a with
    | error e' => rw [hs] at h; simp only [Except.error.injEq] at h; subst h; exact Or.inl rfl
    | ok r =>
      obtain ⟨w, s1⟩ := r
      rw [hs] at h
      simp only
      by_cases hc : cost + w > m
      · rw [if_pos hc]; exact Or.inr rfl
      · rw [if_neg hc]; exact ih _ _ _ h

end generic

/-! ### assembling `OpAgree` from a loop and a tail -/

/-- `match L with | .error e => .error e | .ok r => K r` -/
def thenK {α β : Type} (L : Except Err α) (K : α → Except Err β) : Except Err β :=
  match L with
  | .error e => .error e
  | .ok r => K r

theorem OpAgree.of_loop {σ : Type} {m c' : Nat} {s' : σ} {L : Except Err (Nat × σ)}
    {K : Nat × σ → Except Err (Nat × Val × Ctr)} {ro : Res}
    (h1 : c' ≤ m → L = .ok (c', s')) (h2 : L = .ok (c', s') ∨ L = .error .CostExceeded)
    (hK : OpAgree m (K (c', s')) ro) (hcost : ∀ c t, ro = .ok (c, t) → c' ≤ c) :
    OpAgree m (thenK L K) ro := by
  rcases h2 with h | h
  · rw [h]; exact hK
  · have h' := h
    rw [h]
    have hgt : m < c' := by
      by_cases hle : c' ≤ m
      · rw [h1 hle] at h'; cases h'
      · omega
    cases ro with
    | error e => exact ⟨_, rfl, Or.inr (Or.inl rfl)⟩
    | ok r =>
      obtain ⟨c, t⟩ := r
      have := hcost c t rfl
      exact Or.inr (Or.inl ⟨by omega, rfl⟩)

theorem OpAgree.of_loop_err {σ : Type} {m : Nat} {L : Except Err (Nat × σ)}
    {K : Nat × σ → Except Err (Nat × Val × Ctr)} {e : Err} {re : RefErr}
    (h : L = .error e ∨ L = .error .CostExceeded) (hc : errClass e = re) :
    OpAgree m (thenK L K) (.error re) := by
  rcases h with h | h
  · rw [h]; exact ⟨_, rfl, Or.inl hc⟩
  · rw [h]; exact ⟨_, rfl, Or.inr (Or.inl rfl)⟩

/-! ### argument lists of atoms -/

/-- bytes of a list of atom values; `none` if one of them is a pair -/
def atomBytesOf : List Val → Option (List Bytes)
  | [] => some []
  | .atom b _ :: t => (atomBytesOf t).map (b :: ·)
  | .pair _ _ :: _ => none

theorem atomsOf_map_erase : ∀ (l : List Val),
    atomsOf (l.map Val.erase) = match atomBytesOf l with | some bs => .ok bs | none => .error .arg := by
  intro l
  induction l with
  | nil => rfl
  | cons a t ih =>
    cases a with
    | pair _ _ => rfl
    | atom b i =>
      simp only [List.map, Val.erase, atomsOf, ih, atomBytesOf]
      cases atomBytesOf t <;> rfl

theorem atomsOf_proper {a : Val} (hp : Proper a) :
    (asIter a.erase = .ok ((argList a).map Val.erase)) := by
  rw [asIter_proper hp, argList_erase]

theorem atomBytesOf_length : ∀ (l : List Val) (bs : List Bytes), atomBytesOf l = some bs → bs.length = l.length := by
  intro l
  induction l with
  | nil => intro bs h; simp only [atomBytesOf, Option.some.injEq] at h; subst h; rfl
  | cons a t ih =>
    intro bs h
    cases a with
    | pair _ _ => simp [atomBytesOf] at h
    | atom b i =>
      simp only [atomBytesOf] at h
      cases ht : atomBytesOf t with
      | none => rw [ht] at h; simp at h
      | some bt => rw [ht] at h; simp only [Option.map_some, Option.some.injEq] at h; subst h; simp [ih bt ht]

/-! ### Python-style folds in closed form -/

def sumLen (bs : List Bytes) : Nat := bs.foldl (fun n b => n + b.length) 0

theorem foldl_len_acc (l : List Bytes) (k : Nat) :
    l.foldl (fun n b => n + b.length) k = k + sumLen l := by
  unfold sumLen
  induction l generalizing k with
  | nil => rfl
  | cons x t ih => simp only [List.foldl_cons, Nat.zero_add]; rw [ih (k + x.length), ih x.length]; omega

theorem sumLen_cons (b : Bytes) (bs : List Bytes) : sumLen (b :: bs) = b.length + sumLen bs := by
  unfold sumLen; simp only [List.foldl_cons, Nat.zero_add]; exact foldl_len_acc bs b.length

theorem sumLen_nil : sumLen [] = 0 := rfl

theorem foldl_const {α : Type} (l : List α) (k base : Nat) :
    l.foldl (fun c _ => c + k) base = base + l.length * k := by
  induction l generalizing base with
  | nil => simp
  | cons x t ih => simp only [List.foldl_cons, List.length_cons, ih, Nat.add_mul]; omega

/-- concatenation of all the byte strings (`b"".join`, `h.update` in sequence, `s.write`) -/
def joinBytes (bs : List Bytes) : Bytes := bs.foldl (fun acc b => acc ++ b) []

theorem foldl_append_acc (l : List Bytes) (acc : Bytes) :
    l.foldl (fun acc b => acc ++ b) acc = acc ++ joinBytes l := by
  unfold joinBytes
  induction l generalizing acc with
  | nil => simp
  | cons x t ih => simp only [List.foldl_cons, List.nil_append]; rw [ih (acc ++ x), ih x, List.append_assoc]

theorem joinBytes_cons (b : Bytes) (bs : List Bytes) : joinBytes (b :: bs) = b ++ joinBytes bs := by
  unfold joinBytes; simp only [List.foldl_cons, List.nil_append]; exact foldl_append_acc bs b

theorem joinBytes_length (bs : List Bytes) : (joinBytes bs).length = sumLen bs := by
  induction bs with
  | nil => rfl
  | cons b t ih => rw [joinBytes_cons, sumLen_cons, List.length_append, ih]

/-! ### loops whose step reads one atom -/

def sumW (w : Bytes → Nat) (bs : List Bytes) : Nat := bs.foldl (fun n b => n + w b) 0

theorem foldl_w_acc (w : Bytes → Nat) (l : List Bytes) (k : Nat) :
    l.foldl (fun n b => n + w b) k = k + sumW w l := by
  unfold sumW
  induction l generalizing k with
  | nil => rfl
  | cons x t ih => simp only [List.foldl_cons, Nat.zero_add]; rw [ih (k + w x), ih (w x)]; omega

theorem sumW_cons (w : Bytes → Nat) (b : Bytes) (bs : List Bytes) : sumW w (b :: bs) = w b + sumW w bs := by
  unfold sumW; simp only [List.foldl_cons, Nat.zero_add]; exact foldl_w_acc w bs (w b)

theorem sumW_linear (k p : Nat) (bs : List Bytes) :
    sumW (fun b => k + b.length * p) bs = bs.length * k + sumLen bs * p := by
  induction bs with
  | nil => simp [sumW, sumLen]
  | cons b t ih => rw [sumW_cons, ih, sumLen_cons, List.length_cons, Nat.add_mul, Nat.add_mul]; omega

section atoms
variable {σ : Type}

theorem gFold_atoms (step : σ → Val → Except Err (Nat × σ)) (w : Bytes → Nat) (u : σ → Bytes → σ)
    (hA : ∀ s b i, (Val.atom b i).wf = true → step s (.atom b i) = .ok (w b, u s b)) :
    ∀ (l : List Val) (bs : List Bytes), atomBytesOf l = some bs → (∀ x ∈ l, x.wf = true) →
      ∀ (cost : Nat) (s : σ), gFold step l cost s = .ok (cost + sumW w bs, bs.foldl u s) := by
  intro l
  induction l with
  | nil =>
    intro bs h _ cost s
    simp only [atomBytesOf, Option.some.injEq] at h
    subst h; rfl
  | cons a t ih =>
    intro bs h hw cost s
    cases a with
    | pair _ _ => simp [atomBytesOf] at h
    | atom b i =>
      simp only [atomBytesOf] at h
      cases ht : atomBytesOf t with
      | none => rw [ht] at h; simp at h
      | some bt =>
        rw [ht] at h
        simp only [Option.map_some, Option.some.injEq] at h
        subst h
        simp only [gFold, hA s b i (hw _ (by simp))]
        rw [ih bt ht (fun x hx => hw x (by simp [hx])), sumW_cons, List.foldl_cons, Nat.add_assoc]

theorem gFold_pair (step : σ → Val → Except Err (Nat × σ)) (w : Bytes → Nat) (u : σ → Bytes → σ)
    (hA : ∀ s b i, (Val.atom b i).wf = true → step s (.atom b i) = .ok (w b, u s b))
    (hP : ∀ s l r, ∃ msg, step s (.pair l r) = .error (.InvalidOpArg msg)) :
    ∀ (l : List Val), atomBytesOf l = none → (∀ x ∈ l, x.wf = true) →
      ∀ (cost : Nat) (s : σ), ∃ msg, gFold step l cost s = .error (.InvalidOpArg msg) := by
  intro l
  induction l with
  | nil => intro h; simp [atomBytesOf] at h
  | cons a t ih =>
    intro h hw cost s
    cases a with
    | pair l r =>
      obtain ⟨msg, hm⟩ := hP s l r
      exact ⟨msg, by simp only [gFold, hm]⟩
    | atom b i =>
      simp only [atomBytesOf] at h
      cases ht : atomBytesOf t with
      | some bt => rw [ht] at h; simp at h
      | none =>
        simp only [gFold, hA s b i (hw _ (by simp))]
        exact ih ht (fun x hx => hw x (by simp [hx])) _ _

end atoms

/-- the reference reads the same list: `as_iter` + "every argument is an atom" -/
theorem ref_atoms {a : Val} (hp : Proper a) :
    (match asIter a.erase with
     | .error e => (.error e : Except RefErr (List Bytes))
     | .ok l => atomsOf l) =
      match atomBytesOf (argList a) with | some bs => .ok bs | none => .error .arg := by
  rw [atomsOf_proper hp]
  exact atomsOf_map_erase _

/-! ### `sha256` -/

def shaStep (cpa cpb : Nat) (acc : Bytes) (arg : Val) : Except Err (Nat × Bytes) :=
  match atomBytes arg "sha256" with
  | .error e => .error e
  | .ok blob => .ok (cpa + blob.length * cpb, acc ++ blob)

theorem sha256Loop_eq (cpa cpb m : Nat) : ∀ (l : List Val) (cost : Nat) (acc : Bytes),
    sha256Loop cpa cpb m l cost acc = gLoop m (shaStep cpa cpb) l cost acc := by
  intro l
  induction l with
  | nil => intro cost acc; rfl
  | cons a t ih =>
    intro cost acc
    simp only [sha256Loop, gLoop, shaStep]
    cases atomBytes a "sha256" with
    | error e => rfl
    | ok blob =>
      simp only [checkCost, Nat.add_assoc]
      by_cases hc : cost + (cpa + blob.length * cpb) > m
      · simp only [hc, if_true]
      · simp only [hc, if_false]; exact ih _ _

theorem opSha256_agree (m : Nat) (a : Val) (c : Ctr) (hw : a.wf = true) (hp : Proper a) :
    OpAgree m (Interp.opSha256 {} 0 m a c) (Ref.opSha256 a.erase) := by
  rw [show ({} : Cfg) = { fastpath := true } from rfl, opSha256_fastpath 0 m a c hw]
  have hwl := argList_wf hw
  -- the reference side
  have href : Ref.opSha256 a.erase = match atomBytesOf (argList a) with
      | none => .error .arg
      | some bs => Ref.mallocCost (bs.foldl (fun c _ => c + SHA256_COST_PER_ARG) SHA256_BASE_COST
              + bs.foldl (fun n b => n + b.length) 0 * SHA256_COST_PER_BYTE)
              (.atom (Hash.sha256 (bs.foldl (fun acc b => acc ++ b) []))) := by
    unfold Ref.opSha256
    rw [atomsOf_proper hp]
    dsimp only
    rw [atomsOf_map_erase]
    cases atomBytesOf (argList a) <;> rfl
  rw [href]
  -- the model side: the nil shortcut is the generic path on an empty list
  have hmodel : Interp.opSha256 { fastpath := false } 0 m a c =
      thenK (gLoop m (shaStep Gen.SHA256_COST_PER_ARG Gen.SHA256_COST_PER_BYTE) (argList a) Gen.SHA256_BASE_COST [])
        (fun r => newAtomAndCost c r.1 (Hash.sha256 r.2)) := by
    unfold Interp.opSha256
    simp only [newModel0, Bool.false_eq_true, if_false]
    by_cases hn : a.isNilPtr = true
    · have : argList a = [] := by cases a with
        | pair _ _ => simp [Val.isNilPtr] at hn
        | atom b i => rfl
      simp only [hn, if_true, this, gLoop, thenK]
    · simp only [hn, Bool.false_eq_true, if_false, sha256Loop_eq, thenK]
      cases gLoop m (shaStep Gen.SHA256_COST_PER_ARG Gen.SHA256_COST_PER_BYTE) (argList a) Gen.SHA256_BASE_COST [] with
      | error e => rfl
      | ok r => rfl
  rw [hmodel]
  have hA : ∀ (s : Bytes) (b : Bytes) (i : Bool), (Val.atom b i).wf = true →
      shaStep Gen.SHA256_COST_PER_ARG Gen.SHA256_COST_PER_BYTE s (.atom b i) =
        .ok ((fun b => Gen.SHA256_COST_PER_ARG + b.length * Gen.SHA256_COST_PER_BYTE) b, (fun s b => s ++ b) s b) :=
    fun _ _ _ _ => rfl
  cases hab : atomBytesOf (argList a) with
  | none =>
    obtain ⟨msg, hf⟩ := gFold_pair _ _ _ hA (fun _ _ _ => ⟨_, rfl⟩) (argList a) hab hwl Gen.SHA256_BASE_COST []
    dsimp only
    exact OpAgree.of_loop_err (gLoop_err m _ _ _ _ _ hf) rfl
  | some bs =>
    have hf := gFold_atoms _ _ _ hA (argList a) bs hab hwl Gen.SHA256_BASE_COST []
    obtain ⟨h1, h2⟩ := gLoop_ok m _ _ _ _ _ _ hf
    dsimp only
    have hlen := atomBytesOf_length _ _ hab
    rw [foldl_const, foldl_len_acc, foldl_append_acc]
    simp only [List.nil_append, Nat.zero_add]
    have hcost : Gen.SHA256_BASE_COST + sumW (fun b => Gen.SHA256_COST_PER_ARG + b.length * Gen.SHA256_COST_PER_BYTE) bs
        = SHA256_BASE_COST + bs.length * SHA256_COST_PER_ARG + sumLen bs * SHA256_COST_PER_BYTE := by
      rw [sumW_linear]; simp only [Gen.SHA256_BASE_COST, Gen.SHA256_COST_PER_ARG, Gen.SHA256_COST_PER_BYTE,
        SHA256_BASE_COST, SHA256_COST_PER_ARG, SHA256_COST_PER_BYTE]; omega
    have hjoin : bs.foldl (fun s b => s ++ b) [] = joinBytes bs := rfl
    rw [hcost, hjoin] at h1 h2
    refine OpAgree.of_loop h1 h2 ?_ ?_
    · simp only [newAtomAndCost, Ref.mallocCost]
      rcases allocAtom_cases c (Hash.sha256 (joinBytes bs)) with ⟨c', h⟩ | ⟨e, h, hl⟩
      · rw [h]; exact OpAgree.ok rfl (mkAtom_wf _)
      · rw [h]; exact Or.inr (Or.inr ⟨e, rfl, hl⟩)
    · intro c0 t hc
      simp only [Ref.mallocCost, Except.ok.injEq, Prod.mk.injEq] at hc
      omega

/-! ### `+` -/

def addStep (cpa cpb : Nat) (t : Int) (arg : Val) : Except Err (Nat × Int) :=
  match arg with
  | .pair _ _ => .error (.InvalidOpArg "Requires Int Argument: +")
  | .atom b _ => .ok (cpa + b.length * cpb, t + decodeInt b)

theorem addGeneric_eq (cpa cpb m : Nat) : ∀ (l : List Val), (∀ x ∈ l, x.wf = true) → ∀ (cost : Nat) (acc small : Int),
    addGeneric false cpa cpb m l cost acc small = gLoop m (addStep cpa cpb) l cost (acc + small) := by
  intro l
  induction l with
  | nil => intro _ cost acc small; rfl
  | cons a t ih =>
    intro hw cost acc small
    have hwt : ∀ x ∈ t, x.wf = true := fun x hx => hw x (by simp [hx])
    cases a with
    | pair l r => rfl
    | atom b i =>
      have hwa := hw (.atom b i) (by simp)
      cases i with
      | false =>
        simp only [addGeneric, gLoop, addStep, node, checkCost, Bool.false_eq_true, if_false]
        rw [show cost + cpa + cpb * b.length = cost + (cpa + b.length * cpb) by rw [Nat.mul_comm]; omega]
        by_cases hc : cost + (cpa + b.length * cpb) > m
        · simp only [hc, if_true]
        · simp only [hc, if_false]
          rw [ih hwt, show acc + decodeInt b + small = acc + small + decodeInt b by omega]
      | true =>
        simp only [addGeneric, gLoop, addStep, node, checkCost, Bool.false_eq_true, if_false]
        rw [wfInl_len hwa, show cost + cpa + b.length * cpb = cost + (cpa + b.length * cpb) by omega]
        by_cases hc : cost + (cpa + b.length * cpb) > m
        · simp only [hc, if_true]
        · simp only [hc, if_false]
          rw [ih hwt, wfInl_decode hwa, show acc + (small + (beNat b : Int)) = acc + small + (beNat b : Int) by omega]

theorem foldl_sum_acc (l : List Bytes) (k : Int) :
    l.foldl (fun t b => t + decodeInt b) k = k + l.foldl (fun t b => t + decodeInt b) 0 := by
  induction l generalizing k with
  | nil => simp
  | cons x t ih => simp only [List.foldl_cons]; rw [ih (k + decodeInt x), ih (0 + decodeInt x)]; omega

theorem opAdd_agree (m : Nat) (a : Val) (c : Ctr) (hw : a.wf = true) (hp : Proper a) :
    OpAgree m (Interp.opAdd {} 0 m a c) (Ref.opAdd a.erase) := by
  rw [show ({} : Cfg) = { fastpath := true } from rfl, opAdd_fastpath 0 m a c hw]
  have hwl := argList_wf hw
  have href : Ref.opAdd a.erase = match atomBytesOf (argList a) with
      | none => .error .arg
      | some bs => Ref.mallocCost (bs.foldl (fun c _ => c + ARITH_COST_PER_ARG) ARITH_BASE_COST
              + bs.foldl (fun n b => n + b.length) 0 * ARITH_COST_PER_BYTE)
              (ofInt (bs.foldl (fun t b => t + decodeInt b) 0)) := by
    unfold Ref.opAdd argsAsInts
    rw [atomsOf_proper hp]
    dsimp only
    rw [atomsOf_map_erase]
    cases atomBytesOf (argList a) with
    | none => rfl
    | some bs =>
      simp only [List.foldl_map, asInt, intFromBytes_eq]
  rw [href]
  have hmodel : Interp.opAdd { fastpath := false } 0 m a c =
      thenK (gLoop m (addStep Gen.ARITH_COST_PER_ARG Gen.ARITH_COST_PER_BYTE) (argList a) Gen.ARITH_BASE_COST 0)
        (fun r => match allocNumber c r.2 with
          | .error e => .error e
          | .ok (v, c') => .ok (Interp.mallocCost r.1 v, v, c')) := by
    unfold Interp.opAdd
    simp only [arithCosts, newModel0, Bool.false_eq_true, if_false, addGeneric_eq _ _ _ _ hwl, thenK]
    rw [show ((0 : Int) + 0) = 0 by rfl]
    cases gLoop m (addStep Gen.ARITH_COST_PER_ARG Gen.ARITH_COST_PER_BYTE) (argList a) Gen.ARITH_BASE_COST 0 with
    | error e => rfl
    | ok r => rfl
  rw [hmodel]
  have hA : ∀ (s : Int) (b : Bytes) (i : Bool), (Val.atom b i).wf = true →
      addStep Gen.ARITH_COST_PER_ARG Gen.ARITH_COST_PER_BYTE s (.atom b i) =
        .ok ((fun b => Gen.ARITH_COST_PER_ARG + b.length * Gen.ARITH_COST_PER_BYTE) b, (fun s b => s + decodeInt b) s b) :=
    fun _ _ _ _ => rfl
  cases hab : atomBytesOf (argList a) with
  | none =>
    obtain ⟨msg, hf⟩ := gFold_pair _ _ _ hA (fun _ _ _ => ⟨_, rfl⟩) (argList a) hab hwl Gen.ARITH_BASE_COST 0
    dsimp only
    exact OpAgree.of_loop_err (gLoop_err m _ _ _ _ _ hf) rfl
  | some bs =>
    have hf := gFold_atoms _ _ _ hA (argList a) bs hab hwl Gen.ARITH_BASE_COST 0
    obtain ⟨h1, h2⟩ := gLoop_ok m _ _ _ _ _ _ hf
    dsimp only
    rw [foldl_const, foldl_len_acc]
    simp only [Nat.zero_add]
    have hcost : Gen.ARITH_BASE_COST + sumW (fun b => Gen.ARITH_COST_PER_ARG + b.length * Gen.ARITH_COST_PER_BYTE) bs
        = ARITH_BASE_COST + bs.length * ARITH_COST_PER_ARG + sumLen bs * ARITH_COST_PER_BYTE := by
      rw [sumW_linear]; simp only [Gen.ARITH_BASE_COST, Gen.ARITH_COST_PER_ARG, Gen.ARITH_COST_PER_BYTE,
        ARITH_BASE_COST, ARITH_COST_PER_ARG, ARITH_COST_PER_BYTE]; omega
    rw [hcost] at h1 h2
    refine OpAgree.of_loop h1 h2 (allocNumber_agree m _ c _) ?_
    intro c0 t hc
    simp only [Ref.mallocCost, ofInt, Except.ok.injEq, Prod.mk.injEq] at hc
    omega

/-! ### `-` -/

/-- `R` behaves like `G` except that it may give up with `CostExceeded` where `G` reports an error -/
def Weak {α : Type} (R G : Except Err α) : Prop :=
  (∀ r, G = .ok r → R = .ok r) ∧ (G = .error .CostExceeded → R = .error .CostExceeded) ∧
  (∀ e, G = .error e → R = .error e ∨ R = .error .CostExceeded)

theorem Weak.refl {α : Type} (G : Except Err α) : Weak G G :=
  ⟨fun _ h => h, fun h => h, fun _ h => Or.inl h⟩

theorem Weak.ce {α : Type} (G : Except Err α) (hG : ∀ r, G ≠ .ok r) : Weak (.error .CostExceeded) G :=
  ⟨fun r h => absurd h (hG r), fun _ => rfl, fun _ _ => Or.inr rfl⟩

def subStep (cpa cpb : Nat) (s : Int × Bool) (arg : Val) : Except Err (Nat × (Int × Bool)) :=
  match arg with
  | .pair _ _ => .error (.InvalidOpArg "Requires Int Argument: -")
  | .atom b _ => .ok (cpa + b.length * cpb, (s.1 + (if s.2 then 1 else -1) * decodeInt b, false))

theorem subGeneric_weak (cpa cpb m : Nat) : ∀ (l : List Val), (∀ x ∈ l, x.wf = true) →
    ∀ (cost : Nat) (acc small : Int) (first : Bool),
    Weak ((subGeneric false cpa cpb m l cost acc small first).map (fun r => (r.1, (r.2, false))))
      ((gLoop m (subStep cpa cpb) l cost (acc + small, first)).map (fun r => (r.1, (r.2.1, false)))) := by
  intro l
  induction l with
  | nil => intro _ cost acc small first; exact Weak.refl _
  | cons a t ih =>
    intro hw cost acc small first
    have hwt : ∀ x ∈ t, x.wf = true := fun x hx => hw x (by simp [hx])
    simp only [subGeneric, checkCost]
    by_cases hc1 : cost + cpa > m
    · simp only [hc1, if_true, Except.map]
      apply Weak.ce
      intro r
      cases a with
      | pair l r => simp [gLoop, subStep]
      | atom b i =>
        simp only [gLoop, subStep]
        rw [if_pos (by omega)]
        simp
    · simp only [hc1, if_false]
      cases a with
      | pair l r => exact Weak.refl _
      | atom b i =>
        have hwa := hw (.atom b i) (by simp)
        have hlen : (match node (.atom b i) with
            | .buffer buf => buf.length | .u32 v => lenForValue v | .pair _ _ => 0) = b.length := by
          cases i with
          | false => rfl
          | true => exact wfInl_len hwa
        cases i with
        | false =>
          simp only [node, gLoop, subStep, Bool.false_eq_true, if_false]
          rw [show cost + cpa + b.length * cpb = cost + (cpa + b.length * cpb) by omega]
          by_cases hc : cost + (cpa + b.length * cpb) > m
          · simp only [hc, if_true]; exact Weak.refl _
          · simp only [hc, if_false]
            have := ih hwt (cost + (cpa + b.length * cpb)) (acc + (if first then 1 else -1) * decodeInt b) small false
            rw [show acc + (if first = true then 1 else -1) * decodeInt b + small =
              acc + small + (if first = true then 1 else -1) * decodeInt b by omega] at this
            exact this
        | true =>
          simp only [node, gLoop, subStep, Bool.false_eq_true, if_false]
          rw [wfInl_len hwa, show cost + cpa + b.length * cpb = cost + (cpa + b.length * cpb) by omega]
          by_cases hc : cost + (cpa + b.length * cpb) > m
          · simp only [hc, if_true]; exact Weak.refl _
          · simp only [hc, if_false]
            have := ih hwt (cost + (cpa + b.length * cpb)) acc (small + (if first then 1 else -1) * (beNat b : Int)) false
            rw [show acc + (small + (if first = true then 1 else -1) * (beNat b : Int)) =
              acc + small + (if first = true then 1 else -1) * (beNat b : Int) by omega] at this
            rw [wfInl_decode hwa]
            exact this
theorem weak_transfer {R : Except Err (Nat × Int)} {G : Except Err (Nat × (Int × Bool))}
    (hW : Weak (R.map (fun r => (r.1, (r.2, false)))) (G.map (fun r => (r.1, (r.2.1, false))))) :
    (∀ c' tot fl, G = .ok (c', (tot, fl)) → R = .ok (c', tot)) ∧
    (G = .error .CostExceeded → R = .error .CostExceeded) ∧
    (∀ e, G = .error e → R = .error e ∨ R = .error .CostExceeded) := by
  obtain ⟨w1, w2, w3⟩ := hW
  refine ⟨?_, ?_, ?_⟩
  · intro c' tot fl hG
    have := w1 (c', (tot, false)) (by rw [hG]; rfl)
    cases R with
    | error e => simp [Except.map] at this
    | ok r => obtain ⟨rc, rt⟩ := r; simp only [Except.map, Except.ok.injEq, Prod.mk.injEq, and_true] at this; rw [this.1, this.2]
  · intro hG
    have := w2 (by rw [hG]; rfl)
    cases R with
    | error e => simpa [Except.map] using this
    | ok r => simp [Except.map] at this
  · intro e hG
    have := w3 e (by rw [hG]; rfl)
    cases R with
    | error e' => simpa [Except.map] using this
    | ok r => simp [Except.map] at this

def subU (s : Int × Bool) (b : Bytes) : Int × Bool := (s.1 + (if s.2 then 1 else -1) * decodeInt b, false)

theorem pySub_eq (bs : List Bytes) : ∀ (t : Int) (first : Bool),
    ((bs.map (fun b => (asInt b, b.length))).foldl
      (fun (p : Int × Int) (q : Int × Nat) => (p.1 + p.2 * q.1, (-1 : Int))) (t, if first then 1 else -1)).1 =
    (bs.foldl subU (t, first)).1 := by
  induction bs with
  | nil => intro t first; rfl
  | cons b r ih =>
    intro t first
    simp only [List.map, List.foldl_cons, subU]
    have := ih (t + (if first then 1 else -1) * decodeInt b) false
    simpa [subU, asInt, intFromBytes_eq] using this

theorem opSubtract_agree (m : Nat) (a : Val) (c : Ctr) (hw : a.wf = true) (hp : Proper a) :
    OpAgree m (Interp.opSubtract {} 0 m a c) (Ref.opSubtract a.erase) := by
  rw [show ({} : Cfg) = { fastpath := true } from rfl, opSubtract_fastpath 0 m a c hw]
  have hwl := argList_wf hw
  have href : Ref.opSubtract a.erase = match atomBytesOf (argList a) with
      | none => .error .arg
      | some bs => Ref.mallocCost (bs.foldl (fun c _ => c + ARITH_COST_PER_ARG) ARITH_BASE_COST
              + bs.foldl (fun n b => n + b.length) 0 * ARITH_COST_PER_BYTE)
              (ofInt (bs.foldl subU (0, true)).1) := by
    unfold Ref.opSubtract
    by_cases hn : nullp a.erase = true
    · have : ∃ i, a = .atom [] i := by
        cases a with
        | pair _ _ => simp [Val.erase, nullp] at hn
        | atom b i => cases b with
          | nil => exact ⟨i, rfl⟩
          | cons _ _ => simp [Val.erase, nullp] at hn
      obtain ⟨i, rfl⟩ := this
      simp [Val.erase, nullp, argList, atomBytesOf, subU]
    · simp only [hn, Bool.false_eq_true, if_false]
      unfold argsAsInts
      rw [atomsOf_proper hp]
      dsimp only
      rw [atomsOf_map_erase]
      cases atomBytesOf (argList a) with
      | none => rfl
      | some bs =>
        dsimp only
        have hp := pySub_eq bs 0 true
        simp only [if_true] at hp
        simp only [List.foldl_map] at hp ⊢
        rw [← hp]
  rw [href]
  have hW := subGeneric_weak Gen.ARITH_COST_PER_ARG Gen.ARITH_COST_PER_BYTE m (argList a) hwl Gen.ARITH_BASE_COST 0 0 true
  rw [show ((0 : Int) + 0) = 0 by rfl] at hW
  obtain ⟨t1, t2, t3⟩ := weak_transfer hW
  have hmodel : Interp.opSubtract { fastpath := false } 0 m a c =
      thenK (subGeneric false Gen.ARITH_COST_PER_ARG Gen.ARITH_COST_PER_BYTE m (argList a) Gen.ARITH_BASE_COST 0 0 true)
        (fun r => match allocNumber c r.2 with
          | .error e => .error e
          | .ok (v, c') => .ok (Interp.mallocCost r.1 v, v, c')) := by
    unfold Interp.opSubtract
    simp only [arithCosts, newModel0, Bool.false_eq_true, if_false, thenK]
    cases subGeneric false Gen.ARITH_COST_PER_ARG Gen.ARITH_COST_PER_BYTE m (argList a) Gen.ARITH_BASE_COST 0 0 true with
    | error e => rfl
    | ok r => rfl
  rw [hmodel]
  have hA : ∀ (s : Int × Bool) (b : Bytes) (i : Bool), (Val.atom b i).wf = true →
      subStep Gen.ARITH_COST_PER_ARG Gen.ARITH_COST_PER_BYTE s (.atom b i) =
        .ok ((fun b => Gen.ARITH_COST_PER_ARG + b.length * Gen.ARITH_COST_PER_BYTE) b, subU s b) :=
    fun _ _ _ _ => rfl
  cases hab : atomBytesOf (argList a) with
  | none =>
    obtain ⟨msg, hf⟩ := gFold_pair _ _ _ hA (fun _ _ _ => ⟨_, rfl⟩) (argList a) hab hwl Gen.ARITH_BASE_COST (0, true)
    dsimp only
    have hG := gLoop_err m _ _ _ _ _ hf
    refine OpAgree.of_loop_err (e := .InvalidOpArg msg) ?_ rfl
    rcases hG with hG | hG
    · exact t3 _ hG
    · exact Or.inr (t2 hG)
  | some bs =>
    have hf := gFold_atoms _ _ _ hA (argList a) bs hab hwl Gen.ARITH_BASE_COST (0, true)
    obtain ⟨h1, h2⟩ := gLoop_ok m _ _ _ _ _ _ hf
    dsimp only
    rw [foldl_const, foldl_len_acc]
    simp only [Nat.zero_add]
    have hcost : Gen.ARITH_BASE_COST + sumW (fun b => Gen.ARITH_COST_PER_ARG + b.length * Gen.ARITH_COST_PER_BYTE) bs
        = ARITH_BASE_COST + bs.length * ARITH_COST_PER_ARG + sumLen bs * ARITH_COST_PER_BYTE := by
      rw [sumW_linear]; simp only [Gen.ARITH_BASE_COST, Gen.ARITH_COST_PER_ARG, Gen.ARITH_COST_PER_BYTE,
        ARITH_BASE_COST, ARITH_COST_PER_ARG, ARITH_COST_PER_BYTE]; omega
    rw [hcost] at h1 h2
    refine OpAgree.of_loop (s' := (bs.foldl subU (0, true)).1) ?_ ?_ (allocNumber_agree m _ c _) ?_
    · intro hle; exact t1 _ _ _ (h1 hle)
    · rcases h2 with h | h
      · exact Or.inl (t1 _ _ _ h)
      · exact Or.inr (t2 h)
    · intro c0 t hc
      simp only [Ref.mallocCost, ofInt, Except.ok.injEq, Prod.mk.injEq] at hc
      omega

/-! ### `*` -/

theorem hasFlag0' (bit : Nat) : hasFlag 0 bit = false := by simp [hasFlag]

theorem refMul_mono : ∀ (l : List (Int × Nat)) (cost : Nat) (v : Int) (vs : Nat), cost ≤ (Ref.mulLoop l cost v vs).1 := by
  intro l
  induction l with
  | nil => intro cost v vs; exact Nat.le_refl _
  | cons p t ih =>
    intro cost v vs
    obtain ⟨o, rs⟩ := p
    simp only [Ref.mulLoop]
    have := ih (cost + MUL_COST_PER_OP + (rs + vs) * MUL_LINEAR_COST_PER_BYTE + rs * vs / MUL_SQUARE_COST_PER_BYTE_DIVIDER)
      (v * o) (limbsForInt (v * o))
    exact Nat.le_trans (Nat.le_trans (Nat.le_trans (Nat.le_add_right _ _) (Nat.le_add_right _ _)) (Nat.le_add_right _ _)) this

theorem mulLoop_atoms (m : Nat) : ∀ (l : List Val) (bs : List Bytes), atomBytesOf l = some bs → (∀ x ∈ l, x.wf = true) →
    ∀ (cost : Nat) (total : Int) (l0 : Nat),
      let r := Ref.mulLoop (bs.map (fun b => (asInt b, b.length))) cost total l0
      (r.1 ≤ m → Interp.mulLoop { fastpath := false } 0 m Gen.MUL_SQUARE_COST_PER_BYTE_DIVIDER l cost total l0 = .ok r) ∧
      (Interp.mulLoop { fastpath := false } 0 m Gen.MUL_SQUARE_COST_PER_BYTE_DIVIDER l cost total l0 = .ok r ∨
       Interp.mulLoop { fastpath := false } 0 m Gen.MUL_SQUARE_COST_PER_BYTE_DIVIDER l cost total l0 = .error .CostExceeded) := by
  intro l
  induction l with
  | nil =>
    intro bs h _ cost total l0
    simp only [atomBytesOf, Option.some.injEq] at h
    subst h
    exact ⟨fun _ => rfl, Or.inl rfl⟩
  | cons a t ih =>
    intro bs h hw cost total l0
    cases a with
    | pair _ _ => simp [atomBytesOf] at h
    | atom b i =>
      simp only [atomBytesOf] at h
      cases ht : atomBytesOf t with
      | none => rw [ht] at h; simp at h
      | some bt =>
        rw [ht] at h
        simp only [Option.map_some, Option.some.injEq] at h
        subst h
        have hwa := hw (.atom b i) (by simp)
        have hwt : ∀ x ∈ t, x.wf = true := fun x hx => hw x (by simp [hx])
        simp only [List.map, Ref.mulLoop, asInt, intFromBytes_eq]
        simp only [Interp.mulLoop, newModel0, hasFlag0', Bool.false_and, Bool.false_eq_true, if_false, intAtom_wf hwa, checkCost]
        have hc : cost + Gen.MUL_COST_PER_OP + (l0 + b.length) * Gen.MUL_LINEAR_COST_PER_BYTE +
            l0 * b.length / Gen.MUL_SQUARE_COST_PER_BYTE_DIVIDER =
            cost + MUL_COST_PER_OP + (b.length + l0) * MUL_LINEAR_COST_PER_BYTE + b.length * l0 / MUL_SQUARE_COST_PER_BYTE_DIVIDER := by
          rw [Nat.add_comm l0 b.length, Nat.mul_comm l0 b.length]; rfl
        rw [hc]
        have := ih bt ht hwt (cost + MUL_COST_PER_OP + (b.length + l0) * MUL_LINEAR_COST_PER_BYTE +
          b.length * l0 / MUL_SQUARE_COST_PER_BYTE_DIVIDER) (total * decodeInt b) (limbsForInt (total * decodeInt b))
        have hm := refMul_mono (bt.map (fun b => (asInt b, b.length))) (cost + MUL_COST_PER_OP + (b.length + l0) * MUL_LINEAR_COST_PER_BYTE +
          b.length * l0 / MUL_SQUARE_COST_PER_BYTE_DIVIDER) (total * decodeInt b) (limbsForInt (total * decodeInt b))
        simp only [asInt, intFromBytes_eq] at this hm
        by_cases hgt : cost + MUL_COST_PER_OP + (b.length + l0) * MUL_LINEAR_COST_PER_BYTE +
            b.length * l0 / MUL_SQUARE_COST_PER_BYTE_DIVIDER > m
        · simp only [hgt, if_true]
          exact ⟨fun hle => absurd (Nat.le_trans hm hle) (by omega), Or.inr trivial⟩
        · simp only [hgt, if_false]
          rw [limbs_eq]
          exact this
theorem mulLoop_pair (m : Nat) : ∀ (l : List Val), atomBytesOf l = none → (∀ x ∈ l, x.wf = true) →
    ∀ (cost : Nat) (total : Int) (l0 : Nat),
      ∃ e, Interp.mulLoop { fastpath := false } 0 m Gen.MUL_SQUARE_COST_PER_BYTE_DIVIDER l cost total l0 = .error e ∧
        (errClass e = .arg ∨ e = .CostExceeded) := by
  intro l
  induction l with
  | nil => intro h; simp [atomBytesOf] at h
  | cons a t ih =>
    intro h hw cost total l0
    cases a with
    | pair l r => exact ⟨_, rfl, Or.inl rfl⟩
    | atom b i =>
      simp only [atomBytesOf] at h
      cases ht : atomBytesOf t with
      | some bt => rw [ht] at h; simp at h
      | none =>
        have hwa := hw (.atom b i) (by simp)
        have hwt : ∀ x ∈ t, x.wf = true := fun x hx => hw x (by simp [hx])
        simp only [Interp.mulLoop, newModel0, hasFlag0', Bool.false_and, Bool.false_eq_true, if_false, intAtom_wf hwa, checkCost]
        by_cases hgt : cost + Gen.MUL_COST_PER_OP + (l0 + b.length) * Gen.MUL_LINEAR_COST_PER_BYTE +
            l0 * b.length / Gen.MUL_SQUARE_COST_PER_BYTE_DIVIDER > m
        · simp only [hgt, if_true]; exact ⟨_, rfl, Or.inr rfl⟩
        · simp only [hgt, if_false]; exact ih ht hwt _ _ _

theorem opMultiply_agree (m : Nat) (a : Val) (c : Ctr) (hw : a.wf = true) (hp : Proper a) :
    OpAgree m (Interp.opMultiply {} 0 m a c) (Ref.opMultiply a.erase) := by
  rw [show ({} : Cfg) = { fastpath := true } from rfl, opMultiply_fastpath 0 m a c hw]
  have hwl := argList_wf hw
  have href : Ref.opMultiply a.erase = match atomBytesOf (argList a) with
      | none => .error .arg
      | some [] => Ref.mallocCost MUL_BASE_COST (ofInt 1)
      | some (b :: bs) =>
        Ref.mallocCost (Ref.mulLoop (bs.map (fun b => (asInt b, b.length))) MUL_BASE_COST (decodeInt b) b.length).1
          (ofInt (Ref.mulLoop (bs.map (fun b => (asInt b, b.length))) MUL_BASE_COST (decodeInt b) b.length).2) := by
    unfold Ref.opMultiply argsAsInts
    rw [atomsOf_proper hp]
    dsimp only
    rw [atomsOf_map_erase]
    cases atomBytesOf (argList a) with
    | none => rfl
    | some bs =>
      cases bs with
      | nil => rfl
      | cons b bs => simp only [List.map, asInt, intFromBytes_eq]
  rw [href]
  unfold Interp.opMultiply
  simp only [newModel0, hasFlag0', Bool.false_and, Bool.false_eq_true, if_false]
  cases hal : argList a with
  | nil =>
    simp only [atomBytesOf]
    exact allocNumber_agree m _ c _
  | cons x rest =>
    rw [hal] at hwl
    have hwx := hwl x (by simp)
    have hwr : ∀ y ∈ rest, y.wf = true := fun y hy => hwl y (by simp [hy])
    cases x with
    | pair l r =>
      simp only [atomBytesOf, intAtom]
      exact OpAgree.err rfl
    | atom b i =>
      simp only [atomBytesOf, intAtom_wf hwx]
      cases hab : atomBytesOf rest with
      | none =>
        obtain ⟨e, he, hc⟩ := mulLoop_pair m rest hab hwr Gen.MUL_BASE_COST (decodeInt b) b.length
        rw [he]
        simp only [Option.map_none]
        rcases hc with hc | hc
        · exact OpAgree.err hc
        · subst hc; exact ⟨_, rfl, Or.inr (Or.inl rfl)⟩
      | some bs =>
        simp only [Option.map_some]
        obtain ⟨h1, h2⟩ := mulLoop_atoms m rest bs hab hwr Gen.MUL_BASE_COST (decodeInt b) b.length
        have hbase : Gen.MUL_BASE_COST = MUL_BASE_COST := rfl
        rw [hbase] at h1 h2 ⊢
        have hK := allocNumber_agree m
          (Ref.mulLoop (bs.map (fun b => (asInt b, b.length))) MUL_BASE_COST (decodeInt b) b.length).1 c
          (Ref.mulLoop (bs.map (fun b => (asInt b, b.length))) MUL_BASE_COST (decodeInt b) b.length).2
        have hcost : ∀ c0 t, Ref.mallocCost
            (Ref.mulLoop (bs.map (fun b => (asInt b, b.length))) MUL_BASE_COST (decodeInt b) b.length).1
            (ofInt (Ref.mulLoop (bs.map (fun b => (asInt b, b.length))) MUL_BASE_COST (decodeInt b) b.length).2) = .ok (c0, t) →
            (Ref.mulLoop (bs.map (fun b => (asInt b, b.length))) MUL_BASE_COST (decodeInt b) b.length).1 ≤ c0 := by
          intro c0 t hc
          simp only [Ref.mallocCost, ofInt, Except.ok.injEq, Prod.mk.injEq] at hc
          omega
        generalize Interp.mulLoop { fastpath := false } 0 m Gen.MUL_SQUARE_COST_PER_BYTE_DIVIDER rest MUL_BASE_COST
          (decodeInt b) b.length = L at h1 h2 ⊢
        cases L with
        | error e =>
          exact OpAgree.of_loop (L := .error e) (K := fun r => match allocNumber c r.2 with
            | .error e => .error e
            | .ok (v, c') => .ok (Interp.mallocCost r.1 v, v, c')) h1 h2 hK hcost
        | ok r =>
          obtain ⟨x, y⟩ := r
          exact OpAgree.of_loop (L := .ok (x, y)) (K := fun r => match allocNumber c r.2 with
            | .error e => .error e
            | .ok (v, c') => .ok (Interp.mallocCost r.1 v, v, c')) h1 h2 hK hcost


/-! ### `concat` -/

section atomsV
variable {σ : Type}
/-- like `gFold_atoms`, for a step whose state update looks at the argument value itself -/
theorem gFold_atomsV (step : σ → Val → Except Err (Nat × σ)) (w : Bytes → Nat) (u : σ → Val → σ)
    (hA : ∀ s b i, (Val.atom b i).wf = true → step s (.atom b i) = .ok (w b, u s (.atom b i))) :
    ∀ (l : List Val) (bs : List Bytes), atomBytesOf l = some bs → (∀ x ∈ l, x.wf = true) →
      ∀ (cost : Nat) (s : σ), gFold step l cost s = .ok (cost + sumW w bs, l.foldl u s) := by
  intro l
  induction l with
  | nil =>
    intro bs h _ cost s
    simp only [atomBytesOf, Option.some.injEq] at h
    subst h; rfl
  | cons a t ih =>
    intro bs h hw cost s
    cases a with
    | pair _ _ => simp [atomBytesOf] at h
    | atom b i =>
      simp only [atomBytesOf] at h
      cases ht : atomBytesOf t with
      | none => rw [ht] at h; simp at h
      | some bt =>
        rw [ht] at h
        simp only [Option.map_some, Option.some.injEq] at h
        subst h
        simp only [gFold, hA s b i (hw _ (by simp))]
        rw [ih bt ht (fun x hx => hw x (by simp [hx])), sumW_cons, List.foldl_cons, Nat.add_assoc]
end atomsV

def concatStep (s : Nat × List Val) (arg : Val) : Except Err (Nat × (Nat × List Val)) :=
  match arg with
  | .pair _ _ => .error (.InvalidOpArg "concat on list")
  | .atom b _ =>
    .ok (Gen.CONCAT_COST_PER_ARG + b.length * (Gen.CONCAT_COST_PER_BYTE + Gen.MALLOC_COST_PER_BYTE),
      if b.length > 0 then (s.1 + b.length, arg :: s.2) else s)

theorem concatLoop_eq (m : Nat) : ∀ (l : List Val) (cost ts : Nat) (terms : List Val),
    concatLoop m l cost ts terms =
      (gLoop m concatStep l cost (ts, terms)).map (fun r => (r.1, r.2.1, r.2.2.reverse)) := by
  intro l
  induction l with
  | nil => intro cost ts terms; rfl
  | cons a t ih =>
    intro cost ts terms
    cases a with
    | pair _ _ => rfl
    | atom b i =>
      simp only [concatLoop, gLoop, concatStep, checkCost, Nat.add_assoc]
      by_cases hc : cost + (Gen.CONCAT_COST_PER_ARG + b.length * (Gen.CONCAT_COST_PER_BYTE + Gen.MALLOC_COST_PER_BYTE)) > m
      · simp only [hc, if_true]; rfl
      · simp only [hc, if_false]
        by_cases hb : b.length > 0
        · simp only [hb, if_true]; exact ih _ _ _
        · simp only [hb, if_false]; exact ih _ _ _

/-- the non-empty atoms -/
def nz (l : List Val) : List Val :=
  l.filter (fun v => match v with | .atom b _ => decide (b.length > 0) | _ => false)

/-- the bytes of a list of atoms, concatenated -/
def catV : List Val → Bytes
  | [] => []
  | .atom b _ :: t => b ++ catV t
  | .pair _ _ :: t => catV t

def concatU (s : Nat × List Val) (arg : Val) : Nat × List Val :=
  match arg with
  | .atom b _ => if b.length > 0 then (s.1 + b.length, arg :: s.2) else s
  | .pair _ _ => s

theorem concat_fold : ∀ (l : List Val) (bs : List Bytes), atomBytesOf l = some bs → ∀ (ts : Nat) (terms : List Val),
    l.foldl concatU (ts, terms) = (ts + sumLen bs, (nz l).reverse ++ terms) ∧ catV (nz l) = joinBytes bs ∧
    (∀ x ∈ nz l, ∃ b i, x = Val.atom b i) := by
  intro l
  induction l with
  | nil =>
    intro bs h ts terms
    simp only [atomBytesOf, Option.some.injEq] at h
    subst h
    exact ⟨rfl, rfl, by simp [nz]⟩
  | cons a t ih =>
    intro bs h ts terms
    cases a with
    | pair _ _ => simp [atomBytesOf] at h
    | atom b i =>
      simp only [atomBytesOf] at h
      cases ht : atomBytesOf t with
      | none => rw [ht] at h; simp at h
      | some bt =>
        rw [ht] at h
        simp only [Option.map_some, Option.some.injEq] at h
        subst h
        by_cases hb : b.length > 0
        · obtain ⟨h1, h2, h3⟩ := ih bt ht (ts + b.length) (Val.atom b i :: terms)
          refine ⟨?_, ?_, ?_⟩
          · simp only [List.foldl_cons, concatU, hb, if_true, h1, sumLen_cons, nz, List.filter_cons, decide_true,
              List.reverse_cons, List.append_assoc, List.cons_append, List.nil_append, Nat.add_assoc]
          · simp only [nz, List.filter_cons, hb, decide_true, if_true, catV, joinBytes_cons]
            rw [← h2]; rfl
          · intro x hx
            simp only [nz, List.filter_cons, hb, decide_true, if_true, List.mem_cons] at hx
            rcases hx with rfl | hx
            · exact ⟨b, i, rfl⟩
            · exact h3 x hx
        · obtain ⟨h1, h2, h3⟩ := ih bt ht ts terms
          have hb0 : b = [] := by cases b with | nil => rfl | cons _ _ => simp at hb
          subst hb0
          refine ⟨?_, ?_, ?_⟩
          · simp only [List.foldl_cons, concatU, List.length_nil, Nat.lt_irrefl, if_false, h1, sumLen_cons, nz,
              List.filter_cons, decide_false, Bool.false_eq_true, Nat.zero_add, gt_iff_lt]
          · simp only [nz, List.filter_cons, List.length_nil, gt_iff_lt, Nat.lt_irrefl, decide_false,
              Bool.false_eq_true, if_false, joinBytes_cons, List.nil_append]
            exact h2
          · intro x hx
            simp only [nz, List.filter_cons, List.length_nil, gt_iff_lt, Nat.lt_irrefl, decide_false,
              Bool.false_eq_true, if_false] at hx
            exact h3 x hx
theorem catFold (g : Except Err Bytes → Val → Except Err Bytes)
    (hg : ∀ a b i, g (.ok a) (.atom b i) = .ok (a ++ b))
    (L : List Val) (hL : ∀ x ∈ L, ∃ b i, x = Val.atom b i) : ∀ (acc : Bytes),
    L.foldl g (.ok acc) = .ok (acc ++ catV L) := by
  induction L with
  | nil => intro acc; simp [catV]
  | cons x t ih =>
    intro acc
    obtain ⟨b, i, rfl⟩ := hL x (by simp)
    simp only [List.foldl_cons, catV, hg]
    rw [ih (fun y hy => hL y (by simp [hy])), List.append_assoc]

/-- `new_concat` on a list of atoms with the exact size -/
theorem newConcat_cases (c : Ctr) (L : List Val) (hL : ∀ x ∈ L, ∃ b i, x = Val.atom b i)
    (hw : ∀ x ∈ L, x.wf = true) :
    (∃ v c', newConcat c (catV L).length L = .ok (v, c') ∧ v.erase = .atom (catV L) ∧ v.wf = true) ∨
    (∃ e, newConcat c (catV L).length L = .error e ∧ isLimit e = true) := by
  unfold newConcat Ctr.checkAtomLimit
  by_cases hlim : (c.atoms == Gen.maxNumAtoms) = true
  · right; exact ⟨.TooManyAtoms, by simp [hlim], rfl⟩
  · simp only [hlim, Bool.false_eq_true, if_false]
    by_cases hh : c.heap + (catV L).length > c.heapLimit
    · right; exact ⟨.OutOfMemory, by simp [hh], rfl⟩
    · left
      simp only [hh, if_false]
      match L, hL, hw with
      | [], _, _ => exact ⟨_, _, rfl, rfl, rfl⟩
      | [x], hL, hw =>
        obtain ⟨b, i, rfl⟩ := hL x (by simp)
        simp only [catV, List.append_nil, bne_self_eq_false, Bool.false_eq_true, if_false]
        exact ⟨_, _, rfl, rfl, hw _ (by simp)⟩
      | x :: y :: t, hL, _ =>
        simp only
        rw [catFold _ (fun _ _ _ => rfl) (x :: y :: t) hL []]
        simp only [List.nil_append, bne_self_eq_false, Bool.false_eq_true, if_false]
        exact ⟨_, _, rfl, rfl, rfl⟩

theorem opConcat_agree (m : Nat) (a : Val) (c : Ctr) (hw : a.wf = true) (hp : Proper a) :
    OpAgree m (Interp.opConcat 0 m a c) (Ref.opConcat a.erase) := by
  have hwl := argList_wf hw
  have href : Ref.opConcat a.erase = match atomBytesOf (argList a) with
      | none => .error .arg
      | some bs => Ref.mallocCost (bs.foldl (fun c _ => c + CONCAT_COST_PER_ARG) CONCAT_BASE_COST
              + (bs.foldl (fun acc b => acc ++ b) []).length * CONCAT_COST_PER_BYTE)
              (.atom (bs.foldl (fun acc b => acc ++ b) [])) := by
    unfold Ref.opConcat
    rw [atomsOf_proper hp]
    dsimp only
    rw [atomsOf_map_erase]
    cases atomBytesOf (argList a) <;> rfl
  rw [href]
  have hmodel : Interp.opConcat 0 m a c =
      thenK (gLoop m concatStep (argList a) Gen.CONCAT_BASE_COST (0, []))
        (fun r => match newConcat c r.2.1 r.2.2.reverse with
          | .error e => .error e
          | .ok (v, c') => .ok (r.1, v, c')) := by
    unfold Interp.opConcat
    rw [concatLoop_eq]
    simp only [thenK]
    cases gLoop m concatStep (argList a) Gen.CONCAT_BASE_COST (0, []) with
    | error e => rfl
    | ok r => rfl
  rw [hmodel]
  have hA : ∀ (s : Nat × List Val) (b : Bytes) (i : Bool), (Val.atom b i).wf = true →
      concatStep s (.atom b i) =
        .ok ((fun b => Gen.CONCAT_COST_PER_ARG + b.length * (Gen.CONCAT_COST_PER_BYTE + Gen.MALLOC_COST_PER_BYTE)) b,
          concatU s (.atom b i)) :=
    fun _ _ _ _ => rfl
  cases hab : atomBytesOf (argList a) with
  | none =>
    have hf : ∃ msg, gFold concatStep (argList a) Gen.CONCAT_BASE_COST (0, []) = .error (.InvalidOpArg msg) := by
      have : ∀ (l : List Val), atomBytesOf l = none → ∀ cost s, ∃ msg, gFold concatStep l cost s = .error (.InvalidOpArg msg) := by
        intro l
        induction l with
        | nil => intro h; simp [atomBytesOf] at h
        | cons x t ih =>
          intro h cost s
          cases x with
          | pair _ _ => exact ⟨_, rfl⟩
          | atom b i =>
            simp only [atomBytesOf] at h
            cases ht : atomBytesOf t with
            | some bt => rw [ht] at h; simp at h
            | none => simp only [gFold, concatStep]; exact ih ht _ _
      exact this _ hab _ _
    obtain ⟨msg, hf⟩ := hf
    dsimp only
    exact OpAgree.of_loop_err (gLoop_err m _ _ _ _ _ hf) rfl
  | some bs =>
    have hf := gFold_atomsV _ _ _ hA (argList a) bs hab hwl Gen.CONCAT_BASE_COST (0, [])
    obtain ⟨hfold, hcat, hatoms⟩ := concat_fold (argList a) bs hab 0 []
    rw [hfold] at hf
    obtain ⟨h1, h2⟩ := gLoop_ok m _ _ _ _ _ _ hf
    dsimp only
    rw [foldl_const, foldl_append_acc]
    simp only [List.nil_append, Nat.zero_add, List.append_nil] at h1 h2 ⊢
    have hlen := atomBytesOf_length _ _ hab
    have hjl := joinBytes_length bs
    have hcost : Gen.CONCAT_BASE_COST + sumW (fun b => Gen.CONCAT_COST_PER_ARG + b.length * (Gen.CONCAT_COST_PER_BYTE + Gen.MALLOC_COST_PER_BYTE)) bs
        = CONCAT_BASE_COST + bs.length * CONCAT_COST_PER_ARG + (joinBytes bs).length * CONCAT_COST_PER_BYTE
          + (joinBytes bs).length * MALLOC_COST_PER_BYTE := by
      rw [sumW_linear, hjl]
      simp only [Gen.CONCAT_BASE_COST, Gen.CONCAT_COST_PER_ARG, Gen.CONCAT_COST_PER_BYTE, Gen.MALLOC_COST_PER_BYTE,
        CONCAT_BASE_COST, CONCAT_COST_PER_ARG, CONCAT_COST_PER_BYTE, MALLOC_COST_PER_BYTE]
      omega
    rw [hcost] at h1 h2
    refine OpAgree.of_loop h1 h2 ?_ ?_
    · simp only [List.reverse_reverse, Ref.mallocCost]
      have hwn : ∀ x ∈ nz (argList a), x.wf = true := fun x hx => hwl x (List.mem_filter.1 hx).1
      have hsz : sumLen bs = (catV (nz (argList a))).length := by rw [hcat, hjl]
      rw [hsz]
      rcases newConcat_cases c (nz (argList a)) hatoms hwn with ⟨v, c', hn, hv, hvw⟩ | ⟨e, hn, hl⟩
      · rw [hn]
        rw [hcat] at hv
        exact OpAgree.ok hv hvw
      · rw [hn]; exact Or.inr (Or.inr ⟨e, rfl, hl⟩)
    · intro c0 t hc
      simp only [Ref.mallocCost, Except.ok.injEq, Prod.mk.injEq] at hc
      omega

end Clvm.Ref
