/-
`serialized_length_serde_2026` = bytes consumed by the decoder, whenever the decoder succeeds.
-/
import ClvmProofs.Lemmas.Serde2026De
import ClvmProofs.Lemmas.Serde2026Magic

namespace Clvm.Serde2026
open Clvm Clvm.Intern Clvm.Varint

theorem readVarint_length {strict : Bool} {inp rest : Bytes} {v : Int}
    (h : readVarint strict inp = .ok (v, rest)) : rest.length < inp.length := by
  unfold readVarint at h
  split at h
  · cases h
  · rename_i k u rest' hr
    simp only at h
    split at h
    · cases h
    · cases h
      unfold readRaw at hr
      split at hr
      · cases hr
      · simp only at hr
        split at hr
        · cases hr
        · split at hr
          · cases hr
          · cases hr
            simp only [List.length_drop, List.length_cons]
            omega

theorem runInstructions_len {atoms : List Bytes} {strict : Bool} :
    ∀ (n : Nat) (inp : Bytes) (s : DState) (inp' : Bytes) (s' : DState),
    runInstructions atoms strict n inp s = .ok (inp', s') →
      lenInstructions strict n inp = .ok inp' ∧ inp'.length ≤ inp.length := by
  intro n
  induction n with
  | zero => intro inp s inp' s' h; rw [runInstructions] at h; cases h; exact ⟨by rw [lenInstructions], Nat.le_refl _⟩
  | succ n ih =>
    intro inp s inp' s' h
    rw [runInstructions] at h
    split at h
    · cases h
    · rename_i inst inp1 hv
      split at h
      · cases h
      · obtain ⟨h1, h2⟩ := ih _ _ _ _ h
        have := readVarint_length hv
        refine ⟨?_, by omega⟩
        rw [lenInstructions, hv]
        exact h1

/-- the two shapes of a successfully read group header -/
theorem readGroupHeader_cases {mal : Nat} {strict : Bool} {inp inp' : Bytes} {length count : Nat}
    (h : readGroupHeader mal strict inp = .ok (length, count, inp')) :
    ∃ lv inp1, readVarint strict inp = .ok (lv, inp1) ∧
      ((lv < 0 ∧ (lv == -(2 : Int) ^ 63) = false ∧ checkedBoundedUsize (-lv) mal = .ok length ∧
          ∃ cv, readVarint strict inp1 = .ok (cv, inp') ∧ checkedUsize cv = .ok count) ∨
       (¬ lv < 0 ∧ checkedBoundedUsize lv mal = .ok length ∧ count = 1 ∧ inp' = inp1)) := by
  unfold readGroupHeader at h
  split at h
  · cases h
  · rename_i lv inp1 hv
    refine ⟨lv, inp1, hv, ?_⟩
    split at h
    · rename_i hneg
      split at h
      · cases h
      · rename_i hmin
        split at h
        · cases h
        · rename_i len hl
          split at h
          · cases h
          · rename_i cv inp2 hv2
            split at h
            · cases h
            · rename_i cnt hc
              cases h
              left
              exact ⟨hneg, by simpa using hmin, hl, cv, hv2, hc⟩
    · rename_i hneg
      split at h
      · cases h
      · rename_i len hl
        cases h
        right
        exact ⟨hneg, hl, rfl, rfl⟩

theorem readGroups_len {mal : Nat} {strict : Bool} {dataLen : Nat} (hd : dataLen < 2 ^ 64) :
    ∀ (n : Nat) (inp : Bytes) (ctr : Counters) (atoms : List Bytes) (inp' : Bytes) (c' : Counters) (a' : List Bytes),
    inp.length ≤ dataLen →
    readGroups mal strict n inp ctr atoms = .ok (inp', c', a') →
      lenGroups mal strict dataLen n inp = .ok inp' ∧ inp'.length ≤ inp.length := by
  intro n
  induction n with
  | zero =>
    intro inp ctr atoms inp' c' a' _ h
    rw [readGroups] at h; cases h
    exact ⟨by rw [lenGroups], Nat.le_refl _⟩
  | succ n ih =>
    intro inp ctr atoms inp' c' a' hlen h
    rw [readGroups] at h
    split at h
    · cases h
    · rename_i length count inp1 hh
      split at h
      · cases h
      · rename_i hz
        split at h
        · cases h
        · rename_i inp2 ctr2 atoms2 hra
          obtain ⟨hmul, hdrop⟩ := readAtoms_ok _ _ _ _ _ _ _ hra
          obtain ⟨lv, inpA, hv, hcase⟩ := readGroupHeader_cases hh
          have hvl := readVarint_length hv
          have hz' : ¬ (length = 0 ∨ count = 0) := by simpa using hz
          rcases hcase with ⟨hneg, hmin, hl, cv, hv2, hc⟩ | ⟨hneg, hl, hc1, hi⟩
          · have hv2l := readVarint_length hv2
            have hinp2 : inp2.length ≤ dataLen := by rw [hdrop]; simp; omega
            obtain ⟨r1, r2⟩ := ih inp2 ctr2 atoms2 inp' c' a' hinp2 h
            refine ⟨?_, by rw [hdrop] at r2; simp at r2; omega⟩
            rw [lenGroups, hv]
            simp only [hneg, if_true, hmin, Bool.false_eq_true, if_false, hl, hv2, hc]
            have e1 : (length == 0 || count == 0) = false := by
              simp; omega
            have e2 : ¬ (length * count ≥ 2 ^ 64) := by omega
            simp only [e1, Bool.false_eq_true, if_false, e2]
            have e3 : ¬ (dataLen - inp1.length + length * count ≥ 2 ^ 64) := by omega
            have e4 : ¬ (dataLen - inp1.length + length * count > dataLen) := by omega
            simp only [e3, e4, if_false]
            rw [← hdrop]; exact r1
          · subst hc1 hi
            simp only [Nat.mul_one] at hmul hdrop
            have hinp2 : inp2.length ≤ dataLen := by rw [hdrop]; simp; omega
            obtain ⟨r1, r2⟩ := ih inp2 ctr2 atoms2 inp' c' a' hinp2 h
            refine ⟨?_, by rw [hdrop] at r2; simp at r2; omega⟩
            rw [lenGroups, hv]
            simp only [hneg, if_false, hl]
            have e1 : (length == 0) = false := by simp; omega
            simp only [e1, Bool.false_eq_true, if_false]
            have e3 : ¬ (dataLen - inp1.length + length ≥ 2 ^ 64) := by omega
            have e4 : ¬ (dataLen - inp1.length + length > dataLen) := by omega
            simp only [e3, e4, if_false]
            rw [← hdrop]; exact r1

/-- **probe = bytes consumed** for the prefix-framed decoder -/
theorem len_eq_consumed {ctr c' : Counters} {inp rest : Bytes} {mal : Nat} {strict : Bool}
    {t : Tree} (hlen : inp.length < 2 ^ 64)
    (h : deserializeFromStream ctr inp mal strict = .ok (t, rest, c')) :
    serializedLength2026 inp mal strict = .ok (inp.length - rest.length) := by
  unfold deserializeFromStream at h
  split at h
  · cases h
  · rename_i hl6
    split at h
    · cases h
    · rename_i hmagic
      have hm : (inp.take magic.length != magic) = false := by simpa using hmagic
      unfold deserializeBody at h
      split at h
      · cases h
      · rename_i gc inp1 hv1
        split at h
        · cases h
        · rename_i groupCount hgc
          split at h
          · cases h
          · rename_i inp2 ctr2 atoms hrg
            split at h
            · cases h
            · rename_i ic inp3 hv3
              split at h
              · cases h
              · rename_i instructionCount hic
                split at h
                · cases h
                · rename_i hnz
                  split at h
                  · cases h
                  · rename_i inp4 s hrun
                    split at h
                    · cases h
                    · split at h
                      · cases h
                      · cases h
                        have l1 := readVarint_length hv1
                        have hdl : (inp.drop magic.length).length < 2 ^ 64 := by simp; omega
                        obtain ⟨g1, g2⟩ := readGroups_len hdl _ _ _ _ _ _ _ (by omega) hrg
                        have l3 := readVarint_length hv3
                        obtain ⟨i1, i2⟩ := runInstructions_len _ _ _ _ _ hrun
                        unfold serializedLength2026
                        simp only [hm, Bool.false_eq_true, if_false, hv1, hgc, g1, hv3, hic, hnz, i1]
                        congr 1
                        simp only [List.length_drop] at *
                        omega
end Clvm.Serde2026
