/-
Lemmas about `traverse_path` and `traverse_path_with_vec` (C18):

* `stackTree`: the decoder's `Vec` stack as the CLVM list the legacy decoder keeps
* `Sim`: "same outcome up to the error kind of a failed back-reference"
* the two bit loops are in lock step (`tpvLoop_sim`)
* `materialise` builds exactly the stack list, keeps the cache invariant and pair-count parity
* `traversePathWithVec_sim`: `traverse_path_with_vec` = `traverse_path` on the list stack
* fuel sufficiency of the bit loop (`tpLoop_noPanic`)
-/
import ClvmModel.Serde.Backref

namespace Clvm.Backref
open Clvm Clvm.Serde.Backref Clvm.Serde.TraversePath

/-- the decoder stack `[x0, …, xk]` (index order) as the list `(xk . (… (x0 . nil)))` built on `acc` -/
def stackTreeFrom (acc : Tree) (vals : List Tree) : Tree := vals.foldl (fun a x => Tree.pair x a) acc

/-- the whole stack as a CLVM list -/
def stackTree (vals : List Tree) : Tree := stackTreeFrom Tree.nil vals

theorem stackTreeFrom_append (acc : Tree) (xs ys : List Tree) :
    stackTreeFrom acc (xs ++ ys) = stackTreeFrom (stackTreeFrom acc xs) ys := by
  simp [stackTreeFrom, List.foldl_append]

theorem stackTree_snoc (xs : List Tree) (a : Tree) : stackTree (xs ++ [a]) = Tree.pair a (stackTree xs) := by
  simp [stackTree, stackTreeFrom, List.foldl_append]

/-- error kinds up to which the two decoders agree: a failed back-reference is
`PathIntoAtom` in `traverse_path` and `SerializationBackreferenceError` in
`traverse_path_with_vec`; panic messages are not compared. -/
def normErr : Err → Err
  | .PathIntoAtom => .SerializationBackreferenceError
  | .Panic _ => .Panic ""
  | e => e

/-- both fail with the same (normalised) error, or both succeed with related results -/
inductive Sim {α β : Type} (R : α → β → Prop) : Except Err α → Except Err β → Prop
  | ok {a b} : R a b → Sim R (.ok a) (.ok b)
  | err {e1 e2} : normErr e1 = normErr e2 → Sim R (.error e1) (.error e2)

theorem Sim.err_same {α β : Type} {R : α → β → Prop} (e : Err) : Sim R (.error e) (.error e) := .err rfl

/-- no panic outcome -/
def NoPanic {α : Type} : Except Err α → Prop
  | .error (.Panic _) => False
  | _ => True

theorem Sim.noPanic {α β : Type} {R : α → β → Prop} {x : Except Err α} {y : Except Err β}
    (h : Sim R x y) (hy : NoPanic y) : NoPanic x := by
  cases h with
  | ok _ => trivial
  | err he =>
    rename_i e1 e2
    cases e1 <;> cases e2 <;> simp_all [normErr, NoPanic]

/-- observable outcome of a computation: its result under `f`, errors up to `normErr` -/
def outcome {α β : Type} (f : α → β) (x : Except Err α) : Except Err β :=
  match x with
  | .ok a => .ok (f a)
  | .error e => .error (normErr e)

theorem outcome_eq_of_sim {α β γ : Type} {R : α → β → Prop} {x : Except Err α} {y : Except Err β}
    (f : α → γ) (g : β → γ) (h : Sim R x y) (hfg : ∀ a b, R a b → f a = g b) :
    outcome f x = outcome g y := by
  cases h with
  | ok hr => simp [outcome, hfg _ _ hr]
  | err he => simp [outcome, he]

/-! ### the bit loops in lock step -/

/-- state of `traverse_path_with_vec` ↔ state of `traverse_path` on the list stack -/
def Corr (args : List Entry) (st : VecState) (t : Tree) : Prop :=
  match st with
  | (true, _, sp) => t = sp
  | (false, ai, sp) => ai < args.length ∧ sp = Tree.nil ∧ t = stackTree ((args.take (ai + 1)).map Prod.fst)

theorem take_succ_map_fst (args : List Entry) (ai : Nat) (x : Entry) (h : args[ai]? = some x) :
    (args.take (ai + 1)).map Prod.fst = (args.take ai).map Prod.fst ++ [x.1] := by
  rw [List.take_add_one, h]; simp

theorem tpvLoop_sim (idx : Bytes) (first lastMask : Nat) (args : List Entry) :
    ∀ (fuel byteIdx bitmask : Nat) (ps : Bool) (ai : Nat) (sp t : Tree) (cost : Nat),
      Corr args (ps, ai, sp) t →
      Sim (fun st r => Corr args st r.2)
        (tpvLoop idx first lastMask args fuel byteIdx bitmask ps ai sp)
        (tpLoop idx first lastMask fuel byteIdx bitmask t cost) := by
  intro fuel
  induction fuel with
  | zero => intros; exact .err rfl
  | succ fuel ih =>
    intro byteIdx bitmask ps ai sp t cost hc
    unfold tpvLoop tpLoop
    by_cases hcond : byteIdx > first ∨ bitmask < lastMask
    · simp only [hcond, if_true]
      cases hb : idx[byteIdx]? with
      | none => exact .err rfl
      | some b =>
        simp only []
        cases ps with
        | true =>
          simp only [Corr] at hc
          subst hc
          cases t with
          | atom a => exact .err rfl
          | pair l r =>
            simp only [if_true]
            by_cases h80 : (bitmask == 0x80) = true
            · simp only [h80, if_true]
              by_cases h0 : (byteIdx == 0) = true
              · simp only [h0, if_true]; exact .err rfl
              · simp only [h0]; exact ih _ _ _ _ _ _ _ (by simp [Corr])
            · simp only [h80]; exact ih _ _ _ _ _ _ _ (by simp [Corr])
        | false =>
          obtain ⟨hlt, hsp, ht⟩ := hc
          have hx : args[ai]? = some args[ai] := List.getElem?_eq_getElem hlt
          rw [take_succ_map_fst args ai _ hx, stackTree_snoc] at ht
          subst ht
          by_cases hbit : ((b.toNat &&& bitmask) != 0) = true
          · -- `rest`: stay on the vector
            simp only [hbit, if_true, Bool.false_eq_true, if_false]
            by_cases hai : (ai == 0) = true
            · have : ai = 0 := by simpa using hai
              subst this
              simp only [hai, if_true]
              have hc' : Corr args (true, 0, sp) (stackTree ((args.take 0).map Prod.fst)) := by
                simp [Corr, stackTree, stackTreeFrom, hsp, Tree.nil]
              by_cases h80 : (bitmask == 0x80) = true
              · simp only [h80, if_true]
                by_cases h0 : (byteIdx == 0) = true
                · simp only [h0, if_true]; exact .err rfl
                · simp only [h0]; exact ih _ _ _ _ _ _ _ hc'
              · simp only [h80]; exact ih _ _ _ _ _ _ _ hc'
            · simp only [hai]
              have hai' : ai ≠ 0 := by simpa using hai
              have hc' : Corr args (false, ai - 1, sp) (stackTree ((args.take ai).map Prod.fst)) := by
                refine ⟨by omega, hsp, ?_⟩
                have : ai - 1 + 1 = ai := by omega
                rw [this]
              by_cases h80 : (bitmask == 0x80) = true
              · simp only [h80, if_true]
                by_cases h0 : (byteIdx == 0) = true
                · simp only [h0, if_true]; exact .err rfl
                · simp only [h0]; exact ih _ _ _ _ _ _ _ hc'
              · simp only [h80]; exact ih _ _ _ _ _ _ _ hc'
          · -- `first`: continue inside the item
            simp only [hbit, Bool.false_eq_true, if_false, hx]
            have hc' : Corr args (true, ai, args[ai].1) args[ai].1 := by simp [Corr]
            by_cases h80 : (bitmask == 0x80) = true
            · simp only [h80, if_true]
              by_cases h0 : (byteIdx == 0) = true
              · simp only [h0, if_true]; exact .err rfl
              · simp only [h0]; exact ih _ _ _ _ _ _ _ hc'
            · simp only [h80]; exact ih _ _ _ _ _ _ _ hc'
    · simp only [hcond, if_false]
      exact .ok hc

/-! ### `materialise`: the lazily built stack list -/

/-- every cached list is the stack list up to and including its entry (`acc` = list below) -/
def CacheOk : Tree → List Entry → Prop
  | _, [] => True
  | acc, (v, o) :: xs => (∀ p, o = some p → p = Tree.pair v acc) ∧ CacheOk (Tree.pair v acc) xs

/-- number of entries without a cached list (each still owns a ghost pair) -/
def unc : List Entry → Nat
  | [] => 0
  | (_, none) :: xs => unc xs + 1
  | (_, some _) :: xs => unc xs

/-- the allocator's pair invariant -/
def PairInv (c : Ctr) : Prop := c.pairs + c.ghostPairs ≤ Gen.maxNumPairs

/-- counters that differ only in how the same pair total is split into real and ghost pairs -/
def SameTotals (c c' : Ctr) : Prop :=
  c'.pairs + c'.ghostPairs = c.pairs + c.ghostPairs ∧ c'.atoms = c.atoms ∧ c'.heap = c.heap ∧
    c'.heapLimit = c.heapLimit

theorem SameTotals.refl (c : Ctr) : SameTotals c c := ⟨rfl, rfl, rfl, rfl⟩

theorem CacheOk_append (acc : Tree) (xs ys : List Entry) :
    CacheOk acc (xs ++ ys) ↔ CacheOk acc xs ∧ CacheOk (stackTreeFrom acc (xs.map Prod.fst)) ys := by
  induction xs generalizing acc with
  | nil => simp [CacheOk, stackTreeFrom]
  | cons x xs ih =>
    obtain ⟨v, o⟩ := x
    simp only [List.cons_append, CacheOk, ih, List.map_cons, stackTreeFrom, List.foldl_cons, and_assoc]

theorem unc_append (xs ys : List Entry) : unc (xs ++ ys) = unc xs + unc ys := by
  induction xs with
  | nil => simp [unc]
  | cons x xs ih =>
    obtain ⟨v, o⟩ := x
    cases o <;> simp [unc, ih] <;> omega

theorem materialise_spec : ∀ (xs : List Entry) (n : Nat) (acc : Tree) (c : Ctr),
    CacheOk acc xs → unc xs ≤ c.ghostPairs → PairInv c →
    ∃ xs' c', materialise xs n acc c = .ok (xs', stackTreeFrom acc ((xs.take n).map Prod.fst), c') ∧
      xs'.map Prod.fst = xs.map Prod.fst ∧ CacheOk acc xs' ∧ unc xs' ≤ c'.ghostPairs ∧ PairInv c' ∧
      SameTotals c c' := by
  intro xs
  induction xs with
  | nil =>
    intro n acc c _ hu hp
    cases n <;> exact ⟨[], c, by simp [materialise, stackTreeFrom], rfl, trivial, hu, hp, SameTotals.refl c⟩
  | cons x xs ih =>
    intro n acc c hc hu hp
    obtain ⟨v, o⟩ := x
    cases n with
    | zero => exact ⟨_, c, by simp [materialise, stackTreeFrom], rfl, hc, hu, hp, SameTotals.refl c⟩
    | succ n =>
      cases o with
      | some p =>
        obtain ⟨hp1, hc2⟩ := hc
        have hpe := hp1 p rfl
        subst hpe
        obtain ⟨xs', c', h1, h2, h3, h4, h5, h6⟩ := ih n (Tree.pair v acc) c hc2 (by simpa [unc] using hu) hp
        refine ⟨(v, some (Tree.pair v acc)) :: xs', c', ?_, ?_, ?_, ?_, h5, h6⟩
        · simp [materialise, h1, stackTreeFrom]
        · simp [h2]
        · exact ⟨fun _ h => by cases h; rfl, h3⟩
        · simpa [unc] using h4
      | none =>
        obtain ⟨_, hc2⟩ := hc
        have hu' : unc xs + 1 ≤ c.ghostPairs := by simpa [unc] using hu
        unfold PairInv at hp
        let c2 : Ctr := { c with ghostPairs := c.ghostPairs - 1, pairs := c.pairs + 1 }
        have hrm : c.removeGhostPair 1 = .ok { c with ghostPairs := c.ghostPairs - 1 } := by
          unfold Ctr.removeGhostPair
          rw [if_neg (by omega)]
        have hnp : Ctr.newPair { c with ghostPairs := c.ghostPairs - 1 } = .ok c2 := by
          unfold Ctr.newPair
          simp only []
          rw [if_neg (by omega), if_neg (by omega)]
        obtain ⟨xs', c', h1, h2, h3, h4, h5, h6⟩ :=
          ih n (Tree.pair v acc) c2 hc2 (by show unc xs ≤ c.ghostPairs - 1; omega)
            (by show c.pairs + 1 + (c.ghostPairs - 1) ≤ _; omega)
        refine ⟨(v, some (Tree.pair v acc)) :: xs', c', ?_, ?_, ?_, ?_, h5, ?_⟩
        · simp [materialise, hrm, hnp, h1, stackTreeFrom]
        · simp [h2]
        · exact ⟨fun _ h => by cases h; rfl, h3⟩
        · simpa [unc] using h4
        · obtain ⟨a, b, d, e⟩ := h6
          refine ⟨?_, b, d, e⟩
          have : c2.pairs + c2.ghostPairs = c.pairs + c.ghostPairs := by
            show c.pairs + 1 + (c.ghostPairs - 1) = _; omega
          omega

/-! ### `traverse_path_with_vec` = `traverse_path` on the list stack -/

/-- what `traverse_path_with_vec` leaves behind, relative to its inputs -/
def VecPost (args : List Entry) (c : Ctr) (r : Tree × List Entry × Ctr) : Prop :=
  r.2.1.map Prod.fst = args.map Prod.fst ∧ CacheOk Tree.nil r.2.1 ∧ unc r.2.1 ≤ r.2.2.ghostPairs ∧
    PairInv r.2.2 ∧ SameTotals c r.2.2

theorem traversePathWithVec_sim (idx : Bytes) (args : List Entry) (c : Ctr)
    (hc : CacheOk Tree.nil args) (hu : unc args ≤ c.ghostPairs) (hp : PairInv c) :
    Sim (fun r q => r.1 = q.2 ∧ VecPost args c r)
      (traversePathWithVec idx args c) (traversePath idx (stackTree (args.map Prod.fst))) := by
  have hpost0 : VecPost args c (Tree.nil, args, c) := ⟨rfl, hc, hu, hp, SameTotals.refl c⟩
  unfold traversePathWithVec traversePath
  simp only []
  by_cases hf : firstNonZero idx ≥ idx.length
  · simp only [hf, if_true]
    exact .ok ⟨rfl, hpost0⟩
  · simp only [hf, if_false]
    cases hfb : idx[firstNonZero idx]? with
    | none => exact .err rfl
    | some fb =>
      simp only []
      have hinit : Corr args (args.isEmpty, (if args.isEmpty = true then 0 else args.length - 1), Tree.nil)
          (stackTree (args.map Prod.fst)) := by
        cases args with
        | nil => simp [Corr, stackTree, stackTreeFrom, Tree.nil]
        | cons a as =>
          have hl : (a :: as).length - 1 + 1 = (a :: as).length := by simp
          show Corr (a :: as) (false, (a :: as).length - 1, Tree.nil) _
          exact ⟨by simp, rfl, by rw [hl, List.take_length]⟩
      have hs := tpvLoop_sim idx (firstNonZero idx) (msbMask fb.toNat) args (loopFuel idx) (idx.length - 1) 1
        args.isEmpty _ Tree.nil _
        (Gen.traverseBaseCost + firstNonZero idx * Gen.traverseCostPerZeroByte + Gen.traverseCostPerBit) hinit
      revert hs
      generalize tpvLoop idx (firstNonZero idx) (msbMask fb.toNat) args (loopFuel idx) (idx.length - 1) 1
        args.isEmpty _ Tree.nil = X
      generalize tpLoop idx (firstNonZero idx) (msbMask fb.toNat) (loopFuel idx) (idx.length - 1) 1
        (stackTree (args.map Prod.fst)) _ = Y
      intro hs
      cases hs with
      | err he => exact .err he
      | ok hR =>
        rename_i st q
        obtain ⟨ps, ai, sp⟩ := st
        cases ps with
        | true =>
          simp only [Corr] at hR
          simp only [if_true]
          exact .ok ⟨hR.symm, hpost0⟩
        | false =>
          obtain ⟨_, _, ht⟩ := hR
          simp only [Bool.false_eq_true, if_false]
          obtain ⟨xs', c', h1, h2, h3, h4, h5, h6⟩ := materialise_spec args (ai + 1) Tree.nil c hc hu hp
          rw [h1]
          exact .ok ⟨by simpa [stackTree] using ht.symm, h2, h3, h4, h5, h6⟩

end Clvm.Backref
