/-
Totality of the classic decoders: no input makes `node_from_stream`,
`serialized_length_from_bytes_trusted` or `is_canonical_serialization` reach a panic site
(`values.pop().unwrap()`, the `debug_assert!` of `decode_size_with_offset`, the `min_value`
table lookup) and the fuel of the model's loops always suffices.
-/
import ClvmProofs.Lemmas.ClassicCanon
set_option linter.unusedSimpArgs false
namespace Clvm.Serde.Classic

/-- the value stack never underflows: processing `ops` starting with `c` values -/
def okStack : List ParseOp → Nat → Prop
  | [], c => 1 ≤ c
  | .sexp :: ops, c => okStack ops (c + 1)
  | .cons :: ops, c => 2 ≤ c ∧ okStack ops (c - 1)

theorem parseAtomPtr_nopanic (inp : Bytes) (b : UInt8) (m : String) :
    parseAtomPtr inp b ≠ .error (.Panic m) := by
  intro h
  unfold parseAtomPtr decodeSize at h
  by_cases h7 : b.toNat ≤ MAX_SINGLE_BYTE
  · simp [h7] at h
  · simp only [h7, if_false] at h
    have hnp := decode_nopanic inp b.toNat (by simp [MAX_SINGLE_BYTE] at h7; omega) (u8_lt b) m
    cases hd : decodeSizeWithOffset inp b.toNat with
    | error e => rw [hd] at h; simp at h; subst h; exact hnp hd
    | ok r =>
      obtain ⟨off, size⟩ := r
      rw [hd] at h
      simp only at h
      split at h <;> cases h

theorem parseAtom_nopanic (inp : Bytes) (b : UInt8) (m : String) :
    parseAtom inp b ≠ .error (.Panic m) := by
  intro h
  unfold parseAtom at h
  split at h
  · cases h
  split at h
  · cases h
  cases hp : parseAtomPtr inp b with
  | error e => rw [hp] at h; simp at h; subst h; exact parseAtomPtr_nopanic inp b m hp
  | ok r => rw [hp] at h; cases h

theorem nodeFromStream_nopanic (inp : Bytes) (ops : List ParseOp) (vals : List Tree)
    (h : okStack ops vals.length) (m : String) : nodeFromStream inp ops vals ≠ .error (.Panic m) := by
  fun_induction nodeFromStream inp ops vals with
  | case1 inp v vs => simp
  | case2 inp => simp [okStack] at h
  | case3 vals ops' => simp
  | case4 vals ops' b rest hb ih =>
    apply ih
    simp only [okStack] at h ⊢
    exact ⟨by omega, by simpa using h⟩
  | case5 vals ops' b rest hb e he =>
    intro hc; cases hc; exact parseAtom_nopanic rest b m he
  | case6 vals ops' b rest hb n t he ih =>
    apply ih
    simpa [okStack] using h
  | case7 inp ops' v2 v1 vs ih =>
    apply ih
    simp only [okStack, List.length_cons] at h ⊢
    have := h.2
    simpa using this
  | case8 inp vals ops' hne =>
    simp only [okStack] at h
    match vals, hne, h with
    | [], _, h => simp at h
    | [_], _, h => simp at h
    | v2 :: v1 :: vs, hne, _ => exact absurd rfl (hne v2 v1 vs)


theorem decodeSize_nopanic_of (inp : Bytes) (b : UInt8) (h : ¬ b.toNat ≤ 0x7f) (m : String) :
    decodeSize inp b.toNat ≠ .error (.Panic m) :=
  decode_nopanic inp b.toNat (by omega) (u8_lt b) m

theorem lenTrusted_nopanic (fuel : Nat) : ∀ (buf : Bytes) (pos c : Nat), pos ≤ buf.length →
    buf.length - pos < fuel → ∀ m, lenTrusted buf pos c fuel ≠ .error (.Panic m) := by
  induction fuel with
  | zero => intro buf pos c _ h; omega
  | succ fuel ih =>
    intro buf pos c hp hf m
    rw [lenTrusted]
    by_cases hc : (c == 0) = true
    · simp [hc]
    simp only [hc, Bool.false_eq_true, if_false]
    cases hd : buf.drop pos with
    | nil => simp
    | cons b rest =>
      have hlen := length_of_drop_eq hd (by simp)
      simp only [List.length_cons] at hlen
      simp only
      by_cases hff : (b.toNat == CONS_BOX_MARKER) = true
      · simp only [hff, if_true]
        exact ih buf (pos + 1) _ (by omega) (by omega) m
      simp only [hff, Bool.false_eq_true, if_false]
      by_cases hfe : (b.toNat == BACK_REFERENCE) = true
      · simp only [hfe, if_true]
        cases rest with
        | nil => simp
        | cons fb rest' =>
          simp only
          by_cases h7 : fb.toNat > MAX_SINGLE_BYTE
          · simp only [h7, if_true]
            cases hds : decodeSize rest' fb.toNat with
            | error e =>
              simp only
              intro he; cases he
              exact decodeSize_nopanic_of rest' fb (by simp [MAX_SINGLE_BYTE] at h7; omega) m hds
            | ok r =>
              obtain ⟨off, ps⟩ := r
              simp only
              split
              · simp
              · exact ih buf _ _ (by omega) (by omega) m
          · simp only [h7, if_false]
            exact ih buf _ _ (by simp only [List.length_cons] at hlen; omega)
              (by simp only [List.length_cons] at hlen; omega) m
      simp only [hfe, Bool.false_eq_true, if_false]
      by_cases h8 : (b.toNat == 0x80 || decide (b.toNat ≤ MAX_SINGLE_BYTE)) = true
      · simp only [h8, if_true]
        exact ih buf _ _ (by omega) (by omega) m
      simp only [h8, Bool.false_eq_true, if_false]
      cases hds : decodeSize rest b.toNat with
      | error e =>
        simp only
        intro he; cases he
        have h7 : ¬ b.toNat ≤ 0x7f := by
          intro h7; apply h8; simp [MAX_SINGLE_BYTE, h7]
        exact decodeSize_nopanic_of rest b h7 m hds
      | ok r =>
        obtain ⟨off, ps⟩ := r
        simp only
        split
        · simp
        · exact ih buf _ _ (by omega) (by omega) m


theorem isCanonicalAtom_facts (buf : Bytes) (pos : Nat) (f : UInt8) :
    (∀ m, isCanonicalAtom buf pos f.toNat ≠ .error (.Panic m)) ∧
    (∀ p', isCanonicalAtom buf pos f.toNat = .ok (some p') → pos ≤ p') := by
  unfold isCanonicalAtom
  by_cases hc : (f.toNat == 0x80 || decide (f.toNat ≤ MAX_SINGLE_BYTE)) = true
  · simp only [hc, if_true]
    exact ⟨by simp, by intro p' h; simp at h; omega⟩
  simp only [hc, Bool.false_eq_true, if_false]
  have h7 : ¬ f.toNat ≤ 0x7f := by
    intro h7; apply hc; simp [MAX_SINGLE_BYTE, h7]
  cases hd : decodeSizeWithOffset (buf.drop pos) f.toNat with
  | error e =>
    have hnp := decode_nopanic (buf.drop pos) f.toNat (by omega) (u8_lt f)
    cases e <;> first | (exact absurd hd (hnp _)) | simp
  | ok r =>
    obtain ⟨k, n⟩ := r
    obtain ⟨hk1, hk6, _⟩ := decode_inv _ _ _ _ hd
    have hnot : ¬ (k < 1 ∨ k > 6) := by omega
    simp only [hnot, if_false]
    constructor
    · intro m
      repeat' split
      all_goals simp
    · intro p'
      repeat' split
      all_goals (intro h; simp at h; try omega)

theorem isCanonicalGo_nopanic (fuel : Nat) : ∀ (buf : Bytes) (pos c : Nat), pos ≤ buf.length →
    buf.length - pos < fuel → ∀ m, isCanonicalGo buf pos c fuel ≠ .error (.Panic m) := by
  induction fuel with
  | zero => intro buf pos c _ h; omega
  | succ fuel ih =>
    intro buf pos c hp hf m
    rw [isCanonicalGo]
    by_cases hc : (c == 0) = true
    · simp [hc]
    simp only [hc, Bool.false_eq_true, if_false]
    cases hd : buf.drop pos with
    | nil => simp
    | cons b rest =>
      have hlen := length_of_drop_eq hd (by simp)
      simp only [List.length_cons] at hlen
      simp only
      by_cases hff : (b.toNat == CONS_BOX_MARKER) = true
      · simp only [hff, if_true]
        split
        · simp
        · exact ih buf (pos + 1) _ (by omega) (by omega) m
      simp only [hff, Bool.false_eq_true, if_false]
      by_cases hfe : (b.toNat == BACK_REFERENCE) = true
      · simp only [hfe, if_true]
        cases rest with
        | nil => simp
        | cons b2 rest' =>
          simp only [List.length_cons] at hlen
          simp only
          obtain ⟨hnp, hmono⟩ := isCanonicalAtom_facts buf (pos + 1 + 1) b2
          cases hca : isCanonicalAtom buf (pos + 1 + 1) b2.toNat with
          | error e => simp only; intro he; cases he; exact hnp m hca
          | ok r =>
            cases r with
            | none => simp
            | some p' =>
              have := hmono p' hca
              simp only
              split
              · simp
              · exact ih buf p' _ (by omega) (by omega) m
      simp only [hfe, Bool.false_eq_true, if_false]
      obtain ⟨hnp, hmono⟩ := isCanonicalAtom_facts buf (pos + 1) b
      cases hca : isCanonicalAtom buf (pos + 1) b.toNat with
      | error e => simp only; intro he; cases he; exact hnp m hca
      | ok r =>
        cases r with
        | none => simp
        | some p' =>
          have := hmono p' hca
          simp only
          split
          · simp
          · exact ih buf p' _ (by omega) (by omega) m


theorem parseAtom_below (inp : Bytes) (b : UInt8) (n : Nat) (t : Tree)
    (h : parseAtom inp b = .ok (n, t)) : t.atomsBelow (2 ^ 34) := by
  unfold parseAtom at h
  split at h
  · cases h; simp [Tree.atomsBelow]
  split at h
  · cases h; simp [Tree.atomsBelow]
  cases hp : parseAtomPtr inp b with
  | error e => rw [hp] at h; cases h
  | ok r =>
    obtain ⟨n', blob⟩ := r
    rw [hp] at h
    simp only [Except.ok.injEq, Prod.mk.injEq] at h
    obtain ⟨rfl, rfl⟩ := h
    unfold parseAtomPtr decodeSize at hp
    split at hp
    · cases hp; simp [Tree.atomsBelow]
    cases hd : decodeSizeWithOffset inp b.toNat with
    | error e => rw [hd] at hp; cases hp
    | ok r =>
      obtain ⟨off, size⟩ := r
      rw [hd] at hp
      obtain ⟨_, _, _, hn, _⟩ := decode_inv _ _ _ _ hd
      simp only at hp
      split at hp
      · cases hp
      · cases hp
        simp only [Tree.atomsBelow, List.length_take]
        omega

theorem nodeFromStream_below (inp : Bytes) (ops : List ParseOp) (vals : List Tree) (T : Tree) (R : Bytes)
    (hv : ∀ v ∈ vals, v.atomsBelow (2 ^ 34)) (h : nodeFromStream inp ops vals = .ok (T, R)) :
    T.atomsBelow (2 ^ 34) := by
  fun_induction nodeFromStream inp ops vals with
  | case1 inp v vs => cases h; exact hv _ (by simp)
  | case2 inp => cases h
  | case3 vals ops' => cases h
  | case4 vals ops' b rest hb ih => exact ih hv h
  | case5 vals ops' b rest hb e he => cases h
  | case6 vals ops' b rest hb n t he ih =>
    apply ih _ h
    intro v hv'
    simp only [List.mem_cons] at hv'
    rcases hv' with rfl | hv'
    · exact parseAtom_below _ _ _ _ he
    · exact hv v hv'
  | case7 inp ops' v2 v1 vs ih =>
    apply ih _ h
    intro v hv'
    simp only [List.mem_cons] at hv'
    rcases hv' with rfl | hv'
    · exact ⟨hv v1 (by simp), hv v2 (by simp)⟩
    · exact hv v (by simp [hv'])
  | case8 inp vals ops' hne => cases h

end Clvm.Serde.Classic
