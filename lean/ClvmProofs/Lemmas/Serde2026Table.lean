/-
serde_2026: the atom-table side of the serializer.

* `sortAtoms`: the sorted index list is a permutation of `0..atom_count`, `sorted_no_nil` is that list
  without the index of the empty atom, `atom_remap` maps an old index to its position.
* `groupAtoms` / `writeAtomTable`: the groups are of the shape the decoder accepts (`GroupOK`) and
  their concatenation is `sorted_no_nil` mapped through the atom table.
* `atomInstruction`: the instruction pushed for atom `k` makes the decoder push `atoms[k]`.
* `nodeToIndex` / `pairIndices` / `SerializerState.ofInterned`: what a successful construction returns.
-/
import ClvmProofs.Lemmas.Serde2026Emit

namespace Clvm.Serde2026
open Clvm Clvm.Intern Clvm.Varint

/-- `tree.atoms[k]` with a default (all uses are in range) -/
def atomAt (A : List Bytes) (k : Nat) : Bytes := (A[k]?).getD []

theorem atomAt_eq {A : List Bytes} {k : Nat} {b : Bytes} (h : A[k]? = some b) : atomAt A k = b := by
  unfold atomAt; rw [h]; rfl

/-! ### sums -/

theorem sum_filter_le (f : Nat → Nat) (p : Nat → Bool) (l : List Nat) :
    ((l.filter p).map f).sum ≤ (l.map f).sum := by
  induction l with
  | nil => simp
  | cons a tl ih =>
    rw [List.filter_cons]
    split
    · simp only [List.map_cons, List.sum_cons]; omega
    · simp only [List.map_cons, List.sum_cons]; omega

theorem map_atomAt_range (A : List Bytes) : (List.range A.length).map (atomAt A) = A := by
  apply List.ext_getElem?
  intro i
  rw [List.getElem?_map]
  by_cases h : i < A.length
  · rw [List.getElem?_range h]; simp [h, atomAt]
  · rw [List.getElem?_eq_none (by simp; omega), List.getElem?_eq_none (by omega)]; rfl

/-! ### `sort_atoms` -/

theorem sortKeys_idx {A : List Bytes} {rc : List Nat} {keys : List SortKey} (h : sortKeys A rc = .ok keys) :
    keys.map (·.idx) = List.range A.length := by
  unfold sortKeys at h
  split at h
  · cases h
  · rename_i hlen
    cases h
    rw [List.map_map]
    have e : ((fun x : SortKey => x.idx) ∘ fun (x : (Bytes × Nat) × Nat) =>
        ({ idx := x.1.2, refs := x.2, len := x.1.1.length } : SortKey)) = (fun x => x.2) ∘ Prod.fst := by
      funext x; rfl
    have e' : (fun (x : (Bytes × Nat) × Nat) =>
        match x with
        | ((b, i), rc) => ({ idx := i, refs := rc, len := b.length } : SortKey)) =
        fun (x : (Bytes × Nat) × Nat) => ({ idx := x.1.2, refs := x.2, len := x.1.1.length } : SortKey) := by
      funext ⟨⟨b, i⟩, r⟩; rfl
    rw [e', e, ← List.map_map, List.map_fst_zip (by simp; omega), List.zipIdx_map_snd]
    exact List.range_eq_range'.symm

/-- what `sort_atoms` returns -/
structure SortSpec (A : List Bytes) (sNN : List Nat) (remap : List (Int × Int)) (nilIdx : Option Int) : Prop where
  nil : nilIdx = (A.findIdx? (fun a => a.length == 0)).map (fun i => (i : Int))
  mem : ∀ k, k ∈ sNN ↔ k < A.length ∧ some (k : Int) ≠ nilIdx
  remap : remap = sNN.zipIdx.foldl (fun m (x : Nat × Nat) => ((x.1 : Int), (x.2 : Int)) :: m) []
  bytes : (sNN.map fun k => (atomAt A k).length).sum ≤ (A.map List.length).sum
  count : sNN.length ≤ A.length

theorem sortAtoms_spec {t : InternedTree} {rc : List Nat} {sNN : List Nat} {remap : List (Int × Int)}
    {nilIdx : Option Int} (h : sortAtoms t rc = .ok (sNN, remap, nilIdx)) : SortSpec t.atoms sNN remap nilIdx := by
  unfold sortAtoms at h
  split at h
  · cases h
  · rename_i keys hkeys
    simp only [Except.ok.injEq, Prod.mk.injEq] at h
    obtain ⟨h1, h2, h3⟩ := h
    have hperm : ((keys.mergeSort sortLe).map (·.idx)).Perm (List.range t.atoms.length) := by
      rw [← sortKeys_idx hkeys]
      exact (List.mergeSort_perm keys sortLe).map _
    subst h3
    refine ⟨rfl, ?_, ?_, ?_, ?_⟩
    · intro k
      rw [← h1, List.mem_filter, hperm.mem_iff, List.mem_range]
      simp
    · rw [← h2, ← h1]
    · rw [← h1]
      refine Nat.le_trans (sum_filter_le _ _ _) ?_
      have e : (fun k => (atomAt t.atoms k).length) = List.length ∘ atomAt t.atoms := rfl
      rw [(hperm.map _).sum_nat, e, ← List.map_map, map_atomAt_range]
      exact Nat.le_refl _
    · rw [← h1]
      refine Nat.le_trans (List.length_filter_le _ _) ?_
      rw [hperm.length_eq, List.length_range]
      exact Nat.le_refl _

/-! ### `atom_remap` -/

theorem remap_sound (R : Int → Int → Prop) : ∀ (l : List Nat) (i : Nat) (acc : List (Int × Int)),
    (∀ k v, acc.lookup k = some v → R k v) →
    (∀ (j o : Nat), l[j]? = some o → R (o : Int) ((i + j : Nat) : Int)) →
    ∀ k v, ((l.zipIdx i).foldl (fun m (x : Nat × Nat) => ((x.1 : Int), (x.2 : Int)) :: m) acc).lookup k = some v →
      R k v := by
  intro l
  induction l with
  | nil => intro i acc hacc _ k v h; exact hacc k v h
  | cons a tl ih =>
    intro i acc hacc hl k v h
    rw [List.zipIdx_cons, List.foldl_cons] at h
    refine ih (i + 1) _ ?_ ?_ k v h
    · intro k' v' h'
      rw [List.lookup_cons] at h'
      split at h'
      · rename_i hq
        cases h'
        rw [beq_iff_eq.1 hq]
        exact hl 0 a rfl
      · exact hacc k' v' h'
    · intro j o hj
      have := hl (j + 1) o (by simpa using hj)
      have e : i + (j + 1) = i + 1 + j := by omega
      rw [e] at this
      exact this

theorem remap_complete : ∀ (l : List Nat) (i : Nat) (acc : List (Int × Int)) (k : Int),
    ((acc.lookup k).isSome ∨ ∃ o ∈ l, k = (o : Int)) →
    (((l.zipIdx i).foldl (fun m (x : Nat × Nat) => ((x.1 : Int), (x.2 : Int)) :: m) acc).lookup k).isSome := by
  intro l
  induction l with
  | nil =>
    intro i acc k h
    rcases h with h | ⟨o, ho, _⟩
    · exact h
    · cases ho
  | cons a tl ih =>
    intro i acc k h
    rw [List.zipIdx_cons, List.foldl_cons]
    apply ih
    by_cases hka : k = (a : Int)
    · left; subst hka; simp
    · rcases h with h | ⟨o, ho, hk⟩
      · left
        rw [List.lookup_cons]
        have : (k == (a : Int)) = false := by
          cases hq : (k == (a : Int)) with
          | false => rfl
          | true => exact absurd (beq_iff_eq.1 hq) hka
        rw [this]; exact h
      · rcases List.mem_cons.1 ho with rfl | ho'
        · exact absurd hk hka
        · right; exact ⟨o, ho', hk⟩

/-- an old index in `sorted_no_nil` is mapped to a position holding it -/
theorem remap_lookup {A : List Bytes} {sNN : List Nat} {remap : List (Int × Int)} {nilIdx : Option Int}
    (sp : SortSpec A sNN remap nilIdx) (k : Nat) (hk : k ∈ sNN) :
    ∃ n : Nat, remap.lookup (k : Int) = some (n : Int) ∧ sNN[n]? = some k := by
  have hs := remap_complete sNN 0 [] (k : Int) (Or.inr ⟨k, hk, rfl⟩)
  rw [← sp.remap] at hs
  cases hl : remap.lookup (k : Int) with
  | none => rw [hl] at hs; cases hs
  | some v =>
    have := remap_sound (fun key v => ∃ (o n : Nat), key = (o : Int) ∧ v = (n : Int) ∧ sNN[n]? = some o)
      sNN 0 [] (by intro k v h; simp [List.lookup] at h)
      (by intro j o hj; exact ⟨o, 0 + j, rfl, rfl, by simpa using hj⟩) (k : Int) v (by rw [← sp.remap]; exact hl)
    obtain ⟨o, n, h1, h2, h3⟩ := this
    have : o = k := by omega
    subst this
    exact ⟨n, by rw [h2], h3⟩

/-! ### the empty atom -/

theorem nil_atom {A : List Bytes} {sNN : List Nat} {remap : List (Int × Int)} {nilIdx : Option Int}
    (sp : SortSpec A sNN remap nilIdx) (k : Nat) (h : some (k : Int) = nilIdx) : A[k]? = some [] := by
  rw [sp.nil] at h
  cases hf : A.findIdx? (fun a => a.length == 0) with
  | none => rw [hf] at h; cases h
  | some j =>
    rw [hf] at h
    have h' : (k : Int) = (j : Int) := Option.some.inj h
    have : k = j := by omega
    subst this
    obtain ⟨hlt, hp, _⟩ := List.findIdx?_eq_some_iff_getElem.1 hf
    rw [List.getElem?_eq_getElem hlt]
    simp only [beq_iff_eq, List.length_eq_zero_iff] at hp
    rw [hp]

/-- in a duplicate-free table every other atom is non-empty -/
theorem nonnil_atom {A : List Bytes} {sNN : List Nat} {remap : List (Int × Int)} {nilIdx : Option Int}
    (sp : SortSpec A sNN remap nilIdx) (hnd : A.Nodup) (k : Nat) (b : Bytes) (hb : A[k]? = some b)
    (h : some (k : Int) ≠ nilIdx) : 1 ≤ b.length := by
  rcases Nat.eq_zero_or_pos b.length with h0 | h0
  · exfalso
    have hbe : b = [] := List.length_eq_zero_iff.1 h0
    subst hbe
    have hklt := getElem?_lt hb
    cases hf : A.findIdx? (fun a => a.length == 0) with
    | none =>
      rw [List.findIdx?_eq_none_iff] at hf
      have := hf [] (List.mem_iff_getElem?.2 ⟨k, hb⟩)
      simp at this
    | some j =>
      obtain ⟨hlt, hp, _⟩ := List.findIdx?_eq_some_iff_getElem.1 hf
      simp only [beq_iff_eq, List.length_eq_zero_iff] at hp
      have hj : A[j]? = some [] := by rw [List.getElem?_eq_getElem hlt, hp]
      have hjk : j = k := by
        rcases Nat.lt_trichotomy j k with h1 | h1 | h1
        · have := (List.pairwise_iff_getElem.1 hnd) j k hlt hklt h1
          rw [List.getElem?_eq_getElem hlt] at hj
          rw [List.getElem?_eq_getElem hklt] at hb
          exact absurd ((Option.some.inj hj).trans (Option.some.inj hb).symm) this
        · exact h1
        · have := (List.pairwise_iff_getElem.1 hnd) k j hklt hlt h1
          rw [List.getElem?_eq_getElem hlt] at hj
          rw [List.getElem?_eq_getElem hklt] at hb
          exact absurd ((Option.some.inj hb).trans (Option.some.inj hj).symm) this
      apply h
      rw [sp.nil, hf, hjk]
      rfl
  · exact h0

/-! ### `write_atom_table`: grouping -/

/-- the groups in stream order (`groupAtoms` keeps the last group, and each group's last atom, first) -/
def unrev (gs : List (Nat × List Bytes)) : List (Nat × List Bytes) :=
  (gs.map fun (l, as) => (l, as.reverse)).reverse

theorem unrev_cons_flat (l : Nat) (as : List Bytes) (gs : List (Nat × List Bytes)) :
    (unrev ((l, as) :: gs)).flatMap (·.2) = (unrev gs).flatMap (·.2) ++ as.reverse := by
  simp [unrev, List.flatMap_append]

theorem groupAtoms_spec (A : List Bytes) (mal : Nat) : ∀ (idxs : List Nat) (acc res : List (Nat × List Bytes)),
    (∀ k ∈ idxs, ∃ b, A[k]? = some b ∧ 1 ≤ b.length ∧ b.length ≤ mal) →
    (∀ g ∈ acc, GroupOK mal g) → groupAtoms A idxs acc = .ok res →
    (∀ g ∈ res, GroupOK mal g) ∧
      (unrev res).flatMap (·.2) = (unrev acc).flatMap (·.2) ++ idxs.map (atomAt A) := by
  intro idxs
  induction idxs with
  | nil =>
    intro acc res _ hacc h
    rw [groupAtoms] at h
    cases h
    exact ⟨hacc, by simp⟩
  | cons k tl ih =>
    intro acc res hidx hacc h
    obtain ⟨b, hb, hb1, hb2⟩ := hidx k (by simp)
    have htl : ∀ k ∈ tl, ∃ b, A[k]? = some b ∧ 1 ≤ b.length ∧ b.length ≤ mal :=
      fun k hk => hidx k (by simp [hk])
    rw [groupAtoms, hb] at h
    simp only at h
    have hone : GroupOK mal (b.length, [b]) := ⟨by simp, by simp, hb1, hb2⟩
    cases acc with
    | nil =>
      simp only at h
      obtain ⟨r1, r2⟩ := ih _ res htl (by intro g hg; simp at hg; subst hg; exact hone) h
      refine ⟨r1, ?_⟩
      rw [r2, unrev_cons_flat]
      simp [unrev, atomAt_eq hb]
    | cons g gs =>
      obtain ⟨lastLen, as⟩ := g
      simp only at h
      split at h
      · rename_i heq
        have heq' : lastLen = b.length := beq_iff_eq.1 heq
        obtain ⟨g1, g2, g3, g4⟩ := hacc (lastLen, as) (by simp)
        have hgrp : GroupOK mal (lastLen, b :: as) := by
          refine ⟨by simp, ?_, g3, g4⟩
          intro a ha
          rcases List.mem_cons.1 ha with rfl | ha'
          · exact heq'.symm
          · exact g2 a ha'
        obtain ⟨r1, r2⟩ := ih _ res htl
          (by intro g hg
              rcases List.mem_cons.1 hg with rfl | hg'
              · exact hgrp
              · exact hacc g (by simp [hg'])) h
        refine ⟨r1, ?_⟩
        rw [r2, unrev_cons_flat, unrev_cons_flat]
        simp [atomAt_eq hb]
      · obtain ⟨r1, r2⟩ := ih _ res htl
          (by intro g hg
              rcases List.mem_cons.1 hg with rfl | hg'
              · exact hone
              · exact hacc g hg') h
        refine ⟨r1, ?_⟩
        rw [r2, unrev_cons_flat]
        simp [atomAt_eq hb]

theorem groupOK_unrev {mal : Nat} {gs : List (Nat × List Bytes)} (h : ∀ g ∈ gs, GroupOK mal g) :
    ∀ g ∈ unrev gs, GroupOK mal g := by
  intro g hg
  unfold unrev at hg
  rw [List.mem_reverse, List.mem_map] at hg
  obtain ⟨⟨l, as⟩, hmem, rfl⟩ := hg
  obtain ⟨g1, g2, g3, g4⟩ := h (l, as) hmem
  refine ⟨?_, ?_, g3, g4⟩
  · simp only; intro h0; exact g1 (by simpa using h0)
  · intro a ha; exact g2 a (by simpa using ha)

/-- for uniform groups the byte and atom totals are those of the concatenation -/
theorem groupBytes_flat {mal : Nat} : ∀ (groups : List (Nat × List Bytes)), (∀ g ∈ groups, GroupOK mal g) →
    groupBytes groups = ((groups.flatMap (·.2)).map List.length).sum ∧
    groupAtomCount groups = (groups.flatMap (·.2)).length := by
  intro groups
  induction groups with
  | nil => intro _; simp [groupBytes, groupAtomCount]
  | cons g tl ih =>
    intro h
    obtain ⟨i1, i2⟩ := ih (fun g hg => h g (by simp [hg]))
    obtain ⟨_, hu, _, _⟩ := h g (by simp)
    rw [groupBytes_cons, groupAtomCount_cons, i1, i2, List.flatMap_cons, List.map_append, List.sum_append,
      List.length_append]
    refine ⟨?_, rfl⟩
    congr 1
    have : ∀ (as : List Bytes), (∀ a ∈ as, a.length = g.1) → g.1 * as.length = (as.map List.length).sum := by
      intro as
      induction as with
      | nil => intro _; simp
      | cons a tl' ih' =>
        intro hh
        rw [List.length_cons, List.map_cons, List.sum_cons, ← ih' (fun a ha => hh a (by simp [ha])),
          hh a (by simp), Nat.mul_succ]
        omega
    exact this g.2 hu

/-- a successful `write_atom_table` wrote a group count and the groups, which are decodable and
concatenate to `sorted_no_nil` mapped through the table -/
theorem writeAtomTable_spec {t : InternedTree} {sNN : List Nat} {mal : Nat} {table : Bytes}
    (hidx : ∀ k ∈ sNN, ∃ b, t.atoms[k]? = some b ∧ 1 ≤ b.length ∧ b.length ≤ mal)
    (h : writeAtomTable t sNN = .ok table) :
    ∃ (groups : List (Nat × List Bytes)) (cg tbl : Bytes),
      table = cg ++ tbl ∧ wv (groups.length : Int) = .ok cg ∧ writeGroups groups = .ok tbl ∧
      (∀ g ∈ groups, GroupOK mal g) ∧ groups.flatMap (·.2) = sNN.map (atomAt t.atoms) := by
  unfold writeAtomTable at h
  split at h
  · cases h
  · rename_i groupsRev hg
    obtain ⟨r1, r2⟩ := groupAtoms_spec t.atoms mal sNN [] groupsRev hidx (by simp) hg
    simp only at h
    split at h
    · cases h
    · rename_i cg hcg
      split at h
      · cases h
      · rename_i tbl htbl
        cases h
        refine ⟨unrev groupsRev, cg, tbl, rfl, hcg, htbl, groupOK_unrev r1, ?_⟩
        rw [r2]; simp [unrev]

/-! ### the instruction pushed for an atom -/

theorem execInst_zero (atoms : List Bytes) (s : DState) :
    execInst atoms s 0 = .ok { s with stack := Tree.atom [] :: s.stack } := by
  unfold execInst
  rfl

theorem execInst_atom (atoms : List Bytes) (s : DState) (n : Nat) (b : Bytes) (h : atoms[n]? = some b) :
    execInst atoms s ((n : Int) + 2) = .ok { s with stack := Tree.atom b :: s.stack } := by
  unfold execInst
  have h0 : ((n : Int) + 2 == 0) = false := by
    cases hq : ((n : Int) + 2 == 0) with
    | false => rfl
    | true => have := beq_iff_eq.1 hq; omega
  have h1 : ((n : Int) + 2 == 1) = false := by
    cases hq : ((n : Int) + 2 == 1) with
    | false => rfl
    | true => have := beq_iff_eq.1 hq; omega
  have h2 : ((n : Int) + 2 == -1) = false := by
    cases hq : ((n : Int) + 2 == -1) with
    | false => rfl
    | true => have := beq_iff_eq.1 hq; omega
  have h3 : (n : Int) + 2 ≥ 2 := by omega
  have h6 : ((n : Int) + 2 - 2).toNat = n := by omega
  simp only [h0, h1, h2, h3, h6, h, Bool.false_eq_true, if_false, if_true]

/-- `EmitCtx.atom` for a state built by `sort_atoms` -/
theorem atomInstruction_spec {A : List Bytes} {st : SerializerState}
    (sp : SortSpec A st.sortedNoNil st.atomRemap st.nilOldIdx) (k : Nat) (b : Bytes) (hb : A[k]? = some b) :
    ∃ inst, atomInstruction st (k : Int) = .ok inst ∧
      ∀ s : DState, execInst (st.sortedNoNil.map (atomAt A)) s inst =
        .ok { s with stack := Tree.atom b :: s.stack } := by
  unfold atomInstruction
  by_cases hn : some (k : Int) = st.nilOldIdx
  · have hq : (some (k : Int) == st.nilOldIdx) = true := by rw [hn]; simp
    rw [if_pos hq]
    have := nil_atom sp k hn
    rw [hb] at this
    cases this
    exact ⟨0, rfl, fun s => execInst_zero _ s⟩
  · have hq : ¬ ((some (k : Int) == st.nilOldIdx) = true) := by
      intro h; exact hn (beq_iff_eq.1 h)
    rw [if_neg hq]
    have hmem : k ∈ st.sortedNoNil := (sp.mem k).2 ⟨getElem?_lt hb, hn⟩
    obtain ⟨n, hl, hs⟩ := remap_lookup sp k hmem
    rw [hl]
    refine ⟨(n : Int) + 2, rfl, fun s => execInst_atom _ s n b ?_⟩
    rw [List.getElem?_map, hs]
    simp [atomAt_eq hb]

/-! ### `node_to_index`, `SerializerState::new` -/

theorem nodeToIndex_ok {t : InternedTree} {n : INode} {i : Int} (h : nodeToIndex t n = .ok i) :
    i = ix n ∧ n.Valid t.atoms.length t.pairs.length := by
  unfold nodeToIndex at h
  cases n with
  | atom k =>
    simp only at h
    split at h
    · rename_i hk; cases h; exact ⟨rfl, hk⟩
    · cases h
  | pair k =>
    simp only at h
    split at h
    · rename_i hk; cases h; exact ⟨rfl, hk⟩
    · cases h

theorem pairIndices_ok {t : InternedTree} : ∀ (ps : List (INode × INode)) (res : List (Int × Int)),
    pairIndices t ps = .ok res → res = ps.map fun p => (ix p.1, ix p.2) := by
  intro ps
  induction ps with
  | nil => intro res h; rw [pairIndices] at h; cases h; rfl
  | cons p tl ih =>
    intro res h
    obtain ⟨l, r⟩ := p
    rw [pairIndices] at h
    split at h
    · cases h
    · rename_i li hli
      split at h
      · cases h
      · rename_i ri hri
        split at h
        · cases h
        · rename_i ps' hps
          cases h
          rw [ih ps' hps, (nodeToIndex_ok hli).1, (nodeToIndex_ok hri).1]
          rfl

/-- what a successful `SerializerState::new` (after `intern_tree`) returns -/
theorem ofInterned_ok {it : InternedTree} {st : SerializerState} (h : SerializerState.ofInterned it = .ok st) :
    st.tree = it ∧ st.rootIndex = ix it.root ∧ it.root.Valid it.atoms.length it.pairs.length ∧
    st.pairs = it.pairs.map (fun p => (ix p.1, ix p.2)) ∧
    SortSpec it.atoms st.sortedNoNil st.atomRemap st.nilOldIdx := by
  unfold SerializerState.ofInterned at h
  split at h
  · cases h
  · split at h
    · cases h
    · rename_i rootIndex hroot
      split at h
      · cases h
      · rename_i rc hrc
        split at h
        · cases h
        · rename_i sNN remap nilIdx hsort
          split at h
          · cases h
          · rename_i pairs hpairs
            cases h
            exact ⟨rfl, (nodeToIndex_ok hroot).1, (nodeToIndex_ok hroot).2, pairIndices_ok _ _ hpairs,
              sortAtoms_spec hsort⟩

end Clvm.Serde2026
