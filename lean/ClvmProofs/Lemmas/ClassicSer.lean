/-
The classic serializer (`write_atom`, `node_to_stream`, limited writer) equals the recursive
specification `serSpec`; the limited writer fails with `OutOfMemory` exactly when the output
does not fit.  Property theorems live in `Props/C15.lean`, `Props/C29.lean`.
-/
import ClvmProofs.Lemmas.ClassicSpec
set_option linter.unusedSimpArgs false
namespace Clvm.Serde.Classic

/-- the prefix the format prescribes, as a function of the first byte and the length -/
def pfx (a0 n : Nat) : Bytes :=
  if n = 0 then [0x80] else if n = 1 ∧ a0 < 0x80 then [] else hdrW (width n) n

/-- a write whose io error is converted by `From<io::Error>` -/
def putW (w : Writer) (b : Bytes) : Except Err Writer :=
  match w.write b with
  | .ok w' => .ok w'
  | .error e => .error (errOfIo e)

theorem or_hdr (c a i x : Nat) (hc : c = a * 2 ^ i) (hx : x < 2 ^ i) : (c ||| x) = c + x := by
  subst hc; exact or_eq_add a x i hx

theorem ofNat_mod (n : Nat) : UInt8.ofNat (n % 256) = UInt8.ofNat n := u8_eq n

/-- `write_atom_encoding_prefix_with_size` writes the prescribed prefix (sizes below 2^34);
the size thresholds are the extracted ones -/
theorem writePrefix_spec (w : Writer) (a0 n : Nat) (hn : n < 2 ^ 34) :
    writePrefix w a0 n = putW w (pfx a0 n) := by
  unfold writePrefix pfx
  simp only [Gen.writeAtomThresholds, thr, List.getD_cons_zero, List.getD_cons_succ, u8_eq,
    Nat.shiftRight_eq_div_pow, and_ff, ofNat_mod]
  by_cases h0 : n = 0
  · subst h0; simp; rfl
  by_cases h1 : n = 1 ∧ a0 < 0x80
  · have : w.write [] = .ok w := by
      obtain ⟨out, lim⟩ := w
      cases lim <;> simp [Writer.write]
    simp [h1, this, putW]
  have h1' : (n == 1 && decide (a0 < 128)) = false := by
    simp at h1 ⊢; intro h; exact h1 h
  simp only [beq_iff_eq, h0, if_false, h1', Bool.false_eq_true, h1]
  unfold width
  by_cases c1 : n < 2 ^ 6
  · have e := or_hdr 0x80 2 6 n (by decide) c1
    simp only [c1, if_true, hdrW, e]; rfl
  by_cases c2 : n < 2 ^ 13
  · have e := or_hdr 0xc0 3 6 (n / 2 ^ 8) (by decide) (by omega)
    simp only [c1, c2, if_true, if_false, hdrW, e, ofNat_mod]
    rfl
  by_cases c3 : n < 2 ^ 20
  · have e := or_hdr 0xe0 7 5 (n / 2 ^ 16) (by decide) (by omega)
    simp only [c1, c2, c3, if_true, if_false, hdrW, e, ofNat_mod]
    rfl
  by_cases c4 : n < 2 ^ 27
  · have e := or_hdr 0xf0 15 4 (n / 2 ^ 24) (by decide) (by omega)
    simp only [c1, c2, c3, c4, if_true, if_false, hdrW, e, ofNat_mod]
    rfl
  have e := or_hdr 0xf8 31 3 (n / 2 ^ 32) (by decide) (by omega)
  simp only [c1, c2, c3, c4, hn, if_true, if_false, hdrW, e, ofNat_mod]
  rfl

/-- sizes from 2^34 are refused by the serializer -/
theorem writePrefix_too_big (w : Writer) (a0 n : Nat) (hn : 2 ^ 34 ≤ n) :
    writePrefix w a0 n = .error .SerializationError := by
  unfold writePrefix
  simp only [Gen.writeAtomThresholds, thr, List.getD_cons_zero, List.getD_cons_succ]
  have h0 : (n == 0) = false := by simp; omega
  have h1 : (n == 1) = false := by simp; omega
  have c1 : ¬ n < 64 := by omega
  have c2 : ¬ n < 8192 := by omega
  have c3 : ¬ n < 1048576 := by omega
  have c4 : ¬ n < 134217728 := by omega
  have c5 : ¬ n < 17179869184 := by omega
  simp [h0, h1, c1, c2, c3, c4, c5]

theorem pfx_atom_nil : pfx 0 0 = atomPrefix [] := by
  simp [pfx, atomPrefix, width, hdrW]

theorem pfx_atom_cons (x : UInt8) (t : Bytes) : pfx x.toNat (x :: t).length = atomPrefix (x :: t) := by
  match t with
  | [] => simp [pfx, atomPrefix, width]
  | y :: t => simp [pfx, atomPrefix]

/-- the prefix is written with io errors converted by `From`, the body with `OutOfMemory` -/
theorem writeAtom_eq (w : Writer) (b : Bytes) (hb : b.length < 2 ^ 34) :
    writeAtom w b = match putW w (atomPrefix b) with
      | .error e => .error e
      | .ok w' => match w'.write b with
        | .ok w'' => .ok w''
        | .error _ => .error .OutOfMemory := by
  cases b with
  | nil =>
    simp only [writeAtom, List.length_nil, writePrefix_spec w 0 0 (by decide), pfx_atom_nil]; rfl
  | cons x t => simp only [writeAtom, writePrefix_spec w _ _ hb, pfx_atom_cons]; rfl

/-! ### the writer, with and without a limit -/

/-- `n` more bytes fit -/
def Writer.fits (w : Writer) (n : Nat) : Bool :=
  match w.limit with
  | none => true
  | some l => decide (n ≤ l)

/-- the writer after `buf` has been written -/
def Writer.adv (w : Writer) (buf : Bytes) : Writer :=
  { out := w.out ++ buf, limit := w.limit.map (· - buf.length) }

theorem Writer.write_eq (w : Writer) (buf : Bytes) :
    w.write buf = if w.fits buf.length then .ok (w.adv buf) else .error .outOfMemory := by
  obtain ⟨out, lim⟩ := w
  cases lim with
  | none => simp [Writer.write, Writer.fits, Writer.adv]
  | some l =>
    simp only [Writer.write, Writer.fits, Writer.adv, Option.map]
    cases buf with
    | nil => simp
    | cons x t =>
      simp only [List.length_cons, List.isEmpty_cons, Bool.false_eq_true, if_false, decide_eq_true_eq]
      by_cases h : l < t.length + 1
      · have : ¬ t.length + 1 ≤ l := by omega
        simp [h, this]
      · have : t.length + 1 ≤ l := by omega
        simp [h, this]

theorem Writer.fits_adv (w : Writer) (a : Bytes) (n : Nat) :
    (w.fits a.length && (w.adv a).fits n) = w.fits (a.length + n) := by
  obtain ⟨out, lim⟩ := w
  cases lim with
  | none => simp [Writer.fits, Writer.adv]
  | some l =>
    simp only [Writer.fits, Writer.adv, Option.map]
    by_cases h : a.length + n ≤ l
    · have h1 : a.length ≤ l := by omega
      have h2 : n ≤ l - a.length := by omega
      simp [h, h1, h2]
    · by_cases h1 : a.length ≤ l
      · have h2 : ¬ n ≤ l - a.length := by omega
        simp [h, h1, h2]
      · simp [h, h1]

theorem Writer.adv_adv (w : Writer) (a b : Bytes) : (w.adv a).adv b = w.adv (a ++ b) := by
  obtain ⟨out, lim⟩ := w
  cases lim <;> simp [Writer.adv, Nat.sub_sub]

theorem Writer.adv_nil (w : Writer) : w.adv [] = w := by
  obtain ⟨out, lim⟩ := w
  cases lim <;> simp [Writer.adv]

/-- `write_atom` writes `atomEnc`, or fails with `OutOfMemory` wherever the limit is crossed -/
theorem writeAtom_spec (w : Writer) (b : Bytes) (hb : b.length < 2 ^ 34) :
    writeAtom w b = if w.fits (atomEnc b).length then .ok (w.adv (atomEnc b))
      else .error .OutOfMemory := by
  rw [writeAtom_eq w b hb]
  simp only [putW, Writer.write_eq]
  have hf := Writer.fits_adv w (atomPrefix b) b.length
  have hl : (atomEnc b).length = (atomPrefix b).length + b.length := by simp [atomEnc]
  rw [hl, ← hf]
  by_cases h1 : w.fits (atomPrefix b).length = true
  · simp only [h1, if_true, Bool.true_and]
    by_cases h2 : (w.adv (atomPrefix b)).fits b.length = true
    · simp [h2, Writer.adv_adv, atomEnc]
    · simp [h2]
  · simp [h1, errOfIo]

/-- `node_to_stream` writes the serialization of its work stack, or fails with `OutOfMemory`
exactly when it does not fit -/
theorem nodeToStream_spec (values : List Tree) (w : Writer)
    (hv : ∀ t ∈ values, t.atomsBelow (2 ^ 34)) :
    nodeToStream values w = if w.fits (serList values).length then .ok (w.adv (serList values))
      else .error .OutOfMemory := by
  fun_induction nodeToStream values w with
  | case1 w => simp [serList, Writer.fits, Writer.adv_nil]; cases w.limit <;> simp
  | case2 w b st e he =>
    have hb : b.length < 2 ^ 34 := hv (.atom b) (by simp)
    rw [writeAtom_spec w b hb] at he
    have hf := Writer.fits_adv w (atomEnc b) (serList st).length
    simp only [serList, serSpec, List.length_append]
    rw [← hf]
    split at he
    · cases he
    · rename_i h; cases he; simp [h]
  | case3 w b st w' he ih =>
    have hb : b.length < 2 ^ 34 := hv (.atom b) (by simp)
    rw [writeAtom_spec w b hb] at he
    have hf := Writer.fits_adv w (atomEnc b) (serList st).length
    simp only [serList, serSpec, List.length_append]
    rw [← hf]
    split at he
    · rename_i h
      cases he
      rw [ih (fun t ht => hv t (by simp [ht]))]
      simp [h, Writer.adv_adv]
    · cases he
  | case4 w l r st e he =>
    rw [Writer.write_eq] at he
    have hf := Writer.fits_adv w [u8 CONS_BOX_MARKER] (serList (l :: r :: st)).length
    have hs : serList (.pair l r :: st) = [u8 CONS_BOX_MARKER] ++ serList (l :: r :: st) := by
      simp [serList, serSpec, u8, CONS_BOX_MARKER]
    rw [hs, List.length_append, ← hf]
    simp only [List.length_singleton] at he ⊢
    split at he
    · cases he
    · rename_i h; cases he; simp [h, errOfIo]
  | case5 w l r st w' he ih =>
    rw [Writer.write_eq] at he
    have hf := Writer.fits_adv w [u8 CONS_BOX_MARKER] (serList (l :: r :: st)).length
    have hs : serList (.pair l r :: st) = [u8 CONS_BOX_MARKER] ++ serList (l :: r :: st) := by
      simp [serList, serSpec, u8, CONS_BOX_MARKER]
    rw [hs, List.length_append, ← hf]
    have hp : (Tree.pair l r).atomsBelow (2 ^ 34) := hv _ (by simp)
    simp only [List.length_singleton] at he ⊢
    split at he
    · rename_i h
      cases he
      rw [ih (by
        intro t ht
        simp only [List.mem_cons] at ht
        rcases ht with rfl | rfl | ht
        · exact hp.1
        · exact hp.2
        · exact hv t (by simp [ht]))]
      simp [h, Writer.adv_adv]
    · cases he

/-- `node_to_bytes_limit` in closed form -/
theorem nodeToBytesLimit_spec (t : Tree) (ht : t.atomsBelow (2 ^ 34)) (L : Nat) :
    nodeToBytesLimit t L =
      if (serSpec t).length ≤ L then .ok (serSpec t) else .error .OutOfMemory := by
  unfold nodeToBytesLimit
  rw [nodeToStream_spec [t] _ (by simpa using ht)]
  by_cases h : (serSpec t).length ≤ L
  · simp [Writer.fits, Writer.adv, serList, h]
  · simp [Writer.fits, serList, h]

end Clvm.Serde.Classic
