/-
serde_2026: the length probe on serializer output.

`serialized_length_serde_2026` applied to a written blob followed by *arbitrary* bytes returns the blob's
length.  The probe's `checked_add` / `checked_mul` guards cannot fire because a written blob is shorter
than 2^64 bytes (`written_length`: every varint is at most 8 bytes, the counts are 56-bit values, the
atom bytes fit the 4 GiB heap limit of `intern_tree`) — no assumption on the trailing bytes is needed.
-/
import ClvmProofs.Lemmas.Serde2026RoundTrip

namespace Clvm.Serde2026
open Clvm Clvm.Intern Clvm.Varint

/-! ### lengths of what the writers emit -/

theorem wv_length {v : Int} {b : Bytes} (h : wv v = .ok b) : b.length ≤ 8 := by
  unfold wv at h
  split at h
  · rename_i b' hb
    cases h
    unfold writeVarint at hb
    cases hf : firstFit v with
    | none => rw [hf] at hb; cases hb
    | some k =>
      rw [hf] at hb
      simp only [Option.map_some, Option.some.injEq] at hb
      subst hb
      have hk := (firstFit_spec v k hf).1
      simp only [encodeWith, encodeRaw, List.length_cons, tailBytes_length]
      omega
  · cases h

theorem flatten_length_uniform {length : Nat} : ∀ (as : List Bytes), (∀ a ∈ as, a.length = length) →
    as.flatten.length = length * as.length := by
  intro as
  induction as with
  | nil => intro _; simp
  | cons a tl ih =>
    intro h
    rw [List.flatten_cons, List.length_append, ih (fun a ha => h a (by simp [ha])), h a (by simp),
      List.length_cons, Nat.mul_succ]
    omega

/-- the two header forms of `write_atom_table`'s group loop -/
theorem writeGroups_cons_cases {length : Nat} {as : List Bytes} {tl : List (Nat × List Bytes)} {bs : Bytes}
    (h : writeGroups ((length, as) :: tl) = .ok bs) (hne : as ≠ []) :
    ∃ t, writeGroups tl = .ok t ∧
      ((∃ a b, as = [a] ∧ wv (length : Int) = .ok b ∧ bs = b ++ a ++ t) ∨
       (∃ b1 b2, wv (-(length : Int)) = .ok b1 ∧ wv (as.length : Int) = .ok b2 ∧
          bs = b1 ++ b2 ++ as.flatten ++ t)) := by
  cases as with
  | nil => exact absurd rfl hne
  | cons a as' =>
    cases as' with
    | nil =>
      rw [writeGroups] at h
      cases hw : wv (length : Int) with
      | error e => rw [hw] at h; simp at h
      | ok b =>
        rw [hw] at h
        simp only at h
        cases ht : writeGroups tl with
        | error e => rw [ht] at h; simp at h
        | ok t =>
          rw [ht] at h
          simp only [Except.ok.injEq] at h
          subst h
          exact ⟨t, rfl, Or.inl ⟨a, b, rfl, rfl, rfl⟩⟩
    | cons a2 as'' =>
      rw [writeGroups] at h
      case x_2 => intro _ hh; cases hh
      cases hw1 : wv (-(length : Int)) with
      | error e => rw [hw1] at h; simp at h
      | ok b1 =>
        rw [hw1] at h
        simp only at h
        cases hw2 : wv (((a :: a2 :: as'').length : Nat) : Int) with
        | error e => rw [hw2] at h; simp at h
        | ok b2 =>
          rw [hw2] at h
          simp only at h
          cases ht : writeGroups tl with
          | error e => rw [ht] at h; simp at h
          | ok t =>
            rw [ht] at h
            simp only [Except.ok.injEq] at h
            subst h
            exact ⟨t, rfl, Or.inr ⟨b1, b2, rfl, rfl, rfl⟩⟩

theorem writeGroups_length {mal : Nat} : ∀ (groups : List (Nat × List Bytes)) (tbl : Bytes),
    (∀ g ∈ groups, GroupOK mal g) → writeGroups groups = .ok tbl →
    tbl.length ≤ 16 * groups.length + groupBytes groups := by
  intro groups
  induction groups with
  | nil => intro tbl _ h; rw [writeGroups] at h; cases h; simp
  | cons g tl ih =>
    intro tbl hok h
    obtain ⟨length, as⟩ := g
    obtain ⟨hne, hu, _, _⟩ := hok (length, as) (by simp)
    simp only at hu hne
    have hfl := flatten_length_uniform as hu
    obtain ⟨t, ht, hform⟩ := writeGroups_cons_cases h hne
    have iht := ih t (fun g hg => hok g (by simp [hg])) ht
    rw [groupBytes_cons, List.length_cons]
    simp only
    rcases hform with ⟨a, b, rfl, hb, rfl⟩ | ⟨b1, b2, hb1, hb2, rfl⟩
    · have := wv_length hb
      have : a.length = length * [a].length := by simpa using hfl
      simp only [List.length_append]
      omega
    · have := wv_length hb1
      have := wv_length hb2
      simp only [List.length_append]
      rw [hfl]
      omega

theorem writeInstructions_length : ∀ (is : List Int) (ib : Bytes), writeInstructions is = .ok ib →
    ib.length ≤ 8 * is.length := by
  intro is
  induction is with
  | nil => intro ib h; rw [writeInstructions] at h; cases h; simp
  | cons i tl ih =>
    intro ib h
    rw [writeInstructions] at h
    split at h
    · cases h
    · rename_i b hb
      split at h
      · cases h
      · rename_i t ht
        cases h
        have := wv_length hb
        have := ih t ht
        rw [List.length_append, List.length_cons]
        omega

/-! ### the probe's group loop on written groups -/

/-- one group with the single-atom header -/
theorem lenGroups_pos {mal : Nat} {strict : Bool} {dataLen n length : Nat} {b tail : Bytes}
    (hb : wv (length : Int) = .ok b) (h1 : 1 ≤ length) (hm : length ≤ mal) (hl : length ≤ tail.length)
    (hd : tail.length ≤ dataLen) (h64 : dataLen - tail.length + length < 2 ^ 64) :
    lenGroups mal strict dataLen (n + 1) (b ++ tail) = lenGroups mal strict dataLen n (tail.drop length) := by
  rw [lenGroups, read_wv hb strict tail]
  simp only
  rw [if_neg (by omega), checkedBoundedUsize_nat _ _ hm]
  have hz : (length == 0) = false := by
    cases hq : (length == 0) with
    | false => rfl
    | true => have := beq_iff_eq.1 hq; omega
  simp only [hz, Bool.false_eq_true, if_false]
  rw [if_neg (by omega), if_neg (by omega)]

/-- one group with the `(-length, count)` header -/
theorem lenGroups_neg {mal : Nat} {strict : Bool} {dataLen n length count : Nat} {b1 b2 tail : Bytes}
    (hb1 : wv (-(length : Int)) = .ok b1) (hb2 : wv (count : Int) = .ok b2)
    (h1 : 1 ≤ length) (hm : length ≤ mal) (hc : 1 ≤ count) (hl : length * count ≤ tail.length)
    (hd : tail.length ≤ dataLen) (h64 : dataLen - tail.length + length * count < 2 ^ 64) :
    lenGroups mal strict dataLen (n + 1) (b1 ++ b2 ++ tail) =
      lenGroups mal strict dataLen n (tail.drop (length * count)) := by
  have hr := wv_range hb1
  rw [lenGroups, List.append_assoc, read_wv hb1 strict (b2 ++ tail)]
  simp only
  rw [if_pos (by omega)]
  have hmin : ((-(length : Int)) == -(2 : Int) ^ 63) = false := by
    cases hq : ((-(length : Int)) == -(2 : Int) ^ 63) with
    | false => rfl
    | true => have := beq_iff_eq.1 hq; omega
  rw [hmin]
  simp only [Bool.false_eq_true, if_false, Int.neg_neg]
  rw [checkedBoundedUsize_nat _ _ hm]
  simp only
  rw [read_wv hb2 strict tail]
  simp only
  rw [checkedUsize_nat]
  have hz1 : (length == 0) = false := by
    cases hq : (length == 0) with
    | false => rfl
    | true => have := beq_iff_eq.1 hq; omega
  have hz2 : (count == 0) = false := by
    cases hq : (count == 0) with
    | false => rfl
    | true => have := beq_iff_eq.1 hq; omega
  simp only [hz1, hz2, Bool.or_self, Bool.false_eq_true, if_false]
  rw [if_neg (by omega)]
  simp only
  rw [if_neg (by omega), if_neg (by omega)]

theorem lenGroups_written {mal : Nat} {strict : Bool} {dataLen : Nat} :
    ∀ (groups : List (Nat × List Bytes)) (bs rest : Bytes),
    (∀ g ∈ groups, GroupOK mal g) → writeGroups groups = .ok bs →
    (bs ++ rest).length ≤ dataLen → dataLen - rest.length < 2 ^ 64 →
    lenGroups mal strict dataLen groups.length (bs ++ rest) = .ok rest := by
  intro groups
  induction groups with
  | nil =>
    intro bs rest _ h _ _
    rw [writeGroups] at h; cases h
    simp [lenGroups]
  | cons g tl ih =>
    intro bs rest hok h hdl h64
    obtain ⟨length, as⟩ := g
    obtain ⟨hne, hu, h1, hmal⟩ := hok (length, as) (by simp)
    simp only at hne hu h1 hmal
    have hoktl : ∀ g ∈ tl, GroupOK mal g := fun g hg => hok g (by simp [hg])
    have hfl := flatten_length_uniform as hu
    obtain ⟨t, ht, hform⟩ := writeGroups_cons_cases h hne
    have hdrop : ∀ (m : Nat), m = as.flatten.length →
        (as.flatten ++ (t ++ rest)).drop m = t ++ rest := by
      intro m hm; subst hm; simp
    simp only [List.length_cons]
    rcases hform with ⟨a, b, rfl, hb, rfl⟩ | ⟨b1, b2, hb1, hb2, rfl⟩
    · have hfl' : a.length = length := hu a (by simp)
      simp only [List.length_append] at hdl
      have hrec := ih t rest hoktl ht (by rw [List.length_append]; omega) h64
      have e : b ++ a ++ t ++ rest = b ++ ([a].flatten ++ (t ++ rest)) := by simp
      rw [e, lenGroups_pos hb h1 hmal (by simp; omega) (by simp; omega) (by simp; omega),
        hdrop length (by simp [hfl']), hrec]
    · have hcnt : 1 ≤ as.length := by
        rcases Nat.eq_zero_or_pos as.length with h0 | h0
        · exact absurd (List.length_eq_zero_iff.1 h0) hne
        · exact h0
      simp only [List.length_append] at hdl
      have hrec := ih t rest hoktl ht (by rw [List.length_append]; omega) h64
      have e : b1 ++ b2 ++ as.flatten ++ t ++ rest = b1 ++ b2 ++ (as.flatten ++ (t ++ rest)) := by simp
      rw [e, lenGroups_neg hb1 hb2 h1 hmal hcnt
        (by rw [List.length_append, hfl]; omega)
        (by rw [List.length_append, List.length_append]; omega)
        (by rw [List.length_append, List.length_append, hfl]; omega),
        hdrop _ hfl.symm, hrec]

/-- **the probe on a written blob**: its length, whatever follows -/
theorem serializedLength_written (mal : Nat) (strict : Bool) (rest : Bytes)
    (groups : List (Nat × List Bytes)) (is : List Int) (cg tbl ci ib : Bytes)
    (hok : ∀ g ∈ groups, GroupOK mal g)
    (h1 : wv (groups.length : Int) = .ok cg) (h2 : writeGroups groups = .ok tbl)
    (h3 : wv (is.length : Int) = .ok ci) (h4 : writeInstructions is = .ok ib) (hne : is ≠ [])
    (h64 : (cg ++ tbl ++ ci ++ ib).length < 2 ^ 64) :
    serializedLength2026 (magic ++ (cg ++ tbl ++ ci ++ ib) ++ rest) mal strict =
      .ok (magic ++ (cg ++ tbl ++ ci ++ ib)).length := by
  unfold serializedLength2026
  have ht : ((magic ++ (cg ++ tbl ++ ci ++ ib) ++ rest).take magic.length != magic) = false := by simp
  have hd : (magic ++ (cg ++ tbl ++ ci ++ ib) ++ rest).drop magic.length = cg ++ (tbl ++ (ci ++ (ib ++ rest))) := by
    simp
  rw [ht, hd]
  simp only [Bool.false_eq_true, if_false]
  rw [read_wv h1 strict]
  simp only
  rw [checkedUsize_nat]
  simp only
  have hg := lenGroups_written (mal := mal) (strict := strict)
    (dataLen := (cg ++ (tbl ++ (ci ++ (ib ++ rest)))).length) groups tbl (ci ++ (ib ++ rest)) hok h2
    (by simp only [List.length_append]; omega)
    (by simp only [List.length_append] at h64 ⊢; omega)
  rw [hg]
  simp only
  rw [read_wv h3 strict]
  simp only
  rw [checkedUsize_nat]
  simp only
  have hz : (is.length == 0) = false := by
    cases hq : (is.length == 0) with
    | false => rfl
    | true => exact absurd (List.length_eq_zero_iff.1 (beq_iff_eq.1 hq)) hne
  rw [hz]
  simp only [Bool.false_eq_true, if_false]
  rw [lenInstructions_written is ib rest h4]
  simp only [List.length_append]
  congr 1
  omega

/-- a written body is far shorter than 2^64 bytes -/
theorem written_length {mal : Nat} {groups : List (Nat × List Bytes)} {is : List Int} {cg tbl ci ib : Bytes}
    (hok : ∀ g ∈ groups, GroupOK mal g)
    (h1 : wv (groups.length : Int) = .ok cg) (h2 : writeGroups groups = .ok tbl)
    (h3 : wv (is.length : Int) = .ok ci) (h4 : writeInstructions is = .ok ib)
    (hb : groupBytes groups < 2 ^ 32) : (cg ++ tbl ++ ci ++ ib).length < 2 ^ 64 := by
  have r1 := (wv_range h1).2
  have r3 := (wv_range h3).2
  have l1 := wv_length h1
  have l2 := writeGroups_length groups tbl hok h2
  have l3 := wv_length h3
  have l4 := writeInstructions_length is ib h4
  simp only [List.length_append]
  omega

/-- **Length probe on serializer output**: for a blob written by `serialize_2026` followed by any bytes
the probe returns the blob's length. -/
theorem serializedLength_serialized {d : Dag} (wf : d.WF) {root : Nat} (hroot : root < d.size) {level : Nat}
    {blob : Bytes} (h : serialize2026 d root level = .ok blob) (mal : Nat)
    (hmal : ∀ b : Bytes, Subtree (.atom b) (denote d root) → b.length ≤ mal) (strict : Bool) (rest : Bytes) :
    serializedLength2026 (blob ++ rest) mal strict = .ok blob.length := by
  obtain ⟨groups, is, cg, tbl, ci, ib, s, hblob, hgok, hcg, htbl, hci, hib, hne, hroom, _, _⟩ :=
    serialize2026_parts wf hroot h mal hmal
  have hb : groupBytes groups < 2 ^ 32 := by
    have := hroom.1
    have e : Counters.new.heapLimit = 2 ^ 32 - 1 := rfl
    rw [e] at this
    omega
  rw [hblob]
  exact serializedLength_written mal strict rest groups is cg tbl ci ib hgok hcg htbl hci hib hne
    (written_length hgok hcg htbl hci hib hb)

/-- every atom of a tree that `serialize_2026` accepted is shorter than 2^32 bytes -/
theorem serialized_atoms_small {d : Dag} (wf : d.WF) {root : Nat} (hroot : root < d.size) {level : Nat}
    {blob : Bytes} (h : serialize2026 d root level = .ok blob) (b : Bytes)
    (hb : Subtree (.atom b) (denote d root)) : b.length ≤ 2 ^ 32 := by
  unfold serialize2026 serializeWithCompression SerializerState.new at h
  cases hit : internTree d root with
  | error e => rw [hit] at h; cases h
  | ok it =>
    obtain ⟨cb, _, _⟩ := internTree_counters hit
    have hmem := (Props.C24.atoms_complete wf hroot hit b).2 hb
    have : ∀ (l : List Bytes), b ∈ l → b.length ≤ (l.map List.length).sum := by
      intro l
      induction l with
      | nil => intro h; cases h
      | cons a tl ih =>
        intro h
        rw [List.map_cons, List.sum_cons]
        rcases List.mem_cons.1 h with rfl | h'
        · omega
        · have := ih h'; omega
    have := this _ hmem
    omega

end Clvm.Serde2026
