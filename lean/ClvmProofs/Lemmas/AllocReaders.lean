/-
The allocator's readers (`atom`, `atom_len`, `node`, `number`, `small_number`, `atom_eq`) on valid
atom nodes of an allocator satisfying `Inv`: they do not panic and return what the denotation
(`nodeBytes`, the bytes of `treeOf`) says.  Used by C12–C14.

The small byte/int facts needed here (`rd_…`) are proved locally by case analysis on the four
length classes of an inline value.
-/
import ClvmProofs.Lemmas.AllocInv
import ClvmProofs.Lemmas.Bits

namespace Clvm.Alloc
open Clvm

/-- the bytes an atom node denotes -/
def nodeBytes (a : Alloc) : Ptr → Bytes
  | .small v => smallBytes v
  | .bytes i => atomBytes a i
  | .pair _ => []

def isAtomPtr : Ptr → Bool
  | .pair _ => false
  | _ => true

/-! ### local byte/int facts -/

theorem rd_lenForValue (v : Nat) :
    lenForValue v = if v = 0 then 0 else if v < 128 then 1 else if v < 32768 then 2
      else if v < 8388608 then 3 else if v < 2147483648 then 4 else 5 := by
  simp only [lenForValue, ladderUp, Gen.lenForValueThresholds, beq_iff_eq]

theorem rd_lenForValue_le4 (v : Nat) (h : v < 2 ^ 31) : lenForValue v ≤ 4 := by
  rw [rd_lenForValue]; split <;> (try split) <;> (try split) <;> (try split) <;> (try split) <;> omega

theorem rd_idxMask (v : Nat) (h : v ≤ idxMask) : v < 2 ^ 26 := by
  simp only [idxMask, Gen.nodePtrIdxBits] at h; omega

/-- the five shapes of the bytes of an inline value -/
theorem rd_smallBytes (v : Nat) (h : v < 2 ^ 31) :
    smallBytes v =
      if v = 0 then [] else if v < 128 then [UInt8.ofNat v]
      else if v < 32768 then [UInt8.ofNat (v / 256), UInt8.ofNat (v % 256)]
      else if v < 8388608 then [UInt8.ofNat (v / 65536), UInt8.ofNat (v / 256 % 256), UInt8.ofNat (v % 256)]
      else [UInt8.ofNat (v / 16777216), UInt8.ofNat (v / 65536 % 256), UInt8.ofNat (v / 256 % 256),
            UInt8.ofNat (v % 256)] := by
  unfold smallBytes
  rw [rd_lenForValue]
  simp only [toBE]
  split
  · rfl
  split
  · simp; congr 1; omega
  split
  · simp; congr 1; omega
  split
  · simp; congr 1; omega
  · simp; congr 1; omega

theorem rd_smallBytes_length (v : Nat) (h : v < 2 ^ 31) : (smallBytes v).length = lenForValue v := by
  rw [rd_smallBytes v h, rd_lenForValue]
  split
  · rfl
  split
  · rfl
  split
  · rfl
  split
  · rfl
  · rfl

theorem rd_decodeInt_smallBytes (v : Nat) (h : v < 2 ^ 31) : decodeInt (smallBytes v) = (v : Int) := by
  rw [rd_smallBytes v h]
  split
  · subst_vars; rfl
  split
  · simp [decodeInt, beNat]; omega
  split
  · simp [decodeInt, beNat]; omega
  split
  · simp [decodeInt, beNat]; omega
  · simp [decodeInt, beNat]; omega

theorem rd_and80 (x : UInt8) : (x.toNat &&& 128 = 0) ↔ x.toNat < 128 := by
  have key : ∀ n, n < 256 → ((n &&& 128 = 0) ↔ n < 128) := by decide +kernel
  exact key _ (u8_lt x)

theorem rd_shiftOrFold (b : Bytes) : shiftOrFold b = beNat b := by
  unfold shiftOrFold beNat
  congr 1
  funext a x
  exact shl8_or _ _ (u8_lt x)

theorem rd_fitsInSmallAtomE_ok (b : Bytes) : ∃ r, fitsInSmallAtomE b = .ok r := by
  match b with
  | [] => exact ⟨_, rfl⟩
  | [x0] =>
    by_cases h0 : x0.toNat = 0
    · simp [fitsInSmallAtomE, h0]
    · simp only [fitsInSmallAtomE]
      repeat' split
      all_goals first | exact ⟨_, rfl⟩ | simp_all
  | x0 :: x1 :: rest =>
    simp only [fitsInSmallAtomE]
    repeat' split
    all_goals first | exact ⟨_, rfl⟩ | skip
    rename_i heq
    split at heq <;> cases heq

theorem rd_fitsInSmallAtomE_eq (b : Bytes) : fitsInSmallAtomE b = .ok (fitsInSmallAtom b) := by
  obtain ⟨r, hr⟩ := rd_fitsInSmallAtomE_ok b
  unfold fitsInSmallAtom
  rw [hr]

theorem rd_and80N (n : Nat) (h : n < 256) : (n &&& 128 = 0) ↔ n < 128 := by
  have key : ∀ n, n < 256 → ((n &&& 128 = 0) ↔ n < 128) := by decide +kernel
  exact key n h

theorem rd_and80N_beq (n : Nat) (h : n < 256) : (n &&& 128 == 0) = decide (n < 128) := by
  have := rd_and80N n h
  by_cases h1 : n < 128 <;> simp [h1, this]

theorem rd_fitsE_smallBytes (v : Nat) (h : v < 2 ^ 26) : fitsInSmallAtomE (smallBytes v) = .ok (some v) := by
  rw [rd_smallBytes v (by omega)]
  split
  · subst_vars; rfl
  split
  · simp (disch := omega) [fitsInSmallAtomE, rd_shiftOrFold, beNat, rd_and80N]
    rw [if_neg (by omega), if_neg (by omega), if_neg (by omega)]
    simp; omega
  split
  · simp (disch := omega) [fitsInSmallAtomE, rd_shiftOrFold, beNat, rd_and80N, rd_and80N_beq]
    rw [if_neg (by omega)]
    by_cases hz : v / 256 % 256 = 0
    · have : ¬ v % 256 < 128 := by omega
      simp [hz, this]; omega
    · simp [hz]; omega
  split
  · simp (disch := omega) [fitsInSmallAtomE, rd_shiftOrFold, beNat, rd_and80N, rd_and80N_beq]
    rw [if_neg (by omega)]
    by_cases hz : v / 65536 % 256 = 0
    · have : ¬ v / 256 % 256 < 128 := by omega
      simp [hz, this]; omega
    · simp [hz]; omega
  · simp (disch := omega) [fitsInSmallAtomE, rd_shiftOrFold, beNat, rd_and80N, rd_and80N_beq]
    rw [if_neg (by omega)]
    by_cases hz : v / 16777216 % 256 = 0
    · have : ¬ v / 65536 % 256 < 128 := by omega
      simp only [hz, this, if_true, decide_false]
      rw [if_neg (by omega)]; simp; omega
    · simp only [hz, if_false]
      rw [if_neg (by omega)]; simp; omega

theorem rd_fits_smallBytes (v : Nat) (h : v < 2 ^ 26) : fitsInSmallAtom (smallBytes v) = some v := by
  unfold fitsInSmallAtom
  rw [rd_fitsE_smallBytes v h]

/-! ### readers -/

theorem rd_atomBuf (a : Alloc) (i : Nat) (hI : Inv a) (hv : Valid a (.bytes i)) :
    ∃ s e, a.atoms[i]? = some (s, e) ∧ s ≤ e ∧ e ≤ a.u8.length := by
  have hlt : i < a.atoms.length := hv
  have hget : a.atoms[i]? = some a.atoms[i] := List.getElem?_eq_getElem hlt
  generalize a.atoms[i] = ab at hget
  obtain ⟨s, e⟩ := ab
  have := hI.closed.atoms_ok i s e hget
  exact ⟨s, e, hget, this.1, this.2⟩

theorem rd_small_lt (a : Alloc) (v : Nat) (hv : Valid a (.small v)) : v < 2 ^ 26 :=
  rd_idxMask v hv

theorem atom_ok (a : Alloc) (p : Ptr) (hI : Inv a) (hv : Valid a p) (hp : isAtomPtr p = true) :
    atom a p = .ok (nodeBytes a p) := by
  cases p with
  | pair i => cases hp
  | bytes i =>
    obtain ⟨s, e, hget, hs, he⟩ := rd_atomBuf a i hI hv
    simp only [atom, atomBuf, hget, nodeBytes, atomBytes_of_getElem? hget]
    exact slice_eq hs he
  | small v =>
    have hlt := rd_small_lt a v hv
    simp only [atom, smallBytesE, nodeBytes]
    rw [if_neg (by have := rd_lenForValue_le4 v (by omega); omega)]

theorem atomLen_ok (a : Alloc) (p : Ptr) (hI : Inv a) (hv : Valid a p) (hp : isAtomPtr p = true) :
    atomLen a p = .ok (nodeBytes a p).length := by
  cases p with
  | pair i => cases hp
  | bytes i =>
    obtain ⟨s, e, hget, hs, he⟩ := rd_atomBuf a i hI hv
    simp only [atomLen, atomBuf, hget, nodeBytes, atomBytes_of_getElem? hget, bufLen]
    rw [if_neg (by omega)]
    simp only [List.length_take, List.length_drop]
    congr 1; omega
  | small v =>
    have hlt := rd_small_lt a v hv
    simp only [atomLen, nodeBytes]
    rw [rd_smallBytes_length v (by omega)]

theorem treeOf_atom (a : Alloc) (p : Ptr) (hp : isAtomPtr p = true) : treeOf a p = .atom (nodeBytes a p) := by
  cases p with
  | pair i => cases hp
  | bytes i => rfl
  | small v => rfl

theorem node_ok_bytes (a : Alloc) (i : Nat) (hI : Inv a) (hv : Valid a (.bytes i)) :
    node a (.bytes i) = .ok (.buffer (atomBytes a i)) := by
  obtain ⟨s, e, hget, hs, he⟩ := rd_atomBuf a i hI hv
  simp only [node, atomBuf, hget, atomBytes_of_getElem? hget, slice_eq hs he]

theorem number_ok (a : Alloc) (p : Ptr) (hI : Inv a) (hv : Valid a p) (hp : isAtomPtr p = true) :
    number a p = .ok (decodeInt (nodeBytes a p)) := by
  cases p with
  | pair i => cases hp
  | bytes i =>
    obtain ⟨s, e, hget, hs, he⟩ := rd_atomBuf a i hI hv
    simp only [number, atomBuf, hget, nodeBytes, atomBytes_of_getElem? hget, slice_eq hs he]
  | small v =>
    have hlt := rd_small_lt a v hv
    simp only [number, nodeBytes]
    rw [rd_decodeInt_smallBytes v (by omega)]

theorem smallNumber_ok (a : Alloc) (p : Ptr) (hI : Inv a) (hv : Valid a p) (hp : isAtomPtr p = true) :
    smallNumber a p = .ok (fitsInSmallAtom (nodeBytes a p)) := by
  cases p with
  | pair i => cases hp
  | bytes i =>
    obtain ⟨s, e, hget, hs, he⟩ := rd_atomBuf a i hI hv
    simp only [smallNumber, atomBuf, hget, nodeBytes, atomBytes_of_getElem? hget, slice_eq hs he]
    exact rd_fitsInSmallAtomE_eq _
  | small v =>
    have hlt := rd_small_lt a v hv
    simp only [smallNumber, nodeBytes]
    rw [rd_fits_smallBytes v hlt]

/-! ### `atom_eq` -/

theorem rd_u8_eq (x : UInt8) (n : Nat) (h : n < 256) : (x = UInt8.ofNat n) ↔ x.toNat = n := by
  constructor
  · intro e; subst e; exact toNat_ofNat_lt n h
  · intro e; exact (u8_eq_of_toNat n x e.symm).symm

/-- the wrapping fold of `bytes_eq_int` -/
def rd_fold (b : Bytes) (acc : Nat) : Nat := b.foldl (fun acc x => (acc * 256 + x.toNat) % 2 ^ 32) acc

theorem rd_foldRange (u8 : Bytes) (n : Nat) : ∀ (s acc : Nat), s + n ≤ u8.length →
    foldRange u8 s n acc = .ok (rd_fold ((u8.drop s).take n) acc) := by
  induction n with
  | zero => intro s acc _; simp [foldRange, rd_fold]
  | succ n ih =>
    intro s acc h
    have hs : s < u8.length := by omega
    have hget : u8[s]? = some u8[s] := List.getElem?_eq_getElem hs
    rw [List.drop_eq_getElem_cons hs, List.take_succ_cons]
    simp only [foldRange, hget]
    rw [ih (s + 1) _ (by omega), shl8_or _ _ (u8_lt _)]
    rfl

theorem rd_core (v : Nat) (hv : v < 2 ^ 26) (hv0 : v ≠ 0) (x : UInt8) (rest : Bytes)
    (hl : (x :: rest).length = lenForValue v) :
    (x.toNat &&& 128 ≠ 0 → x :: rest ≠ smallBytes v) ∧
    (x.toNat &&& 128 = 0 → ((v = rd_fold (x :: rest) 0) ↔ x :: rest = smallBytes v)) := by
  simp only [ne_eq, rd_and80 x]
  rw [rd_smallBytes v (by omega)]
  rw [rd_lenForValue] at hl
  have hx := u8_lt x
  match rest, hl with
  | [], hl =>
    have h1 : v < 128 := by
      simp only [List.length_cons, List.length_nil] at hl
      repeat' split at hl
      all_goals omega
    rw [if_neg hv0, if_pos h1]
    simp only [rd_fold, List.foldl, List.cons.injEq, and_true, rd_u8_eq x v (by omega)]
    omega
  | [x1], hl =>
    have h1 : ¬ v < 128 ∧ v < 32768 := by
      simp only [List.length_cons, List.length_nil] at hl
      repeat' split at hl
      all_goals omega
    have hx1 := u8_lt x1
    rw [if_neg hv0, if_neg h1.1, if_pos h1.2]
    simp only [rd_fold, List.foldl, List.cons.injEq, and_true, rd_u8_eq x _ (show v / 256 < 256 by omega),
      rd_u8_eq x1 _ (show v % 256 < 256 by omega)]
    omega
  | [x1, x2], hl =>
    have h1 : ¬ v < 128 ∧ ¬ v < 32768 ∧ v < 8388608 := by
      simp only [List.length_cons, List.length_nil] at hl
      repeat' split at hl
      all_goals omega
    have hx1 := u8_lt x1
    have hx2 := u8_lt x2
    rw [if_neg hv0, if_neg h1.1, if_neg h1.2.1, if_pos h1.2.2]
    simp only [rd_fold, List.foldl, List.cons.injEq, and_true, rd_u8_eq x _ (show v / 65536 < 256 by omega),
      rd_u8_eq x1 _ (show v / 256 % 256 < 256 by omega), rd_u8_eq x2 _ (show v % 256 < 256 by omega)]
    omega
  | [x1, x2, x3], hl =>
    have h1 : ¬ v < 128 ∧ ¬ v < 32768 ∧ ¬ v < 8388608 := by
      simp only [List.length_cons, List.length_nil] at hl
      repeat' split at hl
      all_goals omega
    have hx1 := u8_lt x1
    have hx2 := u8_lt x2
    have hx3 := u8_lt x3
    rw [if_neg hv0, if_neg h1.1, if_neg h1.2.1, if_neg h1.2.2]
    simp only [rd_fold, List.foldl, List.cons.injEq, and_true, rd_u8_eq x _ (show v / 16777216 < 256 by omega),
      rd_u8_eq x1 _ (show v / 65536 % 256 < 256 by omega),
      rd_u8_eq x2 _ (show v / 256 % 256 < 256 by omega), rd_u8_eq x3 _ (show v % 256 < 256 by omega)]
    omega
  | x1 :: x2 :: x3 :: x4 :: r, hl =>
    exfalso
    simp only [List.length_cons] at hl
    repeat' split at hl
    all_goals omega

theorem rd_beq_decide {α : Type} [BEq α] [LawfulBEq α] [DecidableEq α] (x y : α) : (x == y) = decide (x = y) := by
  by_cases h : x = y <;> simp [h]

theorem rd_bytesEqInt (a : Alloc) (s e v : Nat) (hs : s ≤ e) (he : e ≤ a.u8.length) (hv : v < 2 ^ 26) :
    bytesEqInt a (s, e) v = .ok (decide ((a.u8.drop s).take (e - s) = smallBytes v)) := by
  have hblen : ((a.u8.drop s).take (e - s)).length = e - s := by
    simp only [List.length_take, List.length_drop]; omega
  have hslen := rd_smallBytes_length v (by omega)
  simp only [bytesEqInt, bufLen]
  rw [if_neg (by omega)]
  simp only
  by_cases hl : e - s = lenForValue v
  · rw [if_neg (by simp [hl])]
    by_cases hv0 : v = 0
    · subst hv0
      have h0 : e - s = 0 := hl
      rw [if_pos (by rfl), h0]
      rfl
    · rw [if_neg (by simpa using hv0)]
      have hpos : 0 < lenForValue v := by
        rw [rd_lenForValue, if_neg hv0]; repeat' split
        all_goals omega
      have hslt : s < a.u8.length := by omega
      have hget : a.u8[s]? = some a.u8[s] := List.getElem?_eq_getElem hslt
      rw [rd_foldRange a.u8 (e - s) s 0 (by omega)]
      obtain ⟨k, hk⟩ : ∃ k, e - s = k + 1 := ⟨e - s - 1, by omega⟩
      rw [hk] at hl hblen ⊢
      rw [List.drop_eq_getElem_cons hslt, List.take_succ_cons] at hblen ⊢
      simp only [hget]
      have core := rd_core v hv hv0 _ _ (hblen.trans hl)
      by_cases hb : a.u8[s].toNat &&& 128 = 0
      · rw [if_neg (by simp [hb])]
        have := core.2 hb
        by_cases hE : v = rd_fold (a.u8[s] :: List.take k (List.drop (s + 1) a.u8)) 0
        · rw [decide_eq_true (this.1 hE), ← hE]; simp
        · have hne : ¬ (a.u8[s] :: List.take k (List.drop (s + 1) a.u8) = smallBytes v) :=
            fun h => hE (this.2 h)
          simp [hE, hne]
      · rw [if_pos (by simp [hb])]
        simp [core.1 hb]
  · rw [if_pos (by simp [hl])]
    have : ¬ ((a.u8.drop s).take (e - s) = smallBytes v) := by
      intro h
      rw [h] at hblen
      omega
    simp [this]

theorem rd_smallBytes_inj (v w : Nat) (hv : v < 2 ^ 31) (hw : w < 2 ^ 31) :
    smallBytes v = smallBytes w ↔ v = w := by
  constructor
  · intro h
    have h1 := rd_decodeInt_smallBytes v hv
    have h2 := rd_decodeInt_smallBytes w hw
    rw [h] at h1
    omega
  · intro h; rw [h]

/-- atom equality agrees with byte equality, for every combination of representations -/
theorem atomEq_iff (a : Alloc) (p q : Ptr) (hI : Inv a) (hvp : Valid a p) (hvq : Valid a q)
    (hp : isAtomPtr p = true) (hq : isAtomPtr q = true) :
    atomEq a p q = .ok (decide (nodeBytes a p = nodeBytes a q)) := by
  cases p with
  | pair i => cases hp
  | bytes i =>
    obtain ⟨s, e, hget, hs, he⟩ := rd_atomBuf a i hI hvp
    cases q with
    | pair j => cases hq
    | bytes j =>
      obtain ⟨s', e', hget', hs', he'⟩ := rd_atomBuf a j hI hvq
      simp only [atomEq, atomBuf, hget, hget', nodeBytes, atomBytes_of_getElem? hget,
        atomBytes_of_getElem? hget', slice_eq hs he, slice_eq hs' he', rd_beq_decide]
    | small w =>
      have hlt := rd_small_lt a w hvq
      simp only [atomEq, atomBuf, hget, nodeBytes, atomBytes_of_getElem? hget]
      exact rd_bytesEqInt a s e w hs he hlt
  | small v =>
    have hlt := rd_small_lt a v hvp
    cases q with
    | pair j => cases hq
    | bytes j =>
      obtain ⟨s', e', hget', hs', he'⟩ := rd_atomBuf a j hI hvq
      simp only [atomEq, atomBuf, hget', nodeBytes, atomBytes_of_getElem? hget']
      rw [rd_bytesEqInt a s' e' v hs' he' hlt]
      congr 1
      exact decide_eq_decide.2 eq_comm
    | small w =>
      have hlt' := rd_small_lt a w hvq
      simp only [atomEq, nodeBytes, rd_beq_decide]
      congr 1
      exact decide_eq_decide.2 (rd_smallBytes_inj v w (by omega) (by omega)).symm

end Clvm.Alloc
