/-
One step of a history (`Session.step`) outside the defect region of finding C:
the session invariant is preserved, every slot that is still valid afterwards held the same
node before and denotes the same tree, and the counts follow the rule `RefAlloc.after`.
-/
import ClvmProofs.Lemmas.AllocHist

namespace Clvm.Alloc
open Clvm

/-- machine ranges of the integer operands (`u64`, `i64`) -/
def Op.wf : Op → Prop
  | .u64 v => v < 2 ^ 64
  | .i64 v => -(2 : Int) ^ 63 ≤ v ∧ v < (2 : Int) ^ 63
  | _ => True

/-- the step is a `new_substr` inside the defect region of finding C -/
def Session.hitsDefect (s : Session) : Op → Bool
  | .sub x st e =>
    match s.getNode x with
    | some p => substrDefect p st e
    | none => false
  | _ => false

structure StepFacts (s s' : Session) (op : Op) (t : Tag) : Prop where
  sinv : SInv s'
  len : s'.slots.length = s.slots.length + 1
  stable : ∀ (i : Nat) (p : Ptr), i < s.slots.length → s'.getNode i = some p →
    s.getNode i = some p ∧ treeOf s'.a p = treeOf s.a p
  counts : abs s'.a = (abs s.a).after s op t

theorem getNode_push_lt (s : Session) (a' : Alloc) (v : SlotVal) (b : Bool) (i : Nat) (hi : i < s.slots.length) :
    (s.push a' v b).getNode i = s.getNode i := by
  unfold Session.getNode Session.push
  simp only [List.getElem?_append_left hi]

/-- generic append-only step -/
theorem push_facts (s : Session) (hS : SInv s) (a' : Alloc) (hI : Inv a') (hH : HeapOk a') (hE : Ext s.a a')
    (v : SlotVal) (b : Bool) (hv : SlotOk a' v) (op : Op) (t : Tag) (hc : abs a' = (abs s.a).after s op t) :
    StepFacts s (s.push a' v b) op t := by
  refine ⟨hS.push hI hH hE v b hv, by simp [Session.push], ?_, hc⟩
  intro i p hi hg
  rw [getNode_push_lt s a' v b i hi] at hg
  refine ⟨hg, ?_⟩
  obtain ⟨sl, e1, e2⟩ := (getNode_iff s i p).1 hg
  exact hE.treeOf hS.inv (hS.nodes i sl p e1 e2)

theorem after_err (r : RefAlloc) (s : Session) (op : Op) (e : Err) : r.after s op (.err e) = r := rfl

/-- a failed (non-panicking) operation: state unchanged, dead slot -/
theorem fail_facts (s : Session) (hS : SInv s) (op : Op) (e : Err) :
    StepFacts s (s.push s.a .unit false) op (.err e) :=
  push_facts s hS s.a hS.inv hS.heap (Ext.refl' _ _ rfl rfl rfl rfl) .unit false trivial op (.err e) rfl

theorem finish_cases {R : Type} (s : Session) (out : Out R) (k : R → Alloc → Session × Tag) (s' : Session) (t : Tag)
    (h : s.finish out k = .ok (s', t)) :
    (∃ e a', out = (.error e, a') ∧ s' = s.push a' .unit false ∧ t = .err e) ∨
    (∃ r a', out = (.ok r, a') ∧ (s', t) = k r a') := by
  obtain ⟨res, a'⟩ := out
  cases res with
  | ok r => right; refine ⟨r, a', rfl, ?_⟩; simp only [Session.finish] at h; exact (Except.ok.inj h).symm
  | error e =>
    left
    unfold Session.finish at h
    split at h
    · cases h
    · next e' a'' _ heq => cases heq; cases h; exact ⟨_, _, rfl, rfl, rfl⟩
    · next heq => cases heq

/-- node-creating operation that refines a reference operation -/
theorem node_facts (s : Session) (hS : SInv s) (op : Op) (out : Out Ptr) (ref : Except Err (Tree × RefAlloc))
    (href : Refines s.a out ref)
    (hok : ∀ tr r', ref = .ok (tr, r') → r' = (abs s.a).after s op .ok ∧ r'.heapSize ≤ r'.heapLimit)
    (s' : Session) (t : Tag)
    (h : s.finish out (fun p a' => (s.push a' (.node p) true, Tag.ok)) = .ok (s', t)) :
    StepFacts s s' op t := by
  rcases finish_cases s out _ s' t h with ⟨e, a', h1, h2, h3⟩ | ⟨p, a', h1, h2⟩
  · subst h1 h2 h3
    cases ref with
    | ok x => exact absurd href (by simp [Refines])
    | error e' =>
      obtain ⟨_, ha⟩ := href
      subst ha
      exact fail_facts s hS op e
  · subst h1
    cases h2
    cases ref with
    | error e' => exact absurd href (by simp [Refines])
    | ok x =>
      obtain ⟨tr, r'⟩ := x
      obtain ⟨ha, _, hv, hI, hE⟩ := href
      obtain ⟨hr1, hr2⟩ := hok tr r' rfl
      refine push_facts s hS a' hI ?_ hE (.node p) true hv op .ok (by rw [ha, hr1])
      show heapSize a' ≤ a'.heapLimit
      have e1 := congrArg RefAlloc.heapSize ha
      have e2 := congrArg RefAlloc.heapLimit ha
      simp only [abs] at e1 e2
      omega

theorem unit_facts (s : Session) (hS : SInv s) (op : Op) (out : Out Unit) (ref : Except Err RefAlloc)
    (href : RefinesU s.a out ref)
    (hok : ∀ r', ref = .ok r' → r' = (abs s.a).after s op .ok ∧ r'.heapSize ≤ r'.heapLimit)
    (s' : Session) (t : Tag)
    (h : s.finish out (fun _ a' => (s.push a' .unit false, Tag.ok)) = .ok (s', t)) :
    StepFacts s s' op t := by
  rcases finish_cases s out _ s' t h with ⟨e, a', h1, h2, h3⟩ | ⟨p, a', h1, h2⟩
  · subst h1 h2 h3
    cases ref with
    | ok x => exact absurd href (by simp [RefinesU])
    | error e' =>
      obtain ⟨_, ha⟩ := href
      subst ha
      exact fail_facts s hS op e
  · subst h1
    cases h2
    cases ref with
    | error e' => exact absurd href (by simp [RefinesU])
    | ok r' =>
      obtain ⟨ha, hI, hE⟩ := href
      obtain ⟨hr1, hr2⟩ := hok r' rfl
      refine push_facts s hS a' hI ?_ hE .unit false trivial op .ok (by rw [ha, hr1])
      show heapSize a' ≤ a'.heapLimit
      have e1 := congrArg RefAlloc.heapSize ha
      have e2 := congrArg RefAlloc.heapLimit ha
      simp only [abs] at e1 e2
      omega

/-! ### what the reference operations do to the counters when they succeed -/

theorem heapOk_abs {a : Alloc} (h : HeapOk a) : (abs a).heapSize ≤ (abs a).heapLimit := h

theorem ref_newAtom_ok (r : RefAlloc) (b : Bytes) (tr : Tree) (r' : RefAlloc)
    (h : r.newAtom b = .ok (tr, r')) : r' = r.bump 1 b.length ∧ r'.heapSize ≤ r'.heapLimit := by
  unfold RefAlloc.newAtom at h
  split at h
  · cases h
  · split at h
    · cases h
    · cases h; exact ⟨rfl, by simp only []; omega⟩

theorem ref_newPair_ok (r : RefAlloc) (x y tr : Tree) (r' : RefAlloc) (hr : r.heapSize ≤ r.heapLimit)
    (h : r.newPair x y = .ok (tr, r')) :
    r' = { r with pairCount := r.pairCount + 1 } ∧ r'.heapSize ≤ r'.heapLimit := by
  unfold RefAlloc.newPair at h
  split at h
  · cases h
  · cases h; exact ⟨rfl, hr⟩

theorem ref_newSubstr_ok (r : RefAlloc) (x : Tree) (st e : Nat) (tr : Tree) (r' : RefAlloc)
    (hr : r.heapSize ≤ r.heapLimit) (h : r.newSubstr x st e = .ok (tr, r')) :
    r' = r.bump 1 0 ∧ r'.heapSize ≤ r'.heapLimit := by
  unfold RefAlloc.newSubstr at h
  split at h
  · cases h
  · split at h
    · cases h
    · split at h
      · cases h
      · cases h; exact ⟨rfl, hr⟩

theorem ref_newConcat_ok (r : RefAlloc) (n : Nat) (ts : List Tree) (tr : Tree) (r' : RefAlloc)
    (h : r.newConcat n ts = .ok (tr, r')) : r' = r.bump 1 n ∧ r'.heapSize ≤ r'.heapLimit := by
  unfold RefAlloc.newConcat at h
  split at h
  · cases h
  · split at h
    · cases h
    · split at h
      · cases h
      · split at h
        · cases h
        · cases h; exact ⟨rfl, by simp only []; omega⟩

theorem ref_addGhostAtom_ok (r : RefAlloc) (n : Nat) (r' : RefAlloc) (hr : r.heapSize ≤ r.heapLimit)
    (h : r.addGhostAtom n = .ok r') : r' = r.bump n 0 ∧ r'.heapSize ≤ r'.heapLimit := by
  unfold RefAlloc.addGhostAtom at h
  split at h
  · cases h
  · cases h; exact ⟨rfl, hr⟩

theorem ref_addGhostPair_ok (r : RefAlloc) (n : Nat) (r' : RefAlloc) (hr : r.heapSize ≤ r.heapLimit)
    (h : r.addGhostPair n = .ok r') :
    r' = { r with pairCount := r.pairCount + n } ∧ r'.heapSize ≤ r'.heapLimit := by
  unfold RefAlloc.addGhostPair at h
  split at h
  · cases h
  · cases h; exact ⟨rfl, hr⟩

theorem newConcat_single_pair (a : Alloc) (n i : Nat) : ∃ e, newConcat a n [.pair i] = (.error e, a) := by
  unfold newConcat
  cases checkAtomLimit a with
  | error e => exact ⟨e, rfl⟩
  | ok u =>
    simp only [atomLen]
    split
    · exact ⟨_, rfl⟩
    · exact ⟨_, rfl⟩

/-- generic restoring step -/
theorem restore_facts (s : Session) (hS : SInv s) (k : Nat) (slk : Slot) (c : TCheckpoint)
    (hk : s.slots[k]? = some slk) (hc : slotTcp slk = some c)
    (a' : Alloc) (hI : Inv a') (hH : HeapOk a') (hlim : a'.heapLimit = s.a.heapLimit)
    (hnodes : ∀ p, ValidAt c p → Valid a' p ∧ treeOf a' p = treeOf s.a p)
    (hcps : ∀ c', TCpValid s.a c' → c'.le c → TCpValid a' c')
    (v : SlotVal) (valid : Bool) (hv : match v with | .node q => Valid a' q | .unit => True | _ => False)
    (op : Op) (t : Tag) (hcnt : abs a' = (abs s.a).after s op t) :
    StepFacts s { a := a', slots := invalidateAfter s.slots k ++ [⟨v, valid⟩] } op t := by
  refine ⟨hS.restore k slk c hk hc a' hI hH hlim (fun p hp => (hnodes p hp).1) hcps v valid hv,
    by simp [invalidateAfter_length], ?_, hcnt⟩
  intro i p hi hg
  have hg' := (getNode_iff (Session.mk a' (invalidateAfter s.slots k ++ [⟨v, valid⟩])) i p).1 hg
  obtain ⟨sl, e1, e2⟩ := hg'
  simp only at e1
  rw [List.getElem?_append_left (by rw [invalidateAfter_length]; exact hi)] at e1
  rcases invalidateAfter_get _ _ _ _ e1 with ⟨hik, h1⟩ | h1
  · refine ⟨(getNode_iff s i p).2 ⟨sl, h1, e2⟩, ?_⟩
    have hne : i ≠ k := by
      intro heq; subst heq
      rw [hk] at h1
      have hsl : slk = sl := Option.some.inj h1
      subst hsl
      unfold slotTcp at hc; unfold slotNode at e2
      obtain ⟨vv, b⟩ := slk
      cases b with
      | false => simp at e2
      | true => cases vv <;> simp at hc e2
    exact (hnodes p (hS.older i k sl slk p c (by omega) h1 hk e2 hc)).2
  · rw [slotNode_invalid h1] at e2; cases e2

/-- **one step of a history** -/
theorem step_facts (s : Session) (hS : SInv s) (op : Op) (hw : op.wf) (hd : s.hitsDefect op = false)
    (s' : Session) (t : Tag) (h : s.step op = .ok (s', t)) : StepFacts s s' op t := by
  have hr := heapOk_abs hS.heap
  cases op with
  | atom b =>
    exact node_facts s hS (.atom b) _ _ (newAtom_refines s.a b hS.inv)
      (fun tr r' e => ref_newAtom_ok _ _ _ _ e) s' t h
  | small v =>
    by_cases hv : v ≤ idxMask
    · exact node_facts s hS (.small v) _ _ (newSmallNumber_refines s.a v hS.inv hv)
        (fun tr r' e => ref_newAtom_ok _ _ _ _ e) s' t h
    · simp only [Session.step, newSmallNumber, if_pos (Nat.lt_of_not_le hv), Session.finish] at h
      cases h
  | u64 v =>
    exact node_facts s hS (.u64 v) _ _ (newU64_refines s.a v hS.inv hw)
      (fun tr r' e => ref_newAtom_ok _ _ _ _ e) s' t h
  | i64 v =>
    exact node_facts s hS (.i64 v) _ _ (newI64_refines s.a v hS.inv hw.1 hw.2)
      (fun tr r' e => ref_newAtom_ok _ _ _ _ e) s' t h
  | num v =>
    exact node_facts s hS (.num v) _ _ (newNumber_refines s.a v hS.inv)
      (fun tr r' e => ref_newAtom_ok _ _ _ _ e) s' t h
  | pair x y =>
    simp only [Session.step] at h
    cases hx : s.getNode x with
    | none =>
      rw [hx] at h; simp only [Session.skip] at h; cases h
      exact push_facts s hS s.a hS.inv hS.heap (Ext.refl' _ _ rfl rfl rfl rfl) .unit false trivial _ _ rfl
    | some p =>
      cases hy : s.getNode y with
      | none =>
        rw [hx, hy] at h; simp only [Session.skip] at h; cases h
        exact push_facts s hS s.a hS.inv hS.heap (Ext.refl' _ _ rfl rfl rfl rfl) .unit false trivial _ _ rfl
      | some q =>
        rw [hx, hy] at h
        obtain ⟨sl, e1, e2⟩ := (getNode_iff s x p).1 hx
        obtain ⟨sl', e3, e4⟩ := (getNode_iff s y q).1 hy
        exact node_facts s hS (.pair x y) _ _ (newPair_refines s.a p q hS.inv (hS.nodes x sl p e1 e2) (hS.nodes y sl' q e3 e4))
          (fun tr r' e => ref_newPair_ok _ _ _ _ _ hr e) s' t h
  | sub x st e =>
    simp only [Session.step] at h
    cases hx : s.getNode x with
    | none =>
      rw [hx] at h; simp only [Session.skip] at h; cases h
      exact push_facts s hS s.a hS.inv hS.heap (Ext.refl' _ _ rfl rfl rfl rfl) .unit false trivial _ _ rfl
    | some p =>
      rw [hx] at h
      obtain ⟨sl, e1, e2⟩ := (getNode_iff s x p).1 hx
      have hd' : substrDefect p st e = false := by simpa [Session.hitsDefect, hx] using hd
      exact node_facts s hS (.sub x st e) _ _ (newSubstr_refines s.a p st e hS.inv (hS.nodes x sl p e1 e2) hd')
        (fun tr r' e => ref_newSubstr_ok _ _ _ _ _ _ hr e) s' t h
  | cat n xs =>
    simp only [Session.step] at h
    cases hx : s.getNodes xs with
    | none =>
      rw [hx] at h; simp only [Session.skip] at h; cases h
      exact push_facts s hS s.a hS.inv hS.heap (Ext.refl' _ _ rfl rfl rfl rfl) .unit false trivial _ _ rfl
    | some ps =>
      rw [hx] at h
      simp only [] at h
      have hvs := getNodes_valid s hS xs ps hx
      by_cases hsingle : ∃ i, ps = [.pair i]
      · obtain ⟨i, rfl⟩ := hsingle
        obtain ⟨e, he⟩ := newConcat_single_pair s.a n i
        rw [he] at h
        rcases finish_cases s _ _ s' t h with ⟨e', a', h1, h2, h3⟩ | ⟨p, a', h1, _⟩
        · cases h1; subst h2 h3; exact fail_facts s hS _ e
        · cases h1
      · exact node_facts s hS (.cat n xs) _ _
          (newConcat_refines s.a n ps hS.inv hvs (fun i hi => hsingle ⟨i, hi⟩))
          (fun tr r' e => ref_newConcat_ok _ _ _ _ _ e) s' t h
  | gatom n =>
    exact unit_facts s hS (.gatom n) _ _ (addGhostAtom_refines s.a n hS.inv)
      (fun r' e => ref_addGhostAtom_ok _ _ _ hr e) s' t h
  | gpair n =>
    exact unit_facts s hS (.gpair n) _ _ (addGhostPair_refines s.a n hS.inv)
      (fun r' e => ref_addGhostPair_ok _ _ _ hr e) s' t h
  | rgpair n =>
    by_cases hn : n ≤ s.a.ghostPairs
    · exact unit_facts s hS (.rgpair n) _ _ (removeGhostPair_refines s.a n hS.inv hn)
        (fun r' e => by cases e; exact ⟨rfl, hr⟩) s' t h
    · simp only [Session.step, removeGhostPair, if_pos (Nat.lt_of_not_le hn), Session.finish] at h
      cases h
  | cp =>
    simp only [Session.step] at h; cases h
    exact push_facts s hS s.a hS.inv hS.heap (Ext.refl' _ _ rfl rfl rfl rfl) (.cp (checkpoint s.a)) true rfl
      .cp .ok rfl
  | tcp =>
    simp only [Session.step] at h; cases h
    exact push_facts s hS s.a hS.inv hS.heap (Ext.refl' _ _ rfl rfl rfl rfl) (.tcp (transparentCheckpoint s.a))
      true rfl .tcp .ok rfl
  | rst k =>
    simp only [Session.step] at h
    cases hk : s.getCp k with
    | none =>
      rw [hk] at h; simp only [Session.skip] at h; cases h
      exact push_facts s hS s.a hS.inv hS.heap (Ext.refl' _ _ rfl rfl rfl rfl) .unit false trivial _ _ rfl
    | some c =>
      rw [hk] at h
      simp only [] at h
      have hslot := getCp_slot s k c hk
      have htc : slotTcp ⟨.cp c, true⟩ = some c.inner := rfl
      have hcaps := hS.caps k c hslot
      have hcv : CpValid s.a c := ⟨hS.tcps k _ _ hslot htc, hcaps.1, hcaps.2.1⟩
      rw [restoreCheckpoint_eq s.a c hcv] at h
      simp only [Session.finish] at h
      cases h
      have ⟨c1, c2, c3⟩ := restoredC_counts s.a c hcv
      refine restore_facts s hS k _ c.inner hslot htc _ (restoredC_inv s.a c hS.inv hcv) ?_ rfl
        (fun p hp => ⟨restoredC_valid s.a c hcv hp, restoredC_treeOf s.a c hcv hp⟩)
        (fun c' h1 h2 => restoredC_tcpValid s.a c c' hcv h1 h2) .unit false trivial _ _ ?_
      · show heapSize (restoredC s.a c) ≤ s.a.heapLimit
        rw [c3]; exact hcaps.2.2
      · simp only [RefAlloc.after, hk]
        unfold abs
        rw [c1, c2, c3]
        rfl
  | trst k =>
    simp only [Session.step] at h
    cases hk : s.getTcp k with
    | none =>
      rw [hk] at h; simp only [Session.skip] at h; cases h
      exact push_facts s hS s.a hS.inv hS.heap (Ext.refl' _ _ rfl rfl rfl rfl) .unit false trivial _ _ rfl
    | some c =>
      rw [hk] at h
      simp only [] at h
      have hslot := getTcp_slot s k c hk
      have htc : slotTcp ⟨.tcp c, true⟩ = some c := rfl
      have hcv : TCpValid s.a c := hS.tcps k _ _ hslot htc
      rw [restoreTransparent_eq s.a c hcv] at h
      simp only [Session.finish] at h
      cases h
      have hw' := restoredT_restoredWith s.a c (.small 0) hS.inv hcv (by show (0 : Nat) ≤ idxMask; omega)
      exact restore_facts s hS k _ c hslot htc _ hw'.inv (hw'.heapOk hS.heap) rfl hw'.older hw'.cps .unit false trivial _ _
        hw'.counts
  | mrst k x =>
    simp only [Session.step] at h
    cases hk : s.getTcp k with
    | none =>
      rw [hk] at h; simp only [Session.skip] at h; cases h
      exact push_facts s hS s.a hS.inv hS.heap (Ext.refl' _ _ rfl rfl rfl rfl) .unit false trivial _ _ rfl
    | some c =>
      cases hx : s.getNode x with
      | none =>
        rw [hk, hx] at h; simp only [Session.skip] at h; cases h
        exact push_facts s hS s.a hS.inv hS.heap (Ext.refl' _ _ rfl rfl rfl rfl) .unit false trivial _ _ rfl
      | some p =>
        rw [hk, hx] at h
        simp only [] at h
        have hslot := getTcp_slot s k c hk
        have htc : slotTcp ⟨.tcp c, true⟩ = some c := rfl
        have hcv : TCpValid s.a c := hS.tcps k _ _ hslot htc
        obtain ⟨sl, e1, e2⟩ := (getNode_iff s x p).1 hx
        obtain ⟨r, a', hm, hout⟩ := maybeRestore_ok s.a c p hS.inv hcv (hS.nodes x sl p e1 e2)
        rw [hm] at h
        simp only [Session.finish] at h
        cases hout with
        | aborted =>
          cases h
          exact push_facts s hS s.a hS.inv hS.heap (Ext.refl' _ _ rfl rfl rfl rfl) .unit false trivial _ _ rfl
        | noReplace _ hw' =>
          cases h
          have hlim : a'.heapLimit = s.a.heapLimit := congrArg RefAlloc.heapLimit hw'.counts
          exact restore_facts s hS k _ c hslot htc _ hw'.inv (hw'.heapOk hS.heap) hlim hw'.older hw'.cps (.node p) true
            hw'.valid _ _ hw'.counts
        | replace _ q _ hw' =>
          cases h
          have hlim : a'.heapLimit = s.a.heapLimit := congrArg RefAlloc.heapLimit hw'.counts
          exact restore_facts s hS k _ c hslot htc _ hw'.inv (hw'.heapOk hS.heap) hlim hw'.older hw'.cps (.node q) true
            hw'.valid _ _ hw'.counts

/-! ### histories -/

/-- no step of the history is a `new_substr` inside the defect region -/
def NoDefect : Session → List Op → Prop
  | _, [] => True
  | s, op :: ops => s.hitsDefect op = false ∧ ∀ s' t, s.step op = .ok (s', t) → NoDefect s' ops

/-- the reported count triples follow the accounting rule `RefAlloc.after` -/
def CountsFollow : RefAlloc → Session → List Op → List (Tag × Nat × Nat × Nat) → Prop
  | _, _, [], [] => True
  | r, s, op :: ops, (t, ac, pc, hs) :: ts =>
    ac = (r.after s op t).atomCount ∧ pc = (r.after s op t).pairCount ∧ hs = (r.after s op t).heapSize ∧
    ∀ s', s.step op = .ok (s', t) → CountsFollow (r.after s op t) s' ops ts
  | _, _, _, _ => False

theorem run_cons (s : Session) (op : Op) (ops : List Op) (sf : Session) (ts : List (Tag × Nat × Nat × Nat))
    (h : s.run (op :: ops) = .ok (sf, ts)) :
    ∃ s1 t ts', s.step op = .ok (s1, t) ∧ s1.run ops = .ok (sf, ts') ∧
      ts = (t, atomCount s1.a, pairCount s1.a, heapSize s1.a) :: ts' := by
  simp only [Session.run] at h
  cases hst : s.step op with
  | error e => rw [hst] at h; cases h
  | ok x =>
    obtain ⟨s1, t⟩ := x
    rw [hst] at h
    simp only at h
    cases hr : s1.run ops with
    | error e => rw [hr] at h; cases h
    | ok y =>
      obtain ⟨s2, ts'⟩ := y
      rw [hr] at h
      simp only at h
      cases h
      exact ⟨s1, t, ts', rfl, hr, rfl⟩

/-- **every state reachable by a defect-free history satisfies the invariant** (counts within the
caps, heap within its limit, every published node and checkpoint valid) -/
theorem run_sinv : ∀ (ops : List Op) (s : Session), SInv s → (∀ op ∈ ops, op.wf) → NoDefect s ops →
    ∀ sf ts, s.run ops = .ok (sf, ts) → SInv sf := by
  intro ops
  induction ops with
  | nil => intro s hS _ _ sf ts h; simp only [Session.run] at h; cases h; exact hS
  | cons op ops ih =>
    intro s hS hw hd sf ts h
    obtain ⟨s1, t, ts', h1, h2, _⟩ := run_cons s op ops sf ts h
    have hf := step_facts s hS op (hw op (by simp)) hd.1 s1 t h1
    exact ih s1 hf.sinv (fun o ho => hw o (by simp [ho])) (hd.2 s1 t h1) sf ts' h2

/-- **immutability along histories**: a slot that is valid at the end held the same node at every
earlier point and denotes the same tree as it did then -/
theorem run_stable : ∀ (ops : List Op) (s : Session), SInv s → (∀ op ∈ ops, op.wf) → NoDefect s ops →
    ∀ sf ts, s.run ops = .ok (sf, ts) → ∀ (i : Nat) (p : Ptr), i < s.slots.length → sf.getNode i = some p →
      s.getNode i = some p ∧ treeOf sf.a p = treeOf s.a p := by
  intro ops
  induction ops with
  | nil => intro s _ _ _ sf ts h i p _ hg; simp only [Session.run] at h; cases h; exact ⟨hg, rfl⟩
  | cons op ops ih =>
    intro s hS hw hd sf ts h i p hi hg
    obtain ⟨s1, t, ts', h1, h2, _⟩ := run_cons s op ops sf ts h
    have hf := step_facts s hS op (hw op (by simp)) hd.1 s1 t h1
    have ⟨g1, t1⟩ := ih s1 hf.sinv (fun o ho => hw o (by simp [ho])) (hd.2 s1 t h1) sf ts' h2 i p
      (by rw [hf.len]; omega) hg
    have ⟨g0, t0⟩ := hf.stable i p hi g1
    exact ⟨g0, by rw [t1, t0]⟩

/-- **the counts of a defect-free history evolve by the rule of C12** -/
theorem run_counts : ∀ (ops : List Op) (s : Session), SInv s → (∀ op ∈ ops, op.wf) → NoDefect s ops →
    ∀ sf ts, s.run ops = .ok (sf, ts) → CountsFollow (abs s.a) s ops ts := by
  intro ops
  induction ops with
  | nil => intro s _ _ _ sf ts h; simp only [Session.run] at h; cases h; trivial
  | cons op ops ih =>
    intro s hS hw hd sf ts h
    obtain ⟨s1, t, ts', h1, h2, h3⟩ := run_cons s op ops sf ts h
    have hf := step_facts s hS op (hw op (by simp)) hd.1 s1 t h1
    subst h3
    have hc := hf.counts
    refine ⟨?_, ?_, ?_, ?_⟩
    · rw [← hc]; rfl
    · rw [← hc]; rfl
    · rw [← hc]; rfl
    · intro s1' h1'
      rw [h1] at h1'
      cases h1'
      rw [← hc]
      exact ih s1 hf.sinv (fun o ho => hw o (by simp [ho])) (hd.2 s1 t h1) sf ts' h2

/-! ### small facts used by the property files -/

/-- a fresh allocator satisfies the invariant (the heap part needs `limit ≥ 1`: the allocator
starts with `ghost_heap = 1`) -/
theorem inv_newLimited (limit : Nat) (a0 : Alloc) (h : newLimited limit = .ok a0) (hl : Gen.initGhostHeap ≤ limit) :
    Inv a0 ∧ HeapOk a0 := by
  unfold newLimited at h
  split at h
  · cases h
  · next hle =>
    cases h
    refine ⟨⟨Closed.nil _, ?_, ?_, ?_⟩, hl⟩
    · show ([] : List (Nat × Nat)).length + Gen.initGhostAtoms ≤ Gen.maxNumAtoms; decide
    · show ([] : List (Ptr × Ptr)).length + Gen.initGhostPairs ≤ Gen.maxNumPairs; decide
    · show limit ≤ u32Max; omega

theorem heapLimit_newLimited (limit : Nat) (a0 : Alloc) (h : newLimited limit = .ok a0) : a0.heapLimit = limit := by
  unfold newLimited at h
  split at h
  · cases h
  · cases h; rfl

theorem kind_oom {e : Err} (h : e.kind = Err.OutOfMemory.kind) : e = .OutOfMemory := by
  cases e <;> first | rfl | (simp [Err.kind] at h)

theorem kind_atoms {e : Err} (h : e.kind = Err.TooManyAtoms.kind) : e = .TooManyAtoms := by
  cases e <;> first | rfl | (simp [Err.kind] at h)

theorem kind_pairs {e : Err} (h : e.kind = Err.TooManyPairs.kind) : e = .TooManyPairs := by
  cases e <;> first | rfl | (simp [Err.kind] at h)

theorem refines_error {a : Alloc} {out : Out Ptr} {ref : Except Err (Tree × RefAlloc)} {e' : Err}
    (h : Refines a out ref) (hr : ref = .error e') : ∃ e, out = (.error e, a) ∧ e.kind = e'.kind := by
  subst hr
  obtain ⟨res, a'⟩ := out
  cases res with
  | ok p => exact absurd h (by simp [Refines])
  | error e => exact ⟨e, by rw [show a' = a from h.2], h.1⟩

theorem refines_ok {a : Alloc} {out : Out Ptr} {ref : Except Err (Tree × RefAlloc)} {x : Tree × RefAlloc}
    (h : Refines a out ref) (hr : ref = .ok x) : ∃ p a', out = (.ok p, a') := by
  subst hr
  obtain ⟨res, a'⟩ := out
  cases res with
  | ok p => exact ⟨p, a', rfl⟩
  | error e => exact absurd h (by simp [Refines])

theorem after_heapLimit (r : RefAlloc) (s : Session) (op : Op) (t : Tag) : (r.after s op t).heapLimit = r.heapLimit := by
  unfold RefAlloc.after
  cases t <;> cases op <;> simp only [RefAlloc.bump] <;> (try split) <;> rfl

/-- the heap limit never changes along a history -/
theorem run_heapLimit : ∀ (ops : List Op) (s sf : Session) (ts : List (Tag × Nat × Nat × Nat)), SInv s →
    (∀ op ∈ ops, op.wf) → NoDefect s ops → s.run ops = .ok (sf, ts) → sf.a.heapLimit = s.a.heapLimit := by
  intro ops
  induction ops with
  | nil => intro s sf ts _ _ _ h; simp only [Session.run] at h; cases h; rfl
  | cons op ops ih =>
    intro s sf ts hS hw hd h
    obtain ⟨s1, t, ts', h1, h2, _⟩ := run_cons s op ops sf ts h
    have hf := step_facts s hS op (hw op (by simp)) hd.1 s1 t h1
    rw [ih s1 sf ts' hf.sinv (fun o ho => hw o (by simp [ho])) (hd.2 s1 t h1) h2]
    have hc := congrArg RefAlloc.heapLimit hf.counts
    rw [after_heapLimit] at hc
    exact hc

end Clvm.Alloc
