/-
Wire level of serde_2026: what the writer emits (`wv`, `writeInstructions`, `writeGroups`) is read back
by the decoder's loops and by the length probe, in strict and in lenient mode (via C21 `read_write`).
-/
import ClvmProofs.Lemmas.Serde2026De
import ClvmProofs.Props.C21

namespace Clvm.Serde2026
open Clvm Clvm.Intern Clvm.Varint

/-- C21 round trip for the serializer's `write_varint` calls -/
theorem read_wv {v : Int} {b : Bytes} (h : wv v = .ok b) (strict : Bool) (rest : Bytes) :
    readVarint strict (b ++ rest) = .ok (v, rest) := by
  unfold wv at h
  split at h
  · rename_i b' hb
    cases h
    have hr := (Props.C21.write_total_iff v).1 ⟨b, hb⟩
    obtain ⟨b2, hb2, hread⟩ := Props.C21.read_write v hr rest strict
    rw [hb] at hb2; cases hb2
    exact hread
  · cases h

/-- list-level semantics of the instruction stream: the decoder's `match inst` folded over a list -/
def execList (atoms : List Bytes) : List Int → DState → Except Err DState
  | [], s => .ok s
  | inst :: rest, s =>
    match execInst atoms s inst with
    | .error e => .error e
    | .ok s' => execList atoms rest s'

/-- the decoder's instruction loop on written instructions is the list-level execution -/
theorem runInstructions_written {atoms : List Bytes} {strict : Bool} :
    ∀ (is : List Int) (bs rest : Bytes) (s : DState), writeInstructions is = .ok bs →
      runInstructions atoms strict is.length (bs ++ rest) s =
        match execList atoms is s with
        | .error e => .error e
        | .ok s' => .ok (rest, s') := by
  intro is
  induction is with
  | nil =>
    intro bs rest s h
    rw [writeInstructions] at h; cases h
    simp [runInstructions, execList]
  | cons inst tl ih =>
    intro bs rest s h
    rw [writeInstructions] at h
    split at h
    · cases h
    · rename_i b hb
      split at h
      · cases h
      · rename_i t ht
        cases h
        simp only [List.length_cons, List.append_assoc]
        rw [runInstructions, read_wv hb strict (t ++ rest)]
        simp only [execList]
        cases he : execInst atoms s inst with
        | error e => rfl
        | ok s' => simp only; exact ih t rest s' ht

/-- the probe skips written instructions -/
theorem lenInstructions_written {strict : Bool} :
    ∀ (is : List Int) (bs rest : Bytes), writeInstructions is = .ok bs →
      lenInstructions strict is.length (bs ++ rest) = .ok rest := by
  intro is
  induction is with
  | nil =>
    intro bs rest h
    rw [writeInstructions] at h; cases h
    simp [lenInstructions]
  | cons inst tl ih =>
    intro bs rest h
    rw [writeInstructions] at h
    split at h
    · cases h
    · rename_i b hb
      split at h
      · cases h
      · rename_i t ht
        cases h
        simp only [List.length_cons, List.append_assoc]
        rw [lenInstructions, read_wv hb strict (t ++ rest)]
        exact ih t rest ht

end Clvm.Serde2026
