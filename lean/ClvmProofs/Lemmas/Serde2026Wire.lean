/-
Wire level of serde_2026: what the writer emits (`wv`, `writeInstructions`, `writeGroups`) is read back
by the decoder's loops and by the length probe, in strict and in lenient mode (via C21 `read_write`).
-/
import ClvmProofs.Lemmas.Serde2026De
import ClvmProofs.Props.C21

namespace Clvm.Serde2026
open Clvm Clvm.Intern Clvm.Varint

/-- C21 round trip for the serializer's `write_varint` calls -/
theorem read_wv {v : Int} {b : Bytes} (h : wv v = .ok b) (strict : Bool) (rest : Bytes) :
    readVarint strict (b ++ rest) = .ok (v, rest) := by
  unfold wv at h
  split at h
  · rename_i b' hb
    cases h
    have hr := (Props.C21.write_total_iff v).1 ⟨b, hb⟩
    obtain ⟨b2, hb2, hread⟩ := Props.C21.read_write v hr rest strict
    rw [hb] at hb2; cases hb2
    exact hread
  · cases h

/-- list-level semantics of the instruction stream: the decoder's `match inst` folded over a list -/
def execList (atoms : List Bytes) : List Int → DState → Except Err DState
  | [], s => .ok s
  | inst :: rest, s =>
    match execInst atoms s inst with
    | .error e => .error e
    | .ok s' => execList atoms rest s'

/-- the decoder's instruction loop on written instructions is the list-level execution -/
theorem runInstructions_written {atoms : List Bytes} {strict : Bool} :
    ∀ (is : List Int) (bs rest : Bytes) (s : DState), writeInstructions is = .ok bs →
      runInstructions atoms strict is.length (bs ++ rest) s =
        match execList atoms is s with
        | .error e => .error e
        | .ok s' => .ok (rest, s') := by
  intro is
  induction is with
  | nil =>
    intro bs rest s h
    rw [writeInstructions] at h; cases h
    simp [runInstructions, execList]
  | cons inst tl ih =>
    intro bs rest s h
    rw [writeInstructions] at h
    split at h
    · cases h
    · rename_i b hb
      split at h
      · cases h
      · rename_i t ht
        cases h
        simp only [List.length_cons, List.append_assoc]
        rw [runInstructions, read_wv hb strict (t ++ rest)]
        simp only [execList]
        cases he : execInst atoms s inst with
        | error e => rfl
        | ok s' => simp only; exact ih t rest s' ht

/-- the probe skips written instructions -/
theorem lenInstructions_written {strict : Bool} :
    ∀ (is : List Int) (bs rest : Bytes), writeInstructions is = .ok bs →
      lenInstructions strict is.length (bs ++ rest) = .ok rest := by
  intro is
  induction is with
  | nil =>
    intro bs rest h
    rw [writeInstructions] at h; cases h
    simp [lenInstructions]
  | cons inst tl ih =>
    intro bs rest h
    rw [writeInstructions] at h
    split at h
    · cases h
    · rename_i b hb
      split at h
      · cases h
      · rename_i t ht
        cases h
        simp only [List.length_cons, List.append_assoc]
        rw [lenInstructions, read_wv hb strict (t ++ rest)]
        exact ih t rest ht

end Clvm.Serde2026

namespace Clvm.Serde2026
open Clvm Clvm.Intern Clvm.Varint

theorem wv_range {v : Int} {b : Bytes} (h : wv v = .ok b) : -(2 : Int) ^ 55 ≤ v ∧ v < (2 : Int) ^ 55 := by
  unfold wv at h
  split at h
  · rename_i b' hb; exact (Props.C21.write_total_iff v).1 ⟨b', hb⟩
  · cases h

/-- room in the caller's allocator for `n` more atoms totalling `bytes` bytes -/
def Room (c : Counters) (bytes n : Nat) : Prop := c.heap + bytes ≤ c.heapLimit ∧ c.atoms + n ≤ Gen.maxNumAtoms

/-- counters after `n` more atoms totalling `bytes` bytes -/
def bumpAtoms (c : Counters) (bytes n : Nat) : Counters := { c with heap := c.heap + bytes, atoms := c.atoms + n }

theorem bumpAtoms_zero (c : Counters) : bumpAtoms c 0 0 = c := by cases c; rfl

theorem bumpAtoms_bumpAtoms (c : Counters) (a m b n : Nat) :
    bumpAtoms (bumpAtoms c a m) b n = bumpAtoms c (a + b) (m + n) := by
  simp [bumpAtoms, Nat.add_assoc]

/-- reading back the atoms of one group -/
theorem readAtoms_written {length : Nat} : ∀ (as : List Bytes) (rest : Bytes) (ctr : Counters) (acc : List Bytes),
    (∀ a ∈ as, a.length = length) → Room ctr (length * as.length) as.length →
    readAtoms length as.length (as.flatten ++ rest) ctr acc =
      .ok (rest, bumpAtoms ctr (length * as.length) as.length, acc ++ as) := by
  intro as
  induction as with
  | nil => intro rest ctr acc _ _; simp [readAtoms, bumpAtoms_zero]
  | cons a tl ih =>
    intro rest ctr acc hlen hroom
    have ha : a.length = length := hlen a (by simp)
    have htl : ∀ x ∈ tl, x.length = length := fun x hx => hlen x (by simp [hx])
    simp only [List.length_cons, List.flatten_cons, List.append_assoc]
    rw [readAtoms]
    have h1 : ¬ ((a ++ (tl.flatten ++ rest)).length < length) := by simp; omega
    rw [if_neg h1]
    obtain ⟨r1, r2⟩ := hroom
    simp only [List.length_cons, Nat.mul_succ] at r1 r2
    have hna : ctr.newAtom length = .ok (bumpAtoms ctr length 1) := by
      unfold Counters.newAtom
      have c1 : ¬ (ctr.heap + length > ctr.heapLimit) := by omega
      have c2 : (ctr.atoms == Gen.maxNumAtoms) = false := by simp; omega
      simp [c1, c2, bumpAtoms]
    rw [hna]
    simp only
    have hd : (a ++ (tl.flatten ++ rest)).drop length = tl.flatten ++ rest := by
      rw [← ha]; simp
    have ht : (a ++ (tl.flatten ++ rest)).take length = a := by
      rw [← ha]; simp
    rw [hd, ht, ih rest (bumpAtoms ctr length 1) (acc ++ [a]) htl ⟨by simp [bumpAtoms]; omega, by simp [bumpAtoms]; omega⟩]
    rw [bumpAtoms_bumpAtoms]
    have e1 : length + length * tl.length = length * (tl.length + 1) := by rw [Nat.mul_succ]; omega
    have e2 : 1 + tl.length = tl.length + 1 := by omega
    rw [e1, e2]
    simp

/-- a group as the serializer writes it: non-empty, uniform non-zero length within the bounds -/
def GroupOK (mal : Nat) (g : Nat × List Bytes) : Prop :=
  g.2 ≠ [] ∧ (∀ a ∈ g.2, a.length = g.1) ∧ 1 ≤ g.1 ∧ g.1 ≤ mal

def groupBytes (groups : List (Nat × List Bytes)) : Nat := (groups.map fun g => g.1 * g.2.length).sum
def groupAtomCount (groups : List (Nat × List Bytes)) : Nat := (groups.map fun g => g.2.length).sum

theorem groupBytes_cons (g : Nat × List Bytes) (tl : List (Nat × List Bytes)) :
    groupBytes (g :: tl) = g.1 * g.2.length + groupBytes tl := by simp [groupBytes]

theorem groupAtomCount_cons (g : Nat × List Bytes) (tl : List (Nat × List Bytes)) :
    groupAtomCount (g :: tl) = g.2.length + groupAtomCount tl := by simp [groupAtomCount]

theorem checkedUsize_nat (n : Nat) : checkedUsize (n : Int) = .ok n := by
  unfold checkedUsize
  have : ¬ ((n : Int) < 0) := by omega
  simp [this]

theorem checkedBoundedUsize_nat (n m : Nat) (h : n ≤ m) : checkedBoundedUsize (n : Int) m = .ok n := by
  unfold checkedBoundedUsize
  rw [checkedUsize_nat]
  simp only
  rw [if_neg (by omega)]

/-- the decoder reads back a written atom table -/
theorem readGroups_written {mal : Nat} {strict : Bool} :
    ∀ (groups : List (Nat × List Bytes)) (bs rest : Bytes) (ctr : Counters) (acc : List Bytes),
    (∀ g ∈ groups, GroupOK mal g) → writeGroups groups = .ok bs →
    Room ctr (groupBytes groups) (groupAtomCount groups) →
    readGroups mal strict groups.length (bs ++ rest) ctr acc =
      .ok (rest, bumpAtoms ctr (groupBytes groups) (groupAtomCount groups), acc ++ groups.flatMap (·.2)) := by
  intro groups
  induction groups with
  | nil =>
    intro bs rest ctr acc _ h _
    rw [writeGroups] at h; cases h
    simp [readGroups, groupBytes, groupAtomCount, bumpAtoms_zero]
  | cons g tl ih =>
    intro bs rest ctr acc hok h hroom
    obtain ⟨length, as⟩ := g
    obtain ⟨hne, hlen, h1, hmal⟩ := hok (length, as) (by simp)
    simp only at hne hlen h1 hmal
    have hoktl : ∀ g ∈ tl, GroupOK mal g := fun g hg => hok g (by simp [hg])
    obtain ⟨r1, r2⟩ := hroom
    rw [groupBytes_cons] at r1
    rw [groupAtomCount_cons] at r2
    simp only at r1 r2
    have hasl : as.length ≠ 0 := by intro h0; exact hne (List.length_eq_zero_iff.1 h0)
    have hz1 : (length == 0) = false := by
      cases hq : (length == 0) with
      | false => rfl
      | true => have := beq_iff_eq.1 hq; omega
    have hz2 : (as.length == 0) = false := by
      cases hq : (as.length == 0) with
      | false => rfl
      | true => exact absurd (beq_iff_eq.1 hq) hasl
    have hz : (length == 0 || as.length == 0) = false := by rw [hz1, hz2]; rfl
    have hroomA : Room ctr (length * as.length) as.length := ⟨by omega, by omega⟩
    have hroomT : Room (bumpAtoms ctr (length * as.length) as.length) (groupBytes tl) (groupAtomCount tl) := by
      unfold Room bumpAtoms
      simp only
      constructor <;> omega
    -- the header, in either form, reads back as (length, |as|)
    have hhdr : ∃ hb t, writeGroups tl = .ok t ∧ bs = hb ++ as.flatten ++ t ∧
        ∀ tail, readGroupHeader mal strict (hb ++ tail) = .ok (length, as.length, tail) := by
      have hposform : ∀ (b : Bytes), wv (length : Int) = .ok b →
          ∀ tail, readGroupHeader mal strict (b ++ tail) = .ok (length, 1, tail) := by
        intro b hb tail
        unfold readGroupHeader
        rw [read_wv hb strict tail]
        simp only
        rw [if_neg (by omega), checkedBoundedUsize_nat _ _ hmal]
      have hnegform : ∀ (b1 b2 : Bytes) (n : Nat), wv (-(length : Int)) = .ok b1 → wv (n : Int) = .ok b2 →
          ∀ tail, readGroupHeader mal strict (b1 ++ b2 ++ tail) = .ok (length, n, tail) := by
        intro b1 b2 n hb1 hb2 tail
        have hr := wv_range hb1
        unfold readGroupHeader
        rw [List.append_assoc, read_wv hb1 strict (b2 ++ tail)]
        simp only
        rw [if_pos (by omega)]
        have hmin : ((-(length : Int)) == -(2 : Int) ^ 63) = false := by
          cases hq : ((-(length : Int)) == -(2 : Int) ^ 63) with
          | false => rfl
          | true => have := beq_iff_eq.1 hq; omega
        rw [hmin]
        simp only [Bool.false_eq_true, if_false, Int.neg_neg]
        rw [checkedBoundedUsize_nat _ _ hmal]
        simp only
        rw [read_wv hb2 strict tail]
        simp only
        rw [checkedUsize_nat]
      cases as with
      | nil => exact absurd rfl hne
      | cons a as' =>
        cases as' with
        | nil =>
          rw [writeGroups] at h
          cases hw : wv (length : Int) with
          | error e => rw [hw] at h; simp at h
          | ok b =>
            rw [hw] at h
            simp only at h
            cases ht : writeGroups tl with
            | error e => rw [ht] at h; simp at h
            | ok t =>
              rw [ht] at h
              simp only [Except.ok.injEq] at h
              subst h
              exact ⟨b, t, rfl, by simp, hposform b hw⟩
        | cons a2 as'' =>
          rw [writeGroups] at h
          case x_2 => intro _ hh; cases hh
          cases hw1 : wv (-(length : Int)) with
          | error e => rw [hw1] at h; simp at h
          | ok b1 =>
            rw [hw1] at h
            simp only at h
            cases hw2 : wv (((a :: a2 :: as'').length : Nat) : Int) with
            | error e => rw [hw2] at h; simp at h
            | ok b2 =>
              rw [hw2] at h
              simp only at h
              cases ht : writeGroups tl with
              | error e => rw [ht] at h; simp at h
              | ok t =>
                rw [ht] at h
                simp only [Except.ok.injEq] at h
                subst h
                exact ⟨b1 ++ b2, t, rfl, by simp, hnegform b1 b2 _ hw1 hw2⟩
    obtain ⟨hb, t, ht, hbs, hread⟩ := hhdr
    subst hbs
    simp only [List.length_cons, List.append_assoc]
    rw [readGroups, hread]
    simp only [hz, Bool.false_eq_true, if_false]
    rw [readAtoms_written as (t ++ rest) ctr acc hlen hroomA]
    simp only
    rw [ih t rest _ (acc ++ as) hoktl ht hroomT, bumpAtoms_bumpAtoms, groupBytes_cons, groupAtomCount_cons]
    simp [List.flatMap_cons]

/-- what the decoder returns once the instruction loop ended in state `s` -/
def finish (rest : Bytes) (s : DState) : Except Err (Tree × Bytes × Counters) :=
  if s.stack.length != 1 then .error .SerializationError
  else
    match s.stack.getLast? with
    | none => .error (.Panic "stack[0]: index out of bounds")
    | some t => .ok (t, rest, s.ctr)

/-- **the decoder inverts the writer at the wire level** (strict and lenient): on a body written from a
group list and an instruction list it returns what executing the instruction list over the table's
atoms returns, and leaves exactly the trailing bytes. -/
theorem deserialize_written (mal : Nat) (strict : Bool) (ctr : Counters) (rest : Bytes)
    (groups : List (Nat × List Bytes)) (is : List Int) (cg tbl ci ib : Bytes)
    (hok : ∀ g ∈ groups, GroupOK mal g)
    (h1 : wv (groups.length : Int) = .ok cg) (h2 : writeGroups groups = .ok tbl)
    (h3 : wv (is.length : Int) = .ok ci) (h4 : writeInstructions is = .ok ib) (hne : is ≠ [])
    (hroom : Room ctr (groupBytes groups) (groupAtomCount groups)) :
    deserializeFromStream ctr (magic ++ (cg ++ tbl ++ ci ++ ib) ++ rest) mal strict =
      match execList (groups.flatMap (·.2)) is
          { ctr := bumpAtoms ctr (groupBytes groups) (groupAtomCount groups), pairs := [], stack := [] } with
      | .error e => .error e
      | .ok s => finish rest s := by
  unfold deserializeFromStream
  have hl : ¬ ((magic ++ (cg ++ tbl ++ ci ++ ib) ++ rest).length < magic.length) := by simp
  have ht : ((magic ++ (cg ++ tbl ++ ci ++ ib) ++ rest).take magic.length != magic) = false := by simp
  have hd : (magic ++ (cg ++ tbl ++ ci ++ ib) ++ rest).drop magic.length = cg ++ (tbl ++ (ci ++ (ib ++ rest))) := by
    simp
  rw [if_neg hl, ht, hd]
  simp only [Bool.false_eq_true, if_false]
  unfold deserializeBody
  rw [read_wv h1 strict]
  simp only
  rw [checkedUsize_nat]
  simp only
  have hg := readGroups_written (mal := mal) (strict := strict) groups tbl
    (ci ++ (ib ++ rest)) ctr [] hok h2 hroom
  rw [hg]
  simp only
  rw [read_wv h3 strict]
  simp only
  rw [checkedUsize_nat]
  simp only
  have hz : (is.length == 0) = false := by
    cases hq : (is.length == 0) with
    | false => rfl
    | true => exact absurd (List.length_eq_zero_iff.1 (beq_iff_eq.1 hq)) hne
  rw [hz]
  simp only [Bool.false_eq_true, if_false, List.nil_append]
  rw [runInstructions_written is ib rest _ h4]
  cases execList (groups.flatMap (·.2)) is
      { ctr := bumpAtoms ctr (groupBytes groups) (groupAtomCount groups), pairs := [], stack := [] } with
  | error e => rfl
  | ok s => rfl

end Clvm.Serde2026
