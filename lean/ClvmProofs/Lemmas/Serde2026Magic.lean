/-
The 2026 magic prefix drives the classic decoder into the "atom size ≥ 2^34" rejection.
Proved from the *generated* magic constant and the generated bounds of `decode_size_with_offset`.
-/
import ClvmModel.Serde2026
import ClvmModel.Serde.Classic

namespace Clvm.Serde2026
open Clvm Clvm.Serde.Classic

theorem magic_eq : magic = [0xfd, 0xff, 0x32, 0x30, 0x32, 0x36] := by decide

theorem magic_length : magic.length = 6 := by decide

/-- the size prefix `fd ff 32 30 32 36` is a 6-byte prefix announcing 0x01ff32303236 ≥ 2^34 bytes -/
theorem decodeSize_magic (rest : Bytes) :
    decodeSizeWithOffset ([0xff, 0x32, 0x30, 0x32, 0x36] ++ rest) 0xfd = .error .SerializationError := by
  unfold decodeSizeWithOffset
  have h1 : ((0xfd : Nat) &&& 0x80 == 0) = false := by decide
  have h2 : leadingOnes 0xfd = 6 := by decide
  simp only [h1, h2]
  simp [Gen.decodeSizeMaxPrefix, Gen.decodeSizeMax, beFold]

theorem nodeFromStream_magic (rest : Bytes) :
    nodeFromStream (magic ++ rest) [.sexp] [] = .error .SerializationError := by
  rw [magic_eq, nodeFromStream.eq_def]
  simp [CONS_BOX_MARKER, parseAtom, parseAtomPtr, MAX_SINGLE_BYTE, decodeSize]
  have := decodeSize_magic rest
  simp at this
  rw [this]

end Clvm.Serde2026
