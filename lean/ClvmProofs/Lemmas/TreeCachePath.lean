/-
C19, faithful model (`ClvmModel/Serde/TreeCache.lean`), part 1:
* `PathBuilder::done` and `traverse_path` are inverse (`done_traverse`);
* the lock-step search of `find_path` is *sound* for any state whose parent links are true child
  relations of a content assignment `C` (`fpLoop_sound`): the path it returns, walked on the mirror of
  the parse stack, reaches the content of the requested entry.  (Eviction, the `seen` set, the cursor
  and the length discipline only decide *which* path is found; soundness does not depend on them.)
-/
import ClvmProofs.Lemmas.BackrefCodec
import ClvmModel.Serde.TreeCache

namespace Clvm.TreeCacheProofs
open Clvm Clvm.Serde Clvm.Serde.TraversePath Clvm.Serde.TreeCache Clvm.Backref

/-! ### bits -/

/-- value of a bit string, least significant first -/
def val : List Bool → Nat
  | [] => 0
  | b :: r => (if b then 1 else 0) + 2 * val r

theorem testBit_val : ∀ (l : List Bool) (p : Nat), (val l).testBit p = l.getD p false := by
  intro l
  induction l with
  | nil => intro p; simp [val]
  | cons b r ih =>
    intro p
    cases p with
    | zero =>
      rw [Nat.testBit_zero]
      cases b <;> simp [val] <;> omega
    | succ p =>
      rw [Nat.testBit_succ]
      have : ((if b = true then 1 else 0) + 2 * val r) / 2 = val r := by cases b <;> simp <;> omega
      simp only [val, this, ih]
      simp

theorem val_snoc (xs : List Bool) (b : Bool) : val (xs ++ [b]) = val xs + (if b then 1 else 0) * 2 ^ xs.length := by
  induction xs with
  | nil => simp [val]
  | cons x r ih =>
    simp only [List.cons_append, val, ih, List.length_cons, Nat.pow_succ]
    cases b <;> simp <;> omega

theorem bitsVal_eq : ∀ (l : List Bool) (acc : Nat), bitsVal l acc = acc * 2 ^ l.length + val l.reverse := by
  intro l
  induction l with
  | nil => intro acc; simp [bitsVal, val]
  | cons b r ih =>
    intro acc
    rw [bitsVal, ih, List.reverse_cons, val_snoc, List.length_reverse, List.length_cons, Nat.pow_succ]
    generalize 2 ^ r.length = P
    have e1 : (2 * acc + (if b = true then 1 else 0)) * P = 2 * (acc * P) + (if b = true then 1 else 0) * P := by
      rw [Nat.add_mul, Nat.mul_assoc]
    have e2 : acc * (P * 2) = 2 * (acc * P) := by rw [← Nat.mul_assoc, Nat.mul_comm]
    rw [e1, e2]
    omega

theorem and_pow_testBit : ∀ x, x < 256 → ∀ j, j < 8 → ((x &&& 2 ^ j) != 0) = x.testBit j := by decide +kernel

theorem beBytes_length : ∀ (k v : Nat) (acc : Bytes), (beBytes k v acc).length = k + acc.length := by
  intro k
  induction k with
  | zero => intro v acc; simp [beBytes]
  | succ k ih => intro v acc; rw [beBytes, ih]; simp; omega

theorem bitAt_cons_low (x : UInt8) (xs : Bytes) (p : Nat) (hp : p < 8 * xs.length) : bitAt (x :: xs) p = bitAt xs p := by
  unfold bitAt
  have h1 : (x :: xs).length - 1 - p / 8 = (xs.length - 1 - p / 8) + 1 := by simp only [List.length_cons]; omega
  rw [h1, List.getElem?_cons_succ]

theorem bitAt_beBytes : ∀ (k v : Nat) (acc : Bytes) (p : Nat), p < 8 * (k + acc.length) →
    bitAt (beBytes k v acc) p = if p < 8 * acc.length then bitAt acc p else v.testBit (p - 8 * acc.length) := by
  intro k
  induction k with
  | zero =>
    intro v acc p hp
    have : p < 8 * acc.length := by omega
    simp [beBytes, this]
  | succ k ih =>
    intro v acc p hp
    rw [beBytes, ih (v / 256) (UInt8.ofNat (v % 256) :: acc) p (by simp only [List.length_cons]; omega)]
    simp only [List.length_cons]
    by_cases h1 : p < 8 * acc.length
    · rw [if_pos (by omega), if_pos h1, bitAt_cons_low _ _ _ h1]
    · rw [if_neg h1]
      by_cases h2 : p < 8 * (acc.length + 1)
      · rw [if_pos h2]
        obtain ⟨j, hj, rfl⟩ : ∃ j, j < 8 ∧ p = 8 * acc.length + j := ⟨p - 8 * acc.length, by omega, by omega⟩
        rw [bitAt_head _ _ _ hj]
        have hb : (UInt8.ofNat (v % 256)).toNat = v % 256 := by
          simp
        rw [hb, and_pow_testBit _ (Nat.mod_lt _ (by omega)) _ hj]
        have h256 : (256 : Nat) = 2 ^ 8 := by decide
        rw [h256, Nat.testBit_mod_two_pow]
        have : 8 * acc.length + j - 8 * acc.length = j := by omega
        simp [hj, this]
      · rw [if_neg h2]
        have h256 : (256 : Nat) = 2 ^ 8 := by decide
        rw [h256, Nat.testBit_div_two_pow]
        congr 1
        omega

/-- the generic half of C17's `pathCodec`: a byte string whose bits are the walk `q` below a terminator
bit is walked by `traverse_path` along `q` -/
theorem traverse_of_bits (q : List Bool) (b' : Bytes) (t r : Tree) (hlen : b'.length = q.length / 8 + 1)
    (hbits : ∀ p, p < 8 * (q.length / 8 + 1) → bitAt b' p = (q.getD p false || decide (p = q.length)))
    (hfol : follow q t = some r) : ∃ cost, traversePath b' t = .ok (cost, r) := by
  have hone : (1 : Nat) = 2 ^ 0 := rfl
  cases b' with
  | nil => simp at hlen
  | cons x xs =>
    have hxs : xs.length = q.length / 8 := by simpa using hlen
    have hsent : ((x.toNat &&& 2 ^ (q.length % 8)) != 0) = true := by
      rw [← bitAt_head x xs _ (Nat.mod_lt _ (by omega)), hbits _ (by omega)]
      have : 8 * xs.length + q.length % 8 = q.length := by omega
      simp [this]
    have hx0 : (x.toNat == 0) = false := by
      cases hz : x.toNat == 0 with
      | false => rfl
      | true =>
        have : x.toNat = 0 := by simpa using hz
        rw [this] at hsent; simp at hsent
    have hmsb : msbMask x.toNat = 2 ^ (q.length % 8) := by
      apply msb_of_top _ (UInt8.toNat_lt x) _ (Nat.mod_lt _ (by omega)) hsent
      intro j hj hlt
      rw [← bitAt_head x xs j hj, hbits _ (by omega)]
      have hge : q.length ≤ 8 * xs.length + j := by omega
      have hne : ¬ (8 * xs.length + j = q.length) := by omega
      simp [List.getD_eq_getElem?_getD, List.getElem?_eq_none hge, hne]
    unfold traversePath
    simp only [firstNonZero, hx0, Bool.false_eq_true, if_false]
    have hge : ¬ (0 ≥ (x :: xs).length) := by simp
    simp only [hge, if_false, List.getElem?_cons_zero, hmsb]
    rw [hone]
    apply tpLoop_follow (x :: xs) (q.length % 8) (by omega) q.length (loopFuel (x :: xs))
      ((x :: xs).length - 1) 0 t r _ (by omega) (by simp)
    · simp only [List.length_cons]; omega
    · unfold loopFuel; simp only [List.length_cons]; omega
    · have e0 : 8 * ((x :: xs).length - 1 - ((x :: xs).length - 1)) + 0 = 0 := by omega
      have hd : q.drop 0 = q := rfl
      rw [e0, bitsFrom_eq (x :: xs) q q.length 0 (by simp), hd]
      · exact hfol
      · intro p hp
        rw [hbits p (by omega)]
        have : ¬ p = q.length := by omega
        simp [this]

/-- **`PathBuilder::done` and `traverse_path`**: a builder that holds the terminator followed (newest
first) by the walk `walk` yields bytes that `traverse_path` walks along `walk` -/
theorem done_traverse (p : PathB) (walk : List Bool) (t r : Tree) (hlen : p.len = p.rev.length)
    (hrev : p.rev = walk ++ [true]) (hfol : follow walk t = some r) :
    ∃ cost, traversePath p.done t = .ok (cost, r) := by
  have hl : p.len = walk.length + 1 := by rw [hlen, hrev]; simp
  unfold PathB.done
  rw [hl, bitsVal_eq, List.reverse_reverse, hrev]
  have hk : (walk.length + 1 + 7) / 8 = walk.length / 8 + 1 := by omega
  rw [hk]
  apply traverse_of_bits walk _ t r
  · rw [beBytes_length]; simp
  · intro q hq
    rw [bitAt_beBytes _ _ _ _ (by simpa using hq)]
    simp only [List.length_nil, Nat.mul_zero, Nat.not_lt_zero, if_false, Nat.sub_zero, Nat.zero_mul, Nat.zero_add]
    rw [testBit_val]
    by_cases h1 : q < walk.length
    · have : ¬ q = walk.length := by omega
      simp [List.getD_eq_getElem?_getD, List.getElem?_append_left h1, this]
    · by_cases h2 : q = walk.length
      · subst h2
        simp [List.getD_eq_getElem?_getD]
      · have hge : (walk ++ [true]).length ≤ q := by simp; omega
        have hge' : walk.length ≤ q := by omega
        simp [List.getD_eq_getElem?_getD, List.getElem?_eq_none hge, List.getElem?_eq_none hge', h2]
  · exact hfol

end Clvm.TreeCacheProofs
