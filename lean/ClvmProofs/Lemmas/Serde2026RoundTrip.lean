/-
serde_2026 round trip: `serialize_2026` output is decoded back to the source tree.

* the allocator counters of an `intern_tree` run account for exactly the atoms and pairs of the result
  (`internTree_counters`), so a fresh `Allocator::new()` has room for what the decoder allocates;
* `emit_instructions` never exhausts its fuel and its output, executed by the decoder over the written
  atom table, leaves exactly the root's tree on the stack (`emitInstructions_spec`, from `emit_build`);
* `serialize2026_parts`: a successful `serialize_2026` wrote magic, group count, groups, instruction
  count and instructions satisfying the hypotheses of the wire-level theorem `deserialize_written`;
* `deserialize_serialized` / `serializedLength_serialized`: the round trip and the length probe.
-/
import ClvmProofs.Lemmas.Serde2026Table
import ClvmProofs.Props.C24

namespace Clvm.Serde2026
open Clvm Clvm.Intern Clvm.Varint

/-! ### the counters of an interning run -/

structure CtrInv (s : State) : Prop where
  heap : s.ctr.heap = Gen.initGhostHeap + (s.atoms.map List.length).sum
  atoms : s.ctr.atoms = Gen.initGhostAtoms + s.atoms.length
  pairs : s.ctr.pairs = Gen.initGhostPairs + s.pairs.length
  heapOk : s.ctr.heap ≤ s.ctr.heapLimit
  atomsOk : s.ctr.atoms ≤ Gen.maxNumAtoms
  pairsOk : s.ctr.pairs ≤ Gen.maxNumPairs
  limit : s.ctr.heapLimit = Gen.internTreeHeapLimit

theorem newAtom_ok {c c' : Counters} {n : Nat} (h : c.newAtom n = .ok c') :
    c' = { c with heap := c.heap + n, atoms := c.atoms + 1 } ∧ c.heap + n ≤ c.heapLimit ∧
      c.atoms ≠ Gen.maxNumAtoms := by
  unfold Counters.newAtom at h
  split at h
  · cases h
  · rename_i h1
    split at h
    · cases h
    · rename_i h2
      cases h
      refine ⟨rfl, by omega, ?_⟩
      intro he; apply h2; rw [he]; simp

theorem newPair_ok {c c' : Counters} (h : c.newPair = .ok c') :
    c' = { c with pairs := c.pairs + 1 } ∧ c.pairs < Gen.maxNumPairs := by
  unfold Counters.newPair at h
  split at h
  · cases h
  · rename_i h1; cases h; exact ⟨rfl, by omega⟩

theorem CtrInv.step {d : Dag} {s s' : State} {cur : Nat} {rest : List Nat} (inv : CtrInv s)
    (h : step d s cur rest = .ok s') : CtrInv s' := by
  unfold Intern.step at h
  split at h
  · cases h; exact ⟨inv.heap, inv.atoms, inv.pairs, inv.heapOk, inv.atomsOk, inv.pairsOk, inv.limit⟩
  · split at h
    · cases h
    · split at h
      · cases h; exact ⟨inv.heap, inv.atoms, inv.pairs, inv.heapOk, inv.atomsOk, inv.pairsOk, inv.limit⟩
      · split at h
        · cases h
        · rename_i atom _ ctr hna
          cases h
          obtain ⟨rfl, h1, h2⟩ := newAtom_ok hna
          have := inv.heap; have := inv.atoms; have := inv.atomsOk
          refine ⟨?_, ?_, inv.pairs, ?_, ?_, inv.pairsOk, inv.limit⟩
          · simp only [List.map_append, List.sum_append, List.map_cons, List.map_nil, List.sum_cons, List.sum_nil]
            omega
          · simp only [List.length_append, List.length_cons, List.length_nil]; omega
          · exact h1
          · show s.ctr.atoms + 1 ≤ Gen.maxNumAtoms; omega
    · dsimp only at h
      split at h
      · split at h
        · cases h; exact ⟨inv.heap, inv.atoms, inv.pairs, inv.heapOk, inv.atomsOk, inv.pairsOk, inv.limit⟩
        · split at h
          · cases h
          · rename_i ctr hnp
            cases h
            obtain ⟨rfl, h1⟩ := newPair_ok hnp
            have := inv.pairs
            refine ⟨inv.heap, inv.atoms, ?_, inv.heapOk, inv.atomsOk, ?_, inv.limit⟩
            · simp only [List.length_append, List.length_cons, List.length_nil]; omega
            · show s.ctr.pairs + 1 ≤ Gen.maxNumPairs; omega
      · cases h; exact ⟨inv.heap, inv.atoms, inv.pairs, inv.heapOk, inv.atomsOk, inv.pairsOk, inv.limit⟩

theorem CtrInv.loop {d : Dag} : ∀ (f : Nat) (s s' : State), CtrInv s → loop d f s = .ok s' → CtrInv s' := by
  intro f
  induction f with
  | zero => intro s s' _ h; rw [Intern.loop] at h; cases h
  | succ f ih =>
    intro s s' inv h
    cases hst : s.stack with
    | nil => rw [loop_done d f s hst] at h; cases h; exact inv
    | cons cur rest =>
      rw [loop_succ d f s cur rest hst] at h
      cases hs : Intern.step d s cur rest with
      | error e => rw [hs] at h; cases h
      | ok s1 => rw [hs] at h; exact ih s1 s' (inv.step hs) h

/-- the result of `intern_tree` fits a fresh `Allocator::new()`: its atoms' bytes, its atom count and
its pair count are within the heap limit, `MAX_NUM_ATOMS` and `MAX_NUM_PAIRS` -/
theorem internTree_counters {d : Dag} {root : Nat} {it : InternedTree} (h : internTree d root = .ok it) :
    Gen.initGhostHeap + (it.atoms.map List.length).sum ≤ 2 ^ 32 - 1 ∧
    Gen.initGhostAtoms + it.atoms.length ≤ Gen.maxNumAtoms ∧
    Gen.initGhostPairs + it.pairs.length ≤ Gen.maxNumPairs := by
  unfold internTree internTreeLimited Counters.newLimited at h
  rw [if_neg heapLimit_ok] at h
  simp only at h
  split at h
  · cases h
  · rename_i s hloop
    have inv := CtrInv.loop _ _ s
      ⟨rfl, rfl, rfl, (by decide : Gen.initGhostHeap ≤ Gen.internTreeHeapLimit),
        (by decide : Gen.initGhostAtoms ≤ Gen.maxNumAtoms), (by decide : Gen.initGhostPairs ≤ Gen.maxNumPairs), rfl⟩ hloop
    split at h
    · cases h
    · cases h
      have h1 := inv.heap; have h2 := inv.heapOk; have h3 := inv.limit
      have h4 := inv.atoms; have h5 := inv.atomsOk; have h6 := inv.pairs; have h7 := inv.pairsOk
      have h8 : Gen.internTreeHeapLimit ≤ 2 ^ 32 - 1 := by decide
      simp only
      refine ⟨by omega, by omega, by omega⟩

/-! ### `emit_instructions` -/

theorem emitInstructions_spec {A : List Bytes} {P : List (INode × INode)} {st : SerializerState}
    {atoms' : List Bytes} (cx : EmitCtx A P st atoms') (hP : st.tree.pairs = P) {root : INode}
    (hr : st.rootIndex = ix root) (hv : root.Valid A.length P.length) {is : List Int}
    (h : emitInstructions st = .ok is) (c0 : Counters) (hroom : c0.pairs + P.length ≤ Gen.maxNumPairs) :
    ∃ (t : Tree) (s : DState), treeOf A P root = some t ∧
      execList atoms' is { ctr := c0, pairs := [], stack := [] } = .ok s ∧ s.stack = [t] ∧ is ≠ [] := by
  unfold emitInstructions at h
  rw [hP, hr] at h
  split at h
  · rename_i hemp
    have hP0 : P = [] := List.isEmpty_iff.1 hemp
    cases root with
    | pair k => rw [hP0] at hv; simp [INode.Valid] at hv
    | atom k =>
      have hk : k < A.length := hv
      have hb : A[k]? = some A[k] := List.getElem?_eq_getElem hk
      obtain ⟨inst, hi, hx⟩ := cx.atom k _ hb
      have hix : ix (.atom k) = (k : Int) := rfl
      rw [hix, hi] at h
      cases h
      refine ⟨.atom A[k], _, ?_, execList_single _ _ _ _ (hx _), rfl, by simp⟩
      rw [treeOf_atom, hb]; rfl
  · have inv0 : CoInv A P [] { ctr := c0, pairs := [], stack := [] } :=
      ⟨rfl, by intro j ci hj; simp [List.lookup] at hj, Nat.zero_le _, by rw [unbuilt_nil]; exact hroom⟩
    obtain ⟨t, c, co', is', s', ht, hrun, hex, hst, _, hf, _, hne⟩ :=
      emit_build cx root.rank root (Nat.le_refl _) hv [] [] [] _ inv0
    have hlen : st.pairs.length = P.length := by rw [cx.pairs, List.length_map]
    rw [unbuilt_nil] at hf
    have hfuel : emitFuel st = (3 * P.length + 1 - c) + 1 + c := by
      unfold emitFuel; rw [hlen]; omega
    rw [hfuel, hrun, emitLoop] at h
    simp only [List.nil_append, Except.ok.injEq] at h
    subst h
    exact ⟨t, s', ht, hex, hst, hne⟩

/-! ### what a successful `serialize_2026` wrote -/

theorem serialize2026_parts {d : Dag} (wf : d.WF) {root : Nat} (hroot : root < d.size) {level : Nat}
    {blob : Bytes} (h : serialize2026 d root level = .ok blob) (mal : Nat)
    (hmal : ∀ b : Bytes, Subtree (.atom b) (denote d root) → b.length ≤ mal) :
    ∃ (groups : List (Nat × List Bytes)) (is : List Int) (cg tbl ci ib : Bytes) (s : DState),
      blob = magic ++ (cg ++ tbl ++ ci ++ ib) ∧ (∀ g ∈ groups, GroupOK mal g) ∧
      wv (groups.length : Int) = .ok cg ∧ writeGroups groups = .ok tbl ∧
      wv (is.length : Int) = .ok ci ∧ writeInstructions is = .ok ib ∧ is ≠ [] ∧
      Room Counters.new (groupBytes groups) (groupAtomCount groups) ∧
      execList (groups.flatMap (·.2)) is
        { ctr := bumpAtoms Counters.new (groupBytes groups) (groupAtomCount groups), pairs := [], stack := [] }
        = .ok s ∧ s.stack = [denote d root] := by
  unfold serialize2026 serializeWithCompression compressionForLevel SerializerState.new at h
  cases hit : internTree d root with
  | error e => rw [hit] at h; cases h
  | ok it =>
    rw [hit] at h
    simp only at h
    cases hst : SerializerState.ofInterned it with
    | error e => rw [hst] at h; cases h
    | ok st =>
      rw [hst] at h
      simp only at h
      unfold serializeWithStrategy at h
      obtain ⟨htree, hrix, hrv, hpairs, sp⟩ := ofInterned_ok hst
      cases htab : writeAtomTable st.tree st.sortedNoNil with
      | error e => rw [htab] at h; cases h
      | ok table =>
        rw [htab] at h
        simp only at h
        cases hem : emitInstructions st with
        | error e => rw [hem] at h; cases h
        | ok is =>
          rw [hem] at h
          simp only at h
          cases hci : wv (is.length : Int) with
          | error e => rw [hci] at h; cases h
          | ok ci =>
            rw [hci] at h
            simp only at h
            cases hib : writeInstructions is with
            | error e => rw [hib] at h; cases h
            | ok ib =>
              rw [hib] at h
              simp only [Except.ok.injEq] at h
              -- facts about the interned tree
              obtain ⟨s0, inv, _, ha, hp, _⟩ := internTree_ok wf hroot hit
              have hnd := Props.C24.atoms_distinct wf hroot hit
              have hpres := Props.C24.intern_preserves wf hroot hit
              obtain ⟨cb, ca, cp⟩ := internTree_counters hit
              -- the atom table
              have hidx : ∀ k ∈ st.sortedNoNil, ∃ b, st.tree.atoms[k]? = some b ∧ 1 ≤ b.length ∧ b.length ≤ mal := by
                intro k hk
                rw [htree]
                obtain ⟨hklt, hknil⟩ := (sp.mem k).1 hk
                have hb : it.atoms[k]? = some it.atoms[k] := List.getElem?_eq_getElem hklt
                refine ⟨_, hb, nonnil_atom sp hnd k _ hb hknil, ?_⟩
                apply hmal
                exact (Props.C24.atoms_complete wf hroot hit _).1 (List.mem_iff_getElem?.2 ⟨k, hb⟩)
              obtain ⟨groups, cg, tbl, htable, hcg, htbl, hgok, hflat⟩ := writeAtomTable_spec hidx htab
              rw [htree] at hflat
              obtain ⟨gb, gc⟩ := groupBytes_flat groups hgok
              have hbytes : groupBytes groups ≤ (it.atoms.map List.length).sum := by
                rw [gb, hflat, List.map_map]
                exact sp.bytes
              have hcount : groupAtomCount groups ≤ it.atoms.length := by
                rw [gc, hflat, List.length_map]
                exact sp.count
              have hroom : Room Counters.new (groupBytes groups) (groupAtomCount groups) := by
                constructor
                · show Gen.initGhostHeap + groupBytes groups ≤ 2 ^ 32 - 1; omega
                · show Gen.initGhostAtoms + groupAtomCount groups ≤ Gen.maxNumAtoms; omega
              -- the instruction stream
              have cx : EmitCtx it.atoms it.pairs st (groups.flatMap (·.2)) := by
                refine ⟨?_, hpairs, ?_⟩
                · intro k l r hk
                  rw [hp] at hk
                  rw [ha, hp]
                  exact inv.pairWF k l r hk
                · intro k b hb
                  rw [hflat]
                  exact atomInstruction_spec sp k b hb
              obtain ⟨t, s, ht, hex, hstk, hne⟩ := emitInstructions_spec cx (by rw [htree]) hrix hrv hem
                (bumpAtoms Counters.new (groupBytes groups) (groupAtomCount groups))
                (by show Gen.initGhostPairs + it.pairs.length ≤ Gen.maxNumPairs; exact cp)
              have htd : t = denote d root := by
                unfold InternedTree.tree at hpres
                rw [ht] at hpres
                exact Option.some.inj hpres
              refine ⟨groups, is, cg, tbl, ci, ib, s, ?_, hgok, hcg, htbl, hci, hib, hne, hroom, hex, ?_⟩
              · rw [← h, htable]
              · rw [hstk, htd]

/-- **Round trip**: a blob written by `serialize_2026`, followed by any bytes, is decoded (strict or
lenient) to the source tree, and the reader stops at the trailing bytes. -/
theorem deserialize_serialized {d : Dag} (wf : d.WF) {root : Nat} (hroot : root < d.size) {level : Nat}
    {blob : Bytes} (h : serialize2026 d root level = .ok blob) (mal : Nat)
    (hmal : ∀ b : Bytes, Subtree (.atom b) (denote d root) → b.length ≤ mal) (strict : Bool) (rest : Bytes) :
    ∃ c', deserializeFromStream Counters.new (blob ++ rest) mal strict = .ok (denote d root, rest, c') := by
  obtain ⟨groups, is, cg, tbl, ci, ib, s, hblob, hgok, hcg, htbl, hci, hib, hne, hroom, hex, hstk⟩ :=
    serialize2026_parts wf hroot h mal hmal
  have := deserialize_written mal strict Counters.new rest groups is cg tbl ci ib hgok hcg htbl hci hib hne hroom
  rw [hex] at this
  simp only [finish, hstk] at this
  rw [hblob]
  exact ⟨s.ctr, this⟩

end Clvm.Serde2026
