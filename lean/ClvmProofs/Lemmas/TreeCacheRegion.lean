/-
C19, faithful model: histories of additions only, the defect-free region as a decidable predicate, the
statement for that region (`FaithfulStatementDefectFree`, a `def`: the open obligation), and what is
proved of it: every history on a serializer *without sentinel* (`faithful_statement_no_sentinel`).
-/
import ClvmProofs.Lemmas.TreeCacheLabel
import ClvmModel.Proto.Incremental

namespace Clvm.TreeCacheProofs
open Clvm Clvm.Serde Clvm.Serde.Backref Clvm.Serde.TreeCache Clvm.Backref
open Clvm.Serde.Incremental (assemble noSentinel)

/-- the node the harness builds for an `add:` (`shared = false`) / `adds:` (`shared = true`) step -/
def buildNode (shared : Bool) (t : Tree) (next : Nat) : Node × Nat :=
  if shared then (labelShared t, next) else labelFresh t next

/-- a history without `restore`: the additions in order; result: the serializer and the last verdict -/
def fRunAdds : FSer → Nat → Bool → List (Bool × Tree) → Except Err (FSer × Bool)
  | s, _, done, [] => .ok (s, done)
  | s, next, _, (shared, t) :: rest =>
    match s.add (buildNode shared t next).1 with
    | .error e => .error e
    | .ok (s', d, _) => fRunAdds s' (buildNode shared t next).2 d rest

/-- **the defect-free region** of findings L, M, N, decidable on the request: no `restore` (the history
is a list of additions), at most one sentinel per addition (L), and no pair with a sentinel below it
occurs twice among the `NodePtr`-sharing additions (N) -/
def DefectFree (sentinel : Option Bytes) (adds : List (Bool × Tree)) : Bool :=
  match sentinel with
  | none => true
  | some m =>
    adds.all (fun a => Clvm.Proto.countMarker m a.2 ≤ 1) &&
    !Clvm.Proto.hasDup (adds.foldl (fun acc a => if a.1 then (Clvm.Proto.holedPairs m a.2 acc).2 else acc) [])

/-- what C19 claims of the faithful model on a history of additions -/
def FaithfulDecodes (sentinel : Option Bytes) (adds : List (Bool × Tree)) : Prop :=
  ∀ (s : FSer), fRunAdds (FSer.new sentinel) 0 false adds = .ok (s, true) →
    ∃ A, assemble sentinel (adds.map (·.2)) = some A ∧ noSentinel sentinel A = true ∧
      ∀ (rest : Bytes) (c : Ctr), c.pairs + c.ghostPairs ≤ Gen.maxNumPairs →
        ((∃ e, deBrOld (s.output.buf ++ rest) [.sexp] Tree.nil c = .error e ∧ limitErr e) ∨
          ∃ c', deBrOld (s.output.buf ++ rest) [.sexp] Tree.nil c = .ok (A, rest, c')) ∧
        ((∃ e, deBrNew (s.output.buf ++ rest) [.sexp] [] c = .error e ∧ limitErr e) ∨
          ∃ c', deBrNew (s.output.buf ++ rest) [.sexp] [] c = .ok (A, rest, c'))

/-- **The open obligation**: `Statement` for the model that reproduces the crate byte for byte,
unconditionally on the whole defect-free region.  Proved: the part without sentinel
(`faithful_statement_no_sentinel`) and the sub-region `DefectFreeFresh` (`TreeCacheMulti.lean`:
`faithful_statement_fresh_region` — additions with a sentinel have `NodePtr`s of their own, sentinel not
the empty atom).  Missing: additions that contain the sentinel *and* share nodes by content (`adds:`); the
key-content bookkeeping (`KF`) then has to let the content of a content-keyed pair evolve when its
sentinel is filled, which is sound because such a pair occurs only once in the region; and the empty
atom as sentinel (the parse stack's list terminator is then the marker). -/
def FaithfulStatementDefectFree : Prop :=
  ∀ (sentinel : Option Bytes) (adds : List (Bool × Tree)), DefectFree sentinel adds = true →
    FaithfulDecodes sentinel adds

theorem noSentinel_none : ∀ (t : Tree), noSentinel none t = true := by
  intro t
  induction t with
  | atom b => rfl
  | pair l r ihl ihr => simp [noSentinel, ihl, ihr]

theorem buildNode_ok (shared : Bool) (t : Tree) (next : Nat) :
    (∃ K, KOk K (buildNode shared t next).1) ∧ (buildNode shared t next).1.tree = t := by
  unfold buildNode
  cases shared with
  | true => exact ⟨⟨KShared, kOk_labelShared t⟩, labelShared_tree t⟩
  | false => exact ⟨⟨_, kOk_labelFresh t next⟩, labelFresh_tree t next⟩

/-- **proved part**: on a serializer without sentinel every history of additions that ends in the
completed state decodes to the assembled tree (there is exactly one such history shape: a single
addition; a second one is rejected by the entry assertion of `add`) -/
theorem faithful_statement_no_sentinel (adds : List (Bool × Tree)) : FaithfulDecodes none adds := by
  intro s h
  cases adds with
  | nil => simp [fRunAdds] at h
  | cons a rest =>
    obtain ⟨shared, t⟩ := a
    simp only [fRunAdds] at h
    cases ha : (FSer.new none).add (buildNode shared t 0).1 with
    | error e => simp [ha] at h
    | ok r =>
      obtain ⟨s1, d1, u1⟩ := r
      simp only [ha] at h
      obtain ⟨⟨K, hk⟩, htree⟩ := buildNode_ok shared t 0
      obtain ⟨hd, hro, hdec⟩ := single_add_decodes K _ hk s1 d1 u1 ha
      cases rest with
      | nil =>
        simp only [fRunAdds, Except.ok.injEq, Prod.mk.injEq] at h
        obtain ⟨rfl, _⟩ := h
        refine ⟨t, rfl, noSentinel_none t, ?_⟩
        rw [← htree]
        exact hdec
      | cons b rest2 =>
        obtain ⟨sh2, t2⟩ := b
        simp only [fRunAdds] at h
        have : s1.add (buildNode sh2 t2 (buildNode shared t 0).2).1 =
            .error (.Panic "assertion failed: !self.read_op_stack.is_empty()") := by
          unfold FSer.add
          simp [hro]
        rw [this] at h
        cases h

end Clvm.TreeCacheProofs
