/-
C17: the path codec.  `reversed_path_to_vec_u8` writes a list of directions as the bits of a
big-endian integer below a terminator bit; `traverse_path` walks exactly these bits.
-/
import ClvmProofs.Lemmas.BackrefRoundTrip

namespace Clvm.Backref
open Clvm Clvm.Serde Clvm.Serde.ReadCache Clvm.Serde.TraversePath

theorem or_bit : ∀ x, x < 256 → ∀ i, i < 8 → ∀ k, k < 8 →
    (((x ||| 2 ^ k) &&& 2 ^ i) != 0) = ((x &&& 2 ^ i != 0) || decide (i = k)) := by decide +kernel

theorem msb_of_top : ∀ x, x < 256 → ∀ k, k < 8 → (x &&& 2 ^ k != 0) = true →
    (∀ j, j < 8 → k < j → (x &&& 2 ^ j != 0) = false) → msbMask x = 2 ^ k := by decide +kernel

theorem pow2_lt_256 : ∀ k, k < 8 → 2 ^ k < 256 := by decide

/-- bit `p` (from the least significant bit of the last byte) of a big-endian byte string -/
def bitAt (v : Bytes) (p : Nat) : Bool :=
  match v[v.length - 1 - p / 8]? with
  | some x => (x.toNat &&& 2 ^ (p % 8)) != 0
  | none => false

/-- the bits at positions `pos, pos+1, …, pos+n-1` -/
def bitsFrom (v : Bytes) : Nat → Nat → List Bool
  | _, 0 => []
  | pos, n + 1 => bitAt v pos :: bitsFrom v (pos + 1) n

/-! ### `traverse_path` walks the bits below the terminator -/

theorem tpLoop_follow (idx : Bytes) (kS : Nat) (hkS : kS ≤ 7) :
    ∀ (n fuel byteIdx k : Nat) (t r : Tree) (cost : Nat), k ≤ 7 → byteIdx < idx.length →
      8 * (idx.length - 1 - byteIdx) + k + n = 8 * (idx.length - 1) + kS → n < fuel →
      follow (bitsFrom idx (8 * (idx.length - 1 - byteIdx) + k) n) t = some r →
      ∃ c', tpLoop idx 0 (2 ^ kS) fuel byteIdx (2 ^ k) t cost = .ok (c', r) := by
  intro n
  induction n with
  | zero =>
    intro fuel byteIdx k t r cost hk hb hpos hfuel hfol
    simp only [bitsFrom, follow, Option.some.injEq] at hfol
    subst hfol
    obtain ⟨fuel, rfl⟩ : ∃ f, fuel = f + 1 := ⟨fuel - 1, by omega⟩
    have hb0 : byteIdx = 0 := by omega
    have hk0 : k = kS := by omega
    subst hb0; subst hk0
    unfold tpLoop
    have : ¬ (0 > 0 ∨ 2 ^ k < 2 ^ k) := by omega
    simp only [this, if_false]
    exact ⟨_, rfl⟩
  | succ n ih =>
    intro fuel byteIdx k t r cost hk hb hpos hfuel hfol
    obtain ⟨fuel, rfl⟩ : ∃ f, fuel = f + 1 := ⟨fuel - 1, by omega⟩
    unfold tpLoop
    have hcond : byteIdx > 0 ∨ 2 ^ k < 2 ^ kS := by
      by_cases h0 : byteIdx = 0
      · right; subst h0
        exact Nat.pow_lt_pow_right (by omega) (by omega)
      · left; omega
    simp only [hcond, if_true]
    rw [List.getElem?_eq_getElem hb]
    simp only []
    -- the bit read is the bit of the position
    have hbit : bitAt idx (8 * (idx.length - 1 - byteIdx) + k) = ((idx[byteIdx].toNat &&& 2 ^ k) != 0) := by
      unfold bitAt
      have h1 : idx.length - 1 - (8 * (idx.length - 1 - byteIdx) + k) / 8 = byteIdx := by omega
      have h2 : (8 * (idx.length - 1 - byteIdx) + k) % 8 = k := by omega
      rw [h1, h2, List.getElem?_eq_getElem hb]
    simp only [bitsFrom, follow, hbit] at hfol
    cases t with
    | atom a => simp [child] at hfol
    | pair l rr =>
      simp only []
      have hchild : child (Tree.pair l rr) ((idx[byteIdx].toNat &&& 2 ^ k) != 0) =
          some (if ((idx[byteIdx].toNat &&& 2 ^ k) != 0) = true then rr else l) := by
        cases (idx[byteIdx].toNat &&& 2 ^ k) != 0 <;> rfl
      rw [hchild] at hfol
      simp only [] at hfol
      rw [pow2_eq_128 k (by omega)]
      by_cases hk7 : k = 7
      · subst hk7
        simp only [decide_true, if_true]
        have hbi : byteIdx ≠ 0 := by omega
        have hne : (byteIdx == 0) = false := by simpa using hbi
        simp only [hne, Bool.false_eq_true, if_false]
        have hp' : 8 * (idx.length - 1 - (byteIdx - 1)) + 0 = 8 * (idx.length - 1 - byteIdx) + 7 + 1 := by omega
        have := ih fuel (byteIdx - 1) 0 _ r (cost + Gen.traverseCostPerBit) (by omega) (by omega)
          (by omega) (by omega) (by rw [hp']; exact hfol)
        simpa using this
      · simp only [hk7, decide_false, Bool.false_eq_true, if_false]
        have hsh : 2 ^ k <<< 1 = 2 ^ (k + 1) := by rw [Nat.shiftLeft_eq, Nat.pow_one, Nat.pow_succ]
        rw [hsh]
        have hp' : 8 * (idx.length - 1 - byteIdx) + (k + 1) = 8 * (idx.length - 1 - byteIdx) + k + 1 := by omega
        exact ih fuel byteIdx (k + 1) _ r _ (by omega) hb (by omega) (by omega) (by rw [hp']; exact hfol)

/-! ### `reversed_path_to_vec_u8` writes the bits -/

theorem orAt_spec (v : Bytes) (index k : Nat) (hi : index < v.length) (hk : k ≤ 7) :
    ∃ v', orAt v index (2 ^ k) = .ok v' ∧ v'.length = v.length ∧
      ∀ p, p < 8 * v.length → bitAt v' p = (bitAt v p || decide (p = 8 * (v.length - 1 - index) + k)) := by
  unfold orAt
  rw [List.getElem?_eq_getElem hi]
  refine ⟨_, rfl, by simp, ?_⟩
  intro p hp
  unfold bitAt
  simp only [List.length_set]
  have hj : v.length - 1 - p / 8 < v.length := by omega
  by_cases hidx : v.length - 1 - p / 8 = index
  · rw [hidx, List.getElem?_set_self hi, List.getElem?_eq_getElem hi]
    simp only []
    have h256 := pow2_lt_256 k (by omega)
    have : (v[index] ||| UInt8.ofNat (2 ^ k)).toNat = v[index].toNat ||| 2 ^ k := by
      rw [UInt8.toNat_or, Clvm.toNat_ofNat_lt _ h256]
    rw [this, or_bit _ (UInt8.toNat_lt _) (p % 8) (Nat.mod_lt _ (by omega)) k (by omega)]
    congr 1
    have : (p % 8 = k) ↔ (p = 8 * (v.length - 1 - index) + k) := by omega
    simp [this]
  · rw [List.getElem?_set_ne (Ne.symm hidx)]
    have : ¬ (p = 8 * (v.length - 1 - index) + k) := by omega
    simp [this]

theorem bit_cons (a d : Bool) (q : List Bool) (pos pos' p : Nat) (h : pos' = pos + 1) :
    ((a || (decide (p = pos) && d)) || (decide (pos' ≤ p) && q.getD (p - pos') false)) =
      (a || (decide (pos ≤ p) && (d :: q).getD (p - pos) false)) := by
  subst h
  rcases Nat.lt_trichotomy p pos with h | h | h
  · have h1 : ¬ p = pos := by omega
    have h2 : ¬ pos + 1 ≤ p := by omega
    have h3 : ¬ pos ≤ p := by omega
    simp [h1, h2, h3]
  · subst h
    have h2 : ¬ p + 1 ≤ p := by omega
    simp [h2]
  · have h1 : ¬ p = pos := by omega
    have h2 : pos + 1 ≤ p := by omega
    have h3 : pos ≤ p := by omega
    have e3 : p - pos = (p - (pos + 1)) + 1 := by omega
    simp [h1, h2, h3, e3]

theorem rptLoop_spec : ∀ (q : List Bool) (v : Bytes) (index k : Nat), index < v.length → k ≤ 7 →
    8 * (v.length - 1 - index) + k + q.length < 8 * v.length →
    ∃ v' index' k', rptLoop q v index (2 ^ k) = .ok (v', index', 2 ^ k') ∧ v'.length = v.length ∧
      index' < v.length ∧ k' ≤ 7 ∧
      8 * (v.length - 1 - index') + k' = 8 * (v.length - 1 - index) + k + q.length ∧
      ∀ p, p < 8 * v.length → bitAt v' p = (bitAt v p ||
        (decide (8 * (v.length - 1 - index) + k ≤ p) && q.getD (p - (8 * (v.length - 1 - index) + k)) false)) := by
  intro q
  induction q with
  | nil =>
    intro v index k hi hk _
    refine ⟨v, index, k, rfl, rfl, hi, hk, by simp, ?_⟩
    intro p _
    simp
  | cons d q ih =>
    intro v index k hi hk hfit
    simp only [List.length_cons] at hfit ⊢
    unfold rptLoop
    -- the write of this bit
    have hw : ∃ v1, (if d = true then orAt v index (2 ^ k) else .ok v) = .ok v1 ∧ v1.length = v.length ∧
        ∀ p, p < 8 * v.length → bitAt v1 p = (bitAt v p || (decide (p = 8 * (v.length - 1 - index) + k) && d)) := by
      cases d with
      | true =>
        obtain ⟨v1, h1, h2, h3⟩ := orAt_spec v index k hi hk
        exact ⟨v1, by simpa using h1, h2, fun p hp => by simp [h3 p hp]⟩
      | false => exact ⟨v, by simp, rfl, fun p _ => by simp⟩
    obtain ⟨v1, hw1, hl1, hb1⟩ := hw
    rw [hw1]
    simp only []
    rw [pow2_eq_128 k (by omega)]
    by_cases hk7 : k = 7
    · subst hk7
      simp only [decide_true, if_true]
      have hi0 : index ≠ 0 := by omega
      have hne : (index == 0) = false := by simpa using hi0
      simp only [hne, Bool.false_eq_true, if_false]
      obtain ⟨v', index', k', h1, h2, h3, h4, h5, h6⟩ := ih v1 (index - 1) 0 (by omega) (by omega) (by rw [hl1]; omega)
      rw [hl1] at h5 h6
      refine ⟨v', index', k', by simpa using h1, by omega, by omega, h4, by omega, ?_⟩
      intro p hp
      rw [h6 p hp, hb1 p hp]
      exact bit_cons _ _ _ _ _ _ (by omega)
    · simp only [hk7, decide_false, Bool.false_eq_true, if_false]
      have hsh : 2 ^ k + 2 ^ k = 2 ^ (k + 1) := by rw [Nat.pow_succ]; omega
      rw [hsh]
      obtain ⟨v', index', k', h1, h2, h3, h4, h5, h6⟩ := ih v1 index (k + 1) (by omega) (by omega) (by rw [hl1]; omega)
      rw [hl1] at h5 h6
      refine ⟨v', index', k', h1, by omega, by omega, h4, by omega, ?_⟩
      intro p hp
      rw [h6 p hp, hb1 p hp]
      exact bit_cons _ _ _ _ _ _ (by omega)

/-! ### assembly -/

theorem bitAt_zeros (n p : Nat) : bitAt (List.replicate n (0 : UInt8)) p = false := by
  unfold bitAt
  cases h : (List.replicate n (0 : UInt8))[(List.replicate n (0 : UInt8)).length - 1 - p / 8]? with
  | none => rfl
  | some x =>
    have hx := List.mem_of_getElem? h
    rw [List.mem_replicate] at hx
    rw [hx.2]; simp

theorem bitAt_head (x : UInt8) (xs : Bytes) (j : Nat) (hj : j < 8) :
    bitAt (x :: xs) (8 * xs.length + j) = ((x.toNat &&& 2 ^ j) != 0) := by
  unfold bitAt
  have h1 : (x :: xs).length - 1 - (8 * xs.length + j) / 8 = 0 := by simp; omega
  have h2 : (8 * xs.length + j) % 8 = j := by omega
  rw [h1, h2]; rfl

theorem bitsFrom_eq (b : Bytes) (q : List Bool) : ∀ (n pos : Nat), pos + n = q.length →
    (∀ p, p < q.length → bitAt b p = q.getD p false) → bitsFrom b pos n = q.drop pos := by
  intro n
  induction n with
  | zero => intro pos h _; simp [bitsFrom, ← h]
  | succ n ih =>
    intro pos h hb
    have hlt : pos < q.length := by omega
    rw [bitsFrom, ih (pos + 1) (by omega) hb, hb pos hlt, List.drop_eq_getElem_cons hlt]
    simp [List.getD_eq_getElem?_getD, List.getElem?_eq_getElem hlt]

/-- **The path codec is correct**: the bytes `reversed_path_to_vec_u8` writes for a list of
directions are walked by `traverse_path` along exactly these directions. -/
theorem pathCodec : PathCodec := by
  intro path b t r hrp hfol
  unfold reversedPathToVecU8 at hrp
  simp only [Nat.shiftRight_eq_div_pow] at hrp
  have hbc : (path.length + 1 + 7) / 2 ^ 3 = path.length / 8 + 1 := by omega
  rw [hbc] at hrp
  have hne : (path.length / 8 + 1 == 0) = false := by simp
  simp only [hne, Bool.false_eq_true, if_false, Nat.add_sub_cancel] at hrp
  have hlen0 : (List.replicate (path.length / 8 + 1) (0 : UInt8)).length = path.length / 8 + 1 := by simp
  obtain ⟨v', index', k', h1, h2, h3, h4, h5, h6⟩ :=
    rptLoop_spec path.reverse (List.replicate (path.length / 8 + 1) 0) (path.length / 8) 0
      (by rw [hlen0]; omega) (by omega) (by rw [hlen0, List.length_reverse]; omega)
  rw [hlen0, List.length_reverse] at h5
  rw [hlen0] at h2 h3 h6
  have hone : (1 : Nat) = 2 ^ 0 := rfl
  rw [hone, h1] at hrp
  simp only [] at hrp
  obtain ⟨b', hb1, hb2, hb3⟩ := orAt_spec v' index' k' (by omega) h4
  rw [hb1, Except.ok.injEq] at hrp
  subst hrp
  rw [h2] at hb2 hb3
  have hidx : index' = 0 ∧ k' = path.length % 8 := by omega
  obtain ⟨rfl, rfl⟩ := hidx
  -- the bits of `b'`
  have hbits : ∀ p, p < 8 * (path.length / 8 + 1) →
      bitAt b' p = (path.reverse.getD p false || decide (p = path.length)) := by
    intro p hp
    have e1 : 8 * (path.length / 8 + 1 - 1 - path.length / 8) + 0 = 0 := by omega
    have e2 : 8 * (path.length / 8 + 1 - 1 - 0) + path.length % 8 = path.length := by omega
    rw [hb3 p hp, h6 p hp, bitAt_zeros, e1, e2]
    simp
  cases b' with
  | nil => simp at hb2
  | cons x xs =>
    have hxs : xs.length = path.length / 8 := by simpa using hb2
    have hsent : ((x.toNat &&& 2 ^ (path.length % 8)) != 0) = true := by
      rw [← bitAt_head x xs _ (Nat.mod_lt _ (by omega)), hbits _ (by omega)]
      have : 8 * xs.length + path.length % 8 = path.length := by omega
      simp [this]
    have hx0 : (x.toNat == 0) = false := by
      cases hz : x.toNat == 0 with
      | false => rfl
      | true =>
        have : x.toNat = 0 := by simpa using hz
        rw [this] at hsent; simp at hsent
    have hmsb : msbMask x.toNat = 2 ^ (path.length % 8) := by
      apply msb_of_top _ (UInt8.toNat_lt x) _ (Nat.mod_lt _ (by omega)) hsent
      intro j hj hlt
      rw [← bitAt_head x xs j hj, hbits _ (by omega)]
      have hge : path.reverse.length ≤ 8 * xs.length + j := by rw [List.length_reverse]; omega
      have hne : ¬ (8 * xs.length + j = path.length) := by omega
      simp [List.getD_eq_getElem?_getD, List.getElem?_eq_none hge, hne]
    unfold traversePath
    simp only [firstNonZero, hx0, Bool.false_eq_true, if_false]
    have hge : ¬ (0 ≥ (x :: xs).length) := by simp
    simp only [hge, if_false, List.getElem?_cons_zero, hmsb]
    rw [hone]
    apply tpLoop_follow (x :: xs) (path.length % 8) (by omega) path.length (loopFuel (x :: xs))
      ((x :: xs).length - 1) 0 t r _ (by omega) (by simp)
    · simp only [List.length_cons]; omega
    · unfold loopFuel; simp only [List.length_cons]; omega
    · have e0 : 8 * ((x :: xs).length - 1 - ((x :: xs).length - 1)) + 0 = 0 := by omega
      rw [e0, bitsFrom_eq (x :: xs) path.reverse path.length 0 (by simp)]
      · exact hfol
      · intro p hp
        rw [List.length_reverse] at hp
        rw [hbits p (by omega)]
        have : ¬ p = path.length := by omega
        simp [this]

end Clvm.Backref
