/-
Allocator invariant (`Inv`), validity of nodes and checkpoints, and the structural lemmas
about `treeOf` (fuel independence, stability under append-only growth and under truncation
to a closed prefix).  Used by C12, C13, C14 and the allocator level of C04.
-/
import ClvmModel.Alloc.Session

namespace Clvm.Alloc
open Clvm

/-- a pointer refers to an existing (older) object: atom index below `na`, pair index below `np`;
inline values fit the 26 index bits -/
def PtrOk (na np : Nat) : Ptr → Prop
  | .small v => v ≤ idxMask
  | .bytes i => i < na
  | .pair i => i < np

theorem PtrOk.mono {na np na' np' : Nat} {p : Ptr} (h : PtrOk na np p) (ha : na ≤ na') (hp : np ≤ np') :
    PtrOk na' np' p := by
  cases p <;> simp only [PtrOk] at * <;> omega

/-- every `AtomBuf` lies inside the first `n` heap bytes; every pair's children are older -/
structure Closed (n : Nat) (atoms : List (Nat × Nat)) (pairs : List (Ptr × Ptr)) : Prop where
  atoms_ok : ∀ (i s e : Nat), atoms[i]? = some (s, e) → s ≤ e ∧ e ≤ n
  pairs_ok : ∀ (i : Nat) (l r : Ptr), pairs[i]? = some (l, r) → PtrOk atoms.length i l ∧ PtrOk atoms.length i r

structure Inv (a : Alloc) : Prop where
  closed : Closed a.u8.length a.atoms a.pairs
  atomCap : a.atoms.length + a.ghostAtoms ≤ Gen.maxNumAtoms
  pairCap : a.pairs.length + a.ghostPairs ≤ Gen.maxNumPairs
  limit : a.heapLimit ≤ u32Max

/-- the heap part of the invariant; kept apart because `new_substr` breaks it (finding C) -/
def HeapOk (a : Alloc) : Prop := a.u8.length + a.ghostHeap ≤ a.heapLimit

def Valid (a : Alloc) (p : Ptr) : Prop := PtrOk a.atoms.length a.pairs.length p

/-- a transparent checkpoint that the allocator can still be restored to: it does not exceed the
current sizes and the prefix it delimits is closed in itself -/
structure TCpValid (a : Alloc) (cp : TCheckpoint) : Prop where
  u8s : cp.u8s ≤ a.u8.length
  atoms : cp.atoms ≤ a.atoms.length
  pairs : cp.pairs ≤ a.pairs.length
  closed : Closed cp.u8s (a.atoms.take cp.atoms) (a.pairs.take cp.pairs)
  /-- no atom (older or newer) straddles the heap position of the checkpoint -/
  noStraddle : ∀ (i s e : Nat), a.atoms[i]? = some (s, e) → s < cp.u8s → e ≤ cp.u8s

structure CpValid (a : Alloc) (cp : Checkpoint) : Prop where
  inner : TCpValid a cp.inner
  atomCap : cp.inner.atoms + cp.ghostAtoms ≤ Gen.maxNumAtoms
  pairCap : cp.inner.pairs + cp.ghostPairs ≤ Gen.maxNumPairs

/-- node is older than the checkpoint -/
def ValidAt (cp : TCheckpoint) (p : Ptr) : Prop := PtrOk cp.atoms cp.pairs p

/-! ### `Closed` -/

theorem Closed.mono_u8 {n m atoms pairs} (h : Closed n atoms pairs) (hm : n ≤ m) : Closed m atoms pairs :=
  ⟨fun i s e hi => by have := h.atoms_ok i s e hi; omega, h.pairs_ok⟩

theorem getElem?_append_singleton {α} (l : List α) (x : α) (i : Nat) (y : α)
    (h : (l ++ [x])[i]? = some y) : l[i]? = some y ∨ (i = l.length ∧ y = x) := by
  by_cases hi : i < l.length
  · left; rwa [List.getElem?_append_left hi] at h
  · right
    rw [List.getElem?_append_right (by omega)] at h
    by_cases h0 : i - l.length = 0
    · rw [h0] at h; simp at h; exact ⟨by omega, h.symm⟩
    · have : ([x] : List α)[i - l.length]? = none := by
        apply List.getElem?_eq_none; simp; omega
      rw [this] at h; cases h

theorem Closed.push_atom {n atoms pairs s e} (h : Closed n atoms pairs) (hs : s ≤ e) (he : e ≤ n) :
    Closed n (atoms ++ [(s, e)]) pairs := by
  refine ⟨fun i s' e' hi => ?_, fun i l r hi => ?_⟩
  · rcases getElem?_append_singleton _ _ _ _ hi with h1 | ⟨_, h2⟩
    · exact h.atoms_ok i s' e' h1
    · cases h2; exact ⟨hs, he⟩
  · have := h.pairs_ok i l r hi
    simp only [List.length_append, List.length_singleton]
    exact ⟨this.1.mono (by omega) (Nat.le_refl _), this.2.mono (by omega) (Nat.le_refl _)⟩

theorem Closed.push_pair {n atoms pairs l r} (h : Closed n atoms pairs)
    (hl : PtrOk atoms.length pairs.length l) (hr : PtrOk atoms.length pairs.length r) :
    Closed n atoms (pairs ++ [(l, r)]) := by
  refine ⟨h.atoms_ok, fun i l' r' hi => ?_⟩
  rcases getElem?_append_singleton _ _ _ _ hi with h1 | ⟨h2, h3⟩
  · exact h.pairs_ok i l' r' h1
  · cases h3; subst h2; exact ⟨hl, hr⟩

theorem Closed.nil (n : Nat) : Closed n [] [] :=
  ⟨fun i s e h => by simp at h, fun i l r h => by simp at h⟩

/-- the closed prefix survives appending -/
theorem take_append_of_le {α} (l x : List α) (k : Nat) (h : k ≤ l.length) : (l ++ x).take k = l.take k := by
  rw [List.take_append_of_le_length h]

/-! ### atom bytes -/

theorem slice_eq {buf : Bytes} {s e : Nat} (hs : s ≤ e) (he : e ≤ buf.length) :
    slice buf s e = .ok ((buf.drop s).take (e - s)) := by
  unfold slice
  rw [if_neg (by omega), if_neg (by omega)]

theorem drop_take_append (u x : Bytes) (s e : Nat) (he : e ≤ u.length) :
    ((u ++ x).drop s).take (e - s) = (u.drop s).take (e - s) := by
  by_cases hs : s ≤ u.length
  · rw [List.drop_append_of_le_length hs, List.take_append_of_le_length (by simp; omega)]
  · have : e - s = 0 := by omega
    rw [this]; simp

theorem drop_take_take (u : Bytes) (k s e : Nat) (he : e ≤ k) :
    ((u.take k).drop s).take (e - s) = (u.drop s).take (e - s) := by
  rw [List.drop_take, List.take_take]
  congr 1
  omega

theorem atomBytes_of_getElem? {a : Alloc} {i s e : Nat} (h : a.atoms[i]? = some (s, e)) :
    atomBytes a i = (a.u8.drop s).take (e - s) := by
  unfold atomBytes; rw [h]

/-! ### `treeOf` -/

theorem ptrFuel_le_of_ptrOk {na np : Nat} {p : Ptr} (h : PtrOk na np p) : ptrFuel p ≤ np := by
  cases p <;> simp only [PtrOk, ptrFuel] at * <;> omega

/-- two states that agree on the atoms below `na` and the pairs below `np`, the latter being
closed, denote the same tree for every node below `(na, np)` — whatever the fuel -/
theorem treeAux_congr (a a' : Alloc) (na : Nat)
    (hat : ∀ i, i < na → atomBytes a' i = atomBytes a i) (n : Nat) :
    ∀ (np : Nat), (∀ i, i < np → a'.pairs[i]? = a.pairs[i]?) →
      (∀ i l r, i < np → a.pairs[i]? = some (l, r) → PtrOk na i l ∧ PtrOk na i r) →
      ∀ p, PtrOk na np p → treeAux a' n p = treeAux a n p := by
  induction n with
  | zero =>
    intro np _ _ p hp
    cases p with
    | small v => rfl
    | bytes i => simp only [treeAux]; rw [hat i hp]
    | pair i => rfl
  | succ n ih =>
    intro np hpe hcl p hp
    cases p with
    | small v => rfl
    | bytes i => simp only [treeAux]; rw [hat i hp]
    | pair i =>
      simp only [PtrOk] at hp
      simp only [treeAux]
      rw [hpe i hp]
      cases hx : a.pairs[i]? with
      | none => rfl
      | some lr =>
        obtain ⟨l, r⟩ := lr
        have ⟨hl, hr⟩ := hcl i l r hp hx
        simp only
        have hpe' : ∀ j, j < i → a'.pairs[j]? = a.pairs[j]? := fun j hj => hpe j (by omega)
        have hcl' : ∀ j l r, j < i → a.pairs[j]? = some (l, r) → PtrOk na j l ∧ PtrOk na j r :=
          fun j l r hj => hcl j l r (by omega)
        rw [ih i hpe' hcl' l hl, ih i hpe' hcl' r hr]

theorem treeOf_congr (a a' : Alloc) (na np : Nat)
    (hat : ∀ i, i < na → atomBytes a' i = atomBytes a i)
    (hpe : ∀ i, i < np → a'.pairs[i]? = a.pairs[i]?)
    (hcl : ∀ i l r, i < np → a.pairs[i]? = some (l, r) → PtrOk na i l ∧ PtrOk na i r)
    (p : Ptr) (hp : PtrOk na np p) : treeOf a' p = treeOf a p :=
  treeAux_congr a a' na hat _ np hpe hcl p hp

/-- more fuel than `ptrFuel` changes nothing when children are older -/
theorem treeAux_fuel (a : Alloc) (na : Nat)
    (hcl : ∀ i l r, a.pairs[i]? = some (l, r) → PtrOk na i l ∧ PtrOk na i r) :
    ∀ n m p, m ≤ n → ptrFuel p ≤ m → treeAux a m p = treeOf a p := by
  intro n
  induction n with
  | zero =>
    intro m p hm hf
    have : m = 0 := by omega
    subst this
    cases p with
    | small v => rfl
    | bytes i => rfl
    | pair i => simp [ptrFuel] at hf
  | succ n ih =>
    intro m p hm hf
    cases p with
    | small v => cases m <;> rfl
    | bytes i => cases m <;> rfl
    | pair i =>
      simp only [ptrFuel] at hf
      cases m with
      | zero => omega
      | succ m =>
        simp only [treeOf, ptrFuel, treeAux]
        cases hx : a.pairs[i]? with
        | none => rfl
        | some lr =>
          obtain ⟨l, r⟩ := lr
          have ⟨hl, hr⟩ := hcl i l r hx
          have fl := ptrFuel_le_of_ptrOk hl
          have fr := ptrFuel_le_of_ptrOk hr
          simp only
          rw [ih m l (by omega) (by omega), ih m r (by omega) (by omega),
              ih i l (by omega) fl, ih i r (by omega) fr]

theorem treeOf_pair (a : Alloc) (h : Inv a) (i : Nat) (l r : Ptr) (hx : a.pairs[i]? = some (l, r)) :
    treeOf a (.pair i) = .pair (treeOf a l) (treeOf a r) := by
  have hcl := h.closed.pairs_ok
  have ⟨hl, hr⟩ := hcl i l r hx
  have e1 := treeAux_fuel a a.atoms.length hcl i i l (Nat.le_refl _) (ptrFuel_le_of_ptrOk hl)
  have e2 := treeAux_fuel a a.atoms.length hcl i i r (Nat.le_refl _) (ptrFuel_le_of_ptrOk hr)
  show treeAux a (i + 1) (.pair i) = _
  simp only [treeAux, hx]
  rw [e1, e2]

theorem treeOf_small (a : Alloc) (v : Nat) : treeOf a (.small v) = .atom (smallBytes v) := rfl
theorem treeOf_bytes (a : Alloc) (i : Nat) : treeOf a (.bytes i) = .atom (atomBytes a i) := rfl

/-! ### append-only growth -/

/-- `a'` is `a` with bytes, atoms and pairs appended (ghost counters are free) -/
structure Ext (a a' : Alloc) : Prop where
  u8 : ∃ x, a'.u8 = a.u8 ++ x
  atoms : ∃ y, a'.atoms = a.atoms ++ y
  pairs : ∃ z, a'.pairs = a.pairs ++ z
  limit : a'.heapLimit = a.heapLimit
  /-- a new atom lies in the newly appended bytes or inside an existing atom -/
  fresh : ∀ (i s e : Nat), a'.atoms[i]? = some (s, e) → a.atoms.length ≤ i →
    a.u8.length ≤ s ∨ ∃ (j st en : Nat), a.atoms[j]? = some (st, en) ∧ st ≤ s ∧ e ≤ en

theorem Ext.refl' (a a' : Alloc) (h1 : a'.u8 = a.u8) (h2 : a'.atoms = a.atoms) (h3 : a'.pairs = a.pairs)
    (h4 : a'.heapLimit = a.heapLimit) : Ext a a' :=
  ⟨⟨[], by simp [h1]⟩, ⟨[], by simp [h2]⟩, ⟨[], by simp [h3]⟩, h4, fun i s e hi hle => by
    rw [h2] at hi
    have : a.atoms[i]? = none := List.getElem?_eq_none hle
    rw [this] at hi; cases hi⟩

theorem Ext.atomBytes {a a' : Alloc} (hE : Ext a a') (hI : Inv a) (i : Nat) (hi : i < a.atoms.length) :
    atomBytes a' i = atomBytes a i := by
  obtain ⟨x, hx⟩ := hE.u8
  obtain ⟨y, hy⟩ := hE.atoms
  have hget : a.atoms[i]? = some a.atoms[i] := List.getElem?_eq_getElem hi
  have hget' : a'.atoms[i]? = some a.atoms[i] := by rw [hy, List.getElem?_append_left hi, hget]
  generalize a.atoms[i] = ab at hget hget'
  obtain ⟨s, e⟩ := ab
  have := hI.closed.atoms_ok i s e hget
  rw [atomBytes_of_getElem? hget, atomBytes_of_getElem? hget', hx]
  exact drop_take_append _ _ _ _ this.2

theorem Ext.pairs_get {a a' : Alloc} (hE : Ext a a') (i : Nat) (hi : i < a.pairs.length) :
    a'.pairs[i]? = a.pairs[i]? := by
  obtain ⟨z, hz⟩ := hE.pairs
  rw [hz, List.getElem?_append_left hi]

theorem Ext.valid {a a' : Alloc} (hE : Ext a a') {p : Ptr} (hp : Valid a p) : Valid a' p := by
  obtain ⟨y, hy⟩ := hE.atoms
  obtain ⟨z, hz⟩ := hE.pairs
  unfold Valid at *
  exact hp.mono (by rw [hy]; simp) (by rw [hz]; simp)

/-- **immutability under append-only operations** -/
theorem Ext.treeOf {a a' : Alloc} (hE : Ext a a') (hI : Inv a) {p : Ptr} (hp : Valid a p) :
    treeOf a' p = treeOf a p :=
  treeOf_congr a a' a.atoms.length a.pairs.length (hE.atomBytes hI) (hE.pairs_get)
    (fun i l r _ hx => hI.closed.pairs_ok i l r hx) p hp

theorem Ext.tcpValid {a a' : Alloc} (hE : Ext a a') {cp : TCheckpoint} (h : TCpValid a cp) : TCpValid a' cp := by
  obtain ⟨x, hx⟩ := hE.u8
  obtain ⟨y, hy⟩ := hE.atoms
  obtain ⟨z, hz⟩ := hE.pairs
  refine ⟨by rw [hx]; simp; have := h.u8s; omega, by rw [hy]; simp; have := h.atoms; omega,
          by rw [hz]; simp; have := h.pairs; omega, ?_, ?_⟩
  · rw [hy, hz, take_append_of_le _ _ _ h.atoms, take_append_of_le _ _ _ h.pairs]
    exact h.closed
  · intro i s e hi hs
    by_cases hlt : i < a.atoms.length
    · rw [hy, List.getElem?_append_left hlt] at hi
      exact h.noStraddle i s e hi hs
    · rcases hE.fresh i s e hi (by omega) with h1 | ⟨j, st, en, hj, h2, h3⟩
      · have := h.u8s; omega
      · have := h.noStraddle j st en hj (by omega); omega

theorem Ext.cpValid {a a' : Alloc} (hE : Ext a a') {cp : Checkpoint} (h : CpValid a cp) : CpValid a' cp :=
  ⟨hE.tcpValid h.inner, h.atomCap, h.pairCap⟩

theorem Ext.trans {a b c : Alloc} (h1 : Ext a b) (h2 : Ext b c) : Ext a c := by
  obtain ⟨x, hx⟩ := h1.u8; obtain ⟨x', hx'⟩ := h2.u8
  obtain ⟨y, hy⟩ := h1.atoms; obtain ⟨y', hy'⟩ := h2.atoms
  obtain ⟨z, hz⟩ := h1.pairs; obtain ⟨z', hz'⟩ := h2.pairs
  refine ⟨⟨x ++ x', by rw [hx', hx, List.append_assoc]⟩, ⟨y ++ y', by rw [hy', hy, List.append_assoc]⟩,
         ⟨z ++ z', by rw [hz', hz, List.append_assoc]⟩, by rw [h2.limit, h1.limit], ?_⟩
  intro i s e hi hle
  have hlenb : a.atoms.length ≤ b.atoms.length := by rw [hy]; simp
  have hu8b : a.u8.length ≤ b.u8.length := by rw [hx]; simp
  by_cases hlt : i < b.atoms.length
  · rw [hy', List.getElem?_append_left hlt] at hi
    exact h1.fresh i s e hi hle
  · rcases h2.fresh i s e hi (by omega) with h | ⟨j, st, en, hj, hs, he⟩
    · left; omega
    · by_cases hj' : j < a.atoms.length
      · right; refine ⟨j, st, en, ?_, hs, he⟩
        rwa [hy, List.getElem?_append_left hj'] at hj
      · rcases h1.fresh j st en hj (by omega) with h | ⟨k, st', en', hk, hs', he'⟩
        · left; omega
        · right; exact ⟨k, st', en', hk, by omega, by omega⟩

/-! ### checkpoints -/

theorem tcpValid_checkpoint (a : Alloc) (h : Inv a) : TCpValid a (transparentCheckpoint a) := by
  refine ⟨Nat.le_refl _, Nat.le_refl _, Nat.le_refl _, ?_, ?_⟩
  · simp only [transparentCheckpoint, List.take_length]
    exact h.closed
  · intro i s e hi _
    exact (h.closed.atoms_ok i s e hi).2

theorem cpValid_checkpoint (a : Alloc) (h : Inv a) : CpValid a (checkpoint a) :=
  ⟨tcpValid_checkpoint a h, h.atomCap, h.pairCap⟩

/-- truncation of the three vectors to a checkpoint -/
def truncTo (a : Alloc) (cp : TCheckpoint) : Alloc :=
  { a with u8 := a.u8.take cp.u8s, pairs := a.pairs.take cp.pairs, atoms := a.atoms.take cp.atoms }

theorem getElem?_take_lt {α} (l : List α) (k i : Nat) (h : i < k) : (l.take k)[i]? = l[i]? := by
  rw [List.getElem?_take]; simp [h]

theorem atomBytes_trunc {a : Alloc} {cp : TCheckpoint} (hv : TCpValid a cp) (b : Alloc)
    (hu : b.u8 = a.u8.take cp.u8s) (hat : b.atoms = a.atoms.take cp.atoms)
    (i : Nat) (hi : i < cp.atoms) : atomBytes b i = atomBytes a i := by
  have hlt : i < a.atoms.length := by have := hv.atoms; omega
  have hget : a.atoms[i]? = some a.atoms[i] := List.getElem?_eq_getElem hlt
  generalize a.atoms[i] = ab at hget
  obtain ⟨s, e⟩ := ab
  have hget' : b.atoms[i]? = some (s, e) := by rw [hat, getElem?_take_lt _ _ _ hi, hget]
  have hcl := hv.closed.atoms_ok i s e (by rw [getElem?_take_lt _ _ _ hi, hget])
  rw [atomBytes_of_getElem? hget, atomBytes_of_getElem? hget', hu]
  exact drop_take_take _ _ _ _ hcl.2

/-- **immutability under restores**: a node older than a valid checkpoint denotes the same tree
after truncation to that checkpoint -/
theorem treeOf_trunc {a : Alloc} {cp : TCheckpoint} (hv : TCpValid a cp) (b : Alloc)
    (hu : b.u8 = a.u8.take cp.u8s) (hat : b.atoms = a.atoms.take cp.atoms)
    (hpr : b.pairs = a.pairs.take cp.pairs) {p : Ptr} (hp : ValidAt cp p) :
    treeOf b p = treeOf a p := by
  apply treeOf_congr a b cp.atoms cp.pairs (atomBytes_trunc hv b hu hat)
  · intro i hi; rw [hpr, getElem?_take_lt _ _ _ hi]
  · intro i l r hi hx
    have := hv.closed.pairs_ok i l r (by rw [getElem?_take_lt _ _ _ hi, hx])
    have hlen : (a.atoms.take cp.atoms).length = cp.atoms := by
      rw [List.length_take]; have := hv.atoms; omega
    rw [hlen] at this
    exact this
  · exact hp

/-! ### restores -/

/-- the state after `restore_transparent_checkpoint` -/
def restoredT (a : Alloc) (cp : TCheckpoint) : Alloc :=
  { a with ghostHeap := a.ghostHeap + (a.u8.length - cp.u8s),
           ghostPairs := a.ghostPairs + (a.pairs.length - cp.pairs),
           ghostAtoms := a.ghostAtoms + (a.atoms.length - cp.atoms),
           u8 := a.u8.take cp.u8s, pairs := a.pairs.take cp.pairs, atoms := a.atoms.take cp.atoms }

theorem restoreTransparent_eq (a : Alloc) (cp : TCheckpoint) (hv : TCpValid a cp) :
    restoreTransparentCheckpoint a cp = (.ok (), restoredT a cp) := by
  have h1 := hv.u8s; have h2 := hv.atoms; have h3 := hv.pairs
  unfold restoreTransparentCheckpoint
  rw [if_neg (by omega), if_neg (by omega), if_neg (by omega)]
  rfl

theorem restoredT_lengths (a : Alloc) (cp : TCheckpoint) (hv : TCpValid a cp) :
    (restoredT a cp).u8.length = cp.u8s ∧ (restoredT a cp).atoms.length = cp.atoms ∧
    (restoredT a cp).pairs.length = cp.pairs := by
  have h1 := hv.u8s; have h2 := hv.atoms; have h3 := hv.pairs
  simp only [restoredT, List.length_take]
  omega

theorem restoredT_inv (a : Alloc) (cp : TCheckpoint) (hI : Inv a) (hv : TCpValid a cp) : Inv (restoredT a cp) := by
  have ⟨l1, l2, l3⟩ := restoredT_lengths a cp hv
  have h1 := hv.u8s; have h2 := hv.atoms; have h3 := hv.pairs
  refine ⟨?_, ?_, ?_, hI.limit⟩
  · rw [l1]; exact hv.closed
  · rw [l2]; have := hI.atomCap; simp only [restoredT]; omega
  · rw [l3]; have := hI.pairCap; simp only [restoredT]; omega

/-- **a transparent restore leaves the three counts unchanged** -/
theorem restoredT_counts (a : Alloc) (cp : TCheckpoint) (hv : TCpValid a cp) :
    atomCount (restoredT a cp) = atomCount a ∧ pairCount (restoredT a cp) = pairCount a ∧
    heapSize (restoredT a cp) = heapSize a := by
  have ⟨l1, l2, l3⟩ := restoredT_lengths a cp hv
  have h1 := hv.u8s; have h2 := hv.atoms; have h3 := hv.pairs
  unfold atomCount pairCount heapSize
  rw [l1, l2, l3]
  simp only [restoredT]
  omega

theorem restoredT_treeOf (a : Alloc) (cp : TCheckpoint) (hv : TCpValid a cp) {p : Ptr} (hp : ValidAt cp p) :
    treeOf (restoredT a cp) p = treeOf a p :=
  treeOf_trunc hv (restoredT a cp) rfl rfl rfl hp

theorem restoredT_valid (a : Alloc) (cp : TCheckpoint) (hv : TCpValid a cp) {p : Ptr} (hp : ValidAt cp p) :
    Valid (restoredT a cp) p := by
  have ⟨_, l2, l3⟩ := restoredT_lengths a cp hv
  unfold Valid; rw [l2, l3]; exact hp

theorem valid_of_validAt {a : Alloc} {cp : TCheckpoint} (hv : TCpValid a cp) {p : Ptr} (hp : ValidAt cp p) :
    Valid a p := hp.mono hv.atoms hv.pairs

/-- componentwise order of checkpoints (`c` was taken no later than `d`) -/
def TCheckpoint.le (c d : TCheckpoint) : Prop := c.u8s ≤ d.u8s ∧ c.atoms ≤ d.atoms ∧ c.pairs ≤ d.pairs

/-- an earlier checkpoint stays valid after restoring to a later one -/
theorem restoredT_tcpValid (a : Alloc) (cp c : TCheckpoint) (hv : TCpValid a cp) (hc : TCpValid a c)
    (hle : c.le cp) : TCpValid (restoredT a cp) c := by
  have ⟨l1, l2, l3⟩ := restoredT_lengths a cp hv
  obtain ⟨e1, e2, e3⟩ := hle
  refine ⟨by omega, by omega, by omega, ?_, ?_⟩
  · have t1 : (restoredT a cp).atoms.take c.atoms = a.atoms.take c.atoms := by
      simp only [restoredT, List.take_take]; congr 1; omega
    have t2 : (restoredT a cp).pairs.take c.pairs = a.pairs.take c.pairs := by
      simp only [restoredT, List.take_take]; congr 1; omega
    rw [t1, t2]; exact hc.closed
  · intro i s e hi hs
    have : a.atoms[i]? = some (s, e) := by
      simp only [restoredT, List.getElem?_take] at hi
      split at hi
      · exact hi
      · cases hi
    exact hc.noStraddle i s e this hs

theorem restoredT_self_tcpValid (a : Alloc) (cp : TCheckpoint) (hv : TCpValid a cp) :
    TCpValid (restoredT a cp) cp :=
  restoredT_tcpValid a cp cp hv hv ⟨Nat.le_refl _, Nat.le_refl _, Nat.le_refl _⟩

/-- the state after `restore_checkpoint` -/
def restoredC (a : Alloc) (cp : Checkpoint) : Alloc :=
  { restoredT a cp.inner with ghostAtoms := cp.ghostAtoms, ghostPairs := cp.ghostPairs, ghostHeap := cp.ghostHeap }

theorem restoreCheckpoint_eq (a : Alloc) (cp : Checkpoint) (hv : CpValid a cp) :
    restoreCheckpoint a cp = (.ok (), restoredC a cp) := by
  unfold restoreCheckpoint
  rw [restoreTransparent_eq a cp.inner hv.inner]
  rfl

theorem restoredC_inv (a : Alloc) (cp : Checkpoint) (hI : Inv a) (hv : CpValid a cp) : Inv (restoredC a cp) := by
  have ⟨l1, l2, l3⟩ := restoredT_lengths a cp.inner hv.inner
  have hT := restoredT_inv a cp.inner hI hv.inner
  refine ⟨hT.closed, ?_, ?_, hI.limit⟩
  · show (restoredT a cp.inner).atoms.length + cp.ghostAtoms ≤ _
    rw [l2]; exact hv.atomCap
  · show (restoredT a cp.inner).pairs.length + cp.ghostPairs ≤ _
    rw [l3]; exact hv.pairCap

/-- **a full restore resets the three counts to their values at the checkpoint** -/
theorem restoredC_counts (a : Alloc) (cp : Checkpoint) (hv : CpValid a cp) :
    atomCount (restoredC a cp) = cp.inner.atoms + cp.ghostAtoms ∧
    pairCount (restoredC a cp) = cp.inner.pairs + cp.ghostPairs ∧
    heapSize (restoredC a cp) = cp.inner.u8s + cp.ghostHeap := by
  have ⟨l1, l2, l3⟩ := restoredT_lengths a cp.inner hv.inner
  refine ⟨?_, ?_, ?_⟩
  · show (restoredT a cp.inner).atoms.length + cp.ghostAtoms = _; rw [l2]
  · show (restoredT a cp.inner).pairs.length + cp.ghostPairs = _; rw [l3]
  · show (restoredT a cp.inner).u8.length + cp.ghostHeap = _; rw [l1]

theorem checkpoint_counts (a : Alloc) :
    (checkpoint a).inner.atoms + (checkpoint a).ghostAtoms = atomCount a ∧
    (checkpoint a).inner.pairs + (checkpoint a).ghostPairs = pairCount a ∧
    (checkpoint a).inner.u8s + (checkpoint a).ghostHeap = heapSize a := ⟨rfl, rfl, rfl⟩

theorem restoredC_treeOf (a : Alloc) (cp : Checkpoint) (hv : CpValid a cp) {p : Ptr} (hp : ValidAt cp.inner p) :
    treeOf (restoredC a cp) p = treeOf a p :=
  treeOf_trunc hv.inner (restoredC a cp) rfl rfl rfl hp

theorem restoredC_valid (a : Alloc) (cp : Checkpoint) (hv : CpValid a cp) {p : Ptr} (hp : ValidAt cp.inner p) :
    Valid (restoredC a cp) p :=
  restoredT_valid a cp.inner hv.inner hp

theorem restoredC_tcpValid (a : Alloc) (cp : Checkpoint) (c : TCheckpoint) (hv : CpValid a cp) (hc : TCpValid a c)
    (hle : c.le cp.inner) : TCpValid (restoredC a cp) c := by
  have h := restoredT_tcpValid a cp.inner c hv.inner hc hle
  exact ⟨h.u8s, h.atoms, h.pairs, h.closed, h.noStraddle⟩

end Clvm.Alloc
