/-
C19, faithful model, part 3: `TreeCache::update` on a cache without sentinel.  Every entry gets a content
(`C : index → Tree`); `update` extends `C`, registers every sub-node of the root under its key with the
right content, and only records parent links that are true child relations (`update_spec`).
-/
import ClvmProofs.Lemmas.TreeCacheSearch

namespace Clvm.TreeCacheProofs
open Clvm Clvm.Serde Clvm.Serde.TreeCache Clvm.Backref

/-! ### association lists -/

theorem alGet_alSet {κ : Type} [DecidableEq κ] (m : List (κ × Nat)) (k k' : κ) (v : Nat) :
    alGet (alSet m k v) k' = if k = k' then some v else alGet m k' := by
  induction m with
  | nil =>
    simp only [alSet, alGet]
  | cons kv r ih =>
    obtain ⟨k0, v0⟩ := kv
    simp only [alSet]
    by_cases h0 : k0 = k
    · subst h0
      simp only [if_true, alGet]
      by_cases h1 : k0 = k' <;> simp [h1]
    · simp only [h0, if_false, alGet, ih]
      by_cases h1 : k0 = k'
      · have : ¬ k = k' := fun e => h0 (h1.trans e.symm)
        simp [h1, this]
      · simp [h1]

theorem alSet_mono {κ : Type} [DecidableEq κ] (m : List (κ × Nat)) (k k' : κ) (v : Nat)
    (h : alGet m k' ≠ none) : alGet (alSet m k v) k' ≠ none := by
  rw [alGet_alSet]
  split
  · simp
  · exact h

/-! ### nodes -/

def subs : Node → List Node
  | .atom b => [.atom b]
  | .pair id l r => .pair id l r :: (subs l ++ subs r)

theorem self_mem_subs (n : Node) : n ∈ subs n := by cases n <;> simp [subs]

/-- the content of a `NodePtr` is a function of the `NodePtr` (on the nodes of `n`) -/
def KOk (K : Key → Tree) (n : Node) : Prop := ∀ s, s ∈ subs n → K s.key = s.tree

theorem KOk.left {K id l r} (h : KOk K (.pair id l r)) : KOk K l :=
  fun s hs => h s (by simp [subs, hs])
theorem KOk.right {K id l r} (h : KOk K (.pair id l r)) : KOk K r :=
  fun s hs => h s (by simp [subs, hs])

theorem subs_size : ∀ (n s : Node), s ∈ subs n → s.tree.size ≤ n.tree.size := by
  intro n
  induction n with
  | atom b => intro s h; simp [subs] at h; subst h; exact Nat.le_refl _
  | pair id l r ihl ihr =>
    intro s h
    simp only [subs, List.mem_cons, List.mem_append] at h
    rcases h with rfl | h | h
    · exact Nat.le_refl _
    · have := ihl s h
      simp only [Node.tree, Tree.size, Tree.pairs, Tree.atoms] at this ⊢; omega
    · have := ihr s h
      simp only [Node.tree, Tree.size, Tree.pairs, Tree.atoms] at this ⊢; omega

/-- occurrences of the marker atom -/
def cnt (m : Bytes) : Tree → Nat
  | .atom b => if b = m then 1 else 0
  | .pair l r => cnt m l + cnt m r

theorem subs_cnt (m : Bytes) : ∀ (n s : Node), s ∈ subs n → cnt m s.tree ≤ cnt m n.tree := by
  intro n
  induction n with
  | atom b => intro s h; simp [subs] at h; subst h; exact Nat.le_refl _
  | pair id l r ihl ihr =>
    intro s h
    simp only [subs, List.mem_cons, List.mem_append] at h
    rcases h with rfl | h | h
    · exact Nat.le_refl _
    · have := ihl s h
      simp only [Node.tree, cnt]; omega
    · have := ihr s h
      simp only [Node.tree, cnt]; omega

def IsPair : Node → Prop
  | .pair _ _ _ => True
  | .atom _ => False

/-! ### the invariant -/

/-- the key of the sentinel `NodePtr` -/
def IsSK (sent : Option Bytes) (k : Key) : Prop := ∃ m, sent = some m ∧ k = Key.atom m

theorem not_isSK_pair {sent : Option Bytes} {id : Option Nat} {l r : Node} : ¬ IsSK sent (Node.pair id l r).key := by
  rintro ⟨m, _, h⟩
  cases id <;> simp [Node.key] at h

theorem not_isSK_atom {sent : Option Bytes} {b : Bytes} (h : sent ≠ some b) : ¬ IsSK sent (Node.atom b).key := by
  rintro ⟨m, h1, h2⟩
  simp only [Node.key, Key.atom.injEq] at h2
  subst h2; exact h h1

/-- `C` gives every entry a content (with the pending sentinel, if any, as the marker atom); `K` gives
every `NodePtr` but the sentinel's its content -/
structure UInv (sent : Option Bytes) (K : Key → Tree) (C : Nat → Tree) (tc : TC) : Prop where
  sentinel : tc.sentinel = sent
  parents : ∀ (X : Nat) (e : NodeEntry), tc.entries[X]? = some e → ∀ P d, (P, d) ∈ e.parents →
    P < tc.entries.size ∧ child (C P) d = some (C X)
  nodeMap : ∀ k i, alGet tc.nodeMap k = some i → i < tc.entries.size ∧ (¬ IsSK sent k → C i = K k)
  atoms : ∀ b i, alGet tc.atomLookup b = some i → i < tc.entries.size ∧ C i = Tree.atom b ∧ sent ≠ some b
  pairs : ∀ l r i, alGet tc.pairLookup (l, r) = some i →
    i < tc.entries.size ∧ l < tc.entries.size ∧ r < tc.entries.size ∧ C i = Tree.pair (C l) (C r)
  /-- an entry whose content contains the pending sentinel has no serialized length -/
  slZero : ∀ m, sent = some m → ∀ (i : Nat) (e : NodeEntry), tc.entries[i]? = some e → cnt m (C i) ≥ 1 →
    e.serializedLength = 0

theorem UInv.parentsSound {sent K C tc} (h : UInv sent K C tc) : ParentsSound C tc :=
  fun X e he P d hm => (h.parents X e he P d hm).2

/-- extend `C` at the next free index -/
def ext (C : Nat → Tree) (n : Nat) (t : Tree) : Nat → Tree := fun j => if j = n then t else C j

theorem ext_lt {C : Nat → Tree} {n j : Nat} {t : Tree} (h : j < n) : ext C n t j = C j := by
  unfold ext; rw [if_neg (by omega)]
theorem ext_self {C : Nat → Tree} {n : Nat} {t : Tree} : ext C n t n = t := by
  unfold ext; rw [if_pos rfl]

/-- pushing a fresh entry (no parents) and extending `C` keeps the invariant, for any changes of the maps
that are justified for the new content -/
theorem UInv.pushEntry {sent K C} {tc : TC} (h : UInv sent K C tc) (t : Tree) (sl : Nat) (nm : List (Key × Nat))
    (al : List (Bytes × Nat)) (pl : List ((Nat × Nat) × Nat))
    (hnm : ∀ k i, alGet nm k = some i → alGet tc.nodeMap k = some i ∨ (i = tc.entries.size ∧ (¬ IsSK sent k → t = K k)))
    (hal : ∀ b i, alGet al b = some i → alGet tc.atomLookup b = some i ∨
      (i = tc.entries.size ∧ t = Tree.atom b ∧ sent ≠ some b))
    (hpl : ∀ l r i, alGet pl (l, r) = some i → alGet tc.pairLookup (l, r) = some i ∨
      (i = tc.entries.size ∧ l < tc.entries.size ∧ r < tc.entries.size ∧ t = Tree.pair (C l) (C r)))
    (hsl : ∀ m, sent = some m → cnt m t ≥ 1 → sl = 0) :
    UInv sent K (ext C tc.entries.size t)
      { tc with nodeMap := nm, atomLookup := al, pairLookup := pl,
                entries := tc.entries.push { parents := [], serializedLength := sl, onStack := 0 } } where
  sentinel := h.sentinel
  parents := by
    intro X e he P d hm
    simp only [Array.getElem?_push] at he
    split at he
    · simp only [Option.some.injEq] at he; subst he; cases hm
    · have hX : X < tc.entries.size := by
        by_cases hc : X < tc.entries.size
        · exact hc
        · rw [Array.getElem?_eq_none (by omega)] at he; cases he
      obtain ⟨p1, p2⟩ := h.parents X e he P d hm
      simp only [Array.size_push]
      exact ⟨by omega, by rw [ext_lt p1, ext_lt hX]; exact p2⟩
  nodeMap := by
    intro k i hk
    simp only [Array.size_push]
    rcases hnm k i hk with h1 | ⟨rfl, ht⟩
    · obtain ⟨p1, p2⟩ := h.nodeMap k i h1
      exact ⟨by omega, fun hs => by rw [ext_lt p1]; exact p2 hs⟩
    · exact ⟨by omega, fun hs => by rw [ext_self]; exact ht hs⟩
  atoms := by
    intro b i hk
    simp only [Array.size_push]
    rcases hal b i hk with h1 | ⟨rfl, ht, hs⟩
    · obtain ⟨p1, p2, p3⟩ := h.atoms b i h1
      exact ⟨by omega, by rw [ext_lt p1]; exact p2, p3⟩
    · exact ⟨by omega, by rw [ext_self]; exact ht, hs⟩
  pairs := by
    intro l r i hk
    simp only [Array.size_push]
    rcases hpl l r i hk with h1 | ⟨rfl, hl, hr, ht⟩
    · obtain ⟨p1, p2, p3, p4⟩ := h.pairs l r i h1
      exact ⟨by omega, by omega, by omega, by rw [ext_lt p1, ext_lt p2, ext_lt p3]; exact p4⟩
    · exact ⟨by omega, by omega, by omega, by rw [ext_self, ext_lt hl, ext_lt hr]; exact ht⟩
  slZero := by
    intro m hm i e he hc
    simp only [Array.getElem?_push] at he
    split at he
    · rename_i hi
      simp only [Option.some.injEq] at he; subst he
      rw [hi, ext_self] at hc
      exact hsl m hm hc
    · have hX : i < tc.entries.size := by
        by_cases hc' : i < tc.entries.size
        · exact hc'
        · rw [Array.getElem?_eq_none (by omega)] at he; cases he
      rw [ext_lt hX] at hc
      exact h.slZero m hm i e he hc

theorem mem_addParent {e : NodeEntry} {parent : Nat} {pos : Bool} {x : Nat × Bool}
    (h : x ∈ (e.addParent parent pos).parents) : x ∈ e.parents ∨ x = (parent, pos) := by
  unfold NodeEntry.addParent at h
  split at h
  · exact List.mem_or_eq_of_mem_set h
  · simp only [List.mem_append, List.mem_singleton] at h; exact h

/-- adding a true parent link to an entry keeps the invariant -/
theorem UInv.addParent {sent K C} {tc : TC} (h : UInv sent K C tc) (X idx : Nat) (pos : Bool) (es : Array NodeEntry)
    (hidx : idx < tc.entries.size) (hchild : child (C idx) pos = some (C X))
    (hm : modEntry tc.entries X (fun e => .ok (e.addParent idx pos)) = .ok es) :
    UInv sent K C { tc with entries := es } ∧ es.size = tc.entries.size := by
  unfold modEntry at hm
  cases he : tc.entries[X]? with
  | none => simp [he] at hm
  | some e =>
    simp only [he, Except.ok.injEq] at hm
    subst hm
    have hsz : (tc.entries.set! X (e.addParent idx pos)).size = tc.entries.size := by simp [Array.set!]
    refine ⟨⟨h.sentinel, ?_, ?_, ?_, ?_, ?_⟩, hsz⟩
    · intro Y e' he' P d hmem
      simp only [hsz]
      rw [Array.set!, Array.getElem?_setIfInBounds] at he'
      by_cases hxy : X = Y
      · subst hxy
        rw [if_pos rfl] at he'
        split at he'
        · simp only [Option.some.injEq] at he'; subst he'
          rcases mem_addParent hmem with h1 | h1
          · exact h.parents X e he P d h1
          · simp only [Prod.mk.injEq] at h1
            obtain ⟨rfl, rfl⟩ := h1
            exact ⟨hidx, hchild⟩
        · cases he'
      · rw [if_neg hxy] at he'
        exact h.parents Y e' he' P d hmem
    · intro k i hk; simp only [hsz]; exact h.nodeMap k i hk
    · intro b i hk; simp only [hsz]; exact h.atoms b i hk
    · intro l r i hk; simp only [hsz]; exact h.pairs l r i hk
    · intro m hm i e' he' hc
      rw [Array.set!, Array.getElem?_setIfInBounds] at he'
      by_cases hxy : X = i
      · subst hxy
        rw [if_pos rfl] at he'
        split at he'
        · simp only [Option.some.injEq] at he'; subst he'
          have := h.slZero m hm X e he hc
          unfold NodeEntry.addParent
          split <;> exact this
        · cases he'
      · rw [if_neg hxy] at he'
        exact h.slZero m hm i e' he' hc

/-! ### the traversal, node by node -/

/-- what processing `Traverse(n)` achieves (on any successful run) -/
structure Step (sent : Option Bytes) (K : Key → Tree) (C : Nat → Tree) (tc : TC) (n : Node) (C' : Nat → Tree) (tc' : TC)
    (i : Nat) : Prop where
  inv : UInv sent K C' tc'
  same : ∀ j, j < tc.entries.size → C' j = C j
  grow : tc.entries.size ≤ tc'.entries.size
  idx : i < tc'.entries.size
  content : C' i = n.tree
  stack : tc'.stack = tc.stack
  sn : tc'.serializedNodes = tc.serializedNodes
  keep : ∀ k j, ¬ IsSK sent k → alGet tc.nodeMap k = some j → alGet tc'.nodeMap k = some j
  fresh : ∀ k, alGet tc'.nodeMap k ≠ none → alGet tc.nodeMap k ≠ none ∨ ∃ s, s ∈ subs n ∧ s.key = k
  mono : ∀ k, alGet tc.nodeMap k ≠ none → alGet tc'.nodeMap k ≠ none
  /-- the sentinel's key: unchanged, or it now names a (new) entry whose content is the marker -/
  sentNew : ∀ m j, sent = some m → alGet tc'.nodeMap (Key.atom m) = some j →
    alGet tc.nodeMap (Key.atom m) = some j ∨ (tc.entries.size ≤ j ∧ C' j = Tree.atom m)
  /-- if the sentinel occurs exactly once in `n` and no pair of `n` above it is registered already, the
  sentinel is traversed: its key names a new entry whose content is the marker -/
  sentHit : ∀ m, sent = some m → cnt m n.tree = 1 →
    (∀ s, s ∈ subs n → IsPair s → cnt m s.tree ≥ 1 → alGet tc.nodeMap s.key = none) →
    ∃ j, alGet tc'.nodeMap (Key.atom m) = some j ∧ tc.entries.size ≤ j ∧ C' j = Tree.atom m

theorem pairEntry_spec {sent K C} {tc : TC} (h : UInv sent K C tc) (il ir sl : Nat) (hl : il < tc.entries.size)
    (hr : ir < tc.entries.size) (hsl : ∀ m, sent = some m → cnt m (Tree.pair (C il) (C ir)) ≥ 1 → sl = 0) :
    ∃ C', UInv sent K C' (pairEntry tc il ir sl).2 ∧ (∀ j, j < tc.entries.size → C' j = C j) ∧
      tc.entries.size ≤ (pairEntry tc il ir sl).2.entries.size ∧
      (pairEntry tc il ir sl).1 < (pairEntry tc il ir sl).2.entries.size ∧
      C' (pairEntry tc il ir sl).1 = Tree.pair (C il) (C ir) ∧
      (pairEntry tc il ir sl).2.nodeMap = tc.nodeMap ∧ (pairEntry tc il ir sl).2.stack = tc.stack ∧
      (pairEntry tc il ir sl).2.serializedNodes = tc.serializedNodes := by
  unfold pairEntry
  cases hp : alGet tc.pairLookup (il, ir) with
  | some i =>
    obtain ⟨p1, _, _, p4⟩ := h.pairs il ir i hp
    exact ⟨C, h, fun _ _ => rfl, Nat.le_refl _, p1, p4, rfl, rfl, rfl⟩
  | none =>
    refine ⟨ext C tc.entries.size (Tree.pair (C il) (C ir)), ?_, fun j hj => ext_lt hj, by simp, by simp, ext_self,
      rfl, rfl, rfl⟩
    apply h.pushEntry (Tree.pair (C il) (C ir))
    · intro k i hki; exact .inl hki
    · intro b i hki; exact .inl hki
    · intro l r i hki
      simp only [alGet_alSet] at hki
      split at hki
      · rename_i hkk
        simp only [Prod.mk.injEq] at hkk
        obtain ⟨rfl, rfl⟩ := hkk
        simp only [Option.some.injEq] at hki
        subst hki
        exact .inr ⟨rfl, hl, hr, rfl⟩
      · exact .inl hki
    · exact hsl

theorem modEntry_size {es es' : Array NodeEntry} {X : Nat} {f : NodeEntry → Except Err NodeEntry}
    (h : modEntry es X f = .ok es') : es'.size = es.size := by
  unfold modEntry at h
  cases he : es[X]? with
  | none => simp [he] at h
  | some e =>
    simp only [he] at h
    cases hf : f e with
    | error er => simp [hf] at h
    | ok e' =>
      simp only [hf, Except.ok.injEq] at h
      subst h; simp [Array.set!]

theorem updateLoop_traverse (sent : Option Bytes) (K : Key → Tree) : ∀ (n : Node), KOk K n →
    ∀ (fuel : Nat) (ops : List CacheOp) (stack : List Nat) (tc : TC) (res : List Nat × TC) (C : Nat → Tree),
      UInv sent K C tc → updateLoop fuel (.traverse n :: ops) stack tc = .ok res →
      ∃ fuel' i tc' C', updateLoop fuel' ops (i :: stack) tc' = .ok res ∧ Step sent K C tc n C' tc' i := by
  intro n
  induction n with
  | atom b =>
    intro hk fuel ops stack tc res C hinv h
    cases fuel with
    | zero => simp [updateLoop] at h
    | succ fuel =>
      have hK : K (Node.atom b).key = Tree.atom b := hk _ (self_mem_subs _)
      unfold updateLoop at h
      by_cases hsen : tc.isSentinel (.atom b) = true
      · -- the sentinel: a new entry every time, `node_map[sentinel]` now names it
        have hsb : sent = some b := by
          have : tc.sentinel = some b := by simpa [TC.isSentinel] using hsen
          rw [← hinv.sentinel]; exact this
        simp only [hsen, if_true] at h
        refine ⟨fuel, tc.entries.size, _, ext C tc.entries.size (Tree.atom b), h, ⟨?_, fun j hj => ext_lt hj,
          by simp, by simp, ext_self, rfl, rfl, ?_, ?_, fun k hh => alSet_mono _ _ _ _ hh, ?_, ?_⟩⟩
        · apply hinv.pushEntry (Tree.atom b)
          · intro k i hki
            simp only [alGet_alSet] at hki
            split at hki
            · rename_i hkk
              simp only [Option.some.injEq] at hki
              subst hki; subst hkk
              exact .inr ⟨rfl, fun hns => absurd ⟨b, hsb, rfl⟩ hns⟩
            · exact .inl hki
          · intro b' i hki; exact .inl hki
          · intro l r i hki; exact .inl hki
          · intro _ _ _; rfl
        · intro k j hns hkj
          simp only [alGet_alSet]
          split
          · rename_i hkk; subst hkk; exact absurd ⟨b, hsb, rfl⟩ hns
          · exact hkj
        · intro k hne
          simp only [alGet_alSet] at hne
          split at hne
          · rename_i hkk
            exact .inr ⟨_, self_mem_subs _, hkk⟩
          · exact .inl hne
        · intro m j hm hj
          rw [hsb] at hm
          simp only [Option.some.injEq] at hm
          subst hm
          simp only [Node.key, alGet_alSet, if_true, Option.some.injEq] at hj
          subst hj
          exact .inr ⟨Nat.le_refl _, ext_self⟩
        · intro m hm _ _
          rw [hsb] at hm
          simp only [Option.some.injEq] at hm
          subst hm
          exact ⟨tc.entries.size, by simp [Node.key, alGet_alSet], Nat.le_refl _, ext_self⟩
      · have hsen' : tc.isSentinel (.atom b) = false := by simpa using hsen
        have hnb : sent ≠ some b := by
          intro hc
          rw [← hinv.sentinel] at hc
          simp [TC.isSentinel, hc] at hsen'
        have hns : ¬ IsSK sent (Node.atom b).key := not_isSK_atom hnb
        have hnoS : ∀ m, sent = some m → cnt m (Node.atom b).tree ≠ 1 := by
          intro m hm hc
          simp only [Node.tree, cnt] at hc
          split at hc
          · rename_i hbm; subst hbm; exact hnb hm
          · cases hc
        simp only [hsen', Bool.false_eq_true, if_false] at h
        cases hg : alGet tc.nodeMap (Node.atom b).key with
        | some idx =>
          simp only [hg] at h
          obtain ⟨p1, p2⟩ := hinv.nodeMap _ _ hg
          exact ⟨fuel, idx, tc, C, h, ⟨hinv, fun _ _ => rfl, Nat.le_refl _, p1, by rw [p2 hns, hK]; rfl, rfl, rfl,
            fun _ _ _ hh => hh, fun k hh => .inl hh, fun _ hh => hh, fun m j _ hj => .inl hj, fun m hm hc _ => absurd hc (hnoS m hm)⟩⟩
        | none =>
          simp only [hg] at h
          cases ha : alGet tc.atomLookup b with
          | some idx =>
            simp only [ha] at h
            obtain ⟨p1, p2, _⟩ := hinv.atoms _ _ ha
            refine ⟨fuel, idx, _, C, h, ⟨⟨hinv.sentinel, hinv.parents, ?_, hinv.atoms, hinv.pairs, hinv.slZero⟩, fun _ _ => rfl,
              Nat.le_refl _, p1, p2, rfl, rfl, ?_, ?_, fun k hh => alSet_mono _ _ _ _ hh, ?_, fun m hm hc _ => absurd hc (hnoS m hm)⟩⟩
            · intro k i hki
              simp only [alGet_alSet] at hki
              split at hki
              · rename_i hkk
                simp only [Option.some.injEq] at hki
                subst hki; subst hkk
                exact ⟨p1, fun _ => by rw [p2, hK]⟩
              · exact hinv.nodeMap k i hki
            · intro k j _ hkj
              simp only [alGet_alSet]
              split
              · rename_i hkk; subst hkk; rw [hg] at hkj; cases hkj
              · exact hkj
            · intro k hne
              simp only [alGet_alSet] at hne
              split at hne
              · rename_i hkk
                exact .inr ⟨_, self_mem_subs _, hkk⟩
              · exact .inl hne
            · intro m j hm hj
              simp only [alGet_alSet] at hj
              split at hj
              · rename_i hkk
                exact absurd ⟨m, hm, hkk⟩ hns
              · exact .inl hj
          | none =>
            simp only [ha] at h
            refine ⟨fuel, tc.entries.size, _, ext C tc.entries.size (Tree.atom b), h, ⟨?_, fun j hj => ext_lt hj,
              by simp, by simp, ext_self, rfl, rfl, ?_, ?_, fun k hh => alSet_mono _ _ _ _ hh, ?_, fun m hm hc _ => absurd hc (hnoS m hm)⟩⟩
            · apply hinv.pushEntry (Tree.atom b)
              · intro k i hki
                simp only [alGet_alSet] at hki
                split at hki
                · rename_i hkk
                  simp only [Option.some.injEq] at hki
                  subst hki; subst hkk
                  exact .inr ⟨rfl, fun _ => hK.symm⟩
                · exact .inl hki
              · intro b' i hki
                simp only [alGet_alSet] at hki
                split at hki
                · rename_i hkk
                  simp only [Option.some.injEq] at hki
                  subst hki; subst hkk
                  exact .inr ⟨rfl, rfl, hnb⟩
                · exact .inl hki
              · intro l r i hki; exact .inl hki
              · intro m' hm' hc'
                exfalso
                simp only [cnt] at hc'
                split at hc'
                · rename_i hbm; subst hbm; exact hnb hm'
                · omega
            · intro k j _ hkj
              simp only [alGet_alSet]
              split
              · rename_i hkk; subst hkk; rw [hg] at hkj; cases hkj
              · exact hkj
            · intro k hne
              simp only [alGet_alSet] at hne
              split at hne
              · rename_i hkk
                exact .inr ⟨_, self_mem_subs _, hkk⟩
              · exact .inl hne
            · intro m j hm hj
              simp only [alGet_alSet] at hj
              split at hj
              · rename_i hkk
                exact absurd ⟨m, hm, hkk⟩ hns
              · exact .inl hj
  | pair id l r ihl ihr =>
    intro hk fuel ops stack tc res C hinv h
    cases fuel with
    | zero => simp [updateLoop] at h
    | succ fuel =>
      have hsen : tc.isSentinel (.pair id l r) = false := rfl
      have hK : K (Node.pair id l r).key = Tree.pair l.tree r.tree := hk _ (self_mem_subs _)
      have hns : ¬ IsSK sent (Node.pair id l r).key := not_isSK_pair
      unfold updateLoop at h
      simp only [hsen, Bool.false_eq_true, if_false] at h
      cases hg : alGet tc.nodeMap (Node.pair id l r).key with
      | some idx =>
        simp only [hg] at h
        obtain ⟨p1, p2⟩ := hinv.nodeMap _ _ hg
        refine ⟨fuel, idx, tc, C, h, ⟨hinv, fun _ _ => rfl, Nat.le_refl _, p1, by rw [p2 hns, hK]; rfl, rfl, rfl,
          fun _ _ _ hh => hh, fun k hh => .inl hh, fun _ hh => hh, fun m j _ hj => .inl hj, ?_⟩⟩
        intro m hm hc hun
        have := hun _ (self_mem_subs _) trivial (by rw [hc]; exact Nat.le_refl _)
        rw [hg] at this; cases this
      | none =>
        simp only [hg] at h
        obtain ⟨f1, il, tc1, C1, h1, s1⟩ := ihl hk.left fuel _ stack tc res C hinv h
        obtain ⟨f2, ir, tc2, C2, h2, s2⟩ := ihr hk.right f1 _ (il :: stack) tc1 res C1 s1.inv h1
        cases f2 with
        | zero => simp [updateLoop] at h2
        | succ f2 =>
          -- the key of the pair is still vacant: only keys of strict sub-nodes were added
          have hvac : alGet tc2.nodeMap (Node.pair id l r).key = none := by
            cases hv : alGet tc2.nodeMap (Node.pair id l r).key with
            | none => rfl
            | some j =>
              exfalso
              have hsub : ∀ s, (s ∈ subs l ∨ s ∈ subs r) → s.key ≠ (Node.pair id l r).key := by
                intro s hs he
                have e1 : K s.key = s.tree := hk s (by
                  simp only [subs, List.mem_cons, List.mem_append]; exact .inr hs)
                have hsz : s.tree.size < (Tree.pair l.tree r.tree).size := by
                  rcases hs with hs | hs
                  · have := subs_size l s hs
                    simp only [Tree.size, Tree.pairs, Tree.atoms] at this ⊢; omega
                  · have := subs_size r s hs
                    simp only [Tree.size, Tree.pairs, Tree.atoms] at this ⊢; omega
                rw [he, hK] at e1
                rw [← e1] at hsz
                exact Nat.lt_irrefl _ hsz
              rcases s2.fresh _ (by rw [hv]; simp) with hh | ⟨s, hs, he⟩
              · rcases s1.fresh _ hh with hh2 | ⟨s, hs, he⟩
                · exact hh2 hg
                · exact hsub s (.inl hs) he
              · exact hsub s (.inr hs) he
          unfold updateLoop at h2
          simp only [hvac, popIdx] at h2
          have hil2 : il < tc2.entries.size := Nat.lt_of_lt_of_le s1.idx s2.grow
          have hcl : C2 il = l.tree := by rw [s2.same il s1.idx]; exact s1.content
          have hcr : C2 ir = r.tree := s2.content
          cases hel : tc2.entries[il]? with
          | none => rw [Array.getElem?_eq_getElem hil2] at hel; cases hel
          | some left =>
            cases her : tc2.entries[ir]? with
            | none => rw [Array.getElem?_eq_getElem s2.idx] at her; cases her
            | some right =>
              simp only [hel, her] at h2
              generalize hsl : (if left.serializedLength > 0 ∧ right.serializedLength > 0 then
                Classic.satAdd 1 (Classic.satAdd left.serializedLength right.serializedLength) else 0) = sl at h2
              have hslz : ∀ m, sent = some m → cnt m (Tree.pair (C2 il) (C2 ir)) ≥ 1 → sl = 0 := by
                intro m hm hc
                simp only [cnt] at hc
                rw [← hsl]
                by_cases hcl' : cnt m (C2 il) ≥ 1
                · have := s2.inv.slZero m hm il left hel hcl'
                  simp [this]
                · have hcr' : cnt m (C2 ir) ≥ 1 := by omega
                  have := s2.inv.slZero m hm ir right her hcr'
                  simp [this]
              obtain ⟨C3, i3, same3, grow3, idx3, cont3, nm3, st3, sn3⟩ := pairEntry_spec s2.inv il ir sl hil2 s2.idx hslz
              generalize pairEntry tc2 il ir sl = pe at h2 i3 same3 grow3 idx3 cont3 nm3 st3 sn3
              cases hm1 : modEntry pe.2.entries il (fun e => .ok (e.addParent pe.1 false)) with
              | error e => rw [hm1] at h2; cases h2
              | ok es1 =>
                rw [hm1] at h2
                simp only [] at h2
                have hch1 : child (C3 pe.1) false = some (C3 il) := by
                  rw [cont3, same3 il hil2]; rfl
                obtain ⟨i4, sz4⟩ := i3.addParent il pe.1 false es1 idx3 hch1 hm1
                cases hm2 : modEntry es1 ir (fun e => .ok (e.addParent pe.1 true)) with
                | error e => rw [hm2] at h2; cases h2
                | ok es2 =>
                  rw [hm2] at h2
                  simp only [] at h2
                  have hch2 : child (C3 pe.1) true = some (C3 ir) := by
                    rw [cont3, same3 ir s2.idx]; rfl
                  obtain ⟨i5, sz5⟩ := i4.addParent ir pe.1 true es2 (by simp only [sz4]; exact idx3) hch2 hm2
                  simp only [] at i5 sz5
                  have hg1 := s1.grow
                  have hg2 := s2.grow
                  refine ⟨f2, pe.1, _, C3, h2, ⟨⟨i5.sentinel, i5.parents, ?_, i5.atoms, i5.pairs, i5.slZero⟩, ?_, ?_, ?_, ?_, ?_, ?_, ?_, ?_,
                    fun k hh => alSet_mono _ _ _ _ (by rw [nm3]; exact s2.mono k (s1.mono k hh)), ?_, ?_⟩⟩
                  · intro k i hki
                    simp only [alGet_alSet] at hki
                    split at hki
                    · rename_i hkk
                      simp only [Option.some.injEq] at hki
                      subst hki; subst hkk
                      refine ⟨by simp only [sz5, sz4]; exact idx3, fun _ => ?_⟩
                      rw [cont3, hcl, hcr, hK]
                    · exact i5.nodeMap k i hki
                  · intro j hj
                    rw [same3 j (by omega), s2.same j (by omega), s1.same j hj]
                  · simp only [sz5, sz4]; omega
                  · simp only [sz5, sz4]; exact idx3
                  · rw [cont3, hcl, hcr]; rfl
                  · show pe.2.stack = tc.stack
                    rw [st3, s2.stack, s1.stack]
                  · show pe.2.serializedNodes = tc.serializedNodes
                    rw [sn3, s2.sn, s1.sn]
                  · intro k j hnsk hkj
                    simp only [alGet_alSet, nm3]
                    split
                    · rename_i hkk; subst hkk; rw [hg] at hkj; cases hkj
                    · exact s2.keep k j hnsk (s1.keep k j hnsk hkj)
                  · intro k hne
                    simp only [alGet_alSet, nm3] at hne
                    split at hne
                    · rename_i hkk
                      exact .inr ⟨_, self_mem_subs _, hkk⟩
                    · rcases s2.fresh k hne with hh | ⟨s, hs, he⟩
                      · rcases s1.fresh k hh with hh2 | ⟨s, hs, he⟩
                        · exact .inl hh2
                        · exact .inr ⟨s, by simp only [subs, List.mem_cons, List.mem_append]; exact .inr (.inl hs), he⟩
                      · exact .inr ⟨s, by simp only [subs, List.mem_cons, List.mem_append]; exact .inr (.inr hs), he⟩
                  · -- sentNew
                    intro m j hm hj
                    simp only [alGet_alSet, nm3] at hj
                    split at hj
                    · rename_i hkk
                      exact absurd ⟨m, hm, hkk⟩ hns
                    · rcases s2.sentNew m j hm hj with hh | ⟨hge, hc⟩
                      · rcases s1.sentNew m j hm hh with hh2 | ⟨hge, hc⟩
                        · exact .inl hh2
                        · have hj1 : j < tc1.entries.size := (s1.inv.nodeMap _ _ hh).1
                          exact .inr ⟨hge, by rw [same3 j (by omega), s2.same j hj1]; exact hc⟩
                      · have hj2 : j < tc2.entries.size := (s2.inv.nodeMap _ _ hj).1
                        exact .inr ⟨by omega, by rw [same3 j hj2]; exact hc⟩
                  · -- sentHit
                    intro m hm hc hun
                    have hcl1 : cnt m l.tree + cnt m r.tree = 1 := by simpa [Node.tree, cnt] using hc
                    have hunl : ∀ s, s ∈ subs l → IsPair s → cnt m s.tree ≥ 1 → alGet tc.nodeMap s.key = none :=
                      fun s hs => hun s (by simp only [subs, List.mem_cons, List.mem_append]; exact .inr (.inl hs))
                    have finish : ∀ j, alGet tc2.nodeMap (Key.atom m) = some j → tc.entries.size ≤ j → C2 j = Tree.atom m →
                        ∃ j, alGet (alSet pe.2.nodeMap (Node.pair id l r).key pe.1) (Key.atom m) = some j ∧
                          tc.entries.size ≤ j ∧ C3 j = Tree.atom m := by
                      intro j hj hge hcj
                      refine ⟨j, ?_, hge, ?_⟩
                      · simp only [alGet_alSet, nm3]
                        split
                        · rename_i hkk
                          exact absurd ⟨m, hm, hkk⟩ hns
                        · exact hj
                      · rw [same3 j (s2.inv.nodeMap _ _ hj).1]; exact hcj
                    by_cases hl1 : cnt m l.tree = 1
                    · obtain ⟨j1, g1, ge1, c1⟩ := s1.sentHit m hm hl1 hunl
                      have hj1 : j1 < tc1.entries.size := (s1.inv.nodeMap _ _ g1).1
                      -- the traversal of `r` keeps it or renews it
                      cases hg2 : alGet tc2.nodeMap (Key.atom m) with
                      | none =>
                        exact absurd hg2 (s2.mono _ (by rw [g1]; simp))
                      | some j2 =>
                        rcases s2.sentNew m j2 hm hg2 with hh | ⟨hge, hc2⟩
                        · rw [g1] at hh
                          simp only [Option.some.injEq] at hh
                          subst hh
                          exact finish j1 hg2 ge1 (by rw [s2.same j1 hj1]; exact c1)
                        · exact finish j2 hg2 (by omega) hc2
                    · have hr1 : cnt m r.tree = 1 := by omega
                      have hl0 : cnt m l.tree = 0 := by omega
                      have hunr : ∀ s, s ∈ subs r → IsPair s → cnt m s.tree ≥ 1 → alGet tc1.nodeMap s.key = none := by
                        intro s hs hp hcs
                        cases hv : alGet tc1.nodeMap s.key with
                        | none => rfl
                        | some j =>
                          exfalso
                          rcases s1.fresh s.key (by rw [hv]; simp) with hh | ⟨s', hs', he⟩
                          · have := hun s (by simp only [subs, List.mem_cons, List.mem_append]; exact .inr (.inr hs)) hp hcs
                            exact hh this
                          · have e1 : K s'.key = s'.tree := hk s' (by
                              simp only [subs, List.mem_cons, List.mem_append]; exact .inr (.inl hs'))
                            have e2 : K s.key = s.tree := hk s (by
                              simp only [subs, List.mem_cons, List.mem_append]; exact .inr (.inr hs))
                            rw [he, e2] at e1
                            have := subs_cnt m l s' hs'
                            rw [← e1] at this
                            omega
                      obtain ⟨j2, g2, ge2, c2⟩ := s2.sentHit m hm hr1 hunr
                      exact finish j2 g2 (by omega) c2

end Clvm.TreeCacheProofs
