/-
C19, faithful model, part 3: `TreeCache::update` on a cache without sentinel.  Every entry gets a content
(`C : index → Tree`); `update` extends `C`, registers every sub-node of the root under its key with the
right content, and only records parent links that are true child relations (`update_spec`).
-/
import ClvmProofs.Lemmas.TreeCacheSearch

namespace Clvm.TreeCacheProofs
open Clvm Clvm.Serde Clvm.Serde.TreeCache Clvm.Backref

/-! ### association lists -/

theorem alGet_alSet {κ : Type} [DecidableEq κ] (m : List (κ × Nat)) (k k' : κ) (v : Nat) :
    alGet (alSet m k v) k' = if k = k' then some v else alGet m k' := by
  induction m with
  | nil =>
    simp only [alSet, alGet]
  | cons kv r ih =>
    obtain ⟨k0, v0⟩ := kv
    simp only [alSet]
    by_cases h0 : k0 = k
    · subst h0
      simp only [if_true, alGet]
      by_cases h1 : k0 = k' <;> simp [h1]
    · simp only [h0, if_false, alGet, ih]
      by_cases h1 : k0 = k'
      · have : ¬ k = k' := fun e => h0 (h1.trans e.symm)
        simp [h1, this]
      · simp [h1]

/-! ### nodes -/

def subs : Node → List Node
  | .atom b => [.atom b]
  | .pair id l r => .pair id l r :: (subs l ++ subs r)

theorem self_mem_subs (n : Node) : n ∈ subs n := by cases n <;> simp [subs]

/-- the content of a `NodePtr` is a function of the `NodePtr` (on the nodes of `n`) -/
def KOk (K : Key → Tree) (n : Node) : Prop := ∀ s, s ∈ subs n → K s.key = s.tree

theorem KOk.left {K id l r} (h : KOk K (.pair id l r)) : KOk K l :=
  fun s hs => h s (by simp [subs, hs])
theorem KOk.right {K id l r} (h : KOk K (.pair id l r)) : KOk K r :=
  fun s hs => h s (by simp [subs, hs])

theorem subs_size : ∀ (n s : Node), s ∈ subs n → s.tree.size ≤ n.tree.size := by
  intro n
  induction n with
  | atom b => intro s h; simp [subs] at h; subst h; exact Nat.le_refl _
  | pair id l r ihl ihr =>
    intro s h
    simp only [subs, List.mem_cons, List.mem_append] at h
    rcases h with rfl | h | h
    · exact Nat.le_refl _
    · have := ihl s h
      simp only [Node.tree, Tree.size, Tree.pairs, Tree.atoms] at this ⊢; omega
    · have := ihr s h
      simp only [Node.tree, Tree.size, Tree.pairs, Tree.atoms] at this ⊢; omega

/-! ### the invariant -/

structure UInv (K : Key → Tree) (C : Nat → Tree) (tc : TC) : Prop where
  sentinel : tc.sentinel = none
  parents : ∀ (X : Nat) (e : NodeEntry), tc.entries[X]? = some e → ∀ P d, (P, d) ∈ e.parents →
    P < tc.entries.size ∧ child (C P) d = some (C X)
  nodeMap : ∀ k i, alGet tc.nodeMap k = some i → i < tc.entries.size ∧ C i = K k
  atoms : ∀ b i, alGet tc.atomLookup b = some i → i < tc.entries.size ∧ C i = Tree.atom b
  pairs : ∀ l r i, alGet tc.pairLookup (l, r) = some i →
    i < tc.entries.size ∧ l < tc.entries.size ∧ r < tc.entries.size ∧ C i = Tree.pair (C l) (C r)

theorem UInv.parentsSound {K C tc} (h : UInv K C tc) : ParentsSound C tc :=
  fun X e he P d hm => (h.parents X e he P d hm).2

/-- extend `C` at the next free index -/
def ext (C : Nat → Tree) (n : Nat) (t : Tree) : Nat → Tree := fun j => if j = n then t else C j

theorem ext_lt {C : Nat → Tree} {n j : Nat} {t : Tree} (h : j < n) : ext C n t j = C j := by
  unfold ext; rw [if_neg (by omega)]
theorem ext_self {C : Nat → Tree} {n : Nat} {t : Tree} : ext C n t n = t := by
  unfold ext; rw [if_pos rfl]

/-- pushing a fresh entry (no parents) and extending `C` keeps the invariant, for any changes of the maps
that are justified for the new content -/
theorem UInv.pushEntry {K C} {tc : TC} (h : UInv K C tc) (t : Tree) (sl : Nat) (nm : List (Key × Nat))
    (al : List (Bytes × Nat)) (pl : List ((Nat × Nat) × Nat))
    (hnm : ∀ k i, alGet nm k = some i → alGet tc.nodeMap k = some i ∨ (i = tc.entries.size ∧ t = K k))
    (hal : ∀ b i, alGet al b = some i → alGet tc.atomLookup b = some i ∨ (i = tc.entries.size ∧ t = Tree.atom b))
    (hpl : ∀ l r i, alGet pl (l, r) = some i → alGet tc.pairLookup (l, r) = some i ∨
      (i = tc.entries.size ∧ l < tc.entries.size ∧ r < tc.entries.size ∧ t = Tree.pair (C l) (C r))) :
    UInv K (ext C tc.entries.size t)
      { tc with nodeMap := nm, atomLookup := al, pairLookup := pl,
                entries := tc.entries.push { parents := [], serializedLength := sl, onStack := 0 } } where
  sentinel := h.sentinel
  parents := by
    intro X e he P d hm
    simp only [Array.getElem?_push] at he
    split at he
    · simp only [Option.some.injEq] at he; subst he; cases hm
    · have hX : X < tc.entries.size := by
        by_cases hc : X < tc.entries.size
        · exact hc
        · rw [Array.getElem?_eq_none (by omega)] at he; cases he
      obtain ⟨p1, p2⟩ := h.parents X e he P d hm
      simp only [Array.size_push]
      exact ⟨by omega, by rw [ext_lt p1, ext_lt hX]; exact p2⟩
  nodeMap := by
    intro k i hk
    simp only [Array.size_push]
    rcases hnm k i hk with h1 | ⟨rfl, ht⟩
    · obtain ⟨p1, p2⟩ := h.nodeMap k i h1
      exact ⟨by omega, by rw [ext_lt p1]; exact p2⟩
    · exact ⟨by omega, by rw [ext_self]; exact ht⟩
  atoms := by
    intro b i hk
    simp only [Array.size_push]
    rcases hal b i hk with h1 | ⟨rfl, ht⟩
    · obtain ⟨p1, p2⟩ := h.atoms b i h1
      exact ⟨by omega, by rw [ext_lt p1]; exact p2⟩
    · exact ⟨by omega, by rw [ext_self]; exact ht⟩
  pairs := by
    intro l r i hk
    simp only [Array.size_push]
    rcases hpl l r i hk with h1 | ⟨rfl, hl, hr, ht⟩
    · obtain ⟨p1, p2, p3, p4⟩ := h.pairs l r i h1
      exact ⟨by omega, by omega, by omega, by rw [ext_lt p1, ext_lt p2, ext_lt p3]; exact p4⟩
    · exact ⟨by omega, by omega, by omega, by rw [ext_self, ext_lt hl, ext_lt hr]; exact ht⟩

theorem mem_addParent {e : NodeEntry} {parent : Nat} {pos : Bool} {x : Nat × Bool}
    (h : x ∈ (e.addParent parent pos).parents) : x ∈ e.parents ∨ x = (parent, pos) := by
  unfold NodeEntry.addParent at h
  split at h
  · exact List.mem_or_eq_of_mem_set h
  · simp only [List.mem_append, List.mem_singleton] at h; exact h

/-- adding a true parent link to an entry keeps the invariant -/
theorem UInv.addParent {K C} {tc : TC} (h : UInv K C tc) (X idx : Nat) (pos : Bool) (es : Array NodeEntry)
    (hidx : idx < tc.entries.size) (hchild : child (C idx) pos = some (C X))
    (hm : modEntry tc.entries X (fun e => .ok (e.addParent idx pos)) = .ok es) :
    UInv K C { tc with entries := es } ∧ es.size = tc.entries.size := by
  unfold modEntry at hm
  cases he : tc.entries[X]? with
  | none => simp [he] at hm
  | some e =>
    simp only [he, Except.ok.injEq] at hm
    subst hm
    have hsz : (tc.entries.set! X (e.addParent idx pos)).size = tc.entries.size := by simp [Array.set!]
    refine ⟨⟨h.sentinel, ?_, ?_, ?_, ?_⟩, hsz⟩
    · intro Y e' he' P d hmem
      simp only [hsz]
      rw [Array.set!, Array.getElem?_setIfInBounds] at he'
      by_cases hxy : X = Y
      · subst hxy
        rw [if_pos rfl] at he'
        split at he'
        · simp only [Option.some.injEq] at he'; subst he'
          rcases mem_addParent hmem with h1 | h1
          · exact h.parents X e he P d h1
          · simp only [Prod.mk.injEq] at h1
            obtain ⟨rfl, rfl⟩ := h1
            exact ⟨hidx, hchild⟩
        · cases he'
      · rw [if_neg hxy] at he'
        exact h.parents Y e' he' P d hmem
    · intro k i hk; simp only [hsz]; exact h.nodeMap k i hk
    · intro b i hk; simp only [hsz]; exact h.atoms b i hk
    · intro l r i hk; simp only [hsz]; exact h.pairs l r i hk

/-! ### the traversal, node by node -/

/-- what processing `Traverse(n)` achieves (on any successful run) -/
structure Step (K : Key → Tree) (C : Nat → Tree) (tc : TC) (n : Node) (C' : Nat → Tree) (tc' : TC) (i : Nat) : Prop where
  inv : UInv K C' tc'
  same : ∀ j, j < tc.entries.size → C' j = C j
  grow : tc.entries.size ≤ tc'.entries.size
  idx : i < tc'.entries.size
  content : C' i = n.tree
  stack : tc'.stack = tc.stack
  sn : tc'.serializedNodes = tc.serializedNodes
  keep : ∀ k j, alGet tc.nodeMap k = some j → alGet tc'.nodeMap k = some j
  fresh : ∀ k, alGet tc'.nodeMap k ≠ none → alGet tc.nodeMap k ≠ none ∨ ∃ s, s ∈ subs n ∧ s.key = k

theorem pairEntry_spec {K C} {tc : TC} (h : UInv K C tc) (il ir sl : Nat) (hl : il < tc.entries.size)
    (hr : ir < tc.entries.size) :
    ∃ C', UInv K C' (pairEntry tc il ir sl).2 ∧ (∀ j, j < tc.entries.size → C' j = C j) ∧
      tc.entries.size ≤ (pairEntry tc il ir sl).2.entries.size ∧
      (pairEntry tc il ir sl).1 < (pairEntry tc il ir sl).2.entries.size ∧
      C' (pairEntry tc il ir sl).1 = Tree.pair (C il) (C ir) ∧
      (pairEntry tc il ir sl).2.nodeMap = tc.nodeMap ∧ (pairEntry tc il ir sl).2.stack = tc.stack ∧
      (pairEntry tc il ir sl).2.serializedNodes = tc.serializedNodes := by
  unfold pairEntry
  cases hp : alGet tc.pairLookup (il, ir) with
  | some i =>
    obtain ⟨p1, _, _, p4⟩ := h.pairs il ir i hp
    exact ⟨C, h, fun _ _ => rfl, Nat.le_refl _, p1, p4, rfl, rfl, rfl⟩
  | none =>
    refine ⟨ext C tc.entries.size (Tree.pair (C il) (C ir)), ?_, fun j hj => ext_lt hj, by simp, by simp, ext_self,
      rfl, rfl, rfl⟩
    apply h.pushEntry (Tree.pair (C il) (C ir))
    · intro k i hki; exact .inl hki
    · intro b i hki; exact .inl hki
    · intro l r i hki
      simp only [alGet_alSet] at hki
      split at hki
      · rename_i hkk
        simp only [Prod.mk.injEq] at hkk
        obtain ⟨rfl, rfl⟩ := hkk
        simp only [Option.some.injEq] at hki
        subst hki
        exact .inr ⟨rfl, hl, hr, rfl⟩
      · exact .inl hki

theorem modEntry_size {es es' : Array NodeEntry} {X : Nat} {f : NodeEntry → Except Err NodeEntry}
    (h : modEntry es X f = .ok es') : es'.size = es.size := by
  unfold modEntry at h
  cases he : es[X]? with
  | none => simp [he] at h
  | some e =>
    simp only [he] at h
    cases hf : f e with
    | error er => simp [hf] at h
    | ok e' =>
      simp only [hf, Except.ok.injEq] at h
      subst h; simp [Array.set!]

theorem updateLoop_traverse (K : Key → Tree) : ∀ (n : Node), KOk K n →
    ∀ (fuel : Nat) (ops : List CacheOp) (stack : List Nat) (tc : TC) (res : List Nat × TC) (C : Nat → Tree),
      UInv K C tc → updateLoop fuel (.traverse n :: ops) stack tc = .ok res →
      ∃ fuel' i tc' C', updateLoop fuel' ops (i :: stack) tc' = .ok res ∧ Step K C tc n C' tc' i := by
  intro n
  induction n with
  | atom b =>
    intro hk fuel ops stack tc res C hinv h
    cases fuel with
    | zero => simp [updateLoop] at h
    | succ fuel =>
      have hsen : tc.isSentinel (.atom b) = false := by simp [TC.isSentinel, hinv.sentinel]
      have hK : K (Node.atom b).key = Tree.atom b := hk _ (self_mem_subs _)
      unfold updateLoop at h
      simp only [hsen, Bool.false_eq_true, if_false] at h
      cases hg : alGet tc.nodeMap (Node.atom b).key with
      | some idx =>
        simp only [hg] at h
        obtain ⟨p1, p2⟩ := hinv.nodeMap _ _ hg
        exact ⟨fuel, idx, tc, C, h, ⟨hinv, fun _ _ => rfl, Nat.le_refl _, p1, by rw [p2, hK]; rfl, rfl, rfl,
          fun _ _ hh => hh, fun k hh => .inl hh⟩⟩
      | none =>
        simp only [hg] at h
        cases ha : alGet tc.atomLookup b with
        | some idx =>
          simp only [ha] at h
          obtain ⟨p1, p2⟩ := hinv.atoms _ _ ha
          refine ⟨fuel, idx, _, C, h, ⟨⟨hinv.sentinel, hinv.parents, ?_, hinv.atoms, hinv.pairs⟩, fun _ _ => rfl,
            Nat.le_refl _, p1, p2, rfl, rfl, ?_, ?_⟩⟩
          · intro k i hki
            simp only [alGet_alSet] at hki
            split at hki
            · rename_i hkk
              simp only [Option.some.injEq] at hki
              subst hki; subst hkk
              exact ⟨p1, by rw [p2, hK]⟩
            · exact hinv.nodeMap k i hki
          · intro k j hkj
            simp only [alGet_alSet]
            split
            · rename_i hkk; subst hkk; rw [hg] at hkj; cases hkj
            · exact hkj
          · intro k hne
            simp only [alGet_alSet] at hne
            split at hne
            · rename_i hkk
              exact .inr ⟨_, self_mem_subs _, hkk⟩
            · exact .inl hne
        | none =>
          simp only [ha] at h
          refine ⟨fuel, tc.entries.size, _, ext C tc.entries.size (Tree.atom b), h, ⟨?_, fun j hj => ext_lt hj,
            by simp, by simp, ext_self, rfl, rfl, ?_, ?_⟩⟩
          · apply hinv.pushEntry (Tree.atom b)
            · intro k i hki
              simp only [alGet_alSet] at hki
              split at hki
              · rename_i hkk
                simp only [Option.some.injEq] at hki
                subst hki; subst hkk
                exact .inr ⟨rfl, hK.symm⟩
              · exact .inl hki
            · intro b' i hki
              simp only [alGet_alSet] at hki
              split at hki
              · rename_i hkk
                simp only [Option.some.injEq] at hki
                subst hki; subst hkk
                exact .inr ⟨rfl, rfl⟩
              · exact .inl hki
            · intro l r i hki; exact .inl hki
          · intro k j hkj
            simp only [alGet_alSet]
            split
            · rename_i hkk; subst hkk; rw [hg] at hkj; cases hkj
            · exact hkj
          · intro k hne
            simp only [alGet_alSet] at hne
            split at hne
            · rename_i hkk
              exact .inr ⟨_, self_mem_subs _, hkk⟩
            · exact .inl hne
  | pair id l r ihl ihr =>
    intro hk fuel ops stack tc res C hinv h
    cases fuel with
    | zero => simp [updateLoop] at h
    | succ fuel =>
      have hsen : tc.isSentinel (.pair id l r) = false := rfl
      have hK : K (Node.pair id l r).key = Tree.pair l.tree r.tree := hk _ (self_mem_subs _)
      unfold updateLoop at h
      simp only [hsen, Bool.false_eq_true, if_false] at h
      cases hg : alGet tc.nodeMap (Node.pair id l r).key with
      | some idx =>
        simp only [hg] at h
        obtain ⟨p1, p2⟩ := hinv.nodeMap _ _ hg
        exact ⟨fuel, idx, tc, C, h, ⟨hinv, fun _ _ => rfl, Nat.le_refl _, p1, by rw [p2, hK]; rfl, rfl, rfl,
          fun _ _ hh => hh, fun k hh => .inl hh⟩⟩
      | none =>
        simp only [hg] at h
        obtain ⟨f1, il, tc1, C1, h1, s1⟩ := ihl hk.left fuel _ stack tc res C hinv h
        obtain ⟨f2, ir, tc2, C2, h2, s2⟩ := ihr hk.right f1 _ (il :: stack) tc1 res C1 s1.inv h1
        cases f2 with
        | zero => simp [updateLoop] at h2
        | succ f2 =>
          -- the key of the pair is still vacant: only keys of strict sub-nodes were added
          have hvac : alGet tc2.nodeMap (Node.pair id l r).key = none := by
            cases hv : alGet tc2.nodeMap (Node.pair id l r).key with
            | none => rfl
            | some j =>
              exfalso
              have hsub : ∀ s, (s ∈ subs l ∨ s ∈ subs r) → s.key ≠ (Node.pair id l r).key := by
                intro s hs he
                have e1 : K s.key = s.tree := hk s (by
                  simp only [subs, List.mem_cons, List.mem_append]; exact .inr hs)
                have hsz : s.tree.size < (Tree.pair l.tree r.tree).size := by
                  rcases hs with hs | hs
                  · have := subs_size l s hs
                    simp only [Tree.size, Tree.pairs, Tree.atoms] at this ⊢; omega
                  · have := subs_size r s hs
                    simp only [Tree.size, Tree.pairs, Tree.atoms] at this ⊢; omega
                rw [he, hK] at e1
                rw [← e1] at hsz
                exact Nat.lt_irrefl _ hsz
              rcases s2.fresh _ (by rw [hv]; simp) with hh | ⟨s, hs, he⟩
              · rcases s1.fresh _ hh with hh2 | ⟨s, hs, he⟩
                · exact hh2 hg
                · exact hsub s (.inl hs) he
              · exact hsub s (.inr hs) he
          unfold updateLoop at h2
          simp only [hvac, popIdx] at h2
          have hil2 : il < tc2.entries.size := Nat.lt_of_lt_of_le s1.idx s2.grow
          have hcl : C2 il = l.tree := by rw [s2.same il s1.idx]; exact s1.content
          have hcr : C2 ir = r.tree := s2.content
          cases hel : tc2.entries[il]? with
          | none => rw [Array.getElem?_eq_getElem hil2] at hel; cases hel
          | some left =>
            cases her : tc2.entries[ir]? with
            | none => rw [Array.getElem?_eq_getElem s2.idx] at her; cases her
            | some right =>
              simp only [hel, her] at h2
              generalize hsl : (if left.serializedLength > 0 ∧ right.serializedLength > 0 then
                Classic.satAdd 1 (Classic.satAdd left.serializedLength right.serializedLength) else 0) = sl at h2
              obtain ⟨C3, i3, same3, grow3, idx3, cont3, nm3, st3, sn3⟩ := pairEntry_spec s2.inv il ir sl hil2 s2.idx
              generalize pairEntry tc2 il ir sl = pe at h2 i3 same3 grow3 idx3 cont3 nm3 st3 sn3
              cases hm1 : modEntry pe.2.entries il (fun e => .ok (e.addParent pe.1 false)) with
              | error e => rw [hm1] at h2; cases h2
              | ok es1 =>
                rw [hm1] at h2
                simp only [] at h2
                have hch1 : child (C3 pe.1) false = some (C3 il) := by
                  rw [cont3, same3 il hil2]; rfl
                obtain ⟨i4, sz4⟩ := i3.addParent il pe.1 false es1 idx3 hch1 hm1
                cases hm2 : modEntry es1 ir (fun e => .ok (e.addParent pe.1 true)) with
                | error e => rw [hm2] at h2; cases h2
                | ok es2 =>
                  rw [hm2] at h2
                  simp only [] at h2
                  have hch2 : child (C3 pe.1) true = some (C3 ir) := by
                    rw [cont3, same3 ir s2.idx]; rfl
                  obtain ⟨i5, sz5⟩ := i4.addParent ir pe.1 true es2 (by simp only [sz4]; exact idx3) hch2 hm2
                  simp only [] at i5 sz5
                  refine ⟨f2, pe.1, _, C3, h2, ⟨⟨i5.sentinel, i5.parents, ?_, i5.atoms, i5.pairs⟩, ?_, ?_, ?_, ?_, ?_, ?_, ?_, ?_⟩⟩
                  · intro k i hki
                    simp only [alGet_alSet] at hki
                    split at hki
                    · rename_i hkk
                      simp only [Option.some.injEq] at hki
                      subst hki; subst hkk
                      refine ⟨by simp only [sz5, sz4]; exact idx3, ?_⟩
                      rw [cont3, hcl, hcr, hK]
                    · exact i5.nodeMap k i hki
                  · intro j hj
                    rw [same3 j (by have := s1.grow; have := s2.grow; omega), s2.same j (by have := s1.grow; omega), s1.same j hj]
                  · simp only [sz5, sz4]
                    have := s1.grow; have := s2.grow; omega
                  · simp only [sz5, sz4]; exact idx3
                  · rw [cont3, hcl, hcr]; rfl
                  · show pe.2.stack = tc.stack
                    rw [st3, s2.stack, s1.stack]
                  · show pe.2.serializedNodes = tc.serializedNodes
                    rw [sn3, s2.sn, s1.sn]
                  · intro k j hkj
                    simp only [alGet_alSet, nm3]
                    split
                    · rename_i hkk; subst hkk; rw [hg] at hkj; cases hkj
                    · exact s2.keep k j (s1.keep k j hkj)
                  · intro k hne
                    simp only [alGet_alSet, nm3] at hne
                    split at hne
                    · rename_i hkk
                      exact .inr ⟨_, self_mem_subs _, hkk⟩
                    · rcases s2.fresh k hne with hh | ⟨s, hs, he⟩
                      · rcases s1.fresh k hh with hh2 | ⟨s, hs, he⟩
                        · exact .inl hh2
                        · exact .inr ⟨s, by simp only [subs, List.mem_cons, List.mem_append]; exact .inr (.inl hs), he⟩
                      · exact .inr ⟨s, by simp only [subs, List.mem_cons, List.mem_append]; exact .inr (.inr hs), he⟩

end Clvm.TreeCacheProofs
