/- helper lemmas for Props/C28.lean: the pure-Python stream reader vs the Rust classic decoder -/
import ClvmModel.Py.De
import ClvmProofs.Lemmas.ClassicHdr
import ClvmProofs.Lemmas.ClassicCanon
set_option linter.unusedSimpArgs false

namespace Clvm.Py.DeLemmas
open Clvm Clvm.Py Clvm.Py.De Clvm.Serde.Classic

/-- the `while b & bit_mask` loop computes `leading_ones` and clears those bits -/
theorem stripLoop_eq : ∀ b : Fin 256,
    stripLoop 9 b.val 0x80 0 = (leadingOnes b.val, b.val &&& (0xff >>> leadingOnes b.val)) := by
  decide +kernel

theorem foldl_eq_beFold (l : Bytes) (acc : Nat) :
    l.foldl (fun a x => a * 256 + x.toNat) acc = beFold acc l := by
  induction l generalizing acc with
  | nil => rfl
  | cons x xs ih => rw [List.foldl_cons, beFold_cons, ih]

theorem fromBytesBig_eq (l : Bytes) : fromBytesBig l = beFold 0 l := foldl_eq_beFold l 0

/-- same success value, or both fail -/
def Agree {α : Type} (p : Except PyErr α) (r : Except Err α) : Prop :=
  match p, r with
  | .ok a, .ok b => a = b
  | .error _, .error _ => True
  | _, _ => False

theorem same_bound : Gen.pyBlobTooLarge = Gen.decodeSizeMax := by decide

/-- outside the 7-byte-prefix first byte `0xfe` (and the pair marker), `_atom_from_stream` and
`parse_atom` read the same number of bytes and produce the same atom, or both fail -/
theorem atom_agree (inp : Bytes) (b : UInt8) (hff : b.toNat ≠ 0xff) (hfe : b.toNat ≠ 0xfe) :
    Agree (atomFromStream inp b.toNat) (parseAtom inp b) := by
  have hb : b.toNat < 256 := b.toNat_lt
  by_cases e80 : b.toNat = 0x80
  · simp [atomFromStream, parseAtom, e80, Agree]
  by_cases lo : b.toNat ≤ 0x7f
  · have hbb : UInt8.ofNat b.toNat = b := by simp
    by_cases e1 : b.toNat = 1
    · have : b = 1 := by apply UInt8.toNat_inj.mp; simpa using e1
      subst this
      simp [atomFromStream, parseAtom, Agree, Gen.pyMaxSingleByte]
    · simp [atomFromStream, parseAtom, parseAtomPtr, e80, e1, lo, Agree, Gen.pyMaxSingleByte, MAX_SINGLE_BYTE, hbb]
  · -- a length header of k = 1..6 bytes
    have hlo : ¬ b.toNat ≤ Gen.pyMaxSingleByte := by simpa [Gen.pyMaxSingleByte] using lo
    have hlo' : ¬ b.toNat ≤ MAX_SINGLE_BYTE := by simpa [MAX_SINGLE_BYTE] using lo
    have hs := stripLoop_eq ⟨b.toNat, hb⟩
    simp only at hs
    have h80 : (b.toNat &&& 0x80 == 0) = false := by
      rw [and_80_eq_zero _ hb]; simp; omega
    obtain ⟨k, hk⟩ : ∃ k, leadingOnes b.toNat = k := ⟨_, rfl⟩
    have hkr : 1 ≤ k ∧ k ≤ 6 := by
      have := leadingOnes_cases b.toNat hb
      omega
    have e1 : ¬ b.toNat = 1 := by omega
    have hmore : (if k > 1 then inp.take (k - 1) else []) = inp.take (k - 1) := by
      by_cases h : k > 1
      · simp [h]
      · have : k - 1 = 0 := by omega
        simp [h, this]
    have hbe80 : (b.toNat == 0x80) = false := by simpa using e80
    have hbe1 : (b.toNat == 0x01) = false := by simpa using e1
    unfold atomFromStream parseAtom parseAtomPtr decodeSize decodeSizeWithOffset
    simp only [hbe80, hbe1, hlo, hlo', h80, hs, hk, hmore, Bool.false_eq_true, if_false, fromBytesBig_eq,
      same_bound, Gen.decodeSizeMaxPrefix, List.length_cons]
    have hk8 : ¬ k ≥ 8 := by omega
    simp only [hk8, if_false]
    generalize hS : beFold 0 (UInt8.ofNat (b.toNat &&& 255 >>> k) :: List.take (k - 1) inp) = S
    by_cases hshort : inp.length < k - 1
    · have h1 : k > 1 := by omega
      have hm : ¬ (min (k - 1) inp.length = k - 1) := by omega
      simp [hshort, h1, hm, Agree]
    · have hm : min (k - 1) inp.length = k - 1 := by omega
      have h3 : ¬ (k - 1 + 1 > 6) := by omega
      by_cases hbig : S ≥ Gen.decodeSizeMax
      · have hbig' : Gen.decodeSizeMax ≤ S := hbig
        simp [hshort, hm, h3, hbig', Agree]
      · have hbig' : ¬ Gen.decodeSizeMax ≤ S := hbig
        by_cases hbody : inp.length - (k - 1) < S
        · have hm2 : ¬ (min S (inp.length - (k - 1)) = S) := by omega
          simp [hshort, hm, h3, hbig', hbody, hm2, Agree]
        · have hm2 : min S (inp.length - (k - 1)) = S := by omega
          simp [hshort, hm, h3, hbig', hbody, hm2, Agree]

/-! ### the two reader loops -/

def opMap : ParseOp → Op
  | .sexp => .readSexp
  | .cons => .cons

/-- **The defect region of finding H** (decidable): the readers, working through the input token by
token, reach an atom whose first byte is `0xfe` — a 7-byte size prefix. -/
def hits7 (inp : Bytes) (ops : List ParseOp) : Bool :=
  match ops with
  | [] => false
  | .sexp :: ops' =>
    match inp with
    | [] => false
    | b :: rest =>
      if b.toNat == 0xff then hits7 rest (.sexp :: .sexp :: .cons :: ops')
      else if b.toNat == 0xfe then true
      else
        match parseAtom rest b with
        | .error _ => false
        | .ok (n, _) => hits7 (rest.drop n) ops'
  | .cons :: ops' => hits7 inp ops'
termination_by (inp.length, ops.length)
decreasing_by
  · simp_wf; left; omega
  · simp_wf; left; omega
  · simp_wf; right; omega

theorem loop_agree (inp : Bytes) (ops : List ParseOp) (vals : List Tree) (h : hits7 inp ops = false) :
    Agree (sexpFromStreamGo inp (ops.map opMap) vals) (nodeFromStream inp ops vals) := by
  fun_induction hits7 inp ops generalizing vals with
  | case1 inp =>
    cases vals <;> simp [sexpFromStreamGo, nodeFromStream, Agree]
  | case2 ops' =>
    simp only [List.map_cons, opMap]
    rw [sexpFromStreamGo, nodeFromStream]
    simp [opMap, Agree]
  | case3 ops' b rest hb ih =>
    simp only [List.map_cons, opMap]
    rw [sexpFromStreamGo, nodeFromStream]
    have hb' : (b.toNat == Gen.pyConsBoxMarker) = true := by simpa [Gen.pyConsBoxMarker] using hb
    have hb'' : (b.toNat == CONS_BOX_MARKER) = true := by simpa [CONS_BOX_MARKER] using hb
    simp only [opMap, hb', hb'', if_true]
    have := ih vals h
    simpa [opMap] using this
  | case4 ops' b rest hb hfe => simp at h
  | case5 ops' b rest hb hfe e he =>
    simp only [List.map_cons, opMap]
    rw [sexpFromStreamGo, nodeFromStream]
    have hb' : (b.toNat == Gen.pyConsBoxMarker) = false := by simpa [Gen.pyConsBoxMarker] using hb
    have hb'' : (b.toNat == CONS_BOX_MARKER) = false := by simpa [CONS_BOX_MARKER] using hb
    simp only [opMap, hb', hb'', Bool.false_eq_true, if_false]
    have ha := atom_agree rest b (by simpa using hb) (by simpa using hfe)
    rw [he] at ha ⊢
    cases hp : atomFromStream rest b.toNat with
    | error e' => simp [Agree]
    | ok v => rw [hp] at ha; simp [Agree] at ha
  | case6 ops' b rest hb hfe n t he ih =>
    simp only [List.map_cons, opMap]
    rw [sexpFromStreamGo, nodeFromStream]
    have hb' : (b.toNat == Gen.pyConsBoxMarker) = false := by simpa [Gen.pyConsBoxMarker] using hb
    have hb'' : (b.toNat == CONS_BOX_MARKER) = false := by simpa [CONS_BOX_MARKER] using hb
    simp only [opMap, hb', hb'', Bool.false_eq_true, if_false]
    have ha := atom_agree rest b (by simpa using hb) (by simpa using hfe)
    rw [he] at ha ⊢
    cases hp : atomFromStream rest b.toNat with
    | error e' => rw [hp] at ha; simp [Agree] at ha
    | ok v =>
      rw [hp] at ha
      simp only [Agree] at ha
      subst ha
      exact ih (t :: vals) h
  | case7 inp ops' ih =>
    simp only [List.map_cons, opMap]
    match vals with
    | [] => simp [sexpFromStreamGo, nodeFromStream, Agree]
    | [_] => simp [sexpFromStreamGo, nodeFromStream, Agree]
    | v2 :: v1 :: vs =>
      rw [sexpFromStreamGo, nodeFromStream]
      exact ih _ h

/-- the documented example of finding H -/
def witnessH : Bytes := [0xfe, 0x00, 0x00, 0x00, 0x00, 0x00, 0x01, 0x41]

theorem py_accepts_witness : sexpFromStream witnessH = .ok (.atom [0x41], []) := by
  have hs : stripLoop 9 254 128 0 = (7, 0) := by decide
  simp [sexpFromStream, witnessH, sexpFromStreamGo, atomFromStream, hs, fromBytesBig, Gen.pyConsBoxMarker,
    Gen.pyMaxSingleByte, Gen.pyBlobTooLarge]

theorem rust_rejects_witness : ∃ e, nodeFromStream witnessH [.sexp] [] = .error e :=
  nodeFromStream_fe 0xfe (by decide) _ _ _

theorem witness_in_region : hits7 witnessH [.sexp] = true := by
  simp [witnessH, hits7]

end Clvm.Py.DeLemmas
