/- helper lemmas for Props/C28.lean: the pure-Python stream reader vs the Rust classic decoder -/
import ClvmModel.Py.De
import ClvmProofs.Lemmas.ClassicHdr
import ClvmProofs.Lemmas.ClassicCanon
set_option linter.unusedSimpArgs false

namespace Clvm.Py.DeLemmas
open Clvm Clvm.Py Clvm.Py.De Clvm.Serde.Classic

/-- the `while b & bit_mask` loop computes `leading_ones` and clears those bits -/
theorem stripLoop_eq : ∀ b : Fin 256,
    stripLoop 9 b.val 0x80 0 = (leadingOnes b.val, b.val &&& (0xff >>> leadingOnes b.val)) := by
  decide +kernel

theorem foldl_eq_beFold (l : Bytes) (acc : Nat) :
    l.foldl (fun a x => a * 256 + x.toNat) acc = beFold acc l := by
  induction l generalizing acc with
  | nil => rfl
  | cons x xs ih => rw [List.foldl_cons, beFold_cons, ih]

theorem fromBytesBig_eq (l : Bytes) : fromBytesBig l = beFold 0 l := foldl_eq_beFold l 0

/-- same success value, or both fail -/
def Agree {α : Type} (p : Except PyErr α) (r : Except Err α) : Prop :=
  match p, r with
  | .ok a, .ok b => a = b
  | .error _, .error _ => True
  | _, _ => False

theorem same_bound : Gen.pyBlobTooLarge = Gen.decodeSizeMax := by decide

/-- first byte `0xfe` (7 leading ones): both readers refuse -/
theorem atom_agree_fe (inp : Bytes) (b : UInt8) (hfe : b.toNat = 0xfe) :
    Agree (atomFromStream inp b.toNat) (parseAtom inp b) := by
  obtain ⟨e, he⟩ := decode_fe inp
  have hs : stripLoop 9 254 128 0 = (7, 0) := by decide
  simp [atomFromStream, parseAtom, parseAtomPtr, decodeSize, hfe, he, hs, Agree, Gen.pyMaxSingleByte,
    MAX_SINGLE_BYTE]

/-- for every first byte other than the pair marker, `_atom_from_stream` and `parse_atom` read the
same number of bytes and produce the same atom, or both fail -/
theorem atom_agree (inp : Bytes) (b : UInt8) (hff : b.toNat ≠ 0xff) :
    Agree (atomFromStream inp b.toNat) (parseAtom inp b) := by
  by_cases hfe : b.toNat = 0xfe
  · exact atom_agree_fe inp b hfe
  have hb : b.toNat < 256 := b.toNat_lt
  by_cases e80 : b.toNat = 0x80
  · simp [atomFromStream, parseAtom, e80, Agree]
  by_cases lo : b.toNat ≤ 0x7f
  · have hbb : UInt8.ofNat b.toNat = b := by simp
    by_cases e1 : b.toNat = 1
    · have : b = 1 := by apply UInt8.toNat_inj.mp; simpa using e1
      subst this
      simp [atomFromStream, parseAtom, Agree, Gen.pyMaxSingleByte]
    · simp [atomFromStream, parseAtom, parseAtomPtr, e80, e1, lo, Agree, Gen.pyMaxSingleByte, MAX_SINGLE_BYTE, hbb]
  · -- a length header of k = 1..6 bytes
    have hlo : ¬ b.toNat ≤ Gen.pyMaxSingleByte := by simpa [Gen.pyMaxSingleByte] using lo
    have hlo' : ¬ b.toNat ≤ MAX_SINGLE_BYTE := by simpa [MAX_SINGLE_BYTE] using lo
    have hs := stripLoop_eq ⟨b.toNat, hb⟩
    simp only at hs
    have h80 : (b.toNat &&& 0x80 == 0) = false := by
      rw [and_80_eq_zero _ hb]; simp; omega
    obtain ⟨k, hk⟩ : ∃ k, leadingOnes b.toNat = k := ⟨_, rfl⟩
    have hkr : 1 ≤ k ∧ k ≤ 6 := by
      have := leadingOnes_cases b.toNat hb
      omega
    have e1 : ¬ b.toNat = 1 := by omega
    have hmore : (if k > 1 then inp.take (k - 1) else []) = inp.take (k - 1) := by
      by_cases h : k > 1
      · simp [h]
      · have : k - 1 = 0 := by omega
        simp [h, this]
    have hbe80 : (b.toNat == 0x80) = false := by simpa using e80
    have hbe1 : (b.toNat == 0x01) = false := by simpa using e1
    unfold atomFromStream parseAtom parseAtomPtr decodeSize decodeSizeWithOffset
    simp only [hbe80, hbe1, hlo, hlo', h80, hs, hk, hmore, Bool.false_eq_true, if_false, fromBytesBig_eq,
      same_bound, Gen.decodeSizeMaxPrefix, List.length_cons]
    have hk8 : ¬ k ≥ 8 := by omega
    have hk6 : ¬ k > 6 := by omega
    simp only [hk8, hk6, if_false]
    generalize hS : beFold 0 (UInt8.ofNat (b.toNat &&& 255 >>> k) :: List.take (k - 1) inp) = S
    by_cases hshort : inp.length < k - 1
    · have h1 : k > 1 := by omega
      have hm : ¬ (min (k - 1) inp.length = k - 1) := by omega
      simp [hshort, h1, hm, Agree]
    · have hm : min (k - 1) inp.length = k - 1 := by omega
      have h3 : ¬ (k - 1 + 1 > 6) := by omega
      by_cases hbig : S ≥ Gen.decodeSizeMax
      · have hbig' : Gen.decodeSizeMax ≤ S := hbig
        simp [hshort, hm, h3, hbig', Agree]
      · have hbig' : ¬ Gen.decodeSizeMax ≤ S := hbig
        by_cases hbody : inp.length - (k - 1) < S
        · have hm2 : ¬ (min S (inp.length - (k - 1)) = S) := by omega
          simp [hshort, hm, h3, hbig', hbody, hm2, Agree]
        · have hm2 : min S (inp.length - (k - 1)) = S := by omega
          simp [hshort, hm, h3, hbig', hbody, hm2, Agree]

/-! ### the two reader loops -/

def opMap : ParseOp → Op
  | .sexp => .readSexp
  | .cons => .cons

/-- **`sexp_from_stream` and `node_from_stream` agree on every input, work stack and value stack**:
same tree and same unread remainder, or both fail. -/
theorem loop_agree (inp : Bytes) (ops : List ParseOp) (vals : List Tree) :
    Agree (sexpFromStreamGo inp (ops.map opMap) vals) (nodeFromStream inp ops vals) := by
  fun_induction nodeFromStream inp ops vals with
  | case1 inp v vs => simp [sexpFromStreamGo, Agree]
  | case2 inp => simp [sexpFromStreamGo, Agree]
  | case3 vals ops' => simp [sexpFromStreamGo, opMap, Agree]
  | case4 vals ops' b rest hb ih =>
    simp only [List.map_cons, opMap]
    rw [sexpFromStreamGo]
    have hb' : (b.toNat == Gen.pyConsBoxMarker) = true := by simpa [Gen.pyConsBoxMarker, CONS_BOX_MARKER] using hb
    simp only [hb', if_true]
    simpa [opMap] using ih
  | case5 vals ops' b rest hb e he =>
    simp only [List.map_cons, opMap]
    rw [sexpFromStreamGo]
    have hb' : (b.toNat == Gen.pyConsBoxMarker) = false := by simpa [Gen.pyConsBoxMarker, CONS_BOX_MARKER] using hb
    simp only [hb', Bool.false_eq_true, if_false]
    have ha := atom_agree rest b (by simpa [CONS_BOX_MARKER] using hb)
    rw [he] at ha
    cases hp : atomFromStream rest b.toNat with
    | error e' => simp [Agree]
    | ok v => rw [hp] at ha; simp [Agree] at ha
  | case6 vals ops' b rest hb n t he ih =>
    simp only [List.map_cons, opMap]
    rw [sexpFromStreamGo]
    have hb' : (b.toNat == Gen.pyConsBoxMarker) = false := by simpa [Gen.pyConsBoxMarker, CONS_BOX_MARKER] using hb
    simp only [hb', Bool.false_eq_true, if_false]
    have ha := atom_agree rest b (by simpa [CONS_BOX_MARKER] using hb)
    rw [he] at ha
    cases hp : atomFromStream rest b.toNat with
    | error e' => rw [hp] at ha; simp [Agree] at ha
    | ok v =>
      rw [hp] at ha
      simp only [Agree] at ha
      subst ha
      exact ih
  | case7 inp ops' v2 v1 vs ih =>
    simp only [List.map_cons, opMap]
    rw [sexpFromStreamGo]
    exact ih
  | case8 inp vals ops' hv =>
    simp only [List.map_cons, opMap]
    match vals with
    | [] => simp [sexpFromStreamGo, Agree]
    | [_] => simp [sexpFromStreamGo, Agree]
    | v2 :: v1 :: vs => exact absurd rfl (hv v2 v1 vs)

/-! ### historical: the transcription before the repair of finding H (/repo commit 61f724c)

`_atom_from_stream` had no `bit_count > 6` check.  Kept to document why the check is necessary: the
old reader accepted a 7-byte size prefix that the Rust decoder rejects. -/

/-- `_atom_from_stream` as it was before 61f724c -/
def atomFromStreamOld (inp : Bytes) (b : Nat) : Except PyErr (Nat × Tree) :=
  if b == 0x80 then .ok (0, .atom [])
  else if b ≤ Gen.pyMaxSingleByte then .ok (0, .atom [UInt8.ofNat b])
  else
    let (bitCount, b') := stripLoop 9 b 0x80 0
    let more := if bitCount > 1 then inp.take (bitCount - 1) else []
    if bitCount > 1 ∧ more.length ≠ bitCount - 1 then .error (.valueError "bad encoding")
    else
      let sizeBlob := UInt8.ofNat b' :: more
      let size := fromBytesBig sizeBlob
      if size ≥ Gen.pyBlobTooLarge then .error (.valueError "blob too large")
      else
        let rest := inp.drop more.length
        let blob := rest.take size
        if blob.length ≠ size then .error (.valueError "bad encoding")
        else .ok (more.length + size, .atom blob)

/-- the documented example of finding H: `fe 00 00 00 00 00 01 41` -/
def witnessH : Bytes := [0xfe, 0x00, 0x00, 0x00, 0x00, 0x00, 0x01, 0x41]

/-- the old reader decoded the witness to the atom `A` … -/
theorem old_accepts_witness : atomFromStreamOld witnessH.tail 0xfe = .ok (7, .atom [0x41]) := by
  have hs : stripLoop 9 254 128 0 = (7, 0) := by decide
  simp [atomFromStreamOld, witnessH, hs, fromBytesBig, Gen.pyMaxSingleByte, Gen.pyBlobTooLarge]

/-- … which the Rust decoder rejects, and so does the repaired reader -/
theorem rust_rejects_witness : ∃ e, nodeFromStream witnessH [.sexp] [] = .error e :=
  nodeFromStream_fe 0xfe (by decide) _ _ _

theorem new_rejects_witness : ∃ e, sexpFromStream witnessH = .error e := by
  have ha := loop_agree witnessH [.sexp] []
  obtain ⟨e, he⟩ := rust_rejects_witness
  rw [he] at ha
  cases hp : sexpFromStreamGo witnessH ([ParseOp.sexp].map opMap) [] with
  | error e' => exact ⟨e', by simpa [sexpFromStream, opMap] using hp⟩
  | ok v => rw [hp] at ha; simp [Agree] at ha

end Clvm.Py.DeLemmas
