/-
C01, groundwork for `ref_op_eq_concat` (not finished): the loop of `op_concat` on a list of atoms in
closed form — `CostExceeded` iff the final cost exceeds the budget, otherwise final cost, total size
and the non-empty terms.  Missing: the case of a pair among the arguments, `new_concat`, and the
assembly into `OpAgree`.
-/
import ClvmProofs.Lemmas.RefOps
namespace Clvm.Ref
open Clvm Clvm.Interp Clvm.Alloc

/-- bytes of a list of atom values -/
def atomBytesOf : List Val → Option (List Bytes)
  | [] => some []
  | .atom b _ :: t => (atomBytesOf t).map (b :: ·)
  | .pair _ _ :: _ => none

theorem atomsOf_map_erase : ∀ (l : List Val),
    atomsOf (l.map Val.erase) = match atomBytesOf l with | some bs => .ok bs | none => .error .arg := by
  intro l
  induction l with
  | nil => rfl
  | cons a t ih =>
    cases a with
    | pair _ _ => rfl
    | atom b i =>
      simp only [List.map, Val.erase, atomsOf, ih, atomBytesOf]
      cases atomBytesOf t <;> rfl

def concatStep : Nat := Gen.CONCAT_COST_PER_BYTE + Gen.MALLOC_COST_PER_BYTE

def sumLen (bs : List Bytes) : Nat := bs.foldl (fun n b => n + b.length) 0

theorem sumLen_cons (b : Bytes) (bs : List Bytes) : sumLen (b :: bs) = b.length + sumLen bs := by
  unfold sumLen
  simp only [List.foldl_cons, Nat.zero_add]
  have : ∀ (l : List Bytes) (k : Nat), l.foldl (fun n b => n + b.length) k = k + l.foldl (fun n b => n + b.length) 0 := by
    intro l
    induction l with
    | nil => intro k; rfl
    | cons x t ih => intro k; simp only [List.foldl_cons, Nat.zero_add]; rw [ih (k + x.length), ih x.length]; omega
  exact this bs b.length

/-- the loop of `op_concat` on a list of atoms: `CostExceeded` iff the final cost exceeds the
budget (costs only grow), otherwise the final cost, the total size and the non-empty terms -/
theorem concatLoop_atoms (m : Nat) : ∀ (l : List Val) (bs : List Bytes), atomBytesOf l = some bs →
    ∀ (cost ts : Nat) (terms : List Val),
    concatLoop m l cost ts terms =
      if l ≠ [] ∧ cost + l.length * Gen.CONCAT_COST_PER_ARG + sumLen bs * concatStep > m then .error .CostExceeded
      else .ok (cost + l.length * Gen.CONCAT_COST_PER_ARG + sumLen bs * concatStep, ts + sumLen bs,
        terms.reverse ++ l.filter (fun v => match v with | .atom b _ => decide (b.length > 0) | _ => false)) := by
  intro l
  induction l with
  | nil =>
    intro bs h cost ts terms
    simp only [atomBytesOf, Option.some.injEq] at h
    subst h
    simp [concatLoop, sumLen]
  | cons a t ih =>
    intro bs h cost ts terms
    cases a with
    | pair _ _ => simp [atomBytesOf] at h
    | atom b i =>
      simp only [atomBytesOf] at h
      cases ht : atomBytesOf t with
      | none => rw [ht] at h; simp at h
      | some bt =>
        rw [ht] at h
        simp only [Option.map_some, Option.some.injEq] at h
        subst h
        have hsum := sumLen_cons b bt
        simp only [concatLoop, checkCost]
        have hstep : cost + Gen.CONCAT_COST_PER_ARG + b.length * (Gen.CONCAT_COST_PER_BYTE + Gen.MALLOC_COST_PER_BYTE)
            ≤ cost + (t.length + 1) * Gen.CONCAT_COST_PER_ARG + sumLen (b :: bt) * concatStep := by
          rw [hsum, Nat.add_mul, Nat.add_mul]; unfold concatStep; omega
        have hfin : cost + Gen.CONCAT_COST_PER_ARG + b.length * (Gen.CONCAT_COST_PER_BYTE + Gen.MALLOC_COST_PER_BYTE)
            + t.length * Gen.CONCAT_COST_PER_ARG + sumLen bt * concatStep
            = cost + (t.length + 1) * Gen.CONCAT_COST_PER_ARG + sumLen (b :: bt) * concatStep := by
          rw [hsum, Nat.add_mul, Nat.add_mul]; unfold concatStep; omega
        by_cases hc : cost + Gen.CONCAT_COST_PER_ARG + b.length * (Gen.CONCAT_COST_PER_BYTE + Gen.MALLOC_COST_PER_BYTE) > m
        · simp only [hc, if_true, List.length_cons]
          rw [if_pos ⟨by simp, by omega⟩]
        · simp only [hc, if_false, List.length_cons]
          by_cases hb : b.length > 0
          · simp only [hb, if_true]
            rw [ih bt ht, hfin]
            by_cases htn : t = []
            · subst htn
              simp only [atomBytesOf, Option.some.injEq] at ht
              subst ht
              have hc' : ¬ (cost + (0 + 1) * Gen.CONCAT_COST_PER_ARG + sumLen [b] * concatStep > m) := by
                simp only [List.length_nil] at hfin
                rw [← hfin]; simp [sumLen]; omega
              simp only [concatStep, Gen.CONCAT_COST_PER_BYTE, Gen.MALLOC_COST_PER_BYTE, Gen.CONCAT_COST_PER_ARG] at *
              simp [hc', hsum, sumLen, hb]
              all_goals omega
            · simp only [concatStep, Gen.CONCAT_COST_PER_BYTE, Gen.MALLOC_COST_PER_BYTE, Gen.CONCAT_COST_PER_ARG] at *
              simp [htn, hb, hsum, Nat.add_assoc]
              all_goals (first | done | omega | (intro _; omega))
          · simp only [hb, if_false]
            rw [ih bt ht, hfin]
            have hb0 : b.length = 0 := by omega
            by_cases htn : t = []
            · subst htn
              simp only [atomBytesOf, Option.some.injEq] at ht
              subst ht
              have hc' : ¬ (cost + (0 + 1) * Gen.CONCAT_COST_PER_ARG + sumLen [b] * concatStep > m) := by
                simp only [List.length_nil] at hfin
                rw [← hfin]; simp [sumLen]; omega
              simp only [concatStep, Gen.CONCAT_COST_PER_BYTE, Gen.MALLOC_COST_PER_BYTE, Gen.CONCAT_COST_PER_ARG] at *
              simp [hc', hsum, sumLen, hb0]
              all_goals (first | done | omega)
            · simp only [concatStep, Gen.CONCAT_COST_PER_BYTE, Gen.MALLOC_COST_PER_BYTE, Gen.CONCAT_COST_PER_ARG] at *
              simp [htn, hb0, hsum]
              all_goals (first | done | omega | (intro _; omega))

end Clvm.Ref
