/-
The 2026 magic prefix is rejected by both back-reference decoder models (`Serde/Backref.lean`, owned by
the back-reference component): the first byte `fd` is neither the cons marker nor the back-reference
marker, so both fall into `parse_atom`, whose size prefix announces ≥ 2^34 bytes.
-/
import ClvmProofs.Lemmas.Serde2026Magic
import ClvmModel.Serde.Backref

namespace Clvm.Serde2026
open Clvm Clvm.Serde Clvm.Serde.Backref

theorem parseAtomPtr_magic (rest : Bytes) :
    Classic.parseAtomPtr ([0xff, 0x32, 0x30, 0x32, 0x36] ++ rest) 0xfd = .error .SerializationError := by
  unfold Classic.parseAtomPtr Classic.decodeSize
  have h : ¬ ((0xfd : UInt8).toNat ≤ Classic.MAX_SINGLE_BYTE) := by decide
  rw [if_neg h]
  have h2 : (0xfd : UInt8).toNat = 0xfd := by decide
  rw [h2, decodeSize_magic]

theorem brParseAtom_magic (rest : Bytes) (c : Ctr) :
    Backref.parseAtom ([0xff, 0x32, 0x30, 0x32, 0x36] ++ rest) 0xfd c = .error .SerializationError := by
  unfold Backref.parseAtom
  have h1 : ((0xfd : UInt8).toNat == 0x01) = false := by decide
  have h2 : ((0xfd : UInt8).toNat == 0x80) = false := by decide
  simp only [h1, h2, Bool.false_eq_true, if_false]
  rw [parseAtomPtr_magic]

theorem deBrNew_magic (rest : Bytes) (c : Ctr) :
    deBrNew (magic ++ rest) [.sexp] [] c = .error .SerializationError := by
  rw [magic_eq, deBrNew.eq_def]
  have h1 : ((0xfd : UInt8).toNat == Gen.deBrConsBoxMarker) = false := by decide
  have h2 : ((0xfd : UInt8).toNat == Gen.deBrBackReference) = false := by decide
  simp only [List.cons_append, List.nil_append, h1, h2, Bool.false_eq_true, if_false]
  have := brParseAtom_magic rest c
  simp only [List.cons_append, List.nil_append] at this
  rw [this]

theorem deBrOld_magic (rest : Bytes) (c : Ctr) :
    deBrOld (magic ++ rest) [.sexp] Tree.nil c = .error .SerializationError := by
  rw [magic_eq, deBrOld.eq_def]
  have h1 : ((0xfd : UInt8).toNat == Gen.deBrConsBoxMarker) = false := by decide
  have h2 : ((0xfd : UInt8).toNat == Gen.deBrBackReference) = false := by decide
  simp only [List.cons_append, List.nil_append, h1, h2, Bool.false_eq_true, if_false]
  have := brParseAtom_magic rest c
  simp only [List.cons_append, List.nil_append] at this
  rw [this]

end Clvm.Serde2026
