/-
Agreement of the separately transcribed stream decoders with `node_from_stream`:
`tree_hash_from_stream` (tools.rs) and `parse_triples` (de_tree.rs), both modelled in
`ClvmModel/TreeHash.lean`.
-/
import ClvmProofs.Lemmas.ClassicTotal
import ClvmModel.TreeHash
set_option linter.unusedSimpArgs false
namespace Clvm.Serde.Classic
open Clvm.TreeHash (treeHash fromStreamLoop hashAtom hashPair)

def opConv : ParseOp → TreeHash.ParseOp
  | .sexp => .sexp
  | .cons => .cons

theorem fromStreamLoop_atom (b : UInt8) (hb : ¬ b.toNat = 0xff) (rest : Bytes)
    (ops : List TreeHash.ParseOp) (hv : List Bytes) :
    fromStreamLoop (b :: rest) (.sexp :: ops) hv =
      match parseAtom rest b with
      | .error e => .error e
      | .ok (n, t) => fromStreamLoop (rest.drop n) ops (treeHash t :: hv) := by
  rw [fromStreamLoop]
  simp only [beq_iff_eq, hb, if_false]
  unfold parseAtom parseAtomPtr
  by_cases h1 : b.toNat = 1
  · have : b = 1 := UInt8.toNat_inj.mp h1
    subst this
    simp [hashAtom, treeHash]
  by_cases h80 : b.toNat = 0x80
  · simp [h80, hashAtom, treeHash]
  by_cases h7 : b.toNat ≤ 0x7f
  · simp [h1, h80, h7, MAX_SINGLE_BYTE, hashAtom, treeHash]
  simp only [beq_iff_eq, h1, h80, h7, if_false, MAX_SINGLE_BYTE]
  cases hd : decodeSize rest b.toNat with
  | error e => simp
  | ok r =>
    obtain ⟨off, size⟩ := r
    simp only
    split
    · simp
    · simp [hashAtom, treeHash]

theorem fromStreamLoop_eq (inp : Bytes) (ops : List ParseOp) (vals : List Tree) :
    fromStreamLoop inp (ops.map opConv) (vals.map treeHash) =
      match nodeFromStream inp ops vals with
      | .ok (t, r) => .ok (treeHash t, r)
      | .error e => .error e := by
  fun_induction nodeFromStream inp ops vals with
  | case1 inp v vs => simp [fromStreamLoop]
  | case2 inp => simp [fromStreamLoop]
  | case3 vals ops' => simp [fromStreamLoop, opConv]
  | case4 vals ops' b rest hb ih =>
    simp only [List.map_cons, opConv] at ih ⊢
    rw [fromStreamLoop]
    simp only [CONS_BOX_MARKER, beq_iff_eq] at hb
    simp only [hb, beq_self_eq_true, if_true]
    exact ih
  | case5 vals ops' b rest hb e he =>
    simp only [CONS_BOX_MARKER, beq_iff_eq] at hb
    simp only [List.map_cons, opConv]
    rw [fromStreamLoop_atom b hb, he]
  | case6 vals ops' b rest hb n t he ih =>
    simp only [CONS_BOX_MARKER, beq_iff_eq] at hb
    simp only [List.map_cons, opConv] at ih ⊢
    rw [fromStreamLoop_atom b hb, he]
    exact ih
  | case7 inp ops' v2 v1 vs ih =>
    simp only [List.map_cons, opConv] at ih ⊢
    rw [fromStreamLoop]
    simpa [hashPair, treeHash] using ih
  | case8 inp vals ops' hne =>
    simp only [List.map_cons, opConv]
    match vals, hne with
    | [], _ => simp [fromStreamLoop]
    | [_], _ => simp [fromStreamLoop]
    | v2 :: v1 :: vs, hne => exact absurd rfl (hne v2 v1 vs)

end Clvm.Serde.Classic
