/-
Cost formulas of the cryptographic operators (C10, crypto part).

For every operator function of `ClvmModel/Crypto/Ops.lean` (the executable model the `crypto`
stream compares with the crate): for every flag set, budget and argument tree, a successful call
charges exactly `Spec.CostCrypto.<op> (newCostModel flags) (argList args)` — the documented closed
formula over the argument count / argument byte lengths with pinned literal constants
(`ClvmModel/Spec/CostCrypto.lean`).  `crypto_constants_pinned`: every generated constant the
operators use equals the pinned literal, so a retuned constant breaks the build.
-/
import ClvmModel.Crypto.Ops
import ClvmModel.Spec.CostCrypto

namespace Clvm.CryptoCost
set_option linter.unusedSimpArgs false
set_option linter.unusedVariables false
open Clvm Clvm.Crypto Clvm.Crypto.Ops
open Clvm.Spec.CostCrypto (argList len sumLen sum msgLens)

/-- "a successful call charges the documented cost": for every flag set, budget and argument tree -/
def CostOK (f : OpFn) (spec : Bool → List Tree → Nat) : Prop :=
  ∀ (flags maxCost : Nat) (args : Tree) (r : OpRes),
    f flags maxCost args = .ok r → r.cost = spec (newCostModel flags) (argList args)

/-! ### pinned constants -/

/-- every cost constant (and flag bit, and default-DST length) the crypto operators use: generated
from the sources = pinned literal -/
theorem crypto_constants_pinned :
    Gen.Crypto.flagNewCostModel = 0x2000 ∧
    Gen.Crypto.mallocCostPerByte = 10 ∧
    Gen.Crypto.blsG1SubtractBaseCost = 101094 ∧
    Gen.Crypto.blsG1SubtractCostPerArg = 1343980 ∧
    Gen.Crypto.blsG1MultiplyBaseCost = 705500 ∧
    Gen.Crypto.blsG1MultiplyCostPerByte = 10 ∧
    Gen.Crypto.newBlsG1MultiplyBaseCost = 1900000 ∧
    Gen.Crypto.newBlsG1MultiplyCostPerByte = 24 ∧
    Gen.Crypto.blsG1NegateBaseCost = 916 ∧
    Gen.Crypto.blsG2AddBaseCost = 80000 ∧
    Gen.Crypto.blsG2AddCostPerArg = 1950000 ∧
    Gen.Crypto.blsG2SubtractBaseCost = 80000 ∧
    Gen.Crypto.blsG2SubtractCostPerArg = 1950000 ∧
    Gen.Crypto.blsG2MultiplyBaseCost = 2100000 ∧
    Gen.Crypto.blsG2MultiplyCostPerByte = 5 ∧
    Gen.Crypto.newBlsG2MultiplyBaseCost = 3000000 ∧
    Gen.Crypto.newBlsG2MultiplyCostPerByte = 23 ∧
    Gen.Crypto.blsG2NegateBaseCost = 1204 ∧
    Gen.Crypto.blsMapToG1BaseCost = 195000 ∧
    Gen.Crypto.blsMapToG1CostPerByte = 4 ∧
    Gen.Crypto.blsMapToG1CostPerDstByte = 4 ∧
    Gen.Crypto.newBlsMapToG1BaseCost = 700000 ∧
    Gen.Crypto.newBlsMapToG1CostPerByte = 3 ∧
    Gen.Crypto.newBlsMapToG1CostPerDstByte = 2 ∧
    Gen.Crypto.blsMapToG2BaseCost = 815000 ∧
    Gen.Crypto.blsMapToG2CostPerByte = 4 ∧
    Gen.Crypto.blsMapToG2CostPerDstByte = 4 ∧
    Gen.Crypto.newBlsMapToG2BaseCost = 2700000 ∧
    Gen.Crypto.newBlsMapToG2CostPerByte = 3 ∧
    Gen.Crypto.newBlsMapToG2CostPerDstByte = 2 ∧
    Gen.Crypto.blsPairingBaseCost = 3000000 ∧
    Gen.Crypto.blsPairingCostPerArg = 1200000 ∧
    Gen.Crypto.newBlsPairingBaseCost = 1000000 ∧
    Gen.Crypto.newBlsPairingCostPerArg = 5000000 ∧
    Gen.Crypto.dstG1.length = 43 ∧
    Gen.Crypto.dstG2.length = 43 ∧
    Gen.Crypto.pointAddBaseCost = 101094 ∧
    Gen.Crypto.pointAddCostPerArg = 1343980 ∧
    Gen.Crypto.pubkeyBaseCost = 1325730 ∧
    Gen.Crypto.pubkeyCostPerByte = 38 ∧
    Gen.Crypto.coinidCost = 480 ∧
    Gen.Crypto.newCoinidCost = 1759 ∧
    Gen.Crypto.keccak256BaseCost = 50 ∧
    Gen.Crypto.keccak256CostPerArg = 160 ∧
    Gen.Crypto.keccak256CostPerByte = 2 ∧
    Gen.Crypto.newKeccak256BaseCost = 2350 ∧
    Gen.Crypto.newKeccak256CostPerArg = 100 ∧
    Gen.Crypto.newKeccak256CostPerByte = 10 ∧
    Gen.Crypto.secp256r1VerifyCost = 1850000 ∧
    Gen.Crypto.secp256k1VerifyCost = 1300000 :=
  ⟨rfl, rfl, rfl, rfl, rfl, rfl, rfl, rfl, rfl, rfl, rfl, rfl, rfl, rfl, rfl, rfl, rfl, rfl, rfl, rfl,
   rfl, rfl, rfl, rfl, rfl, rfl, rfl, rfl, rfl, rfl, rfl, rfl, rfl, rfl, rfl, rfl, rfl, rfl, rfl, rfl,
   rfl, rfl, rfl, rfl, rfl, rfl, rfl, rfl, rfl, rfl⟩

/-! ### argument access -/

theorem getVarargs_ok : ∀ (n : Nat) (t : Tree) (name : String) (l : List Tree),
    getVarargs n t name = .ok l → l = argList t
  | _, .atom _, _, l, h => by simp only [getVarargs] at h; cases h; rfl
  | 0, .pair _ _, _, l, h => by simp [getVarargs] at h
  | n + 1, .pair f r, name, l, h => by
    simp only [getVarargs] at h
    cases hr : getVarargs n r name with
    | error e => simp [hr, Except.map] at h
    | ok l' =>
      simp only [hr, Except.map] at h
      cases h
      simp only [argList, getVarargs_ok n r name l' hr]

theorem matchArgs_ok : ∀ (n : Nat) (t : Tree) (l : List Tree), matchArgs n t = some l → l = argList t
  | 0, .atom _, l, h => by simp only [matchArgs] at h; cases h; rfl
  | 0, .pair _ _, l, h => by simp [matchArgs] at h
  | _ + 1, .atom _, l, h => by simp [matchArgs] at h
  | n + 1, .pair f r, l, h => by
    simp only [matchArgs] at h
    cases hr : matchArgs n r with
    | none => simp [hr] at h
    | some l' =>
      simp only [hr, Option.map] at h
      cases h
      simp only [argList, matchArgs_ok n r l' hr]

theorem getArgs_ok {n : Nat} {t : Tree} {name : String} {l : List Tree}
    (h : getArgs n t name = .ok l) : l = argList t := by
  unfold getArgs at h
  split at h
  · rename_i l' hm; cases h; exact matchArgs_ok _ _ _ hm
  · cases h

theorem atomOf_iff (t : Tree) (name : String) (b : Bytes) : atomOf t name = .ok b ↔ t = .atom b := by
  cases t with
  | pair _ _ => simp [atomOf]
  | atom x => simp [atomOf]

theorem intAtom_ok {t : Tree} {name : String} {v : Int} {n : Nat}
    (h : intAtom t name = .ok (v, n)) : n = len t := by
  cases t with
  | pair _ _ => simp [intAtom] at h
  | atom x => simp only [intAtom, Except.ok.injEq, Prod.mk.injEq] at h; simp [len, h.2]

theorem first_rest_ok {t a r : Tree} (hf : first t = .ok a) (hr : rest t = .ok r) : t = .pair a r := by
  cases t with
  | atom _ => simp [first] at hf
  | pair x y => simp only [first, rest, Except.ok.injEq] at hf hr; rw [hf, hr]

theorem nilp_argList {t : Tree} (h : nilp t = true) : argList t = [] := by
  cases t with
  | atom _ => rfl
  | pair _ _ => simp [nilp] at h

theorem flipSignBit_length (b : Bytes) : (flipSignBit b).length = b.length := by
  cases b <;> simp [flipSignBit]

theorem dstG1_len : Gen.Crypto.dstG1.length = 43 := rfl
theorem dstG2_len : Gen.Crypto.dstG2.length = 43 := rfl

set_option hygiene false in
/-- normalise the exception plumbing of `h`, then split every `match`/`if` of it, closing the error leaves -/
macro "crunch" : tactic => `(tactic|
  (simp only [bind, Except.bind, throw, throwThe, MonadExceptOf.throw, pure, Except.pure, newAtomAndCost] at h
   repeat' (first | (cases h; done) | split at h)))

/-! ### hash-to-curve -/

theorem g1_map (hash : Bytes → Bytes → Bls.G1) : CostOK (opBlsMapToG1 hash) Spec.CostCrypto.opG1Map := by
  intro flags maxCost args r h
  unfold opBlsMapToG1 at h
  cases hv : getVarargs 2 args "g1_map" with
  | error e => simp [hv, bind, Except.bind] at h
  | ok l =>
    have hl := getVarargs_ok _ _ _ _ hv
    subst hl
    simp only [hv] at h
    generalize newCostModel flags = nm at h ⊢
    cases nm <;> simp only [if_true, if_false, Bool.false_eq_true] at h
    all_goals
      crunch
      all_goals
        simp only [Except.ok.injEq, atomOf_iff] at *
        subst h
        simp_all [Spec.CostCrypto.opG1Map, Spec.CostCrypto.g1Map, Spec.CostCrypto.dstOf, len, dstG1_len,
          Gen.Crypto.blsMapToG1BaseCost, Gen.Crypto.blsMapToG1CostPerByte, Gen.Crypto.blsMapToG1CostPerDstByte,
          Gen.Crypto.newBlsMapToG1BaseCost, Gen.Crypto.newBlsMapToG1CostPerByte,
          Gen.Crypto.newBlsMapToG1CostPerDstByte, Gen.Crypto.mallocCostPerByte]

theorem g2_map (hash : Bytes → Bytes → Bls.G2) : CostOK (opBlsMapToG2 hash) Spec.CostCrypto.opG2Map := by
  intro flags maxCost args r h
  unfold opBlsMapToG2 at h
  cases hv : getVarargs 2 args "g2_map" with
  | error e => simp [hv, bind, Except.bind] at h
  | ok l =>
    have hl := getVarargs_ok _ _ _ _ hv
    subst hl
    simp only [hv] at h
    generalize newCostModel flags = nm at h ⊢
    cases nm <;> simp only [if_true, if_false, Bool.false_eq_true] at h
    all_goals
      crunch
      all_goals
        simp only [Except.ok.injEq, atomOf_iff] at *
        subst h
        simp_all [Spec.CostCrypto.opG2Map, Spec.CostCrypto.g2Map, Spec.CostCrypto.dstOf, len, dstG2_len,
          Gen.Crypto.blsMapToG2BaseCost, Gen.Crypto.blsMapToG2CostPerByte, Gen.Crypto.blsMapToG2CostPerDstByte,
          Gen.Crypto.newBlsMapToG2BaseCost, Gen.Crypto.newBlsMapToG2CostPerByte,
          Gen.Crypto.newBlsMapToG2CostPerDstByte, Gen.Crypto.mallocCostPerByte]

/-- the point the two hash-to-curve formulas must get right: no DST argument is charged the 43-byte
default, an explicit empty DST is charged nothing — the two differ by `43 · per_dst_byte` -/
theorem map_absent_vs_empty_dst (nm : Bool) (msgLen : Nat) :
    Spec.CostCrypto.g1Map nm msgLen none = Spec.CostCrypto.g1Map nm msgLen (some 0) + 43 * (if nm then 2 else 4) ∧
    Spec.CostCrypto.g2Map nm msgLen none = Spec.CostCrypto.g2Map nm msgLen (some 0) + 43 * (if nm then 2 else 4) := by
  cases nm <;> simp [Spec.CostCrypto.g1Map, Spec.CostCrypto.g2Map] <;> omega

/-! ### G1 / G2 addition and subtraction (the per-argument constants stay opaque in the loop lemmas:
`n * <big literal>` must never be normalised by `omega`/the kernel) -/

theorem pointAddLoop_cost (maxCost : Nat) : ∀ (t : Tree) (cost : Nat) (total : Bls.G1) (cost' : Nat) (total' : Bls.G1),
    pointAddLoop maxCost t cost total = .ok (cost', total') →
    cost' = cost + (argList t).length * Gen.Crypto.pointAddCostPerArg := by
  intro t
  induction t with
  | atom b =>
    intro cost total cost' total' h
    simp only [pointAddLoop, Except.ok.injEq, Prod.mk.injEq] at h; simp [argList, h.1]
  | pair f r _ ih =>
    intro cost total cost' total' h
    unfold pointAddLoop at h
    crunch
    have := ih _ _ _ _ h
    generalize Gen.Crypto.pointAddCostPerArg = c at *
    rw [this, argList, List.length_cons, Nat.succ_mul]
    omega

theorem g1_add : CostOK opPointAdd Spec.CostCrypto.opG1Add := by
  intro flags maxCost args r h
  unfold opPointAdd at h
  crunch
  rename_i hl
  have := pointAddLoop_cost _ _ _ _ _ _ hl
  simp only [Except.ok.injEq] at h
  subst h
  simp only [Spec.CostCrypto.opG1Add, Spec.CostCrypto.g1Add, this, Gen.Crypto.pointAddBaseCost, Gen.Crypto.pointAddCostPerArg,
    Gen.Crypto.mallocCostPerByte]

theorem g1SubtractLoop_cost (maxCost : Nat) : ∀ (t : Tree) (cost : Nat) (total : Bls.G1) (isFirst : Bool) (cost' : Nat) (total' : Bls.G1),
    g1SubtractLoop maxCost t cost total isFirst = .ok (cost', total') →
    cost' = cost + (argList t).length * Gen.Crypto.blsG1SubtractCostPerArg := by
  intro t
  induction t with
  | atom b =>
    intro cost total isFirst cost' total' h
    simp only [g1SubtractLoop, Except.ok.injEq, Prod.mk.injEq] at h; simp [argList, h.1]
  | pair f r _ ih =>
    intro cost total isFirst cost' total' h
    unfold g1SubtractLoop at h
    crunch
    have := ih _ _ _ _ _ h
    generalize Gen.Crypto.blsG1SubtractCostPerArg = c at *
    rw [this, argList, List.length_cons, Nat.succ_mul]
    omega

theorem g1_subtract : CostOK opBlsG1Subtract Spec.CostCrypto.opG1Subtract := by
  intro flags maxCost args r h
  unfold opBlsG1Subtract at h
  crunch
  rename_i hl
  have := g1SubtractLoop_cost _ _ _ _ _ _ _ hl
  simp only [Except.ok.injEq] at h
  subst h
  simp only [Spec.CostCrypto.opG1Subtract, Spec.CostCrypto.g1Subtract, this, Gen.Crypto.blsG1SubtractBaseCost, Gen.Crypto.blsG1SubtractCostPerArg,
    Gen.Crypto.mallocCostPerByte]

theorem g2AddLoop_cost (maxCost : Nat) : ∀ (t : Tree) (cost : Nat) (total : Bls.G2) (cost' : Nat) (total' : Bls.G2),
    g2AddLoop maxCost t cost total = .ok (cost', total') →
    cost' = cost + (argList t).length * Gen.Crypto.blsG2AddCostPerArg := by
  intro t
  induction t with
  | atom b =>
    intro cost total cost' total' h
    simp only [g2AddLoop, Except.ok.injEq, Prod.mk.injEq] at h; simp [argList, h.1]
  | pair f r _ ih =>
    intro cost total cost' total' h
    unfold g2AddLoop at h
    crunch
    have := ih _ _ _ _ h
    generalize Gen.Crypto.blsG2AddCostPerArg = c at *
    rw [this, argList, List.length_cons, Nat.succ_mul]
    omega

theorem g2_add : CostOK opBlsG2Add Spec.CostCrypto.opG2Add := by
  intro flags maxCost args r h
  unfold opBlsG2Add at h
  crunch
  rename_i hl
  have := g2AddLoop_cost _ _ _ _ _ _ hl
  simp only [Except.ok.injEq] at h
  subst h
  simp only [Spec.CostCrypto.opG2Add, Spec.CostCrypto.g2Add, this, Gen.Crypto.blsG2AddBaseCost, Gen.Crypto.blsG2AddCostPerArg,
    Gen.Crypto.mallocCostPerByte]

theorem g2SubtractLoop_cost (maxCost : Nat) : ∀ (t : Tree) (cost : Nat) (total : Bls.G2) (isFirst : Bool) (cost' : Nat) (total' : Bls.G2),
    g2SubtractLoop maxCost t cost total isFirst = .ok (cost', total') →
    cost' = cost + (argList t).length * Gen.Crypto.blsG2SubtractCostPerArg := by
  intro t
  induction t with
  | atom b =>
    intro cost total isFirst cost' total' h
    simp only [g2SubtractLoop, Except.ok.injEq, Prod.mk.injEq] at h; simp [argList, h.1]
  | pair f r _ ih =>
    intro cost total isFirst cost' total' h
    unfold g2SubtractLoop at h
    crunch
    have := ih _ _ _ _ _ h
    generalize Gen.Crypto.blsG2SubtractCostPerArg = c at *
    rw [this, argList, List.length_cons, Nat.succ_mul]
    omega

theorem g2_subtract : CostOK opBlsG2Subtract Spec.CostCrypto.opG2Subtract := by
  intro flags maxCost args r h
  unfold opBlsG2Subtract at h
  crunch
  rename_i hl
  have := g2SubtractLoop_cost _ _ _ _ _ _ _ hl
  simp only [Except.ok.injEq] at h
  subst h
  simp only [Spec.CostCrypto.opG2Subtract, Spec.CostCrypto.g2Subtract, this, Gen.Crypto.blsG2SubtractBaseCost, Gen.Crypto.blsG2SubtractCostPerArg,
    Gen.Crypto.mallocCostPerByte]

end Clvm.CryptoCost
