/-
Cost formulas of the cryptographic operators (C10, crypto part).

For every operator function of `ClvmModel/Crypto/Ops.lean` (the executable model the `crypto`
stream compares with the crate): for every flag set, budget and argument tree, a successful call
charges exactly `Spec.CostCrypto.<op> (newCostModel flags) (argList args)` — the documented closed
formula over the argument count / argument byte lengths with pinned literal constants
(`ClvmModel/Spec/CostCrypto.lean`).  `crypto_constants_pinned`: every generated constant the
operators use equals the pinned literal, so a retuned constant breaks the build.
-/
import ClvmModel.Crypto.Ops
import ClvmModel.Spec.CostCrypto

namespace Clvm.CryptoCost
set_option linter.unusedSimpArgs false
set_option linter.unusedVariables false
open Clvm Clvm.Crypto Clvm.Crypto.Ops
open Clvm.Spec.CostCrypto (argList len sumLen sum msgLens)

/-- "a successful call charges the documented cost": for every flag set, budget and argument tree -/
def CostOK (f : OpFn) (spec : Bool → List Tree → Nat) : Prop :=
  ∀ (flags maxCost : Nat) (args : Tree) (r : OpRes),
    f flags maxCost args = .ok r → r.cost = spec (newCostModel flags) (argList args)

/-! ### pinned constants -/

/-- every cost constant (and flag bit, and default-DST length) the crypto operators use: generated
from the sources = pinned literal -/
theorem crypto_constants_pinned :
    Gen.Crypto.flagNewCostModel = 0x2000 ∧
    Gen.Crypto.mallocCostPerByte = 10 ∧
    Gen.Crypto.blsG1SubtractBaseCost = 101094 ∧
    Gen.Crypto.blsG1SubtractCostPerArg = 1343980 ∧
    Gen.Crypto.blsG1MultiplyBaseCost = 705500 ∧
    Gen.Crypto.blsG1MultiplyCostPerByte = 10 ∧
    Gen.Crypto.newBlsG1MultiplyBaseCost = 1900000 ∧
    Gen.Crypto.newBlsG1MultiplyCostPerByte = 24 ∧
    Gen.Crypto.blsG1NegateBaseCost = 916 ∧
    Gen.Crypto.blsG2AddBaseCost = 80000 ∧
    Gen.Crypto.blsG2AddCostPerArg = 1950000 ∧
    Gen.Crypto.blsG2SubtractBaseCost = 80000 ∧
    Gen.Crypto.blsG2SubtractCostPerArg = 1950000 ∧
    Gen.Crypto.blsG2MultiplyBaseCost = 2100000 ∧
    Gen.Crypto.blsG2MultiplyCostPerByte = 5 ∧
    Gen.Crypto.newBlsG2MultiplyBaseCost = 3000000 ∧
    Gen.Crypto.newBlsG2MultiplyCostPerByte = 23 ∧
    Gen.Crypto.blsG2NegateBaseCost = 1204 ∧
    Gen.Crypto.blsMapToG1BaseCost = 195000 ∧
    Gen.Crypto.blsMapToG1CostPerByte = 4 ∧
    Gen.Crypto.blsMapToG1CostPerDstByte = 4 ∧
    Gen.Crypto.newBlsMapToG1BaseCost = 700000 ∧
    Gen.Crypto.newBlsMapToG1CostPerByte = 3 ∧
    Gen.Crypto.newBlsMapToG1CostPerDstByte = 2 ∧
    Gen.Crypto.blsMapToG2BaseCost = 815000 ∧
    Gen.Crypto.blsMapToG2CostPerByte = 4 ∧
    Gen.Crypto.blsMapToG2CostPerDstByte = 4 ∧
    Gen.Crypto.newBlsMapToG2BaseCost = 2700000 ∧
    Gen.Crypto.newBlsMapToG2CostPerByte = 3 ∧
    Gen.Crypto.newBlsMapToG2CostPerDstByte = 2 ∧
    Gen.Crypto.blsPairingBaseCost = 3000000 ∧
    Gen.Crypto.blsPairingCostPerArg = 1200000 ∧
    Gen.Crypto.newBlsPairingBaseCost = 1000000 ∧
    Gen.Crypto.newBlsPairingCostPerArg = 5000000 ∧
    Gen.Crypto.dstG1.length = 43 ∧
    Gen.Crypto.dstG2.length = 43 ∧
    Gen.Crypto.pointAddBaseCost = 101094 ∧
    Gen.Crypto.pointAddCostPerArg = 1343980 ∧
    Gen.Crypto.pubkeyBaseCost = 1325730 ∧
    Gen.Crypto.pubkeyCostPerByte = 38 ∧
    Gen.Crypto.coinidCost = 480 ∧
    Gen.Crypto.newCoinidCost = 1759 ∧
    Gen.Crypto.keccak256BaseCost = 50 ∧
    Gen.Crypto.keccak256CostPerArg = 160 ∧
    Gen.Crypto.keccak256CostPerByte = 2 ∧
    Gen.Crypto.newKeccak256BaseCost = 2350 ∧
    Gen.Crypto.newKeccak256CostPerArg = 100 ∧
    Gen.Crypto.newKeccak256CostPerByte = 10 ∧
    Gen.Crypto.secp256r1VerifyCost = 1850000 ∧
    Gen.Crypto.secp256k1VerifyCost = 1300000 :=
  ⟨rfl, rfl, rfl, rfl, rfl, rfl, rfl, rfl, rfl, rfl, rfl, rfl, rfl, rfl, rfl, rfl, rfl, rfl, rfl, rfl,
   rfl, rfl, rfl, rfl, rfl, rfl, rfl, rfl, rfl, rfl, rfl, rfl, rfl, rfl, rfl, rfl, rfl, rfl, rfl, rfl,
   rfl, rfl, rfl, rfl, rfl, rfl, rfl, rfl, rfl, rfl⟩

/-! ### argument access -/

theorem getVarargs_ok : ∀ (n : Nat) (t : Tree) (name : String) (l : List Tree),
    getVarargs n t name = .ok l → l = argList t
  | _, .atom _, _, l, h => by simp only [getVarargs] at h; cases h; rfl
  | 0, .pair _ _, _, l, h => by simp [getVarargs] at h
  | n + 1, .pair f r, name, l, h => by
    simp only [getVarargs] at h
    cases hr : getVarargs n r name with
    | error e => simp [hr, Except.map] at h
    | ok l' =>
      simp only [hr, Except.map] at h
      cases h
      simp only [argList, getVarargs_ok n r name l' hr]

theorem matchArgs_ok : ∀ (n : Nat) (t : Tree) (l : List Tree), matchArgs n t = some l → l = argList t
  | 0, .atom _, l, h => by simp only [matchArgs] at h; cases h; rfl
  | 0, .pair _ _, l, h => by simp [matchArgs] at h
  | _ + 1, .atom _, l, h => by simp [matchArgs] at h
  | n + 1, .pair f r, l, h => by
    simp only [matchArgs] at h
    cases hr : matchArgs n r with
    | none => simp [hr] at h
    | some l' =>
      simp only [hr, Option.map] at h
      cases h
      simp only [argList, matchArgs_ok n r l' hr]

theorem getArgs_ok {n : Nat} {t : Tree} {name : String} {l : List Tree}
    (h : getArgs n t name = .ok l) : l = argList t := by
  unfold getArgs at h
  split at h
  · rename_i l' hm; cases h; exact matchArgs_ok _ _ _ hm
  · cases h

theorem atomOf_iff (t : Tree) (name : String) (b : Bytes) : atomOf t name = .ok b ↔ t = .atom b := by
  cases t with
  | pair _ _ => simp [atomOf]
  | atom x => simp [atomOf]

theorem intAtom_ok {t : Tree} {name : String} {v : Int} {n : Nat}
    (h : intAtom t name = .ok (v, n)) : n = len t := by
  cases t with
  | pair _ _ => simp [intAtom] at h
  | atom x => simp only [intAtom, Except.ok.injEq, Prod.mk.injEq] at h; simp [len, h.2]

theorem first_rest_ok {t a r : Tree} (hf : first t = .ok a) (hr : rest t = .ok r) : t = .pair a r := by
  cases t with
  | atom _ => simp [first] at hf
  | pair x y => simp only [first, rest, Except.ok.injEq] at hf hr; rw [hf, hr]

theorem nilp_argList {t : Tree} (h : nilp t = true) : argList t = [] := by
  cases t with
  | atom _ => rfl
  | pair _ _ => simp [nilp] at h

theorem flipSignBit_length (b : Bytes) : (flipSignBit b).length = b.length := by
  cases b <;> simp [flipSignBit]

theorem dstG1_len : Gen.Crypto.dstG1.length = 43 := rfl
theorem dstG2_len : Gen.Crypto.dstG2.length = 43 := rfl

set_option hygiene false in
/-- normalise the exception plumbing of `h`, then split every `match`/`if` of it, closing the error leaves -/
macro "crunch" : tactic => `(tactic|
  (simp only [bind, Except.bind, throw, throwThe, MonadExceptOf.throw, pure, Except.pure, newAtomAndCost] at h
   repeat' (first | (cases h; done) | split at h)))

/-! ### hash-to-curve -/

theorem g1_map (hash : Bytes → Bytes → Bls.G1) : CostOK (opBlsMapToG1 hash) Spec.CostCrypto.opG1Map := by
  intro flags maxCost args r h
  unfold opBlsMapToG1 at h
  cases hv : getVarargs 2 args "g1_map" with
  | error e => simp [hv, bind, Except.bind] at h
  | ok l =>
    have hl := getVarargs_ok _ _ _ _ hv
    subst hl
    simp only [hv] at h
    generalize newCostModel flags = nm at h ⊢
    cases nm <;> simp only [if_true, if_false, Bool.false_eq_true] at h
    all_goals
      crunch
      all_goals
        simp only [Except.ok.injEq, atomOf_iff] at *
        subst h
        simp_all [Spec.CostCrypto.opG1Map, Spec.CostCrypto.g1Map, Spec.CostCrypto.dstOf, len, dstG1_len,
          Gen.Crypto.blsMapToG1BaseCost, Gen.Crypto.blsMapToG1CostPerByte, Gen.Crypto.blsMapToG1CostPerDstByte,
          Gen.Crypto.newBlsMapToG1BaseCost, Gen.Crypto.newBlsMapToG1CostPerByte,
          Gen.Crypto.newBlsMapToG1CostPerDstByte, Gen.Crypto.mallocCostPerByte]

theorem g2_map (hash : Bytes → Bytes → Bls.G2) : CostOK (opBlsMapToG2 hash) Spec.CostCrypto.opG2Map := by
  intro flags maxCost args r h
  unfold opBlsMapToG2 at h
  cases hv : getVarargs 2 args "g2_map" with
  | error e => simp [hv, bind, Except.bind] at h
  | ok l =>
    have hl := getVarargs_ok _ _ _ _ hv
    subst hl
    simp only [hv] at h
    generalize newCostModel flags = nm at h ⊢
    cases nm <;> simp only [if_true, if_false, Bool.false_eq_true] at h
    all_goals
      crunch
      all_goals
        simp only [Except.ok.injEq, atomOf_iff] at *
        subst h
        simp_all [Spec.CostCrypto.opG2Map, Spec.CostCrypto.g2Map, Spec.CostCrypto.dstOf, len, dstG2_len,
          Gen.Crypto.blsMapToG2BaseCost, Gen.Crypto.blsMapToG2CostPerByte, Gen.Crypto.blsMapToG2CostPerDstByte,
          Gen.Crypto.newBlsMapToG2BaseCost, Gen.Crypto.newBlsMapToG2CostPerByte,
          Gen.Crypto.newBlsMapToG2CostPerDstByte, Gen.Crypto.mallocCostPerByte]

/-- the point the two hash-to-curve formulas must get right: no DST argument is charged the 43-byte
default, an explicit empty DST is charged nothing — the two differ by `43 · per_dst_byte` -/
theorem map_absent_vs_empty_dst (nm : Bool) (msgLen : Nat) :
    Spec.CostCrypto.g1Map nm msgLen none = Spec.CostCrypto.g1Map nm msgLen (some 0) + 43 * (if nm then 2 else 4) ∧
    Spec.CostCrypto.g2Map nm msgLen none = Spec.CostCrypto.g2Map nm msgLen (some 0) + 43 * (if nm then 2 else 4) := by
  cases nm <;> simp [Spec.CostCrypto.g1Map, Spec.CostCrypto.g2Map] <;> omega

/-! ### G1 / G2 addition and subtraction (the per-argument constants stay opaque in the loop lemmas:
`n * <big literal>` must never be normalised by `omega`/the kernel) -/

/-- a successful `bind` in `Except`: both halves succeeded (used instead of `split` in the loop lemmas) -/
theorem bind_ok {α β : Type} {x : Except Err α} {f : α → Except Err β} {r : β}
    (h : (x >>= f) = .ok r) : ∃ a, x = .ok a ∧ f a = .ok r := by
  cases x with
  | error e => simp [bind, Except.bind] at h
  | ok a => exact ⟨a, rfl, h⟩


theorem pointAddLoop_cost (maxCost : Nat) : ∀ (t : Tree) (cost : Nat) (total : Bls.G1) (cost' : Nat) (total' : Bls.G1),
    pointAddLoop maxCost t cost total = .ok (cost', total') →
    cost' = cost + (argList t).length * Gen.Crypto.pointAddCostPerArg := by
  intro t
  induction t with
  | atom b =>
    intro cost total cost' total' h
    simp only [pointAddLoop, Except.ok.injEq, Prod.mk.injEq] at h; simp [argList, h.1]
  | pair f r _ ih =>
    intro cost total cost' total' h
    unfold pointAddLoop at h
    obtain ⟨u, hu, h⟩ := bind_ok h
    obtain ⟨p, hp, h⟩ := bind_ok h
    have := ih _ _ _ _ h
    rw [this, argList, List.length_cons, Nat.succ_mul]
    omega

theorem g1_add : CostOK opPointAdd Spec.CostCrypto.opG1Add := by
  intro flags maxCost args r h
  unfold opPointAdd at h
  obtain ⟨⟨c, t⟩, hl, h⟩ := bind_ok h
  have := pointAddLoop_cost _ _ _ _ _ _ hl
  simp only [pure, Except.pure, Except.ok.injEq] at h
  subst h
  simp only [Spec.CostCrypto.opG1Add, Spec.CostCrypto.g1Add, this, Gen.Crypto.pointAddBaseCost, Gen.Crypto.pointAddCostPerArg,
    Gen.Crypto.mallocCostPerByte]

theorem g1SubtractLoop_cost (maxCost : Nat) : ∀ (t : Tree) (cost : Nat) (total : Bls.G1) (isFirst : Bool) (cost' : Nat) (total' : Bls.G1),
    g1SubtractLoop maxCost t cost total isFirst = .ok (cost', total') →
    cost' = cost + (argList t).length * Gen.Crypto.blsG1SubtractCostPerArg := by
  intro t
  induction t with
  | atom b =>
    intro cost total isFirst cost' total' h
    simp only [g1SubtractLoop, Except.ok.injEq, Prod.mk.injEq] at h; simp [argList, h.1]
  | pair f r _ ih =>
    intro cost total isFirst cost' total' h
    unfold g1SubtractLoop at h
    obtain ⟨u, hu, h⟩ := bind_ok h
    obtain ⟨p, hp, h⟩ := bind_ok h
    have := ih _ _ _ _ _ h
    rw [this, argList, List.length_cons, Nat.succ_mul]
    omega

theorem g1_subtract : CostOK opBlsG1Subtract Spec.CostCrypto.opG1Subtract := by
  intro flags maxCost args r h
  unfold opBlsG1Subtract at h
  obtain ⟨u, hu, h⟩ := bind_ok h
  obtain ⟨⟨c, t⟩, hl, h⟩ := bind_ok h
  have := g1SubtractLoop_cost _ _ _ _ _ _ _ hl
  simp only [pure, Except.pure, Except.ok.injEq] at h
  subst h
  simp only [Spec.CostCrypto.opG1Subtract, Spec.CostCrypto.g1Subtract, this, Gen.Crypto.blsG1SubtractBaseCost, Gen.Crypto.blsG1SubtractCostPerArg,
    Gen.Crypto.mallocCostPerByte]

theorem g2AddLoop_cost (maxCost : Nat) : ∀ (t : Tree) (cost : Nat) (total : Bls.G2) (cost' : Nat) (total' : Bls.G2),
    g2AddLoop maxCost t cost total = .ok (cost', total') →
    cost' = cost + (argList t).length * Gen.Crypto.blsG2AddCostPerArg := by
  intro t
  induction t with
  | atom b =>
    intro cost total cost' total' h
    simp only [g2AddLoop, Except.ok.injEq, Prod.mk.injEq] at h; simp [argList, h.1]
  | pair f r _ ih =>
    intro cost total cost' total' h
    unfold g2AddLoop at h
    obtain ⟨u, hu, h⟩ := bind_ok h
    obtain ⟨p, hp, h⟩ := bind_ok h
    have := ih _ _ _ _ h
    rw [this, argList, List.length_cons, Nat.succ_mul]
    omega

theorem g2_add : CostOK opBlsG2Add Spec.CostCrypto.opG2Add := by
  intro flags maxCost args r h
  unfold opBlsG2Add at h
  obtain ⟨u, hu, h⟩ := bind_ok h
  obtain ⟨⟨c, t⟩, hl, h⟩ := bind_ok h
  have := g2AddLoop_cost _ _ _ _ _ _ hl
  simp only [pure, Except.pure, Except.ok.injEq] at h
  subst h
  simp only [Spec.CostCrypto.opG2Add, Spec.CostCrypto.g2Add, this, Gen.Crypto.blsG2AddBaseCost, Gen.Crypto.blsG2AddCostPerArg,
    Gen.Crypto.mallocCostPerByte]

theorem g2SubtractLoop_cost (maxCost : Nat) : ∀ (t : Tree) (cost : Nat) (total : Bls.G2) (isFirst : Bool) (cost' : Nat) (total' : Bls.G2),
    g2SubtractLoop maxCost t cost total isFirst = .ok (cost', total') →
    cost' = cost + (argList t).length * Gen.Crypto.blsG2SubtractCostPerArg := by
  intro t
  induction t with
  | atom b =>
    intro cost total isFirst cost' total' h
    simp only [g2SubtractLoop, Except.ok.injEq, Prod.mk.injEq] at h; simp [argList, h.1]
  | pair f r _ ih =>
    intro cost total isFirst cost' total' h
    unfold g2SubtractLoop at h
    obtain ⟨u, hu, h⟩ := bind_ok h
    obtain ⟨p, hp, h⟩ := bind_ok h
    have := ih _ _ _ _ _ h
    rw [this, argList, List.length_cons, Nat.succ_mul]
    omega

theorem g2_subtract : CostOK opBlsG2Subtract Spec.CostCrypto.opG2Subtract := by
  intro flags maxCost args r h
  unfold opBlsG2Subtract at h
  obtain ⟨u, hu, h⟩ := bind_ok h
  obtain ⟨⟨c, t⟩, hl, h⟩ := bind_ok h
  have := g2SubtractLoop_cost _ _ _ _ _ _ _ hl
  simp only [pure, Except.pure, Except.ok.injEq] at h
  subst h
  simp only [Spec.CostCrypto.opG2Subtract, Spec.CostCrypto.g2Subtract, this, Gen.Crypto.blsG2SubtractBaseCost, Gen.Crypto.blsG2SubtractCostPerArg,
    Gen.Crypto.mallocCostPerByte]

/-! ### scalar multiplication, negation, pubkey_for_exp, coinid, secp -/

theorem g1_multiply : CostOK opBlsG1Multiply Spec.CostCrypto.opG1Multiply := by
  intro flags maxCost args r h
  unfold opBlsG1Multiply at h
  cases hv : getArgs 2 args "g1_multiply" with
  | error e => simp [hv, bind, Except.bind] at h
  | ok l =>
    have hl := getArgs_ok hv
    subst hl
    simp only [hv] at h
    generalize newCostModel flags = nm at h ⊢
    cases nm <;> simp only [if_true, if_false, Bool.false_eq_true] at h
    all_goals
      crunch
      all_goals
        have := intAtom_ok ‹intAtom _ _ = .ok _›
        simp only [Except.ok.injEq] at h
        subst h
        simp_all [Spec.CostCrypto.opG1Multiply, Spec.CostCrypto.g1Multiply,
          Gen.Crypto.blsG1MultiplyBaseCost, Gen.Crypto.blsG1MultiplyCostPerByte,
          Gen.Crypto.newBlsG1MultiplyBaseCost, Gen.Crypto.newBlsG1MultiplyCostPerByte, Gen.Crypto.mallocCostPerByte]

theorem g2_multiply : CostOK opBlsG2Multiply Spec.CostCrypto.opG2Multiply := by
  intro flags maxCost args r h
  unfold opBlsG2Multiply at h
  cases hv : getArgs 2 args "g2_multiply" with
  | error e => simp [hv, bind, Except.bind] at h
  | ok l =>
    have hl := getArgs_ok hv
    subst hl
    simp only [hv] at h
    generalize newCostModel flags = nm at h ⊢
    cases nm <;> simp only [if_true, if_false, Bool.false_eq_true] at h
    all_goals
      crunch
      all_goals
        have := intAtom_ok ‹intAtom _ _ = .ok _›
        simp only [Except.ok.injEq] at h
        subst h
        simp_all [Spec.CostCrypto.opG2Multiply, Spec.CostCrypto.g2Multiply,
          Gen.Crypto.blsG2MultiplyBaseCost, Gen.Crypto.blsG2MultiplyCostPerByte,
          Gen.Crypto.newBlsG2MultiplyBaseCost, Gen.Crypto.newBlsG2MultiplyCostPerByte, Gen.Crypto.mallocCostPerByte]

theorem g1_negate : CostOK opBlsG1Negate Spec.CostCrypto.opG1Negate := by
  intro flags maxCost args r h
  unfold opBlsG1Negate at h
  cases hv : getArgs 1 args "g1_negate" with
  | error e => simp [hv, bind, Except.bind] at h
  | ok l =>
    simp only [hv] at h
    crunch
    all_goals
      simp only [Except.ok.injEq, atomOf_iff] at *
      subst h
      simp_all [Spec.CostCrypto.opG1Negate, Spec.CostCrypto.g1Negate, flipSignBit_length,
        Gen.Crypto.blsG1NegateBaseCost, Gen.Crypto.mallocCostPerByte]

theorem g2_negate : CostOK opBlsG2Negate Spec.CostCrypto.opG2Negate := by
  intro flags maxCost args r h
  unfold opBlsG2Negate at h
  cases hv : getArgs 1 args "g2_negate" with
  | error e => simp [hv, bind, Except.bind] at h
  | ok l =>
    simp only [hv] at h
    crunch
    all_goals
      simp only [Except.ok.injEq, atomOf_iff] at *
      subst h
      simp_all [Spec.CostCrypto.opG2Negate, Spec.CostCrypto.g2Negate, flipSignBit_length,
        Gen.Crypto.blsG2NegateBaseCost, Gen.Crypto.mallocCostPerByte]

theorem pubkey_for_exp : CostOK opPubkeyForExp Spec.CostCrypto.opPubkeyForExp := by
  intro flags maxCost args r h
  unfold opPubkeyForExp at h
  cases hv : getArgs 1 args "pubkey_for_exp" with
  | error e => simp [hv, bind, Except.bind] at h
  | ok l =>
    have hl := getArgs_ok hv
    subst hl
    simp only [hv] at h
    crunch
    all_goals
      have := intAtom_ok ‹intAtom _ _ = .ok _›
      simp only [Except.ok.injEq] at h
      subst h
      simp_all [Spec.CostCrypto.opPubkeyForExp, Spec.CostCrypto.pubkeyForExp,
        Gen.Crypto.pubkeyBaseCost, Gen.Crypto.pubkeyCostPerByte, Gen.Crypto.mallocCostPerByte]

theorem coinid : CostOK opCoinid Spec.CostCrypto.opCoinid := by
  intro flags maxCost args r h
  unfold opCoinid at h
  cases hv : getArgs 3 args "coinid" with
  | error e => simp [hv, bind, Except.bind] at h
  | ok l =>
    simp only [hv] at h
    generalize newCostModel flags = nm at h ⊢
    crunch
    all_goals
      simp only [Except.ok.injEq] at h
      subst h
      cases nm <;> simp_all [Spec.CostCrypto.opCoinid, Spec.CostCrypto.coinid,
        Gen.Crypto.coinidCost, Gen.Crypto.newCoinidCost, Gen.Crypto.mallocCostPerByte]

theorem secp256k1_verify : CostOK opSecp256k1Verify Spec.CostCrypto.opSecp256k1Verify := by
  intro flags maxCost args r h
  unfold opSecp256k1Verify at h
  obtain ⟨u, hu, h⟩ := bind_ok h
  cases hv : getArgs 3 args "secp256k1_verify" with
  | error e => simp [hv, bind, Except.bind] at h
  | ok l =>
    simp only [hv] at h
    crunch
    all_goals
      simp only [Except.ok.injEq] at h
      subst h
      simp only [Spec.CostCrypto.opSecp256k1Verify, Spec.CostCrypto.secp256k1Verify, Gen.Crypto.secp256k1VerifyCost]

/-! ### keccak256 -/

theorem sumLen_cons (a : Tree) (l : List Tree) : sumLen (a :: l) = len a + sumLen l := rfl

theorem keccakLoop_cost (perArg perByte maxCost : Nat) : ∀ (t : Tree) (cost : Nat) (acc : Bytes) (cost' : Nat) (acc' : Bytes),
    keccakLoop perArg perByte maxCost t cost acc = .ok (cost', acc') →
    cost' = cost + (argList t).length * perArg + sumLen (argList t) * perByte := by
  intro t
  induction t with
  | atom b =>
    intro cost acc cost' acc' h
    simp only [keccakLoop, Except.ok.injEq, Prod.mk.injEq] at h; simp [argList, h.1, sumLen, sum]
  | pair f r _ ih =>
    intro cost acc cost' acc' h
    unfold keccakLoop at h
    obtain ⟨blob, hb, h⟩ := bind_ok h
    obtain ⟨u, hu, h⟩ := bind_ok h
    have := ih _ _ _ _ h
    have hf := (atomOf_iff _ _ _).1 hb
    subst hf
    rw [this, argList, List.length_cons, sumLen_cons, Nat.succ_mul, Nat.add_mul]
    simp only [len]
    omega

open Hash.Keccak in
theorem round_length (rc : UInt64) (s : List UInt64) : (round rc s).length = s.length := by
  unfold round
  split <;> rfl

open Hash.Keccak in
theorem keccakF_length (s : List UInt64) : (keccakF s).length = s.length := by
  unfold keccakF
  generalize RC = rcs
  induction rcs generalizing s with
  | nil => rfl
  | cons rc t ih => simp only [List.foldl_cons, ih, round_length]

open Hash.Keccak in
theorem xorInto_length (s b : List UInt64) : (xorInto s b).length = s.length := by
  fun_induction xorInto s b <;> simp_all [xorInto]

open Hash.Keccak in
theorem absorb_length (n : Nat) : ∀ (s : List UInt64) (bs : Bytes), (absorb n s bs).length = s.length := by
  induction n with
  | zero => intro s bs; rfl
  | succ n ih =>
    intro s bs
    unfold absorb
    split
    · rw [ih, keccakF_length, xorInto_length]
    · rfl

open Hash.Keccak in
theorem keccak256_length (msg : Bytes) : (Hash.keccak256 msg).length = 32 := by
  unfold Hash.keccak256
  simp only
  generalize hs : absorb _ _ _ = st
  have hl : st.length = 25 := by rw [← hs, absorb_length]; rfl
  match st, hl with
  | l0 :: l1 :: l2 :: l3 :: _, _ => simp [squeeze256, le64]

theorem keccak256 : CostOK opKeccak256 Spec.CostCrypto.opKeccak256 := by
  intro flags maxCost args r h
  unfold opKeccak256 at h
  generalize newCostModel flags = nm at h ⊢
  cases nm <;> simp only [if_true, if_false, Bool.false_eq_true] at h
  all_goals
    generalize hl : keccakLoop _ _ _ _ _ _ = res at h
    cases res with
    | error e => cases h
    | ok p =>
      obtain ⟨c, msg⟩ := p
      have := keccakLoop_cost _ _ _ _ _ _ _ _ hl
      simp only [newAtomAndCost, Except.ok.injEq] at h
      subst h
      simp [Spec.CostCrypto.opKeccak256, Spec.CostCrypto.keccak256, this, keccak256_length,
        Gen.Crypto.keccak256BaseCost, Gen.Crypto.keccak256CostPerArg, Gen.Crypto.keccak256CostPerByte,
        Gen.Crypto.newKeccak256BaseCost, Gen.Crypto.newKeccak256CostPerArg, Gen.Crypto.newKeccak256CostPerByte,
        Gen.Crypto.mallocCostPerByte]

/-! ### pairings -/

theorem pairingLoop_cost (cpa maxCost : Nat) : ∀ (fuel : Nat) (args : Tree) (cost : Nat) (items : List (Bls.G1 × Bls.G2))
    (cost' : Nat) (items' : List (Bls.G1 × Bls.G2)),
    pairingLoop cpa maxCost fuel args cost items = .ok (cost', items') →
    cost' = cost + ((argList args).length / 2) * cpa := by
  intro fuel
  induction fuel with
  | zero => intro args cost items cost' items' h; simp [pairingLoop] at h
  | succ n ih =>
    intro args cost items cost' items' h
    unfold pairingLoop at h
    by_cases hn : nilp args = true
    · simp only [hn, if_true, Except.ok.injEq, Prod.mk.injEq] at h
      simp [nilp_argList hn, h.1]
    · simp only [hn, if_false, Bool.false_eq_true] at h
      obtain ⟨u, hu, h⟩ := bind_ok h
      obtain ⟨a, ha, h⟩ := bind_ok h
      obtain ⟨g1, hg1, h⟩ := bind_ok h
      obtain ⟨r1, hr1, h⟩ := bind_ok h
      obtain ⟨b, hb, h⟩ := bind_ok h
      obtain ⟨g2, hg2, h⟩ := bind_ok h
      obtain ⟨r2, hr2, h⟩ := bind_ok h
      have := ih _ _ _ _ _ h
      have e1 := first_rest_ok ha hr1
      have e2 := first_rest_ok hb hr2
      subst e1; subst e2
      have e3 : ((argList r2).length + 1 + 1) / 2 = (argList r2).length / 2 + 1 := by omega
      rw [this, argList, argList, List.length_cons, List.length_cons, e3, Nat.succ_mul]
      omega

theorem pairing_identity (ap : List (Bls.G1 × Bls.G2) → Bool) :
    CostOK (opBlsPairingIdentity ap) Spec.CostCrypto.opPairingIdentity := by
  intro flags maxCost args r h
  unfold opBlsPairingIdentity at h
  generalize newCostModel flags = nm at h ⊢
  cases nm <;> simp only [if_true, if_false, Bool.false_eq_true] at h
  all_goals
    obtain ⟨u, hu, h⟩ := bind_ok h
    obtain ⟨⟨c, items⟩, hl, h⟩ := bind_ok h
    have := pairingLoop_cost _ _ _ _ _ _ _ _ hl
    cases hb : ap items with
    | false => simp [hb, throw, throwThe, MonadExceptOf.throw] at h
    | true =>
      simp only [hb, Bool.not_true, Bool.false_eq_true, if_false, pure, Except.pure, Except.ok.injEq] at h
      subst h
      simp only [Spec.CostCrypto.opPairingIdentity, Spec.CostCrypto.pairingIdentity, this, if_true, if_false,
        Bool.false_eq_true, Gen.Crypto.blsPairingBaseCost, Gen.Crypto.blsPairingCostPerArg,
        Gen.Crypto.newBlsPairingBaseCost, Gen.Crypto.newBlsPairingCostPerArg]

theorem verifyLoop_cost (cpa cpb cpd maxCost : Nat) : ∀ (fuel : Nat) (args : Tree) (cost : Nat) (items : List (Bls.G1 × Bytes))
    (cost' : Nat) (items' : List (Bls.G1 × Bytes)),
    verifyLoop cpa cpb cpd maxCost fuel args cost items = .ok (cost', items') →
    cost' = cost + sum ((msgLens (argList args)).map (fun l => cpa + l * cpb + 43 * cpd)) := by
  intro fuel
  induction fuel with
  | zero => intro args cost items cost' items' h; simp [verifyLoop] at h
  | succ n ih =>
    intro args cost items cost' items' h
    unfold verifyLoop at h
    by_cases hn : nilp args = true
    · simp only [hn, if_true, Except.ok.injEq, Prod.mk.injEq] at h
      simp [nilp_argList hn, h.1, msgLens, sum]
    · simp only [hn, if_false, Bool.false_eq_true] at h
      obtain ⟨a, ha, h⟩ := bind_ok h
      obtain ⟨pk, hpk, h⟩ := bind_ok h
      obtain ⟨r1, hr1, h⟩ := bind_ok h
      obtain ⟨b, hb, h⟩ := bind_ok h
      obtain ⟨msg, hmsg, h⟩ := bind_ok h
      obtain ⟨r2, hr2, h⟩ := bind_ok h
      obtain ⟨u, hu, h⟩ := bind_ok h
      have := ih _ _ _ _ _ h
      have e1 := first_rest_ok ha hr1
      have e2 := first_rest_ok hb hr2
      have e3 := (atomOf_iff _ _ _).1 hmsg
      subst e1; subst e2; subst e3
      rw [this, dstG2_len]
      simp only [argList, msgLens, List.map_cons, sum, List.foldr_cons, len]
      omega

theorem bls_verify (av : Bls.G2 → List (Bls.G1 × Bytes) → Bool) :
    CostOK (opBlsVerify av) Spec.CostCrypto.opBlsVerify := by
  intro flags maxCost args r h
  unfold opBlsVerify at h
  generalize newCostModel flags = nm at h ⊢
  cases nm <;> simp only [if_true, if_false, Bool.false_eq_true] at h
  all_goals
    obtain ⟨u, hu, h1⟩ := bind_ok h
    obtain ⟨a, ha, h2⟩ := bind_ok h1
    obtain ⟨sig, hsig, h3⟩ := bind_ok h2
    obtain ⟨r1, hr1, h4⟩ := bind_ok h3
    obtain ⟨⟨c, items⟩, hl, h5⟩ := bind_ok h4
    have := verifyLoop_cost _ _ _ _ _ _ _ _ _ _ hl
    have e1 := first_rest_ok ha hr1
    clear h h1 h2 h3 h4
    subst e1
    cases hb : av sig items with
    | false => simp [hb, throw, throwThe, MonadExceptOf.throw] at h5
    | true =>
      simp only [hb, Bool.not_true, Bool.false_eq_true, if_false, pure, Except.pure, Except.ok.injEq] at h5
      subst h5
      simp only [argList, Spec.CostCrypto.opBlsVerify, Spec.CostCrypto.blsVerify, this, if_true, if_false,
        Bool.false_eq_true, Gen.Crypto.blsPairingBaseCost, Gen.Crypto.blsPairingCostPerArg,
        Gen.Crypto.newBlsPairingBaseCost, Gen.Crypto.newBlsPairingCostPerArg,
        Gen.Crypto.blsMapToG2CostPerByte, Gen.Crypto.blsMapToG2CostPerDstByte,
        Gen.Crypto.newBlsMapToG2CostPerByte, Gen.Crypto.newBlsMapToG2CostPerDstByte]

/-! ### secp256r1 (by hand: `split`/`cases` on the hypothesis would unfold the curve arithmetic) -/

theorem getArgs3_shape {t : Tree} {name : String} {l : List Tree} (h : getArgs 3 t name = .ok l) :
    ∃ a b c, l = [a, b, c] := by
  unfold getArgs at h
  split at h
  · rename_i l' hm
    cases h
    match t, hm with
    | .pair a (.pair b (.pair c (.atom _))), hm =>
      simp only [matchArgs, Option.map] at hm
      cases hm
      exact ⟨a, b, c, rfl⟩
    | .atom _, hm => simp [matchArgs] at hm
    | .pair _ (.atom _), hm => simp [matchArgs] at hm
    | .pair _ (.pair _ (.atom _)), hm => simp [matchArgs] at hm
    | .pair _ (.pair _ (.pair _ (.pair _ _))), hm => simp [matchArgs] at hm
  · cases h

theorem secp256r1_verify : CostOK opSecp256r1Verify Spec.CostCrypto.opSecp256r1Verify := by
  intro flags maxCost args r h
  unfold opSecp256r1Verify at h
  obtain ⟨u, hu, h1⟩ := bind_ok h
  obtain ⟨l, hl, h2⟩ := bind_ok h1
  obtain ⟨a, b, c, e⟩ := getArgs3_shape hl
  subst e
  simp only at h2
  obtain ⟨pk, _, h3⟩ := bind_ok h2
  generalize secp256r1.decodePublicKey pk = dq at h3
  cases dq with
  | none =>
    obtain ⟨_, ht, _⟩ := bind_ok h3
    simp [throw, throwThe, MonadExceptOf.throw] at ht
  | some q =>
    obtain ⟨q', _, h4⟩ := bind_ok h3
    obtain ⟨m, _, h5⟩ := bind_ok h4
    split at h5
    · obtain ⟨_, ht, _⟩ := bind_ok h5
      simp [throw, throwThe, MonadExceptOf.throw] at ht
    · obtain ⟨sg, _, h6⟩ := bind_ok h5
      generalize secp256r1.decodeSignature sg = ds at h6
      cases ds with
      | none =>
        obtain ⟨_, ht, _⟩ := bind_ok h6
        simp [throw, throwThe, MonadExceptOf.throw] at ht
      | some s =>
        obtain ⟨s', _, h7⟩ := bind_ok h6
        generalize secp256r1.verifyPrehash q' m s' = ok at h7
        cases ok with
        | false => simp [throw, throwThe, MonadExceptOf.throw] at h7
        | true =>
          simp only [Bool.not_true, Bool.false_eq_true, if_false, pure, Except.pure, Except.ok.injEq] at h7
          subst h7
          simp only [Spec.CostCrypto.opSecp256r1Verify, Spec.CostCrypto.secp256r1Verify, Gen.Crypto.secp256r1VerifyCost]

end Clvm.CryptoCost
