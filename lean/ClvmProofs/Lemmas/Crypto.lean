/-
Helper lemmas for C32 (no Mathlib): reducedness of field elements, neutral elements of the
Fp2 / Fp12 arithmetic of `ClvmModel/Crypto`, byte/nat conversions.
-/
import ClvmModel.Crypto.Dispatch

namespace Clvm.Crypto
open Bls
set_option linter.unusedSimpArgs false

theorem p_pos : 0 < Bls.p := by decide

/-! ### reduced elements -/

def Fp2.Reduced (a : Fp2) : Prop := a.c0 < Bls.p ∧ a.c1 < Bls.p

theorem subMod_zero {x : Nat} (h : x < Bls.p) : subMod Bls.p x 0 = x := by
  unfold subMod
  rw [Nat.zero_mod, Nat.sub_zero, Nat.mod_eq_of_lt h, Nat.add_mod_right, Nat.mod_eq_of_lt h]

theorem subMod_lt (x y : Nat) : subMod Bls.p x y < Bls.p := Nat.mod_lt _ p_pos
theorem addMod_lt (x y : Nat) : addMod Bls.p x y < Bls.p := Nat.mod_lt _ p_pos

theorem Fp2.add_reduced (a b : Fp2) : (Fp2.add Bls.p a b).Reduced := ⟨addMod_lt _ _, addMod_lt _ _⟩

theorem Fp2.mul_one' {a : Fp2} (h : a.Reduced) : Fp2.mul Bls.p a Fp2.one = a := by
  cases a with
  | mk a0 a1 =>
    obtain ⟨h0, h1⟩ := h
    simp only [Fp2.mul, Fp2.one, Nat.mul_one, Nat.mul_zero, Nat.zero_add] at *
    rw [subMod_zero h0, Nat.mod_eq_of_lt h1]

theorem Fp2.mul_zero' (a : Fp2) : Fp2.mul Bls.p a Fp2.zero = Fp2.zero := by
  simp only [Fp2.mul, Fp2.zero, Nat.mul_zero, Nat.add_zero]
  rw [subMod_zero p_pos, Nat.zero_mod]

theorem Fp2.add_zero' {a : Fp2} (h : a.Reduced) : Fp2.add Bls.p a Fp2.zero = a := by
  cases a with
  | mk a0 a1 =>
    obtain ⟨h0, h1⟩ := h
    simp only [Fp2.add, Fp2.zero, addMod, Nat.add_zero] at *
    rw [Nat.mod_eq_of_lt h0, Nat.mod_eq_of_lt h1]

theorem Fp2.zero_add' {a : Fp2} (h : a.Reduced) : Fp2.add Bls.p Fp2.zero a = a := by
  cases a with
  | mk a0 a1 =>
    obtain ⟨h0, h1⟩ := h
    simp only [Fp2.add, Fp2.zero, addMod, Nat.zero_add] at *
    rw [Nat.mod_eq_of_lt h0, Nat.mod_eq_of_lt h1]

theorem Fp2.zero_add_zero : Fp2.add Bls.p Fp2.zero Fp2.zero = Fp2.zero := by decide

theorem mulXi_zero : mulXi Fp2.zero = Fp2.zero := by decide

def Bls.Fp12.Reduced (a : Fp12) : Prop :=
  a.c0.Reduced ∧ a.c1.Reduced ∧ a.c2.Reduced ∧ a.c3.Reduced ∧ a.c4.Reduced ∧ a.c5.Reduced

theorem Bls.Fp12.one_reduced : Fp12.one.Reduced := by
  unfold Fp12.Reduced Fp12.one Fp2.Reduced; decide

theorem Bls.Fp12.mul_reduced (a b : Fp12) : (Fp12.mul a b).Reduced := by
  unfold Fp12.mul Fp12.Reduced
  exact ⟨Fp2.add_reduced _ _, Fp2.add_reduced _ _, Fp2.add_reduced _ _, Fp2.add_reduced _ _,
    Fp2.add_reduced _ _, Fp2.add_reduced _ _⟩

theorem Bls.Fp12.mul_one' {a : Fp12} (h : a.Reduced) : Fp12.mul a Fp12.one = a := by
  cases a with
  | mk c0 c1 c2 c3 c4 c5 =>
    obtain ⟨h0, h1, h2, h3, h4, h5⟩ := h
    simp only [Fp12.mul, Fp12.one, Fp2.mul_zero', Fp2.zero_add_zero, mulXi_zero,
      Fp2.mul_one' h0, Fp2.mul_one' h1, Fp2.mul_one' h2, Fp2.mul_one' h3, Fp2.mul_one' h4, Fp2.mul_one' h5,
      Fp2.add_zero' h0, Fp2.add_zero' h1, Fp2.add_zero' h2, Fp2.add_zero' h3, Fp2.add_zero' h4, Fp2.add_zero' h5,
      Fp2.zero_add' h1, Fp2.zero_add' h2, Fp2.zero_add' h3, Fp2.zero_add' h4, Fp2.zero_add' h5]

theorem mem_of_mem_chunksAux {α : Type} (n : Nat) : ∀ (fuel : Nat) (l : List α) (b : List α),
    b ∈ chunksAux n fuel l → ∀ x, x ∈ b → x ∈ l := by
  intro fuel
  induction fuel with
  | zero => intro l b hb; simp [chunksAux] at hb
  | succ k ih =>
    intro l b hb x hx
    cases l with
    | nil => simp [chunksAux] at hb
    | cons y ys =>
      simp only [chunksAux, List.mem_cons] at hb
      rcases hb with hb | hb
      · subst hb; exact List.mem_of_mem_take hx
      · exact List.mem_of_mem_drop (ih _ _ hb x hx)

def bothInf (it : G1 × G2) : Bool := it.1.isNone && it.2.isNone

theorem millerPair_bothInf {it : G1 × G2} (h : bothInf it = true) : millerPair it = Fp12.one := by
  obtain ⟨a, b⟩ := it
  cases a <;> cases b <;> simp_all [bothInf, millerPair]

theorem foldl_filter_bothInf (items : List (G1 × G2)) : ∀ acc : Fp12, acc.Reduced →
    (items.filter (fun it => !(it.1.isNone && it.2.isNone))).foldl (fun acc it => Fp12.mul acc (millerPair it)) acc =
    items.foldl (fun acc it => Fp12.mul acc (millerPair it)) acc := by
  induction items with
  | nil => intro acc _; rfl
  | cons x xs ih =>
    intro acc hacc
    by_cases hx : bothInf x = true
    · have : (!(x.1.isNone && x.2.isNone)) = false := by simpa [bothInf] using hx
      simp only [List.filter, this, List.foldl]
      rw [millerPair_bothInf hx, Fp12.mul_one' hacc]
      exact ih acc hacc
    · have : (!(x.1.isNone && x.2.isNone)) = true := by
        simp only [bothInf] at hx; simp [hx]
      simp only [List.filter, this, List.foldl]
      exact ih _ (Fp12.mul_reduced _ _)


/-! ### square roots, sign bit -/

theorem powModAux_lt (p : Nat) (hp : 0 < p) : ∀ (fuel b e acc : Nat), acc < p → powModAux p fuel b e acc < p := by
  intro fuel
  induction fuel with
  | zero => intro b e acc h; simpa [powModAux] using h
  | succ n ih =>
    intro b e acc h
    unfold powModAux
    split
    · exact h
    · apply ih
      split
      · exact Nat.mod_lt _ hp
      · exact h

theorem powMod_lt (p b e : Nat) (hp : 0 < p) : powMod p b e < p :=
  powModAux_lt p hp _ _ _ _ (Nat.mod_lt _ hp)

theorem sqrtMod_lt {p a y : Nat} (hp : 0 < p) (h : sqrtMod p a = some y) : y < p := by
  unfold sqrtMod at h
  simp only at h
  split at h
  · cases h; exact powMod_lt _ _ _ hp
  · cases h

/-- facts about xor with the sign bit on one byte -/
theorem xor32_facts : ∀ n, n < 256 →
    (n ^^^ 32) / 128 = n / 128 ∧ (n ^^^ 32) / 64 % 2 = n / 64 % 2 ∧ (n ^^^ 32) % 32 = n % 32 ∧
    (n ^^^ 32) / 32 % 2 = 1 - n / 32 % 2 ∧ ((n ^^^ 32) = 0xc0 ↔ n = 0xe0) := by decide +kernel

theorem negMod_negMod {y : Nat} (h : y < Bls.p) : negMod Bls.p (negMod Bls.p y) = y := by
  unfold negMod Bls.p at *
  omega

theorem fpIsLarger_negMod {y : Nat} (h : y < Bls.p) (h0 : y ≠ 0) : fpIsLarger (negMod Bls.p y) = !fpIsLarger y := by
  unfold fpIsLarger negMod Bls.p at *
  by_cases hy : y > (0x1a0111ea397fe69a4b1ba7b6434bacd764774b84f38512bf6730d2a0f6b0f6241eabfffeb153ffffb9feffffffffaaab - 1) / 2
  · simp only [hy, decide_true, Bool.not_true, decide_eq_false_iff_not]; omega
  · simp only [hy, decide_false, Bool.not_false, decide_eq_true_eq]; omega


/-! ### big-endian bytes -/

theorem foldl_be_lt (l : Bytes) : ∀ acc k, acc < 256 ^ k →
    l.foldl (fun a (x : UInt8) => a * 256 + x.toNat) acc < 256 ^ (k + l.length) := by
  induction l with
  | nil => intro acc k h; simpa using h
  | cons x xs ih =>
    intro acc k h
    simp only [List.foldl, List.length_cons]
    have hx := UInt8.toNat_lt x
    have : acc * 256 + x.toNat < 256 ^ (k + 1) := by
      rw [Nat.pow_succ]; omega
    have := ih _ _ this
    rwa [Nat.add_assoc, Nat.add_comm 1] at this

theorem natOfBytesBE_lt (l : Bytes) : natOfBytesBE l < 256 ^ l.length := by
  have := foldl_be_lt l 0 0 (by decide)
  simpa [natOfBytesBE] using this

theorem natOfBytesBE_cons_zero (l : Bytes) : natOfBytesBE (0 :: l) = natOfBytesBE l := by
  simp [natOfBytesBE, List.foldl]


/-! ### small facts used by Props/C32 -/
open Ops in
theorem groupOrder_pos : (0 : Int) < (Gen.Crypto.groupOrder : Int) := by
  unfold Gen.Crypto.groupOrder; omega


open Ops in
theorem hasFlag_or_self (f b : Nat) : hasFlag (f ||| b) b = true := by
  unfold hasFlag
  have : (f ||| b) &&& b = b := by
    apply Nat.eq_of_testBit_eq; intro i
    simp only [Nat.testBit_and, Nat.testBit_or]
    cases f.testBit i <;> cases b.testBit i <;> rfl
  rw [this]; simp


open Ops in
theorem fp12_mul_one_one : Fp12.mul Fp12.one Fp12.one = Fp12.one := Fp12.mul_one' Fp12.one_reduced


open Ops in
theorem fp12_powAux_one (fuel e : Nat) : Fp12.powAux fuel Fp12.one e Fp12.one = Fp12.one := by
  induction fuel generalizing e with
  | zero => rfl
  | succ n ih =>
    unfold Fp12.powAux
    split
    · rfl
    · rw [fp12_mul_one_one]
      split <;> exact ih _


open Ops in
theorem finalExpIsOne_one : finalExpIsOne Fp12.one = true := by
  have h1 : Fp12.mul (Fp12.conj6 Fp12.one) (Fp12.inv Fp12.one) = Fp12.one := by decide +kernel
  have h2 : Fp12.mul (Fp12.frob2 Fp12.one) Fp12.one = Fp12.one := by decide +kernel
  unfold finalExpIsOne
  simp only [h1, h2, Fp12.pow, fp12_powAux_one]
  decide


end Clvm.Crypto
