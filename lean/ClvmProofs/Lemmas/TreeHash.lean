/-
Lemmas for C22, part 1: allocator-node variants that do not depend on node identity
(`tree_hash_costed`, `op_sha256_tree`) and the precomputed table.
-/
import ClvmModel.TreeHash

namespace Clvm.TreeHash
open Clvm.Hash

/-! ### inline atoms -/

theorem lenForValue_le_four {v : Nat} (h : v < 2 ^ 31) : Alloc.lenForValue v ≤ 4 := by
  unfold Alloc.lenForValue
  split
  · omega
  · simp only [Gen.lenForValueThresholds, Alloc.ladderUp]
    repeat' split
    all_goals omega

theorem smallBytes_length {v : Nat} (h : v < 2 ^ 31) : (Alloc.smallBytes v).length = Alloc.lenForValue v := by
  have := lenForValue_le_four h
  simp [Alloc.smallBytes, Alloc.toBE]
  omega

theorem allocAtom_u32 {i v : Nat} (h : v < 2 ^ 31) : allocAtom (.u32 i v) = .ok (Alloc.smallBytes v) := by
  have := lenForValue_le_four h
  simp [allocAtom, Alloc.smallBytes]
  omega

/-- `Allocator::atom` of an atom node reads the bytes the node denotes -/
theorem allocAtom_buffer (i : Nat) (b : Bytes) : allocAtom (.buffer i b) = .ok b := rfl

/-! ### the precomputed table -/

/-- row `i` is used for the inline atom of value `i`, i.e. for the bytes `smallBytes i`
(`[]` for 0, `[i]` for 1 ≤ i < 128) -/
def precomputedCheck : Bool :=
  (List.range precomputed.length).all fun i => precomputed[i]? == some (sha256 (1 :: Alloc.smallBytes i))

set_option maxRecDepth 1000000 in
theorem precomputedCheck_true : precomputedCheck = true := by decide +kernel

theorem precomputed_get {i : Nat} (h : i < precomputed.length) :
    precomputed[i]? = some (sha256 (1 :: Alloc.smallBytes i)) := by
  have := precomputedCheck_true
  simp only [precomputedCheck, List.all_eq_true, List.mem_range] at this
  have := this i h
  simpa using this

/-! ### cost specification -/

/-- what the source charges for the nodes of a tree: `PAIR_COST` per pair, `(len + 1) · cost_per_byte`
per atom — over the expanded tree (every occurrence of a shared sub-tree is charged). -/
def nodeCost (cpb : Nat) : Tree → Nat
  | .atom b => (b.length + 1) * cpb
  | .pair l r => Gen.thPairCost + nodeCost cpb r + nodeCost cpb l

/-- total number of atom bytes (with multiplicity) -/
def sumLen : Tree → Nat
  | .atom b => b.length
  | .pair l r => sumLen l + sumLen r

theorem nodeCost_eq (cpb : Nat) (t : Tree) :
    nodeCost cpb t = Gen.thPairCost * t.pairs + cpb * (sumLen t + t.atoms) := by
  induction t with
  | atom b => simp [nodeCost, Tree.pairs, Tree.atoms, sumLen, Nat.mul_comm]
  | pair l r ihl ihr =>
    simp only [nodeCost, Tree.pairs, Tree.atoms, sumLen, ihl, ihr, Nat.mul_add, Nat.mul_one]
    omega

/-- the cost `tree_hash_costed` reports: base + nodes + malloc of the 32-byte result -/
def costSpec (newModel : Bool) (t : Tree) : Nat :=
  Gen.thBaseCost
    + nodeCost (if newModel then Gen.thNewCostPerByte else Gen.thCostPerByte) t
    + Gen.thMallocCostPerByte * Gen.thMallocBytes

/-! ### `tree_hash_costed`: the work-list processes one node completely, right sub-tree first -/

theorem checkCost_ok {c m : Nat} (h : c ≤ m) : checkCost c m = .ok () := by
  simp [checkCost]; omega

theorem checkCost_err {c m : Nat} (h : m < c) : checkCost c m = .error .CostExceeded := by
  simp [checkCost]; omega

theorem costedLoop_node (cpb R : Nat) (t : NTree) (hv : t.Valid) :
    ∀ (ops : List TreeOp) (hashes : List Bytes) (cost : Nat),
      costedLoop cpb R (.sexp t :: ops) hashes cost =
        if cost + nodeCost cpb t.erase ≤ R then
          costedLoop cpb R ops (treeHash t.erase :: hashes) (cost + nodeCost cpb t.erase)
        else .error .CostExceeded := by
  induction t with
  | buffer i b =>
    intro ops hashes cost
    rw [costedLoop]
    simp only [NTree.erase, nodeCost]
    by_cases h : cost + (b.length + 1) * cpb ≤ R
    · simp [checkCost_ok h, h, treeHashAtom, treeHash]
    · simp [checkCost_err (Nat.lt_of_not_le h), h]
  | u32 i v =>
    intro ops hashes cost
    have hv' : v < 2 ^ 31 := hv
    rw [costedLoop]
    simp only [NTree.erase, nodeCost, allocAtomLen, smallBytes_length hv']
    by_cases h : cost + (Alloc.lenForValue v + 1) * cpb ≤ R
    · simp only [checkCost_ok h, h, if_true]
      by_cases hp : v < precomputed.length
      · rw [if_pos hp, precomputed_get hp]
        simp [treeHash]
      · simp [hp, allocAtom_u32 hv', treeHashAtom, treeHash]
    · simp [checkCost_err (Nat.lt_of_not_le h), h]
  | pair i l r ihl ihr =>
    intro ops hashes cost
    have hvl : l.Valid := hv.1
    have hvr : r.Valid := hv.2
    rw [costedLoop]
    simp only [NTree.erase, nodeCost]
    by_cases h0 : cost + Gen.thPairCost ≤ R
    · simp only [checkCost_ok h0]
      rw [ihr hvr]
      by_cases h1 : cost + Gen.thPairCost + nodeCost cpb r.erase ≤ R
      · simp only [h1, if_true]
        rw [ihl hvl]
        by_cases h2 : cost + Gen.thPairCost + nodeCost cpb r.erase + nodeCost cpb l.erase ≤ R
        · have h3 : cost + (Gen.thPairCost + nodeCost cpb r.erase + nodeCost cpb l.erase) ≤ R := by omega
          simp only [h2, h3, if_true]
          rw [costedLoop]
          simp [treeHashPair, treeHash, Nat.add_assoc]
        · have h3 : ¬ cost + (Gen.thPairCost + nodeCost cpb r.erase + nodeCost cpb l.erase) ≤ R := by omega
          simp [h2, h3]
      · have h3 : ¬ cost + (Gen.thPairCost + nodeCost cpb r.erase + nodeCost cpb l.erase) ≤ R := by omega
        simp [h1, h3]
    · have h3 : ¬ cost + (Gen.thPairCost + nodeCost cpb r.erase + nodeCost cpb l.erase) ≤ R := by omega
      simp [checkCost_err (Nat.lt_of_not_le h0), h3]

theorem treeHashCosted_eq (newModel : Bool) (R : Nat) (t : NTree) (hv : t.Valid) :
    treeHashCosted newModel R t =
      if costSpec newModel t.erase ≤ R then .ok (costSpec newModel t.erase, treeHash t.erase)
      else .error .CostExceeded := by
  unfold treeHashCosted costSpec
  simp only []
  rw [costedLoop_node _ _ _ hv]
  generalize (if newModel then Gen.thNewCostPerByte else Gen.thCostPerByte) = cpb
  by_cases h1 : Gen.thBaseCost + nodeCost cpb t.erase ≤ R
  · simp only [h1, if_true]
    rw [costedLoop]
    by_cases h2 : Gen.thBaseCost + nodeCost cpb t.erase + Gen.thMallocCostPerByte * Gen.thMallocBytes ≤ R
    · simp [h2, checkCost_ok h2]
    · simp [h2, checkCost_err (Nat.lt_of_not_le h2)]
  · have h2 : ¬ Gen.thBaseCost + nodeCost cpb t.erase + Gen.thMallocCostPerByte * Gen.thMallocBytes ≤ R := by omega
    simp [h1, h2]

/-! ### `op_sha256_tree` -/

theorem opSha256Tree_eq (newModel : Bool) (R : Nat) (i : Nat) (n term : NTree)
    (hterm : ∀ k l r, term ≠ .pair k l r) :
    opSha256Tree newModel R (.pair i n term) = treeHashCosted newModel R n := by
  unfold opSha256Tree
  cases term with
  | pair k l r => exact absurd rfl (hterm k l r)
  | buffer k b => simp [matchArgsGo]
  | u32 k v => simp [matchArgsGo]

end Clvm.TreeHash
