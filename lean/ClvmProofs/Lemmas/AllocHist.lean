/-
Histories: the session invariant `SInv` (allocator invariant + every slot a client still
considers valid really is valid), its preservation by `Session.step`, immutability of valid
nodes along a history, and the evolution of the three counts by the rule of C12.
-/
import ClvmProofs.Lemmas.AllocRestore

namespace Clvm.Alloc
open Clvm

def slotTcp (sl : Slot) : Option TCheckpoint :=
  if sl.valid then
    match sl.val with
    | .tcp c => some c
    | .cp c => some c.inner
    | _ => none
  else none

def slotNode (sl : Slot) : Option Ptr :=
  if sl.valid then
    match sl.val with
    | .node p => some p
    | _ => none
  else none

structure SInv (s : Session) : Prop where
  inv : Inv s.a
  heap : HeapOk s.a
  nodes : ∀ (i : Nat) (sl : Slot) (p : Ptr), s.slots[i]? = some sl → slotNode sl = some p → Valid s.a p
  tcps : ∀ (i : Nat) (sl : Slot) (c : TCheckpoint), s.slots[i]? = some sl → slotTcp sl = some c → TCpValid s.a c
  caps : ∀ (i : Nat) (c : Checkpoint), s.slots[i]? = some ⟨.cp c, true⟩ →
    c.inner.atoms + c.ghostAtoms ≤ Gen.maxNumAtoms ∧ c.inner.pairs + c.ghostPairs ≤ Gen.maxNumPairs ∧
    c.inner.u8s + c.ghostHeap ≤ s.a.heapLimit
  order : ∀ (i j : Nat) (sli slj : Slot) (ci cj : TCheckpoint), i ≤ j → s.slots[i]? = some sli →
    s.slots[j]? = some slj → slotTcp sli = some ci → slotTcp slj = some cj → ci.le cj
  older : ∀ (i j : Nat) (sli slj : Slot) (p : Ptr) (c : TCheckpoint), i < j → s.slots[i]? = some sli →
    s.slots[j]? = some slj → slotNode sli = some p → slotTcp slj = some c → ValidAt c p

theorem SInv.init (a : Alloc) (hI : Inv a) (hH : HeapOk a) : SInv (Session.init a) :=
  ⟨hI, hH, fun i sl p h => by simp [Session.init] at h, fun i sl c h => by simp [Session.init] at h,
   fun i c h => by simp [Session.init] at h, fun i j sli slj ci cj _ h => by simp [Session.init] at h,
   fun i j sli slj p c _ h => by simp [Session.init] at h⟩

theorem getNode_iff (s : Session) (i : Nat) (p : Ptr) :
    s.getNode i = some p ↔ ∃ sl, s.slots[i]? = some sl ∧ slotNode sl = some p := by
  unfold Session.getNode slotNode
  constructor
  · intro h
    split at h
    · next heq => cases h; exact ⟨_, heq, by simp⟩
    · cases h
  · rintro ⟨sl, h1, h2⟩
    rw [h1]
    obtain ⟨v, b⟩ := sl
    cases b with
    | false => simp at h2
    | true =>
      cases v with
      | node q => simp at h2; subst h2; rfl
      | _ => simp at h2

theorem getTcp_slot (s : Session) (k : Nat) (c : TCheckpoint) (h : s.getTcp k = some c) :
    s.slots[k]? = some ⟨.tcp c, true⟩ := by
  unfold Session.getTcp at h
  split at h
  · next heq => cases h; exact heq
  · cases h

theorem getCp_slot (s : Session) (k : Nat) (c : Checkpoint) (h : s.getCp k = some c) :
    s.slots[k]? = some ⟨.cp c, true⟩ := by
  unfold Session.getCp at h
  split at h
  · next heq => cases h; exact heq
  · cases h

theorem getNodes_valid (s : Session) (hS : SInv s) : ∀ (xs : List Nat) (ps : List Ptr),
    s.getNodes xs = some ps → ∀ p ∈ ps, Valid s.a p := by
  intro xs
  induction xs with
  | nil => intro ps h; simp [Session.getNodes] at h; subst h; simp
  | cons x xs ih =>
    intro ps h
    simp only [Session.getNodes] at h
    split at h
    · next p qs h1 h2 =>
      cases h
      intro q hq
      rcases List.mem_cons.1 hq with rfl | hq
      · obtain ⟨sl, e1, e2⟩ := (getNode_iff s x _).1 h1
        exact hS.nodes x sl _ e1 e2
      · exact ih qs h2 q hq
    · cases h

/-! ### append-only steps -/

/-- side condition on the value published in the new slot -/
def SlotOk (a' : Alloc) : SlotVal → Prop
  | .node p => Valid a' p
  | .tcp c => c = transparentCheckpoint a'
  | .cp c => c = checkpoint a'
  | .unit => True

theorem tcp_le_of_valid {a : Alloc} {c : TCheckpoint} (h : TCpValid a c) : c.le (transparentCheckpoint a) :=
  ⟨h.u8s, h.atoms, h.pairs⟩

theorem SInv.push {s : Session} (h : SInv s) {a' : Alloc} (hI : Inv a') (hH : HeapOk a') (hE : Ext s.a a')
    (v : SlotVal) (valid : Bool) (hv : SlotOk a' v) : SInv (s.push a' v valid) := by
  have hnew : ∀ c, slotTcp ⟨v, valid⟩ = some c → c = transparentCheckpoint a' := by
    intro c hc
    unfold slotTcp at hc
    cases valid with
    | false => simp at hc
    | true =>
      cases v with
      | tcp c' => simp at hc; subst hc; exact hv
      | cp c' => simp at hc; subst hc; have : c' = checkpoint a' := hv; subst this; rfl
      | _ => simp at hc
  refine ⟨hI, hH, ?_, ?_, ?_, ?_, ?_⟩
  · intro i sl p hi hp
    rcases getElem?_append_singleton _ _ _ _ hi with h1 | ⟨_, h2⟩
    · exact hE.valid (h.nodes i sl p h1 hp)
    · subst h2
      unfold slotNode at hp
      cases valid with
      | false => simp at hp
      | true =>
        cases v with
        | node q => simp at hp; subst hp; exact hv
        | _ => simp at hp
  · intro i sl c hi hc
    rcases getElem?_append_singleton _ _ _ _ hi with h1 | ⟨_, h2⟩
    · exact hE.tcpValid (h.tcps i sl c h1 hc)
    · subst h2; rw [hnew c hc]; exact tcpValid_checkpoint a' hI
  · intro i c hi
    rcases getElem?_append_singleton _ _ _ _ hi with h1 | ⟨_, h2⟩
    · have := h.caps i c h1
      show _ ∧ _ ∧ c.inner.u8s + c.ghostHeap ≤ a'.heapLimit
      rw [hE.limit]; exact this
    · cases h2
      have : c = checkpoint a' := hv
      subst this
      exact ⟨hI.atomCap, hI.pairCap, hH⟩
  · intro i j sli slj ci cj hij hi hj hci hcj
    rcases getElem?_append_singleton _ _ _ _ hi with h1 | ⟨e1, h2⟩
    · rcases getElem?_append_singleton _ _ _ _ hj with h3 | ⟨_, h4⟩
      · exact h.order i j sli slj ci cj hij h1 h3 hci hcj
      · subst h4; rw [hnew cj hcj]
        exact tcp_le_of_valid (hE.tcpValid (h.tcps i sli ci h1 hci))
    · rcases getElem?_append_singleton _ _ _ _ hj with h3 | ⟨e3, h4⟩
      · have : j < s.slots.length := by
          rcases Nat.lt_or_ge j s.slots.length with hlt | hge
          · exact hlt
          · rw [List.getElem?_eq_none hge] at h3; cases h3
        omega
      · subst h2 h4; rw [hnew ci hci, hnew cj hcj]; exact ⟨Nat.le_refl _, Nat.le_refl _, Nat.le_refl _⟩
  · intro i j sli slj p c hij hi hj hp hc
    rcases getElem?_append_singleton _ _ _ _ hj with h3 | ⟨e3, h4⟩
    · have hjl : j < s.slots.length := by
        rcases Nat.lt_or_ge j s.slots.length with hlt | hge
        · exact hlt
        · rw [List.getElem?_eq_none hge] at h3; cases h3
      have h1 : s.slots[i]? = some sli := by
        rwa [Session.push, List.getElem?_append_left (by omega)] at hi
      exact h.older i j sli slj p c hij h1 h3 hp hc
    · subst h4; rw [hnew c hc]
      have h1 : s.slots[i]? = some sli := by
        rwa [Session.push, List.getElem?_append_left (by omega)] at hi
      exact hE.valid (h.nodes i sli p h1 hp)

/-! ### restoring steps -/

theorem invalidateAfter_get (l : List Slot) (k i : Nat) (sl : Slot) (h : (invalidateAfter l k)[i]? = some sl) :
    (i ≤ k ∧ l[i]? = some sl) ∨ sl.valid = false := by
  unfold invalidateAfter at h
  rw [List.getElem?_mapIdx] at h
  cases hl : l[i]? with
  | none => rw [hl] at h; cases h
  | some x =>
    rw [hl] at h
    simp only [Option.map_some, Option.some.injEq] at h
    by_cases hk : k < i
    · rw [if_pos hk] at h; right; rw [← h]
    · rw [if_neg hk] at h; left; exact ⟨by omega, by rw [h]⟩

theorem slotNode_invalid {sl : Slot} (h : sl.valid = false) : slotNode sl = none := by
  unfold slotNode; rw [h]; rfl

theorem slotTcp_invalid {sl : Slot} (h : sl.valid = false) : slotTcp sl = none := by
  unfold slotTcp; rw [h]; rfl

theorem invalidateAfter_length (l : List Slot) (k : Nat) : (invalidateAfter l k).length = l.length := by
  unfold invalidateAfter; simp

/-- a restore to the checkpoint in slot `k`, followed by publishing `v` (nothing or a node that is
valid afterwards) -/
theorem SInv.restore {s : Session} (h : SInv s) (k : Nat) (slk : Slot) (c : TCheckpoint)
    (hk : s.slots[k]? = some slk) (hc : slotTcp slk = some c)
    (a' : Alloc) (hI : Inv a') (hH : HeapOk a') (hlim : a'.heapLimit = s.a.heapLimit)
    (hnodes : ∀ p, ValidAt c p → Valid a' p)
    (hcps : ∀ c', TCpValid s.a c' → c'.le c → TCpValid a' c')
    (v : SlotVal) (valid : Bool) (hv : match v with | .node q => Valid a' q | .unit => True | _ => False) :
    SInv { a := a', slots := invalidateAfter s.slots k ++ [⟨v, valid⟩] } := by
  have hkl : k < s.slots.length := by
    rcases Nat.lt_or_ge k s.slots.length with hlt | hge
    · exact hlt
    · rw [List.getElem?_eq_none hge] at hk; cases hk
  have hnotnode : slotNode slk = none := by
    unfold slotTcp at hc; unfold slotNode
    obtain ⟨vv, b⟩ := slk
    cases b with
    | false => rfl
    | true => cases vv <;> simp at hc ⊢
  have hnewtcp : slotTcp ⟨v, valid⟩ = none := by
    unfold slotTcp
    cases valid with
    | false => rfl
    | true => cases v <;> simp at hv ⊢
  -- surviving slots
  have surv : ∀ i sl, (invalidateAfter s.slots k ++ [⟨v, valid⟩])[i]? = some sl →
      (i ≤ k ∧ s.slots[i]? = some sl) ∨ (slotNode sl = none ∧ slotTcp sl = none) ∨
      (i = s.slots.length ∧ sl = ⟨v, valid⟩) := by
    intro i sl hi
    rcases getElem?_append_singleton _ _ _ _ hi with h1 | ⟨e1, h2⟩
    · rcases invalidateAfter_get _ _ _ _ h1 with h3 | h3
      · left; exact h3
      · right; left; exact ⟨slotNode_invalid h3, slotTcp_invalid h3⟩
    · right; right; rw [invalidateAfter_length] at e1; exact ⟨e1, h2⟩
  refine ⟨hI, hH, ?_, ?_, ?_, ?_, ?_⟩
  · intro i sl p hi hp
    rcases surv i sl hi with ⟨hik, h1⟩ | ⟨h1, _⟩ | ⟨_, h2⟩
    · by_cases hik' : i = k
      · subst hik'; rw [hk] at h1; cases h1; rw [hnotnode] at hp; cases hp
      · exact hnodes p (h.older i k sl slk p c (by omega) h1 hk hp hc)
    · rw [h1] at hp; cases hp
    · subst h2
      unfold slotNode at hp
      cases valid with
      | false => simp at hp
      | true =>
        cases v with
        | node q => simp at hp; subst hp; exact hv
        | _ => simp at hp
  · intro i sl c' hi hc'
    rcases surv i sl hi with ⟨hik, h1⟩ | ⟨_, h1⟩ | ⟨_, h2⟩
    · exact hcps c' (h.tcps i sl c' h1 hc') (h.order i k sl slk c' c hik h1 hk hc' hc)
    · rw [h1] at hc'; cases hc'
    · subst h2; rw [hnewtcp] at hc'; cases hc'
  · intro i c' hi
    rcases surv i _ hi with ⟨hik, h1⟩ | ⟨_, h1⟩ | ⟨_, h2⟩
    · have := h.caps i c' h1
      show _ ∧ _ ∧ c'.inner.u8s + c'.ghostHeap ≤ a'.heapLimit
      rw [hlim]; exact this
    · simp [slotTcp] at h1
    · cases h2; simp at hv
  · intro i j sli slj ci cj hij hi hj hci hcj
    rcases surv i sli hi with ⟨_, h1⟩ | ⟨_, h1⟩ | ⟨_, h2⟩
    · rcases surv j slj hj with ⟨_, h3⟩ | ⟨_, h3⟩ | ⟨_, h4⟩
      · exact h.order i j sli slj ci cj hij h1 h3 hci hcj
      · rw [h3] at hcj; cases hcj
      · subst h4; rw [hnewtcp] at hcj; cases hcj
    · rw [h1] at hci; cases hci
    · subst h2; rw [hnewtcp] at hci; cases hci
  · intro i j sli slj p c' hij hi hj hp hc'
    rcases surv j slj hj with ⟨_, h3⟩ | ⟨_, h3⟩ | ⟨_, h4⟩
    · rcases surv i sli hi with ⟨_, h1⟩ | ⟨h1, _⟩ | ⟨e1, _⟩
      · exact h.older i j sli slj p c' hij h1 h3 hp hc'
      · rw [h1] at hp; cases hp
      · have : j < s.slots.length := by
          rcases Nat.lt_or_ge j s.slots.length with hlt | hge
          · exact hlt
          · rw [List.getElem?_eq_none hge] at h3; cases h3
        omega
    · rw [h3] at hc'; cases hc'
    · subst h4; rw [hnewtcp] at hc'; cases hc'

end Clvm.Alloc
