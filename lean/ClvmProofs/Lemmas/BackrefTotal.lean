/-
C18 totality: no panic outcome (`unwrap`/`expect`/`panic!`/index/overflow/`debug_assert`, or the
model's fuel) is reachable in `traverse_path`, `traverse_path_fast`, `traverse_path_with_vec`, the
two back-reference decoders and the length probe.
-/
import ClvmProofs.Lemmas.BackrefDecode

namespace Clvm.Backref
open Clvm Clvm.Serde Clvm.Serde.Backref Clvm.Serde.TraversePath

theorem msbMask_le : ∀ n, n < 256 → msbMask n ≤ 128 := by decide +kernel

theorem and80_of_gt : ∀ n, n < 256 → 127 < n → (n &&& 0x80 == 0) = false := by decide +kernel

theorem pow2_eq_128 : ∀ k, k < 8 → ((2 ^ k == 0x80) = decide (k = 7)) := by decide

theorem NoPanic.cast {α β : Type} {e : Err} (h : NoPanic (Except.error e : Except Err α)) :
    NoPanic (Except.error e : Except Err β) := by
  cases e <;> first | exact h | trivial

/-! ### the bit loop of `traverse_path` -/

theorem tpLoop_noPanic (idx : Bytes) (first lastMask : Nat) (hlm : lastMask ≤ 128) :
    ∀ (fuel byteIdx k : Nat) (t : Tree) (cost : Nat), k ≤ 7 → first ≤ byteIdx → byteIdx < idx.length →
      8 * (byteIdx - first) + (8 - k) < fuel →
      NoPanic (tpLoop idx first lastMask fuel byteIdx (2 ^ k) t cost) := by
  intro fuel
  induction fuel with
  | zero => intro _ _ _ _ _ _ _ h; omega
  | succ fuel ih =>
    intro byteIdx k t cost hk hfb hbl hfuel
    unfold tpLoop
    by_cases hcond : byteIdx > first ∨ 2 ^ k < lastMask
    · simp only [hcond, if_true]
      have hb : idx[byteIdx]? = some idx[byteIdx] := List.getElem?_eq_getElem hbl
      rw [hb]
      simp only []
      cases t with
      | atom a => trivial
      | pair l r =>
        simp only []
        rw [pow2_eq_128 k (by omega)]
        by_cases hk7 : k = 7
        · subst hk7
          simp only [decide_true, if_true]
          have hgt : byteIdx > first := by
            rcases hcond with h | h
            · exact h
            · have : (2:Nat) ^ 7 = 128 := by decide
              omega
          have hne : (byteIdx == 0) = false := by
            have : byteIdx ≠ 0 := by omega
            simpa using this
          simp only [hne, Bool.false_eq_true, if_false]
          have := ih (byteIdx - 1) 0 (if (idx[byteIdx].toNat &&& 2 ^ 7 != 0) = true then r else l)
            (cost + Gen.traverseCostPerBit) (by omega) (by omega) (by omega) (by omega)
          simpa using this
        · simp only [hk7, decide_false, Bool.false_eq_true, if_false]
          have hsh : 2 ^ k <<< 1 = 2 ^ (k + 1) := by rw [Nat.shiftLeft_eq, Nat.pow_one, Nat.pow_succ]
          rw [hsh]
          exact ih byteIdx (k + 1) _ _ (by omega) hfb hbl (by omega)
    · simp only [hcond, if_false]; trivial

theorem firstNonZero_le (idx : Bytes) : firstNonZero idx ≤ idx.length := by
  induction idx with
  | nil => simp [firstNonZero]
  | cons b bs ih =>
    unfold firstNonZero
    split <;> simp <;> omega

/-- **Totality of `traverse_path`**: the slice indices are in range, `byte_idx -= 1` never
underflows, and `8·len + 1` iterations of fuel are never exhausted. -/
theorem traversePath_noPanic (idx : Bytes) (t : Tree) : NoPanic (traversePath idx t) := by
  unfold traversePath
  simp only []
  by_cases hf : firstNonZero idx ≥ idx.length
  · simp only [hf, if_true]; trivial
  · simp only [hf, if_false]
    have hlt : firstNonZero idx < idx.length := by omega
    rw [List.getElem?_eq_getElem hlt]
    simp only []
    have h := tpLoop_noPanic idx (firstNonZero idx) (msbMask idx[firstNonZero idx].toNat)
      (msbMask_le _ (UInt8.toNat_lt _)) (loopFuel idx) (idx.length - 1) 0 t
      (Gen.traverseBaseCost + firstNonZero idx * Gen.traverseCostPerZeroByte + Gen.traverseCostPerBit)
      (by omega) (by omega) (by omega) (by unfold loopFuel; omega)
    simpa using h

/-- `traverse_path_with_vec` does not panic on a vector satisfying the decoder's invariants -/
theorem traversePathWithVec_noPanic (idx : Bytes) (args : List Entry) (c : Ctr)
    (hc : CacheOk Tree.nil args) (hu : unc args ≤ c.ghostPairs) (hp : PairInv c) :
    NoPanic (traversePathWithVec idx args c) :=
  (traversePathWithVec_sim idx args c hc hu hp).noPanic (traversePath_noPanic _ _)

/-! ### `traverse_path_fast` -/

theorem tpFastLoop_noPanic : ∀ (fuel n : Nat) (t : Tree) (bits : Nat), 1 ≤ n → n < 2 ^ fuel →
    NoPanic (tpFastLoop fuel n t bits) := by
  intro fuel
  induction fuel with
  | zero => intro n _ _ h1 h2; simp at h2; omega
  | succ fuel ih =>
    intro n t bits h1 h2
    unfold tpFastLoop
    by_cases hn : (n != 1) = true
    · simp only [hn, if_true]
      cases t with
      | atom a => trivial
      | pair l r =>
        simp only []
        have hn1 : n ≠ 1 := by simpa using hn
        apply ih
        · rw [Nat.shiftRight_eq_div_pow]; simp only [Nat.pow_one]; omega
        · rw [Nat.shiftRight_eq_div_pow]; simp only [Nat.pow_one]
          rw [Nat.pow_succ] at h2; omega
    · simp only [hn]; trivial

theorem traversePathFast_noPanic (n : Nat) (hn : n < 2 ^ 32) (t : Tree) : NoPanic (traversePathFast n t) := by
  unfold traversePathFast
  by_cases h0 : (n == 0) = true
  · simp only [h0, if_true]; trivial
  · simp only [h0, Bool.false_eq_true, if_false]
    have hn0 : n ≠ 0 := by simpa using h0
    have := tpFastLoop_noPanic 33 n t 0 (by omega) (by
      have : (2:Nat) ^ 33 = 2 * 2 ^ 32 := by decide
      omega)
    revert this
    generalize tpFastLoop 33 n t 0 = X
    intro h
    cases X with
    | error e => exact h
    | ok r => trivial

/-! ### parsing -/

theorem decodeSize_noPanic (inp : Bytes) (n : Nat) (h1 : n < 256) (h2 : 127 < n) :
    NoPanic (Classic.decodeSize inp n) := by
  unfold Classic.decodeSize Classic.decodeSizeWithOffset
  rw [and80_of_gt n h1 h2]
  simp only [Bool.false_eq_true, if_false]
  split
  · trivial
  · split
    · trivial
    · split
      · trivial
      · split <;> trivial

theorem parseAtomPtr_noPanic (inp : Bytes) (b : UInt8) : NoPanic (Classic.parseAtomPtr inp b) := by
  unfold Classic.parseAtomPtr
  by_cases h : b.toNat ≤ Classic.MAX_SINGLE_BYTE
  · simp only [h, if_true]; trivial
  · simp only [h, if_false]
    have := decodeSize_noPanic inp b.toNat (UInt8.toNat_lt b) (by unfold Classic.MAX_SINGLE_BYTE at h; omega)
    revert this
    generalize Classic.decodeSize inp b.toNat = X
    intro hx
    cases X with
    | error e => simp only []; exact hx.cast
    | ok r =>
      obtain ⟨off, size⟩ := r
      simp only []
      split <;> trivial

theorem parsePath_noPanic (inp : Bytes) : NoPanic (parsePath inp) := by
  unfold parsePath
  cases inp with
  | nil => trivial
  | cons b rest =>
    simp only []
    have := parseAtomPtr_noPanic rest b
    revert this
    generalize Classic.parseAtomPtr rest b = X
    intro hx
    cases X with
    | error e => exact hx
    | ok r => trivial

theorem parseAtom_noPanic (inp : Bytes) (b : UInt8) (c : Ctr) : NoPanic (parseAtom inp b c) := by
  unfold parseAtom
  split
  · trivial
  · split
    · trivial
    · have := parseAtomPtr_noPanic inp b
      revert this
      generalize Classic.parseAtomPtr inp b = X
      intro hx
      cases X with
      | error e => simp only []; exact hx.cast
      | ok r =>
        obtain ⟨n, blob⟩ := r
        simp only []
        unfold Ctr.newAtom
        by_cases g1 : c.heap + blob.length > c.heapLimit
        · simp only [g1, if_true]; trivial
        · simp only [g1, if_false]
          by_cases g2 : (c.atoms == Gen.maxNumAtoms) = true
          · simp only [g2, if_true]; trivial
          · simp only [g2]; trivial

/-! ### the decoders -/

/-- the operation stack can be run to completion on a value stack of `n` items -/
def okOps : List ParseOp → Nat → Prop
  | [], n => 1 ≤ n
  | .sexp :: r, n => okOps r (n + 1)
  | .cons :: r, n => 2 ≤ n ∧ okOps r (n - 1)

theorem noPanic_of_ite {α : Type} (p : Prop) [Decidable p] (e : Err) (x : Except Err α)
    (he : NoPanic (Except.error e : Except Err α)) (hx : NoPanic x) : NoPanic (if p then .error e else x) := by
  split <;> assumption

theorem deBrOld_noPanic : ∀ (n : Nat) (inp : Bytes), inp.length = n → ∀ (ops : List ParseOp)
    (vals : List Tree) (c : Ctr), okOps ops vals.length → PairInv c →
    NoPanic (deBrOld inp ops (stackTree vals) c) := by
  intro n
  induction n using Nat.strongRecOn with
  | _ n ihn =>
    intro inp hlen ops
    induction ops with
    | nil =>
      intro vals c hok hp
      unfold deBrOld
      rcases eq_nil_or_snoc vals with hv | ⟨init, last, hv⟩
      · subst hv; simp [okOps] at hok
      · subst hv; rw [stackTree_snoc]; trivial
    | cons op ops' iho =>
      intro vals c hok hp
      cases op with
      | sexp =>
        unfold deBrOld
        cases inp with
        | nil => trivial
        | cons b rest =>
          simp only []
          have hrl : rest.length < n := by simp at hlen; omega
          split
          · exact ihn _ hrl rest rfl _ vals c (by simpa [okOps] using hok) hp
          · split
            · have h1 := parsePath_noPanic rest
              revert h1
              generalize parsePath rest = X
              intro h1
              cases X with
              | error e => simp only []; exact h1.cast
              | ok r =>
                obtain ⟨k, path⟩ := r
                simp only []
                have h2 := traversePath_noPanic path (stackTree vals)
                revert h2
                generalize traversePath path (stackTree vals) = Y
                intro h2
                cases Y with
                | error e => simp only []; exact h2.cast
                | ok q =>
                  obtain ⟨cost, node⟩ := q
                  simp only []
                  rw [newPair_eq c hp]
                  by_cases hfull : c.pairs + c.ghostPairs = Gen.maxNumPairs
                  · rw [if_pos hfull]; trivial
                  · rw [if_neg hfull]
                    simp only []
                    have hkl : (rest.drop k).length < n := by
                      have : (rest.drop k).length ≤ rest.length := by simp
                      omega
                    rw [← stackTree_snoc]
                    apply ihn _ hkl _ rfl
                    · simpa [okOps] using hok
                    · unfold PairInv at *; show c.pairs + 1 + c.ghostPairs ≤ _; omega
            · have h1 := parseAtom_noPanic rest b c
              revert h1
              cases hpa : parseAtom rest b c with
              | error e => intro h; simp only []; exact h.cast
              | ok r =>
                obtain ⟨k, t, c1⟩ := r
                intro _
                simp only []
                rcases parseAtom_sim rest b c c (SameTotals.refl c) with ⟨e, he, _⟩ | ⟨k', t', c1', _, he, _, _, q1, q2, _, _⟩
                · rw [hpa] at he; cases he
                · rw [hpa] at he; cases he
                  have hp1 : PairInv c1 := by unfold PairInv at *; omega
                  rw [newPair_eq c1 hp1]
                  by_cases hfull : c1.pairs + c1.ghostPairs = Gen.maxNumPairs
                  · rw [if_pos hfull]; trivial
                  · rw [if_neg hfull]
                    simp only []
                    have hkl : (rest.drop k).length < n := by
                      have : (rest.drop k).length ≤ rest.length := by simp
                      omega
                    rw [← stackTree_snoc]
                    apply ihn _ hkl _ rfl
                    · simpa [okOps] using hok
                    · unfold PairInv at *; show c1.pairs + 1 + c1.ghostPairs ≤ _; omega
      | cons =>
        obtain ⟨h2, hok'⟩ := hok
        unfold deBrOld
        rcases eq_nil_or_snoc vals with hv | ⟨init, right, hv⟩
        · subst hv; simp at h2
        · subst hv
          rcases eq_nil_or_snoc init with hv2 | ⟨init2, left, hv2⟩
          · subst hv2; simp at h2
          · subst hv2
            simp only [stackTree_snoc]
            rw [newPair_eq c hp]
            by_cases hfull : c.pairs + c.ghostPairs = Gen.maxNumPairs
            · rw [if_pos hfull]; trivial
            · rw [if_neg hfull]
              simp only []
              have hpa : PairInv { c with pairs := c.pairs + 1 } := by
                unfold PairInv at *; show c.pairs + 1 + c.ghostPairs ≤ _; omega
              rw [newPair_eq _ hpa]
              have e1 : ({ c with pairs := c.pairs + 1 } : Ctr).pairs + ({ c with pairs := c.pairs + 1 } : Ctr).ghostPairs
                = c.pairs + 1 + c.ghostPairs := rfl
              rw [e1]
              by_cases hfull2 : c.pairs + 1 + c.ghostPairs = Gen.maxNumPairs
              · rw [if_pos hfull2]; trivial
              · rw [if_neg hfull2]
                simp only []
                rw [← stackTree_snoc]
                apply iho
                · simp only [List.length_append, List.length_cons, List.length_nil] at hok' ⊢
                  have : init2.length + 0 + 1 + (0 + 1) - 1 = init2.length + (0 + 1) := by omega
                  rw [this] at hok'; exact hok'
                · unfold PairInv at *; show c.pairs + 1 + 1 + c.ghostPairs ≤ _; omega

end Clvm.Backref
