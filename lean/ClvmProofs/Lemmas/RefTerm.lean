/-
C01: the operators of the implementation model do not look at the terminator of their argument
list (they walk it with `Allocator::next`, which stops at any atom).  Needed for the lenient reading
of operand lists: in the `((X) . operands)` form the operand list reaches the operator unevaluated
and may end in a non-nil atom; the adapted reference (`Adapter.lenientOperandLists`) truncates it.
-/
import ClvmProofs.Lemmas.RefBase
import ClvmModel.Proto.Ref

namespace Clvm.Ref
open Clvm Clvm.Interp Clvm.Alloc

/-- the argument list with its terminator replaced by nil -/
def truncV : Val → Val
  | .pair f r => .pair f (truncV r)
  | .atom _ _ => Val.nil

theorem argList_truncV (a : Val) : argList (truncV a) = argList a := by
  induction a with
  | atom b i => rfl
  | pair f r _ ih => simp [truncV, argList, ih]

theorem truncV_erase (a : Val) : (truncV a).erase = truncateList a.erase := by
  induction a with
  | atom b i => rfl
  | pair f r _ ih => simp [truncV, Val.erase, truncateList, ih]

theorem truncV_wf {a : Val} (h : a.wf = true) : (truncV a).wf = true := by
  induction a with
  | atom b i => exact nil_wf
  | pair f r _ ih =>
    simp only [Val.wf, Bool.and_eq_true] at h
    simp [truncV, Val.wf, h.1, ih h.2]

theorem truncV_proper (a : Val) : valTerminator (truncV a) = [] := by
  induction a with
  | atom b i => rfl
  | pair f r _ ih => simpa [truncV, valTerminator] using ih

theorem matchArgs_truncV (n : Nat) (a : Val) : matchArgs n (truncV a) = matchArgs n a := by
  unfold matchArgs; rw [argList_truncV]
theorem getArgs_truncV (n : Nat) (a : Val) (s : String) : getArgs n (truncV a) s = getArgs n a s := by
  unfold getArgs; rw [matchArgs_truncV]
theorem getArgs1_truncV (a : Val) (s : String) : getArgs1 (truncV a) s = getArgs1 a s := by
  unfold getArgs1; rw [getArgs_truncV]
theorem getArgs2_truncV (a : Val) (s : String) : getArgs2 (truncV a) s = getArgs2 a s := by
  unfold getArgs2; rw [getArgs_truncV]
theorem getArgs3_truncV (a : Val) (s : String) : getArgs3 (truncV a) s = getArgs3 a s := by
  unfold getArgs3; rw [getArgs_truncV]
theorem getVarargs_truncV (n : Nat) (a : Val) (s : String) : getVarargs n (truncV a) s = getVarargs n a s := by
  unfold getVarargs; rw [argList_truncV]

/-- an operator does not look at the terminator of its argument list -/
def TermIndep (f : OpFn) : Prop := ∀ (F m : Nat) (a : Val) (c : Ctr), f F m (truncV a) c = f F m a c

theorem ti_if : TermIndep (Interp.opIf) := fun F m a c => by unfold Interp.opIf; rw [getArgs3_truncV]
theorem ti_cons : TermIndep (Interp.opCons) := fun F m a c => by unfold Interp.opCons; rw [getArgs2_truncV]
theorem ti_first : TermIndep (Interp.opFirst) := fun F m a c => by unfold Interp.opFirst; rw [getArgs1_truncV]
theorem ti_rest : TermIndep (Interp.opRest) := fun F m a c => by unfold Interp.opRest; rw [getArgs1_truncV]
theorem ti_listp : TermIndep (Interp.opListp) := fun F m a c => by unfold Interp.opListp; rw [getArgs1_truncV]
theorem ti_raise : TermIndep (Interp.opRaise) := fun F m a c => rfl
theorem ti_eq : TermIndep (Interp.opEq) := fun F m a c => by unfold Interp.opEq; rw [getArgs2_truncV]
theorem ti_grBytes : TermIndep (Interp.opGrBytes) := fun F m a c => by unfold Interp.opGrBytes; rw [getArgs2_truncV]
theorem ti_strlen : TermIndep (Interp.opStrlen) := fun F m a c => by unfold Interp.opStrlen; rw [getArgs1_truncV]
theorem ti_substr : TermIndep (Interp.opSubstr) := fun F m a c => by unfold Interp.opSubstr; rw [getVarargs_truncV]
theorem ti_concat : TermIndep (Interp.opConcat) := fun F m a c => by unfold Interp.opConcat; rw [argList_truncV]
theorem ti_div : TermIndep (Interp.opDiv) := fun F m a c => by
  unfold Interp.opDiv opDivWith divPrologue; simp only [getArgs2_truncV]
theorem ti_divmod : TermIndep (Interp.opDivmod) := fun F m a c => by
  unfold Interp.opDivmod opDivmodWith divPrologue; simp only [getArgs2_truncV]
theorem ti_gr (cfg : Cfg) : TermIndep (Interp.opGr cfg) := fun F m a c => by unfold Interp.opGr; rw [getArgs2_truncV]
theorem ti_ash : TermIndep (Interp.opAsh) := fun F m a c => by unfold Interp.opAsh; rw [getArgs2_truncV]
theorem ti_lsh : TermIndep (Interp.opLsh) := fun F m a c => by unfold Interp.opLsh; rw [getArgs2_truncV]
theorem ti_binop (n : String) (i : Int) (f : Int → Int → Int) : TermIndep (Interp.binopReduction n i f) := fun F m a c => by
  unfold Interp.binopReduction; rw [argList_truncV]
theorem ti_lognot : TermIndep (Interp.opLognot) := fun F m a c => by unfold Interp.opLognot; rw [getArgs1_truncV]
theorem ti_not : TermIndep (Interp.opNot) := fun F m a c => by unfold Interp.opNot; rw [getArgs1_truncV]
theorem ti_any : TermIndep (Interp.opAny) := fun F m a c => by unfold Interp.opAny; rw [argList_truncV]
theorem ti_all : TermIndep (Interp.opAll) := fun F m a c => by unfold Interp.opAll; rw [argList_truncV]
theorem ti_add (cfg : Cfg) : TermIndep (Interp.opAdd cfg) := fun F m a c => by unfold Interp.opAdd; simp only [argList_truncV]
theorem ti_sub (cfg : Cfg) : TermIndep (Interp.opSubtract cfg) := fun F m a c => by unfold Interp.opSubtract; simp only [argList_truncV]
theorem ti_mul (cfg : Cfg) : TermIndep (Interp.opMultiply cfg) := fun F m a c => by unfold Interp.opMultiply; simp only [argList_truncV]
theorem ti_unknown (op : Bytes) : TermIndep (Interp.opUnknown op) := fun F m a c => by unfold Interp.opUnknown; simp only [argList_truncV]
theorem ti_sha256 (cfg : Cfg) : TermIndep (Interp.opSha256 cfg) := fun F m a c => by
  cases a with
  | pair f r =>
    unfold Interp.opSha256
    simp only [truncV, Val.isNilPtr, Bool.false_eq_true, if_false]
    rw [← truncV, matchArgs_truncV, argList_truncV]
  | atom b i =>
    unfold Interp.opSha256
    simp only [truncV]
    have hn : Val.nil.isNilPtr = true := rfl
    simp only [hn, if_true]
    by_cases hp : (Val.atom b i).isNilPtr = true
    · simp only [hp, if_true]
    · simp only [hp, Bool.false_eq_true, if_false]
      have hm : matchArgs 2 (Val.atom b i) = none := rfl
      simp only [hm]
      cases cfg.fastpath <;> simp [argList, sha256Loop]

theorem ti_mod : TermIndep Interp.opMod := fun F m a c => by
  unfold Interp.opMod opModWith divPrologue; simp only [getArgs2_truncV]
theorem ti_modpow : TermIndep Interp.opModpow := fun F m a c => by
  unfold Interp.opModpow opModpowWith; simp only [getArgs3_truncV]

/-- every operator function of the core table -/
theorem coreOps_ti {name : String} {f : OpFn} (h : coreOpByName {} name = some f) : TermIndep f := by
  unfold coreOpByName at h
  split at h <;> cases h <;> first
    | exact ti_if | exact ti_cons | exact ti_first | exact ti_rest | exact ti_listp | exact ti_raise
    | exact ti_eq | exact ti_grBytes | exact ti_sha256 _ | exact ti_substr | exact ti_strlen
    | exact ti_concat | exact ti_add _ | exact ti_sub _ | exact ti_mul _ | exact ti_div | exact ti_divmod
    | exact ti_gr _ | exact ti_ash | exact ti_lsh | exact ti_binop _ _ _ | exact ti_lognot | exact ti_not
    | exact ti_any | exact ti_all | exact ti_modpow | exact ti_mod

theorem unknownOperator_ti (ob : Bytes) (a : Val) (F m : Nat) (c : Ctr) :
    unknownOperator ob (truncV a) F m c = unknownOperator ob a F m c := by
  unfold unknownOperator; rw [ti_unknown ob F m a c]

/-- the closure `call` of `ChiaDialect::op` -/
def callWith (fl m : Nat) (c : Ctr) (args : Val) (name : String) : Option (Except Err (Nat × Val × Ctr)) :=
  match coreOpByName {} name with
  | some f => some (f fl m args c)
  | none =>
    match Proto.noExtra name with
    | some f => some (f fl m args c)
    | none => none

theorem callWith_ti (fl m : Nat) (c : Ctr) (a : Val) (name : String) :
    callWith fl m c (truncV a) name = callWith fl m c a name := by
  unfold callWith
  cases hc : coreOpByName {} name with
  | none => rfl
  | some f => simp only; rw [coreOps_ti hc fl m a c]

/-- `ChiaDialect::op` with the closure named -/
def chiaOpAlt (dflags : Nat) (o args : Val) (maxCost : Nat) (ext : OperatorSet) (c : Ctr) :
    Option (Except Err (Nat × Val × Ctr)) :=
  let flags := dflags ||| (match ext with
    | .Default => 0
    | .Bls => 0
    | .Keccak => Gen.FLAG_ENABLE_KECCAK_OPS_OUTSIDE_GUARD
    | .PreHardFork => Gen.FLAG_ENABLE_KECCAK_OPS_OUTSIDE_GUARD)
  match o with
  | .pair _ _ => some (.error (.Panic "atom_len on pair"))
  | .atom ob _ =>
    if ob.length == 4 then
      match Gen.chiaOp4Table.find? (fun e => e.1 == beNat ob) with
      | some (_, name) => callWith flags maxCost c args name
      | none => some (unknownOperator ob args flags maxCost c)
    else if ob.length != 1 then some (unknownOperator ob args flags maxCost c)
    else
      match smallNumber o with
      | none => some (unknownOperator ob args flags maxCost c)
      | some op =>
        match lookupOp Gen.chiaOpTable op with
        | some (name, req) =>
          if req != 0 && !hasFlag flags req then some (unknownOperator ob args flags maxCost c)
          else if name == "op_modpow" && hasFlag flags Gen.FLAG_DISABLE_OP && !newModel flags then
            some (.error .Unimplemented)
          else callWith flags maxCost c args name
        | none => some (unknownOperator ob args flags maxCost c)

theorem chiaOp_alt (F : Nat) (o a : Val) (m : Nat) (ext : OperatorSet) (c : Ctr) :
    chiaOp {} Proto.noExtra F o a m ext c = chiaOpAlt F o a m ext c := by
  unfold chiaOp chiaOpAlt callWith
  cases o <;> rfl

/-- `ChiaDialect::op` does not look at the terminator of the argument list -/
theorem chiaOp_ti (o a : Val) (F m : Nat) (ext : OperatorSet) (c : Ctr) :
    chiaOp {} Proto.noExtra F o (truncV a) m ext c = chiaOp {} Proto.noExtra F o a m ext c := by
  rw [chiaOp_alt, chiaOp_alt]
  unfold chiaOpAlt
  simp only [unknownOperator_ti, callWith_ti]

end Clvm.Ref
