/-
C19, faithful model, part 2: the lock-step search of `find_path` is sound for any state whose parent
links are true child relations of a content assignment `C : entry index → Tree` (`findPath_sound`).
-/
import ClvmProofs.Lemmas.TreeCachePath

namespace Clvm.TreeCacheProofs
open Clvm Clvm.Serde Clvm.Serde.TraversePath Clvm.Serde.TreeCache Clvm.Backref

/-- the decoder's value stack for a parse stack given top first -/
def mirror (C : Nat → Tree) : List Nat → Tree
  | [] => Tree.nil
  | i :: r => Tree.pair (C i) (mirror C r)

/-- every recorded parent link is a true child relation -/
def ParentsSound (C : Nat → Tree) (tc : TC) : Prop :=
  ∀ (X : Nat) (e : NodeEntry), tc.entries[X]? = some e → ∀ P d, (P, d) ∈ e.parents → child (C P) d = some (C X)

theorem mirror_drop (C : Nat → Tree) : ∀ (st : List Nat) (sp idx : Nat), st[sp]? = some idx →
    mirror C (st.drop sp) = Tree.pair (C idx) (mirror C (st.drop (sp + 1))) := by
  intro st
  induction st with
  | nil => intro sp idx h; simp at h
  | cons x r ih =>
    intro sp idx h
    cases sp with
    | zero =>
      simp only [List.getElem?_cons_zero, Option.some.injEq] at h
      subst h; rfl
    | succ sp =>
      simp only [List.getElem?_cons_succ] at h
      simpa using ih sp idx h

theorem findIdx?_spec (idx : Nat) : ∀ (l : List Nat) (i : Nat), l.findIdx? (· == idx) = some i → l[i]? = some idx := by
  intro l
  induction l with
  | nil => intro i h; simp at h
  | cons x r ih =>
    intro i h
    rw [List.findIdx?_cons] at h
    by_cases hx : (x == idx) = true
    · simp only [hx, if_true, Option.some.injEq] at h
      subst h
      have : x = idx := by simpa using hx
      simp [this]
    · simp only [hx, Bool.false_eq_true, if_false, Option.map_eq_some_iff] at h
      obtain ⟨j, hj, rfl⟩ := h
      simpa using ih j hj

theorem posFromTop_spec {stack : List Nat} {idx sp : Nat} (h : posFromTop stack idx = some sp) :
    stack.reverse[sp]? = some idx := by
  unfold posFromTop at h
  cases hf : stack.reverse.findIdx? (· == idx) with
  | none => simp [hf] at h
  | some i =>
    simp only [hf, Option.some.injEq] at h
    subst h
    exact findIdx?_spec idx _ _ hf

/-- a partial path of the search is *good* for the target entry `tgt`: what it has collected, together
with where it stands, is a walk to the target's content -/
def GoodPP (C : Nat → Tree) (st : List Nat) (tgt : Nat) (pp : PP) : Prop :=
  pp.path.len = pp.path.rev.length ∧
  if 0 ≤ pp.stackPos then
    pp.stackPos.toNat ≤ st.length ∧
    ∃ walk, pp.path.rev = walk ++ [true] ∧ follow walk (mirror C (st.drop pp.stackPos.toNat)) = some (C tgt)
  else
    ∃ dirs, pp.child :: pp.path.rev = dirs ++ [true] ∧ follow dirs (C pp.idx) = some (C tgt)

def AllGood (C : Nat → Tree) (st : List Nat) (tgt : Nat) (pps : Array PP) : Prop :=
  ∀ (j : Nat) (pp : PP), pps[j]? = some pp → GoodPP C st tgt pp

theorem allGood_set {C st tgt} {pps : Array PP} {i : Nat} {x : PP} (h : AllGood C st tgt pps) (hx : GoodPP C st tgt x) :
    AllGood C st tgt (pps.set! i x) := by
  intro j pp hj
  rw [Array.set!, Array.getElem?_setIfInBounds] at hj
  split at hj
  · split at hj
    · simp only [Option.some.injEq] at hj; subst hj; exact hx
    · cases hj
  · exact h j pp hj

theorem allGood_push {C st tgt} {pps : Array PP} {x : PP} (h : AllGood C st tgt pps) (hx : GoodPP C st tgt x) :
    AllGood C st tgt (pps.push x) := by
  intro j pp hj
  rw [Array.getElem?_push] at hj
  split at hj
  · simp only [Option.some.injEq] at hj; subst hj; exact hx
  · exact h j pp hj

/-- removing index `i`: everything that remains was somewhere else before -/
theorem allGood_swapRemove {C st tgt} {pps : Array PP} {i : Nat}
    (h : ∀ (j : Nat) (pp : PP), j ≠ i → pps[j]? = some pp → GoodPP C st tgt pp) (hi : i < pps.size) :
    AllGood C st tgt (swapRemove pps i) := by
  intro j pp hj
  unfold swapRemove at hj
  rw [Array.back?_eq_getElem?] at hj
  cases hb : pps[pps.size - 1]? with
  | none =>
    have : pps.size - 1 < pps.size := by omega
    rw [Array.getElem?_eq_getElem this] at hb; cases hb
  | some last =>
    simp only [hb] at hj
    split at hj
    · rw [Array.set!, Array.getElem?_setIfInBounds] at hj
      split at hj
      · split at hj
        · simp only [Option.some.injEq] at hj; subst hj
          exact h (pps.size - 1) _ (by omega) hb
        · cases hj
      · rw [Array.getElem?_pop] at hj
        split at hj
        · rename_i hne _
          exact h j pp (fun e => hne e.symm) hj
        · cases hj
    · rw [Array.getElem?_pop] at hj
      split at hj
      · exact h j pp (by omega) hj
      · cases hj

/-- all elements are good, except possibly the one at the cursor (good only if `cg`) -/
def GoodExcept (C : Nat → Tree) (st : List Nat) (tgt : Nat) (pps : Array PP) (cursor : Nat) (cg : Prop) : Prop :=
  ∀ (j : Nat) (pp : PP), (j ≠ cursor ∨ cg) → pps[j]? = some pp → GoodPP C st tgt pp

theorem goodExcept_push {C st tgt} {pps : Array PP} {cursor : Nat} {cg : Prop} {x : PP}
    (h : GoodExcept C st tgt pps cursor cg) (hx : GoodPP C st tgt x) : GoodExcept C st tgt (pps.push x) cursor cg := by
  intro j pp hj hjj
  rw [Array.getElem?_push] at hjj
  split at hjj
  · simp only [Option.some.injEq] at hjj; subst hjj; exact hx
  · exact h j pp hj hjj

theorem pushRemaining_good {C st tgt} (seen : BitSet) (cur : PathB) (idx : Nat) (dirs : List Bool) (cursor : Nat) (cg : Prop)
    (hcur : cur.len = cur.rev.length) (hrev : cur.rev = dirs ++ [true]) (hfol : follow dirs (C idx) = some (C tgt)) :
    ∀ (ps : List (Nat × Bool)) (a a' : Array PP), (∀ P d, (P, d) ∈ ps → child (C P) d = some (C idx)) →
      GoodExcept C st tgt a cursor cg → pushRemaining seen cur ps a = .ok a' →
      GoodExcept C st tgt a' cursor cg ∧ a.size ≤ a'.size := by
  intro ps
  induction ps with
  | nil =>
    intro a a' _ ha h
    simp only [pushRemaining, Except.ok.injEq] at h
    subst h; exact ⟨ha, Nat.le_refl _⟩
  | cons pc r ih =>
    intro a a' hps ha h
    obtain ⟨P, c⟩ := pc
    unfold pushRemaining at h
    cases hv : seen.isVisited P with
    | error e => simp [hv] at h
    | ok b =>
      cases b with
      | true =>
        simp only [hv] at h
        exact ih a a' (fun P' d' hm => hps P' d' (List.mem_cons_of_mem _ hm)) ha h
      | false =>
        simp only [hv] at h
        have hg : GoodPP C st tgt { path := cur, stackPos := -1, idx := P, child := c } := by
          refine ⟨hcur, ?_⟩
          have hneg : ¬ (0 : Int) ≤ -1 := by decide
          simp only [hneg, if_false]
          refine ⟨c :: dirs, by simp [hrev], ?_⟩
          simp only [follow, hps P c List.mem_cons_self]
          exact hfol
        obtain ⟨i1, i2⟩ := ih _ a' (fun P' d' hm => hps P' d' (List.mem_cons_of_mem _ hm)) (goodExcept_push ha hg) h
        exact ⟨i1, by simp only [Array.size_push] at i2; omega⟩

theorem forks_good {C : Nat → Tree} {tc : TC} {tgt : Nat} (seen : BitSet) (path : PathB) (idx onStack : Nat)
    (dirs : List Bool) (cursor : Nat) (cg : Prop)
    (hcur : path.len = path.rev.length) (hrev : path.rev = dirs ++ [true]) (hfol : follow dirs (C idx) = some (C tgt))
    (remaining : List (Nat × Bool)) (hrem : ∀ P d, (P, d) ∈ remaining → child (C P) d = some (C idx))
    (a a' : Array PP) (ha : GoodExcept C tc.stack.reverse tgt a cursor cg)
    (h : forks tc seen path idx onStack remaining a = .ok a') :
    GoodExcept C tc.stack.reverse tgt a' cursor cg ∧ a.size ≤ a'.size := by
  unfold forks at h
  split at h
  · cases hpr : pushRemaining seen path remaining a with
    | error e => simp [hpr] at h
    | ok a1 =>
      simp only [hpr] at h
      obtain ⟨g1, s1⟩ := pushRemaining_good seen path idx dirs cursor cg hcur hrev hfol remaining a a1 hrem ha hpr
      split at h
      · cases hpos : posFromTop tc.stack idx with
        | none => simp [hpos] at h
        | some sp =>
          simp only [hpos, Except.ok.injEq] at h
          subst h
          have hst := posFromTop_spec hpos
          have hlt : sp < tc.stack.reverse.length := by
            by_cases hc : sp < tc.stack.reverse.length
            · exact hc
            · rw [List.getElem?_eq_none (by omega)] at hst; cases hst
          refine ⟨goodExcept_push g1 ?_, by simp only [Array.size_push]; omega⟩
          refine ⟨by simp [PathB.push, hcur], ?_⟩
          have hpos' : (0 : Int) ≤ Int.ofNat sp := Int.natCast_nonneg sp
          simp only [hpos', if_true]
          have htn : (Int.ofNat sp).toNat = sp := rfl
          rw [htn]
          refine ⟨by omega, false :: dirs, by simp [PathB.push, hrev], ?_⟩
          rw [mirror_drop C _ _ _ hst]
          simpa [follow, child] using hfol
      · simp only [Except.ok.injEq] at h
        subst h; exact ⟨g1, s1⟩
  · simp only [Except.ok.injEq] at h
    subst h; exact ⟨ha, Nat.le_refl _⟩

theorem selectParent_spec (p : PP) (path : PathB) (parents : List (Nat × Bool)) (fp : Option Nat) :
    ((selectParent p path parents fp).2.2 = true → ∃ pi pc, (pi, pc) ∈ parents ∧
      (selectParent p path parents fp).1 = { p with path := path, idx := pi, child := pc }) ∧
    ∀ x, x ∈ (selectParent p path parents fp).2.1 → x ∈ parents := by
  unfold selectParent
  cases fp with
  | none => simp
  | some i =>
    simp only []
    cases hpi : parents[i]? with
    | none => simp
    | some pc =>
      obtain ⟨pi, pcc⟩ := pc
      exact ⟨fun _ => ⟨pi, pcc, List.mem_of_getElem? hpi, rfl⟩, fun x hm => List.mem_of_mem_drop hm⟩

/-- **soundness of the search loop** -/
theorem fpLoop_sound (C : Nat → Tree) (tc : TC) (hps : ParentsSound C tc) (tgt limit : Nat) :
    ∀ (fuel : Nat) (pps : Array PP) (cursor curLen : Nat) (seen : BitSet) (ret : PathB),
      AllGood C tc.stack.reverse tgt pps →
      fpLoop tc limit fuel pps cursor curLen seen = .ok (some ret) →
      ret.len = ret.rev.length ∧
      ∃ walk, ret.rev = walk ++ [true] ∧ follow walk (mirror C tc.stack.reverse) = some (C tgt) := by
  intro fuel
  induction fuel with
  | zero => intro pps cursor curLen seen ret _ h; simp [fpLoop] at h
  | succ fuel ih =>
    intro pps cursor curLen seen ret hall h
    unfold fpLoop at h
    split at h
    · cases h
    · split at h
      · cases h
      · cases hp : pps[cursor]? with
        | none => simp [hp] at h
        | some p =>
          simp only [hp] at h
          have hgp := hall cursor p hp
          have hcur : cursor < pps.size := by
            by_cases hc : cursor < pps.size
            · exact hc
            · rw [Array.getElem?_eq_none (by omega)] at hp; cases hp
          split at h
          · exact ih _ _ _ _ _ hall h
          · split at h
            · -- traversing the stack
              rename_i hsp
              obtain ⟨hlen, hg⟩ := hgp
              rw [if_pos hsp] at hg
              obtain ⟨hle, walk, hrev, hfol⟩ := hg
              split at h
              · rename_i h0
                have h0' : p.stackPos = 0 := by simpa using h0
                simp only [Except.ok.injEq, Option.some.injEq] at h
                subst h
                rw [h0'] at hfol
                exact ⟨hlen, walk, hrev, by simpa using hfol⟩
              · rename_i h0
                have h0' : p.stackPos ≠ 0 := by simpa using h0
                refine ih _ _ _ _ _ (allGood_set hall ?_) h
                refine ⟨by simp [PathB.push, hlen], ?_⟩
                have hpos : (0 : Int) ≤ p.stackPos - 1 := by omega
                simp only [hpos, if_true]
                have hn : (p.stackPos - 1).toNat + 1 = p.stackPos.toNat := by omega
                refine ⟨by omega, true :: walk, by simp [PathB.push, hrev], ?_⟩
                have hlt : (p.stackPos - 1).toNat < tc.stack.reverse.length := by omega
                obtain ⟨x, hx⟩ : ∃ x, tc.stack.reverse[(p.stackPos - 1).toNat]? = some x :=
                  ⟨_, List.getElem?_eq_getElem hlt⟩
                rw [mirror_drop C _ _ x hx, hn]
                simpa [follow, child] using hfol
            · -- traversing the tree
              rename_i hsp
              obtain ⟨hlen, hg⟩ := hgp
              rw [if_neg hsp] at hg
              obtain ⟨dirs, hD, hfol⟩ := hg
              cases hv : seen.visit p.idx with
              | error e => simp [hv] at h
              | ok vr =>
                obtain ⟨was, seen'⟩ := vr
                cases was with
                | true =>
                  simp only [hv] at h
                  exact ih _ _ _ _ _ (allGood_swapRemove (fun j pp _ hj => hall j pp hj) hcur) h
                | false =>
                  simp only [hv] at h
                  cases he : tc.entries[p.idx]? with
                  | none => simp [he] at h
                  | some entry =>
                    simp only [he] at h
                    cases hfu : firstUnseen seen' entry.parents 0 with
                    | error e => simp [hfu] at h
                    | ok fp =>
                      simp only [hfu] at h
                      have hplen : (p.path.push p.child).len = (p.path.push p.child).rev.length := by
                        simp [PathB.push, hlen]
                      have hprev : (p.path.push p.child).rev = dirs ++ [true] := by
                        simpa [PathB.push] using hD
                      obtain ⟨hs1, hs2⟩ := selectParent_spec p (p.path.push p.child) entry.parents fp
                      generalize selectParent p (p.path.push p.child) entry.parents fp = sel at h hs1 hs2
                      cases hfk : forks tc seen' (p.path.push p.child) p.idx entry.onStack sel.2.1 (pps.set! cursor sel.1) with
                      | error e => rw [hfk] at h; cases h
                      | ok pps2 =>
                        rw [hfk] at h
                        simp only [] at h
                        have hbase : GoodExcept C tc.stack.reverse tgt (pps.set! cursor sel.1) cursor (sel.2.2 = true) := by
                          intro j pp hj hjj
                          rw [Array.set!, Array.getElem?_setIfInBounds] at hjj
                          by_cases hcj : cursor = j
                          · rw [if_pos hcj, if_pos hcur] at hjj
                            rcases hj with hj | hj
                            · exact absurd hcj.symm hj
                            · simp only [Option.some.injEq] at hjj; subst hjj
                              obtain ⟨pi, pc, hmem, heq⟩ := hs1 hj
                              rw [heq]
                              refine ⟨hplen, ?_⟩
                              simp only [hsp, if_false]
                              refine ⟨pc :: dirs, by simp [hprev], ?_⟩
                              simp only [follow, hps p.idx entry he pi pc hmem]
                              exact hfol
                          · rw [if_neg hcj] at hjj
                            exact hall j pp hjj
                        obtain ⟨hk1, hk2⟩ := forks_good seen' (p.path.push p.child) p.idx entry.onStack dirs cursor
                          (sel.2.2 = true) hplen hprev hfol sel.2.1
                          (fun P d hm => hps p.idx entry he P d (hs2 (P, d) hm)) _ pps2 hbase hfk
                        have hsz : (pps.set! cursor sel.1).size = pps.size := by simp [Array.set!]
                        split at h
                        · rename_i hused
                          exact ih _ _ _ _ _ (fun j pp hj => hk1 j pp (.inr hused) hj) h
                        · exact ih _ _ _ _ _ (allGood_swapRemove (fun j pp hne hj => hk1 j pp (.inl hne) hj) (by omega)) h

/-- **`find_path` is sound**: for a state whose parent links are true child relations of `C`, a path
returned for a node whose entry has content `C idx` is walked by `traverse_path`, on the mirror of the
parse stack, to that content -/
theorem findPath_sound (C : Nat → Tree) (tc : TC) (hps : ParentsSound C tc) (node : Node) (path : Bytes)
    (h : tc.findPath node = .ok (some path)) :
    ∃ idx, alGet tc.nodeMap node.key = some idx ∧
      ∃ cost, traversePath path (mirror C tc.stack.reverse) = .ok (cost, C idx) := by
  unfold TC.findPath at h
  split at h
  · cases h
  · cases hn : alGet tc.nodeMap node.key with
    | none => simp [hn] at h
    | some idx =>
      simp only [hn] at h
      refine ⟨idx, rfl, ?_⟩
      cases hv : tc.serializedNodes.isVisited idx with
      | error e => simp [hv] at h
      | ok b =>
        cases b with
        | false => simp [hv] at h
        | true =>
          simp only [hv] at h
          cases he : tc.entries[idx]? with
          | none => simp [he] at h
          | some entry =>
            simp only [he] at h
            split at h
            · cases h
            · split at h
              · cases h
              · cases hl : fpLoop tc (min ((entry.serializedLength - 1) * 8) (2 ^ 64 - 1))
                    (findPathFuel tc (min ((entry.serializedLength - 1) * 8) (2 ^ 64 - 1)))
                    #[{ path := PathB.empty, stackPos := -1, idx := idx, child := true }] 0 0 (BitSet.new tc.entries.size) with
                | error e => simp [hl] at h
                | ok o =>
                  cases o with
                  | none => simp [hl] at h
                  | some ret =>
                    simp only [hl] at h
                    split at h
                    · cases h
                    · simp only [Except.ok.injEq, Option.some.injEq] at h
                      subst h
                      have hinit : AllGood C tc.stack.reverse idx
                          #[{ path := PathB.empty, stackPos := -1, idx := idx, child := true }] := by
                        intro j pp hj
                        have : j = 0 := by
                          by_cases h0 : j = 0
                          · exact h0
                          · rw [Array.getElem?_eq_none (by simp; omega)] at hj; cases hj
                        subst this
                        simp only [List.getElem?_toArray, List.getElem?_cons_zero, Option.some.injEq] at hj
                        subst hj
                        refine ⟨rfl, ?_⟩
                        have hneg : ¬ (0 : Int) ≤ -1 := by decide
                        simp only [hneg, if_false]
                        exact ⟨[], rfl, rfl⟩
                      obtain ⟨rl, walk, hrev, hfol⟩ := fpLoop_sound C tc hps idx _ _ _ _ _ _ ret hinit hl
                      exact done_traverse ret walk _ _ rl hrev hfol

end Clvm.TreeCacheProofs
