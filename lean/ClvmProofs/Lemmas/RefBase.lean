/-
C01, layer 0: how an outcome of the interpreter model is compared with an outcome of the reference
(`Clvm.Ref`), and the structural lemmas both sides' argument readers rest on.
-/
import ClvmModel.Spec.Ref
import ClvmModel.Interp.Machine
import ClvmProofs.Lemmas.PyCasts
import ClvmProofs.Lemmas.Interp.Fastpath

namespace Clvm.Ref
open Clvm Clvm.Interp Clvm.Alloc

/-- the class of the reference (`RefErr`) an `EvalErr` kind corresponds to -/
def errClass : Err → RefErr
  | .CostExceeded => .cost
  | .PathIntoAtom => .path
  | .Raise => .raise
  | .InvalidOpArg _ => .arg
  | .InvalidNilTerminator => .arg
  | .DivisionByZero => .div0
  | .ShiftTooLarge => .shift
  | .Reserved => .reserved
  | .Invalid => .invalid
  | .SoftforkCostMismatch => .softfork
  | .UnknownSoftforkExtension => .softfork
  | .SoftforkStackDepthExceeded => .softfork
  | .ValueStackLimitReached => .stack
  | .EnvironmentStackLimitReached => .stack
  | _ => .internal

/-- allocator limits of the implementation (atoms, pairs, heap): the reference has none.
Reaching one is an implementation resource limit, not a semantic difference; every per-operator
theorem lists it as a separate possibility. -/
def isLimit : Err → Bool
  | .TooManyAtoms => true
  | .TooManyPairs => true
  | .OutOfMemory => true
  | _ => false

/-- **Agreement of one operator call.**  `mo` is the outcome of the model operator called with
remaining budget `m`, `ro` the outcome of the reference operator (which does not see a budget).

* reference succeeds with `(c, t)`: the model returns the same cost and a value that erases to `t`
  (and is well-formed), *or* `c` exceeds the budget and the model gave up with `CostExceeded`
  (`Adapter.costCheckOrder`: the main loop of the reference raises "cost exceeded" right after),
  *or* the model hit an allocator limit;
* reference fails with class `e`: the model fails — with an error of the same class, or with
  `CostExceeded` (it gave up before it got to the argument that is at fault), or on a limit.
In particular the model never succeeds with a different cost or value, and never succeeds when
the reference fails. -/
def OpAgree (m : Nat) (mo : Except Err (Nat × Val × Ctr)) (ro : Res) : Prop :=
  match ro with
  | .ok (c, t) =>
    (∃ v ctr, mo = .ok (c, v, ctr) ∧ v.erase = t ∧ v.wf = true) ∨
    (m < c ∧ mo = .error .CostExceeded) ∨
    (∃ e, mo = .error e ∧ isLimit e = true)
  | .error e =>
    ∃ e', mo = .error e' ∧ (errClass e' = e ∨ e' = .CostExceeded ∨ isLimit e' = true)

theorem OpAgree.ok {m c : Nat} {v : Val} {ctr : Ctr} {t : Tree} (he : v.erase = t) (hw : v.wf = true) :
    OpAgree m (.ok (c, v, ctr)) (.ok (c, t)) := Or.inl ⟨v, ctr, rfl, he, hw⟩

theorem OpAgree.err {m : Nat} {e' : Err} {e : RefErr} (h : errClass e' = e) :
    OpAgree m (.error e') (.error e) := ⟨e', rfl, Or.inl h⟩

/-! ### spines -/

/-- the elements of a tree read as a list, up to the first atom -/
def spine : Tree → List Tree
  | .pair f r => f :: spine r
  | .atom _ => []

/-- the atom that ends the spine -/
def terminator : Tree → Bytes
  | .pair _ r => terminator r
  | .atom b => b

theorem listLen_eq (t : Tree) : listLen t = (spine t).length := by
  induction t with
  | atom b => rfl
  | pair l r _ ih => simp [listLen, spine, ih]

theorem asIter_eq (t : Tree) :
    asIter t = if (terminator t).isEmpty then .ok (spine t) else .error .arg := by
  induction t with
  | atom b => simp [asIter, terminator, spine]
  | pair l r _ ih =>
    simp only [asIter, terminator, spine, ih]
    by_cases h : (terminator r).isEmpty = true <;> simp [h]

theorem argList_erase (a : Val) : (argList a).map Val.erase = spine a.erase := by
  induction a with
  | atom b i => rfl
  | pair l r _ ih => simp [argList, Val.erase, spine, ih]

theorem argList_length (a : Val) : (argList a).length = listLen a.erase := by
  rw [listLen_eq, ← argList_erase, List.length_map]

theorem argList_cons {a x : Val} {l : List Val} (h : argList a = x :: l) :
    ∃ r, a = .pair x r ∧ argList r = l := by
  cases a with
  | atom b i => simp [argList] at h
  | pair f r => simp only [argList, List.cons.injEq] at h; exact ⟨r, by rw [h.1], h.2⟩

theorem argList_nil {a : Val} (h : argList a = []) : ∃ b i, a = .atom b i := by
  cases a with
  | atom b i => exact ⟨b, i, rfl⟩
  | pair f r => simp [argList] at h

/-- a value built by the evaluator always ends in nil; for `Val.ofTree` this is the tree's own
terminator -/
def valTerminator : Val → Bytes
  | .pair _ r => valTerminator r
  | .atom b _ => b

theorem valTerminator_erase (a : Val) : terminator a.erase = valTerminator a := by
  induction a with
  | atom b i => rfl
  | pair l r _ ih => simpa [Val.erase, terminator, valTerminator] using ih

/-! ### `matchArgs` / `getArgs` against `list_len` -/

theorem matchArgs_eq_if (n : Nat) (a : Val) :
    matchArgs n a = if listLen a.erase = n then some (argList a) else none := by
  unfold matchArgs
  simp only [argList_length]
  by_cases h : listLen a.erase = n <;> simp [h]

theorem getArgs_of_len {n : Nat} {a : Val} (name : String) (h : listLen a.erase = n) :
    getArgs n a name = .ok (argList a) := by
  unfold getArgs; rw [matchArgs_eq_if, if_pos h]

theorem getArgs_of_ne {n : Nat} {a : Val} (name : String) (h : listLen a.erase ≠ n) :
    ∃ msg, getArgs n a name = .error (.InvalidOpArg msg) := by
  unfold getArgs; rw [matchArgs_eq_if, if_neg h]; exact ⟨_, rfl⟩

/-! ### well-formedness and erasure of the values operators return -/

theorem nil_wf : Val.nil.wf = true := by decide
theorem one_wf : Val.one.wf = true := by decide
theorem nil_erase : Val.nil.erase = false_ := rfl
theorem one_erase : Val.one.erase = true_ := rfl

theorem mkAtom_wf (b : Bytes) : (Val.mkAtom b).wf = true := by
  unfold Val.mkAtom Val.newAtomTag
  cases h : (fitsInSmallAtom b).isSome <;> simp [Val.wf, h]

theorem mkAtom_erase (b : Bytes) : (Val.mkAtom b).erase = .atom b := rfl

theorem ofTree_wf (t : Tree) : (Val.ofTree t).wf = true := by
  induction t with
  | atom b => exact mkAtom_wf b
  | pair l r ihl ihr => simp [Val.ofTree, Val.wf, ihl, ihr]

theorem ofTree_erase (t : Tree) : (Val.ofTree t).erase = t := by
  induction t with
  | atom b => rfl
  | pair l r ihl ihr => simp [Val.ofTree, Val.erase, ihl, ihr]

theorem nilp_erase (a : Val) : nullp a.erase = a.nilp := by
  cases a <;> rfl

theorem isPair_erase (a : Val) : listp a.erase = a.isPair := by
  cases a <;> rfl

/-- `allocAtom`: succeeds with `mkAtom b` or fails on a limit -/
theorem allocAtom_cases (c : Ctr) (b : Bytes) :
    (∃ c', allocAtom c b = .ok (Val.mkAtom b, c')) ∨ (∃ e, allocAtom c b = .error e ∧ isLimit e = true) := by
  unfold allocAtom Ctr.newAtom Ctr.checkAtomLimit
  by_cases h1 : c.heap + b.length > c.heapLimit
  · right; exact ⟨.OutOfMemory, by simp [h1], rfl⟩
  · by_cases h2 : (c.atoms == Gen.maxNumAtoms) = true
    · right; exact ⟨.TooManyAtoms, by simp [h1, h2], rfl⟩
    · left; exact ⟨{ c with atoms := c.atoms + 1, heap := c.heap + b.length }, by simp [h1, h2]⟩

theorem allocPair_cases (c : Ctr) (l r : Val) :
    (∃ c', allocPair c l r = .ok (.pair l r, c')) ∨ (∃ e, allocPair c l r = .error e ∧ isLimit e = true) := by
  unfold allocPair Ctr.newPair
  by_cases h : c.pairs ≥ Gen.maxNumPairs
  · right; exact ⟨.TooManyPairs, by simp [h], rfl⟩
  · left; exact ⟨{ c with pairs := c.pairs + 1 }, by simp [h]⟩

/-- reading an atom as an integer: whatever the tag, value and length are those of the bytes -/
theorem intAtom_wf {b : Bytes} {i : Bool} (h : (Val.atom b i).wf = true) (name : String) :
    intAtom (.atom b i) name = .ok (decodeInt b, b.length) := by
  cases i with
  | false => rfl
  | true => simp only [intAtom]; rw [wfInl_len h, ← wfInl_decode h]

theorem intFromBytes_eq (b : Bytes) : intFromBytes b = decodeInt b :=
  Py.CastsLemmas.intFromBytes_eq_decodeInt b

theorem intToBytes_eq (v : Int) : intToBytes v = encodeInt v :=
  Py.CastsLemmas.intToBytes_eq_encodeInt v

end Clvm.Ref
