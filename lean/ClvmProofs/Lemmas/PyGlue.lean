/- helper lemmas for Props/C26.lean (bitwise facts about folds of `|||` and masks) -/
import ClvmModel.Py.Glue

namespace Clvm.Py.GlueLemmas

theorem foldl_or_testBit (fs : List Nat) (acc i : Nat) :
    (fs.foldl (fun a f => a ||| f) acc).testBit i = (acc.testBit i || fs.any (fun f => f.testBit i)) := by
  induction fs generalizing acc with
  | nil => simp
  | cons f fs ih => simp [List.foldl, ih, Nat.testBit_or, Bool.or_assoc]

theorem and_eq_of_sub {f m : Nat} (h : f &&& m = f) (w : Nat) :
    ((w &&& m) &&& f = f) ↔ (w &&& f = f) := by
  have hb : ∀ i, f.testBit i = true → m.testBit i = true := by
    intro i hi
    have := congrArg (fun x => x.testBit i) h
    simp only [Nat.testBit_and, hi, Bool.true_and] at this
    exact this
  constructor
  · intro h1
    apply Nat.eq_of_testBit_eq; intro i
    have := congrArg (fun x => x.testBit i) h1
    simp only [Nat.testBit_and] at this ⊢
    cases hf : f.testBit i <;> simp_all
  · intro h1
    apply Nat.eq_of_testBit_eq; intro i
    have := congrArg (fun x => x.testBit i) h1
    simp only [Nat.testBit_and] at this ⊢
    cases hf : f.testBit i
    · simp_all
    · have := hb i hf; simp_all

end Clvm.Py.GlueLemmas
