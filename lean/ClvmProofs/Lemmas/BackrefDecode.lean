/-
C18: the vector-stack decoder (`deBrNew`) and the list-stack decoder (`deBrOld`) are in lock step:
same acceptance, same tree, same unread remainder, same pair / atom / heap totals.
-/
import ClvmProofs.Lemmas.BackrefPath

namespace Clvm.Backref
open Clvm Clvm.Serde Clvm.Serde.Backref Clvm.Serde.TraversePath

/-! ### counters -/

theorem newPair_eq (c : Ctr) (h : PairInv c) :
    c.newPair = if c.pairs + c.ghostPairs = Gen.maxNumPairs then .error .TooManyPairs
                else .ok { c with pairs := c.pairs + 1 } := by
  unfold PairInv at h
  unfold Ctr.newPair
  rw [if_neg (by omega)]
  by_cases h2 : c.pairs + c.ghostPairs = Gen.maxNumPairs
  · rw [if_pos (by omega), if_pos h2]
  · rw [if_neg (by omega), if_neg h2]

theorem addGhostPair_eq (c : Ctr) (h : PairInv c) :
    c.addGhostPair 1 = if c.pairs + c.ghostPairs = Gen.maxNumPairs then .error .TooManyPairs
                       else .ok { c with ghostPairs := c.ghostPairs + 1 } := by
  unfold PairInv at h
  unfold Ctr.addGhostPair
  rw [if_neg (by omega)]
  by_cases h2 : c.pairs + c.ghostPairs = Gen.maxNumPairs
  · rw [if_pos (by omega), if_pos h2]
  · rw [if_neg (by omega), if_neg h2]

theorem SameTotals.symm {c c' : Ctr} (h : SameTotals c c') : SameTotals c' c :=
  ⟨h.1.symm, h.2.1.symm, h.2.2.1.symm, h.2.2.2.symm⟩

theorem SameTotals.trans {a b c : Ctr} (h1 : SameTotals a b) (h2 : SameTotals b c) : SameTotals a c :=
  ⟨h2.1.trans h1.1, h2.2.1.trans h1.2.1, h2.2.2.1.trans h1.2.2.1, h2.2.2.2.trans h1.2.2.2⟩

theorem PairInv.of_same {c c' : Ctr} (h : SameTotals c c') (hp : PairInv c) : PairInv c' := by
  unfold PairInv at *; have := h.1; omega

/-- `parse_atom` sees only the atom / heap totals -/
theorem parseAtom_sim (inp : Bytes) (b : UInt8) (c c' : Ctr) (h : SameTotals c c') :
    (∃ e, parseAtom inp b c = .error e ∧ parseAtom inp b c' = .error e) ∨
    (∃ n t c1 c1', parseAtom inp b c = .ok (n, t, c1) ∧ parseAtom inp b c' = .ok (n, t, c1') ∧
      SameTotals c1 c1' ∧ c1.pairs = c.pairs ∧ c1.ghostPairs = c.ghostPairs ∧
      c1'.pairs = c'.pairs ∧ c1'.ghostPairs = c'.ghostPairs) := by
  obtain ⟨h1, h2, h3, h4⟩ := h
  unfold parseAtom
  by_cases hb1 : (b.toNat == 0x01) = true
  · simp only [hb1, if_true]
    exact .inr ⟨_, _, _, _, rfl, rfl, ⟨h1, h2, h3, h4⟩, rfl, rfl, rfl, rfl⟩
  · simp only [hb1]
    by_cases hb2 : (b.toNat == 0x80) = true
    · simp only [hb2, if_true]
      exact .inr ⟨_, _, _, _, rfl, rfl, ⟨h1, h2, h3, h4⟩, rfl, rfl, rfl, rfl⟩
    · simp only [hb2]
      cases hp : Classic.parseAtomPtr inp b with
      | error e => exact .inl ⟨e, rfl, rfl⟩
      | ok r =>
        obtain ⟨n, blob⟩ := r
        simp only [Bool.false_eq_true, if_false]
        unfold Ctr.newAtom
        rw [h3, h4, h2]
        by_cases g1 : c.heap + blob.length > c.heapLimit
        · simp only [g1, if_true]; exact .inl ⟨_, rfl, rfl⟩
        · simp only [g1, if_false]
          by_cases g2 : (c.atoms == Gen.maxNumAtoms) = true
          · simp only [g2, if_true]; exact .inl ⟨_, rfl, rfl⟩
          · simp only [g2]
            exact .inr ⟨_, _, _, _, rfl, rfl, ⟨h1, rfl, rfl, rfl⟩, rfl, rfl, rfl, rfl⟩

/-! ### `Vec` pops -/

theorem vecPop_nil {α : Type} : vecPop ([] : List α) = none := rfl

theorem vecPop_snoc {α : Type} (xs : List α) (a : α) : vecPop (xs ++ [a]) = some (a, xs) := by
  simp [vecPop]

theorem eq_nil_or_snoc {α : Type} (l : List α) : l = [] ∨ ∃ i a, l = i ++ [a] := by
  rcases List.eq_nil_or_concat l with h | ⟨i, a, h⟩
  · exact .inl h
  · exact .inr ⟨i, a, by simpa using h⟩

/-! ### the simulation -/

/-- decoder states in lock step -/
def Rel (values : List Entry) (c : Ctr) (valuesT : Tree) (c' : Ctr) : Prop :=
  valuesT = stackTree (values.map Prod.fst) ∧ CacheOk Tree.nil values ∧ unc values ≤ c.ghostPairs ∧
    PairInv c ∧ SameTotals c c'

/-- related results: same tree, same unread remainder, same totals -/
def ResRel (r : Tree × Bytes × Ctr) (r' : Tree × Bytes × Ctr) : Prop :=
  r.1 = r'.1 ∧ r.2.1 = r'.2.1 ∧ SameTotals r.2.2 r'.2.2

theorem unc_le_of_append (xs ys : List Entry) : unc xs ≤ unc (xs ++ ys) := by
  rw [unc_append]; omega

theorem rel_push {values : List Entry} {c : Ctr} {valuesT : Tree} {c' : Ctr} (v : Tree)
    (h1 : valuesT = stackTree (values.map Prod.fst)) (h2 : CacheOk Tree.nil values)
    (h3 : unc values + 1 ≤ c.ghostPairs) (h4 : PairInv c) (h5 : SameTotals c c') :
    Rel (values ++ [(v, none)]) c (Tree.pair v valuesT) c' := by
  refine ⟨?_, ?_, ?_, h4, h5⟩
  · rw [List.map_append, h1]; exact (stackTree_snoc _ _).symm
  · rw [CacheOk_append]; exact ⟨h2, by simp [CacheOk]⟩
  · rw [unc_append]; simpa [unc] using h3

theorem deBr_sim : ∀ (n : Nat) (inp : Bytes), inp.length = n → ∀ (ops : List ParseOp)
    (values : List Entry) (c : Ctr) (valuesT : Tree) (c' : Ctr), Rel values c valuesT c' →
    Sim ResRel (deBrNew inp ops values c) (deBrOld inp ops valuesT c') := by
  intro n
  induction n using Nat.strongRecOn with
  | _ n ihn =>
    intro inp hlen ops
    induction ops with
    | nil =>
      intro values c valuesT c' hrel
      obtain ⟨h1, h2, h3, h4, h5⟩ := hrel
      unfold deBrNew deBrOld
      rcases eq_nil_or_snoc values with hv | ⟨init, last, hv⟩
      · subst hv; subst h1
        simp only [vecPop_nil, List.map_nil, stackTree, stackTreeFrom, List.foldl_nil, Tree.nil]
        exact .err rfl
      · subst hv; subst h1
        rw [vecPop_snoc, List.map_append, List.map_cons, List.map_nil, stackTree_snoc]
        exact .ok ⟨rfl, rfl, h5⟩
    | cons op ops' iho =>
      intro values c valuesT c' hrel
      obtain ⟨h1, h2, h3, h4, h5⟩ := hrel
      have h4' : PairInv c' := PairInv.of_same h5 h4
      cases op with
      | sexp =>
        unfold deBrNew deBrOld
        cases inp with
        | nil => exact .err rfl
        | cons b rest =>
          simp only []
          have hrl : rest.length < n := by simp at hlen; omega
          by_cases hff : (b.toNat == Gen.deBrConsBoxMarker) = true
          · simp only [hff, if_true]
            exact ihn _ hrl rest rfl _ _ _ _ _ ⟨h1, h2, h3, h4, h5⟩
          · simp only [hff, Bool.false_eq_true, if_false]
            by_cases hfe : (b.toNat == Gen.deBrBackReference) = true
            · simp only [hfe, if_true]
              cases hpp : parsePath rest with
              | error e => exact .err rfl
              | ok r =>
                obtain ⟨k, path⟩ := r
                simp only []
                have hs := traversePathWithVec_sim path values c h2 h3 h4
                rw [← h1] at hs
                revert hs
                generalize traversePathWithVec path values c = X
                generalize traversePath path valuesT = Y
                intro hs
                cases hs with
                | err he => exact .err he
                | ok hR =>
                  rename_i r q
                  obtain ⟨node, values', c1⟩ := r
                  obtain ⟨cost, node'⟩ := q
                  obtain ⟨hn, hm, hc2, hu2, hp2, hst⟩ := hR
                  simp only at hn hm hc2 hu2 hp2 hst
                  subst hn
                  simp only []
                  have hst' : SameTotals c1 c' := hst.symm.trans h5
                  rw [addGhostPair_eq c1 hp2, newPair_eq c' h4', hst'.1]
                  by_cases hfull : c1.pairs + c1.ghostPairs = Gen.maxNumPairs
                  · rw [if_pos hfull, if_pos hfull]; exact .err rfl
                  · rw [if_neg hfull, if_neg hfull]
                    simp only []
                    have hkl : (rest.drop k).length < n := by
                      have : (rest.drop k).length ≤ rest.length := by simp
                      omega
                    apply ihn _ hkl _ rfl
                    apply rel_push
                    · rw [hm]; exact h1
                    · exact hc2
                    · show unc values' + 1 ≤ c1.ghostPairs + 1; omega
                    · unfold PairInv at *; show c1.pairs + (c1.ghostPairs + 1) ≤ _; omega
                    · obtain ⟨a1, a2, a3, a4⟩ := hst'
                      exact ⟨by show c'.pairs + 1 + c'.ghostPairs = c1.pairs + (c1.ghostPairs + 1); omega,
                        a2, a3, a4⟩
            · simp only [hfe, Bool.false_eq_true, if_false]
              rcases parseAtom_sim rest b c c' h5 with ⟨e, he1, he2⟩ | ⟨k, t, c1, c1', he1, he2, hst, q1, q2, q3, q4⟩
              · rw [he1, he2]; exact .err rfl
              · rw [he1, he2]
                simp only []
                have hp1 : PairInv c1 := by unfold PairInv at *; omega
                have hp1' : PairInv c1' := PairInv.of_same hst hp1
                rw [addGhostPair_eq c1 hp1, newPair_eq c1' hp1', hst.1]
                by_cases hfull : c1.pairs + c1.ghostPairs = Gen.maxNumPairs
                · rw [if_pos hfull, if_pos hfull]; exact .err rfl
                · rw [if_neg hfull, if_neg hfull]
                  simp only []
                  have hkl : (rest.drop k).length < n := by
                    have : (rest.drop k).length ≤ rest.length := by simp
                    omega
                  apply ihn _ hkl _ rfl
                  apply rel_push
                  · exact h1
                  · exact h2
                  · show unc values + 1 ≤ c1.ghostPairs + 1; omega
                  · unfold PairInv at *; show c1.pairs + (c1.ghostPairs + 1) ≤ _; omega
                  · obtain ⟨a1, a2, a3, a4⟩ := hst
                    exact ⟨by show c1'.pairs + 1 + c1'.ghostPairs = c1.pairs + (c1.ghostPairs + 1); omega,
                      a2, a3, a4⟩
      | cons =>
        unfold deBrNew deBrOld
        rcases eq_nil_or_snoc values with hv | ⟨init, right, hv⟩
        · subst hv; subst h1
          simp only [vecPop_nil, List.map_nil, stackTree, stackTreeFrom, List.foldl_nil, Tree.nil]
          exact .err rfl
        · subst hv
          rcases eq_nil_or_snoc init with hv2 | ⟨init2, left, hv2⟩
          · subst hv2; subst h1
            simp only [List.nil_append, vecPop, List.getLast?_singleton, List.dropLast_singleton,
              List.getLast?_nil, List.map_cons, List.map_nil, stackTree, stackTreeFrom, List.foldl_cons,
              List.foldl_nil, Tree.nil]
            exact .err rfl
          · subst hv2; subst h1
            rw [vecPop_snoc]; simp only []; rw [vecPop_snoc]
            simp only [List.map_append, List.map_cons, List.map_nil, stackTree_snoc]
            rw [newPair_eq c h4, newPair_eq c' h4', h5.1]
            by_cases hfull : c.pairs + c.ghostPairs = Gen.maxNumPairs
            · rw [if_pos hfull, if_pos hfull]; exact .err rfl
            · rw [if_neg hfull, if_neg hfull]
              simp only []
              have hpa : PairInv { c with pairs := c.pairs + 1 } := by
                unfold PairInv at *; show c.pairs + 1 + c.ghostPairs ≤ _; omega
              have hpb : PairInv { c' with pairs := c'.pairs + 1 } := by
                unfold PairInv at *; show c'.pairs + 1 + c'.ghostPairs ≤ _; have := h5.1; omega
              rw [addGhostPair_eq _ hpa, newPair_eq _ hpb]
              have e1 : ({ c with pairs := c.pairs + 1 } : Ctr).pairs + ({ c with pairs := c.pairs + 1 } : Ctr).ghostPairs
                  = c.pairs + c.ghostPairs + 1 := by show c.pairs + 1 + c.ghostPairs = _; omega
              have e2 : ({ c' with pairs := c'.pairs + 1 } : Ctr).pairs + ({ c' with pairs := c'.pairs + 1 } : Ctr).ghostPairs
                  = c.pairs + c.ghostPairs + 1 := by
                show c'.pairs + 1 + c'.ghostPairs = _; have := h5.1; omega
              rw [e1, e2]
              by_cases hfull2 : c.pairs + c.ghostPairs + 1 = Gen.maxNumPairs
              · rw [if_pos hfull2, if_pos hfull2]; exact .err rfl
              · rw [if_neg hfull2, if_neg hfull2]
                simp only []
                apply iho
                have hc0 : CacheOk Tree.nil init2 := by
                  rw [List.append_assoc, CacheOk_append] at h2; exact h2.1
                have hu0 : unc init2 ≤ c.ghostPairs := by
                  have := unc_le_of_append init2 ([left] ++ [right])
                  rw [← List.append_assoc] at this; omega
                apply rel_push
                · rfl
                · exact hc0
                · show unc init2 + 1 ≤ c.ghostPairs + 1; omega
                · unfold PairInv at *; show c.pairs + 1 + (c.ghostPairs + 1) ≤ _; omega
                · obtain ⟨a1, a2, a3, a4⟩ := h5
                  exact ⟨by show c'.pairs + 1 + 1 + c'.ghostPairs = c.pairs + 1 + (c.ghostPairs + 1); omega,
                    a2, a3, a4⟩

end Clvm.Backref
