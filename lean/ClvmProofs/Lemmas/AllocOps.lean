/-
Every allocating operation of the allocator model refines the corresponding operation of the
reference `RefAlloc` (counts and contents), preserves `Inv`, only appends (`Ext`), and leaves the
state unchanged when it fails.  One theorem per operation (`…_refines`); the consequences used by
C12/C13/C14 are projections of `Refines`.
-/
import ClvmModel.Alloc.Ref
import ClvmProofs.Lemmas.AllocInv
import ClvmProofs.Lemmas.AllocInt
import ClvmProofs.Lemmas.AllocReaders

namespace Clvm.Alloc
open Clvm

/-- outcome of a model operation vs. outcome of the reference operation -/
def Refines (a : Alloc) (out : Out Ptr) (ref : Except Err (Tree × RefAlloc)) : Prop :=
  match out, ref with
  | (.ok p, a'), .ok (t, r') => abs a' = r' ∧ treeOf a' p = t ∧ Valid a' p ∧ Inv a' ∧ Ext a a'
  | (.error e, a'), .error e' => e.kind = e'.kind ∧ a' = a
  | _, _ => False

/-- same for operations without a result node -/
def RefinesU (a : Alloc) (out : Out Unit) (ref : Except Err RefAlloc) : Prop :=
  match out, ref with
  | (.ok (), a'), .ok r' => abs a' = r' ∧ Inv a' ∧ Ext a a'
  | (.error e, a'), .error e' => e.kind = e'.kind ∧ a' = a
  | _, _ => False

theorem idxMask_eq : idxMask = 2 ^ 26 - 1 := by decide

theorem abs_eq_mk (a : Alloc) (x y z w : Nat) (h1 : atomCount a = x) (h2 : pairCount a = y)
    (h3 : heapSize a = z) (h4 : a.heapLimit = w) : abs a = ⟨x, y, z, w⟩ := by
  subst h1 h2 h3 h4; rfl

/-- arithmetic side goals about counters of updated records -/
macro "cnt" : tactic =>
  `(tactic| first
    | omega
    | (simp +zetaDelta only [abs, atomCount, pairCount, heapSize, List.length_append, List.length_singleton,
        List.length_cons, List.length_nil] at * <;> omega))

theorem Ext.mk' {a a' : Alloc} (x : Bytes) (y : List (Nat × Nat)) (z : List (Ptr × Ptr))
    (h1 : a'.u8 = a.u8 ++ x) (h2 : a'.atoms = a.atoms ++ y) (h3 : a'.pairs = a.pairs ++ z)
    (h4 : a'.heapLimit = a.heapLimit)
    (hf : ∀ (s e : Nat), (s, e) ∈ y →
      a.u8.length ≤ s ∨ ∃ (j st en : Nat), a.atoms[j]? = some (st, en) ∧ st ≤ s ∧ e ≤ en) : Ext a a' := by
  refine ⟨⟨x, h1⟩, ⟨y, h2⟩, ⟨z, h3⟩, h4, fun i s e hi hle => ?_⟩
  rw [h2, List.getElem?_append_right hle] at hi
  exact hf s e (List.mem_of_getElem? hi)

/-! ### pairs and ghosts -/

theorem newPair_refines (a : Alloc) (l r : Ptr) (hI : Inv a) (hl : Valid a l) (hr : Valid a r) :
    Refines a (newPair a l r) ((abs a).newPair (treeOf a l) (treeOf a r)) := by
  have hc := hI.pairCap
  unfold newPair RefAlloc.newPair
  have e : (abs a).pairCount = a.pairs.length + a.ghostPairs := rfl
  rw [if_neg (by omega)]
  by_cases hfull : (abs a).pairCount + 1 > Gen.maxNumPairs
  · rw [if_pos (by omega), if_pos hfull]; exact ⟨rfl, rfl⟩
  · rw [if_neg (by omega), if_neg hfull]
    let a' : Alloc := { a with pairs := a.pairs ++ [(l, r)] }
    have hE : Ext a a' := Ext.mk' [] [] [(l, r)] (by simp [a']) (by simp [a']) rfl rfl (fun s e h => by simp at h)
    have hI' : Inv a' :=
      ⟨hI.closed.push_pair hl hr, hI.atomCap, by cnt, hI.limit⟩
    have hget : a'.pairs[a.pairs.length]? = some (l, r) := by simp [a']
    refine ⟨?_, ?_, ?_, hI', hE⟩
    · apply abs_eq_mk <;> cnt
    · rw [treeOf_pair a' hI' _ l r hget, hE.treeOf hI hl, hE.treeOf hI hr]
    · simp [Valid, PtrOk]

theorem addGhostPair_refines (a : Alloc) (n : Nat) (hI : Inv a) :
    RefinesU a (addGhostPair a n) ((abs a).addGhostPair n) := by
  have hc := hI.pairCap
  unfold addGhostPair RefAlloc.addGhostPair
  have e : (abs a).pairCount = a.pairs.length + a.ghostPairs := rfl
  rw [if_neg (by omega), if_neg (by omega)]
  by_cases hfull : (abs a).pairCount + n > Gen.maxNumPairs
  · rw [if_pos (by omega), if_pos hfull]; exact ⟨rfl, rfl⟩
  · rw [if_neg (by omega), if_neg hfull]
    refine ⟨?_, ⟨hI.closed, hI.atomCap, by cnt, hI.limit⟩, Ext.refl' _ _ rfl rfl rfl rfl⟩
    apply abs_eq_mk <;> cnt

theorem addGhostAtom_refines (a : Alloc) (n : Nat) (hI : Inv a) :
    RefinesU a (addGhostAtom a n) ((abs a).addGhostAtom n) := by
  have hc := hI.atomCap
  unfold addGhostAtom RefAlloc.addGhostAtom
  have e : (abs a).atomCount = a.atoms.length + a.ghostAtoms := rfl
  rw [if_neg (by omega), if_neg (by omega)]
  by_cases hfull : (abs a).atomCount + n > Gen.maxNumAtoms
  · rw [if_pos (by omega), if_pos hfull]; exact ⟨rfl, rfl⟩
  · rw [if_neg (by omega), if_neg hfull]
    refine ⟨?_, ⟨hI.closed, by cnt, hI.pairCap, hI.limit⟩, Ext.refl' _ _ rfl rfl rfl rfl⟩
    apply abs_eq_mk <;> cnt

/-- `remove_ghost_pair` (undoing an earlier `add_ghost_pair`: `n ≤ ghostPairs`) -/
theorem removeGhostPair_refines (a : Alloc) (n : Nat) (hI : Inv a) (hn : n ≤ a.ghostPairs) :
    RefinesU a (removeGhostPair a n) (.ok ((abs a).removeGhostPair n)) := by
  unfold removeGhostPair RefAlloc.removeGhostPair
  rw [if_neg (by omega)]
  have := hI.pairCap
  refine ⟨?_, ⟨hI.closed, hI.atomCap, by cnt, hI.limit⟩, Ext.refl' _ _ rfl rfl rfl rfl⟩
  apply abs_eq_mk <;> cnt

/-! ### atoms -/

theorem checkAtomLimit_eq (a : Alloc) (hI : Inv a) :
    checkAtomLimit a = if atomCount a + 1 > Gen.maxNumAtoms then .error .TooManyAtoms else .ok () := by
  have := hI.atomCap
  unfold checkAtomLimit atomCount
  by_cases h : a.atoms.length + a.ghostAtoms = Gen.maxNumAtoms
  · rw [if_pos (by simpa using h), if_pos (by omega)]
  · rw [if_neg (by simpa using h), if_neg (by omega)]

theorem small_valid_of_fits {b : Bytes} {v : Nat} (h : fitsInSmallAtom b = some v) :
    v ≤ idxMask ∧ smallBytes v = b := by
  have := (fitsInSmallAtom_iff b v).1 h
  rw [idxMask_eq]
  refine ⟨by omega, ?_⟩
  rw [smallBytes_enc v (by omega), this.1]

theorem newAtom_refines (a : Alloc) (b : Bytes) (hI : Inv a) :
    Refines a (newAtom a b) ((abs a).newAtom b) := by
  unfold newAtom RefAlloc.newAtom
  rw [checkAtomLimit_eq a hI, fitsInSmallAtomE_eq]
  have e1 : (abs a).heapSize = a.u8.length + a.ghostHeap := rfl
  have e2 : (abs a).heapLimit = a.heapLimit := rfl
  have e3 : (abs a).atomCount = atomCount a := rfl
  by_cases hoom : (abs a).heapSize + b.length > (abs a).heapLimit
  · rw [if_pos (by omega), if_pos hoom]; exact ⟨rfl, rfl⟩
  · rw [if_neg (by omega), if_neg hoom]
    by_cases hfull : (abs a).atomCount + 1 > Gen.maxNumAtoms
    · rw [if_pos (by omega), if_pos hfull]; exact ⟨rfl, rfl⟩
    · rw [if_neg (by omega), if_neg hfull]
      have hc := hI.atomCap
      unfold atomCount at e3
      cases hf : fitsInSmallAtom b with
      | some v =>
        have ⟨hv, hb⟩ := small_valid_of_fits hf
        refine ⟨?_, ?_, hv, ⟨hI.closed, by cnt, hI.pairCap, hI.limit⟩, Ext.refl' _ _ rfl rfl rfl rfl⟩
        · apply abs_eq_mk <;> cnt
        · rw [treeOf_small, hb]
      | none =>
        let a' : Alloc := { a with u8 := a.u8 ++ b, atoms := a.atoms ++ [(a.u8.length, (a.u8 ++ b).length)] }
        have hE : Ext a a' := Ext.mk' b [(a.u8.length, (a.u8 ++ b).length)] [] rfl rfl (by simp [a']) rfl
          (fun s e h => by simp at h; left; omega)
        have hcl : Closed a'.u8.length a'.atoms a'.pairs :=
          (hI.closed.mono_u8 (by simp [a'])).push_atom (by simp) (Nat.le_refl _)
        have hI' : Inv a' := ⟨hcl, by cnt, hI.pairCap, hI.limit⟩
        refine ⟨?_, ?_, ?_, hI', hE⟩
        · apply abs_eq_mk <;> cnt
        · rw [treeOf_bytes]
          have hget : a'.atoms[a.atoms.length]? = some (a.u8.length, (a.u8 ++ b).length) := by simp [a']
          rw [atomBytes_of_getElem? hget]
          simp [a']
        · simp [Valid, PtrOk]

theorem lenForValue_le4' {v : Nat} (h : v ≤ idxMask) : lenForValue v ≤ 4 := by
  rw [idxMask_eq] at h; exact lenForValue_le4 v (by omega)

theorem newSmallNumber_refines (a : Alloc) (v : Nat) (hI : Inv a) (hv : v ≤ idxMask) :
    Refines a (newSmallNumber a v) ((abs a).newInt (v : Int)) := by
  unfold newSmallNumber RefAlloc.newInt RefAlloc.newAtom
  rw [checkAtomLimit_eq a hI, if_neg (by omega)]
  have hlt : v < 2 ^ 31 := by rw [idxMask_eq] at hv; omega
  rw [← lenForValue_enc v hlt]
  have e1 : (abs a).heapSize = a.u8.length + a.ghostHeap := rfl
  have e2 : (abs a).heapLimit = a.heapLimit := rfl
  have e3 : (abs a).atomCount = atomCount a := rfl
  by_cases hoom : (abs a).heapSize + lenForValue v > (abs a).heapLimit
  · rw [if_pos (by omega), if_pos hoom]; exact ⟨rfl, rfl⟩
  · rw [if_neg (by omega), if_neg hoom]
    by_cases hfull : (abs a).atomCount + 1 > Gen.maxNumAtoms
    · rw [if_pos (by omega), if_pos hfull]; exact ⟨rfl, rfl⟩
    · rw [if_neg (by omega), if_neg hfull]
      have hc := hI.atomCap
      unfold atomCount at e3
      refine ⟨?_, ?_, hv, ⟨hI.closed, by cnt, hI.pairCap, hI.limit⟩, Ext.refl' _ _ rfl rfl rfl rfl⟩
      · apply abs_eq_mk <;> cnt
      · rw [treeOf_small, smallBytes_enc v hlt]

theorem newU64_refines (a : Alloc) (v : Nat) (hI : Inv a) (hv : v < 2 ^ 64) :
    Refines a (newU64 a v) ((abs a).newInt (v : Int)) := by
  unfold newU64 RefAlloc.newInt
  rw [u64Bytes_enc v hv]
  exact newAtom_refines a _ hI

theorem newI64_refines (a : Alloc) (v : Int) (hI : Inv a) (h1 : -(2 : Int) ^ 63 ≤ v) (h2 : v < (2 : Int) ^ 63) :
    Refines a (newI64 a v) ((abs a).newInt v) := by
  unfold newI64
  by_cases hpos : v ≥ 0
  · rw [if_pos hpos]
    have := newU64_refines a v.toNat hI (by omega)
    rwa [Int.toNat_of_nonneg hpos] at this
  · rw [if_neg hpos]
    unfold RefAlloc.newInt
    rw [i64NegBytes_enc v h1 (by omega)]
    exact newAtom_refines a _ hI

theorem newNumber_refines (a : Alloc) (v : Int) (hI : Inv a) :
    Refines a (newNumber a v) ((abs a).newInt v) := by
  unfold newNumber
  by_cases hs : numberIsSmall v = true
  · rw [if_pos hs]
    unfold numberIsSmall at hs
    simp only [Bool.and_eq_true, decide_eq_true_eq] at hs
    obtain ⟨⟨h0, _⟩, h2⟩ := hs
    have := newSmallNumber_refines a v.toNat hI (by unfold idxMask; exact h2)
    rwa [Int.toNat_of_nonneg h0] at this
  · rw [if_neg hs]
    unfold RefAlloc.newInt
    rw [← strip_toSigned v]
    exact newAtom_refines a _ hI

/-! ### substrings -/

/-- the defect region of finding C: a substring of an inline atom (bounds valid) that is not
itself a canonical small integer -/
def substrDefect (p : Ptr) (s e : Nat) : Bool :=
  match p with
  | .small v =>
    decide (s ≤ e) && decide (e ≤ lenForValue v) &&
      (fitsInSmallAtom (((smallBytes v).drop s).take (e - s))).isNone
  | _ => false

theorem length_drop_take (u : Bytes) (s e : Nat) (hs : s ≤ e) (he : e ≤ u.length) :
    ((u.drop s).take (e - s)).length = e - s := by
  simp only [List.length_take, List.length_drop]; omega

theorem drop_take_drop_take (u : Bytes) (st en s e : Nat) (he : st + e ≤ en) :
    ((((u.drop st).take (en - st)).drop s).take (e - s)) = (u.drop (st + s)).take (st + e - (st + s)) := by
  rw [List.drop_take, List.take_take, List.drop_drop]
  congr 1
  omega

theorem boundsCheck_eq (s e len : Nat) :
    boundsCheck s e len = if s > len ∨ e > len ∨ e < s then
      .error (if s > len then .InvalidAllocArg "substr start out of bounds"
              else if e > len then .InvalidAllocArg "substr end out of bounds"
              else .InvalidAllocArg "substr invalid bounds") else .ok () := by
  unfold boundsCheck
  by_cases h1 : s > len
  · simp [h1]
  · by_cases h2 : e > len
    · simp [h1, h2]
    · by_cases h3 : e < s
      · simp [h1, h2, h3]
      · simp [h1, h2, h3]

theorem treeOf_valid_pair (a : Alloc) (hI : Inv a) (i : Nat) (hv : Valid a (.pair i)) :
    ∃ l r, treeOf a (.pair i) = .pair l r := by
  have hlt : i < a.pairs.length := hv
  have hget : a.pairs[i]? = some a.pairs[i] := List.getElem?_eq_getElem hlt
  generalize a.pairs[i] = lr at hget
  obtain ⟨l, r⟩ := lr
  exact ⟨_, _, treeOf_pair a hI i l r hget⟩

theorem valid_bytes_get (a : Alloc) (hI : Inv a) (i : Nat) (hv : Valid a (.bytes i)) :
    ∃ st en, a.atoms[i]? = some (st, en) ∧ st ≤ en ∧ en ≤ a.u8.length := by
  have hlt : i < a.atoms.length := hv
  have hget : a.atoms[i]? = some a.atoms[i] := List.getElem?_eq_getElem hlt
  generalize a.atoms[i] = ab at hget
  obtain ⟨st, en⟩ := ab
  exact ⟨st, en, hget, hI.closed.atoms_ok i st en hget⟩

theorem struct_eta_u8 (a : Alloc) : { a with u8 := a.u8 } = a := by cases a; rfl

/-- `new_substr` refines the reference **outside the defect region** -/
theorem newSubstr_refines (a : Alloc) (p : Ptr) (s e : Nat) (hI : Inv a) (hp : Valid a p)
    (hd : substrDefect p s e = false) :
    Refines a (newSubstr a p s e) ((abs a).newSubstr (treeOf a p) s e) := by
  unfold newSubstr RefAlloc.newSubstr
  rw [checkAtomLimit_eq a hI]
  have e3 : (abs a).atomCount = atomCount a := rfl
  have hc := hI.atomCap
  by_cases hfull : (abs a).atomCount + 1 > Gen.maxNumAtoms
  · rw [if_pos (by omega), if_pos hfull]; exact ⟨rfl, rfl⟩
  · rw [if_neg (by omega), if_neg hfull]
    unfold atomCount at e3
    cases p with
    | pair i =>
      obtain ⟨l, r, hlr⟩ := treeOf_valid_pair a hI i hp
      rw [hlr]; exact ⟨rfl, rfl⟩
    | bytes i =>
      obtain ⟨st, en, hget, h1, h2⟩ := valid_bytes_get a hI i hp
      have hab : atomBuf a i = .ok (st, en) := by unfold atomBuf; rw [hget]
      have hbl : bufLen (st, en) = .ok (en - st) := by unfold bufLen; rw [if_neg (by simp; omega)]
      rw [treeOf_bytes, atomBytes_of_getElem? hget]
      simp only [hab, hbl]
      rw [boundsCheck_eq, length_drop_take _ _ _ h1 h2]
      by_cases hb : s > en - st ∨ e > en - st ∨ e < s
      · rw [if_pos hb, if_pos hb]; exact ⟨by split <;> (try split) <;> rfl, rfl⟩
      · rw [if_neg hb, if_neg hb]
        let a' : Alloc := { a with atoms := a.atoms ++ [(st + s, st + e)] }
        have hE : Ext a a' := Ext.mk' [] [(st + s, st + e)] [] (by simp [a']) rfl (by simp [a']) rfl
          (fun s' e' h => by
            simp at h; right; exact ⟨i, st, en, hget, by omega, by omega⟩)
        have hI' : Inv a' :=
          ⟨hI.closed.push_atom (by omega) (by omega), by cnt, hI.pairCap, hI.limit⟩
        refine ⟨?_, ?_, ?_, hI', hE⟩
        · apply abs_eq_mk <;> cnt
        · rw [treeOf_bytes]
          have hget' : a'.atoms[a.atoms.length]? = some (st + s, st + e) := by simp [a']
          rw [atomBytes_of_getElem? hget', drop_take_drop_take _ _ _ _ _ (by omega)]
        · simp [Valid, PtrOk]
    | small v =>
      have hv : v ≤ idxMask := hp
      have hlt : v < 2 ^ 31 := by rw [idxMask_eq] at hv; omega
      have hlen := smallBytes_length v hlt
      rw [treeOf_small]
      simp only []
      rw [boundsCheck_eq, hlen]
      by_cases hb : s > lenForValue v ∨ e > lenForValue v ∨ e < s
      · rw [if_pos hb, if_pos hb]; exact ⟨by split <;> (try split) <;> rfl, rfl⟩
      · rw [if_neg hb, if_neg hb]
        have hsb : smallBytesE v = .ok (smallBytes v) := by
          unfold smallBytesE; rw [if_neg (by have := lenForValue_le4' hv; omega)]
        simp only [hsb]
        rw [slice_eq (by omega) (by omega)]
        simp only []
        rw [fitsInSmallAtomE_eq]
        cases hf : fitsInSmallAtom (((smallBytes v).drop s).take (e - s)) with
        | none =>
          exfalso
          simp only [substrDefect, hf, Option.isNone_none, Bool.and_true, Bool.and_eq_false_imp,
            decide_eq_true_eq, decide_eq_false_iff_not] at hd
          omega
        | some w =>
          have ⟨hw, hwb⟩ := small_valid_of_fits hf
          refine ⟨?_, ?_, hw, ⟨hI.closed, by cnt, hI.pairCap, hI.limit⟩, Ext.refl' _ _ rfl rfl rfl rfl⟩
          · apply abs_eq_mk <;> cnt
          · rw [treeOf_small, hwb]

/-- **inside the defect region** `new_substr` succeeds, creates the right node and counts one
atom — but the heap size grows by the length of the substring, with no limit check -/
theorem newSubstr_defect (a : Alloc) (v s e : Nat) (hI : Inv a) (hp : Valid a (.small v))
    (hd : substrDefect (.small v) s e = true) (hfull : atomCount a + 1 ≤ Gen.maxNumAtoms) :
    ∃ a', newSubstr a (.small v) s e = (.ok (.bytes a.atoms.length), a') ∧
      atomCount a' = atomCount a + 1 ∧ pairCount a' = pairCount a ∧
      heapSize a' = heapSize a + (e - s) ∧
      treeOf a' (.bytes a.atoms.length) = .atom (((smallBytes v).drop s).take (e - s)) ∧
      Inv a' ∧ Ext a a' := by
  have hv : v ≤ idxMask := hp
  have hlt : v < 2 ^ 31 := by rw [idxMask_eq] at hv; omega
  have hlen := smallBytes_length v hlt
  simp only [substrDefect, Bool.and_eq_true, decide_eq_true_eq, Option.isNone_iff_eq_none] at hd
  obtain ⟨⟨h1, h2⟩, hf⟩ := hd
  unfold newSubstr
  rw [checkAtomLimit_eq a hI, if_neg (by omega)]
  simp only
  rw [boundsCheck_eq, if_neg (by omega)]
  have hsb : smallBytesE v = .ok (smallBytes v) := by
    unfold smallBytesE; rw [if_neg (by have := lenForValue_le4' hv; omega)]
  simp only [hsb]
  rw [slice_eq (by omega) (by omega)]
  simp only []
  rw [fitsInSmallAtomE_eq]
  simp only [hf]
  have hsl := length_drop_take (smallBytes v) s e h1 (by omega)
  refine ⟨_, rfl, by cnt, by cnt, by cnt, ?_, ?_, ?_⟩
  · rw [treeOf_bytes]
    rw [atomBytes_of_getElem? (s := a.u8.length) (e := a.u8.length + (((smallBytes v).drop s).take (e - s)).length)
      (by simp)]
    rw [List.drop_left, List.take_of_length_le (by omega)]
  · have hc := hI.atomCap
    unfold atomCount at hfull
    exact ⟨(hI.closed.mono_u8 (by simp)).push_atom (by omega) (by simp), by cnt, hI.pairCap, hI.limit⟩
  · exact Ext.mk' _ [_] [] rfl rfl (by simp) rfl (fun s' e' h => by simp at h; left; omega)

/-! ### concatenation -/

theorem smallBytesE_ok {v : Nat} (hv : v ≤ idxMask) : smallBytesE v = .ok (smallBytes v) := by
  unfold smallBytesE; rw [if_neg (by have := lenForValue_le4' hv; omega)]

theorem take_length_append (u x : Bytes) : (u ++ x).take u.length = u := by
  rw [List.take_append_of_le_length (Nat.le_refl _), List.take_length]

/-- the loop of `new_concat`: either all terms are appended, or it stops with `InternalError`
and the vector truncated back to its old length -/
def ConcatSpec (a : Alloc) (newSize : Nat) (ps : List Ptr) (acc : Bytes) (c : Nat) : Prop :=
  (∃ bs, RefAlloc.atomsOf (ps.map (treeOf a)) = some bs ∧
    concatLoop a.atoms a.u8.length newSize ps (a.u8 ++ acc) c =
      (.ok (c + bs.flatten.length), a.u8 ++ acc ++ bs.flatten)) ∨
  (∃ m, concatLoop a.atoms a.u8.length newSize ps (a.u8 ++ acc) c = (.error (.InternalError m), a.u8) ∧
    (RefAlloc.atomsOf (ps.map (treeOf a)) = none ∨
      ∃ bs, RefAlloc.atomsOf (ps.map (treeOf a)) = some bs ∧ c + bs.flatten.length > newSize))

theorem concatLoop_spec (a : Alloc) (hI : Inv a) (newSize : Nat) :
    ∀ (ps : List Ptr) (acc : Bytes) (c : Nat), (∀ p ∈ ps, Valid a p) → ConcatSpec a newSize ps acc c := by
  intro ps
  induction ps with
  | nil =>
    intro acc c _
    left; exact ⟨[], rfl, by simp [concatLoop]⟩
  | cons p ps ih =>
    intro acc c hv
    have hvp : Valid a p := hv p (by simp)
    have hvs : ∀ q ∈ ps, Valid a q := fun q hq => hv q (by simp [hq])
    -- common continuation: term bytes `b` appended, counter advanced
    have cont : ∀ (b : Bytes), treeOf a p = .atom b →
        (concatLoop a.atoms a.u8.length newSize (p :: ps) (a.u8 ++ acc) c =
          concatLoop a.atoms a.u8.length newSize ps (a.u8 ++ (acc ++ b)) (c + b.length)) →
        ConcatSpec a newSize (p :: ps) acc c := fun b hb heq => by
      unfold ConcatSpec
      rw [heq]
      simp only [List.map_cons, hb, RefAlloc.atomsOf]
      rcases (ih (acc ++ b) (c + b.length) hvs : ConcatSpec _ _ _ _ _) with ⟨bs, h1, h2⟩ | ⟨m, h2, h3⟩
      · left
        refine ⟨b :: bs, by rw [h1]; rfl, ?_⟩
        rw [h2]; simp [List.append_assoc, Nat.add_assoc]
      · right
        refine ⟨m, h2, ?_⟩
        rcases h3 with h3 | ⟨bs, h3, h4⟩
        · left; rw [h3]; rfl
        · right
          refine ⟨b :: bs, by rw [h3]; rfl, ?_⟩
          rw [List.flatten_cons, List.length_append]; omega
    cases p with
    | pair i =>
      obtain ⟨l, r, hlr⟩ := treeOf_valid_pair a hI i hvp
      right
      refine ⟨"concat expected atom, got pair", ?_, ?_⟩
      · simp only [concatLoop]; rw [take_length_append]
      · left; simp only [List.map_cons, hlr, RefAlloc.atomsOf]
    | small v =>
      have hvv : v ≤ idxMask := hvp
      have hlt : v < 2 ^ 31 := by rw [idxMask_eq] at hvv; omega
      apply cont (smallBytes v) rfl
      simp only [concatLoop, smallBytesE_ok hvv]
      rw [smallBytes_length v hlt, List.append_assoc]
    | bytes i =>
      obtain ⟨st, en, hget, h1, h2⟩ := valid_bytes_get a hI i hvp
      have hbl : bufLen (st, en) = .ok (en - st) := by unfold bufLen; rw [if_neg (by simp; omega)]
      have hab := atomBytes_of_getElem? hget
      have hlen : (atomBytes a i).length = en - st := by rw [hab]; exact length_drop_take _ _ _ h1 h2
      by_cases hover : c + (en - st) > newSize
      · right
        refine ⟨"concat passed invalid new_size", ?_, ?_⟩
        · simp only [concatLoop, hget, hbl]
          rw [if_pos hover, take_length_append]
        · simp only [List.map_cons, treeOf_bytes, RefAlloc.atomsOf]
          cases hts : RefAlloc.atomsOf (ps.map (treeOf a)) with
          | none => left; rfl
          | some bs =>
            right
            refine ⟨_, rfl, ?_⟩
            rw [List.flatten_cons, List.length_append, hlen]; omega
      · apply cont (atomBytes a i) rfl
        simp only [concatLoop, hget, hbl]
        rw [if_neg hover, slice_eq h1 (by simp; omega)]
        simp only []
        rw [drop_take_append _ _ _ _ h2, ← hab, hlen, List.append_assoc]

theorem atomsOf_single (b : Bytes) : RefAlloc.atomsOf [Tree.atom b] = some [b] := rfl

/-- `new_concat` refines the reference (a single pair operand is a precondition violation of the
API: the crate panics in `atom_len`) -/
theorem newConcat_refines (a : Alloc) (newSize : Nat) (ps : List Ptr) (hI : Inv a)
    (hv : ∀ p ∈ ps, Valid a p) (h1 : ∀ i, ps ≠ [.pair i]) :
    Refines a (newConcat a newSize ps) ((abs a).newConcat newSize (ps.map (treeOf a))) := by
  unfold newConcat RefAlloc.newConcat
  rw [checkAtomLimit_eq a hI]
  have e1 : (abs a).heapSize = a.u8.length + a.ghostHeap := rfl
  have e2 : (abs a).heapLimit = a.heapLimit := rfl
  have e3 : (abs a).atomCount = atomCount a := rfl
  have hc := hI.atomCap
  by_cases hfull : (abs a).atomCount + 1 > Gen.maxNumAtoms
  · rw [if_pos (by omega), if_pos hfull]; exact ⟨rfl, rfl⟩
  · rw [if_neg (by omega), if_neg hfull]
    simp only []
    by_cases hoom : (abs a).heapSize + newSize > (abs a).heapLimit
    · rw [if_pos (by omega), if_pos hoom]; exact ⟨rfl, rfl⟩
    · rw [if_neg (by omega), if_neg hoom]
      unfold atomCount at e3
      match ps, hv, h1 with
      | [], _, _ =>
        simp only [List.map_nil, RefAlloc.atomsOf, List.flatten_nil, List.length_nil]
        by_cases hn : newSize = 0
        · subst hn
          simp only [bne_self_eq_false, Bool.false_eq_true, if_false, ne_eq, not_true_eq_false]
          refine ⟨?_, ?_, ?_, ⟨hI.closed, by cnt, hI.pairCap, hI.limit⟩, Ext.refl' _ _ rfl rfl rfl rfl⟩
          · apply abs_eq_mk <;> cnt
          · rfl
          · show (0 : Nat) ≤ idxMask; omega
        · have : (0 != newSize) = true := by simp; omega
          rw [if_pos this, if_pos (by omega)]
          exact ⟨rfl, rfl⟩
      | [p], hv, h1 =>
        have hvp : Valid a p := hv p (by simp)
        have hat : isAtomPtr p = true := by
          cases p with
          | pair i => exact absurd rfl (h1 i)
          | _ => rfl
        simp only [List.map_cons, List.map_nil, treeOf_atom a p hat, atomsOf_single, atomLen_ok a p hI hvp hat,
          List.flatten_cons, List.flatten_nil, List.append_nil]
        by_cases hn : (nodeBytes a p).length = newSize
        · have : ((nodeBytes a p).length != newSize) = false := by rw [hn]; exact bne_self_eq_false _
          rw [if_neg (by rw [this]; simp), if_neg (fun h => h hn)]
          refine ⟨?_, ?_, hvp, ⟨hI.closed, by cnt, hI.pairCap, hI.limit⟩, Ext.refl' _ _ rfl rfl rfl rfl⟩
          · apply abs_eq_mk <;> cnt
          · rw [← treeOf_atom a p hat]
            refine Ext.treeOf ?_ hI hvp
            exact Ext.refl' _ _ rfl rfl rfl rfl
        · have : ((nodeBytes a p).length != newSize) = true := bne_iff_ne.mpr hn
          rw [if_pos this, if_pos hn]
          exact ⟨rfl, rfl⟩
      | p :: q :: rest, hv, _ =>
        simp only []
        have hspec := concatLoop_spec a hI newSize (p :: q :: rest) [] 0 hv
        unfold ConcatSpec at hspec
        rw [List.append_nil] at hspec
        rcases hspec with ⟨bs, hb1, hb2⟩ | ⟨m, hb2, hb3⟩
        · rw [hb2, hb1]
          simp only [Nat.zero_add]
          by_cases hn : bs.flatten.length = newSize
          · have : (bs.flatten.length != newSize) = false := by rw [hn]; exact bne_self_eq_false _
            rw [if_neg (by rw [this]; simp), if_neg (fun h => h hn)]
            let a' : Alloc := { a with u8 := a.u8 ++ bs.flatten,
                                       atoms := a.atoms ++ [(a.u8.length, (a.u8 ++ bs.flatten).length)] }
            have hE : Ext a a' := Ext.mk' bs.flatten [(a.u8.length, (a.u8 ++ bs.flatten).length)] [] rfl rfl
              (by simp [a']) rfl (fun s e h => by simp at h; left; omega)
            have hcl : Closed a'.u8.length a'.atoms a'.pairs :=
              (hI.closed.mono_u8 (by simp [a'])).push_atom (by simp) (Nat.le_refl _)
            have hI' : Inv a' := ⟨hcl, by cnt, hI.pairCap, hI.limit⟩
            refine ⟨?_, ?_, ?_, hI', hE⟩
            · apply abs_eq_mk <;> cnt
            · rw [treeOf_bytes]
              have hget : a'.atoms[a.atoms.length]? = some (a.u8.length, (a.u8 ++ bs.flatten).length) := by
                simp [a']
              rw [atomBytes_of_getElem? hget]
              show Tree.atom (((a.u8 ++ bs.flatten).drop a.u8.length).take
                ((a.u8 ++ bs.flatten).length - a.u8.length)) = _
              rw [List.drop_left, List.length_append, Nat.add_sub_cancel_left, List.take_length]
            · simp [Valid, PtrOk]
          · have : (bs.flatten.length != newSize) = true := bne_iff_ne.mpr hn
            rw [if_pos this, if_pos hn, take_length_append]
            exact ⟨rfl, struct_eta_u8 a⟩
        · rw [hb2]
          simp only []
          refine (?_ : Refines a (.error (.InternalError m), { a with u8 := a.u8 }) _)
          rcases hb3 with hb3 | ⟨bs, hb3, hb4⟩
          · rw [hb3]; exact ⟨rfl, struct_eta_u8 a⟩
          · rw [hb3]
            simp only []
            rw [if_pos (by omega)]
            exact ⟨rfl, struct_eta_u8 a⟩

end Clvm.Alloc
