/-
Lemmas for C22, part 2: the identity-keyed variants (`ObjectCache` + `treehash`, Python `Treehasher`).

Node identity is the label `id`.  `Consistent t`: equal ids inside `t` denote equal values (true of
every allocator: a `NodePtr` determines its node).  From it we get a function `H : id ↦ hash` that is
right on every sub-tree (`Good H t`); the caches are required / shown to agree with `H` (`CacheOK`).
Each work-list lemma says: the entry on top of the stack is processed completely (within `cnt t`
iterations) before the rest of the stack is looked at.
-/
import ClvmProofs.Lemmas.TreeHash

namespace Clvm.TreeHash
open Clvm.Hash

def NTree.subtrees : NTree → List NTree
  | .pair i l r => .pair i l r :: (l.subtrees ++ r.subtrees)
  | .buffer i b => [.buffer i b]
  | .u32 i v => [.u32 i v]

/-- equal node identities denote equal values -/
def Consistent (t : NTree) : Prop :=
  ∀ s1 ∈ t.subtrees, ∀ s2 ∈ t.subtrees, s1.id = s2.id → s1.erase = s2.erase

/-- `H` maps the identity of every sub-tree of `t` to that sub-tree's hash -/
def Good (H : Nat → Bytes) : NTree → Prop
  | .pair i l r => H i = treeHash (NTree.pair i l r).erase ∧ Good H l ∧ Good H r
  | .buffer i b => H i = treeHash (.atom b)
  | .u32 i v => H i = treeHash (.atom (Alloc.smallBytes v))

theorem Good.root {H : Nat → Bytes} {t : NTree} (h : Good H t) : H t.id = treeHash t.erase := by
  cases t with
  | pair i l r => exact h.1
  | buffer i b => exact h
  | u32 i v => exact h

theorem NTree.self_mem_subtrees (t : NTree) : t ∈ t.subtrees := by
  cases t <;> simp [NTree.subtrees]

theorem good_of_subtrees {H : Nat → Bytes} (t : NTree)
    (h : ∀ s ∈ t.subtrees, H s.id = treeHash s.erase) : Good H t := by
  induction t with
  | buffer i b => exact h (.buffer i b) (by simp [NTree.subtrees])
  | u32 i v => exact h (.u32 i v) (by simp [NTree.subtrees])
  | pair i l r ihl ihr =>
    refine ⟨h (.pair i l r) (by simp [NTree.subtrees]), ihl ?_, ihr ?_⟩
    · intro s hs; exact h s (by simp [NTree.subtrees, hs])
    · intro s hs; exact h s (by simp [NTree.subtrees, hs])

theorem consistent_good {t : NTree} (hc : Consistent t) : ∃ H, Good H t := by
  refine ⟨fun k => match t.subtrees.find? (fun s => s.id == k) with
    | some s => treeHash s.erase
    | none => [], good_of_subtrees t ?_⟩
  intro s hs
  show (match t.subtrees.find? (fun s' => s'.id == s.id) with
    | some s => treeHash s.erase
    | none => []) = treeHash s.erase
  split
  · rename_i s' hf
    have hm : s' ∈ t.subtrees := List.mem_of_find?_eq_some hf
    have hid : (s'.id == s.id) = true := List.find?_some (p := fun (s' : NTree) => s'.id == s.id) hf
    rw [hc s' hm s hs (by simpa using hid)]
  · rename_i hf
    have := List.find?_eq_none.mp hf s hs
    simp at this

/-- iterations needed for one stack entry -/
def cnt : NTree → Nat
  | .pair _ l r => cnt l + cnt r + 2
  | _ => 1

theorem cnt_pos (t : NTree) : 1 ≤ cnt t := by cases t <;> simp [cnt]

theorem cnt_le (t : NTree) : cnt t ≤ 2 * t.size := by
  induction t with
  | pair i l r ihl ihr => simp only [cnt, NTree.size]; omega
  | buffer i b => simp [cnt, NTree.size]
  | u32 i v => simp [cnt, NTree.size]

/-- every binding of the cache is the right hash -/
def CacheOK (H : Nat → Bytes) (c : Cache) : Prop := ∀ k v, c.get k = some v → v = H k

theorem cacheOK_nil (H : Nat → Bytes) : CacheOK H [] := by
  intro k v h; simp [Cache.get, List.lookup] at h

theorem Cache.get_set (c : Cache) (k k' : Nat) (v : Bytes) :
    (c.set k v).get k' = if k' = k then some v else c.get k' := by
  simp only [Cache.get, Cache.set, List.lookup_cons]
  by_cases h : k' = k
  · simp [h]
  · have : (k' == k) = false := by simpa using h
    simp [this, h]

theorem cacheOK_set {H : Nat → Bytes} {c : Cache} (hc : CacheOK H c) (k : Nat) (v : Bytes) (hv : v = H k) :
    CacheOK H (c.set k v) := by
  intro k' v' h
  rw [Cache.get_set] at h
  by_cases hk : k' = k
  · simp [hk] at h; rw [← h, hk]; exact hv
  · simp [hk] at h; exact hc _ _ h

theorem cache_mono_set {c : Cache} {k : Nat} (v : Bytes) (hn : c.get k = none) :
    ∀ k' v', c.get k' = some v' → (c.set k v).get k' = some v' := by
  intro k' v' h
  rw [Cache.get_set]
  by_cases hk : k' = k
  · rw [hk, hn] at h; cases h
  · simp [hk, h]

/-! ### `ObjectCache::calculate` with `treehash` -/

theorem ocTreehash_pair (c : Cache) (i : Nat) (l r : NTree) :
    ocTreehash c (.pair i l r) = .ok (match c.get l.id, c.get r.id with
      | some lv, some rv => some (hashBlobs [[2], lv, rv])
      | _, _ => none) := by
  cases h1 : c.get l.id <;> cases h2 : c.get r.id <;> simp [ocTreehash, h1, h2]

theorem ocTreehash_atom {H : Nat → Bytes} (c : Cache) (t : NTree) (hv : t.Valid) (hg : Good H t)
    (hna : ∀ i l r, t ≠ .pair i l r) : ocTreehash c t = .ok (some (H t.id)) := by
  cases t with
  | pair i l r => exact absurd rfl (hna i l r)
  | buffer i b =>
    have : H i = treeHash (.atom b) := hg
    simp [ocTreehash, allocAtom, hashBlobs, NTree.id, this, treeHash]
  | u32 i v =>
    have hg' : H i = treeHash (.atom (Alloc.smallBytes v)) := hg
    have hv' : v < 2 ^ 31 := hv
    simp [ocTreehash, allocAtom_u32 hv', hashBlobs, NTree.id, hg', treeHash]

/-- the result of one visit of an entry whose value can be computed now -/
structure OcStep (H : Nat → Bytes) (t : NTree) (c c' : Cache) : Prop where
  ok : CacheOK H c'
  has : c'.get t.id = some (H t.id)
  mono : ∀ k v, c.get k = some v → c'.get k = some v

/-- a visit where the entry is already cached, or `treehash` returns `Some(H id)` -/
theorem oc_visit_now {H : Nat → Bytes} (t : NTree) (objs : List NTree) (c : Cache) (F : Nat)
    (hc : CacheOK H c) (hnow : c.get t.id = none → ocTreehash c t = .ok (some (H t.id))) :
    ∃ c', ocCalculate none (F + 1) (t :: objs) c = ocCalculate none F objs c' ∧ OcStep H t c c' := by
  cases hget : c.get t.id with
  | some v =>
    refine ⟨c, ?_, hc, ?_, fun _ _ h => h⟩
    · simp [ocCalculate, hget]
    · rw [hget, hc _ _ hget]
  | none =>
    refine ⟨c.set t.id (H t.id), ?_, cacheOK_set hc _ _ rfl, ?_, cache_mono_set _ hget⟩
    · simp [ocCalculate, hget, hnow hget]
    · simp [Cache.get_set]

theorem oc_node {H : Nat → Bytes} (t : NTree) (hv : t.Valid) (hg : Good H t) :
    ∀ (objs : List NTree) (c : Cache) (F : Nat), CacheOK H c → cnt t ≤ F →
      ∃ c' F', F - cnt t ≤ F' ∧
        ocCalculate none F (t :: objs) c = ocCalculate none F' objs c' ∧ OcStep H t c c' := by
  induction t with
  | buffer i b =>
    intro objs c F hc hF
    obtain ⟨F1, rfl⟩ : ∃ F1, F = F1 + 1 := ⟨F - 1, by simp [cnt] at hF; omega⟩
    obtain ⟨c', h1, h2⟩ := oc_visit_now (H := H) (.buffer i b) objs c F1 hc
      (fun _ => ocTreehash_atom c _ hv hg (by intro _ _ _ h; cases h))
    exact ⟨c', F1, by simp only [cnt]; omega, h1, h2⟩
  | u32 i v =>
    intro objs c F hc hF
    obtain ⟨F1, rfl⟩ : ∃ F1, F = F1 + 1 := ⟨F - 1, by simp [cnt] at hF; omega⟩
    obtain ⟨c', h1, h2⟩ := oc_visit_now (H := H) (.u32 i v) objs c F1 hc
      (fun _ => ocTreehash_atom c _ hv hg (by intro _ _ _ h; cases h))
    exact ⟨c', F1, by simp only [cnt]; omega, h1, h2⟩
  | pair i l r ihl ihr =>
    intro objs c F hc hF
    have hgl : Good H l := hg.2.1
    have hgr : Good H r := hg.2.2
    have hroot : H i = sha256 (2 :: (H l.id ++ H r.id)) := by
      rw [hg.1, hgl.root, hgr.root]; rfl
    simp only [cnt] at hF
    have hid : (NTree.pair i l r).id = i := rfl
    obtain ⟨F1, rfl⟩ : ∃ F1, F = F1 + 1 := ⟨F - 1, by omega⟩
    -- when both children are cached the visit completes at once
    have finish : ∀ (c2 : Cache) (G : Nat), CacheOK H c2 → c2.get l.id = some (H l.id) →
        c2.get r.id = some (H r.id) →
        ∃ c', ocCalculate none (G + 1) (.pair i l r :: objs) c2 = ocCalculate none G objs c' ∧
          OcStep H (.pair i l r) c2 c' := by
      intro c2 G hc2 hl hr
      apply oc_visit_now (H := H) (.pair i l r) objs c2 G hc2
      intro _
      rw [ocTreehash_pair, hl, hr]
      simp [hashBlobs, hid, hroot]
    cases hget : c.get i with
    | some v =>
      obtain ⟨c', h1, h2⟩ := oc_visit_now (H := H) (.pair i l r) objs c F1 hc
        (fun h => by rw [hid, hget] at h; cases h)
      exact ⟨c', F1, by simp only [cnt]; omega, h1, h2⟩
    | none =>
      cases hl : c.get l.id with
      | some lv =>
        cases hr : c.get r.id with
        | some rv =>
          have hl' : c.get l.id = some (H l.id) := by rw [hl, hc _ _ hl]
          have hr' : c.get r.id = some (H r.id) := by rw [hr, hc _ _ hr]
          obtain ⟨c', h1, h2⟩ := finish c F1 hc hl' hr'
          exact ⟨c', F1, by simp only [cnt]; omega, h1, h2⟩
        | none =>
          -- push node, left, right; right is on top
          have hstep : ocCalculate none (F1 + 1) (.pair i l r :: objs) c
              = ocCalculate none F1 (r :: l :: .pair i l r :: objs) c := by
            simp [ocCalculate, hid, hget, ocTreehash_pair, hl, hr]
          obtain ⟨c1, F2, hF2, e1, s1⟩ := ihr hv.2 hgr (l :: .pair i l r :: objs) c F1 hc (by omega)
          obtain ⟨c2, F3, hF3, e2, s2⟩ := ihl hv.1 hgl (.pair i l r :: objs) c1 F2 s1.ok (by omega)
          obtain ⟨F4, rfl⟩ : ∃ F4, F3 = F4 + 1 := ⟨F3 - 1, by omega⟩
          obtain ⟨c3, e3, s3⟩ := finish c2 F4 s2.ok s2.has (s2.mono _ _ s1.has)
          refine ⟨c3, F4, by simp only [cnt]; omega, by rw [hstep, e1, e2, e3], s3.ok, s3.has, ?_⟩
          intro k v h
          exact s3.mono _ _ (s2.mono _ _ (s1.mono _ _ h))
      | none =>
        have hstep : ocCalculate none (F1 + 1) (.pair i l r :: objs) c
            = ocCalculate none F1 (r :: l :: .pair i l r :: objs) c := by
          simp [ocCalculate, hid, hget, ocTreehash_pair, hl]
        obtain ⟨c1, F2, hF2, e1, s1⟩ := ihr hv.2 hgr (l :: .pair i l r :: objs) c F1 hc (by omega)
        obtain ⟨c2, F3, hF3, e2, s2⟩ := ihl hv.1 hgl (.pair i l r :: objs) c1 F2 s1.ok (by omega)
        obtain ⟨F4, rfl⟩ : ∃ F4, F3 = F4 + 1 := ⟨F3 - 1, by omega⟩
        obtain ⟨c3, e3, s3⟩ := finish c2 F4 s2.ok s2.has (s2.mono _ _ s1.has)
        refine ⟨c3, F4, by simp only [cnt]; omega, by rw [hstep, e1, e2, e3], s3.ok, s3.has, ?_⟩
        intro k v h
        exact s3.mono _ _ (s2.mono _ _ (s1.mono _ _ h))

/-- `get_or_calculate(node, None)` on a cache that is right returns the tree hash and leaves a cache
that is right (so a cache may be reused across calls, as `intern.rs` / `ser_br.rs` do). -/
theorem ocGetOrCalculate_eq {H : Nat → Bytes} (t : NTree) (hv : t.Valid) (hg : Good H t) (c : Cache)
    (hc : CacheOK H c) :
    ∃ c', ocGetOrCalculate c t none = .ok (some (treeHash t.erase), c') ∧ CacheOK H c' := by
  obtain ⟨c', F', _, e, s⟩ := oc_node t hv hg [] c (ocFuel t) hc (by have := cnt_le t; simp [ocFuel]; omega)
  refine ⟨c', ?_, s.ok⟩
  unfold ocGetOrCalculate
  rw [e]
  have : ocCalculate none F' [] c' = .ok c' := by cases F' <;> simp [ocCalculate]
  simp [this, s.has, hg.root]

/-! ### Python `Treehasher.sha256_treehash` -/

theorem cacheOK_pySet {H : Nat → Bytes} {settable : Nat → Bool} {attrs : Cache} (hc : CacheOK H attrs)
    (obj : NTree) (r : Bytes) (hr : r = H obj.id) : CacheOK H (pySetCached settable attrs obj r) := by
  unfold pySetCached
  split
  · exact cacheOK_set hc _ _ hr
  · exact hc

theorem py_node {H : Nat → Bytes} (settable : Nat → Bool) (t : NTree) (hv : t.Valid) (hg : Good H t) :
    ∀ (ops : List PyOp) (objs : List NTree) (hs : List Bytes) (attrs : Cache) (F : Nat),
      CacheOK H attrs → cnt t ≤ F →
      ∃ attrs' F', F - cnt t ≤ F' ∧ CacheOK H attrs' ∧
        pyLoop settable F (.handleObj :: ops) (t :: objs) hs attrs
          = pyLoop settable F' ops objs (treeHash t.erase :: hs) attrs' := by
  induction t with
  | buffer i b =>
    intro ops objs hs attrs F hc hF
    obtain ⟨F1, rfl⟩ : ∃ F1, F = F1 + 1 := ⟨F - 1, by simp [cnt] at hF; omega⟩
    have hH : H i = treeHash (.atom b) := hg
    cases hget : attrs.get i with
    | some r =>
      refine ⟨attrs, F1, by simp only [cnt]; omega, hc, ?_⟩
      have : r = treeHash (.atom b) := by rw [hc _ _ hget, hH]
      simp [pyLoop, NTree.id, hget, this, NTree.erase]
    | none =>
      refine ⟨pySetCached settable attrs (.buffer i b) (shatreeAtom b), F1, by simp only [cnt]; omega,
        cacheOK_pySet hc _ _ (by simp [NTree.id, hH, shatreeAtom, treeHash]), ?_⟩
      simp [pyLoop, NTree.id, hget, pyAtom, NTree.erase, shatreeAtom, treeHash]
  | u32 i v =>
    intro ops objs hs attrs F hc hF
    obtain ⟨F1, rfl⟩ : ∃ F1, F = F1 + 1 := ⟨F - 1, by simp [cnt] at hF; omega⟩
    have hH : H i = treeHash (.atom (Alloc.smallBytes v)) := hg
    cases hget : attrs.get i with
    | some r =>
      refine ⟨attrs, F1, by simp only [cnt]; omega, hc, ?_⟩
      have : r = treeHash (.atom (Alloc.smallBytes v)) := by rw [hc _ _ hget, hH]
      simp [pyLoop, NTree.id, hget, this, NTree.erase]
    | none =>
      refine ⟨pySetCached settable attrs (.u32 i v) (shatreeAtom (Alloc.smallBytes v)), F1, by simp only [cnt]; omega,
        cacheOK_pySet hc _ _ (by simp [NTree.id, hH, shatreeAtom, treeHash]), ?_⟩
      simp [pyLoop, NTree.id, hget, pyAtom, NTree.erase, shatreeAtom, treeHash]
  | pair i l r ihl ihr =>
    intro ops objs hs attrs F hc hF
    have hgl : Good H l := hg.2.1
    have hgr : Good H r := hg.2.2
    simp only [cnt] at hF
    have hid : (NTree.pair i l r).id = i := rfl
    obtain ⟨F1, rfl⟩ : ∃ F1, F = F1 + 1 := ⟨F - 1, by omega⟩
    cases hget : attrs.get i with
    | some v =>
      refine ⟨attrs, F1, by simp only [cnt]; omega, hc, ?_⟩
      have : v = treeHash (NTree.pair i l r).erase := by rw [hc _ _ hget, hg.1]
      simp [pyLoop, hid, hget, this]
    | none =>
      have hstep : pyLoop settable (F1 + 1) (.handleObj :: ops) (.pair i l r :: objs) hs attrs
          = pyLoop settable F1 (.handleObj :: .handleObj :: .handlePair :: ops)
              (r :: l :: .pair i l r :: objs) hs attrs := by
        simp [pyLoop, hid, hget, pyAtom]
      obtain ⟨a1, F2, hF2, hc1, e1⟩ :=
        ihr hv.2 hgr (.handleObj :: .handlePair :: ops) (l :: .pair i l r :: objs) hs attrs F1 hc (by omega)
      obtain ⟨a2, F3, hF3, hc2, e2⟩ :=
        ihl hv.1 hgl (.handlePair :: ops) (.pair i l r :: objs) (treeHash r.erase :: hs) a1 F2 hc1 (by omega)
      obtain ⟨F4, rfl⟩ : ∃ F4, F3 = F4 + 1 := ⟨F3 - 1, by omega⟩
      have hr : shatreePair (treeHash l.erase) (treeHash r.erase) = treeHash (NTree.pair i l r).erase := by
        simp [shatreePair, NTree.erase, treeHash]
      refine ⟨pySetCached settable a2 (.pair i l r) (treeHash (NTree.pair i l r).erase), F4,
        by simp only [cnt]; omega, cacheOK_pySet hc2 _ _ (by rw [hid, hg.1]), ?_⟩
      rw [hstep, e1, e2]
      simp [pyLoop, hr]

theorem pySha256Treehash_eq {H : Nat → Bytes} (settable : Nat → Bool) (t : NTree) (hv : t.Valid)
    (hg : Good H t) (attrs : Cache) (hc : CacheOK H attrs) :
    ∃ attrs', pySha256Treehash settable attrs t = .ok (treeHash t.erase, attrs') ∧ CacheOK H attrs' := by
  obtain ⟨a', F', _, hc', e⟩ := py_node settable t hv hg [] [] [] attrs (3 * t.size + 1) hc
    (by have := cnt_le t; omega)
  refine ⟨a', ?_, hc'⟩
  unfold pySha256Treehash
  rw [e]
  have : pyLoop settable F' [] [] [treeHash t.erase] a' = .ok ([treeHash t.erase], a') := by
    cases F' <;> simp [pyLoop]
  simp [this]

end Clvm.TreeHash
