/-
C18: `serialized_length_from_bytes` (the shadow-tree probe) is in lock step with the legacy
decoder: its shadow stack is the *shape* of the decoder's stack, it consumes the same bytes, and it
succeeds on exactly the same inputs — provided the decoder cannot hit an atom-count or heap limit,
which the probe (allocating no atoms) cannot see.
-/
import ClvmProofs.Lemmas.BackrefTotal

namespace Clvm.Backref
open Clvm Clvm.Serde Clvm.Serde.Backref Clvm.Serde.TraversePath

/-- the probe's shadow of a value: every atom is `nil` -/
def shape : Tree → Tree
  | .atom _ => Tree.nil
  | .pair l r => .pair (shape l) (shape r)

theorem shape_ite (p : Prop) [Decidable p] (a b : Tree) : shape (if p then a else b) = if p then shape a else shape b := by
  split <;> rfl

theorem tpLoop_shape (idx : Bytes) (first lastMask : Nat) :
    ∀ (fuel byteIdx bitmask : Nat) (t : Tree) (cost : Nat),
      Sim (fun r q => r.1 = q.1 ∧ shape r.2 = q.2)
        (tpLoop idx first lastMask fuel byteIdx bitmask t cost)
        (tpLoop idx first lastMask fuel byteIdx bitmask (shape t) cost) := by
  intro fuel
  induction fuel with
  | zero => intros; exact .err rfl
  | succ fuel ih =>
    intro byteIdx bitmask t cost
    unfold tpLoop
    by_cases hcond : byteIdx > first ∨ bitmask < lastMask
    · simp only [hcond, if_true]
      cases hb : idx[byteIdx]? with
      | none => exact .err rfl
      | some b =>
        simp only []
        cases t with
        | atom a => exact .err rfl
        | pair l r =>
          simp only [shape]
          by_cases h80 : (bitmask == 0x80) = true
          · simp only [h80, if_true]
            by_cases h0 : (byteIdx == 0) = true
            · simp only [h0, if_true]; exact .err rfl
            · simp only [h0]
              rw [← shape_ite]; exact ih _ _ _ _
          · simp only [h80]
            rw [← shape_ite]; exact ih _ _ _ _
    · simp only [hcond, if_false]
      exact .ok ⟨rfl, rfl⟩

theorem traversePath_shape (idx : Bytes) (t : Tree) :
    Sim (fun r q => r.1 = q.1 ∧ shape r.2 = q.2) (traversePath idx t) (traversePath idx (shape t)) := by
  unfold traversePath
  simp only []
  by_cases hf : firstNonZero idx ≥ idx.length
  · simp only [hf, if_true]; exact .ok ⟨rfl, rfl⟩
  · simp only [hf, if_false]
    cases idx[firstNonZero idx]? with
    | none => exact .err rfl
    | some fb => exact tpLoop_shape _ _ _ _ _ _ _ _

/-! ### decoder ↔ probe -/

theorem markers_eq : Gen.deBrConsBoxMarker = Gen.toolsConsBoxMarker ∧
    Gen.deBrBackReference = Gen.toolsBackReference ∧ Gen.toolsMaxSingleByte = Classic.MAX_SINGLE_BYTE := by
  decide

/-- decoder counters vs probe counters -/
def PRel (inp : Bytes) (c p : Ctr) : Prop :=
  PairInv c ∧ p.pairs + p.ghostPairs = c.pairs + c.ghostPairs ∧
    c.atoms + inp.length < Gen.maxNumAtoms ∧ c.heap + inp.length ≤ c.heapLimit

theorem newAtom_ok (c : Ctr) (blob : Bytes) (h1 : c.atoms < Gen.maxNumAtoms) (h2 : c.heap + blob.length ≤ c.heapLimit) :
    c.newAtom blob = .ok { c with atoms := c.atoms + 1, heap := c.heap + blob.length } := by
  unfold Ctr.newAtom
  rw [if_neg (by omega)]
  have : (c.atoms == Gen.maxNumAtoms) = false := by
    have : c.atoms ≠ Gen.maxNumAtoms := by omega
    simpa using this
  rw [this]; rfl

theorem shape_stack_snoc (xs : List Tree) (a : Tree) :
    shape (stackTree (xs ++ [a])) = Tree.pair (shape a) (shape (stackTree xs)) := by
  rw [stackTree_snoc]; rfl

theorem probe_sim : ∀ (n : Nat) (inp : Bytes), inp.length = n → ∀ (ops : List ParseOp)
    (vals : List Tree) (c p : Ctr), okOps ops vals.length → PRel inp c p →
    Sim (fun r q => r.2.1 = q.1) (deBrOld inp ops (stackTree vals) c)
      (lenLoop inp ops (shape (stackTree vals)) p) := by
  obtain ⟨mk1, mk2, mk3⟩ := markers_eq
  intro n
  induction n using Nat.strongRecOn with
  | _ n ihn =>
    intro inp hlen ops
    induction ops with
    | nil =>
      intro vals c p hok hrel
      unfold deBrOld lenLoop
      rcases eq_nil_or_snoc vals with hv | ⟨init, last, hv⟩
      · subst hv; simp [okOps] at hok
      · subst hv; rw [shape_stack_snoc, stackTree_snoc]; exact .ok rfl
    | cons op ops' iho =>
      intro vals c p hok hrel
      obtain ⟨hp, htot, hat, hheap⟩ := hrel
      have hpp : PairInv p := by unfold PairInv at *; omega
      cases op with
      | sexp =>
        unfold deBrOld lenLoop
        cases inp with
        | nil => exact .err rfl
        | cons b rest =>
          simp only []
          have hrl : rest.length < n := by simp at hlen; omega
          simp only [List.length_cons] at hat hheap
          rw [← mk1, ← mk2]
          by_cases hff : (b.toNat == Gen.deBrConsBoxMarker) = true
          · simp only [hff, if_true]
            exact ihn _ hrl rest rfl _ vals c p (by simpa [okOps] using hok)
              ⟨hp, htot, by omega, by omega⟩
          · simp only [hff, Bool.false_eq_true, if_false]
            by_cases hfe : (b.toNat == Gen.deBrBackReference) = true
            · simp only [hfe, if_true]
              cases hpp' : parsePath rest with
              | error e => exact .err rfl
              | ok r =>
                obtain ⟨k, path⟩ := r
                simp only []
                have hs := traversePath_shape path (stackTree vals)
                revert hs
                generalize traversePath path (stackTree vals) = X
                generalize traversePath path (shape (stackTree vals)) = Y
                intro hs
                cases hs with
                | err he => exact .err he
                | ok hR =>
                  rename_i r q
                  obtain ⟨cost, node⟩ := r
                  obtain ⟨cost', node'⟩ := q
                  obtain ⟨_, hn⟩ := hR
                  simp only at hn
                  subst hn
                  simp only []
                  rw [newPair_eq c hp, newPair_eq p hpp, htot]
                  by_cases hfull : c.pairs + c.ghostPairs = Gen.maxNumPairs
                  · rw [if_pos hfull, if_pos hfull]; exact .err rfl
                  · rw [if_neg hfull, if_neg hfull]
                    simp only []
                    have hkl : (rest.drop k).length ≤ rest.length := by simp
                    rw [← stackTree_snoc, ← shape_stack_snoc]
                    apply ihn _ (by omega) _ rfl
                    · simpa [okOps] using hok
                    · refine ⟨?_, ?_, by show c.atoms + _ < _; omega, by show c.heap + _ ≤ c.heapLimit; omega⟩
                      · unfold PairInv at *; show c.pairs + 1 + c.ghostPairs ≤ _; omega
                      · show p.pairs + 1 + p.ghostPairs = c.pairs + 1 + c.ghostPairs; omega
            · simp only [hfe, Bool.false_eq_true, if_false]
              -- an atom token
              have hcont : ∀ (k : Nat) (a : Bytes) (c1 : Ctr), c1.pairs = c.pairs → c1.ghostPairs = c.ghostPairs →
                  c1.atoms + (rest.drop k).length < Gen.maxNumAtoms →
                  c1.heap + (rest.drop k).length ≤ c1.heapLimit →
                  Sim (fun (r : Tree × Bytes × Ctr) (q : Bytes × Ctr) => r.2.1 = q.1)
                    (match c1.newPair with
                      | .error e => .error e
                      | .ok c2 => deBrOld (rest.drop k) ops' (Tree.pair (.atom a) (stackTree vals)) c2)
                    (match p.newPair with
                      | .error e => .error e
                      | .ok c1 => lenLoop (rest.drop k) ops' (Tree.pair Tree.nil (shape (stackTree vals))) c1) := by
                intro k a c1 q1 q2 q4 q5
                have hp1 : PairInv c1 := by unfold PairInv at *; omega
                rw [newPair_eq c1 hp1, newPair_eq p hpp, htot, q1, q2]
                by_cases hfull : c.pairs + c.ghostPairs = Gen.maxNumPairs
                · rw [if_pos hfull, if_pos hfull]; exact .err rfl
                · rw [if_neg hfull, if_neg hfull]
                  simp only []
                  have hkl : (rest.drop k).length ≤ rest.length := by simp
                  have hsh : Tree.pair Tree.nil (shape (stackTree vals)) = shape (stackTree (vals ++ [.atom a])) := by
                    rw [shape_stack_snoc]; rfl
                  rw [hsh, ← stackTree_snoc]
                  apply ihn _ (by omega) _ rfl
                  · simpa [okOps] using hok
                  · refine ⟨?_, ?_, q4, q5⟩
                    · unfold PairInv at *; show c.pairs + 1 + c.ghostPairs ≤ _; omega
                    · show p.pairs + 1 + p.ghostPairs = c.pairs + 1 + c.ghostPairs; omega
              have hcont0 := hcont 0
              simp only [List.drop_zero] at hcont0
              unfold parseAtom
              by_cases hb1 : (b.toNat == 0x01) = true
              · have hb1' : b.toNat = 1 := by simpa using hb1
                have hc1 : (b.toNat == 0x80 || decide (b.toNat ≤ Gen.toolsMaxSingleByte)) = true := by
                  rw [hb1']; decide
                simp only [hb1, if_true, hc1]
                exact hcont0 [1] c rfl rfl (by omega) (by omega)
              · simp only [hb1, Bool.false_eq_true, if_false]
                by_cases hb2 : (b.toNat == 0x80) = true
                · simp only [hb2, if_true, Bool.true_or]
                  exact hcont0 [] c rfl rfl (by omega) (by omega)
                · simp only [hb2, Bool.false_eq_true, if_false, Bool.false_or]
                  unfold Classic.parseAtomPtr
                  rw [mk3]
                  by_cases hb3 : b.toNat ≤ Classic.MAX_SINGLE_BYTE
                  · simp only [hb3, if_true, decide_true]
                    rw [newAtom_ok c [b] (by omega) (by simp; omega)]
                    simp only []
                    exact hcont0 [b] _ rfl rfl (by show c.atoms + 1 + _ < _; omega)
                      (by show c.heap + [b].length + _ ≤ c.heapLimit; simp; omega)
                  · simp only [hb3, if_false, decide_false, Bool.false_eq_true]
                    cases hds : Classic.decodeSize rest b.toNat with
                    | error e => exact .err rfl
                    | ok r =>
                      obtain ⟨off, size⟩ := r
                      simp only []
                      by_cases hsz : (List.drop (off - 1) rest).length < size
                      · simp only [hsz, if_true]; exact .err rfl
                      · simp only [hsz, if_false]
                        have hlen1 : (List.drop (off - 1) rest).length = rest.length - (off - 1) := by simp
                        have htk : (List.take size (List.drop (off - 1) rest)).length = size := by
                          rw [List.length_take]; omega
                        have hdd : List.drop size (List.drop (off - 1) rest) = List.drop (off - 1 + size) rest := by
                          rw [List.drop_drop]
                        have hlen2 : (List.drop (off - 1 + size) rest).length = rest.length - (off - 1 + size) := by simp
                        rw [newAtom_ok c _ (by omega) (by rw [htk]; omega)]
                        simp only []
                        rw [hdd]
                        exact hcont (off - 1 + size) _ _ rfl rfl
                          (by show c.atoms + 1 + _ < _; rw [hlen2]; omega)
                          (by show c.heap + (List.take size (List.drop (off - 1) rest)).length + _ ≤ c.heapLimit
                              rw [htk, hlen2]; omega)
      | cons =>
        obtain ⟨h2, hok'⟩ := hok
        unfold deBrOld lenLoop
        rcases eq_nil_or_snoc vals with hv | ⟨init, right, hv⟩
        · subst hv; simp at h2
        · subst hv
          rcases eq_nil_or_snoc init with hv2 | ⟨init2, left, hv2⟩
          · subst hv2; simp at h2
          · subst hv2
            simp only [stackTree_snoc, shape]
            rw [newPair_eq c hp, newPair_eq p hpp, htot]
            by_cases hfull : c.pairs + c.ghostPairs = Gen.maxNumPairs
            · rw [if_pos hfull, if_pos hfull]; exact .err rfl
            · rw [if_neg hfull, if_neg hfull]
              simp only []
              have hpa : PairInv { c with pairs := c.pairs + 1 } := by
                unfold PairInv at *; show c.pairs + 1 + c.ghostPairs ≤ _; omega
              have hpb : PairInv { p with pairs := p.pairs + 1 } := by
                unfold PairInv at *; show p.pairs + 1 + p.ghostPairs ≤ _; omega
              rw [newPair_eq _ hpa, newPair_eq _ hpb]
              have e1 : ({ c with pairs := c.pairs + 1 } : Ctr).pairs + ({ c with pairs := c.pairs + 1 } : Ctr).ghostPairs
                  = c.pairs + c.ghostPairs + 1 := by show c.pairs + 1 + c.ghostPairs = _; omega
              have e2 : ({ p with pairs := p.pairs + 1 } : Ctr).pairs + ({ p with pairs := p.pairs + 1 } : Ctr).ghostPairs
                  = c.pairs + c.ghostPairs + 1 := by show p.pairs + 1 + p.ghostPairs = _; omega
              rw [e1, e2]
              by_cases hfull2 : c.pairs + c.ghostPairs + 1 = Gen.maxNumPairs
              · rw [if_pos hfull2, if_pos hfull2]; exact .err rfl
              · rw [if_neg hfull2, if_neg hfull2]
                simp only []
                have hsh : Tree.pair (Tree.pair (shape left) (shape right)) (shape (stackTree init2))
                    = shape (stackTree (init2 ++ [Tree.pair left right])) := by
                  rw [shape_stack_snoc]; rfl
                rw [hsh, ← stackTree_snoc]
                apply iho
                · simp only [List.length_append, List.length_cons, List.length_nil] at hok' ⊢
                  have : init2.length + 0 + 1 + (0 + 1) - 1 = init2.length + (0 + 1) := by omega
                  rw [this] at hok'; exact hok'
                · refine ⟨?_, ?_, hat, hheap⟩
                  · unfold PairInv at *; show c.pairs + 1 + 1 + c.ghostPairs ≤ _; omega
                  · show p.pairs + 1 + 1 + p.ghostPairs = c.pairs + 1 + 1 + c.ghostPairs; omega

/-! ### the probe never panics -/

theorem lenLoop_noPanic : ∀ (n : Nat) (inp : Bytes), inp.length = n → ∀ (ops : List ParseOp)
    (S : Tree) (p : Ctr), PairInv p → NoPanic (lenLoop inp ops S p) := by
  obtain ⟨_, _, mk3⟩ := markers_eq
  intro n
  induction n using Nat.strongRecOn with
  | _ n ihn =>
    intro inp hlen ops
    induction ops with
    | nil =>
      intro S p _
      unfold lenLoop
      cases S <;> trivial
    | cons op ops' iho =>
      intro S p hp
      have hstep : ∀ (inp' : Bytes) (S' : Tree), inp'.length < n →
          NoPanic (match p.newPair with
            | .error e => .error e
            | .ok c1 => lenLoop inp' ops' S' c1) := by
        intro inp' S' hl
        rw [newPair_eq p hp]
        by_cases hfull : p.pairs + p.ghostPairs = Gen.maxNumPairs
        · rw [if_pos hfull]; trivial
        · rw [if_neg hfull]
          simp only []
          exact ihn _ hl _ rfl _ _ _ (by unfold PairInv at *; show p.pairs + 1 + p.ghostPairs ≤ _; omega)
      cases op with
      | sexp =>
        unfold lenLoop
        cases inp with
        | nil => trivial
        | cons b rest =>
          simp only []
          have hrl : rest.length < n := by simp at hlen; omega
          split
          · exact ihn _ hrl rest rfl _ _ _ hp
          · split
            · have h1 := parsePath_noPanic rest
              revert h1
              generalize parsePath rest = X
              intro h1
              cases X with
              | error e => simp only []; exact h1.cast
              | ok r =>
                obtain ⟨k, path⟩ := r
                simp only []
                have h2 := traversePath_noPanic path S
                revert h2
                generalize traversePath path S = Y
                intro h2
                cases Y with
                | error e => simp only []; exact h2.cast
                | ok q =>
                  obtain ⟨cost, node⟩ := q
                  simp only []
                  have hkl : (rest.drop k).length ≤ rest.length := by simp
                  exact hstep _ _ (by omega)
            · split
              · exact hstep _ _ hrl
              · rename_i hne
                have hgt : 127 < b.toNat := by
                  rw [mk3] at hne
                  unfold Classic.MAX_SINGLE_BYTE at hne
                  simp only [Bool.or_eq_true, beq_iff_eq, decide_eq_true_eq, not_or] at hne
                  omega
                have h1 := decodeSize_noPanic rest b.toNat (UInt8.toNat_lt b) hgt
                revert h1
                generalize Classic.decodeSize rest b.toNat = X
                intro h1
                cases X with
                | error e => simp only []; exact h1.cast
                | ok r =>
                  obtain ⟨off, size⟩ := r
                  simp only []
                  split
                  · trivial
                  · have hkl : (List.drop size (List.drop (off - 1) rest)).length ≤ rest.length := by simp
                    exact hstep _ _ (by omega)
      | cons =>
        unfold lenLoop
        cases S with
        | atom a => trivial
        | pair v1 v2 =>
          cases v2 with
          | atom a => trivial
          | pair v3 v4 =>
            simp only []
            rw [newPair_eq p hp]
            by_cases hfull : p.pairs + p.ghostPairs = Gen.maxNumPairs
            · rw [if_pos hfull]; trivial
            · rw [if_neg hfull]
              simp only []
              have hpa : PairInv { p with pairs := p.pairs + 1 } := by
                unfold PairInv at *; show p.pairs + 1 + p.ghostPairs ≤ _; omega
              rw [newPair_eq _ hpa]
              have e1 : ({ p with pairs := p.pairs + 1 } : Ctr).pairs + ({ p with pairs := p.pairs + 1 } : Ctr).ghostPairs
                  = p.pairs + 1 + p.ghostPairs := rfl
              rw [e1]
              by_cases hfull2 : p.pairs + 1 + p.ghostPairs = Gen.maxNumPairs
              · rw [if_pos hfull2]; trivial
              · rw [if_neg hfull2]
                simp only []
                exact iho _ _ (by unfold PairInv at *; show p.pairs + 1 + 1 + p.ghostPairs ≤ _; omega)

end Clvm.Backref
