/-
serde_2026: `emit_instructions` (the work-stack loop `emitLoop`) simulated against the decoder's
instruction semantics (`execList`).

For an interned table `(A, P)` in post-order (`EmitCtx.pairWF`), a serializer state whose `pairs` are
the index pairs of `P`, and any decoder atom table `atoms'` in which the instruction pushed for atom
`k` reads back `A[k]` (`EmitCtx.atom`): handling `Build(ix n)` consumes a bounded number of loop
iterations, appends instructions whose execution pushes exactly `treeOf A P n` on the decoder's stack,
and maintains the correspondence `CoInv` between `construction_order` and the decoder's `pairs` vector.
-/
import ClvmProofs.Lemmas.Serde2026Wire
import ClvmProofs.Lemmas.InternInv

namespace Clvm.Serde2026
open Clvm Clvm.Intern Clvm.Varint

/-- the index `node_to_index` assigns to an interned node -/
def ix : INode → Int
  | .atom k => (k : Int)
  | .pair k => -((k : Int) + 1)

/-- the index of pair `j` -/
def pkey (j : Nat) : Int := -((j : Int) + 1)

theorem pkey_inj {j k : Nat} (h : pkey j = pkey k) : j = k := by unfold pkey at h; omega

theorem pkey_neg (j : Nat) : ¬ (pkey j ≥ 0) := by unfold pkey; omega

theorem pkey_toNat (j : Nat) : (-(pkey j) - 1).toNat = j := by unfold pkey; omega

/-! ### pairs not yet in `construction_order` -/

/-- number of pair indices below `N` that have no binding in `construction_order` -/
def unbuilt (N : Nat) (co : List (Int × Int)) : Nat :=
  (List.range N).countP (fun j => (co.lookup (pkey j)).isNone)

theorem lookup_pkey_cons (co : List (Int × Int)) (k j : Nat) (v : Int) :
    List.lookup (pkey j) ((pkey k, v) :: co) = if j = k then some v else List.lookup (pkey j) co := by
  rw [List.lookup_cons]
  by_cases h : j = k
  · subst h; simp
  · have : (pkey j == pkey k) = false := by
      cases hq : (pkey j == pkey k) with
      | false => rfl
      | true => exact absurd (pkey_inj (beq_iff_eq.1 hq)) h
    rw [this, if_neg h]

theorem unbuilt_cons (co : List (Int × Int)) (k : Nat) (v : Int) (hk : co.lookup (pkey k) = none) (N : Nat) :
    (k < N → unbuilt N ((pkey k, v) :: co) + 1 = unbuilt N co) ∧
    (N ≤ k → unbuilt N ((pkey k, v) :: co) = unbuilt N co) := by
  induction N with
  | zero => simp [unbuilt]
  | succ N ih =>
    unfold unbuilt at ih ⊢
    rw [List.range_succ, List.countP_append, List.countP_append]
    simp only [List.countP_cons, List.countP_nil, Nat.zero_add]
    rw [lookup_pkey_cons]
    constructor
    · intro hlt
      by_cases hN : N = k
      · subst hN
        have := ih.2 (Nat.le_refl _)
        rw [this, hk]; simp
      · have := ih.1 (by omega)
        rw [if_neg hN]; omega
    · intro hge
      have := ih.2 (by omega)
      rw [if_neg (show ¬ N = k by omega), this]

theorem unbuilt_pos (co : List (Int × Int)) (k N : Nat) (hk : co.lookup (pkey k) = none) (hN : k < N) :
    1 ≤ unbuilt N co := by
  unfold unbuilt
  apply List.countP_pos_iff.2
  exact ⟨k, List.mem_range.2 hN, by rw [hk]; rfl⟩

theorem unbuilt_nil (N : Nat) : unbuilt N [] = N := by
  unfold unbuilt
  simp [List.lookup]

/-! ### single iterations of the work loop -/

theorem emit_step_atom (st : SerializerState) (fuel : Nat) (idx inst : Int) (ws : List Op)
    (co : List (Int × Int)) (ins : List Int) (h0 : idx ≥ 0) (ha : atomInstruction st idx = .ok inst) :
    emitLoop st (fuel + 1) (.build idx :: ws) co ins = emitLoop st fuel ws co (ins ++ [inst]) := by
  rw [emitLoop]
  simp only [h0, if_true, ha]

theorem emit_step_ref (st : SerializerState) (fuel : Nat) (idx ci : Int) (ws : List Op)
    (co : List (Int × Int)) (ins : List Int) (h0 : ¬ idx ≥ 0) (hc : co.lookup idx = some ci) :
    emitLoop st (fuel + 1) (.build idx :: ws) co ins = emitLoop st fuel ws co (ins ++ [-(ci + 2)]) := by
  rw [emitLoop]
  simp only [h0, if_false, hc]

theorem emit_step_expand (st : SerializerState) (fuel : Nat) (idx l r : Int) (ws : List Op)
    (co : List (Int × Int)) (ins : List Int) (h0 : ¬ idx ≥ 0) (hc : co.lookup idx = none)
    (hp : st.pairs[(-idx - 1).toNat]? = some (l, r)) :
    emitLoop st (fuel + 1) (.build idx :: ws) co ins =
      emitLoop st fuel (.build l :: .build r :: .cons idx .leftFirst :: ws) co ins := by
  rw [emitLoop]
  simp only [h0, if_false, hc, hp, leftFirstDecide]

theorem emit_step_cons (st : SerializerState) (fuel : Nat) (pi : Int) (dir : Direction) (ws : List Op)
    (co : List (Int × Int)) (ins : List Int) :
    emitLoop st (fuel + 1) (.cons pi dir :: ws) co ins =
      emitLoop st fuel ws ((pi, (co.length : Int)) :: co) (ins ++ [dir.consOpcode]) := by
  rw [emitLoop]

/-! ### list-level execution -/

theorem execList_append (atoms : List Bytes) (is1 is2 : List Int) (s s1 : DState)
    (h : execList atoms is1 s = .ok s1) : execList atoms (is1 ++ is2) s = execList atoms is2 s1 := by
  induction is1 generalizing s with
  | nil => rw [execList] at h; cases h; rfl
  | cons i tl ih =>
    rw [execList] at h
    rw [List.cons_append, execList]
    cases he : execInst atoms s i with
    | error e => rw [he] at h; cases h
    | ok s' => rw [he] at h; exact ih s' h

theorem execList_single (atoms : List Bytes) (i : Int) (s s1 : DState)
    (h : execInst atoms s i = .ok s1) : execList atoms [i] s = .ok s1 := by
  rw [execList, h]; rfl

/-- a back-reference instruction pushes the referenced pair -/
theorem execInst_ref (atoms : List Bytes) (s : DState) (m : Nat) (t : Tree) (hm : s.pairs[m]? = some t)
    (hsmall : m < 2 ^ 62) :
    execInst atoms s (-((m : Int) + 2)) = .ok { s with stack := t :: s.stack } := by
  unfold execInst
  have h0 : (-((m : Int) + 2) == 0) = false := by
    cases hq : (-((m : Int) + 2) == 0) with
    | false => rfl
    | true => have := beq_iff_eq.1 hq; omega
  have h1 : (-((m : Int) + 2) == 1) = false := by
    cases hq : (-((m : Int) + 2) == 1) with
    | false => rfl
    | true => have := beq_iff_eq.1 hq; omega
  have h2 : (-((m : Int) + 2) == -1) = false := by
    cases hq : (-((m : Int) + 2) == -1) with
    | false => rfl
    | true => have := beq_iff_eq.1 hq; omega
  have h3 : ¬ (-((m : Int) + 2) ≥ 2) := by omega
  have h4 : (-((m : Int) + 2) == -(2 : Int) ^ 63) = false := by
    cases hq : (-((m : Int) + 2) == -(2 : Int) ^ 63) with
    | false => rfl
    | true => have := beq_iff_eq.1 hq; omega
  have h5 : ¬ (- -((m : Int) + 2) - 2 < -(2 : Int) ^ 63) := by omega
  have h6 : (- -((m : Int) + 2) - 2).toNat = m := by omega
  simp only [h0, h1, h2, h3, h4, h5, h6, hm, Bool.false_eq_true, if_false]

/-- the left-first cons instruction pops `right`, `left` and pushes the new pair -/
theorem execInst_cons (atoms : List Bytes) (s : DState) (l r : Tree) (stk : List Tree)
    (hs : s.stack = r :: l :: stk) (hroom : s.ctr.pairs < Gen.maxNumPairs) :
    execInst atoms s Direction.leftFirst.consOpcode =
      .ok { ctr := { s.ctr with pairs := s.ctr.pairs + 1 }, pairs := s.pairs ++ [Tree.pair l r],
            stack := Tree.pair l r :: stk } := by
  unfold execInst
  have h0 : (Direction.leftFirst.consOpcode == 0) = false := by decide
  have h1 : (Direction.leftFirst.consOpcode == 1) = true := by decide
  have hl : ¬ (s.stack.length < 2) := by rw [hs]; simp
  have hp : s.ctr.newPair = .ok { s.ctr with pairs := s.ctr.pairs + 1 } := by
    unfold Counters.newPair
    rw [if_neg (by omega)]
  simp only [h0, h1, Bool.false_eq_true, if_false, if_true, hl]
  rw [hs]
  simp only [hp]

/-! ### the simulation -/

/-- what the simulation needs to know about the serializer state and the decoder's atom table -/
structure EmitCtx (A : List Bytes) (P : List (INode × INode)) (st : SerializerState) (atoms' : List Bytes) :
    Prop where
  pairWF : ∀ (k : Nat) (l r : INode), P[k]? = some (l, r) →
    l.rank ≤ k ∧ r.rank ≤ k ∧ l.Valid A.length P.length ∧ r.Valid A.length P.length
  pairs : st.pairs = P.map fun p => (ix p.1, ix p.2)
  atom : ∀ (k : Nat) (b : Bytes), A[k]? = some b → ∃ inst, atomInstruction st (k : Int) = .ok inst ∧
    ∀ s : DState, execInst atoms' s inst = .ok { s with stack := Tree.atom b :: s.stack }

/-- `construction_order` against the decoder's `pairs` vector -/
structure CoInv (A : List Bytes) (P : List (INode × INode)) (co : List (Int × Int)) (s : DState) : Prop where
  len : co.length = s.pairs.length
  sound : ∀ (j : Nat) (ci : Int), co.lookup (pkey j) = some ci →
    ∃ (m : Nat) (t : Tree), j < P.length ∧ ci = (m : Int) ∧ s.pairs[m]? = some t ∧
      treeOf A P (.pair j) = some t
  cnt : s.pairs.length ≤ s.ctr.pairs
  room : s.ctr.pairs + unbuilt P.length co ≤ Gen.maxNumPairs

theorem maxNumPairs_small : Gen.maxNumPairs < 2 ^ 62 := by decide

/-- **handling `Build(ix n)`**: `c` iterations, instructions `is'` that push `treeOf A P n`. -/
theorem emit_build {A : List Bytes} {P : List (INode × INode)} {st : SerializerState} {atoms' : List Bytes}
    (cx : EmitCtx A P st atoms') :
    ∀ (rk : Nat) (n : INode), n.rank ≤ rk → n.Valid A.length P.length →
    ∀ (ws : List Op) (co : List (Int × Int)) (ins : List Int) (s : DState), CoInv A P co s →
    ∃ (t : Tree) (c : Nat) (co' : List (Int × Int)) (is' : List Int) (s' : DState),
      treeOf A P n = some t ∧
      (∀ fuel, emitLoop st (fuel + c) (.build (ix n) :: ws) co ins = emitLoop st fuel ws co' (ins ++ is')) ∧
      execList atoms' is' s = .ok s' ∧ s'.stack = t :: s.stack ∧ CoInv A P co' s' ∧
      c + 3 * unbuilt P.length co' ≤ 3 * unbuilt P.length co + 1 ∧
      (∀ j, n.rank ≤ j → co'.lookup (pkey j) = co.lookup (pkey j)) ∧ is' ≠ [] := by
  intro rk
  induction rk with
  | zero =>
    intro n hrk hv ws co ins s inv
    cases n with
    | pair k => simp [INode.rank] at hrk
    | atom k =>
      have hk : k < A.length := hv
      have hb : A[k]? = some A[k] := List.getElem?_eq_getElem hk
      obtain ⟨inst, hi, hx⟩ := cx.atom k _ hb
      refine ⟨.atom A[k], 1, co, [inst], { s with stack := Tree.atom A[k] :: s.stack }, ?_, ?_, ?_, rfl, ?_, ?_,
        fun _ _ => rfl, by simp⟩
      · rw [treeOf_atom, hb]; rfl
      · intro fuel
        exact emit_step_atom st fuel _ inst ws co ins (by simp [ix]) hi
      · exact execList_single _ _ _ _ (hx s)
      · exact ⟨inv.len, inv.sound, inv.cnt, inv.room⟩
      · omega
  | succ rk ih =>
    intro n hrk hv ws co ins s inv
    cases n with
    | atom k => exact ih (.atom k) (by simp [INode.rank]) hv ws co ins s inv
    | pair k =>
      have hk : k < P.length := hv
      have hrk' : k ≤ rk := by simp only [INode.rank] at hrk; omega
      have hix : ix (.pair k) = pkey k := rfl
      rw [hix]
      cases hc : co.lookup (pkey k) with
      | some ci =>
        obtain ⟨m, t, _, hci, hm, ht⟩ := inv.sound k ci hc
        subst hci
        have hmlt : m < s.pairs.length := getElem?_lt hm
        have hsmall : m < 2 ^ 62 := by
          have := inv.cnt; have := inv.room; have := maxNumPairs_small; omega
        refine ⟨t, 1, co, [-((m : Int) + 2)], { s with stack := t :: s.stack }, ht, ?_, ?_, rfl, ?_, ?_,
          fun _ _ => rfl, by simp⟩
        · intro fuel
          exact emit_step_ref st fuel _ _ ws co ins (pkey_neg k) hc
        · exact execList_single _ _ _ _ (execInst_ref atoms' s m t hm hsmall)
        · exact ⟨inv.len, inv.sound, inv.cnt, inv.room⟩
        · omega
      | none =>
        have hPk : P[k]? = some P[k] := List.getElem?_eq_getElem hk
        obtain ⟨hlr, hrr, hlv, hrv⟩ := cx.pairWF k P[k].1 P[k].2 hPk
        have hsp : st.pairs[(-(pkey k) - 1).toNat]? = some (ix P[k].1, ix P[k].2) := by
          rw [pkey_toNat, cx.pairs, List.getElem?_map, hPk]; rfl
        -- left child
        obtain ⟨tl, cl, co1, is1, s1, htl, hrun1, hex1, hst1, inv1, hf1, hfr1, _⟩ :=
          ih P[k].1 (by omega) hlv (.build (ix P[k].2) :: .cons (pkey k) .leftFirst :: ws) co ins s inv
        -- right child
        obtain ⟨tr, cr, co2, is2, s2, htr, hrun2, hex2, hst2, inv2, hf2, hfr2, _⟩ :=
          ih P[k].2 (by omega) hrv (.cons (pkey k) .leftFirst :: ws) co1 (ins ++ is1) s1 inv1
        have hfresh : co2.lookup (pkey k) = none := by
          rw [hfr2 k hrr, hfr1 k hlr]; exact hc
        have hpos := unbuilt_pos co2 k P.length hfresh hk
        have hroom2 : s2.ctr.pairs < Gen.maxNumPairs := by have := inv2.room; omega
        have hs2 : s2.stack = tr :: tl :: s.stack := by rw [hst2, hst1]
        have hub := (unbuilt_cons co2 k (co2.length : Int) hfresh P.length).1 hk
        refine ⟨.pair tl tr, 1 + cl + cr + 1, (pkey k, (co2.length : Int)) :: co2,
          is1 ++ is2 ++ [Direction.leftFirst.consOpcode],
          { ctr := { s2.ctr with pairs := s2.ctr.pairs + 1 }, pairs := s2.pairs ++ [Tree.pair tl tr],
            stack := Tree.pair tl tr :: s.stack }, ?_, ?_, ?_, rfl, ?_, ?_, ?_, by simp⟩
        · rw [treeOf_pair A P k P[k].1 P[k].2 hPk hlr hrr, htl, htr]
        · intro fuel
          have e1 : fuel + (1 + cl + cr + 1) = (fuel + 1 + cr + cl) + 1 := by omega
          rw [e1, emit_step_expand st _ (pkey k) _ _ ws co ins (pkey_neg k) hc hsp, hrun1 (fuel + 1 + cr),
            hrun2 (fuel + 1), emit_step_cons]
          simp only [List.append_assoc]
        · rw [List.append_assoc, execList_append _ _ _ _ _ hex1, execList_append _ _ _ _ _ hex2]
          exact execList_single _ _ _ _ (execInst_cons atoms' s2 tl tr s.stack hs2 hroom2)
        · refine ⟨by simp [inv2.len], ?_, ?_, ?_⟩
          · intro j ci hj
            rw [lookup_pkey_cons] at hj
            by_cases hjk : j = k
            · subst hjk
              rw [if_pos rfl] at hj
              cases hj
              refine ⟨co2.length, .pair tl tr, hk, rfl, ?_, ?_⟩
              · rw [inv2.len]; simp
              · rw [treeOf_pair A P j P[j].1 P[j].2 hPk hlr hrr, htl, htr]
            · rw [if_neg hjk] at hj
              obtain ⟨m, t, h1, h2, h3, h4⟩ := inv2.sound j ci hj
              refine ⟨m, t, h1, h2, ?_, h4⟩
              rw [List.getElem?_append_left (getElem?_lt h3)]; exact h3
          · have := inv2.cnt; simp; omega
          · show s2.ctr.pairs + 1 + unbuilt P.length ((pkey k, (co2.length : Int)) :: co2) ≤ Gen.maxNumPairs
            have := inv2.room; omega
        · omega
        · intro j hj
          simp only [INode.rank] at hj
          rw [lookup_pkey_cons, if_neg (by omega), hfr2 j (by omega), hfr1 j (by omega)]

end Clvm.Serde2026
